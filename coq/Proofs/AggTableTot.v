(* C07 — TableAggregator: well-formedness, row/column/grand totals are the sums of the cells, min/max. *)
From Coq Require Import List NArith ZArith Bool Lia Sorted Permutation.
From RareV Require Import Base.Hex Base.Num Model.Agg Proofs.AggMap Proofs.AggCounter Proofs.AggTableWf Proofs.AggTable.
Import ListNotations.
Local Open Scope Z_scope.

(* ---------- partition of a sum by a key ---------- *)
Lemma wrap64_zsum_map {A} (f : A -> Z) l : wrap64 (zsum (map (fun x => wrap64 (f x)) l)) = wrap64 (zsum (map f l)).
Proof.
  induction l as [|x l IH]; [reflexivity|]. cbn [map zsum fold_right]. fold (zsum (map (fun x => wrap64 (f x)) l)). fold (zsum (map f l)).
  rewrite wrap64_idem. rewrite <- wrap64_idem_r, IH, wrap64_idem_r. reflexivity.
Qed.

Lemma sum_indicator (L : list bytes) a z : NoDup L -> In a L ->
  zsum (map (fun c => if beq c a then z else 0) L) = z.
Proof.
  induction L as [|x L IH]; intros Hnd Hin; [contradiction|].
  inversion Hnd; subst. cbn [map zsum fold_right]. fold (zsum (map (fun c => if beq c a then z else 0) L)).
  destruct Hin as [->|Hin].
  - rewrite beq_refl. replace (zsum _) with 0; [lia|]. symmetry.
    clear IH Hnd H2. induction L as [|y L IH]; [reflexivity|]. cbn [map zsum fold_right].
    rewrite beq_neq by (intros ->; apply H1; left; reflexivity).
    fold (zsum (map (fun c => if beq c a then z else 0) L)). rewrite IH; [reflexivity|]. intros H; apply H1; right; exact H.
  - rewrite beq_neq by (intros ->; contradiction). rewrite IH by assumption. lia.
Qed.
Lemma sum_indicator_none (L : list bytes) (p : bytes -> bool) z : (forall c, In c L -> p c = false) ->
  zsum (map (fun c => if p c then z else 0) L) = 0.
Proof.
  induction L as [|x L IH]; intros H; [reflexivity|]. cbn [map zsum fold_right].
  rewrite (H x) by (left; reflexivity). fold (zsum (map (fun c => if p c then z else 0) L)). rewrite IH; [reflexivity|].
  intros c Hc. apply H. right. exact Hc.
Qed.

Lemma zsum_map_add {A} (f g : A -> Z) l : zsum (map (fun x => f x + g x) l) = zsum (map f l) + zsum (map g l).
Proof. induction l as [|x l IH]; [reflexivity|]. cbn [map zsum fold_right] in *. unfold zsum in *. rewrite IH. lia. Qed.

(* sum over the keys of a partition = the whole sum *)
Lemma partition_sum (key : bytes * bytes * Z -> bytes) (q : bytes * bytes * Z -> bool) (L : list bytes) (v : v3) :
  NoDup L -> (forall x, In x v -> In (key x) L) ->
  zsum (map (fun c => sum3 (fun x => beq c (key x) && q x) v) L) = sum3 q v.
Proof.
  intros Hnd. induction v as [|x v IH]; intros Hin.
  - unfold sum3. cbn. clear. induction L as [|y L IHL]; [reflexivity|]. cbn. unfold zsum in *. rewrite IHL. reflexivity.
  - assert (Hv : forall y, In y v -> In (key y) L) by (intros y Hy; apply Hin; right; exact Hy).
    specialize (IH Hv).
    assert (E : forall c, sum3 (fun x0 => beq c (key x0) && q x0) (x :: v)
                        = (if beq c (key x) then (if q x then snd x else 0) else 0) + sum3 (fun x0 => beq c (key x0) && q x0) v).
    { intros c. unfold sum3. cbn [filter]. destruct (beq c (key x)); cbn [andb]; [destruct (q x)|]; cbn; unfold zsum; lia. }
    rewrite (map_ext _ _ E), zsum_map_add, IH.
    rewrite (sum_indicator L (key x) (if q x then snd x else 0) Hnd (Hin x (or_introl eq_refl))).
    unfold sum3. cbn [filter]. destruct (q x); cbn; unfold zsum; lia.
Qed.

Lemma zsum_filter_zero {A} (p : A -> bool) (f : A -> Z) l : (forall x, In x l -> p x = false -> f x = 0) ->
  zsum (map f (filter p l)) = zsum (map f l).
Proof.
  induction l as [|x l IH]; intros H; [reflexivity|]. cbn [filter map].
  assert (IH' : zsum (map f (filter p l)) = zsum (map f l)) by (apply IH; intros y Hy; apply H; right; exact Hy).
  destruct (p x) eqn:E; cbn [map zsum fold_right]; unfold zsum in *; rewrite IH'; [reflexivity|].
  rewrite (H x (or_introl eq_refl) E). lia.
Qed.

(* ---------- the specification's totals ---------- *)
Lemma In_usort_key {A} (f : A -> bytes) (v : list A) x : In x v -> In (f x) (usort (map f v)).
Proof. intros H. apply In_usort. apply in_map. exact H. Qed.

Lemma row_sum_cells r v : wrap64 (sum_b r v) = wrap64 (zsum (map snd (cells_spec r v))).
Proof.
  unfold cells_spec. rewrite map_map. cbn [snd].
  rewrite (wrap64_zsum_map (fun c => sum_ab c r v)).
  rewrite (zsum_filter_zero (fun c => has_ab c r v) (fun c => sum_ab c r v)) by (intros; apply has_ab_false_sum; assumption).
  f_equal. symmetry.
  apply (partition_sum (fun x => fst (fst x)) (fun x => beq r (snd (fst x))) (usort (colkeys v)) v).
  - apply ksorted_NoDup, usort_sorted.
  - intros x Hx. apply (In_usort_key (fun p : bytes * bytes * Z => fst (fst p))). exact Hx.
Qed.

Lemma t_value_cells_spec c r v : t_value (cells_spec r v, wrap64 (sum_b r v)) c = wrap64 (sum_ab c r v).
Proof.
  unfold t_value. cbn [fst]. rewrite afind_cells_spec. destruct (has_ab c r v) eqn:E; cbn [dflt]; [reflexivity|].
  rewrite has_ab_false_sum by exact E. reflexivity.
Qed.

Lemma col_total_cells c v :
  wrap64 (sum_a c v) = wrap64 (zsum (map (fun rw : bytes * trow => t_value (snd rw) c) (rows_spec v))).
Proof.
  unfold rows_spec. rewrite map_map. cbn [snd].
  rewrite (map_ext _ (fun r => wrap64 (sum_ab c r v))) by (intros r; apply t_value_cells_spec).
  rewrite (wrap64_zsum_map (fun r => sum_ab c r v)). f_equal. symmetry.
  pose proof (partition_sum (fun x => snd (fst x)) (fun x => beq c (fst (fst x))) (usort (rowkeys v)) v) as P.
  transitivity (sum3 (fun x => beq c (fst (fst x))) v); [|reflexivity].
  rewrite <- P.
  - apply f_equal, map_ext. intros r. unfold sum_ab, sum3. f_equal. f_equal. apply filter_ext. intros x. apply andb_comm.
  - apply ksorted_NoDup, usort_sorted.
  - intros x Hx. apply (In_usort_key (fun p : bytes * bytes * Z => snd (fst p))). exact Hx.
Qed.

Lemma fold_add64 l a : fold_left add64 l (wrap64 a) = wrap64 (a + zsum l).
Proof.
  revert a. induction l as [|x l IH]; intros a; cbn [fold_left zsum fold_right].
  - rewrite Z.add_0_r. reflexivity.
  - rewrite add64_wrap, IH. fold (zsum l). f_equal. lia.
Qed.

Lemma grand_sum v : t_sum (mkT (rows_spec v) (cols_spec v) 0) = wrap64 (zsum (map snd v)).
Proof.
  unfold t_sum. cbn [t_cols]. change 0 with (wrap64 0) at 1. rewrite fold_add64. cbn [Z.add].
  unfold cols_spec. rewrite map_map. cbn [snd]. rewrite (wrap64_zsum_map (fun c => sum_a c v)). f_equal.
  pose proof (partition_sum (fun x => fst (fst x)) (fun _ => true) (usort (colkeys v)) v) as P.
  assert (F : forall (l : v3), filter (fun _ => true) l = l) by (induction l; cbn; congruence).
  transitivity (sum3 (fun _ => true) v); [|unfold sum3; rewrite F; reflexivity].
  rewrite <- P.
  - apply f_equal, map_ext. intros c. unfold sum_a, sum3. f_equal. f_equal. apply filter_ext. intros x. rewrite andb_true_r. reflexivity.
  - apply ksorted_NoDup, usort_sorted.
  - intros x Hx. apply (In_usort_key (fun p : bytes * bytes * Z => fst (fst p))). exact Hx.
Qed.

Lemma In_rows_spec r cells sm v : In (r, (cells, sm)) (rows_spec v) ->
  In r (rowkeys v) /\ cells = cells_spec r v /\ sm = wrap64 (sum_b r v).
Proof.
  unfold rows_spec. rewrite in_map_iff. intros (r' & E & Hin). inversion E; subst.
  apply (proj1 (In_usort _ _)) in Hin. split; [exact Hin|]. split; reflexivity.
Qed.

Theorem spec_table_wf d h : t_wf (spec_table d h) /\ t_totals_ok (spec_table d h).
Proof.
  rewrite spec_table_unfold. set (v := valid3 d h). split; [split; [|split; [|split]]|split]; cbn [t_rows t_cols].
  - apply rows_spec_sorted.
  - apply cols_spec_sorted.
  - intros r cells sm Hin. apply In_rows_spec in Hin as (Hr & -> & ->). split; [apply cells_spec_sorted|]. split.
    + unfold rowkeys in Hr. apply in_map_iff in Hr as (x & <- & Hx).
      assert (Hh : has_ab (fst (fst x)) (snd (fst x)) v = true).
      { unfold has_ab. apply existsb_exists. exists x. split; [exact Hx|]. rewrite !beq_refl. reflexivity. }
      apply cells_spec_keys in Hh. intros E. rewrite E in Hh. contradiction.
    + intros c Hc. apply cells_spec_keys in Hc. apply has_ab_col in Hc as [Hc _].
      unfold cols_spec. rewrite keys_tab. apply In_usort. exact Hc.
  - intros c Hc. unfold cols_spec in Hc. rewrite keys_tab in Hc. apply (proj1 (In_usort _ _)) in Hc.
    unfold colkeys in Hc. apply in_map_iff in Hc as (x & <- & Hx).
    exists (snd (fst x)), (cells_spec (snd (fst x)) v), (wrap64 (sum_b (snd (fst x)) v)). split.
    + unfold rows_spec. apply in_map_iff. exists (snd (fst x)). split; [reflexivity|].
      apply (In_usort_key (fun p : bytes * bytes * Z => snd (fst p))). exact Hx.
    + apply cells_spec_keys. unfold has_ab. apply existsb_exists. exists x. split; [exact Hx|]. rewrite !beq_refl. reflexivity.
  - intros r cells sm Hin. apply In_rows_spec in Hin as (_ & -> & ->). apply row_sum_cells.
  - intros c z Hin. unfold cols_spec in Hin. apply in_map_iff in Hin as (c' & E & _). inversion E; subst.
    apply col_total_cells.
Qed.

(* C07_table_totals (for the model itself) *)
Theorem table_wf_proof : forall d h, t_wf (t_run d h) /\ t_totals_ok (t_run d h).
Proof. intros d h. rewrite table_fold_proof. apply spec_table_wf. Qed.

Theorem table_sum_proof : forall d h, t_sum (t_run d h) = wrap64 (zsum (map snd (valid3 d h))).
Proof.
  intros d h. rewrite table_fold_proof, spec_table_unfold. unfold t_sum. cbn [t_cols].
  exact (grand_sum (valid3 d h)).
Qed.

(* ---------- ComputeMinMax ---------- *)
Lemma fold_min_spec l a : let m := fold_left Z.min l a in m <= a /\ (forall x, In x l -> m <= x) /\ (m = a \/ In m l).
Proof.
  revert a. induction l as [|x l IH]; intros a; cbn [fold_left].
  - cbn. split; [lia|]. split; [intros x []|left; reflexivity].
  - specialize (IH (Z.min a x)). cbn zeta in *. destruct IH as (H1 & H2 & H3). split; [lia|]. split.
    + intros y [->|Hy]; [lia | apply H2; exact Hy].
    + destruct H3 as [H3|H3]; [|right; right; exact H3].
      destruct (Z.min_spec a x) as [[_ E]|[_ E]]; [left; rewrite H3; exact E | right; left; rewrite H3, E; reflexivity].
Qed.
Lemma fold_max_spec l a : let m := fold_left Z.max l a in a <= m /\ (forall x, In x l -> x <= m) /\ (m = a \/ In m l).
Proof.
  revert a. induction l as [|x l IH]; intros a; cbn [fold_left].
  - cbn. split; [lia|]. split; [intros x []|left; reflexivity].
  - specialize (IH (Z.max a x)). cbn zeta in *. destruct IH as (H1 & H2 & H3). split; [lia|]. split.
    + intros y [->|Hy]; [lia | apply H2; exact Hy].
    + destruct H3 as [H3|H3]; [|right; right; exact H3].
      destruct (Z.max_spec a x) as [[_ E]|[_ E]]; [right; left; rewrite H3, E; reflexivity | left; rewrite H3; exact E].
Qed.

Lemma wrap64_range z : min_int64 <= wrap64 z <= max_int64.
Proof.
  unfold wrap64, min_int64, max_int64. pose proof (Z.mod_pos_bound (z + 2 ^ 63) (2 ^ 64) ltac:(lia)). lia.
Qed.

(* every row x every column, absent cells counting as 0; (0,0) for an empty table; the code's
   sentinels make a minimum equal to MaxInt64 (maximum equal to MinInt64) read as 0 *)
Theorem table_minmax_proof : forall t,
  let vs := t_cellvals t in
  (vs = [] -> t_minmax t = (0, 0)) /\
  ((forall x, In x vs -> min_int64 <= x <= max_int64) -> vs <> [] ->
     exists mn mx, In mn vs /\ In mx vs /\ (forall x, In x vs -> mn <= x <= mx) /\
       t_minmax t = ((if mn =? max_int64 then 0 else mn), (if mx =? min_int64 then 0 else mx))).
Proof.
  intros t vs. split.
  - intros E. unfold t_minmax. fold vs. rewrite E. reflexivity.
  - intros Hr Hne. unfold t_minmax. fold vs.
    destruct (fold_min_spec vs max_int64) as (A1 & A2 & A3). destruct (fold_max_spec vs min_int64) as (B1 & B2 & B3).
    cbn zeta in *. set (mn := fold_left Z.min vs max_int64) in *. set (mx := fold_left Z.max vs min_int64) in *.
    assert (Hmn : In mn vs).
    { destruct A3 as [E|H]; [|exact H]. destruct vs as [|x r]; [contradiction|].
      assert (x = mn) by (pose proof (A2 x (or_introl eq_refl)); pose proof (Hr x (or_introl eq_refl)); lia).
      left. assumption. }
    assert (Hmx : In mx vs).
    { destruct B3 as [E|H]; [|exact H]. destruct vs as [|x r]; [contradiction|].
      assert (x = mx) by (pose proof (B2 x (or_introl eq_refl)); pose proof (Hr x (or_introl eq_refl)); lia).
      left. assumption. }
    exists mn, mx. repeat split; auto.
Qed.

Lemma t_cellvals_range d h : forall x, In x (t_cellvals (t_run d h)) -> min_int64 <= x <= max_int64.
Proof.
  rewrite table_fold_proof, spec_table_unfold. unfold t_cellvals. cbn [t_rows t_cols].
  intros x Hx. apply in_flat_map in Hx as (rw & Hrw & Hx). apply in_map_iff in Hx as (cl & <- & _).
  destruct rw as [r [cells sm]]. apply In_rows_spec in Hrw as (_ & -> & ->). cbn [snd].
  rewrite t_value_cells_spec. apply wrap64_range.
Qed.
