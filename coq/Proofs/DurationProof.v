(* C18 — durationformat then duration is the identity on whole seconds (no int64 overflow). *)
From Coq Require Import List ZArith NArith Lia Bool ZifyN ZifyNat ZifyBool.
From RareV Require Import Base.Hex Base.Num Gen.GenTime Model.Duration Model.C18Check Proofs.NumProof.
Import ListNotations.
Local Open Scope N_scope.

Lemma is_digit_bounds c : is_digit c = true -> 48 <= c <= 57.
Proof. apply is_digit_range. Qed.

(* leadingInt on digits followed by a non-digit *)
Lemma leading_int_digits ds : forall x n c rest,
  udec x ds = Some n -> n <= two63 / 10 -> is_digit c = false ->
  leading_int x (ds ++ c :: rest) = Some (n, c :: rest).
Proof.
  induction ds as [|d ds IH]; intros x n c rest H Hn Hc.
  - cbn in H. inversion H; subst. cbn. rewrite Hc. reflexivity.
  - cbn [udec] in H. destruct (is_digit d) eqn:Hd; [|discriminate].
    cbn [app leading_int]. rewrite Hd.
    pose proof (udec_mono _ _ _ H) as Hm.
    assert (Hx : x <= two63 / 10).
    { pose proof (is_digit_bounds d Hd). lia. }
    replace (two63 / 10 <? x) with false by (symmetry; apply N.ltb_ge; exact Hx).
    replace (two63 <? x * 10 + (d - 48)) with false.
    + apply IH; assumption.
    + symmetry. apply N.ltb_ge. assert (two63 / 10 <= two63) by (vm_compute; discriminate). lia.
Qed.

Lemma leading_int_utoa n c rest : n <= two63 / 10 -> is_digit c = false ->
  leading_int 0 (utoa n ++ c :: rest) = Some (n, c :: rest).
Proof. intros. apply leading_int_digits; auto. apply udec_utoa. Qed.

Definition digit_or_end (rest : bytes) : Prop :=
  match rest with [] => True | c :: _ => is_digit c = true end.

Lemma unit_char_digit c : is_digit c = true -> unit_char c = false.
Proof. intros H. unfold unit_char. rewrite H, orb_true_r. reflexivity. Qed.

(* one component n<unit> with a one-byte unit u in {h, m, s} *)
Lemma dur_step fuel d n u unit rest :
  unit_ns [u] = Some unit -> unit_char u = true -> 0 < unit ->
  digit_or_end rest ->
  n <= two63 / 10 -> n <= two63 / unit -> d + n * unit <= two63 ->
  dur_loop (S fuel) d (utoa n ++ u :: rest) = dur_loop fuel (d + n * unit) rest.
Proof.
  intros Hu Huc Hpos Hrest Hn10 Hnu Hd.
  destruct (utoa_cons n) as (c0 & r0 & E0 & Hc0).
  assert (Hnd : is_digit u = false).
  { unfold unit_char in Huc. apply negb_true_iff, orb_false_iff in Huc. tauto. }
  assert (Hn46 : (u =? 46) = false).
  { unfold unit_char in Huc. apply negb_true_iff, orb_false_iff in Huc. tauto. }
  rewrite E0. cbn [app dur_loop]. rewrite Hc0, orb_true_r. cbn [negb].
  change (c0 :: r0 ++ u :: rest) with ((c0 :: r0) ++ u :: rest).
  rewrite <- E0. rewrite leading_int_utoa by assumption.
  rewrite Hn46.
  assert (Hlen : Nat.eqb (List.length (u :: rest)) (List.length (utoa n ++ u :: rest)) = false).
  { apply Nat.eqb_neq. rewrite app_length, E0. cbn. lia. }
  rewrite Hlen. cbn [negb andb].
  assert (Hsp : span_unit (u :: rest) = ([u], rest)).
  { cbn [span_unit]. rewrite Huc. destruct rest as [|c r]; [reflexivity|].
    cbn in Hrest. cbn [span_unit]. rewrite (unit_char_digit c Hrest). reflexivity. }
  rewrite Hsp, Hu.
  replace (two63 / unit <? n) with false by (symmetry; apply N.ltb_ge; exact Hnu).
  change (0 <? 0) with false. cbv iota.
  assert (n * unit <= two63) by (pose proof (N.mul_div_le two63 unit ltac:(lia)); nia).
  replace (two63 <? n * unit) with false by (symmetry; apply N.ltb_ge; assumption).
  replace (two63 <? d + n * unit) with false by (symmetry; apply N.ltb_ge; assumption).
  reflexivity.
Qed.

Lemma utoa_head_digit n rest : digit_or_end (utoa n ++ rest).
Proof. destruct (utoa_cons n) as (c0 & r0 & -> & H). exact H. Qed.

Definition body_of (secs : N) : bytes :=
  let mins := secs / 60 in
  let hours := mins / 60 in
  (if 0 <? mins then (if 0 <? hours then utoa hours ++ [104] else []) ++ utoa (mins mod 60) ++ [109] else [])
  ++ utoa (secs mod 60) ++ [115].

Lemma format_whole secs : 0 < secs ->
  format_duration (Z.of_N (secs * ns_second)) = body_of secs /\
  format_duration (- Z.of_N (secs * ns_second)) = 45 :: body_of secs.
Proof.
  intros Hs. unfold format_duration, body_of.
  assert (Ha : Z.abs_N (Z.of_N (secs * ns_second)) = secs * ns_second) by lia.
  assert (Hb : Z.abs_N (- Z.of_N (secs * ns_second)) = secs * ns_second) by lia.
  rewrite Ha, Hb.
  assert (Hge : (secs * ns_second <? ns_second) = false) by (apply N.ltb_ge; unfold ns_second; lia).
  rewrite Hge.
  assert (Hq : secs * ns_second / ns_second = secs) by (apply N.div_mul; unfold ns_second; lia).
  rewrite Hq.
  assert (Hf : fmt_frac_digits (secs * ns_second) 9 = []).
  { unfold fmt_frac_digits. replace ((secs * ns_second) mod 10 ^ N.of_nat 9) with 0; [reflexivity|].
    symmetry. change (10 ^ N.of_nat 9) with ns_second. apply N.mod_mul. unfold ns_second. lia. }
  rewrite Hf. cbn [app].
  replace (Z.of_N (secs * ns_second) <? 0)%Z with false by (symmetry; apply Z.ltb_ge; lia).
  replace (- Z.of_N (secs * ns_second) <? 0)%Z with true by (symmetry; apply Z.ltb_lt; unfold ns_second; lia).
  split; reflexivity.
Qed.

Definition max_secs : N := 9223372036.

Lemma dur_loop_body secs : 0 < secs <= max_secs ->
  dur_loop (S (List.length (body_of secs))) 0 (body_of secs) = Some (secs * ns_second).
Proof.
  intros [Hpos Hmax]. unfold body_of.
  set (mins := secs / 60). set (hours := mins / 60).
  pose proof (N.div_mod secs 60 ltac:(lia)) as Hs. fold mins in Hs.
  pose proof (N.div_mod mins 60 ltac:(lia)) as Hm. fold hours in Hm.
  pose proof (N.mod_lt secs 60 ltac:(lia)). pose proof (N.mod_lt mins 60 ltac:(lia)).
  assert (Hh : hours <= 2562047) by (unfold max_secs in Hmax; lia).
  assert (U1 : unit_ns [104] = Some 3600000000000) by (vm_compute; reflexivity).
  assert (U2 : unit_ns [109] = Some 60000000000) by (vm_compute; reflexivity).
  assert (U3 : unit_ns [115] = Some 1000000000) by (vm_compute; reflexivity).
  assert (T63 : two63 = 9223372036854775808) by (vm_compute; reflexivity).
  assert (Q10 : two63 / 10 = 922337203685477580) by (vm_compute; reflexivity).
  assert (Qh : two63 / 3600000000000 = 2562047) by (vm_compute; reflexivity).
  assert (Qm : two63 / 60000000000 = 153722867) by (vm_compute; reflexivity).
  assert (Qs : two63 / 1000000000 = 9223372036) by (vm_compute; reflexivity).
  change ns_second with 1000000000.
  unfold max_secs in Hmax.
  destruct (0 <? mins) eqn:Em; [destruct (0 <? hours) eqn:Eh|].
  - (* h m s *)
    rewrite <- !app_assoc. cbn [app].
    set (rest2 := utoa (secs mod 60) ++ [115]).
    set (rest1 := utoa (mins mod 60) ++ 109 :: rest2).
    assert (L : exists f, S (List.length (utoa hours ++ 104 :: rest1)) = S (S (S (S f)))).
    { unfold rest1, rest2. rewrite !app_length. cbn [List.length]. rewrite !app_length. cbn [List.length].
      destruct (utoa_cons hours) as (? & ? & -> & _). destruct (utoa_cons (mins mod 60)) as (? & ? & -> & _).
      cbn [List.length]. eexists. repeat rewrite Nat.add_succ_r. reflexivity. }
    destruct L as [f ->].
    unfold rest1.
    rewrite (dur_step _ 0 hours 104 _ _ U1) by (first [reflexivity | apply utoa_head_digit | lia]).
    unfold rest2.
    rewrite (dur_step _ _ (mins mod 60) 109 _ _ U2) by (first [reflexivity | apply utoa_head_digit | lia]).
    rewrite (dur_step _ _ (secs mod 60) 115 _ [] U3) by (first [reflexivity | exact I | lia]).
    cbn [dur_loop]. f_equal. lia.
  - (* m s *)
    apply N.ltb_ge in Eh. assert (hours = 0) by lia.
    cbn [app]. rewrite <- !app_assoc. cbn [app].
    set (rest2 := utoa (secs mod 60) ++ [115]).
    assert (L : exists f, S (List.length (utoa (mins mod 60) ++ 109 :: rest2)) = S (S (S f))).
    { unfold rest2. rewrite !app_length. cbn [List.length]. rewrite !app_length. cbn [List.length].
      destruct (utoa_cons (mins mod 60)) as (? & ? & -> & _).
      cbn [List.length]. eexists. repeat rewrite Nat.add_succ_r. reflexivity. }
    destruct L as [f ->].
    unfold rest2.
    rewrite (dur_step _ 0 (mins mod 60) 109 _ _ U2) by (first [reflexivity | apply utoa_head_digit | lia]).
    rewrite (dur_step _ _ (secs mod 60) 115 _ [] U3) by (first [reflexivity | exact I | lia]).
    cbn [dur_loop]. f_equal. lia.
  - (* s *)
    apply N.ltb_ge in Em. assert (mins = 0) by lia.
    cbn [app].
    assert (L : exists f, S (List.length (utoa (secs mod 60) ++ [115])) = S (S f)).
    { rewrite !app_length. cbn [List.length]. eexists. repeat rewrite Nat.add_succ_r. reflexivity. }
    destruct L as [f ->].
    rewrite (dur_step _ 0 (secs mod 60) 115 _ [] U3) by (first [reflexivity | exact I | lia]).
    cbn [dur_loop]. f_equal. lia.
Qed.

Lemma body_shape secs : exists d0 c r, body_of secs = d0 :: c :: r /\ is_digit d0 = true.
Proof.
  unfold body_of.
  destruct (0 <? secs / 60); [destruct (0 <? secs / 60 / 60)|].
  - destruct (utoa_cons (secs / 60 / 60)) as (d0 & r0 & -> & H). cbn [app].
    destruct r0; cbn [app]; eauto.
  - cbn [app]. destruct (utoa_cons (secs / 60 mod 60)) as (d0 & r0 & -> & H). cbn [app].
    destruct r0; cbn [app]; eauto.
  - cbn [app]. destruct (utoa_cons (secs mod 60)) as (d0 & r0 & -> & H). cbn [app].
    destruct r0; cbn [app]; eauto.
Qed.

Lemma digit_not_sign d : is_digit d = true -> (d =? 45) = false /\ (d =? 43) = false.
Proof. intros H. apply is_digit_bounds in H. split; apply N.eqb_neq; lia. Qed.

Lemma parse_duration_pos b d0 c r n : b = d0 :: c :: r -> is_digit d0 = true ->
  dur_loop (S (List.length b)) 0 b = Some n -> n <= two63 - 1 -> parse_duration b = Some (Z.of_N n).
Proof.
  intros -> Hd HL Hn. destruct (digit_not_sign d0 Hd) as [N45 N43].
  unfold parse_duration. cbv iota beta. rewrite N45, N43. cbv iota beta.
  cbn [bytes_eqb]. rewrite andb_false_r. rewrite HL.
  replace (two63 - 1 <? n) with false by (symmetry; apply N.ltb_ge; exact Hn). reflexivity.
Qed.

Lemma parse_duration_neg b d0 c r n : b = d0 :: c :: r ->
  dur_loop (S (List.length b)) 0 b = Some n -> parse_duration (45 :: b) = Some (- Z.of_N n)%Z.
Proof.
  intros -> HL. unfold parse_duration. cbv iota beta. change (45 =? 45) with true. cbv iota beta.
  cbn [bytes_eqb]. rewrite andb_false_r. rewrite HL. reflexivity.
Qed.

(* ParseDuration (Duration.String (s seconds)) = s seconds *)
Theorem duration_roundtrip_ns : forall s : Z,
  (- max_whole_secs <= s <= max_whole_secs)%Z ->
  parse_duration (format_duration (s * 1000000000)) = Some (s * 1000000000)%Z.
Proof.
  intros s Hs. unfold max_whole_secs in Hs.
  destruct (Z.eq_dec s 0) as [->|Hne]; [reflexivity|].
  set (secs := Z.abs_N s).
  assert (Hsecs : 0 < secs <= max_secs) by (unfold secs, max_secs; lia).
  destruct (format_whole secs (proj1 Hsecs)) as [Fp Fn].
  destruct (body_shape secs) as (d0 & c & r & Eb & Hd0).
  pose proof (dur_loop_body secs Hsecs) as HL.
  assert (Hns : (Z.of_N (secs * ns_second) = Z.abs s * 1000000000)%Z) by (unfold secs, ns_second; lia).
  destruct (Z_lt_le_dec s 0) as [Neg|Pos].
  - replace (s * 1000000000)%Z with (- Z.of_N (secs * ns_second))%Z by lia.
    rewrite Fn. exact (parse_duration_neg _ _ _ _ _ Eb HL).
  - replace (s * 1000000000)%Z with (Z.of_N (secs * ns_second)) by lia.
    rewrite Fp. apply (parse_duration_pos _ _ _ _ _ Eb Hd0 HL).
    unfold max_secs in Hsecs. change two63 with 9223372036854775808. unfold ns_second. lia.
Qed.

Lemma wrap64_small z : (- 2 ^ 63 <= z < 2 ^ 63)%Z -> wrap64 z = z.
Proof.
  intros H. unfold wrap64. rewrite Z.mod_small by lia. lia.
Qed.

(* {duration {durationformat s}} = s *)
Theorem duration_roundtrip_kf : forall s : Z,
  (- max_whole_secs <= s <= max_whole_secs)%Z ->
  kf_duration (kf_durationformat (itoa s)) = itoa s.
Proof.
  intros s Hs. unfold kf_durationformat.
  assert (Hi : in_int64 s = true).
  { unfold in_int64, min_int64, max_int64, max_whole_secs in *. apply andb_true_iff. split; apply Z.leb_le; lia. }
  rewrite atoi_itoa by exact Hi.
  rewrite wrap64_small by (unfold max_whole_secs in Hs; lia).
  unfold kf_duration. rewrite duration_roundtrip_ns by exact Hs.
  unfold dur_seconds. rewrite Z.quot_mul by lia. reflexivity.
Qed.

Lemma bytes_eqb_refl' a : bytes_eqb a a = true.
Proof. apply bytes_eqb_eq. reflexivity. Qed.

Theorem check_durationformat_sound : forall arg, C18_check_durationformat arg (kf_durationformat arg) = true.
Proof.
  intros arg. unfold C18_check_durationformat. rewrite bytes_eqb_refl'. cbn [andb].
  destruct (atoi arg) as [secs|] eqn:Ea; [|reflexivity].
  destruct ((- max_whole_secs <=? secs)%Z && (secs <=? max_whole_secs)%Z) eqn:Er; [|reflexivity].
  apply andb_true_iff in Er as [E1 E2]. apply Z.leb_le in E1, E2.
  unfold kf_durationformat. rewrite Ea.
  rewrite wrap64_small by (unfold max_whole_secs in *; lia).
  unfold kf_duration. rewrite duration_roundtrip_ns by lia.
  unfold dur_seconds. rewrite Z.quot_mul by lia. apply bytes_eqb_refl'.
Qed.

Theorem check_duration_sound : forall s, C18_check_duration s (kf_duration s) = true.
Proof. intros s. apply bytes_eqb_refl'. Qed.

(* unparseable input yields the error marker *)
Theorem duration_error_marker : forall s, parse_duration s = None -> kf_duration s = timeErrorParsing.
Proof. intros s H. unfold kf_duration. rewrite H. reflexivity. Qed.
Theorem durationformat_error_marker : forall a, atoi a = None -> kf_durationformat a = timeErrorNum.
Proof. intros a H. unfold kf_durationformat. rewrite H. reflexivity. Qed.
