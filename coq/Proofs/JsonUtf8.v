(* C16: the writer copies bytes >= 0x80 unchanged and everything it adds is ASCII, so a view of
   well-formed UTF-8 names and texts is well-formed UTF-8. *)
From Coq Require Import List NArith ZArith Bool Lia ZifyBool.
From RareV Require Import Base.Hex Base.Num Gen.GenJson Model.Json Proofs.JsonEscape Proofs.JsonNumber Proofs.JsonParse.
Import ListNotations.
Local Open Scope N_scope.

Lemma utf8_app a b : utf8 a -> utf8 b -> utf8 (a ++ b).
Proof.
  induction 1 as [|ch r H _ IH]; intros Hb; [exact Hb|].
  rewrite <- app_assoc. constructor; [exact H|apply IH; exact Hb].
Qed.

Lemma utf8_ascii l : Forall (fun b => b < 128) l -> utf8 l.
Proof.
  induction 1 as [|b l H _ IH]; [constructor|].
  change (b :: l) with ([b] ++ l). constructor; [|exact IH]. cbn. apply N.ltb_lt. exact H.
Qed.

(* a well-formed character is one ASCII byte or consists of bytes >= 0x80 only *)
Lemma utf8_char_cases ch : utf8_char ch = true ->
  (exists a, ch = [a] /\ a < 128) \/ Forall (fun b => 128 <= b) ch.
Proof.
  destruct ch as [|a [|b [|c [|d [|e r]]]]]; cbn [utf8_char]; try discriminate; intros H.
  - left. exists a. split; [reflexivity|]. apply N.ltb_lt. exact H.
  - right. unfold cont in H. repeat (apply Forall_cons; [lia|]). constructor.
  - right. unfold cont in H. repeat (apply Forall_cons; [lia|]). constructor.
  - right. unfold cont in H. repeat (apply Forall_cons; [lia|]). constructor.
Qed.

(* only ASCII bytes have an escape-table entry *)
Lemma entry_small b e : lookup b = Some e -> b < 128.
Proof.
  intros L. destruct (lookup_entry _ _ L) as [Hne Hok]. unfold entry_ok_b in Hok.
  destruct e as [|bs [|c [|h1 [|h2 [|h3 [|h4 [|x e]]]]]]]; try discriminate; try congruence.
  - apply andb_true_iff in Hok as [_ Hok]. unfold simple_esc in Hok.
    repeat match type of Hok with
           | context [if ?t then _ else _] => destruct t; [apply N.eqb_eq in Hok; lia|]
           end. discriminate.
  - apply andb_true_iff in Hok as [_ Hok]. destruct (hex4 h1 h2 h3 h4) as [cp|]; [|discriminate].
    apply andb_true_iff in Hok as [E L2]. apply N.eqb_eq in E. apply N.ltb_lt in L2. lia.
Qed.

Lemma esc_high b : 128 <= b -> esc_byte b = [b].
Proof.
  intros H. unfold esc_byte. destruct (lookup b) as [e|] eqn:L.
  - apply entry_small in L. lia.
  - assert (C : b <? 32 = false) by (apply N.ltb_ge; lia). rewrite C. reflexivity.
Qed.

Lemma escape_high l : Forall (fun b => 128 <= b) l -> escape l = l.
Proof.
  induction 1 as [|b l H _ IH]; [reflexivity|]. unfold escape in *. cbn [flat_map].
  rewrite (esc_high b H), IH. reflexivity.
Qed.

Definition ascii_b (l : bytes) : bool := forallb (fun b => b <? 128) l.

Lemma esc_ascii_all : forallb (fun b => ascii_b (esc_byte b)) (map N.of_nat (seq 0 128)) = true.
Proof. vm_compute. reflexivity. Qed.

Lemma ascii_b_Forall l : ascii_b l = true -> Forall (fun b => b < 128) l.
Proof.
  unfold ascii_b. rewrite forallb_forall. intros H. apply Forall_forall. intros b Hb. apply N.ltb_lt. auto.
Qed.

Lemma esc_low b : b < 128 -> Forall (fun x => x < 128) (esc_byte b).
Proof.
  intros H. pose proof esc_ascii_all as A. rewrite forallb_forall in A. apply ascii_b_Forall. apply A.
  apply in_map_iff. exists (N.to_nat b). split; [apply N2Nat.id|]. apply in_seq. lia.
Qed.

Theorem escape_utf8 s : utf8 s -> utf8 (escape s).
Proof.
  induction 1 as [|ch r H _ IH]; [constructor|]. rewrite escape_app.
  destruct (utf8_char_cases ch H) as [(a & -> & La)|Hh].
  - apply utf8_app; [|exact IH]. unfold escape. cbn [flat_map]. rewrite app_nil_r.
    apply utf8_ascii. apply esc_low. exact La.
  - rewrite (escape_high ch Hh). constructor; assumption.
Qed.

Lemma utf8_lit l : ascii_b l = true -> utf8 l.
Proof. intros H. apply utf8_ascii. apply ascii_b_Forall. exact H. Qed.

Lemma write_val_utf8 v : utf8 v -> utf8 (write_val (infer v)).
Proof.
  intros H. unfold infer. destruct (is_numeric v); [exact H|].
  destruct (fold_eq w_true v); [apply utf8_lit; reflexivity|].
  destruct (fold_eq w_false v); [apply utf8_lit; reflexivity|].
  cbn [write_val]. apply utf8_app; [apply utf8_lit; reflexivity|].
  apply utf8_app; [apply escape_utf8; exact H|apply utf8_lit; reflexivity].
Qed.

Lemma write_members_utf8 ms : forall first,
  Forall (fun m : bytes * bytes => utf8 (fst m) /\ utf8 (snd m)) ms -> utf8 (write_members first (infer_members ms)).
Proof.
  induction ms as [|[k v] ms IH]; intros first F; [constructor|].
  inversion F as [|? ? [Hk Hv] F2]; subst. cbn [fst snd] in *.
  cbn [infer_members map write_members fst snd]. apply utf8_app; [|apply IH; exact F2].
  unfold write_member. apply utf8_app; [destruct first; apply utf8_lit; reflexivity|].
  apply utf8_app; [apply utf8_lit; reflexivity|].
  apply utf8_app; [apply escape_utf8; exact Hk|].
  apply utf8_app; [apply utf8_lit; reflexivity|apply write_val_utf8; exact Hv].
Qed.

Theorem render_utf8 ms :
  Forall (fun m : bytes * bytes => utf8 (fst m) /\ utf8 (snd m)) ms -> utf8 (render (infer_members ms)).
Proof.
  intros F. unfold render. apply utf8_app; [apply utf8_lit; reflexivity|].
  apply utf8_app; [apply write_members_utf8; exact F|apply utf8_lit; reflexivity].
Qed.

(* bytes >= 0x80 are never touched: a text without bytes that need escaping is copied as it is *)
Theorem escape_keeps_high s : Forall (fun b => 128 <= b) s -> escape s = s.
Proof. exact (escape_high s). Qed.
