(* Lemmas about Base/Num.v: decimal printing and parsing of (u)int64 round-trip. *)
From Coq Require Import List NArith ZArith Lia Bool ZifyN ZifyNat ZifyBool.
From RareV Require Import Base.Hex Base.Num.
Import ListNotations.
Local Open Scope N_scope.

Lemma is_digit_range b : is_digit b = true <-> 48 <= b <= 57.
Proof.
  unfold is_digit. rewrite andb_true_iff, !N.leb_le. tauto.
Qed.

Lemma is_digit_cases d : is_digit d = true ->
  d = 48 \/ d = 49 \/ d = 50 \/ d = 51 \/ d = 52 \/ d = 53 \/ d = 54 \/ d = 55 \/ d = 56 \/ d = 57.
Proof. rewrite is_digit_range. lia. Qed.

Lemma digit_of_mod n : is_digit (48 + n mod 10) = true.
Proof.
  apply is_digit_range. assert (n mod 10 < 10) by (apply N.mod_upper_bound; lia). lia.
Qed.

(* ---- udec ---- *)
Lemma udec_app a l1 l2 :
  udec a (l1 ++ l2) = match udec a l1 with Some b => udec b l2 | None => None end.
Proof.
  revert a. induction l1 as [|x l1 IH]; intros a; cbn [app udec]; [reflexivity|].
  destruct (is_digit x); [apply IH|reflexivity].
Qed.

Lemma udec_some_digits l : forall a n, udec a l = Some n -> Forall (fun b => is_digit b = true) l.
Proof.
  induction l as [|x l IH]; intros a n H; [constructor|].
  cbn [udec] in H. destruct (is_digit x) eqn:E; [|discriminate].
  constructor; [exact E|eapply IH; exact H].
Qed.

Lemma udec_digits_some l : Forall (fun b => is_digit b = true) l -> forall a, exists n, udec a l = Some n.
Proof.
  induction 1 as [|x l Hx _ IH]; intros a; cbn [udec]; [eauto|].
  rewrite Hx. apply IH.
Qed.

Lemma udec_mono l : forall a n, udec a l = Some n -> a <= n.
Proof.
  induction l as [|x l IH]; intros a n H; cbn [udec] in H.
  - inversion H. lia.
  - destruct (is_digit x); [|discriminate]. apply IH in H. lia.
Qed.

(* ---- digits_fuel / utoa ---- *)
Lemma digits_fuel_digits f : forall n acc,
  Forall (fun b => is_digit b = true) acc ->
  Forall (fun b => is_digit b = true) (digits_fuel f n acc).
Proof.
  induction f as [|f IH]; intros n acc H; cbn [digits_fuel]; [exact H|].
  destruct (n <? 10).
  - constructor; [apply digit_of_mod|exact H].
  - apply IH. constructor; [apply digit_of_mod|exact H].
Qed.

Lemma digits_fuel_acc f : forall n acc, digits_fuel f n acc = digits_fuel f n [] ++ acc.
Proof.
  induction f as [|f IH]; intros n acc; cbn [digits_fuel]; [reflexivity|].
  destruct (n <? 10); [reflexivity|].
  rewrite IH. rewrite (IH _ [_]). rewrite <- app_assoc. reflexivity.
Qed.

Lemma digits_fuel_nonempty f n acc : digits_fuel (S f) n acc <> [].
Proof.
  cbn [digits_fuel]. destruct (n <? 10); [discriminate|].
  rewrite digits_fuel_acc. destruct (digits_fuel f (n / 10) []); discriminate.
Qed.

Lemma pow2_succ k : 2 ^ N.of_nat (S k) = 2 * 2 ^ N.of_nat k.
Proof. rewrite Nat2N.inj_succ. apply N.pow_succ_r'. Qed.

Lemma udec_digits_fuel f : forall n acc,
  n < 2 ^ N.of_nat (S f) ->
  udec 0 (digits_fuel (S f) n acc) = udec n acc.
Proof.
  induction f as [|f IH]; intros n acc Hn.
  - change (2 ^ N.of_nat 1) with 2 in Hn. cbn [digits_fuel].
    assert (E : n <? 10 = true) by (apply N.ltb_lt; lia). rewrite E.
    cbn [udec]. rewrite digit_of_mod.
    rewrite N.mod_small by lia. f_equal. lia.
  - cbn [digits_fuel]. destruct (n <? 10) eqn:E.
    + cbn [udec]. rewrite digit_of_mod. apply N.ltb_lt in E.
      rewrite N.mod_small by lia. f_equal. lia.
    + apply N.ltb_ge in E.
      change (digits_fuel f (n / 10) ((48 + n mod 10) :: acc))
        with (digits_fuel f (n / 10) ((48 + n mod 10) :: acc)).
      assert (Hd : n / 10 < 2 ^ N.of_nat (S f)).
      { rewrite pow2_succ in Hn. apply N.div_lt_upper_bound; lia. }
      specialize (IH (n / 10) ((48 + n mod 10) :: acc) Hd).
      cbn [digits_fuel] in IH |- *. rewrite IH.
      cbn [udec]. rewrite digit_of_mod. f_equal.
      pose proof (N.div_mod n 10). lia.
Qed.

Lemma pos_size_nat_gt p : N.pos p < 2 ^ N.of_nat (Pos.size_nat p).
Proof.
  induction p as [p IH|p IH|]; cbn [Pos.size_nat]; rewrite ?pow2_succ.
  - change (N.pos p~1) with (2 * N.pos p + 1). lia.
  - change (N.pos p~0) with (2 * N.pos p). lia.
  - change (2 ^ N.of_nat 1) with 2. lia.
Qed.

Lemma size_nat_gt n : n < 2 ^ N.of_nat (S (N.size_nat n)).
Proof.
  rewrite pow2_succ. destruct n as [|p]; cbn [N.size_nat].
  - cbn. lia.
  - pose proof (pos_size_nat_gt p). lia.
Qed.

Lemma udec_utoa n : udec 0 (utoa n) = Some n.
Proof.
  unfold utoa. rewrite udec_digits_fuel by apply size_nat_gt. reflexivity.
Qed.

Lemma utoa_digits n : Forall (fun b => is_digit b = true) (utoa n).
Proof. unfold utoa. apply digits_fuel_digits. constructor. Qed.

Lemma utoa_nonempty n : utoa n <> [].
Proof. unfold utoa. apply digits_fuel_nonempty. Qed.

Lemma utoa_cons n : exists d r, utoa n = d :: r /\ is_digit d = true.
Proof.
  pose proof (utoa_digits n) as H. pose proof (utoa_nonempty n) as Hn.
  destruct (utoa n) as [|d r]; [congruence|]. inversion H; subst. eauto.
Qed.

(* ---- atoi ---- *)
Lemma atoi_digit_head d r : is_digit d = true ->
  atoi (d :: r) = match udec 0 (d :: r) with
                  | None => None
                  | Some n => if in_int64 (Z.of_N n) then Some (Z.of_N n) else None
                  end.
Proof.
  intros H. apply is_digit_cases in H.
  destruct H as [->|[->|[->|[->|[->|[->|[->|[->|[->| ->]]]]]]]]]; reflexivity.
Qed.

Lemma atoi_minus r : atoi (45 :: r) =
  match r with
  | [] => None
  | _ => match udec 0 r with
         | None => None
         | Some n => if in_int64 (- Z.of_N n) then Some (- Z.of_N n)%Z else None
         end
  end.
Proof. reflexivity. Qed.

Lemma atoi_plus r : atoi (43 :: r) =
  match r with
  | [] => None
  | _ => match udec 0 r with
         | None => None
         | Some n => if in_int64 (Z.of_N n) then Some (Z.of_N n) else None
         end
  end.
Proof. reflexivity. Qed.

Theorem atoi_itoa : forall z, in_int64 z = true -> atoi (itoa z) = Some z.
Proof.
  intros z Hz. destruct z as [|p|p]; cbn [itoa].
  - reflexivity.
  - destruct (utoa_cons (N.pos p)) as (d & r & E & Hd).
    rewrite E, atoi_digit_head by exact Hd. rewrite <- E, udec_utoa.
    change (Z.of_N (N.pos p)) with (Z.pos p). rewrite Hz. reflexivity.
  - rewrite atoi_minus. pose proof (utoa_nonempty (N.pos p)) as Hn.
    destruct (utoa (N.pos p)) eqn:E; [congruence|]. rewrite <- E, udec_utoa.
    change (- Z.of_N (N.pos p))%Z with (Z.neg p). rewrite Hz. reflexivity.
Qed.

Theorem atou_utoa : forall n, n <= max_uint64 -> atou (utoa n) = Some n.
Proof.
  intros n Hn. unfold atou. pose proof (utoa_nonempty n) as Hne.
  destruct (utoa n) eqn:E; [congruence|]. rewrite <- E, udec_utoa.
  apply N.leb_le in Hn. rewrite Hn. reflexivity.
Qed.

(* a successful parse is within range, and its text is sign + digits *)
Lemma atoi_in_range s z : atoi s = Some z -> in_int64 z = true.
Proof.
  unfold atoi. intros H.
  destruct (match s with 45 :: r => (true, r) | 43 :: r => (false, r) | _ => (false, s) end) as [neg ds].
  destruct ds; [discriminate|]. destruct (udec 0 (n :: ds)); [|discriminate].
  destruct (in_int64 _) eqn:E; [|discriminate]. inversion H; subst. exact E.
Qed.

Lemma atoi_nil : atoi [] = None.
Proof. reflexivity. Qed.

Lemma itoa_nonempty z : itoa z <> [].
Proof.
  destruct z; cbn [itoa]; [discriminate|apply utoa_nonempty|discriminate].
Qed.
