(* Each helper of Model/ArrayFns.v, written after the Go control flow, computes its list specification. *)
From Coq Require Import List NArith ZArith Bool Arith Lia ZifyBool.
From RareV Require Import Base.Hex Base.Num Model.Splitter Model.ArrayFns Gen.GenC17 Proofs.SplitterProof.
Import ListNotations.

Lemma nul_ne : [NUL] <> [].
Proof. discriminate. Qed.

(* ------------------------------------------------------------------ join as a left fold *)
Lemma join_head_app d a b l : join d ((a ++ b) :: l) = a ++ join d (b :: l).
Proof. destruct l; cbn; [reflexivity|]. now rewrite <- app_assoc. Qed.

Lemma join_fold d : forall l x, join d (x :: l) = fold_left (fun ret y => ret ++ d ++ y) l x.
Proof.
  induction l as [|y l IH]; intros x; [reflexivity|].
  cbn [fold_left]. rewrite <- IH. rewrite join_head_app.
  rewrite join_cons by discriminate. f_equal.
  replace (d ++ y) with ((d ++ y) ++ []) at 1 by apply app_nil_r.
  rewrite <- app_assoc. change (d ++ y ++ []) with (d ++ (y ++ [])).
  rewrite app_nil_r. rewrite (join_head_app d d y l). reflexivity.
Qed.

Lemma fold_left_map_f {A B C} (g : C -> B -> C) (m : A -> B) : forall l acc,
  fold_left (fun r y => g r (m y)) l acc = fold_left g (map m l) acc.
Proof. induction l; intros; cbn; auto. Qed.

Definition sep_all (l : list bytes) : bytes := concat (map (fun x => [NUL] ++ x) l).

Lemma join0_cons x l : join0 (x :: l) = x ++ sep_all l.
Proof.
  unfold join0, sep_all. revert x. induction l as [|y l IH]; intros x.
  - cbn. now rewrite app_nil_r.
  - rewrite join_cons by discriminate. cbn [map concat]. now rewrite IH.
Qed.

Lemma sep_all_app a b : sep_all (a ++ b) = sep_all a ++ sep_all b.
Proof. unfold sep_all. now rewrite map_app, concat_app. Qed.

(* ------------------------------------------------------------------ arrayOperator *)
Theorem array_operator_spec arr d j m : d <> [] ->
  array_operator arr d j m = join j (map m (split d arr)).
Proof.
  intros dne. unfold array_operator. destruct arr as [|b arr].
  - now rewrite split_nil.
  - destruct (split d (b :: arr)) as [|x r] eqn:E.
    + exfalso. now apply (split_nonempty d (b :: arr)).
    + cbn [map]. rewrite join_fold. rewrite <- fold_left_map_f. reflexivity.
Qed.

Theorem op_split_spec v d : op_split v d = spec_split v d.
Proof.
  unfold op_split, spec_split. destruct d as [|b d]; [reflexivity|].
  rewrite array_operator_spec by discriminate. now rewrite map_id.
Qed.

Theorem op_join_spec v d : op_join v d = spec_join v d.
Proof. unfold op_join, spec_join. rewrite array_operator_spec by apply nul_ne. now rewrite map_id. Qed.

Theorem op_map_spec f v : op_map f v = spec_map f v.
Proof. unfold op_map, spec_map. now rewrite array_operator_spec by apply nul_ne. Qed.

Theorem op_arr_spec l : op_arr l = join0 l.
Proof.
  destruct l as [|x [|y l]]; [reflexivity|reflexivity|].
  unfold op_arr, join0. now rewrite join_fold.
Qed.

(* ------------------------------------------------------------------ @len *)
Lemma split0_length v : length (split0 v) = S (count_byte NUL v).
Proof. apply split_single_length. Qed.

Theorem op_len_spec v : op_len v = spec_len v.
Proof.
  unfold op_len, spec_len. destruct v as [|b v]; [reflexivity|].
  rewrite split0_length. f_equal. lia.
Qed.

(* ------------------------------------------------------------------ @select *)
Lemma select_loop_spec s : forall l i,
  select_loop l i s =
  if ((i <=? s) && (s <? i + Z.of_nat (length l)))%Z then nth (Z.to_nat (s - i)) l [] else [].
Proof.
  induction l as [|v r IH]; intros i.
  - cbn [select_loop length]. destruct ((i <=? s) && (s <? i + Z.of_nat 0))%Z eqn:E; [|reflexivity]. lia.
  - cbn [select_loop]. destruct (Z.eqb_spec i s) as [->|Hne].
    + rewrite Z.leb_refl, Z.sub_diag. cbn [andb].
      destruct (s <? s + Z.of_nat (length (v :: r)))%Z eqn:E; [reflexivity|]. cbn [length] in E. lia.
    + rewrite IH. cbn [length].
      destruct ((i + 1 <=? s) && (s <? i + 1 + Z.of_nat (length r)))%Z eqn:E1;
      destruct ((i <=? s) && (s <? i + Z.of_nat (S (length r))))%Z eqn:E2; try lia; [|reflexivity].
      replace (Z.to_nat (s - i)) with (S (Z.to_nat (s - (i + 1)))) by lia. reflexivity.
Qed.

Theorem op_select_spec v idx : op_select v idx = spec_select v idx.
Proof.
  unfold op_select, spec_select, norm_index. rewrite select_loop_spec, split0_length.
  replace (Z.of_nat (count_byte NUL v) + 1)%Z with (Z.of_nat (S (count_byte NUL v))) by lia.
  rewrite Z.add_0_l, Z.sub_0_r. reflexivity.
Qed.

(* ------------------------------------------------------------------ @reduce *)
Lemma reduce_loop_spec f : forall l m, reduce_loop f l m = fold_left f l m.
Proof. induction l; intros; cbn; auto. Qed.

Theorem op_reduce_spec f init v : op_reduce f init v = spec_reduce f init v.
Proof.
  unfold op_reduce, spec_reduce. destruct init; [|apply reduce_loop_spec].
  destruct (split0 v); [reflexivity|apply reduce_loop_spec].
Qed.

(* ------------------------------------------------------------------ @filter *)
Lemma filter_loop_sep p : forall l sb, filter_loop p l sb true = sb ++ sep_all (filter p l).
Proof.
  induction l as [|x l IH]; intros sb; cbn [filter_loop filter].
  - unfold sep_all. cbn. now rewrite app_nil_r.
  - destruct (p x); [|apply IH]. rewrite IH. unfold sep_all, sepb. cbn [map concat].
    now rewrite <- !app_assoc.
Qed.

Theorem op_filter_spec p v : op_filter p v = spec_filter p v.
Proof.
  unfold op_filter, spec_filter. induction (split0 v) as [|x l IH]; [reflexivity|].
  cbn [filter_loop filter]. destruct (p x); [|exact IH].
  rewrite filter_loop_sep, join0_cons. reflexivity.
Qed.

(* ------------------------------------------------------------------ @in *)
Theorem op_in_spec v set : op_in v (op_arr set) = spec_in v set.
Proof. unfold op_in, spec_in. now rewrite op_arr_spec. Qed.

(* ------------------------------------------------------------------ @slice *)
Definition take {A} (len : Z) (r : list A) : list A := if (len <? 0)%Z then r else firstn (Z.to_nat len) r.

Lemma slice_phaseB rs len : forall l i ret, (i > rs)%Z ->
  slice_loop l i rs len ret =
  ret ++ sep_all (if (len <? 0)%Z then l else firstn (Z.to_nat (rs + len - i)) l).
Proof.
  induction l as [|v r IH]; intros i ret Hi; cbn [slice_loop].
  - destruct (len <? 0)%Z; [|rewrite firstn_nil]; unfold sep_all; cbn; now rewrite app_nil_r.
  - destruct (len <? 0)%Z eqn:El; cbn [orb].
    + rewrite IH by lia.
      replace (i >=? rs)%Z with true by lia. replace (i >? rs)%Z with true by lia.
      unfold sep_all, sepb. cbn [map concat]. now rewrite <- !app_assoc.
    + destruct (i <? rs + len)%Z eqn:Ec.
      * rewrite IH by lia.
        replace (i >=? rs)%Z with true by lia. replace (i >? rs)%Z with true by lia.
        replace (Z.to_nat (rs + len - i)) with (S (Z.to_nat (rs + len - (i + 1)))) by lia.
        cbn [firstn]. unfold sep_all, sepb. cbn [map concat]. now rewrite <- !app_assoc.
      * replace (Z.to_nat (rs + len - i)) with 0 by lia. cbn [firstn]. unfold sep_all. cbn. now rewrite app_nil_r.
Qed.

Lemma slice_phaseA rs len : forall l i, (0 <= i <= rs)%Z ->
  slice_loop l i rs len [] = join0 (take len (skipn (Z.to_nat (rs - i)) l)).
Proof.
  unfold take. induction l as [|v r IH]; intros i Hi; cbn [slice_loop].
  - rewrite skipn_nil. destruct (len <? 0)%Z; [|rewrite firstn_nil]; reflexivity.
  - destruct (Z.eq_dec i rs) as [->|Hne].
    + rewrite Z.sub_diag. cbn [Z.to_nat skipn].
      replace (rs >=? rs)%Z with true by lia. replace (rs >? rs)%Z with false by lia.
      cbn [sepb app].
      destruct (len <? 0)%Z eqn:El; cbn [orb].
      * rewrite slice_phaseB by lia. rewrite El. now rewrite join0_cons.
      * destruct (rs <? rs + len)%Z eqn:Ec.
        -- rewrite slice_phaseB by lia. rewrite El.
           replace (Z.to_nat len) with (S (Z.to_nat (rs + len - (rs + 1)))) by lia.
           cbn [firstn]. now rewrite join0_cons.
        -- replace (Z.to_nat len) with 0 by lia. reflexivity.
    + replace ((len <? 0) || (i <? rs + len))%Z with true by lia.
      replace (i >=? rs)%Z with false by lia.
      rewrite IH by lia.
      replace (Z.to_nat (rs - i)) with (S (Z.to_nat (rs - (i + 1)))) by lia. reflexivity.
Qed.

Theorem op_slice_spec v start len : op_slice v start len = spec_slice v start len.
Proof.
  unfold op_slice, spec_slice, slice_list, norm_index. rewrite split0_length.
  set (n := count_byte NUL v).
  replace (Z.of_nat n + 1)%Z with (Z.of_nat (S n)) by lia.
  set (rs := if (start <? 0)%Z then if (start + Z.of_nat (S n) <? 0)%Z then 0%Z else (start + Z.of_nat (S n))%Z else start).
  assert (Hrs : Z.max 0 (if (start <? 0)%Z then (start + Z.of_nat (S n))%Z else start) = rs).
  { subst rs. destruct (start <? 0)%Z eqn:E1; [destruct (start + Z.of_nat (S n) <? 0)%Z eqn:E2|]; lia. }
  rewrite Hrs. assert (0 <= rs)%Z by lia.
  rewrite slice_phaseA by lia. unfold take. now rewrite Z.sub_0_r.
Qed.
