(* C12 — first-occurrence search: index_of is exactly "the first offset at which the needle occurs". *)
From Coq Require Import List NArith Bool Arith Lia.
From RareV Require Import Base.Hex Model.Dissect.
Import ListNotations.

Section Search.
Variable f : N -> N.

Lemma prefix_at_iff needle : forall hay,
  prefix_at f needle hay = true <-> exists m b, hay = m ++ b /\ map f m = needle.
Proof.
  induction needle as [|n ns IH]; intros hay; cbn.
  - split; auto. intros _. exists [], hay. auto.
  - destruct hay as [|h hs].
    + split; [discriminate|]. intros (m & b & H1 & H2).
      destruct m; cbn in *; discriminate.
    + rewrite andb_true_iff, N.eqb_eq, IH. split.
      * intros [E (m & b & -> & <-)]. exists (h :: m), b. cbn. rewrite E. auto.
      * intros (m & b & H1 & H2). destruct m as [|x m]; cbn in *; [discriminate|].
        inversion H1; inversion H2; subst. split; auto. exists m, b. auto.
Qed.

Lemma occurs_0 needle hay : occurs f needle hay 0 <-> prefix_at f needle hay = true.
Proof.
  rewrite prefix_at_iff. unfold occurs. split.
  - intros (a & m & b & -> & Ha & Hm). destruct a; [|discriminate]. exists m, b. auto.
  - intros (m & b & -> & Hm). exists [], m, b. auto.
Qed.

Lemma occurs_S needle h hay i : occurs f needle (h :: hay) (S i) <-> occurs f needle hay i.
Proof.
  unfold occurs. split.
  - intros (a & m & b & H & Ha & Hm). destruct a as [|x a]; [discriminate|].
    cbn in H. inversion H; subst. exists a, m, b. cbn in Ha. auto.
  - intros (a & m & b & -> & Ha & Hm). exists (h :: a), m, b. cbn. auto.
Qed.

Lemma occurs_nil_hay needle i : occurs f needle [] i -> i = 0.
Proof.
  intros (a & m & b & H & Ha & _). destruct a; cbn in *; [lia|discriminate].
Qed.

Lemma occurs_bound needle hay i : occurs f needle hay i -> i + length needle <= length hay.
Proof.
  intros (a & m & b & -> & <- & <-). rewrite !app_length, map_length. lia.
Qed.

(* C12 index_of_first, Some direction *)
Lemma index_of_some needle : forall hay i,
  index_of f needle hay = Some i <-> first_occ f needle hay i.
Proof.
  unfold first_occ.
  induction hay as [|h hs IH]; intros i; cbn [index_of].
  - destruct (prefix_at f needle []) eqn:E.
    + split.
      * intros [= <-]. split; [apply <- occurs_0; auto|]. intros j Hj; lia.
      * intros [H _]. apply occurs_nil_hay in H. congruence.
    + split; [discriminate|]. intros [H _]. pose proof (occurs_nil_hay _ _ H); subst.
      apply -> occurs_0 in H. congruence.
  - destruct (prefix_at f needle (h :: hs)) eqn:E.
    + split.
      * intros [= <-]. split; [apply <- occurs_0; auto|]. intros j Hj; lia.
      * intros [H Hmin]. destruct i; auto. exfalso. apply (Hmin 0); [lia|]. apply <- occurs_0; auto.
    + destruct (index_of f needle hs) as [k|] eqn:Ek; cbn.
      * pose proof (proj1 (IH k) eq_refl) as [Hk Hmin]. split.
        -- intros [= <-]. split; [apply <- occurs_S; auto|].
           intros [|j] Hj Ho; [apply -> occurs_0 in Ho; congruence|].
           apply -> occurs_S in Ho. apply (Hmin j); auto; lia.
        -- intros [Ho Hm]. destruct i as [|i]; [apply -> occurs_0 in Ho; congruence|].
           apply -> occurs_S in Ho. f_equal.
           destruct (lt_eq_lt_dec i k) as [[L|L]|L]; auto.
           ++ exfalso. apply (Hmin i); auto.
           ++ exfalso. apply (Hm (S k)); [lia|]. apply <- occurs_S; auto.
      * split; [discriminate|]. intros [Ho _]. destruct i as [|i]; [apply -> occurs_0 in Ho; congruence|].
        apply -> occurs_S in Ho. exfalso.
        (* hs has an occurrence, so the search on hs cannot fail: take the least one *)
        clear E. revert Ho. generalize i.
        assert (Hn : forall j, ~ occurs f needle hs j).
        { intros j. induction j as [j IHj] using lt_wf_ind. intros Hj.
          assert (first_occ f needle hs j) as Hf by (split; auto; intros; apply IHj; auto).
          apply IH in Hf. congruence. }
        intros; eapply Hn; eauto.
Qed.

(* C12 index_of_first, None direction *)
Lemma index_of_none needle hay :
  index_of f needle hay = None <-> forall j, ~ occurs f needle hay j.
Proof.
  split.
  - intros Hn j. induction j as [j IHj] using lt_wf_ind. intros Hj.
    assert (first_occ f needle hay j) as Hf by (split; auto).
    apply index_of_some in Hf. congruence.
  - intros Hn. destruct (index_of f needle hay) as [i|] eqn:E; auto.
    apply index_of_some in E as [Ho _]. exfalso; eapply Hn; eauto.
Qed.

Lemma index_of_empty hay : index_of f [] hay = Some 0.
Proof. destruct hay; reflexivity. Qed.

Lemma index_of_bound needle hay i : index_of f needle hay = Some i -> i + length needle <= length hay.
Proof. intros H. apply index_of_some in H as [H _]. apply occurs_bound in H; auto. Qed.

(* any occurrence bounds the first one *)
Lemma index_of_le needle hay j :
  occurs f needle hay j -> exists i, index_of f needle hay = Some i /\ i <= j.
Proof.
  intros Ho. destruct (index_of f needle hay) as [i|] eqn:E.
  - exists i. split; auto. apply index_of_some in E as [_ Hmin].
    destruct (le_lt_dec i j); auto. exfalso; eapply Hmin; eauto.
  - exfalso. eapply index_of_none in E; eauto.
Qed.

Lemma first_occ_fun needle hay i j : first_occ f needle hay i -> first_occ f needle hay j -> i = j.
Proof. intros Hi Hj. apply index_of_some in Hi, Hj. congruence. Qed.

(* occurrences in a suffix *)
Lemma occurs_skipn needle hay s i :
  s <= length hay -> (occurs f needle (skipn s hay) i <-> occurs f needle hay (s + i)).
Proof.
  revert hay. induction s as [|s IH]; intros hay Hs; cbn [skipn plus].
  - reflexivity.
  - destruct hay as [|h hs]; cbn in Hs; [lia|]. rewrite occurs_S. apply IH. lia.
Qed.

End Search.

(* searching with folding = searching the folded text case-sensitively *)
Lemma prefix_at_map f needle : forall hay, prefix_at f needle hay = prefix_at fold_id needle (map f hay).
Proof.
  induction needle as [|n ns IH]; intros [|h hs]; cbn; auto. rewrite IH. reflexivity.
Qed.

Lemma index_of_map f needle : forall hay, index_of f needle hay = index_of fold_id needle (map f hay).
Proof.
  induction hay as [|h hs IH]; cbn [index_of map].
  - rewrite prefix_at_map. reflexivity.
  - rewrite prefix_at_map, IH. reflexivity.
Qed.

(* an occurrence under the identity is an occurrence of the folded needle under any folding *)
Lemma occurs_fold f needle hay i : occurs fold_id needle hay i -> occurs f (map f needle) hay i.
Proof.
  intros (a & m & b & H & Ha & Hm). exists a, m, b. repeat split; auto.
  rewrite <- Hm. unfold fold_id. rewrite map_id. reflexivity.
Qed.
