(* C14 — the histogram's FINAL screen: after any history of WriteForLine / UpdateTotal / WriteFooter
   calls every displayed line (value > 0) is the line of its key and value under the CURRENT
   running maximum and key width — in particular its bar is the bar of its value against the
   current maximum, whatever the order in which the lines were written. *)
From Coq Require Import List ZArith NArith QArith Bool Lia.
From RareV Require Import Base.Hex Base.Num Base.Res Gen.GenPalette Model.Scale Model.Render
  Proofs.RenderBars Proofs.RenderTable.
Import ListNotations.
Local Open Scope Z_scope.

Section Histo.
  Variable col uni : bool.
  Variable m : Z -> Q.
  Variable rnd : Q -> Q.
  Variable fmt : Z -> Z -> Z -> str.
  Variable sb : bool.

  Notation histo_line := (histo_line col uni m rnd fmt sb).
  Notation histo_full := (histo_full col uni m rnd fmt sb).
  Notation histo_step := (histo_step col uni m rnd fmt sb).
  Notation histo_run := (histo_run col uni m rnd fmt sb).

  (* the state alone: running maximum, key width, last (key, value) per line *)
  Definition hstate_step (h : histo) (o : h_op) : histo :=
    match o with
    | HLine line key val =>
        if (length (h_items h) <=? line)%nat then h
        else mkHisto (Z.max (h_max h) val) (Z.max (h_ts h) (str_len col key)) (set_row line (key, val) (h_items h))
    | _ => h
    end.
  Definition hstate (n : nat) (ops : list h_op) : histo := fold_left hstate_step ops (histo_new n).

  Definition hinv (h : histo) (tm : term) : Prop :=
    forall i k v, nth_error (h_items h) i = Some (k, v) -> 0 < v ->
      exists l, histo_line h k v = Ok l /\ nth_error tm i = Some l.

  Lemma histo_line_state h1 h2 k v : h_max h1 = h_max h2 -> h_ts h1 = h_ts h2 ->
    histo_line h1 k v = histo_line h2 k v.
  Proof. intros A B. unfold Render.histo_line. rewrite A, B. reflexivity. Qed.

  Lemma histo_full_spec h : forall items i tm tm', histo_full h i items tm = Ok tm' ->
    (forall j k v, nth_error items j = Some (k, v) -> 0 < v ->
       exists l, histo_line h k v = Ok l /\ nth_error tm' (i + j) = Some l) /\
    (forall p y, (p < i)%nat -> nth_error tm p = Some y -> nth_error tm' p = Some y).
  Proof.
    induction items as [|[k0 v0] rest IH]; intros i tm tm' H; cbn [Render.histo_full] in H.
    - inversion H; subst. split. intros j k v Hn. destruct j; discriminate Hn. auto.
    - destruct (Z.ltb_spec 0 v0) as [Hv|Hv].
      + destruct (histo_line h k0 v0) as [l|] eqn:El; [|discriminate H]. cbn [rbind] in H.
        destruct (IH _ _ _ H) as [A B]. split.
        * intros j k v Hn Hpos. destruct j.
          -- simpl in Hn. inversion Hn; subst. exists l. split. assumption.
             rewrite Nat.add_0_r. apply B. lia. apply set_nth_eq.
          -- simpl in Hn. replace (i + S j)%nat with (S i + j)%nat by lia. eapply A; eauto.
        * intros p y Hp Hy. apply B. lia. apply set_nth_neq. lia. assumption.
      + destruct (IH _ _ _ H) as [A B]. split.
        * intros j k v Hn Hpos. destruct j.
          -- simpl in Hn. inversion Hn; subst. lia.
          -- simpl in Hn. replace (i + S j)%nat with (S i + j)%nat by lia. eapply A; eauto.
        * intros p y Hp Hy. apply B. lia. assumption.
  Qed.

  Lemma histo_step_inv st o st' : hinv (fst st) (snd st) -> histo_step st o = Ok st' ->
    hinv (fst st') (snd st') /\ fst st' = hstate_step (fst st) o.
  Proof.
    destruct st as [h tm]. cbn [fst snd]. intros Inv H. unfold Render.histo_step in H. cbn [fst snd] in H.
    destruct o as [line key val|t|idx s]; cbn [hstate_step].
    - destruct (Nat.leb_spec (length (h_items h)) line) as [Hl|Hl].
      { inversion H; subst. split; auto. }
      set (h' := mkHisto (Z.max (h_max h) val) (Z.max (h_ts h) (str_len col key))
                         (set_row line (key, val) (h_items h))) in *.
      destruct ((h_ts h <? str_len col key) || (h_max h <? val)) eqn:R.
      + destruct (histo_full h' 0 (h_items h') tm) as [tm'|] eqn:F; [|discriminate H].
        cbn [rbind] in H. inversion H; subst. cbn [fst snd]. split; [|reflexivity].
        destruct (histo_full_spec _ _ _ _ _ F) as [A _]. intros i k v Hn Hv. apply (A i k v Hn Hv).
      + apply orb_false_iff in R as [R1 R2]. apply Z.ltb_ge in R1, R2.
        destruct (histo_line h' key val) as [l|] eqn:El; [|discriminate H].
        cbn [rbind] in H. inversion H; subst. cbn [fst snd]. split; [|reflexivity].
        intros i k v Hn Hv. unfold h' in Hn. cbn [h_items] in Hn.
        apply set_row_some in Hn as [[-> Heq]|[Hne Hn]].
        * inversion Heq; subst. exists l. split. assumption. apply set_nth_eq.
        * destruct (Inv i k v Hn Hv) as [l0 [E0 N0]]. exists l0. split.
          -- rewrite <- E0. apply histo_line_state; unfold h'; cbn; lia.
          -- apply set_nth_neq; assumption.
    - destruct (histo_full h 0 (h_items h) tm) as [tm'|] eqn:F; [|discriminate H].
      cbn [rbind] in H. inversion H; subst. cbn [fst snd]. split; [|reflexivity].
      destruct (histo_full_spec _ _ _ _ _ F) as [A _]. intros i k v Hn Hv. apply (A i k v Hn Hv).
    - inversion H; subst. cbn [fst snd]. split; [|reflexivity].
      intros i k v Hn Hv. destruct (Inv i k v Hn Hv) as [l [E N]]. exists l. split. assumption.
      apply set_nth_neq; [|assumption].
      assert (i < length (h_items h))%nat by (apply nth_error_Some; congruence). lia.
  Qed.

  Lemma histo_run_inv : forall ops st st', hinv (fst st) (snd st) -> histo_run st ops = Ok st' ->
    hinv (fst st') (snd st') /\ fst st' = fold_left hstate_step ops (fst st).
  Proof.
    induction ops as [|o r IH]; intros st st' Inv H; cbn [Render.histo_run] in H.
    - inversion H; subst. auto.
    - destruct (histo_step st o) as [st1|] eqn:E; [|discriminate H]. cbn [rbind] in H.
      destruct (histo_step_inv st o st1 Inv E) as [I1 S1].
      destruct (IH st1 st' I1 H) as [I2 S2]. split. assumption. simpl. rewrite <- S1. assumption.
  Qed.

  (* the final screen *)
  Theorem histo_final n ops h tm : histo_run (histo_new n, []) ops = Ok (h, tm) ->
    h = hstate n ops /\
    forall i k v, nth_error (h_items h) i = Some (k, v) -> 0 < v ->
      exists l, histo_line h k v = Ok l /\ nth_error tm i = Some l.
  Proof.
    intros H. assert (I0 : hinv (fst (histo_new n, @nil str)) (snd (histo_new n, @nil str))).
    { intros i k v Hn Hv. cbn in Hn. apply nth_error_In in Hn. apply repeat_spec in Hn. inversion Hn; subst. lia. }
    destruct (histo_run_inv ops _ _ I0 H) as [I S]. cbn [fst snd] in *. split. assumption. exact I.
  Qed.
End Histo.
