(* C04: the scanner terminates on every scripted reader (the fuel of the model is never exhausted). *)
From Coq Require Import List NArith ZArith Lia Bool Arith.
From RareV Require Import Base.Hex Model.Lines Proofs.LinesProof.
Import ListNotations.

Lemma entry_eof_some s : eof s = true -> entry s <> None.
Proof.
  unfold entry. intros He. rewrite He. destruct (_ <? _); [destruct (index_nl _)|]; discriminate.
Qed.

Lemma grow_sc s : sc (grow s) = sc s.
Proof. unfold grow. destruct (_ <=? _); reflexivity. Qed.

Lemma read_loop_some fuel : forall s, length (sc s) < fuel -> read_loop fuel s <> None.
Proof.
  induction fuel as [|fuel IH]; intros s Hl; [lia|]. cbn [read_loop].
  pose proof (grow_sc s) as Hg. remember (grow s) as g eqn:Eg. clear Eg.
  unfold do_read. destruct (sc g) as [|[want e] rest] eqn:Esc.
  - cbn. apply entry_eof_some. reflexivity.
  - destruct e; cbn.
    + destruct (index_nl _); [discriminate|]. apply IH. cbn. rewrite <- Hg in Hl. cbn in Hl. lia.
    + apply entry_eof_some. reflexivity.
    + apply entry_eof_some. reflexivity.
Qed.

Lemma scan_some s : scan s <> None.
Proof.
  unfold scan. destruct (entry s); [discriminate|]. apply read_loop_some. lia.
Qed.

(* the ghost [del] and the unread part of the stream always make up the original stream *)
Definition SI (str : list byte) (s : st) : Prop := del s ++ stream s = str.

Lemma entry_SI str s r s' : entry s = Some (r, s') -> SI str s -> SI str s'.
Proof.
  unfold entry, SI. intros H.
  destruct (offset s <? end_ s).
  - destruct (index_nl _).
    + inversion H; subst; cbn. auto.
    + destruct (eof s); inversion H; subst; cbn. auto.
  - destruct (eof s); inversion H; subst. auto.
Qed.

Lemma grow_SI str s : SI str s -> SI str (grow s).
Proof. unfold grow, SI. destruct (_ <=? _); cbn; auto. Qed.

Lemma do_read_SI str s n e s2 : do_read s = (n, e, s2) -> SI str s -> SI str s2.
Proof.
  unfold do_read, SI. intros H.
  destruct (sc s) as [|[want e0] rest]; inversion H; subst; cbn [del stream];
    rewrite <- app_assoc; [rewrite app_nil_l | rewrite firstn_skipn]; auto.
Qed.

Lemma read_loop_SI str fuel : forall s r s', SI str s -> read_loop fuel s = Some (r, s') -> SI str s'.
Proof.
  induction fuel as [|fuel IH]; intros s r s' HI H; [discriminate|]. cbn [read_loop] in H.
  destruct (do_read (grow s)) as [[n e] s2] eqn:Er.
  pose proof (do_read_SI str _ _ _ _ Er (grow_SI _ _ HI)) as H2.
  destruct e.
  - destruct (index_nl _).
    + inversion H; subst; cbn. exact H2.
    + eapply IH; eauto.
  - eapply entry_SI in H; [exact H|exact H2].
  - eapply entry_SI in H; [exact H|exact H2].
Qed.

Lemma scan_SI str s r s' : SI str s -> scan s = Some (r, s') -> SI str s'.
Proof.
  intros HI H. unfold scan in H. destruct (entry s) as [[r0 s0]|] eqn:E.
  - inversion H; subst. eapply entry_SI; eauto.
  - eapply read_loop_SI; eauto.
Qed.

Definition M (s : st) : nat := length (W s) + length (stream s).

Lemma scan_measure str s t s' : WF s -> SI str s -> scan s = Some (Some t, s') -> M s' < M s.
Proof.
  intros Hwf HI Es.
  pose proof (scan_SI str _ _ _ HI Es) as HI'.
  destruct (scan_ok _ _ _ Hwf Es) as (fut & Hd & Hwf' & line & Hnl & Hcase).
  unfold SI in HI, HI'. rewrite Hd, <- app_assoc in HI'. rewrite <- HI in HI'.
  apply app_inv_head in HI'. unfold M.
  assert (length (stream s) = length fut + length (stream s')) as Hl by (rewrite <- HI'; apply app_length).
  destruct Hcase as [(HW & _) | (HW & Hne & HW' & _)].
  - apply (f_equal (@length _)) in HW. rewrite !app_length in HW. cbn [length] in HW. lia.
  - apply (f_equal (@length _)) in HW. rewrite !app_length in HW. rewrite HW'. cbn [length].
    destruct line; [congruence|]. cbn [length] in HW. lia.
Qed.

Lemma scan_all_some str fuel : forall s acc, WF s -> SI str s -> M s + 1 < fuel -> scan_all fuel s acc <> None.
Proof.
  induction fuel as [|fuel IH]; intros s acc Hwf HI Hm; [lia|]. cbn [scan_all].
  destruct (scan s) as [[[t|] s']|] eqn:Es.
  - pose proof (scan_measure str _ _ _ Hwf HI Es) as Hlt.
    destruct (scan_ok _ _ _ Hwf Es) as (_ & _ & Hwf' & _).
    apply IH; [exact Hwf'|eapply scan_SI; eauto|lia].
  - discriminate.
  - exfalso. exact (scan_some s Es).
Qed.

Theorem run_total bs scr str : run bs scr str <> None.
Proof.
  unfold run.
  destruct (scan_all _ _ _) as [[toks s]|] eqn:E; [discriminate|].
  exfalso. revert E. apply (scan_all_some str); [apply init_WF|reflexivity|].
  unfold M, W; cbn [init offset end_ stream]. rewrite slice_nil. cbn [length]. lia.
Qed.
