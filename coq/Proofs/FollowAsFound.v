(* C15: the notify reader AS FOUND (delete handler without the repair, flag false).  It satisfies the same
   invariant, hence the same safety theorem, for the smaller class of histories in which a file is removed only
   when, in addition to "everything delivered", the reader has that file open.  (Proofs/FollowRefute.v: without
   the addition a re-created file is delivered twice.) *)
From Coq Require Import List NArith Arith Bool Lia.
From RareV Require Import Base.Hex Model.Follow Proofs.FollowBase Proofs.FollowNotify.
Import ListNotations.
Local Open Scope nat_scope.

Definition nok0 (pre : bytes) (s : nstate) (l : label) : Prop :=
  match l with
  | LRemove => drained pre (nenv s) (ndel s) /\ fd_current (nenv s) (nfd s) = true
  | _ => True
  end.

Definition event_dec : forall a b : event, {a = b} + {a <> b}.
Proof. decide equality. Defined.
(* delete signals not yet taken by the reader *)
Definition pend (s : nstate) : nat := (if sigD s then 1 else 0) + count_occ event_dec (queue s) EvRemove.

Record SInv (s : nstate) : Prop := mkSInv {
  sU : pend s <= 1;
  sS : 1 <= pend s -> nfd s <> None /\ fd_current (nenv s) (nfd s) = false
}.

Lemma fd_current_append e bs e' f : estep e (LAppend bs) e' -> fd_current e' f = fd_current e f.
Proof.
  intros H. destruct (estep_present _ _ _ H) as [A B]. pose proof (estep_past _ _ _ H) as C.
  destruct f as [[i off]|]; [|reflexivity]. cbn. unfold ino. rewrite A, B, C, app_nil_r. reflexivity.
Qed.

Lemma count_app_ev q l : count_occ event_dec (q ++ ev_of l) EvRemove =
  count_occ event_dec q EvRemove + match l with LRemove => 1 | _ => 0 end.
Proof. rewrite count_occ_app. destruct l; cbn; lia. Qed.

Section AsFound.
Variable reopen : bool.
Variable pre : bytes.
Notation nstep := (nstep reopen false).
Notation NInv := (NInv reopen pre).

Lemma sinv_step s l s' : NInv s -> SInv s -> nok0 pre s l -> nstep s l s' -> SInv s'.
Proof.
  intros I [U S] Ok St. inversion St; subst.
  - (* writer *)
    destruct l; try (inversion H; fail).
    + constructor; unfold pend in *; cbn [nenv nfd npcs sigW sigD queue ndel]; rewrite (count_app_ev (queue s) (LAppend bs)), Nat.add_0_r; [exact U|].
      rewrite (fd_current_append _ _ _ _ H). exact S.
    + destruct Ok as [_ Fc].
      assert (pend s = 0) as Z. { destruct (pend s) eqn:Ep; [reflexivity|]. destruct S as [_ S]; [lia|]. congruence. }
      constructor; unfold pend in *; cbn [nenv nfd npcs sigW sigD queue ndel]; rewrite (count_app_ev (queue s) LRemove); [lia|].
      intros _. split; [destruct (nfd s); [discriminate|discriminate Fc]|].
      destruct (estep_present _ _ _ H) as [_ B]. destruct (nfd s) as [[i off]|]; [|reflexivity]. cbn. rewrite B. reflexivity.
    + constructor; unfold pend in *; cbn [nenv nfd npcs sigW sigD queue ndel]; rewrite (count_app_ev (queue s) LCreate), Nat.add_0_r; [exact U|].
      intros Hp. destruct (S Hp) as [S1 _]. split; [exact S1|].
      destruct (nfd s) as [[i off]|] eqn:F; [|congruence].
      pose proof (iV _ _ _ I) as V. rewrite F in V. destruct (estep_present _ _ _ H) as [A _].
      destruct V as [[V|[_ V]] _]; [|rewrite A in V; discriminate].
      cbn. unfold ino. rewrite (estep_past _ _ _ H), app_nil_r.
      replace (i =? length (past (nenv s))) with false by (symmetry; apply Nat.eqb_neq; lia). apply andb_false_r.
  - constructor; unfold pend in *; cbn [nenv nfd npcs sigW sigD queue ndel]; [exact U|].
    rewrite (fd_current_append _ _ _ _ H). exact S.
  - (* watcher *)
    unfold pend in U, S. rewrite H in U, S.
    constructor; unfold pend; cbn [nenv nfd npcs sigW sigD queue ndel]; destruct ev; cbn in U, S |- *;
      try (destruct (sigD s); lia); intros Hp; apply S; destruct (sigD s); lia.
  - constructor; unfold pend in *; cbn [nenv nfd npcs sigW sigD queue ndel]; [exact U|].
    intros Hp. destruct (S Hp) as [_ S2]. split; [discriminate|]. rewrite H0 in S2. exact S2.
  - constructor; unfold pend in *; cbn [nenv nfd npcs sigW sigD queue ndel]; assumption.
  - constructor; unfold pend in *; cbn [nenv nfd npcs sigW sigD queue ndel]; assumption.
  - constructor; unfold pend in *; cbn [nenv nfd npcs sigW sigD queue ndel]; [exact U|].
    intros Hp. destruct (S Hp) as [S1 S2]. destruct (nfd s); [split; assumption|congruence].
  - unfold pend in U. rewrite H0 in U. constructor; unfold pend; cbn [nenv nfd npcs sigW sigD queue ndel]; lia.
  - unfold pend in U. rewrite H0 in U. constructor; unfold pend; cbn [nenv nfd npcs sigW sigD queue ndel]; lia.
  - unfold pend in U, S. constructor; unfold pend; cbn [nenv nfd npcs sigW sigD queue ndel]; rewrite count_occ_app; cbn [count_occ];
      destruct (event_dec EvOther EvRemove) as [X|_]; try discriminate; rewrite Nat.add_0_r; assumption.
Qed.

Lemma nok0_nok s l : nok0 pre s l -> nok pre s l.
Proof. destruct l; cbn; tauto. Qed.

Lemma both_step s l s' : NInv s /\ SInv s -> nok0 pre s l -> nstep s l s' -> NInv s' /\ SInv s'.
Proof.
  intros [I S] Ok St. split; [|eapply sinv_step; eauto].
  eapply (ninv_step reopen false pre); [exact I|apply nok0_nok, Ok| |exact St].
  intros _ _ Hd. apply (sS _ S). unfold pend. rewrite Hd. lia.
Qed.
End AsFound.

Section AsFoundThm.
Variables (reopen : bool) (c0 : option bytes) (tail : bool).
Let pre := pre_of c0 tail.

Lemma sinv_init : SInv (ninit c0 tail).
Proof. constructor; unfold pend, ninit; cbn; [lia|]. intros H. lia. Qed.

Lemma asfound_run tr s : run (nstep reopen false) (nok0 pre) (ninit c0 tail) tr s ->
  NInv reopen pre s /\ SInv s.
Proof.
  intros R. remember (ninit c0 tail) as s0 eqn:E. induction R as [|s0 tr s1 l s2 R IH Ok St].
  - subst. split; [apply ninv_init|apply sinv_init].
  - eapply both_step; eauto.
Qed.

Lemma asfound_prefix tr s : run (nstep reopen false) (nok0 pre) (ninit c0 tail) tr s ->
  exists rest, all (nenv s) = pre ++ ndel s ++ rest.
Proof. intros R. apply (ninv_prefix reopen c0 tail). apply (asfound_run tr s R). Qed.
End AsFoundThm.

(* the stronger restriction is satisfiable: an ordinary rotation *)
From RareV Require Import Proofs.FollowRefute.
Ltac okk0 := first [exact I | (cbn; split; [unfold drained, all, curc; cbn; reflexivity|reflexivity])].
Ltac st0 tac := eapply run_cons; [tac | okk0 | cbn].
Lemma asfound_rotation_example :
  exists tr s, run (nstep true false) (nok0 []) (ninit (Some cA) false) tr s /\
               ndel s = cA ++ cx /\ all (nenv s) = cA ++ cx.
Proof.
  eexists. eexists. split.
  - unfold ninit, env0, fd0, start_of, cA. cbn.
    st0 ltac:(eapply n_read_data with (bs := [65%N]) (rest := @nil N); [reflexivity|reflexivity|discriminate|reflexivity]).
    st0 ltac:(eapply n_read_empty; reflexivity).
    st0 ltac:(eapply n_env; eapply e_remove; reflexivity).
    st0 ltac:(eapply n_env; eapply e_create; reflexivity).
    st0 ltac:(eapply n_env; eapply e_append with (bs := cx); reflexivity).
    st0 ltac:(eapply n_watch; reflexivity).
    st0 ltac:(eapply n_sel_delete_reopen; reflexivity).
    st0 ltac:(eapply n_read_nofd; reflexivity).
    st0 ltac:(eapply n_watch; reflexivity).
    st0 ltac:(eapply n_sel_write; reflexivity).
    st0 ltac:(eapply n_read_data with (bs := [120%N]) (rest := @nil N); [reflexivity|reflexivity|discriminate|reflexivity]).
    apply run0.
  - cbn. repeat split; reflexivity.
Qed.
