(* Proofs about Model/Splitter.v: first-occurrence search, the splitter iterator, split/join. *)
From Coq Require Import List NArith Bool Arith Lia.
From RareV Require Import Base.Hex Model.Splitter.
Import ListNotations.

(* ------------------------------------------------------------------ is_prefix / index_of *)
Lemma is_prefix_app d s : is_prefix d (d ++ s) = true.
Proof. induction d as [|x d IH]; cbn; [reflexivity|]. now rewrite N.eqb_refl, IH. Qed.

Lemma is_prefix_true d : forall s, is_prefix d s = true -> s = d ++ skipn (length d) s.
Proof.
  induction d as [|x d IH]; intros s H; cbn in *; [reflexivity|].
  destruct s as [|y s]; [discriminate|].
  apply andb_true_iff in H as [H1 H2]. apply N.eqb_eq in H1. subst. f_equal. now apply IH.
Qed.

Lemma is_prefix_len d : forall s, is_prefix d s = true -> length d <= length s.
Proof.
  induction d as [|x d IH]; intros s H; cbn in *; [lia|].
  destruct s as [|y s]; [discriminate|]. apply andb_true_iff in H as [_ H]. apply IH in H. cbn. lia.
Qed.

Lemma is_prefix_app_l d : forall u v, is_prefix d u = true -> is_prefix d (u ++ v) = true.
Proof.
  induction d as [|x d IH]; intros u v H; cbn in *; [reflexivity|].
  destruct u as [|y u]; [discriminate|]. cbn. apply andb_true_iff in H as [H1 H2].
  now rewrite H1, (IH _ _ H2).
Qed.

Lemma is_prefix_app_inv d : forall u v, is_prefix d (u ++ v) = true -> length d <= length u -> is_prefix d u = true.
Proof.
  induction d as [|x d IH]; intros u v H L; cbn in *; [reflexivity|].
  destruct u as [|y u]; cbn in *; [lia|].
  apply andb_true_iff in H as [H1 H2]. rewrite H1. cbn. apply (IH _ v); [assumption|lia].
Qed.

Lemma index_of_unfold d s :
  index_of d s = if is_prefix d s then Some 0
                 else match s with [] => None | _ :: r => option_map S (index_of d r) end.
Proof. destruct s; reflexivity. Qed.

Lemma index_of_bound d : forall s i, index_of d s = Some i -> i + length d <= length s.
Proof.
  induction s as [|y s IH]; intros i H; rewrite index_of_unfold in H.
  - destruct (is_prefix d []) eqn:E; [|discriminate]. inversion H; subst. apply is_prefix_len in E. cbn in *. lia.
  - destruct (is_prefix d (y :: s)) eqn:E.
    + inversion H; subst. apply is_prefix_len in E. lia.
    + destruct (index_of d s) as [j|] eqn:Ej; [|discriminate]. cbn in H. inversion H; subst.
      specialize (IH _ eq_refl). cbn. lia.
Qed.

Lemma index_of_decomp d : forall s i, index_of d s = Some i ->
  s = firstn i s ++ d ++ skipn (i + length d) s.
Proof.
  induction s as [|y s IH]; intros i H; rewrite index_of_unfold in H.
  - destruct (is_prefix d []) eqn:E; [|discriminate]. inversion H; subst. cbn. now apply is_prefix_true in E.
  - destruct (is_prefix d (y :: s)) eqn:E.
    + inversion H; subst. cbn [firstn app Nat.add]. now apply is_prefix_true in E.
    + destruct (index_of d s) as [j|] eqn:Ej; [|discriminate]. cbn in H. inversion H; subst.
      cbn. f_equal. now apply IH.
Qed.

Lemma index_of_app d : forall u v i, index_of d u = Some i -> index_of d (u ++ v) = Some i.
Proof.
  induction u as [|y u IH]; intros v i H.
  - rewrite index_of_unfold in H. destruct (is_prefix d []) eqn:E; [|discriminate].
    inversion H; subst. rewrite index_of_unfold. cbn [app]. destruct d; [|discriminate]. reflexivity.
  - pose proof (index_of_bound _ _ _ H) as B.
    rewrite index_of_unfold in H. rewrite index_of_unfold.
    destruct (is_prefix d (y :: u)) eqn:E.
    + rewrite (is_prefix_app_l _ _ v E). assumption.
    + destruct (index_of d u) as [j|] eqn:Ej; [|discriminate]. cbn in H. inversion H; subst.
      destruct (is_prefix d ((y :: u) ++ v)) eqn:E2.
      * apply is_prefix_app_inv in E2; [congruence|lia].
      * cbn [app]. now rewrite (IH v j eq_refl).
Qed.

Lemma index_of_app_inv d : forall u v i, index_of d (u ++ v) = Some i -> i + length d <= length u ->
  index_of d u = Some i.
Proof.
  induction u as [|y u IH]; intros v i H L.
  - cbn in L. assert (i = 0) by lia. assert (d = []) by (destruct d; [reflexivity|cbn in L; lia]). subst. reflexivity.
  - rewrite index_of_unfold in H. rewrite index_of_unfold.
    destruct (is_prefix d ((y :: u) ++ v)) eqn:E.
    + inversion H; subst. now rewrite (is_prefix_app_inv _ _ _ E L).
    + destruct (is_prefix d (y :: u)) eqn:E2.
      * rewrite (is_prefix_app_l _ _ v E2) in E. discriminate.
      * cbn [app] in H. destruct (index_of d (u ++ v)) as [j|] eqn:Ej; [|discriminate].
        cbn in H. inversion H; subst. cbn in L. rewrite (IH v j Ej); [reflexivity|lia].
Qed.

Lemma index_of_app_None d : forall u v, index_of d (u ++ v) = None -> index_of d u = None.
Proof.
  intros u v H. destruct (index_of d u) eqn:E; [|reflexivity].
  now rewrite (index_of_app _ _ v _ E) in H.
Qed.

(* ------------------------------------------------------------------ the iterator *)
Lemma collect_none d f : sp_collect f (mkSplitter d None) = [].
Proof. destruct f; reflexivity. Qed.

Lemma collect_step d f rest :
  sp_collect (S f) (mkSplitter d (Some rest)) =
  match index_of d rest with
  | None => [rest]
  | Some i => firstn i rest :: sp_collect f (mkSplitter d (Some (skipn (i + length d) rest)))
  end.
Proof.
  cbn [sp_collect sp_done sp_rest]. unfold sp_next. cbn [sp_rest sp_delim].
  destruct (index_of d rest); [reflexivity|]. now rewrite collect_none.
Qed.

Lemma collect_nonempty d f rest : sp_collect (S f) (mkSplitter d (Some rest)) <> [].
Proof. rewrite collect_step. destruct (index_of d rest); discriminate. Qed.

Lemma join_cons d x r : r <> [] -> join d (x :: r) = x ++ d ++ join d r.
Proof. destruct r; [congruence|reflexivity]. Qed.


Section NonEmptyDelim.
  Variable d : bytes.
  Hypothesis dne : d <> [].

  Lemma dlen : 0 < length d.
  Proof. destruct d; [congruence|cbn; lia]. Qed.

  Lemma skip_fuel rest i f : index_of d rest = Some i -> length rest < S f ->
    length (skipn (i + length d) rest) < f.
  Proof.
    intros Hi Hf. pose proof (index_of_bound _ _ _ Hi). pose proof dlen.
    rewrite skipn_length. lia.
  Qed.

  (* joining what the iterator hands out gives back the string *)
  Lemma collect_join : forall f rest, length rest < f ->
    join d (sp_collect f (mkSplitter d (Some rest))) = rest.
  Proof.
    induction f as [|f IH]; intros rest Hf; [lia|].
    rewrite collect_step. destruct (index_of d rest) as [i|] eqn:Hi; [|reflexivity].
    pose proof (skip_fuel _ _ _ Hi Hf) as Hf'.
    destruct f as [|f']; [lia|].
    rewrite join_cons by apply collect_nonempty.
    rewrite IH by assumption. symmetry. now apply index_of_decomp.
  Qed.

  (* every element handed out is "clean": found again by a first-occurrence search *)
  Lemma collect_clean : forall f rest, length rest < f ->
    clean_list d (sp_collect f (mkSplitter d (Some rest))).
  Proof.
    induction f as [|f IH]; intros rest Hf; [lia|].
    rewrite collect_step. destruct (index_of d rest) as [i|] eqn:Hi; [|exact Hi].
    pose proof (skip_fuel _ _ _ Hi Hf) as Hf'.
    destruct f as [|f']; [lia|].
    specialize (IH _ Hf').
    destruct (sp_collect (S f') _) as [|y r] eqn:Ec; [destruct IH|].
    cbn [clean_list]. split; [|exact IH].
    unfold clean. pose proof (index_of_bound _ _ _ Hi) as B.
    rewrite firstn_length_le by lia.
    pose proof (index_of_decomp _ _ _ Hi) as D.
    rewrite D in Hi. rewrite app_assoc in Hi.
    apply index_of_app_inv in Hi; [exact Hi|].
    rewrite app_length, firstn_length_le by lia. lia.
  Qed.

  (* and it is the only clean list with that join *)
  Lemma collect_unique : forall l, clean_list d l ->
    forall f, length (join d l) < f -> sp_collect f (mkSplitter d (Some (join d l))) = l.
  Proof.
    induction l as [|x r IH]; intros C f Hf; [destruct C|].
    destruct f as [|f]; [lia|]. rewrite collect_step.
    destruct r as [|y r].
    - cbn in C |- *. now rewrite C.
    - destruct C as [Cx Cr]. rewrite join_cons in * by discriminate.
      unfold clean in Cx. rewrite app_assoc.
      rewrite (index_of_app _ _ (join d (y :: r)) _ Cx).
      rewrite <- app_assoc. rewrite firstn_app, firstn_all, Nat.sub_diag. cbn [firstn]. rewrite app_nil_r.
      f_equal.
      assert (E : skipn (length x + length d) (x ++ d ++ join d (y :: r)) = join d (y :: r)).
      { rewrite app_assoc. rewrite <- app_length. rewrite skipn_app, skipn_all, Nat.sub_diag. reflexivity. }
      rewrite E. apply IH; [exact Cr|].
      rewrite !app_length in Hf. pose proof dlen. lia.
  Qed.

  Lemma split_fuel_irrelevant s f : length s < f -> sp_collect f (sp_init s d) = split d s.
  Proof.
    intros Hf. unfold split, sp_init.
    pose proof (collect_clean (S (length s)) s (Nat.lt_succ_diag_r _)) as C.
    pose proof (collect_join (S (length s)) s (Nat.lt_succ_diag_r _)) as J.
    remember (sp_collect (S (length s)) {| sp_delim := d; sp_rest := Some s |}) as l eqn:El.
    clear El. subst s. rewrite !collect_unique by (assumption || lia). reflexivity.
  Qed.

  Theorem join_split s : join d (split d s) = s.
  Proof. apply collect_join. lia. Qed.

  Theorem split_clean s : clean_list d (split d s).
  Proof. apply collect_clean. lia. Qed.

  Theorem split_nonempty s : split d s <> [].
  Proof. apply collect_nonempty. Qed.

  Theorem split_unique l s : clean_list d l -> join d l = s -> split d s = l.
  Proof. intros C <-. apply collect_unique; [exact C|lia]. Qed.

  Theorem split_join_iff l : split d (join d l) = l <-> clean_list d l.
  Proof.
    split; intros H.
    - rewrite <- H. apply split_clean.
    - now apply split_unique.
  Qed.

  Lemma split_nil : split d [] = [[]].
  Proof. unfold split, sp_init. rewrite collect_step. destruct d; [congruence|reflexivity]. Qed.
End NonEmptyDelim.

(* ------------------------------------------------------------------ one-byte separator *)
Lemma index_single b s :
  index_of [b] s = match s with
                   | [] => None
                   | x :: r => if (b =? x)%N then Some 0 else option_map S (index_of [b] r)
                   end.
Proof.
  rewrite index_of_unfold. destruct s as [|x r]; [reflexivity|]. cbn [is_prefix].
  rewrite andb_true_r. reflexivity.
Qed.

Lemma index_single_None b : forall s, index_of [b] s = None <-> ~ In b s.
Proof.
  induction s as [|x r IH]; rewrite index_single; [cbn; tauto|].
  destruct (N.eqb_spec b x).
  - split; [discriminate|]. intros H. exfalso. apply H. now left.
  - destruct (index_of [b] r) eqn:E; cbn.
    + split; [discriminate|]. intros H. exfalso. destruct IH as [_ IH].
      assert (~ In b r) by (intros Hi; apply H; now right). specialize (IH H0). discriminate.
    + split; [|reflexivity]. intros _ [H|H]; [congruence|]. now apply IH.
Qed.

Lemma clean_single b x : clean [b] x <-> ~ In b x.
Proof.
  unfold clean. induction x as [|y x IH]; cbn [app length]; rewrite index_single.
  - rewrite N.eqb_refl. cbn. tauto.
  - destruct (N.eqb_spec b y).
    + split; [discriminate|]. intros H. exfalso. apply H. now left.
    + split.
      * intros H [Hi|Hi]; [congruence|]. apply IH; [|exact Hi].
        destruct (index_of [b] (x ++ [b])); cbn in H; congruence.
      * intros H. assert (Hx : ~ In b x) by (intros Hi; apply H; now right).
        apply IH in Hx. now rewrite Hx.
Qed.

Lemma clean_list_single b : forall l, l <> [] ->
  (clean_list [b] l <-> Forall (fun x => ~ In b x) l).
Proof.
  induction l as [|x r IH]; intros Hl; [congruence|].
  destruct r as [|y r].
  - cbn. rewrite index_single_None. split; [intros H; now constructor|intros H; now inversion H].
  - cbn [clean_list]. rewrite clean_single, IH by discriminate.
    split; [intros [A B]; now constructor|intros H; inversion H; tauto].
Qed.

Lemma single_ne (b : N) : [b] <> [].
Proof. discriminate. Qed.

Theorem split_single_free b s : Forall (fun x => ~ In b x) (split [b] s).
Proof.
  apply (proj1 (clean_list_single b _ (split_nonempty [b] s))).
  apply split_clean, single_ne.
Qed.

Theorem split_join_single b l : l <> [] -> Forall (fun x => ~ In b x) l -> split [b] (join [b] l) = l.
Proof. intros Hl F. apply split_join_iff; [apply single_ne|]. now apply (proj2 (clean_list_single b l Hl)). Qed.

Lemma join_app d : forall l1 l2, l1 <> [] -> l2 <> [] -> join d (l1 ++ l2) = join d l1 ++ d ++ join d l2.
Proof.
  induction l1 as [|x r IH]; intros l2 H1 H2; [congruence|].
  destruct r as [|y r].
  - cbn [app]. now rewrite join_cons.
  - cbn [app]. rewrite join_cons by discriminate. rewrite (join_cons d x (y :: r)) by discriminate.
    change (y :: r ++ l2) with ((y :: r) ++ l2). rewrite IH by (assumption || discriminate).
    now rewrite <- !app_assoc.
Qed.

(* concatenating two lists = writing the separator between their encodings *)
Theorem split_single_app b u v : split [b] (u ++ [b] ++ v) = split [b] u ++ split [b] v.
Proof.
  apply split_unique; [apply single_ne| |].
  - apply clean_list_single.
    + intros H. apply app_eq_nil in H as [H _]. revert H. apply split_nonempty.
    + apply Forall_app. split; apply split_single_free.
  - rewrite join_app by (apply split_nonempty). now rewrite !join_split by apply single_ne.
Qed.

Lemma count_index b : forall s,
  match index_of [b] s with
  | None => count_byte b s = 0
  | Some i => count_byte b s = S (count_byte b (skipn (i + 1) s))
  end.
Proof.
  induction s as [|x r IH]; rewrite index_single; [reflexivity|].
  cbn [count_byte]. rewrite (N.eqb_sym x b). destruct (b =? x)%N; [reflexivity|].
  destruct (index_of [b] r) as [j|]; cbn; assumption.
Qed.

Lemma collect_count b : forall f rest, length rest < f ->
  length (sp_collect f (mkSplitter [b] (Some rest))) = S (count_byte b rest).
Proof.
  induction f as [|f IH]; intros rest Hf; [lia|].
  rewrite collect_step. pose proof (count_index b rest) as C.
  destruct (index_of [b] rest) as [i|] eqn:Hi; [|cbn; now rewrite C].
  cbn [length]. rewrite IH; [now rewrite C|]. apply (skip_fuel [b] (single_ne b) _ _ _ Hi Hf).
Qed.

(* strings.Count(s, sep) + 1 is the number of elements *)
Theorem split_single_length b s : length (split [b] s) = S (count_byte b s).
Proof. apply collect_count. lia. Qed.

Lemma split_single_nocc b s : ~ In b s -> split [b] s = [s].
Proof.
  intros H. change s with (join [b] [s]) at 1. apply split_join_single; [discriminate|].
  now constructor.
Qed.
