(* C15: the boolean form used by the correspondence holds for (and the functional projection [model] agrees
   with) every quiescent run of the two transition systems. *)
From Coq Require Import List NArith Arith Bool Lia.
From RareV Require Import Base.Hex Model.Follow Proofs.FollowBase Proofs.FollowNotify Proofs.FollowPoll.
Import ListNotations.
Local Open Scope nat_scope.

Definition appended (tr : list label) : bytes := flat_map (fun l => match l with LAppend b => b | _ => [] end) tr.

Lemma label_eqb_refl l : label_eqb l l = true.
Proof. destruct l; cbn; auto using bytes_eqb_refl. Qed.
Lemma labels_eqb_refl tr : list_eqb label_eqb tr tr = true.
Proof. induction tr; cbn; [reflexivity|]. rewrite label_eqb_refl, IHtr. reflexivity. Qed.

(* what the specification automaton accumulates *)
Lemma spec_run_acc ro tr : forall sp sp', spec_run ro sp tr = Some sp' ->
  sDl sp' = sDl sp ++ data_of tr /\ sE sp' = sE sp ++ appended tr /\
  sRemoved sp' = sRemoved sp || existsb is_remove tr.
Proof.
  induction tr as [|l tr IH]; intros sp sp' H; cbn in H.
  - inversion H; subst. cbn. rewrite !app_nil_r, orb_false_r. auto.
  - destruct (spec_step ro sp l) as [sp1|] eqn:E; [|discriminate]. destruct (IH _ _ H) as (A & B & C).
    rewrite A, B, C. clear IH H A B C. unfold data_of, appended. cbn [flat_map existsb].
    destruct l; cbn in E;
      repeat match type of E with (if ?c then _ else _) = _ => destruct c; [|try discriminate] | _ => idtac end;
      try discriminate; inversion E; subst; cbn [sDl sE sRemoved is_remove];
      rewrite <- ?app_assoc, ?app_nil_l, ?orb_true_r, ?orb_true_l, ?orb_false_l; auto.
Qed.

Lemma filter_env_appended tr : appended (filter is_env tr) = appended tr.
Proof. unfold appended. induction tr as [|l tr IH]; cbn; [reflexivity|]. destruct l; cbn; rewrite ?IH; reflexivity. Qed.
Lemma filter_env_remove tr : existsb is_remove (filter is_env tr) = existsb is_remove tr.
Proof. induction tr as [|l tr IH]; cbn; [reflexivity|]. destruct l; cbn; rewrite ?IH; reflexivity. Qed.

Lemma wanted_reopen rm h : wanted true rm h = appended h.
Proof. revert rm. unfold appended. induction h as [|l h IH]; intros rm; cbn; [reflexivity|]. destruct l; cbn; rewrite ?IH; reflexivity. Qed.
Lemma filter_env_wanted ro tr : forall rm, wanted ro rm (filter is_env tr) = wanted ro rm tr.
Proof. induction tr as [|l tr IH]; intros rm; cbn; [reflexivity|]. destruct l; cbn; rewrite ?IH; reflexivity. Qed.
Lemma wanted_snoc ro tr l : forall rm, wanted ro rm (tr ++ [l]) =
  wanted ro rm tr ++ match l with LAppend b => if negb ro && (rm || existsb is_remove tr) then [] else b | _ => [] end.
Proof.
  induction tr as [|x tr IH]; intros rm; cbn.
  - destruct l; cbn; rewrite ?app_nil_r, ?orb_false_r; reflexivity.
  - destruct x; cbn; rewrite ?IH, ?orb_true_r, <- ?app_assoc; cbn; try reflexivity.
Qed.

(* ---- the first incarnation along a run ---- *)
Lemma removed_b_step e l e' : estep e l e' -> removed_b e' = removed_b e || is_remove l.
Proof.
  intros H. unfold removed_b. rewrite (estep_past _ _ _ H). destruct l; cbn; rewrite ?app_nil_r, ?orb_false_r; try reflexivity.
  destruct (past e); reflexivity.
Qed.
Lemma content0_step e l e' : estep e l e' ->
  content e' 0 = content e 0 ++ match l with LAppend b => if removed_b e then [] else b | _ => [] end.
Proof.
  intros H. unfold removed_b. destruct (past e) as [|c0 ps] eqn:Pa.
  - (* inode 0 is the file at the path, or nothing exists yet *)
    inversion H; subst; unfold content, curc; cbn [past cur]; rewrite Pa; cbn; rewrite ?H0, ?app_nil_r; reflexivity.
  - assert (0 < length (past e)) as L by (rewrite Pa; cbn; lia).
    assert (valid_fd e (Some (0, 0))) as V by (split; [left; exact L|lia]).
    destruct (estep_fd _ _ _ _ _ H V) as (_ & _ & _ & _ & C). rewrite (C L). destruct l; rewrite app_nil_r; reflexivity.
Qed.

Section Track.
Context {S : Type}.
Variable step : S -> label -> S -> Prop.
Variable ok : S -> label -> Prop.
Variable envof : S -> env.
Hypothesis step_env : forall s l s', step s l s' ->
  estep (envof s) l (envof s') \/
  (envof s' = envof s /\ match l with LAppend _ | LRemove | LCreate => False | _ => True end).

Lemma track s0 tr s : run step ok s0 tr s ->
  content (envof s) 0 = content (envof s0) 0 ++ wanted false (removed_b (envof s0)) tr /\
  removed_b (envof s) = removed_b (envof s0) || existsb is_remove tr.
Proof.
  intros R. induction R as [|s0 tr s1 l s2 R [IH1 IH2] Ok St].
  - cbn. rewrite app_nil_r, orb_false_r. auto.
  - rewrite wanted_snoc, existsb_app. cbn [existsb negb andb]. rewrite orb_false_r.
    destruct (step_env _ _ _ St) as [E|[E Hl]].
    + rewrite (content0_step _ _ _ E), (removed_b_step _ _ _ E), IH1, IH2, <- app_assoc. split; [|symmetry; apply orb_assoc].
      destruct l; reflexivity.
    + rewrite E, IH1, IH2. destruct l; try contradiction; cbn; rewrite ?app_nil_r, ?orb_false_r; auto.
Qed.
End Track.

Lemma nstep_env ro rp s l s' : nstep ro rp s l s' ->
  estep (nenv s) l (nenv s') \/ (nenv s' = nenv s /\ match l with LAppend _ | LRemove | LCreate => False | _ => True end).
Proof. intros St. inversion St; subst; cbn [nenv]; auto. Qed.
Lemma pstep_env ro rp s l s' : pstep ro rp s l s' ->
  estep (penv s) l (penv s') \/ (penv s' = penv s /\ match l with LAppend _ | LRemove | LCreate => False | _ => True end).
Proof. intros St. inversion St; subst; cbn [penv]; auto. destruct (rb s <=? sz); cbn [penv]; auto. Qed.

Section OfSpec.
Variable i : cin.
Variable tr : list label.
Variable sp : spec.
Hypothesis Hrun : spec_run (i_reopen i) (spec_init (i_c0 i) (i_tail i)) tr = Some sp.
Hypothesis Hhist : i_hist i = filter is_env tr.
Hypothesis Hall : sDl sp = expected i.                                  (* quiescent: everything that has to be delivered was *)
Hypothesis Hend : sEnded sp = negb (i_reopen i) && sRemoved sp.         (* ended iff it had to *)

Let term : N := if sEnded sp then 1%N else 0%N.

Lemma term_expected : term = expected_term i.
Proof.
  unfold term, expected_term. destruct (spec_run_acc _ _ _ _ Hrun) as (_ & _ & C).
  rewrite Hhist, filter_env_remove, Hend, C. cbn. reflexivity.
Qed.

Lemma check_of_spec : C15_check i (sDl sp, term, tr) = true.
Proof.
  destruct (spec_run_acc _ _ _ _ Hrun) as (A & _ & _). cbn in A.
  assert (data_of tr = expected i) as A2 by (rewrite <- Hall; symmetry; exact A).
  unfold C15_check. rewrite Hall, Hhist, labels_eqb_refl, Hrun, A2, !bytes_eqb_refl. cbn [andb].
  rewrite term_expected, N.eqb_refl. cbn [andb].
  rewrite <- term_expected. unfold term. destruct (sEnded sp); reflexivity.
Qed.

Lemma model_of_spec : obs_eqb (model i) (sDl sp, term, tr) = true.
Proof. unfold model, obs_eqb. rewrite term_expected, N.eqb_refl, andb_true_r, Hall. apply bytes_eqb_refl. Qed.
End OfSpec.

(* ---- instantiation ---- *)
Definition nended (s : nstate) : bool := match npcs s with NEnded => true | _ => false end.
Definition pended (s : pstate) : bool := match ppcs s with PEnded => true | _ => false end.
Definition termN (b : bool) : N := if b then 1%N else 0%N.

(* quiescence [pre ++ delivered = want reopen env] gives the functional projection *)
Lemma expected_of_want reopen poll c0 tail tr (e : env) del :
  (reopen = true -> sE (spec_init c0 tail) ++ appended tr = skipn (length (pre_of c0 tail)) (all e)) ->
  (reopen = false -> content e 0 = match c0 with Some c => c | None => [] end ++ wanted false false tr) ->
  pre_of c0 tail ++ del = want reopen e ->
  del = expected (mkcin poll reopen tail c0 (filter is_env tr)).
Proof.
  intros Ht Hf Hq. unfold expected. cbn [i_reopen i_c0 i_tail i_hist]. rewrite filter_env_wanted.
  rewrite <- (skipn_pre (pre_of c0 tail) del), Hq. destruct reopen; unfold want.
  - rewrite wanted_reopen. symmetry. apply Ht. reflexivity.
  - rewrite (Hf eq_refl). unfold spec_init, pre_of. cbn [sE]. destruct c0 as [c|]; [|reflexivity].
    rewrite skipn_app, firstn_length_le by apply start_le.
    replace (start_of tail c - length c) with 0 by (pose proof (start_le tail c); lia). reflexivity.
Qed.

Section Sound.
Variable reopen : bool.
Variable c0 : option bytes.
Variable tail : bool.
Let pre := pre_of c0 tail.

Lemma check_sound_notify tr s :
  run (nstep reopen true) (nok pre) (ninit c0 tail) tr s ->
  pre ++ ndel s = want reopen (nenv s) ->
  nended s = negb reopen && removed_b (nenv s) ->
  let i := mkcin false reopen tail c0 (filter is_env tr) in
  C15_check i (ndel s, termN (nended s), tr) = true /\ obs_eqb (model i) (ndel s, termN (nended s), tr) = true.
Proof.
  intros R Hq He i. pose proof (nrun_spec reopen c0 tail tr s R) as Sp. fold pre in Sp.
  assert (sDl (nabs pre s) = expected i) as Hall.
  { cbn [sDl nabs]. apply (expected_of_want reopen false c0 tail tr (nenv s)); [| |exact Hq].
    - intros _. destruct (spec_run_acc _ _ _ _ Sp) as (_ & B & _). symmetry. exact B.
    - intros _. destruct (track (nstep reopen true) (nok pre) nenv (nstep_env reopen true) _ _ _ R) as [T _].
      rewrite T. unfold ninit, env0, content, curc. cbn. reflexivity. }
  split.
  - apply (check_of_spec i tr (nabs pre s)); auto.
  - apply (model_of_spec i tr (nabs pre s)); auto.
Qed.

Hypothesis new_ok : c0 = None -> reopen = true.
Lemma check_sound_poll tr s :
  run (pstep reopen true) (pok pre) (pinit c0 tail) tr s ->
  pre ++ pdel s = want reopen (penv s) ->
  pended s = negb reopen && removed_b (penv s) ->
  let i := mkcin true reopen tail c0 (filter is_env tr) in
  C15_check i (pdel s, termN (pended s), tr) = true /\ obs_eqb (model i) (pdel s, termN (pended s), tr) = true.
Proof.
  intros R Hq He i. pose proof (prun_spec reopen c0 tail new_ok tr s R) as Sp. fold pre in Sp.
  assert (sDl (pabs pre s) = expected i) as Hall.
  { cbn [sDl pabs]. apply (expected_of_want reopen true c0 tail tr (penv s)); [| |exact Hq].
    - intros _. destruct (spec_run_acc _ _ _ _ Sp) as (_ & B & _). symmetry. exact B.
    - intros _. destruct (track (pstep reopen true) (pok pre) penv (pstep_env reopen true) _ _ _ R) as [T _].
      rewrite T. unfold pinit, env0, content, curc. cbn. reflexivity. }
  split.
  - apply (check_of_spec i tr (pabs pre s)); auto.
  - apply (model_of_spec i tr (pabs pre s)); auto.
Qed.
End Sound.
