(* C15: the boolean form used by the correspondence holds for (and the functional projection [model] agrees
   with) every quiescent run of the two transition systems. *)
From Coq Require Import List NArith Arith Bool Lia.
From RareV Require Import Base.Hex Model.Follow Proofs.FollowBase Proofs.FollowNotify Proofs.FollowPoll.
Import ListNotations.
Local Open Scope nat_scope.

Definition appended (tr : list label) : bytes := flat_map (fun l => match l with LAppend b => b | _ => [] end) tr.

Lemma label_eqb_refl l : label_eqb l l = true.
Proof. destruct l; cbn; auto using bytes_eqb_refl. Qed.
Lemma labels_eqb_refl tr : list_eqb label_eqb tr tr = true.
Proof. induction tr; cbn; [reflexivity|]. rewrite label_eqb_refl, IHtr. reflexivity. Qed.

(* what the specification automaton accumulates *)
Lemma spec_run_acc ro tr : forall sp sp', spec_run ro sp tr = Some sp' ->
  sDl sp' = sDl sp ++ data_of tr /\ sE sp' = sE sp ++ appended tr /\
  sRemoved sp' = sRemoved sp || existsb is_remove tr.
Proof.
  induction tr as [|l tr IH]; intros sp sp' H; cbn in H.
  - inversion H; subst. cbn. rewrite !app_nil_r, orb_false_r. auto.
  - destruct (spec_step ro sp l) as [sp1|] eqn:E; [|discriminate]. destruct (IH _ _ H) as (A & B & C).
    rewrite A, B, C. clear IH H A B C. unfold data_of, appended. cbn [flat_map existsb].
    destruct l; cbn in E;
      repeat match type of E with (if ?c then _ else _) = _ => destruct c; [|try discriminate] | _ => idtac end;
      try discriminate; inversion E; subst; cbn [sDl sE sRemoved is_remove];
      rewrite <- ?app_assoc, ?app_nil_l, ?orb_true_r, ?orb_true_l, ?orb_false_l; auto.
Qed.

Lemma filter_env_appended tr : appended (filter is_env tr) = appended tr.
Proof. unfold appended. induction tr as [|l tr IH]; cbn; [reflexivity|]. destruct l; cbn; rewrite ?IH; reflexivity. Qed.
Lemma filter_env_remove tr : existsb is_remove (filter is_env tr) = existsb is_remove tr.
Proof. induction tr as [|l tr IH]; cbn; [reflexivity|]. destruct l; cbn; rewrite ?IH; reflexivity. Qed.

Lemma spec_init_fresh c0 tail : sDl (spec_init c0 tail) = [] /\ sRemoved (spec_init c0 tail) = false.
Proof. split; reflexivity. Qed.

Section OfSpec.
Variable i : cin.
Variable tr : list label.
Variable sp : spec.
Hypothesis Hrun : spec_run (i_reopen i) (spec_init (i_c0 i) (i_tail i)) tr = Some sp.
Hypothesis Hhist : i_hist i = filter is_env tr.
Hypothesis Hall : sDl sp = sE sp.                                      (* quiescent: everything delivered *)
Hypothesis Hend : sEnded sp = negb (i_reopen i) && sRemoved sp.         (* ended iff it had to *)

Let term : N := if sEnded sp then 1%N else 0%N.

Lemma term_expected : term = expected_term i.
Proof.
  unfold term, expected_term. destruct (spec_run_acc _ _ _ _ Hrun) as (_ & _ & C).
  rewrite Hhist, filter_env_remove, Hend, C. cbn. reflexivity.
Qed.

Lemma check_of_spec : C15_check i (sDl sp, term, tr) = true.
Proof.
  unfold C15_check. rewrite Hhist, labels_eqb_refl, Hrun. destruct (spec_run_acc _ _ _ _ Hrun) as (A & _ & _).
  cbn in A. rewrite A, bytes_eqb_refl. cbn [andb]. rewrite <- A, Hall, bytes_eqb_refl, term_expected, N.eqb_refl. cbn [andb].
  rewrite <- term_expected. unfold term. destruct (sEnded sp); reflexivity.
Qed.

Lemma model_of_spec : obs_eqb (model i) (sDl sp, term, tr) = true.
Proof.
  unfold model, obs_eqb. rewrite term_expected, N.eqb_refl, andb_true_r. apply bytes_eqb_eq.
  unfold expected. destruct (spec_run_acc _ _ _ _ Hrun) as (_ & B & _).
  rewrite Hall, B, Hhist. fold (appended (filter is_env tr)). rewrite filter_env_appended. reflexivity.
Qed.
End OfSpec.

(* ---- instantiation: notify ---- *)
Section Sound.
Variable reopen : bool.
Variable c0 : option bytes.
Variable tail : bool.
Let pre := pre_of c0 tail.

Definition nended (s : nstate) : bool := match npcs s with NEnded => true | _ => false end.
Definition pended (s : pstate) : bool := match ppcs s with PEnded => true | _ => false end.
Definition termN (b : bool) : N := if b then 1%N else 0%N.

Lemma check_sound_notify tr s :
  run (nstep reopen true) (nok pre) (ninit c0 tail) tr s ->
  pre ++ ndel s = all (nenv s) ->
  nended s = negb reopen && removed_b (nenv s) ->
  let i := mkcin false reopen tail c0 (filter is_env tr) in
  C15_check i (ndel s, termN (nended s), tr) = true /\ obs_eqb (model i) (ndel s, termN (nended s), tr) = true.
Proof.
  intros R Hq He i. pose proof (nrun_spec reopen c0 tail tr s R) as Sp. fold pre in Sp.
  assert (sDl (nabs pre s) = sE (nabs pre s)) as Hall by (cbn; rewrite <- Hq, skipn_pre; reflexivity).
  split.
  - apply (check_of_spec i tr (nabs pre s)); auto.
  - apply (model_of_spec i tr (nabs pre s)); auto.
Qed.

Hypothesis new_ok : c0 = None -> reopen = true.
Lemma check_sound_poll tr s :
  run (pstep reopen) (pok pre) (pinit c0 tail) tr s ->
  pre ++ pdel s = all (penv s) ->
  pended s = negb reopen && removed_b (penv s) ->
  let i := mkcin true reopen tail c0 (filter is_env tr) in
  C15_check i (pdel s, termN (pended s), tr) = true /\ obs_eqb (model i) (pdel s, termN (pended s), tr) = true.
Proof.
  intros R Hq He i. pose proof (prun_spec reopen c0 tail new_ok tr s R) as Sp. fold pre in Sp.
  assert (sDl (pabs pre s) = sE (pabs pre s)) as Hall by (cbn; rewrite <- Hq, skipn_pre; reflexivity).
  split.
  - apply (check_of_spec i tr (pabs pre s)); auto.
  - apply (model_of_spec i tr (pabs pre s)); auto.
Qed.
End Sound.
