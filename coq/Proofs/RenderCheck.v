(* C14 — soundness of the boolean form (Corr/C14Case.v [check]): when it accepts an observed output,
   the property's statement holds of that output. *)
From Coq Require Import List ZArith NArith QArith Bool Lia.
From RareV Require Import Base.Hex Base.Num Base.Res Gen.GenPalette Model.Scale Model.Render
  Proofs.RenderBars Proofs.RenderTable Proofs.RenderHisto Corr.C14Case.
Import ListNotations.
Local Open Scope Z_scope.

(* ---------- generic reflection lemmas ---------- *)
Lemma asc_adjacent {A} (le : A -> A -> bool) : forall l k a b,
  asc le l = true -> nth_error l k = Some a -> nth_error l (S k) = Some b -> le a b = true.
Proof.
  induction l as [|x l IH]; intros k a b H Ha Hb. destruct k; simpl in Ha; discriminate Ha.
  destruct l as [|y t]. destruct k; simpl in Hb; [discriminate Hb | destruct k; discriminate Hb].
  simpl in H. apply andb_prop in H as [H1 H2].
  destruct k.
  - simpl in Ha, Hb. inversion Ha; inversion Hb; subst. assumption.
  - simpl in Ha. eapply IH; eauto.
Qed.
Lemma zip_all_Forall2 {A B} (f : A -> B -> bool) : forall a b,
  zip_all f a b = true -> Forall2 (fun x y => f x y = true) a b.
Proof.
  induction a as [|x a IH]; intros [|y b] H; simpl in H; try discriminate. constructor.
  apply andb_prop in H as [H1 H2]. constructor; auto.
Qed.
Lemma Forall2_impl {A B} (P Q : A -> B -> Prop) : (forall a b, P a b -> Q a b) ->
  forall l l', Forall2 P l l' -> Forall2 Q l l'.
Proof. intros H l l' F. induction F; constructor; auto. Qed.
Lemma all_idx_spec {A} (f : nat -> A -> bool) : forall l k j x,
  all_idx f k l = true -> nth_error l j = Some x -> f (k + j)%nat x = true.
Proof.
  induction l as [|y l IH]; intros k j x H Hn. destruct j; simpl in Hn; discriminate Hn.
  simpl in H. apply andb_prop in H as [H1 H2]. destruct j.
  - simpl in Hn. inversion Hn; subst. rewrite Nat.add_0_r. assumption.
  - simpl in Hn. replace (k + S j)%nat with (S k + j)%nat by lia. eapply IH; eauto.
Qed.
Lemma q01_spec q : q01 q = true -> (0 <= q <= 1)%Q.
Proof. unfold q01. intros H. apply andb_prop in H as [A B]. apply Qle_bool_iff in A, B. auto. Qed.
Lemma q01_complete q : (0 <= q <= 1)%Q -> q01 q = true.
Proof. unfold q01. intros [A B]. apply andb_true_intro. split; apply Qle_bool_iff; assumption. Qed.
Lemma prefix_drop_spec : forall p s r, prefix_drop p s = Some r -> s = p ++ r.
Proof.
  induction p as [|a p IH]; intros s r H; simpl in H. inversion H; reflexivity.
  destruct s as [|b s]. discriminate. destruct (N.eqb_spec a b); [|discriminate]. subst.
  simpl. f_equal. apply IH. assumption.
Qed.
Lemma drop_sp_spec : forall s, exists pad, s = pad ++ drop_sp s /\ Forall (fun x => x = SP) pad /\
  match drop_sp s with x :: _ => x <> SP | [] => True end.
Proof.
  induction s as [|x s [pad [E [F G]]]]. exists []. simpl. auto.
  unfold drop_sp in *. simpl. destruct (N.eqb_spec x SP).
  - subst. exists (SP :: pad). split. simpl. f_equal. assumption. split. constructor; auto. assumption.
  - exists []. split. reflexivity. split. constructor. assumption.
Qed.
Lemma ends_with_spec s suf : ends_with s suf = true -> exists h, s = h ++ suf.
Proof.
  unfold ends_with. intros H. apply andb_prop in H as [_ H]. apply str_eqb_eq in H.
  exists (firstn (length s - length suf) s). rewrite <- H at 2. symmetry. apply firstn_skipn.
Qed.

(* ---------- scaler and bars ---------- *)
(* "Scaled magnitudes lie in [0,1] and are monotone in the value" of the observed values (the
   case's value list is ascending) *)
Theorem check_scale_sound mp mn mx vs l : check (IScale mp mn mx vs) (OQ l) = true ->
  length l = length vs /\ Forall (fun q => (0 <= q <= 1)%Q) l /\
  (forall k a b, nth_error l k = Some a -> nth_error l (S k) = Some b -> (a <= b)%Q).
Proof.
  cbn [check]. intros H. apply andb_prop in H as [H H3]. apply andb_prop in H as [H1 H2].
  split. apply Nat.eqb_eq. assumption.
  split. rewrite forallb_forall in H1. apply Forall_forall. intros q Hq. apply q01_spec. auto.
  intros k a b Ha Hb. apply Qle_bool_iff. eapply asc_adjacent; eauto.
Qed.

(* palette indices and lengths observed for magnitudes in [0,1] are in range (and ascending) *)
Theorem check_bucket_sound n us l : check (IBucket n us) (OZ l) = true ->
  Forall2 (fun u z => (0 <= u <= 1)%Q -> 0 <= z <= n - 1) us l.
Proof.
  cbn [check]. intros H. apply zip_all_Forall2 in H.
  eapply Forall2_impl; [|exact H]. cbv beta. intros u z Hb Hu.
  rewrite (q01_complete u Hu) in Hb. simpl in Hb. lia.
Qed.
Theorem check_length_sound n us l : check (ILength n us) (OZ l) = true ->
  Forall2 (fun u z => (0 <= u <= 1)%Q -> 0 <= z <= n) us l /\
  (Forall (fun u => (0 <= u <= 1)%Q) us ->
   forall k a b, nth_error l k = Some a -> nth_error l (S k) = Some b -> a <= b).
Proof.
  cbn [check]. intros H. apply andb_prop in H as [H1 H2]. split.
  - apply zip_all_Forall2 in H1. eapply Forall2_impl; [|exact H1]. cbv beta. intros u z Hb Hu.
    rewrite (q01_complete u Hu) in Hb. simpl in Hb. lia.
  - intros Hu k a b Ha Hb.
    assert (F : forallb q01 us = true).
    { apply forallb_forall. intros u Hin. apply q01_complete. rewrite Forall_forall in Hu. auto. }
    rewrite F in H2. simpl in H2. apply Z.leb_le. eapply asc_adjacent; eauto.
Qed.
(* "bars never exceed their maximum width and grow with the value" (scaled bars) *)
Theorem check_barw_sound uni len us l : check (IBarW uni len us) (OS l) = true ->
  Forall2 (fun u s => (0 <= u <= 1)%Q -> lenZ s <= len) us l /\
  (Forall (fun u => (0 <= u <= 1)%Q) us ->
   forall k a b, nth_error l k = Some a -> nth_error l (S k) = Some b -> (length a <= length b)%nat).
Proof.
  cbn [check]. intros H. apply andb_prop in H as [H1 H2]. split.
  - apply zip_all_Forall2 in H1. eapply Forall2_impl; [|exact H1]. cbv beta. intros u z Hb Hu.
    rewrite (q01_complete u Hu) in Hb. simpl in Hb. lia.
  - intros Hu k a b Ha Hb.
    assert (F : forallb q01 us = true).
    { apply forallb_forall. intros u Hin. apply q01_complete. rewrite Forall_forall in Hu. auto. }
    rewrite F in H2. simpl in H2. apply Nat.leb_le.
    exact (asc_adjacent (fun a b : str => (length a <=? length b)%nat) l k a b H2 Ha Hb).
Qed.
(* stacked bars: the observed bar is within the width, whatever the values and the maximum *)
Theorem check_stack_sound col uni maxVal maxLen vals s :
  check (IStack col uni maxVal maxLen vals) (OS [s]) = true -> 0 <= maxLen -> str_len col s <= maxLen.
Proof. cbn [check]. intros H HL. apply orb_prop in H as [H|H]; lia. Qed.
(* heat / spark cells: one visible rune per magnitude *)
Theorem check_cells_sound :
  (forall col uni us l, check (IHeatC col uni us) (OS l) = true ->
     length l = length us /\ Forall (fun s => str_len col s = 1) l) /\
  (forall uni us l, check (ISparkC uni us) (OS l) = true ->
     length l = length us /\ Forall (fun s => lenZ s = 1) l).
Proof.
  split; intros; cbn [check] in H; apply andb_prop in H as [H1 H2];
    (split; [apply Nat.eqb_eq; assumption|]);
    rewrite forallb_forall in H2; apply Forall_forall; intros s Hs; apply Z.eqb_eq; auto.
Qed.

(* ---------- table layout ---------- *)
Section TableSpec.
  Variable col : bool.
  Variable maxr : nat.

  Definition wstep (w : list Z) (o : tw_op) : list Z :=
    match o with TRow n cells => if (maxr <=? n)%nat then w else upd_w col w cells | TFoot _ _ => w end.
  Definition rstep (rows : list (option (list str))) (o : tw_op) :=
    match o with TRow n cells => set_row n (Some cells) rows | TFoot _ _ => rows end.

  Lemma wle_refl : forall w, wle w w.
  Proof. induction w; simpl; auto. split. lia. assumption. Qed.
  Lemma wle_trans : forall a b c, wle a b -> wle b c -> wle a c.
  Proof.
    induction a as [|x a IH]; intros [|y b] [|z c] H1 H2; simpl in *; try contradiction; auto.
    destruct H1, H2. split. lia. eapply IH; eauto.
  Qed.
  Lemma wstep_ge w o : wle w (wstep w o).
  Proof.
    destruct o; simpl. destruct (maxr <=? n)%nat. apply wle_refl. apply upd_w_ge. apply wle_refl.
  Qed.
  Lemma wfold_ge : forall ops w, wle w (fold_left wstep ops w).
  Proof.
    induction ops as [|o r IH]; intros w; simpl. apply wle_refl.
    eapply wle_trans. apply wstep_ge. apply IH.
  Qed.
  (* every row written within the limit is covered by the final widths *)
  Lemma wfold_covers : forall ops w n cells, In (TRow n cells) ops -> (n < maxr)%nat ->
    covers col (fold_left wstep ops w) cells.
  Proof.
    induction ops as [|o r IH]; intros w n cells Hin Hn. contradiction.
    simpl. destruct Hin as [->|Hin].
    - eapply covers_mono. apply wfold_ge. simpl.
      destruct (Nat.leb_spec maxr n). lia. apply upd_w_covers.
    - eapply IH; eauto.
  Qed.
  (* a stored row was written, within the limit *)
  Lemma rfold_in : forall ops rows i cells,
    nth_error (fold_left rstep ops rows) i = Some (Some cells) ->
    (In (TRow i cells) ops /\ (i < length rows)%nat) \/ nth_error rows i = Some (Some cells).
  Proof.
    induction ops as [|o r IH]; intros rows i cells H; simpl in H. right. assumption.
    destruct (IH _ _ _ H) as [[A B]|A].
    - left. split. right. assumption. destruct o; simpl in B; [rewrite set_row_length in B|]; assumption.
    - destruct o as [n cs|idx ln]; simpl in A.
      + apply set_row_some in A as [[-> Heq]|[Hne A]].
        * injection Heq as Heq. subst cs. left. split. left. reflexivity.
          destruct (Nat.lt_ge_cases n (length rows)). assumption.
          exfalso. assert (nth_error (fold_left rstep r (set_row n (Some cells) rows)) n = None).
          { apply nth_error_None.
            assert (L : forall ops rs, length (fold_left rstep ops rs) = length rs).
            { clear. induction ops as [|o r IH]; intros rs; simpl. reflexivity. rewrite IH.
              destruct o; simpl. apply set_row_length. reflexivity. }
            rewrite L, set_row_length. assumption. }
          cbn [rstep] in H. congruence.
        * right. assumption.
      + right. assumption.
  Qed.
End TableSpec.

(* "table columns line up": if the check accepts the observed lines then every stored row is
   on its line laid out with the widths W (the widest cell ever written to each column), and —
   for cells that terminate their SGR sequences — column j starts at visible offset
   sum_{i<j} (W_i + 1) on the observed line *)
Theorem check_table_sound col maxc maxr ops lines : check (ITable col maxc maxr ops) (OS lines) = true ->
  let W := spec_widths col maxc maxr ops in
  forall i cells, nth_error (spec_rows maxr ops) i = Some (Some cells) ->
    nth i lines [] = render_row col W cells /\
    (Forall (closed col) cells -> forall j, (j <= Nat.min maxc (length cells))%nat ->
       exists pre rest, nth i lines [] = pre ++ rest /\ str_len col pre = offset W j /\
                        rest = render_row col (skipn j W) (skipn j cells)).
Proof.
  cbn [check]. intros H. cbv zeta. intros i cells Hs.
  set (W := spec_widths col maxc maxr ops) in *.
  (* the line *)
  assert (G : forall rows k, rows_ok col W k rows lines = true ->
              forall i0 cs, nth_error rows i0 = Some (Some cs) -> nth (k + i0) lines [] = render_row col W cs).
  { induction rows as [|[c|] rows IH]; intros k Hk i0 cs Hn. destruct i0; simpl in Hn; discriminate Hn.
    - simpl in Hk. apply andb_prop in Hk as [H1 H2]. destruct i0.
      + simpl in Hn. inversion Hn; subst. rewrite Nat.add_0_r. apply str_eqb_eq. assumption.
      + simpl in Hn. replace (k + S i0)%nat with (S k + i0)%nat by lia. eapply IH; eauto.
    - simpl in Hk. destruct i0. simpl in Hn; discriminate Hn.
      simpl in Hn. replace (k + S i0)%nat with (S k + i0)%nat by lia. eapply IH; eauto. }
  pose proof (G _ _ H i cells Hs) as L. simpl in L.
  split. assumption.
  intros Hcl j Hj.
  (* the widths cover the row *)
  unfold spec_rows in Hs.
  change (fold_left _ ops (repeat None maxr)) with (fold_left rstep ops (repeat None maxr)) in Hs.
  apply rfold_in in Hs as [[Hin Hlt]|Hs].
  2:{ apply nth_error_In in Hs. apply repeat_spec in Hs. discriminate. }
  rewrite repeat_length in Hlt.
  assert (C : covers col W cells).
  { unfold W, spec_widths.
    change (fold_left _ ops (repeat 0 maxc)) with (fold_left (wstep col maxr) ops (repeat 0 maxc)).
    eapply wfold_covers; eauto. }
  assert (LW : length W = maxc).
  { unfold W, spec_widths.
    assert (LL : forall ops w, length (fold_left (wstep col maxr) ops w) = length w).
    { clear. induction ops as [|o r IH]; intros w; simpl. reflexivity. rewrite IH.
      destruct o; simpl. destruct (maxr <=? n)%nat. reflexivity. apply upd_w_length. reflexivity. }
    change (fold_left _ ops (repeat 0 maxc)) with (fold_left (wstep col maxr) ops (repeat 0 maxc)).
    rewrite LL. apply repeat_length. }
  destruct (render_row_offset col W cells j C Hcl ltac:(rewrite LW; assumption)) as [pre [rest [E [Lp [_ R]]]]].
  exists pre, rest. rewrite L. auto.
Qed.

(* ---------- heatmap / sparkline / data table rows ---------- *)
(* "heatmap rows contain one cell per displayed column" and "the '(n more)' notes equal the number
   of rows or columns not shown", of the observed lines *)
Theorem check_heat_sound c rlim clim a lines : heat_chk c rlim clim a lines = true ->
  let cc := Nat.min (length (a_cols a)) clim in
  let rc := Nat.min (length (a_rows a)) rlim in
  (forall k r, nth_error (firstn rc (a_rows a)) k = Some r ->
     exists pad cells, nth (2 + k) lines [] = name_cell c r ++ pad ++ cells /\
       pad <> [] /\ Forall (fun x => x = SP) pad /\ length cells = cc /\
       match cells with x :: _ => x <> SP | [] => True end) /\
  ((rc < length (a_rows a))%nat ->
     nth (2 + rc) lines [] = more_txt (Z.of_nat (length (a_rows a) - rc))) /\
  ((cc < length (a_cols a))%nat ->
     exists h, nth 1 lines [] = h ++ SP :: more_txt (Z.of_nat (length (a_cols a) - cc))).
Proof.
  unfold heat_chk. cbv zeta. intros H. apply andb_prop in H as [H H3]. apply andb_prop in H as [H1 H2].
  split; [|split].
  - intros k r Hn. pose proof (all_idx_spec _ _ _ _ _ H1 Hn) as Hr. simpl in Hr.
    unfold heat_row_chk in Hr.
    destruct (prefix_drop _ _) as [rest|] eqn:E; [|discriminate].
    apply prefix_drop_spec in E.
    destruct rest as [|x rest']; [discriminate|].
    apply andb_prop in Hr as [Hx Hc]. apply N.eqb_eq in Hx. apply Nat.eqb_eq in Hc. subst x.
    destruct (drop_sp_spec (SP :: rest')) as [pad [Ep [Fp Gp]]].
    exists pad, (drop_sp (SP :: rest')). split. rewrite E, Ep at 1. reflexivity.
    split.
    + intro. subst pad. change (SP :: rest' = drop_sp (SP :: rest')) in Ep. rewrite <- Ep in Gp. apply Gp. reflexivity.
    + split. assumption. split. assumption. assumption.
  - intros Hlt. apply Nat.ltb_lt in Hlt. rewrite Hlt in H2. apply str_eqb_eq in H2. rewrite H2.
    f_equal. unfold lenZ. apply Nat.ltb_lt in Hlt. lia.
  - intros Hlt. apply Nat.ltb_lt in Hlt. rewrite Hlt in H3. apply ends_with_spec in H3 as [h Eh].
    exists h. rewrite Eh. do 3 f_equal. unfold lenZ. apply Nat.ltb_lt in Hlt. lia.
Qed.

(* "sparkline rows contain one cell per displayed column": per row, the sparkline runes on the
   observed line are those of the key and of the First/Last numbers plus exactly one per displayed
   column; the note, when rows are hidden, is on the terminal with the number of hidden rows *)
Theorem check_spark_sound c rlim clim a lines : spark_chk c rlim clim a lines = true ->
  let k := Nat.min clim (length (a_cols a)) in
  let rc := Nat.min (length (a_rows a)) rlim in
  (forall j r, nth_error (firstn rc (a_rows a)) j = Some r ->
     let vals := last_cols k (r_vals r) in
     count_in (spark_alpha c) (nth (S j) lines []) =
       (count_in (spark_alpha c) (name_cell c r) +
        count_in (spark_alpha c) (match vals with [] => [] | v :: _ => fmt_of (c_fk c) v (a_min a) (a_max a) end) +
        count_in (spark_alpha c) (match vals with [] => [] | _ => fmt_of (c_fk c) (last vals 0%Z) (a_min a) (a_max a) end) + k)%nat) /\
  ((rc < length (a_rows a))%nat -> In (more_txt (Z.of_nat (length (a_rows a) - rc))) lines).
Proof.
  unfold spark_chk. cbv zeta. intros H. apply andb_prop in H as [H1 H2]. split.
  - intros j r Hn. pose proof (all_idx_spec _ _ _ _ _ H1 Hn) as Hr. simpl in Hr.
    unfold spark_row_chk in Hr. apply Nat.eqb_eq in Hr. exact Hr.
  - intros Hlt. pose proof Hlt as Hlt'. apply Nat.ltb_lt in Hlt. rewrite Hlt in H2.
    apply existsb_exists in H2 as [l [Hin He]]. apply str_eqb_eq in He. subst l.
    replace (Z.of_nat (length (a_rows a) - Nat.min (length (a_rows a)) rlim))
      with (lenZ (a_rows a) - Z.of_nat (Nat.min (length (a_rows a)) rlim)). assumption.
    unfold lenZ. lia.
Qed.

(* "displayed numbers equal the aggregated numbers under the chosen formatter": every displayed
   data-table row reads, word by word, as the key followed by the formatted cell values in
   column order (and the formatted row total) *)
Lemma Sl_eqb_eq : forall a b, Sl_eqb a b = true -> a = b.
Proof.
  unfold Sl_eqb. induction a as [|x a IH]; intros [|y b] H; simpl in H; try discriminate. reflexivity.
  apply andb_prop in H as [H1 H2]. apply str_eqb_eq in H1. subst. f_equal. auto.
Qed.
Theorem check_data_sound c ncols nrows rt a lines : data_chk c ncols nrows rt a lines = true ->
  forall j r, nth_error (firstn nrows (a_rows a)) j = Some r ->
    words [] (nth (S j) lines []) = data_row_words c (a_min a) (a_max a) (Nat.min ncols (length (a_cols a))) rt r.
Proof.
  unfold data_chk. intros H j r Hn. pose proof (all_idx_spec _ _ _ _ _ H Hn) as Hr. simpl in Hr.
  apply Sl_eqb_eq. exact Hr.
Qed.

(* histogram: if the check accepts the observed screen, every displayed line (value > 0) shows
   the line of its key and value under the FINAL maximum and key width — its bar is the bar of
   its value against the current maximum *)
Theorem check_histo_sound c n sb ops lines : check (IHisto c n sb ops) (OS lines) = true ->
  let h := hstate (c_col c) n ops in
  forall i k v, nth_error (h_items h) i = Some (k, v) -> 0 < v ->
    exists l, histo_line (c_col c) (c_uni c) (m_of (c_mp c)) round53 (fmt_of (c_fk c)) sb h k v = Ok l /\
              nth i lines [] = vis (c_col c) l.
Proof.
  cbn [check]. unfold histo_chk. cbv zeta. intros H i k v Hn Hv.
  pose proof (all_idx_spec _ _ _ _ _ H Hn) as Hr. cbn [fst snd] in Hr.
  destruct (Z.ltb_spec 0 v); [|lia].
  destruct (histo_line _ _ _ _ _ _ _ _ _) as [l|]; [|discriminate Hr].
  exists l. split. reflexivity. apply str_eqb_eq. exact Hr.
Qed.

(* formatter: every observed output is the template instantiated with (value, min, max) of its
   own call — a function of the triple alone, whatever was formatted before *)
Theorem check_fmt_sound f calls l : check (IFmt f calls) (OS l) = true ->
  Forall2 (fun x out => out = fmt_of f (fst (fst x)) (snd (fst x)) (snd x)) calls l.
Proof.
  cbn [check]. intros H. apply zip_all_Forall2 in H.
  eapply Forall2_impl; [|exact H]. cbv beta. intros x out E. apply str_eqb_eq. exact E.
Qed.

(* heatmap driven as cmd/heatmap.go drives it (UpdateMinMax before the Scaler is assigned, fixed
   bounds, scaler changed between renders): if the check accepts the final screen, every displayed
   row reads key, at least one blank, then exactly the blocks of its values under the scaler in
   force at the LAST render and the range in force *)
Theorem check_heatseq_sound col uni rlim clim fmn fmx ops lines mp f a cmn cmx :
  check (IHeatSeq col uni rlim clim fmn fmx ops) (OS lines) = true ->
  ranges_before_last fmn fmx 0 1 ops = Some (HoTab mp f a, cmn, cmx) ->
  let mn := fst (eff_range fmn fmx cmn cmx a) in
  let mx := snd (eff_range fmn fmx cmn cmx a) in
  let cc := Nat.min (length (a_cols a)) clim in
  let rc := Nat.min (length (a_rows a)) rlim in
  forall k r, nth_error (firstn rc (a_rows a)) k = Some r ->
    exists pad cells,
      rconcat (fun v => heat_write col uni round53 (scale (m_of mp) round53 v mn mx)) (firstn cc (r_vals r)) = Ok cells /\
      nth (2 + k) lines [] = vis col (wrap col col_Yellow (r_name r)) ++ pad ++ vis col cells /\
      pad <> [] /\ Forall (fun x => x = SP) pad.
Proof.
  cbn [check]. unfold heat_seq_chk. intros H R. rewrite R in H. cbv zeta.
  destruct (eff_range fmn fmx cmn cmx a) as [mn mx] eqn:E. cbn [fst snd].
  apply andb_prop in H as [H1 _]. intros k r Hn.
  pose proof (all_idx_spec _ _ _ _ _ H1 Hn) as Hr. simpl in Hr. unfold heat_seq_row_chk in Hr.
  destruct (prefix_drop _ _) as [[|x rest]|] eqn:P; try discriminate Hr.
  apply prefix_drop_spec in P. apply andb_prop in Hr as [Hx Hc]. apply N.eqb_eq in Hx. subst x.
  destruct (rconcat _ _) as [cells|]; [|discriminate Hc]. apply str_eqb_eq in Hc.
  destruct (drop_sp_spec (SP :: rest)) as [pad [Ep [Fp Gp]]].
  exists pad, cells. split. reflexivity. split.
  - rewrite P, Ep at 1. rewrite Hc. reflexivity.
  - split; [|assumption]. intro. subst pad. change (SP :: rest = drop_sp (SP :: rest)) in Ep.
    rewrite <- Ep in Gp. apply Gp. reflexivity.
Qed.

(* bar graph fed frame by frame: the per-row clauses of the final-screen check.  Grouped: every
   value of the row has, on its own line, the bar of the value against the final maximum followed
   by the formatted value; stacked: the row's line ends with the stacked bar of the last values
   against the final maximum and the formatted total. *)
Lemma grouped_tails_sound c size mx lines line : forall vals i0,
  grouped_tails_ok c size mx lines line i0 vals = true ->
  forall i v, nth_error vals i = Some v ->
    exists gc bar h, group_color (i0 + i) = Ok gc /\
      bar_write (c_uni c) round53 (scale (m_of (c_mp c)) round53 v 0 mx) size = Ok bar /\
      nth (line + (i0 + i)) lines [] =
        h ++ SP :: vis (c_col c) (cwrite (c_col c) gc bar ++ [SP] ++ fmt_of (c_fk c) v 0 mx).
Proof.
  induction vals as [|v0 r IH]; intros i0 H i v Hn. destruct i; discriminate Hn.
  cbn [grouped_tails_ok] in H. apply andb_prop in H as [H1 H2]. destruct i.
  - simpl in Hn. inversion Hn; subst. rewrite Nat.add_0_r.
    destruct (group_color i0) as [gc|]; [|discriminate H1].
    destruct (bar_write _ _ _ _) as [bar|]; [|discriminate H1].
    apply ends_with_spec in H1 as [h Eh]. exists gc, bar, h. auto.
  - simpl in Hn. replace (i0 + S i)%nat with (S i0 + i)%nat by lia. apply IH; assumption.
Qed.
Lemma bg_rows_sound c size stacked mx nk prefix lines : forall ops,
  bg_rows_ok c size stacked mx nk prefix lines ops = true ->
  forall pre idx key vals post, ops = pre ++ BBar idx key vals :: post -> last_for_idx idx post = true ->
    if stacked then
      exists bar h, bar_stacked (c_col c) (c_uni c) mx size vals = Ok bar /\
        nth (idx + prefix) lines [] = h ++ SP :: SP :: vis (c_col c) (bar ++ [SP; SP] ++ fmt_of (c_fk c) (zsum vals) 0 mx)
    else grouped_tails_ok c size mx lines (prefix + idx * nk) 0 vals = true.
Proof.
  induction ops as [|o r IH]; intros H pre idx key vals post E L.
  - destruct pre; discriminate E.
  - destruct pre as [|p pre].
    + simpl in E. inversion E; subst. cbn [bg_rows_ok] in H. rewrite L in H.
      apply andb_prop in H as [H1 _]. destruct stacked.
      * destruct (bar_stacked _ _ _ _ _) as [bar|]; [|discriminate H1].
        apply ends_with_spec in H1 as [h Eh]. exists bar, h. auto.
      * assumption.
    + simpl in E. inversion E; subst. apply (IH ltac:(destruct p; cbn [bg_rows_ok] in H;
        [apply andb_prop in H as [_ H]; exact H | exact H | exact H]) pre idx key vals post eq_refl L).
Qed.
