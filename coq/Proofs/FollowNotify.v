(* C15, notify reader (repaired D-handler): the invariant of every reachable state, for every interleaving of
   writer, watcher goroutine and reader, under the property's history restriction (removal after drain). *)
From Coq Require Import List NArith Arith Bool Lia.
From RareV Require Import Base.Hex Model.Follow Proofs.FollowBase.
Import ListNotations.
Local Open Scope nat_scope.

Section NotifyProof.
Variable reopen : bool.
Variable repaired : bool.       (* true: the delete handler after the repair; false: as found *)
Variable pre : bytes.
Notation nstep := (nstep reopen repaired).

Record NInv (s : nstate) : Prop := mkNInv {
  iV : valid_fd (nenv s) (nfd s);
  (* delivered = every earlier file completely + the open file from its beginning up to the offset *)
  iP : forall i off, nfd s = Some (i, off) ->
         pre ++ ndel s = concat (firstn i (past (nenv s))) ++ firstn off (content (nenv s) i);
  (* no descriptor: nothing of the file at the path has been delivered *)
  iN : nfd s = None -> pre ++ ndel s = concat (past (nenv s));
  (* every removed file was delivered completely *)
  iG : exists r, pre ++ ndel s = concat (past (nenv s)) ++ r;
  (* a delete signal exists only after a removal *)
  iD : sigD s = true \/ In EvRemove (queue s) -> past (nenv s) <> [];
  (* plain follow: after a removal the delete signal is pending until the stream has ended *)
  iR : reopen = false -> past (nenv s) <> [] -> npcs s <> NEnded -> sigD s = true \/ In EvRemove (queue s);
  (* no lost wake-up while the descriptor is the file at the path *)
  iW : forall i off, nfd s = Some (i, off) -> present (nenv s) = true -> i = ino (nenv s) ->
         off < length (curc (nenv s)) -> npcs s = NSelect -> sigW s = true \/ In EvWrite (queue s);
  iE : npcs s = NEnded -> reopen = false /\ past (nenv s) <> []
}.

Lemma past_grows e l e' : estep e l e' -> past e <> [] -> past e' <> [].
Proof. intros H N. rewrite (estep_past _ _ _ H). intros E. apply app_eq_nil in E as [E _]. auto. Qed.

Lemma ninv_env s l e' q' : NInv s -> nok pre s l -> estep (nenv s) l e' ->
  (q' = queue s ++ ev_of l \/ exists bs q, l = LAppend bs /\ queue s = q ++ [EvWrite] /\ q' = queue s) ->
  NInv (mkn e' (nfd s) (npcs s) (sigW s) (sigD s) q' (ndel s)).
Proof.
  intros I Ok H Q. destruct I as [V P N G D R W E].
  assert (forall ev, In ev (queue s) -> In ev q') as Qin.
  { intros ev Hin. destruct Q as [->|(? & ? & _ & _ & ->)]; [apply in_or_app; left|]; exact Hin. }
  assert (forall ev, In ev q' -> In ev (queue s) \/ In ev (ev_of l)) as Qout.
  { intros ev Hin. destruct Q as [->|(? & ? & _ & _ & ->)]; [apply in_app_or in Hin|]; tauto. }
  constructor; cbn [nenv nfd npcs sigW sigD queue ndel].
  - destruct (nfd s) as [[i off]|]; [|exact I]. apply (estep_fd _ _ _ _ _ H V).
  - intros i off F. rewrite F in V. destruct (estep_fd _ _ _ _ _ H V) as (_ & A & B & _). rewrite A, B. apply P, F.
  - intros F. rewrite (estep_past _ _ _ H). destruct l; rewrite ?app_nil_r; try apply N, F.
    cbn in Ok. unfold drained in Ok. rewrite Ok, concat_app. cbn. rewrite app_nil_r. reflexivity.
  - rewrite (estep_past _ _ _ H). destruct l; rewrite ?app_nil_r; try exact G.
    cbn in Ok. unfold drained in Ok. exists []. rewrite Ok, concat_app. cbn. rewrite !app_nil_r. reflexivity.
  - intros [Hd|Hq].
    + apply (past_grows _ _ _ H). apply D. left. exact Hd.
    + destruct (Qout _ Hq) as [Hq'|Hq'].
      * apply (past_grows _ _ _ H). apply D. right. exact Hq'.
      * destruct l; cbn in Hq'; try tauto; try (destruct Hq' as [Hq'|[]]; discriminate).
        rewrite (estep_past _ _ _ H). intros X. apply app_eq_nil in X as [_ X]. discriminate.
  - intros Hr Hp He. destruct l; try (inversion H; fail).
    + rewrite (estep_past _ _ _ H), app_nil_r in Hp. destruct (R Hr Hp He) as [X|X]; [left; exact X|right; apply Qin, X].
    + right. destruct Q as [->|(? & ? & X & _)]; [|discriminate]. apply in_or_app. right. left. reflexivity.
    + rewrite (estep_past _ _ _ H), app_nil_r in Hp. destruct (R Hr Hp He) as [X|X]; [left; exact X|right; apply Qin, X].
  - intros i off F Hp Hi Ho Hs. rewrite F in V.
    destruct (estep_present _ _ _ H) as [Pb Pa].
    destruct l; try (inversion H; fail).
    + (* append: a write event is queued *)
      right. destruct Q as [->|(? & q & _ & X & ->)]; [apply in_or_app; right; left; reflexivity|].
      rewrite X. apply in_or_app. right. left. reflexivity.
    + rewrite Pa in Hp. discriminate.
    + (* create: the descriptor cannot be the new file *)
      exfalso. destruct V as [[V|[_ V]] _]; [|rewrite Pb in V; discriminate].
      unfold ino in Hi. rewrite (estep_past _ _ _ H), app_nil_r in Hi. lia.
  - intros He. destruct (E He) as [E1 E2]. split; [exact E1|]. apply (past_grows _ _ _ H), E2.
Qed.

(* [Hstale]: the only place where the repair matters — without it the delete signal must not be taken while
   the descriptor is the file at the path *)
Lemma ninv_step s l s' : NInv s -> nok pre s l ->
  (repaired = false -> npcs s = NSelect -> sigD s = true -> fd_current (nenv s) (nfd s) = false) ->
  nstep s l s' -> NInv s'.
Proof.
  intros I Ok Hstale St. inversion St; subst.
  - eapply ninv_env; eauto.
  - eapply ninv_env; eauto. right. eauto.
  - (* watcher *)
    destruct I as [V P N G D R W E]. constructor; cbn [nenv nfd npcs sigW sigD queue ndel]; auto.
    + intros [X|X]; apply D; rewrite H; [|right; right; exact X].
      destruct ev; [left; exact X|right; left; reflexivity|left; exact X|left; exact X].
    + intros Hr Hp He. destruct (R Hr Hp He) as [X|X].
      * left. destruct ev; auto.
      * rewrite H in X. destruct X as [X|X]; [subst ev; left; reflexivity|right; exact X].
    + intros i off F Hp Hi Ho Hs. destruct (W i off F Hp Hi Ho Hs) as [X|X].
      * left. destruct ev; auto.
      * rewrite H in X. destruct X as [X|X]; [subst ev; left; reflexivity|right; exact X].
  - (* data *)
    destruct I as [V P N G D R W E]. rewrite H0 in V. destruct V as [V1 V2].
    constructor; cbn [nenv nfd npcs sigW sigD queue ndel]; auto; try congruence.
    + split; [exact V1|]. eapply chunk_len; eauto.
    + intros i0 off0 F. inversion F; subst i0 off0. rewrite (firstn_chunk _ _ _ _ H2).
      rewrite !app_assoc. f_equal. apply P, H0.
    + destruct G as [r G]. exists (r ++ bs). rewrite !app_assoc. f_equal. exact G.
    + intros Hr Hp _. apply R; auto. congruence.
  - (* descriptor at its end *)
    destruct I as [V P N G D R W E]. constructor; cbn [nenv nfd npcs sigW sigD queue ndel]; auto; try congruence.
    + intros Hr Hp _. apply R; auto. congruence.
    + intros i0 off0 F Hp Hi Ho _. exfalso. rewrite H0 in F. inversion F; subst i0 off0.
      apply skipn_nil_len in H1. subst i. unfold ino in H1. rewrite content_cur in H1. lia.
  - (* no descriptor *)
    destruct I as [V P N G D R W E]. constructor; cbn [nenv nfd npcs sigW sigD queue ndel]; auto; try congruence.
    + intros Hr Hp _. apply R; auto. congruence.
  - (* write signal taken *)
    destruct I as [V P N G D R W E]. constructor; cbn [nenv nfd npcs sigW sigD queue ndel]; auto; try congruence.
    + destruct (nfd s) as [[i off]|]; [exact V|]. destruct reopen; [|exact Logic.I].
      unfold open_cur. destruct (present (nenv s)) eqn:Pp; [|exact Logic.I]. cbn. split; [right; split; [reflexivity|exact Pp]|lia].
    + intros i off F. destruct (nfd s) as [[i1 off1]|] eqn:F1; [apply P; exact F|].
      destruct reopen; [|discriminate]. unfold open_cur in F. destruct (present (nenv s)); [|discriminate].
      inversion F; subst i off. unfold ino. rewrite firstn_all. cbn. rewrite app_nil_r. apply N. reflexivity.
    + intros F. destruct (nfd s) as [[i1 off1]|] eqn:F1; [discriminate|]. apply N. reflexivity.
    + intros Hr Hp _. apply R; auto. congruence.
  - (* delete signal, re-open *)
    destruct I as [V P N G D R W E]. constructor; cbn [nenv nfd npcs sigW sigD queue ndel]; auto; try congruence.
    + destruct (repaired && fd_current (nenv s) (nfd s)); [exact V|exact Logic.I].
    + intros i off F. destruct (repaired && fd_current (nenv s) (nfd s)); [apply P; exact F|discriminate].
    + destruct (nfd s) as [[i off]|] eqn:F1; [|intros _; apply N; reflexivity].
      destruct (repaired && fd_current (nenv s) (Some (i, off))) eqn:Fc; [intros X; discriminate|intros _].
      assert (fd_current (nenv s) (Some (i, off)) = false) as Fc'.
      { apply andb_false_iff in Fc as [Fc|Fc]; [|exact Fc]. apply Hstale; auto. }
      destruct V as [[V|[V Vp]] _].
      * destruct G as [r G]. rewrite (P i off eq_refl) in *. rewrite content_past in * by exact V.
        apply (past_full _ _ _ _ V G).
      * exfalso. cbn in Fc'. rewrite Vp, V in Fc'. unfold ino in Fc'. rewrite Nat.eqb_refl in Fc'. discriminate.
  - (* delete signal, plain follow: the stream ends *)
    destruct I as [V P N G D R W E]. constructor; cbn [nenv nfd npcs sigW sigD queue ndel]; auto; try congruence.
  - (* another entry of the directory: one more event that is not about the path *)
    destruct I as [V P N G D R W E]. constructor; cbn [nenv nfd npcs sigW sigD queue ndel]; auto.
    + intros [X|X]; apply D; [left; exact X|right]. apply in_app_or in X as [X|[X|[]]]; [exact X|discriminate].
    + intros Hr Hp He. destruct (R Hr Hp He) as [X|X]; [left; exact X|right; apply in_or_app; left; exact X].
    + intros i off F Hp Hi Ho Hs. destruct (W i off F Hp Hi Ho Hs) as [X|X]; [left; exact X|right; apply in_or_app; left; exact X].
Qed.
End NotifyProof.

(* ------------------------------------------------------------------ consequences *)
Definition removed_b (e : env) : bool := match past e with [] => false | _ => true end.
Lemma removed_b_true e : past e <> [] -> removed_b e = true.
Proof. unfold removed_b. destruct (past e); congruence. Qed.

Definition nabs (pre : bytes) (s : nstate) : spec :=
  mks (skipn (length pre) (all (nenv s))) (ndel s) (present (nenv s)) (removed_b (nenv s))
      (match npcs s with NEnded => true | _ => false end).

(* the abstraction of an environment step, shared with the polling proof *)
Lemma spec_env ro pre e l e' del (en : bool) rest :
  estep e l e' -> all e = pre ++ del ++ rest -> (l = LRemove -> drained pre e del) ->
  spec_step ro (mks (skipn (length pre) (all e)) del (present e) (removed_b e) en) l =
  Some (mks (skipn (length pre) (all e')) del (present e') (removed_b e') en).
Proof.
  intros H A Dr. pose proof (estep_all _ _ _ H) as Al. pose proof (estep_past _ _ _ H) as Pa.
  destruct (estep_present _ _ _ H) as [Pb Pn].
  assert (forall x, skipn (length pre) (all e ++ x) = skipn (length pre) (all e) ++ x) as Sk.
  { intros x. rewrite A, <- !app_assoc, !skipn_pre. rewrite <- app_assoc. reflexivity. }
  destruct l; try (inversion H; fail); cbn [spec_step sPresent sE sDl sRemoved sEnded]; rewrite Pb, Pn.
  - rewrite Al, Sk. unfold removed_b. rewrite Pa, app_nil_r. reflexivity.
  - specialize (Dr eq_refl). unfold drained in Dr. rewrite <- Dr, skipn_pre, bytes_eqb_refl. cbn.
    rewrite Al, app_nil_r, <- Dr, skipn_pre. unfold removed_b at 1. rewrite Pa. destruct (past e); reflexivity.
  - rewrite Al, app_nil_r. unfold removed_b. rewrite Pa, app_nil_r. reflexivity.
Qed.

Lemma start_le tail c : start_of tail c <= length c.
Proof. unfold start_of. destruct tail; lia. Qed.

Section NotifyThms.
Variable reopen : bool.
Variable c0 : option bytes.
Variable tail : bool.
Let pre := pre_of c0 tail.
Notation nstep := (nstep reopen true).
Notation NInv := (NInv reopen pre).
Lemma stale_triv s : true = false -> npcs s = NSelect -> sigD s = true -> fd_current (nenv s) (nfd s) = false.
Proof. discriminate. Qed.
Notation nrun := (run nstep (nok pre) (ninit c0 tail)).

Lemma ninv_init : NInv (ninit c0 tail).
Proof.
  unfold ninit, pre, pre_of, fd0, env0. destruct c0 as [c|]; constructor; cbn; try tauto; try discriminate; try congruence.
  - split; [right; split; [reflexivity|reflexivity]|]. unfold content. cbn. apply start_le.
  - intros i off F. inversion F; subst. unfold content. cbn. rewrite app_nil_r. reflexivity.
  - exists (firstn (start_of tail c) c). rewrite app_nil_r. reflexivity.
  - intros [X|X]; [discriminate|tauto].
  - exists []. reflexivity.
  - intros [X|X]; [discriminate|tauto].
Qed.

Lemma ninv_run_from s0 tr s : NInv s0 -> run nstep (nok pre) s0 tr s -> NInv s.
Proof. intros I R. induction R as [|s0 tr s1 l s2 R IH Ok St]; [exact I|]. eapply ninv_step; [apply IH, I|exact Ok|apply stale_triv|exact St]. Qed.
Lemma ninv_run tr s : nrun tr s -> NInv s.
Proof. apply ninv_run_from, ninv_init. Qed.

Lemma ninv_prefix s : NInv s -> exists rest, all (nenv s) = pre ++ ndel s ++ rest.
Proof.
  intros [V P N _ _ _ _ _]. destruct (nfd s) as [[i off]|] eqn:F.
  - destruct V as [V Vo]. destruct (all_split (nenv s) i) as [t T]; [tauto|].
    exists (skipn off (content (nenv s) i) ++ t). rewrite app_assoc, (P i off eq_refl), T, <- !app_assoc.
    f_equal. rewrite app_assoc, firstn_skipn. reflexivity.
  - exists (curc (nenv s)). rewrite app_assoc, (N eq_refl). reflexivity.
Qed.

Lemma nabs_step s l s' : NInv s -> nok pre s l -> nstep s l s' -> spec_step reopen (nabs pre s) l = Some (nabs pre s').
Proof.
  intros I Ok St. pose proof (ninv_step _ _ _ _ _ _ I Ok (stale_triv s) St) as I'.
  destruct (ninv_prefix _ I) as [rest A]. destruct (ninv_prefix _ I') as [rest' A'].
  inversion St; subst; unfold nabs in *; cbn [nenv nfd npcs sigW sigD queue ndel] in *.
  - eapply spec_env; eauto. intros ->. exact Ok.
  - eapply spec_env; eauto. discriminate.
  - reflexivity.
  - rewrite H. cbn [spec_step sEnded sDl sE negb andb]. rewrite A', !skipn_pre.
    rewrite is_prefix_app. destruct bs; [congruence|]. reflexivity.
  - rewrite H. reflexivity.
  - rewrite H. reflexivity.
  - rewrite H. reflexivity.
  - rewrite H. reflexivity.
  - rewrite H. cbn [spec_step sEnded sDl sE sRemoved negb andb].
    rewrite removed_b_true; [reflexivity|]. apply (iD _ _ _ I). left. assumption.
  - reflexivity.
Qed.

Lemma nabs_init : nabs pre (ninit c0 tail) = spec_init c0 tail.
Proof.
  unfold nabs, ninit, spec_init, pre, pre_of, env0, all, curc, present, removed_b. cbn. destruct c0 as [c|]; cbn; [|reflexivity].
  rewrite firstn_length_le by apply start_le. reflexivity.
Qed.

Lemma nrun_spec_from s0 tr s : NInv s0 -> run nstep (nok pre) s0 tr s ->
  spec_run reopen (nabs pre s0) tr = Some (nabs pre s).
Proof.
  intros I R. induction R; [reflexivity|]. rewrite spec_run_app, (IHR I). cbn.
  rewrite (nabs_step s1 l s2); [reflexivity| |assumption|assumption]. eapply ninv_run_from; eauto.
Qed.

(* every run is accepted by the specification, which ends in the abstraction of the final state *)
Lemma nrun_spec tr s : nrun tr s -> spec_run reopen (spec_init c0 tail) tr = Some (nabs pre s).
Proof. intros R. rewrite <- nabs_init. apply nrun_spec_from; [apply ninv_init|exact R]. Qed.
End NotifyThms.
