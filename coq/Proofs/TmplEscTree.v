(* Print/parse with layered escapes: literal text over ALL runes at any nesting depth.
   Every layer (statement scanner, argument splitter) removes exactly one backslash level from
   literal text and copies the structure; compiling [eprint 0 c] yields the tree c denotes. *)
From Coq Require Import List NArith ZArith Bool Lia Arith.
From RareV Require Import Base.Res Base.Hex Base.Num Model.IsSpace Model.Tmpl Model.TmplPrint
  Proofs.TmplFuel Proofs.TmplEsc Proofs.TmplCopy Proofs.TmplTree Proofs.TmplMain.
Import ListNotations.
Local Open Scope N_scope.

(* ---- special runes ---- *)
Lemma space_not_nrt c : is_space c = true -> c <> 110 /\ c <> 114 /\ c <> 116.
Proof.
  unfold is_space. intros H.
  repeat (apply orb_true_iff in H; destruct H as [H|H]);
    repeat (apply andb_true_iff in H; destruct H as [H H']);
    try apply N.leb_le in H; try apply N.leb_le in H'; try apply N.eqb_eq in H; lia.
Qed.

Lemma special_unescape c : special c = true -> unescape c = c.
Proof.
  unfold special. intros H. apply orb_true_iff in H as [H|H].
  - unfold safe in H. rewrite negb_involutive in H.
    repeat (apply orb_true_iff in H; destruct H as [H|H]); apply N.eqb_eq in H; subst; reflexivity.
  - destruct (space_not_nrt c H) as (H1 & H2 & H3). apply unescape_other; assumption.
Qed.

Lemma not_special c : special c = false -> safe c = true /\ is_space c = false.
Proof.
  unfold special. intros H. apply orb_false_iff in H as [H1 H2]. apply negb_false_iff in H1. auto.
Qed.

Lemma lesc_nonempty s : s <> [] -> lesc s <> [].
Proof. destruct s as [|c r]; [congruence|]. intros _. cbn. unfold lesc1. destruct (special c); discriminate. Qed.
Lemma lescn_nonempty n s : s <> [] -> lescn n s <> [].
Proof. induction n; cbn [lescn]; auto. intros H. apply lesc_nonempty. auto. Qed.

(* ============ the outer scanner inside a statement: "copies X1 as X0" ============ *)
Section CopO.
  Variable fixed : bool.
  Variable fs : fenv.
  Variable rec : str -> result (tmpl * list cerr).

  Definition copiesO (D : nat) (X1 X0 : str) : Prop :=
    forall i start sb stages errs rest, exists i',
      scan fixed fs rec i start (S D) sb stages errs (X1 ++ rest)
      = scan fixed fs rec i' start (S D) (sb ++ X0) stages errs rest.

  Lemma copiesO_nil D : copiesO D [] [].
  Proof. intros i start sb stages errs rest. exists i. cbn. rewrite app_nil_r. reflexivity. Qed.

  Lemma copiesO_app D A1 A0 B1 B0 : copiesO D A1 A0 -> copiesO D B1 B0 -> copiesO D (A1 ++ B1) (A0 ++ B0).
  Proof.
    intros HA HB i start sb stages errs rest. rewrite <- app_assoc.
    destruct (HA i start sb stages errs (B1 ++ rest)) as [i1 E1]. rewrite E1.
    destruct (HB i1 start (sb ++ A0) stages errs rest) as [i2 E2]. rewrite E2.
    exists i2. rewrite <- app_assoc. reflexivity.
  Qed.

  Lemma copiesO_plain D c : c <> 92 -> c <> 123 -> c <> 125 -> copiesO D [c] [c].
  Proof.
    intros H1 H2 H3 i start sb stages errs rest. cbn [app]. rewrite scan_plain by assumption.
    eexists. reflexivity.
  Qed.

  Lemma copiesO_safe D s : safe_str s = true -> copiesO D s s.
  Proof.
    intros H i start sb stages errs rest. rewrite (scan_safe fixed fs rec) by assumption. eexists. reflexivity.
  Qed.

  Lemma copiesO_quote D q w : safe_str w = true -> copiesO D (quote q w) (quote q w).
  Proof.
    intros H. destruct q; cbn [quote]; [|apply copiesO_safe; assumption].
    change (34 :: w ++ [34]) with ([34] ++ w ++ [34]).
    apply copiesO_app; [apply copiesO_plain; discriminate|].
    apply copiesO_app; [apply copiesO_safe; assumption|apply copiesO_plain; discriminate].
  Qed.

  Lemma copiesO_lesc D : forall x, copiesO D (lesc x) x.
  Proof.
    induction x as [|c r IH]; [apply copiesO_nil|].
    change (lesc (c :: r)) with (lesc1 c ++ lesc r). change (c :: r) with ([c] ++ r).
    apply copiesO_app; [|exact IH]. unfold lesc1. destruct (special c) eqn:Hs.
    - intros i start sb stages errs rest. cbn [app]. rewrite scan_pair. rewrite special_unescape by assumption.
      eexists. reflexivity.
    - destruct (not_special c Hs) as [Hsafe _]. destruct (safe_inv c Hsafe) as (H1 & H2 & H3 & _).
      apply N.eqb_neq in H1, H2, H3. apply copiesO_plain; assumption.
  Qed.

  Lemma copiesO_braces D A1 A0 : copiesO (S D) A1 A0 -> copiesO D (123 :: A1 ++ [125]) (123 :: A0 ++ [125]).
  Proof.
    intros HA i start sb stages errs rest. cbn [app scan].
    change (123 =? 92) with false. change (123 =? 123) with true. cbn iota.
    rewrite <- app_assoc.
    destruct (HA (i + 1) start (sb ++ [123]) stages errs ([125] ++ rest)) as [i1 E1]. rewrite E1.
    cbn [app scan]. change (125 =? 92) with false. change (125 =? 123) with false. change (125 =? 125) with true.
    cbn iota. eexists. f_equal. rewrite <- !app_assoc. reflexivity.
  Qed.

  Lemma copiesO_concat {A} D (f1 f0 : A -> str) : forall l,
    (forall a, In a l -> copiesO D (f1 a) (f0 a)) -> copiesO D (concat (map f1 l)) (concat (map f0 l)).
  Proof.
    induction l as [|a r IH]; intros H; cbn [map concat]; [apply copiesO_nil|].
    apply copiesO_app; [apply H; left; reflexivity | apply IH; intros; apply H; right; assumption].
  Qed.
End CopO.

(* ============ the argument splitter: "copies X1 as X0" in state (d, q) ============ *)
Definition copiesS (d : Z) (q : bool) (X1 X0 : str) : Prop :=
  forall args sb rest, sp_run args sb d q false (X1 ++ rest) = sp_run args (sb ++ X0) d q false rest.

Lemma copiesS_nil d q : copiesS d q [] [].
Proof. intros args sb rest. cbn. rewrite app_nil_r. reflexivity. Qed.

Lemma copiesS_app d q A1 A0 B1 B0 : copiesS d q A1 A0 -> copiesS d q B1 B0 -> copiesS d q (A1 ++ B1) (A0 ++ B0).
Proof.
  intros HA HB args sb rest. rewrite <- app_assoc. rewrite HA, HB. rewrite <- app_assoc. reflexivity.
Qed.

Lemma copiesS_concat {A} d q (f1 f0 : A -> str) : forall l,
  (forall a, In a l -> copiesS d q (f1 a) (f0 a)) -> copiesS d q (concat (map f1 l)) (concat (map f0 l)).
Proof.
  induction l as [|a r IH]; intros H; cbn [map concat]; [apply copiesS_nil|].
  apply copiesS_app; [apply H; left; reflexivity | apply IH; intros; apply H; right; assumption].
Qed.

Lemma copiesS_lesc d q : forall x, copiesS d q (lesc x) x.
Proof.
  induction x as [|c r IH]; [apply copiesS_nil|].
  change (lesc (c :: r)) with (lesc1 c ++ lesc r). change (c :: r) with ([c] ++ r).
  apply copiesS_app; [|exact IH]. unfold lesc1. destruct (special c) eqn:Hs.
  - intros args sb rest. cbn [app sp_run]. change (92 =? 92) with true. reflexivity.
  - destruct (not_special c Hs) as [Hsafe Hsp]. destruct (safe_inv c Hsafe) as (H1 & _ & _ & H4).
    intros args sb rest. cbn [app]. destruct q.
    + apply sp_quoted_char; assumption.
    + apply sp_word_char; assumption.
Qed.

Lemma copiesS_quoted d s : noquote s = true -> nobsl s = true -> copiesS d true s s.
Proof. intros H1 H2 args sb rest. apply sp_quoted_copy; assumption. Qed.

Lemma copiesS_deep_safe d : forall s, safe_str s = true -> (0 < d)%Z -> copiesS d false s s.
Proof.
  induction s as [|c r IH]; intros H Hd; [apply copiesS_nil|].
  cbn [safe_str forallb] in H. apply andb_true_iff in H as [Hc Hr].
  change (c :: r) with ([c] ++ r). apply copiesS_app; [|apply IH; assumption].
  intros args sb rest. cbn [app]. apply sp_deep_char; [assumption|apply Z.ltb_lt; assumption].
Qed.

Lemma copiesS_braces d A1 A0 : (0 <= d)%Z -> copiesS (d + 1) false A1 A0 ->
  copiesS d false (123 :: A1 ++ [125]) (123 :: A0 ++ [125]).
Proof.
  intros Hd HA args sb rest. cbn [app]. rewrite sp_open. rewrite <- app_assoc. rewrite HA.
  cbn [app]. rewrite sp_close. replace (d + 1 - 1)%Z with d by lia.
  f_equal. rewrite <- !app_assoc. reflexivity.
Qed.

Lemma copiesS_quotes_deep d A1 A0 : (0 < d)%Z -> copiesS d true A1 A0 ->
  copiesS d false (34 :: A1 ++ [34]) (34 :: A0 ++ [34]).
Proof.
  intros Hd HA args sb rest. apply Z.ltb_lt in Hd. cbn [app].
  rewrite sp_quote_open_deep by assumption. rewrite <- app_assoc. rewrite HA.
  cbn [app]. rewrite sp_quote_close_deep by assumption.
  f_equal. rewrite <- !app_assoc. reflexivity.
Qed.

Lemma copiesS_item_deep d q w : safe_str w = true -> (0 < d)%Z -> copiesS d false (quote q w) (quote q w).
Proof.
  intros H Hd. destruct q; cbn [quote]; [|apply copiesS_deep_safe; assumption].
  apply copiesS_quotes_deep; [assumption|].
  apply copiesS_quoted; [apply safe_noquote|apply safe_nobsl]; assumption.
Qed.

(* ============ the layered printer, by levels ============ *)
Definition earg (m : nat) (a : carg) : str :=
  match a with CArg sep q body => sep ++ quote q (eprint m body) end.
Definition ebody (m : nat) (c : cpiece) : str :=
  match c with
  | CLit _ => []
  | CVar pre q w post => pre ++ quote q w ++ post
  | CCall pre qf f args post => pre ++ quote qf f ++ concat (map (earg m) args) ++ post
  end.
Definition argtxt (m : nat) (a : carg) : str := match a with CArg _ _ body => eprint m body end.

Lemma eprint_stmt j c : is_stmt c = true -> eprint_piece j c = 123 :: ebody (S (S j)) c ++ [125].
Proof.
  destruct c as [s|pre q w post|pre qf f args post]; cbn [is_stmt eprint_piece ebody]; intros H; try discriminate.
  - rewrite <- !app_assoc. reflexivity.
  - rewrite <- !app_assoc. f_equal. f_equal. f_equal. f_equal. f_equal.
    apply map_ext. intros [sep q body]. reflexivity.
Qed.

Lemma wfe_var_wf pre q w post : wfe_piece (CVar pre q w post) = wf_piece (CVar pre q w post).
Proof. reflexivity. Qed.

Lemma piece_nonempty_ok j c : piece_nonempty c = true -> eprint_piece j c <> [].
Proof.
  destruct c as [s|pre q w post|pre qf f args post]; cbn [piece_nonempty eprint_piece]; intros H; try discriminate.
  apply lescn_nonempty. destruct s; [discriminate|congruence].
Qed.

Lemma body_nonempty j body : existsb piece_nonempty body = true -> eprint j body <> [].
Proof.
  induction body as [|c r IH]; cbn [existsb]; [discriminate|]. intros H.
  unfold eprint. cbn [map concat]. apply orb_true_iff in H as [H|H].
  - pose proof (piece_nonempty_ok j c H). destruct (eprint_piece j c); [congruence|discriminate].
  - specialize (IH H). unfold eprint in IH. destruct (eprint_piece j c); [exact IH|discriminate].
Qed.

Section Layers.
  Variable fixed : bool.
  Variable fs : fenv.
  Variable rec : str -> result (tmpl * list cerr).
  Notation cO := (copiesO fixed fs rec).

  (* ---- scanner layer ---- *)
  Definition PO (c : cpiece) : Prop := wfe_piece c = true ->
    (forall m D, cO D (eprint_piece (S m) c) (eprint_piece m c)) /\
    (forall m D, cO D (ebody (S m) c) (ebody m c)).
  Definition QO (a : carg) : Prop := wfe_arg a = true -> forall m D, cO D (earg (S m) a) (earg m a).

  Lemma layerO_all : forall c, PO c.
  Proof.
    apply (cpiece_ind2 PO QO).
    - intros s _. split; intros m D; [|apply copiesO_nil].
      cbn [eprint_piece lescn]. apply copiesO_lesc.
    - intros pre q w post Hwf.
      assert (Hb : forall m D, cO D (ebody (S m) (CVar pre q w post)) (ebody m (CVar pre q w post))).
      { intros m D. cbn [ebody]. cbn [wfe_piece] in Hwf.
        apply andb_true_iff in Hwf as [Hwf Hi]. apply andb_true_iff in Hwf as [Hpre Hpost].
        destruct (item_ok_inv _ _ Hi) as [Hw _].
        apply copiesO_app; [apply copiesO_safe, ws_safe; assumption|].
        apply copiesO_app; [apply copiesO_quote; assumption|apply copiesO_safe, ws_safe; assumption]. }
      split; [|exact Hb]. intros m D. rewrite !eprint_stmt by reflexivity. apply copiesO_braces. apply Hb.
    - intros pre qf f args post HF Hwf.
      assert (Hb : forall m D, cO D (ebody (S m) (CCall pre qf f args post)) (ebody m (CCall pre qf f args post))).
      { intros m D. cbn [ebody]. cbn [wfe_piece] in Hwf.
        apply andb_true_iff in Hwf as [Hwf Hargs]. apply andb_true_iff in Hwf as [Hwf _].
        apply andb_true_iff in Hwf as [Hwf Hi]. apply andb_true_iff in Hwf as [Hpre Hpost].
        destruct (item_ok_inv _ _ Hi) as [Hw _].
        apply copiesO_app; [apply copiesO_safe, ws_safe; assumption|].
        apply copiesO_app; [apply copiesO_quote; assumption|].
        apply copiesO_app; [|apply copiesO_safe, ws_safe; assumption].
        apply copiesO_concat. intros a Ha. rewrite Forall_forall in HF. rewrite forallb_forall in Hargs.
        apply HF; auto. }
      split; [|exact Hb]. intros m D. rewrite !eprint_stmt by reflexivity. apply copiesO_braces. apply Hb.
    - intros sep q body HF Hwf m D. cbn [wfe_arg] in Hwf.
      apply andb_true_iff in Hwf as [Hwf _]. apply andb_true_iff in Hwf as [Hwf Hbody].
      apply andb_true_iff in Hwf as [Hsep _].
      cbn [earg]. apply copiesO_app; [apply copiesO_safe, ws_safe; assumption|].
      assert (Hb : cO D (eprint (S m) body) (eprint m body)).
      { unfold eprint. apply copiesO_concat. intros c Hc. rewrite Forall_forall in HF. rewrite forallb_forall in Hbody.
        apply (HF c Hc (Hbody c Hc)). }
      destruct q; cbn [quote]; [|exact Hb].
      change (34 :: eprint (S m) body ++ [34]) with ([34] ++ eprint (S m) body ++ [34]).
      change (34 :: eprint m body ++ [34]) with ([34] ++ eprint m body ++ [34]).
      apply copiesO_app; [apply copiesO_plain; discriminate|].
      apply copiesO_app; [exact Hb|apply copiesO_plain; discriminate].
  Qed.
End Layers.

(* ---- splitter layer, inside quotes (no quoted item inside) ---- *)
Definition PQ (c : cpiece) : Prop := wfe_piece c = true -> qfree c = true ->
  forall m d, copiesS d true (eprint_piece (S m) c) (eprint_piece m c).
Definition QQ (a : carg) : Prop := wfe_arg a = true -> qfree_arg a = true ->
  forall m d, copiesS d true (earg (S m) a) (earg m a).

Lemma quoted_plain d c : c <> 92 -> c <> 34 -> copiesS d true [c] [c].
Proof. intros H1 H2 args sb rest. cbn [app]. apply sp_quoted_char; apply N.eqb_neq; assumption. Qed.

Lemma quoted_safe d s : safe_str s = true -> copiesS d true s s.
Proof. intros H. apply copiesS_quoted; [apply safe_noquote|apply safe_nobsl]; assumption. Qed.

Lemma quoted_braces d A1 A0 : copiesS d true A1 A0 -> copiesS d true (123 :: A1 ++ [125]) (123 :: A0 ++ [125]).
Proof.
  intros H. change (123 :: A1 ++ [125]) with ([123] ++ A1 ++ [125]). change (123 :: A0 ++ [125]) with ([123] ++ A0 ++ [125]).
  apply copiesS_app; [apply quoted_plain; discriminate|].
  apply copiesS_app; [exact H|apply quoted_plain; discriminate].
Qed.

Lemma layerQ_all : forall c, PQ c.
Proof.
  apply (cpiece_ind2 PQ QQ).
  - intros s _ _ m d. cbn [eprint_piece lescn]. apply copiesS_lesc.
  - intros pre q w post Hwf Hq m d. cbn [qfree] in Hq. apply negb_true_iff in Hq. subst q.
    cbn [wfe_piece] in Hwf. apply andb_true_iff in Hwf as [Hwf Hi]. apply andb_true_iff in Hwf as [Hpre Hpost].
    destruct (item_ok_inv _ _ Hi) as [Hw _].
    rewrite !eprint_stmt by reflexivity. apply quoted_braces. cbn [ebody quote].
    apply copiesS_app; [apply quoted_safe, ws_safe; assumption|].
    apply copiesS_app; [apply quoted_safe; assumption|apply quoted_safe, ws_safe; assumption].
  - intros pre qf f args post HF Hwf Hq m d. cbn [qfree] in Hq. apply andb_true_iff in Hq as [Hqf Hqa].
    apply negb_true_iff in Hqf. subst qf.
    cbn [wfe_piece] in Hwf.
    apply andb_true_iff in Hwf as [Hwf Hargs]. apply andb_true_iff in Hwf as [Hwf _].
    apply andb_true_iff in Hwf as [Hwf Hi]. apply andb_true_iff in Hwf as [Hpre Hpost].
    destruct (item_ok_inv _ _ Hi) as [Hw _].
    rewrite !eprint_stmt by reflexivity. apply quoted_braces. cbn [ebody quote].
    apply copiesS_app; [apply quoted_safe, ws_safe; assumption|].
    apply copiesS_app; [apply quoted_safe; assumption|].
    apply copiesS_app; [|apply quoted_safe, ws_safe; assumption].
    apply copiesS_concat. intros a Ha. rewrite Forall_forall in HF. rewrite forallb_forall in Hargs, Hqa.
    apply HF; auto.
  - intros sep q body HF Hwf Hq m d. cbn [qfree_arg] in Hq. apply andb_true_iff in Hq as [Hqq Hqb].
    apply negb_true_iff in Hqq. subst q.
    cbn [wfe_arg] in Hwf. apply andb_true_iff in Hwf as [Hwf _]. apply andb_true_iff in Hwf as [Hwf Hbody].
    apply andb_true_iff in Hwf as [Hsep _].
    cbn [earg quote]. apply copiesS_app; [apply quoted_safe, ws_safe; assumption|].
    unfold eprint. apply copiesS_concat. intros c Hc. rewrite Forall_forall in HF. rewrite forallb_forall in Hbody, Hqb.
    apply HF; auto.
Qed.

Lemma bodyQ body : forallb wfe_piece body = true -> forallb qfree body = true ->
  forall m d, copiesS d true (eprint (S m) body) (eprint m body).
Proof.
  intros Hw Hq m d. unfold eprint. apply copiesS_concat. intros c Hc. rewrite forallb_forall in Hw, Hq.
  apply layerQ_all; auto.
Qed.

(* ---- splitter layer, unquoted, at depth >= 0 (pieces) / > 0 (the inside of a statement) ---- *)
Definition PS (c : cpiece) : Prop := wfe_piece c = true ->
  (forall m d, (0 <= d)%Z -> copiesS d false (eprint_piece (S m) c) (eprint_piece m c)).
Definition QS (a : carg) : Prop := wfe_arg a = true ->
  forall m d, (0 < d)%Z -> copiesS d false (earg (S m) a) (earg m a).

Lemma layerS_all : forall c, PS c.
Proof.
  apply (cpiece_ind2 PS QS).
  - intros s _ m d _. cbn [eprint_piece lescn]. apply copiesS_lesc.
  - intros pre q w post Hwf m d Hd.
    cbn [wfe_piece] in Hwf. apply andb_true_iff in Hwf as [Hwf Hi]. apply andb_true_iff in Hwf as [Hpre Hpost].
    destruct (item_ok_inv _ _ Hi) as [Hw _].
    rewrite !eprint_stmt by reflexivity. apply copiesS_braces; [assumption|]. cbn [ebody].
    assert (Hd1 : (0 < d + 1)%Z) by lia.
    apply copiesS_app; [apply copiesS_deep_safe; [apply ws_safe|]; assumption|].
    apply copiesS_app; [apply copiesS_item_deep; assumption|apply copiesS_deep_safe; [apply ws_safe|]; assumption].
  - intros pre qf f args post HF Hwf m d Hd.
    cbn [wfe_piece] in Hwf.
    apply andb_true_iff in Hwf as [Hwf Hargs]. apply andb_true_iff in Hwf as [Hwf _].
    apply andb_true_iff in Hwf as [Hwf Hi]. apply andb_true_iff in Hwf as [Hpre Hpost].
    destruct (item_ok_inv _ _ Hi) as [Hw _].
    rewrite !eprint_stmt by reflexivity. apply copiesS_braces; [assumption|]. cbn [ebody].
    assert (Hd1 : (0 < d + 1)%Z) by lia.
    apply copiesS_app; [apply copiesS_deep_safe; [apply ws_safe|]; assumption|].
    apply copiesS_app; [apply copiesS_item_deep; assumption|].
    apply copiesS_app; [|apply copiesS_deep_safe; [apply ws_safe|]; assumption].
    apply copiesS_concat. intros a Ha. rewrite Forall_forall in HF. rewrite forallb_forall in Hargs.
    apply HF; auto.
  - intros sep q body HF Hwf m d Hd. cbn [wfe_arg] in Hwf.
    apply andb_true_iff in Hwf as [Hwf Hq]. apply andb_true_iff in Hwf as [Hwf Hbody].
    apply andb_true_iff in Hwf as [Hsep _].
    cbn [earg]. apply copiesS_app; [apply copiesS_deep_safe; [apply ws_safe|]; assumption|].
    destruct q; cbn [quote].
    + apply copiesS_quotes_deep; [assumption|]. apply bodyQ; assumption.
    + unfold eprint. apply copiesS_concat. intros c Hc. rewrite Forall_forall in HF. rewrite forallb_forall in Hbody.
      apply HF; auto. lia.
Qed.

Lemma bodyS body : forallb wfe_piece body = true ->
  forall m, copiesS 0 false (eprint (S m) body) (eprint m body).
Proof.
  intros Hw m. unfold eprint. apply copiesS_concat. intros c Hc. rewrite forallb_forall in Hw.
  apply layerS_all; auto. lia.
Qed.

(* ---- splitting the statement (depth 0 of the splitter) ---- *)
Lemma sp_bare_item' X1 X0 acc t : copiesS 0 false X1 X0 -> X0 <> [] -> tail_ok t = true ->
  sp_run acc [] 0%Z false false (X1 ++ t) = sp_run (acc ++ [X0]) [] 0%Z false false t.
Proof.
  intros HX Hne Ht. rewrite HX. cbn [app].
  destruct t as [|c t'].
  - cbn [sp_run]. destruct X0; [congruence|]. cbn [nonempty]. rewrite app_nil_r. reflexivity.
  - cbn [tail_ok] in Ht. rewrite sp_split_space by assumption. rewrite sp_skip_space by assumption. reflexivity.
Qed.

Lemma sp_quoted_item' X1 X0 acc t : copiesS 0 true X1 X0 ->
  sp_run acc [] 0%Z false false (34 :: X1 ++ 34 :: t) = sp_run (acc ++ [X0]) [] 0%Z false false t.
Proof.
  intros HX. rewrite sp_quote_open0. rewrite HX. cbn [app]. apply sp_quote_close0.
Qed.

Lemma tail_ok_eargs m args post : forallb wfe_arg args = true -> ws post = true ->
  tail_ok (concat (map (earg m) args) ++ post) = true.
Proof.
  destruct args as [|[sep q body] r]; cbn [map concat app]; intros Hwf Hpost.
  - apply tail_ok_ws; assumption.
  - cbn [forallb wfe_arg] in Hwf. apply andb_true_iff in Hwf as [Hwf _].
    apply andb_true_iff in Hwf as [Hwf _]. apply andb_true_iff in Hwf as [Hwf _].
    apply andb_true_iff in Hwf as [Hsep Hne].
    cbn [earg]. destruct sep as [|c sep']; [discriminate|].
    cbn [app tail_ok]. cbn [ws forallb] in Hsep. apply andb_true_iff in Hsep as [Hc _]. exact Hc.
Qed.

Lemma sp_eargs : forall args acc post, forallb wfe_arg args = true -> ws post = true ->
  sp_run acc [] 0%Z false false (concat (map (earg 1) args) ++ post) = acc ++ map (argtxt 0) args.
Proof.
  induction args as [|a r IH]; intros acc post Hwf Hpost; cbn [map concat app].
  - rewrite <- (app_nil_r post). rewrite sp_skip_spaces by assumption. rewrite sp_end, app_nil_r. reflexivity.
  - cbn [forallb] in Hwf. apply andb_true_iff in Hwf as [Ha Hr].
    pose proof (tail_ok_eargs 1 r post Hr Hpost) as Ht.
    destruct a as [sep q body]. cbn [wfe_arg] in Ha.
    apply andb_true_iff in Ha as [Ha Hq]. apply andb_true_iff in Ha as [Ha Hbody]. apply andb_true_iff in Ha as [Hsep _].
    cbn [earg argtxt]. rewrite <- !app_assoc. rewrite sp_skip_spaces by assumption.
    destruct q; cbn [quote].
    + rewrite <- app_comm_cons, <- app_assoc. cbn [app].
      rewrite (sp_quoted_item' _ (eprint 0 body)) by (apply bodyQ; assumption).
      rewrite IH by assumption. rewrite <- app_assoc. reflexivity.
    + rewrite (sp_bare_item' _ (eprint 0 body)); [| apply bodyS; assumption | apply body_nonempty; assumption | assumption].
      rewrite IH by assumption. rewrite <- app_assoc. reflexivity.
Qed.

Lemma split_ecall pre qf f args post : wfe_piece (CCall pre qf f args post) = true ->
  split_args (ebody 1 (CCall pre qf f args post)) = f :: map (argtxt 0) args.
Proof.
  intros Hwf. cbn [wfe_piece] in Hwf.
  apply andb_true_iff in Hwf as [Hwf Hargs]. apply andb_true_iff in Hwf as [Hwf Hne].
  apply andb_true_iff in Hwf as [Hwf Hi]. apply andb_true_iff in Hwf as [Hpre Hpost].
  unfold split_args. cbn [ebody]. rewrite sp_skip_spaces by assumption.
  rewrite sp_word_item; [|assumption|apply tail_ok_eargs; assumption].
  rewrite sp_eargs by assumption. reflexivity.
Qed.

(* ============ the main induction ============ *)
Section EMain.
  Variable fixed : bool.
  Variable fs : fenv.
  Let cmp := compile_gen fixed fs.

  Lemma scan_estmt rec c i start sb stages errs rest :
    is_stmt c = true -> wfe_piece c = true -> exists i',
    scan fixed fs rec i start 0 sb stages errs (eprint_piece 0 c ++ rest)
    = match statement fs rec i (ebody 1 c) with
      | Ok (ps, es) => scan fixed fs rec i' i 0 [] ((stages ++ flush sb) ++ ps) (errs ++ es) rest
      | Panic => Panic
      end.
  Proof.
    intros Hs Hwf. destruct (layerO_all fixed fs rec c Hwf) as [_ Hb].
    rewrite eprint_stmt by assumption. cbn [app scan].
    change (123 =? 92) with false. change (123 =? 123) with true. cbn iota.
    rewrite <- app_assoc.
    destruct (Hb 1%nat 0%nat (i + 1) i [] (stages ++ flush sb) errs ([125] ++ rest)) as [i1 E1]. rewrite E1.
    cbn [app scan]. change (125 =? 92) with false. change (125 =? 123) with false. change (125 =? 125) with true.
    cbn iota. exists (i1 + 1). destruct (statement fs rec i (ebody 1 c)) as [[ps es]|]; reflexivity.
  Qed.

  Lemma statement_ecall rec start pre qf f args post chk (T : carg -> tmpl) :
    wfe_piece (CCall pre qf f args post) = true -> fs f = Some chk ->
    (forall a, In a args -> rec (argtxt 0 a) = Ok (T a, [])) ->
    statement fs rec start (ebody 1 (CCall pre qf f args post))
    = Ok ([PCall f (map T args)], match chk (map T args) with Some c => [(EFunc c, start)] | None => [] end).
  Proof.
    intros Hwf Hf HT. unfold statement. rewrite split_ecall by assumption.
    cbn [wfe_piece] in Hwf. apply andb_true_iff in Hwf as [Hwf _]. apply andb_true_iff in Hwf as [_ Hne].
    destruct args as [|a r]; [discriminate|]. cbn [map]. rewrite Hf.
    change (argtxt 0 a :: map (argtxt 0) r) with (map (argtxt 0) (a :: r)).
    assert (E : forall l, (forall x, In x l -> rec (argtxt 0 x) = Ok (T x, [])) ->
                compile_args rec start (map (argtxt 0) l) = Ok (map T l, [])).
    { induction l as [|x l IH]; intros H; cbn [map compile_args]; auto.
      rewrite (H x (or_introl eq_refl)). cbn [rbind fst snd].
      rewrite IH by (intros; apply H; right; assumption). reflexivity. }
    rewrite (E (a :: r)) by assumption. reflexivity.
  Qed.

  Definition EMainP (c : cpiece) : Prop :=
    wfe_piece c = true -> fn_ok fs c = true ->
    forall i start sb stages errs rest, exists i' start',
      scan fixed fs cmp i start 0 sb stages errs (eprint_piece 0 c ++ rest)
      = scan fixed fs cmp i' start' 0
          (snd (absorb stages sb [normp (erase_piece c)])) (fst (absorb stages sb [normp (erase_piece c)])) errs rest.
  Definition EMainA (a : carg) : Prop :=
    wfe_arg a = true -> fn_ok_arg fs a = true -> cmp (argtxt 0 a) = Ok (norm (erase_arg a), []).

  Lemma emain_list cs : Forall EMainP cs -> wfe_tmpl cs = true -> fn_ok_tmpl fs cs = true ->
    forall i start sb stages errs rest, exists i' start',
      scan fixed fs cmp i start 0 sb stages errs (eprint 0 cs ++ rest)
      = scan fixed fs cmp i' start' 0
          (snd (absorb stages sb (map normp (erase cs)))) (fst (absorb stages sb (map normp (erase cs)))) errs rest.
  Proof.
    induction 1 as [|c r Hc Hr IH]; intros Hwf Hfn i start sb stages errs rest.
    - exists i, start. reflexivity.
    - cbn [wfe_tmpl fn_ok_tmpl forallb] in Hwf, Hfn.
      apply andb_true_iff in Hwf as [Hw1 Hw2]. apply andb_true_iff in Hfn as [Hf1 Hf2].
      unfold eprint. cbn [erase map concat]. fold (eprint 0 r). fold (erase r). rewrite <- app_assoc.
      destruct (Hc Hw1 Hf1 i start sb stages errs (eprint 0 r ++ rest)) as (i1 & s1 & E1). rewrite E1.
      destruct (IH Hw2 Hf2 i1 s1
                  (snd (absorb stages sb [normp (erase_piece c)])) (fst (absorb stages sb [normp (erase_piece c)])) errs rest) as (i2 & s2 & E2).
      rewrite E2. exists i2, s2. rewrite (absorb_cons stages sb (normp (erase_piece c)) (map normp (erase r))).
      reflexivity.
  Qed.

  Lemma emain_of_list cs : Forall EMainP cs -> wfe_tmpl cs = true -> fn_ok_tmpl fs cs = true ->
    cmp (eprint 0 cs) = Ok (norm (erase cs), []).
  Proof.
    intros HF Hwf Hfn. unfold cmp. rewrite compile_unfold. fold cmp.
    rewrite <- (app_nil_r (eprint 0 cs)).
    destruct (emain_list cs HF Hwf Hfn 0 0 [] [] [] []) as (i & s & E). rewrite E.
    cbn [scan]. unfold norm. rewrite merge_eq. reflexivity.
  Qed.

  Lemma emain_all : forall c, EMainP c.
  Proof.
    apply (cpiece_ind2 EMainP EMainA).
    - intros s _ _ i start sb stages errs rest.
      cbn [eprint_piece lescn erase_piece normp]. rewrite absorb_one_lit. cbn [fst snd].
      destruct (copiesO_lesc fixed fs cmp 0 s i start sb stages errs rest) as [i' E].
      (* the literal lemma is stated at depth >= 1; at depth 0 the same steps apply *)
      clear E i'. exists (i + N.of_nat (length (lesc s))), start.
      revert i sb. induction s as [|c r IH]; intros i sb.
      + cbn. rewrite app_nil_r, N.add_0_r. reflexivity.
      + change (lesc (c :: r)) with (lesc1 c ++ lesc r). rewrite <- app_assoc. unfold lesc1.
        destruct (special c) eqn:Hs.
        * cbn [app]. rewrite scan_pair, special_unescape by assumption. rewrite IH. f_equal.
          -- rewrite ?app_length. cbn [length]. lia.
          -- rewrite <- app_assoc. reflexivity.
        * destruct (not_special c Hs) as [Hsafe _]. destruct (safe_inv c Hsafe) as (H1 & H2 & H3 & _).
          apply N.eqb_neq in H1, H2, H3. cbn [app]. rewrite scan_plain by assumption. rewrite IH. f_equal.
          -- rewrite ?app_length. cbn [length]. lia.
          -- rewrite <- app_assoc. reflexivity.
    - intros pre q w post Hwf _ i start sb stages errs rest.
      destruct (scan_estmt cmp (CVar pre q w post) i start sb stages errs rest eq_refl Hwf) as [i' E].
      rewrite E. exists i', i.
      change (ebody 1 (CVar pre q w post)) with (stmt_body (CVar pre q w post)).
      rewrite statement_var by (rewrite <- wfe_var_wf; assumption).
      cbn [erase_piece]. rewrite normp_simple_var. rewrite absorb_one by apply simple_var_not_lit.
      cbn [fst snd]. rewrite app_nil_r, <- app_assoc. reflexivity.
    - intros pre qf f args post HF Hwf Hfn i start sb stages errs rest.
      destruct (scan_estmt cmp (CCall pre qf f args post) i start sb stages errs rest eq_refl Hwf) as [i' E].
      rewrite E. exists i', i.
      cbn [fn_ok] in Hfn. destruct (fs f) as [chk|] eqn:Hf; [|discriminate].
      apply andb_true_iff in Hfn as [Hchk Hfa].
      assert (Hargs : forallb wfe_arg args = true).
      { cbn [wfe_piece] in Hwf. apply andb_true_iff in Hwf as [_ Hwf]. exact Hwf. }
      rewrite (statement_ecall cmp i pre qf f args post chk (fun a => norm (erase_arg a))); try assumption.
      + destruct (chk (map (fun a => norm (erase_arg a)) args)); [discriminate|].
        cbn [erase_piece normp]. rewrite absorb_one by reflexivity. cbn [fst snd].
        rewrite map_map. rewrite app_nil_r, <- app_assoc. reflexivity.
      + intros a Ha. rewrite Forall_forall in HF. rewrite forallb_forall in Hargs, Hfa.
        apply HF; auto.
    - intros sep q body HF Hwf Hfn. cbn [argtxt erase_arg].
      cbn [wfe_arg] in Hwf. apply andb_true_iff in Hwf as [Hwf _]. apply andb_true_iff in Hwf as [_ Hbody].
      cbn [fn_ok_arg] in Hfn.
      apply emain_of_list; assumption.
  Qed.

  (* compile (eprint 0 c) = norm (erase c), no errors: literal text over all runes, any depth *)
  Theorem print_parse_escaped cs : wfe_tmpl cs = true -> fn_ok_tmpl fs cs = true ->
    cmp (eprint 0 cs) = Ok (norm (erase cs), []).
  Proof.
    intros. apply emain_of_list; auto. apply Forall_forall. intros; apply emain_all.
  Qed.
End EMain.
