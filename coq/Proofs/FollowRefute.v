(* C15: witness runs.  (1) the notify reader as found (delete handler without the repair) delivers a re-created
   file twice; (2) scope note: with re-open the select may take the write signal before the delete signal and
   then sleeps until the next write although the re-created file has content; (3) the polling proviso of the
   property is needed; (4) the restrictions are satisfiable (rotation runs of both readers). *)
From Coq Require Import List NArith Arith Bool Lia.
From RareV Require Import Base.Hex Model.Follow Proofs.FollowBase.
Import ListNotations.
Local Open Scope nat_scope.

Lemma run_cons {S} (step : S -> label -> S -> Prop) (ok : S -> label -> Prop) s l s1 tr s2 :
  step s l s1 -> ok s l -> run step ok s1 tr s2 -> run step ok s (l :: tr) s2.
Proof.
  intros H O R. change (l :: tr) with ([l] ++ tr). eapply run_app; [|exact R].
  change [l] with ([] ++ [l]). econstructor; [constructor|exact O|exact H].
Qed.

Ltac okk := first [exact I | (cbn; unfold drained, all, curc; cbn; reflexivity) | (cbn; intros; first [discriminate | (cbn; lia) | (left; cbn; lia) | (right; reflexivity)])].
Ltac st tac := eapply run_cons; [tac | okk | cbn].
Ltac s_env c := st ltac:(eapply n_env; c; reflexivity).
Ltac s_append b := st ltac:(eapply n_env; eapply e_append with (bs := b); reflexivity).
Ltac s_watch := st ltac:(eapply n_watch; reflexivity).
Ltac s_data b r := st ltac:(eapply n_read_data with (bs := b) (rest := r); [reflexivity|reflexivity|discriminate|reflexivity]).
Ltac s_empty := st ltac:(eapply n_read_empty; reflexivity).
Ltac s_nofd := st ltac:(eapply n_read_nofd; reflexivity).
Ltac s_selw := st ltac:(eapply n_sel_write; reflexivity).
Ltac s_seld := st ltac:(eapply n_sel_delete_reopen; reflexivity).

Local Open Scope N_scope.
Definition cA : bytes := [65].
Definition cx : bytes := [120].

(* (1) rm; touch; rm; touch; echo x >>   handled late: "A" then "x" twice *)
Lemma unrepaired_duplicates :
  exists tr s, run (nstep true false) (nok []) (ninit (Some cA) false) tr s /\
               forall rest, all (nenv s) <> [] ++ ndel s ++ rest.
Proof.
  eexists. eexists. split.
  - unfold ninit, env0, fd0, start_of, cA. cbn.
    s_data [65] (@nil N). s_empty.
    s_env ltac:(eapply e_remove). s_env ltac:(eapply e_create).
    s_env ltac:(eapply e_remove). s_env ltac:(eapply e_create).
    s_append cx.
    s_watch. s_seld. s_nofd.
    s_watch. s_selw. s_data [120] (@nil N). s_empty.
    s_watch. s_seld. s_nofd.
    s_watch. s_selw. s_data [120] (@nil N).
    apply run0.
  - intros rest. cbn. intros H. inversion H.
Qed.

(* (2) remove, create, append handled as: write signal first (descriptor still open: nothing to do), then the
   delete signal (descriptor closed); now nothing is pending, the file at the path has an undelivered byte *)
Lemma reopen_wakeup_needs_later_write :
  exists tr s, run (nstep true true) (nok []) (ninit (Some cA) false) tr s /\
               npcs s = NSelect /\ nfd s = None /\ sigW s = false /\ sigD s = false /\ queue s = [] /\
               cur (nenv s) = Some cx /\ ndel s = cA.
Proof.
  eexists. eexists. split.
  - unfold ninit, env0, fd0, start_of, cA. cbn.
    s_data [65] (@nil N). s_empty.
    s_env ltac:(eapply e_remove). s_env ltac:(eapply e_create). s_append cx.
    s_watch. s_watch. s_watch.
    s_selw. s_empty. s_seld. s_nofd.
    apply run0.
  - cbn. repeat split; reflexivity.
Qed.

Ltac p_env c := st ltac:(eapply p_env; c; reflexivity).
Ltac p_append b := st ltac:(eapply p_env; eapply e_append with (bs := b); reflexivity).
Ltac p_data b r := st ltac:(eapply p_read_data with (bs := b) (rest := r) (a := 0%nat); [reflexivity|reflexivity|discriminate|reflexivity]).
Ltac p_giveup := st ltac:(eapply p_read_giveup; reflexivity).
Ltac p_stat := st ltac:(eapply p_stat_reopen with (a := 0%nat); reflexivity).
Ltac p_opn := st ltac:(eapply p_open with (a := 0%nat); reflexivity).

Definition cAB : bytes := [65; 66].
Definition cxyz : bytes := [120; 121; 122].

(* (3) polling, removal after drain respected, but the re-created file is already longer than readBytes when
   the poller looks: "AB" then "z" (x and y skipped) *)
Lemma poll_proviso_needed :
  exists tr s, run (pstep true true) (fun s l => match l with LRemove => drained [] (penv s) (pdel s) | _ => True end)
                   (pinit (Some cAB) false) tr s /\
               forall rest, all (penv s) <> [] ++ pdel s ++ rest.
Proof.
  eexists. eexists. split.
  - unfold pinit, env0, fd0, start_of, cAB. cbn.
    p_data [65; 66] (@nil N). p_giveup.
    p_env ltac:(eapply e_remove). p_env ltac:(eapply e_create). p_append cxyz.
    p_stat. p_opn. p_data [122] (@nil N).
    apply run0.
  - intros rest. cbn. intros H. inversion H.
Qed.

(* (4) the restrictions are satisfiable: a rotation, both readers, everything delivered once *)
Lemma poll_rotation_example :
  exists tr s, run (pstep true true) (pok []) (pinit (Some cAB) false) tr s /\
               pdel s = cAB ++ cx /\ all (penv s) = cAB ++ cx /\ pfd s = Some (1%nat, 1%nat) /\ rb s = 1%nat.
Proof.
  eexists. eexists. split.
  - unfold pinit, env0, fd0, start_of, cAB. cbn.
    p_data [65; 66] (@nil N). p_giveup.
    p_env ltac:(eapply e_remove). p_env ltac:(eapply e_create). p_append cx.
    p_stat. p_opn. p_data [120] (@nil N).
    apply run0.
  - cbn. repeat split; reflexivity.
Qed.

Lemma notify_rotation_example :
  exists tr s, run (nstep true true) (nok []) (ninit (Some cA) false) tr s /\
               ndel s = cA ++ cx /\ all (nenv s) = cA ++ cx /\ nfd s = Some (1%nat, 1%nat).
Proof.
  eexists. eexists. split.
  - unfold ninit, env0, fd0, start_of, cA. cbn.
    s_data [65] (@nil N). s_empty.
    s_env ltac:(eapply e_remove). s_env ltac:(eapply e_create). s_append cx.
    s_watch. s_seld. s_nofd. s_watch. s_selw. s_data [120] (@nil N).
    apply run0.
  - cbn. repeat split; reflexivity.
Qed.
