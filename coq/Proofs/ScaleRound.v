(* C14 — the rounding instance used by the bit-exact correspondence, [round53] (Model/Scale.v:
   round-to-nearest-even to 53 significant bits), satisfies the abstract rounding hypotheses of
   the scaling laws: monotone, fixes 0 and 1 and every integer up to 2^53, keeps positives
   positive. *)
From Coq Require Import List ZArith QArith Qround Qabs Bool Lia Lqa.
From RareV Require Import Base.Num Model.Scale Proofs.ScaleProof.
Local Open Scope Q_scope.

(* ---------- powers of two ---------- *)
Lemma inj_pow_pos e : (0 <= e)%Z -> 0 < inject_Z (2 ^ e).
Proof. intros H. change 0 with (inject_Z 0). rewrite <- Zlt_Qlt. apply Z.pow_pos_nonneg; lia. Qed.

Lemma qpow2_pos e : 0 < qpow2 e.
Proof.
  unfold qpow2. destruct (Z.leb_spec 0 e). apply inj_pow_pos; assumption.
  apply Qlt_shift_div_l. apply inj_pow_pos; lia. lra.
Qed.

Lemma inj_pow_succ e : (0 <= e)%Z -> inject_Z (2 ^ (e + 1)) == 2 * inject_Z (2 ^ e).
Proof.
  intros H. rewrite Z.pow_add_r by lia. rewrite inject_Z_mult. change (inject_Z (2 ^ 1)) with 2. ring.
Qed.

Lemma qpow2_succ e : qpow2 (e + 1) == 2 * qpow2 e.
Proof.
  unfold qpow2. destruct (Z.leb_spec 0 e); destruct (Z.leb_spec 0 (e + 1)); try lia.
  - apply inj_pow_succ; assumption.
  - assert (e = -1)%Z by lia. subst. vm_compute. reflexivity.
  - pose proof (inj_pow_pos (- (e + 1)) ltac:(lia)) as P.
    replace (- e)%Z with (- (e + 1) + 1)%Z by lia. rewrite inj_pow_succ by lia.
    field. lra.
Qed.

Lemma qpow2_pred e : qpow2 e == 2 * qpow2 (e - 1).
Proof. rewrite <- qpow2_succ. replace (e - 1 + 1)%Z with e by lia. reflexivity. Qed.

Lemma qpow2_le_step : forall n e, qpow2 e <= qpow2 (e + Z.of_nat n).
Proof.
  induction n as [|n IH]; intros e. rewrite Z.add_0_r. apply Qle_refl.
  replace (e + Z.of_nat (S n))%Z with ((e + Z.of_nat n) + 1)%Z by lia.
  rewrite qpow2_succ. pose proof (qpow2_pos (e + Z.of_nat n)). specialize (IH e). lra.
Qed.
Lemma qpow2_mono e1 e2 : (e1 <= e2)%Z -> qpow2 e1 <= qpow2 e2.
Proof.
  intros H. replace e2 with (e1 + Z.of_nat (Z.to_nat (e2 - e1)))%Z by lia. apply qpow2_le_step.
Qed.
Lemma qpow2_lt_double e1 e2 : (e1 < e2)%Z -> 2 * qpow2 e1 <= qpow2 e2.
Proof. intros H. rewrite <- qpow2_succ. apply qpow2_mono. lia. Qed.

(* qpow2 (x - y) = 2^x / 2^y *)
Lemma qpow2_sub x y : (0 <= x)%Z -> (0 <= y)%Z -> qpow2 (x - y) == inject_Z (2 ^ x) / inject_Z (2 ^ y).
Proof.
  intros Hx Hy. pose proof (inj_pow_pos x Hx) as Px. pose proof (inj_pow_pos y Hy) as Py.
  unfold qpow2. destruct (Z.leb_spec 0 (x - y)).
  - replace x with ((x - y) + y)%Z at 2 by lia. rewrite Z.pow_add_r by lia. rewrite inject_Z_mult.
    field. lra.
  - replace y with (- (x - y) + x)%Z at 2 by lia. rewrite Z.pow_add_r by lia. rewrite inject_Z_mult.
    pose proof (inj_pow_pos (- (x - y)) ltac:(lia)). field. split; lra.
Qed.

(* ---------- the exponent ---------- *)
Definition e0_of (a : Q) : Z := (Z.log2 (Qnum a) - Z.log2 (Zpos (Qden a)) - 53)%Z.
Definition ex53 (a : Q) : Z :=
  let e0 := e0_of a in
  let e := if Qle_bool (inject_Z (2 ^ 53)) (a / qpow2 e0) then (e0 + 1)%Z else e0 in
  if Qle_bool (inject_Z (2 ^ 52)) (a / qpow2 e) then e else (e - 1)%Z.
Definition rpos (a : Q) : Q := inject_Z (rne (a / qpow2 (ex53 a))) * qpow2 (ex53 a).

Lemma round53_unfold q :
  round53 q = if Qeq_bool q 0 then 0 else
              if Qle_bool 0 q then Qred (rpos (Qabs q)) else - Qred (rpos (Qabs q)).
Proof. reflexivity. Qed.

Definition P52 : Q := inject_Z (2 ^ 52).
Definition P53 : Q := inject_Z (2 ^ 53).
Lemma P53_P52 : P53 == 2 * P52. Proof. vm_compute. reflexivity. Qed.
Lemma P52_pos : 0 < P52. Proof. vm_compute. reflexivity. Qed.

Lemma coarse_bracket a : 0 < a -> P52 < a / qpow2 (e0_of a) /\ a / qpow2 (e0_of a) < 2 * P53.
Proof.
  intros Ha. destruct a as [n d]. unfold e0_of. cbn [Qnum Qden].
  assert (Hn : (0 < n)%Z). { unfold Qlt in Ha. simpl in Ha. lia. }
  pose proof (Z.log2_spec n Hn) as [Ln1 Ln2]. pose proof (Z.log2_spec (Zpos d) ltac:(lia)) as [Ld1 Ld2].
  pose proof (Z.log2_nonneg n) as Gn. pose proof (Z.log2_nonneg (Zpos d)) as Gd.
  set (ln := Z.log2 n) in *. set (ld := Z.log2 (Zpos d)) in *.
  replace (ln - ld - 53)%Z with (ln - (ld + 53))%Z by lia.
  rewrite (qpow2_sub ln (ld + 53)) by lia.
  rewrite (Qmake_Qdiv n d).
  rewrite Z.pow_add_r by lia. rewrite inject_Z_mult. fold P53.
  replace (Z.succ ln) with (ln + 1)%Z in Ln2 by lia. replace (Z.succ ld) with (ld + 1)%Z in Ld2 by lia.
  rewrite Z.pow_add_r in Ln2, Ld2 by lia. change (2 ^ 1)%Z with 2%Z in *.
  rewrite Zle_Qle in Ln1, Ld1. rewrite Zlt_Qlt in Ln2, Ld2. rewrite inject_Z_mult in Ln2, Ld2.
  change (inject_Z 2) with 2 in *.
  pose proof (inj_pow_pos ln Gn) as PA. pose proof (inj_pow_pos ld Gd) as PB.
  set (N := inject_Z n) in *. set (D := inject_Z (Zpos d)) in *.
  set (A := inject_Z (2 ^ ln)) in *. set (B := inject_Z (2 ^ ld)) in *.
  assert (PP : 0 < P53) by (vm_compute; reflexivity).
  assert (E : N / D / (A / (B * P53)) == (N * B * P53) / (D * A)) by (field; repeat split; lra).
  rewrite E. rewrite P53_P52 in *. pose proof P52_pos.
  assert (PD : 0 < D) by lra. assert (PN : 0 < N) by lra.
  assert (DA : 0 < D * A) by (apply Qmult_lt_0_compat; assumption).
  assert (H1 : D * A <= D * N) by (apply Qmult_le_l; lra).
  assert (H2 : N * D < N * (2 * B)) by (apply Qmult_lt_l; lra).
  assert (H3 : N * B <= N * D) by (apply Qmult_le_l; lra).
  assert (H4 : D * N < D * (2 * A)) by (apply Qmult_lt_l; lra).
  split.
  - apply Qlt_shift_div_l. assumption.
    assert (X : D * A < 2 * (N * B)) by lra.
    assert (Y : P52 * (D * A) < P52 * (2 * (N * B))) by (apply Qmult_lt_l; lra). lra.
  - apply Qlt_shift_div_r. assumption.
    assert (X : N * B < 2 * (D * A)) by lra.
    assert (Y : P52 * (N * B) < P52 * (2 * (D * A))) by (apply Qmult_lt_l; lra). lra.
Qed.

Lemma Qle_bool_false x y : Qle_bool x y = false -> y < x.
Proof.
  intros H. apply Qnot_le_lt. intro L. apply Qle_bool_iff in L. congruence.
Qed.

Lemma div_succ a e : a / qpow2 (e + 1) == a / qpow2 e / 2.
Proof. rewrite qpow2_succ. pose proof (qpow2_pos e). field. lra. Qed.

(* the scaled significand lies in [2^52, 2^53) *)
Lemma bracket a : 0 < a -> P52 <= a / qpow2 (ex53 a) /\ a / qpow2 (ex53 a) < P53.
Proof.
  intros Ha. destruct (coarse_bracket a Ha) as [C1 C2]. unfold ex53.
  set (e0 := e0_of a) in *. fold P53 P52.
  destruct (Qle_bool P53 (a / qpow2 e0)) eqn:T1.
  - apply Qle_bool_iff in T1.
    assert (S : P52 <= a / qpow2 (e0 + 1) /\ a / qpow2 (e0 + 1) < P53).
    { rewrite div_succ. rewrite P53_P52 in *. split.
      - apply Qle_shift_div_l. lra. lra.
      - apply Qlt_shift_div_r. lra. lra. }
    destruct S as [S1 S2].
    assert (T2 : Qle_bool P52 (a / qpow2 (e0 + 1)) = true) by (apply Qle_bool_iff; assumption).
    rewrite T2. split; assumption.
  - apply Qle_bool_false in T1.
    assert (T2 : Qle_bool P52 (a / qpow2 e0) = true) by (apply Qle_bool_iff; lra).
    rewrite T2. split. lra. assumption.
Qed.

Lemma div_ge x p c : 0 < p -> c <= x / p -> c * p <= x.
Proof.
  intros Hp H. assert (E : x == x / p * p) by (field; lra).
  rewrite E at 1. clear E. revert H. generalize (x / p). intros q H.
  apply Qmult_le_compat_r. assumption. lra.
Qed.
Lemma div_lt x p c : 0 < p -> x / p < c -> x < c * p.
Proof.
  intros Hp H. assert (E : x == x / p * p) by (field; lra).
  rewrite E at 1. clear E. revert H. generalize (x / p). intros q H.
  apply Qmult_lt_compat_r; assumption.
Qed.

(* uniqueness: the exponent is monotone in the value *)
Lemma ex53_mono x y : 0 < x -> x <= y -> (ex53 x <= ex53 y)%Z.
Proof.
  intros Hx Hxy. assert (Hy : 0 < y) by lra.
  destruct (bracket x Hx) as [X1 _]. destruct (bracket y Hy) as [_ Y2].
  destruct (Z_le_gt_dec (ex53 x) (ex53 y)) as [L|G]. assumption. exfalso.
  pose proof (qpow2_lt_double (ex53 y) (ex53 x) ltac:(lia)) as D.
  pose proof (qpow2_pos (ex53 x)) as Px. pose proof (qpow2_pos (ex53 y)) as Py.
  apply div_ge in X1; [|assumption]. apply div_lt in Y2; [|assumption].
  rewrite P53_P52 in Y2. pose proof P52_pos.
  assert (P52 * (2 * qpow2 (ex53 y)) <= P52 * qpow2 (ex53 x)) by (apply Qmult_le_l; lra).
  lra.
Qed.

(* ---------- round half to even on the significand ---------- *)
Lemma rne_bounds q : (Qfloor q <= rne q <= Qfloor q + 1)%Z.
Proof.
  unfold rne. destruct (Qcompare _ _); try lia. destruct (Z.even (Qfloor q)); lia.
Qed.
Lemma rne_mono s t : s <= t -> (rne s <= rne t)%Z.
Proof.
  intros H. pose proof (Qfloor_resp_le _ _ H) as F.
  destruct (Z.eq_dec (Qfloor s) (Qfloor t)) as [E|NE].
  - unfold rne. rewrite E.
    destruct (Qcompare_spec (s - inject_Z (Qfloor t)) (1 # 2));
    destruct (Qcompare_spec (t - inject_Z (Qfloor t)) (1 # 2)); try lia; try lra;
    destruct (Z.even (Qfloor t)); try lia; lra.
  - pose proof (rne_bounds s). pose proof (rne_bounds t). lia.
Qed.
Lemma rne_int z q : q == inject_Z z -> rne q = z.
Proof.
  intros H. unfold rne. assert (F : Qfloor q = z). { rewrite H. apply Qfloor_Z. }
  rewrite F. destruct (Qcompare_spec (q - inject_Z z) (1 # 2)); try reflexivity; lra.
Qed.

(* ---------- positive values ---------- *)
Lemma rpos_lower a : 0 < a -> P52 * qpow2 (ex53 a) <= rpos a.
Proof.
  intros Ha. destruct (bracket a Ha) as [B1 _]. unfold rpos.
  apply Qmult_le_compat_r; [|apply Qlt_le_weak, qpow2_pos].
  unfold P52 in *. rewrite <- Zle_Qle.
  pose proof (rne_bounds (a / qpow2 (ex53 a))). pose proof (Qfloor_resp_le _ _ B1) as F.
  rewrite Qfloor_Z in F. lia.
Qed.
Lemma rpos_upper a : 0 < a -> rpos a <= P53 * qpow2 (ex53 a).
Proof.
  intros Ha. destruct (bracket a Ha) as [_ B2]. unfold rpos.
  apply Qmult_le_compat_r; [|apply Qlt_le_weak, qpow2_pos].
  unfold P53 in *. rewrite <- Zle_Qle.
  pose proof (rne_bounds (a / qpow2 (ex53 a))).
  assert (Qfloor (a / qpow2 (ex53 a)) < 2 ^ 53)%Z.
  { rewrite Zlt_Qlt. eapply Qle_lt_trans. apply Qfloor_le. assumption. }
  lia.
Qed.
Lemma rpos_pos a : 0 < a -> 0 < rpos a.
Proof.
  intros Ha. pose proof (rpos_lower a Ha). pose proof (qpow2_pos (ex53 a)). pose proof P52_pos.
  assert (0 < P52 * qpow2 (ex53 a)) by (apply Qmult_lt_0_compat; assumption). lra.
Qed.
Lemma rpos_mono x y : 0 < x -> x <= y -> rpos x <= rpos y.
Proof.
  intros Hx Hxy. assert (Hy : 0 < y) by lra.
  pose proof (ex53_mono x y Hx Hxy) as E.
  destruct (Z.eq_dec (ex53 x) (ex53 y)) as [Eq|Ne].
  - unfold rpos. rewrite Eq. pose proof (qpow2_pos (ex53 y)) as P.
    apply Qmult_le_compat_r; [|lra]. rewrite <- Zle_Qle. apply rne_mono.
    unfold Qdiv. apply Qmult_le_compat_r. assumption.
    apply Qlt_le_weak, Qinv_lt_0_compat. assumption.
  - pose proof (rpos_upper x Hx) as U. pose proof (rpos_lower y Hy) as L.
    pose proof (qpow2_lt_double (ex53 x) (ex53 y) ltac:(lia)) as D.
    rewrite P53_P52 in U. pose proof P52_pos.
    assert (P52 * (2 * qpow2 (ex53 x)) <= P52 * qpow2 (ex53 y)) by (apply Qmult_le_l; lra).
    lra.
Qed.

(* ---------- sign ---------- *)
Lemma Qabs_nonneg_eq q : 0 <= q -> Qabs q = q.
Proof.
  destruct q as [n d]. unfold Qle. simpl. rewrite Z.mul_1_r. intros H. rewrite Z.abs_eq by lia. reflexivity.
Qed.
Lemma Qabs_neg_eq q : q < 0 -> Qabs q = - q.
Proof.
  destruct q as [n d]. unfold Qlt. simpl. rewrite Z.mul_1_r. intros H. unfold Qopp. simpl.
  rewrite Z.abs_neq by lia. reflexivity.
Qed.

Lemma round53_cases q :
  (q < 0 /\ round53 q == - rpos (- q)) \/ (q == 0 /\ round53 q == 0) \/ (0 < q /\ round53 q == rpos q).
Proof.
  rewrite round53_unfold.
  destruct (Qeq_bool q 0) eqn:Z0.
  - right. left. apply Qeq_bool_iff in Z0. split. assumption. reflexivity.
  - assert (NZ : ~ q == 0). { intro E. apply Qeq_bool_iff in E. congruence. }
    destruct (Qle_bool 0 q) eqn:P.
    + apply Qle_bool_iff in P. right. right.
      assert (0 < q). { destruct (Qlt_le_dec 0 q). assumption. exfalso. apply NZ. lra. }
      split. assumption. rewrite Qabs_nonneg_eq by assumption. apply Qred_correct.
    + apply Qle_bool_false in P. left. split. assumption.
      rewrite Qabs_neg_eq by assumption. rewrite Qred_correct. reflexivity.
Qed.

(* ---------- the four rounding hypotheses ---------- *)
Theorem round53_mono x y : x <= y -> round53 x <= round53 y.
Proof.
  intros H.
  destruct (round53_cases x) as [[Sx Ex]|[[Sx Ex]|[Sx Ex]]];
  destruct (round53_cases y) as [[Sy Ey]|[[Sy Ey]|[Sy Ey]]]; rewrite Ex, Ey; try lra.
  - pose proof (rpos_mono (- y) (- x) ltac:(lra) ltac:(lra)). lra.
  - pose proof (rpos_pos (- x) ltac:(lra)). lra.
  - pose proof (rpos_pos (- x) ltac:(lra)). pose proof (rpos_pos y Sy). lra.
  - pose proof (rpos_pos y Sy). lra.
  - apply rpos_mono; assumption.
Qed.
Theorem round53_pos x : 0 < x -> 0 < round53 x.
Proof.
  intros H. destruct (round53_cases x) as [[S E]|[[S E]|[S E]]]; try lra.
  rewrite E. apply rpos_pos. assumption.
Qed.
Theorem round53_0 : round53 0 == 0. Proof. vm_compute. reflexivity. Qed.
Theorem round53_1 : round53 1 == 1. Proof. vm_compute. reflexivity. Qed.

(* integers up to 2^53 are representable: rounding leaves them alone *)
Lemma qpow2_0 : qpow2 0 == 1. Proof. vm_compute. reflexivity. Qed.
Lemma qpow2_1 : qpow2 1 == 2. Proof. vm_compute. reflexivity. Qed.

Lemma rpos_int k : (0 < k <= 2 ^ 53)%Z -> rpos (inject_Z k) == inject_Z k.
Proof.
  intros Hk. remember (inject_Z k) as a eqn:Ea.
  assert (Ha : 0 < a). { subst a. change 0 with (inject_Z 0). rewrite <- Zlt_Qlt. lia. }
  assert (Hup : a <= P53). { subst a. unfold P53. rewrite <- Zle_Qle. lia. }
  destruct (bracket a Ha) as [B1 B2]. pose proof (qpow2_pos (ex53 a)) as Pp.
  assert (Z : exists z, a / qpow2 (ex53 a) == inject_Z z).
  { destruct (Z_le_gt_dec (ex53 a) 0) as [L|G].
    - exists (k * 2 ^ (- ex53 a))%Z.
      replace (ex53 a) with (0 - (- ex53 a))%Z at 1 by lia.
      rewrite (qpow2_sub 0 (- ex53 a)) by lia. rewrite inject_Z_mult. rewrite <- Ea.
      pose proof (inj_pow_pos (- ex53 a) ltac:(lia)). change (inject_Z (2 ^ 0)) with 1.
      set (w := inject_Z (2 ^ (- ex53 a))) in *. clearbody w.
      unfold Qdiv. rewrite Qmult_1_l, Qinv_involutive. reflexivity.
    - (* only 2^53 itself has a positive exponent *)
      apply div_ge in B1; [|assumption].
      pose proof P52_pos. rewrite P53_P52 in Hup.
      destruct (Z.eq_dec (ex53 a) 1) as [E1|N1].
      + rewrite E1 in *. rewrite qpow2_1 in *. exists (2 ^ 52)%Z. fold P52.
        rewrite qpow2_1. apply Qle_antisym; [apply Qle_shift_div_r | apply Qle_shift_div_l]; lra.
      + exfalso. pose proof (qpow2_lt_double 1 (ex53 a) ltac:(lia)) as D. rewrite qpow2_1 in D.
        assert (P52 * (2 * 2) <= P52 * qpow2 (ex53 a)) by (apply Qmult_le_l; lra). lra. }
  destruct Z as [z Ez]. unfold rpos. rewrite (rne_int z _ Ez). rewrite <- Ez. field. lra.
Qed.

Theorem round53_int k : small_int k -> round53 (inject_Z k) == inject_Z k.
Proof.
  intros [H0 H1]. destruct (Z.eq_dec k 0) as [->|NZ]. apply round53_0.
  destruct (round53_cases (inject_Z k)) as [[S E]|[[S E]|[S E]]].
  - exfalso. change 0 with (inject_Z 0) in S. rewrite <- Zlt_Qlt in S. lia.
  - exfalso. unfold Qeq in S. simpl in S. lia.
  - rewrite E. apply rpos_int. lia.
Qed.

(* all hypotheses of the scaling laws at once *)
Theorem round53_ok :
  (forall x y, x <= y -> round53 x <= round53 y) /\ round53 0 == 0 /\ round53 1 == 1 /\
  (forall x, 0 < x -> 0 < round53 x) /\ (forall k, small_int k -> round53 (inject_Z k) == inject_Z k).
Proof.
  split. exact round53_mono. split. exact round53_0. split. exact round53_1.
  split. exact round53_pos. exact round53_int.
Qed.

(* the int64 -> float64 conversion composed with the identity mapper is monotone *)
Lemma lin53_mono : forall a b, (a <= b)%Z -> round53 (inject_Z a) <= round53 (inject_Z b).
Proof. intros a b H. apply round53_mono. rewrite <- Zle_Qle. assumption. Qed.
