(* String-level facts about the two tokenisers: which strings the outer scanner (inside a
   statement) and the argument splitter copy verbatim.  [okO]/[okS] are decidable classes of such
   strings; the printed form of an admissible tree is shown to belong to them in TmplTree.v. *)
From Coq Require Import List NArith ZArith Bool Lia Arith.
From RareV Require Import Base.Res Base.Hex Base.Num Model.IsSpace Model.Tmpl Model.TmplPrint
  Proofs.TmplFuel Proofs.TmplEsc.
Import ListNotations.
Local Open Scope N_scope.

Definition nobsl : str -> bool := forallb (fun c => negb (c =? 92)).

Lemma safe_inv c : safe c = true ->
  (c =? 92) = false /\ (c =? 123) = false /\ (c =? 125) = false /\ (c =? 34) = false.
Proof.
  unfold safe. intros H. apply negb_true_iff in H.
  apply orb_false_iff in H as [H H4]. apply orb_false_iff in H as [H H3].
  apply orb_false_iff in H as [H1 H2]. auto.
Qed.

Lemma space_safe c : is_space c = true -> safe c = true.
Proof.
  intros H. destruct (is_space_not_syntax c H) as (H1 & H2 & H3 & H4).
  unfold safe. apply N.eqb_neq in H1, H2, H3, H4. rewrite H1, H2, H3, H4. reflexivity.
Qed.

Lemma ws_safe s : ws s = true -> safe_str s = true.
Proof.
  unfold ws, safe_str. rewrite !forallb_forall. intros H x Hx. apply space_safe. auto.
Qed.

Lemma forallb_app_eq {A} (f : A -> bool) a b : forallb f (a ++ b) = forallb f a && forallb f b.
Proof. induction a; cbn; auto. rewrite IHa. rewrite andb_assoc. reflexivity. Qed.

Lemma safe_nobsl s : safe_str s = true -> nobsl s = true.
Proof.
  unfold safe_str, nobsl. rewrite !forallb_forall. intros H x Hx.
  destruct (safe_inv x (H x Hx)) as (H1 & _). rewrite H1. reflexivity.
Qed.

Lemma safe_noquote s : safe_str s = true -> noquote s = true.
Proof.
  unfold safe_str, noquote. rewrite !forallb_forall. intros H x Hx.
  destruct (safe_inv x (H x Hx)) as (_ & _ & _ & H4). rewrite H4. reflexivity.
Qed.

(* ============================ outer scanner ============================ *)
Lemma okO_app : forall x k j y, okO k x = true -> okO (k + j) (x ++ y) = okO j y.
Proof.
  induction x as [|c r IH]; intros k j y H; cbn [okO app] in *.
  - apply Nat.eqb_eq in H. subst. reflexivity.
  - destruct (c =? 92); [discriminate|].
    destruct (c =? 123). { apply (IH (S k)); auto. }
    destruct (c =? 125). { destruct k as [|k']; [discriminate|]. cbn [Nat.add]. apply IH; auto. }
    apply IH; auto.
Qed.

Lemma okO_safe : forall s k y, safe_str s = true -> okO k (s ++ y) = okO k y.
Proof.
  induction s as [|c r IH]; intros k y H; cbn [app]; auto.
  cbn [safe_str forallb] in H. apply andb_true_iff in H as [Hc Hr].
  destruct (safe_inv c Hc) as (H1 & H2 & H3 & _). cbn [okO]. rewrite H1, H2, H3. apply IH; auto.
Qed.

Lemma okO_quote k y : okO k (34 :: y) = okO k y.
Proof. reflexivity. Qed.

Lemma okO_nobsl : forall x k, okO k x = true -> nobsl x = true.
Proof.
  induction x as [|c r IH]; intros k H; cbn [okO nobsl forallb] in *; auto.
  destruct (c =? 92); [discriminate|]. cbn.
  destruct (c =? 123); [eapply IH; eauto|].
  destruct (c =? 125); [destruct k; [discriminate|eapply IH; eauto]|]. eapply IH; eauto.
Qed.

Section Outer.
  Variable fixed : bool.
  Variable fs : fenv.
  Variable rec : str -> result (tmpl * list cerr).

  Lemma okO_copy : forall x k D i start sb stages errs rest,
    okO k x = true ->
    scan fixed fs rec i start (S D + k) sb stages errs (x ++ rest)
    = scan fixed fs rec (i + N.of_nat (length x)) start (S D) (sb ++ x) stages errs rest.
  Proof.
    induction x as [|c r IH]; intros k D i start sb stages errs rest H; cbn [okO] in H.
    - apply Nat.eqb_eq in H. subst. cbn [app length]. rewrite Nat.add_0_r, app_nil_r, N.add_0_r. reflexivity.
    - cbn [app]. destruct (c =? 92) eqn:H92; [discriminate|].
      assert (Hfin : forall i' sb', i' = i + 1 -> sb' = sb ++ [c] ->
                i' + N.of_nat (length r) = i + N.of_nat (length (c :: r)) /\ sb' ++ r = sb ++ c :: r).
      { intros i' sb' -> ->. split; [cbn [length]; lia | rewrite <- app_assoc; reflexivity]. }
      destruct (Hfin _ _ eq_refl eq_refl) as [Hi Hs].
      destruct (c =? 123) eqn:H123.
      { cbn [scan]. rewrite H92, H123. cbn [Nat.add].
        change (S (S (D + k))) with (S (S D + k)). rewrite <- Nat.add_succ_r.
        rewrite IH by assumption. rewrite Hi, Hs. reflexivity. }
      destruct (c =? 125) eqn:H125.
      { destruct k as [|k']; [discriminate|].
        cbn [scan]. rewrite H92, H123, H125. rewrite Nat.add_succ_r. cbn [Nat.add].
        change (S (D + k')) with (S D + k')%nat.
        rewrite IH by assumption. rewrite Hi, Hs. reflexivity. }
      cbn [scan]. rewrite H92, H123, H125.
      rewrite IH by assumption. rewrite Hi, Hs. reflexivity.
  Qed.
End Outer.

(* ============================ argument splitter ============================ *)
(* single steps of the splitter, by class of rune (state: not escaped) *)
Section SpSteps.
  Variables (args : list str) (sb : str) (d : Z) (rest : str).

  Lemma sp_quoted_char c : (c =? 92) = false -> (c =? 34) = false ->
    sp_run args sb d true false (c :: rest) = sp_run args (sb ++ [c]) d true false rest.
  Proof.
    intros H1 H2. cbn [sp_run]. rewrite H1, H2. cbn [negb andb].
    rewrite !andb_false_r. cbn [andb]. rewrite orb_true_r. cbn [orb]. reflexivity.
  Qed.

  Lemma sp_open : sp_run args sb d false false (123 :: rest) = sp_run args (sb ++ [123]) (d + 1)%Z false false rest.
  Proof. reflexivity. Qed.

  Lemma sp_close : sp_run args sb d false false (125 :: rest) = sp_run args (sb ++ [125]) (d - 1)%Z false false rest.
  Proof. reflexivity. Qed.

  Lemma sp_quote_open_deep : (0 <? d)%Z = true ->
    sp_run args sb d false false (34 :: rest) = sp_run args (sb ++ [34]) d true false rest.
  Proof. intros H. cbn [sp_run]. change (34 =? 92) with false. change (34 =? 34) with true. cbn [negb andb]. rewrite H. reflexivity. Qed.

  Lemma sp_quote_close_deep : (0 <? d)%Z = true ->
    sp_run args sb d true false (34 :: rest) = sp_run args (sb ++ [34]) d false false rest.
  Proof. intros H. cbn [sp_run]. change (34 =? 92) with false. change (34 =? 34) with true. cbn [negb andb]. rewrite H. reflexivity. Qed.

  Lemma sp_deep_char c : safe c = true -> (0 <? d)%Z = true ->
    sp_run args sb d false false (c :: rest) = sp_run args (sb ++ [c]) d false false rest.
  Proof.
    intros Hs Hd. destruct (safe_inv c Hs) as (H1 & H2 & H3 & H4).
    cbn [sp_run]. rewrite H1, H2, H3, H4. cbn [negb andb].
    assert (Hz : (d =? 0)%Z = false) by (apply Z.eqb_neq; apply Z.ltb_lt in Hd; lia).
    rewrite Hz, Hd. rewrite andb_false_r. cbn [andb]. rewrite orb_true_r. reflexivity.
  Qed.

  Lemma sp_word_char c : safe c = true -> is_space c = false ->
    sp_run args sb d false false (c :: rest) = sp_run args (sb ++ [c]) d false false rest.
  Proof.
    intros Hs Hsp. destruct (safe_inv c Hs) as (H1 & H2 & H3 & H4).
    cbn [sp_run]. rewrite H1, H2, H3, H4, Hsp. reflexivity.
  Qed.
End SpSteps.

(* depth 0, between items *)
Lemma sp_skip_space args c rest : is_space c = true ->
  sp_run args [] 0%Z false false (c :: rest) = sp_run args [] 0%Z false false rest.
Proof.
  intros Hsp. destruct (safe_inv c (space_safe c Hsp)) as (H1 & H2 & H3 & H4).
  cbn [sp_run]. rewrite H1, H2, H3, H4, Hsp. reflexivity.
Qed.

Lemma sp_split_space args sb c rest : is_space c = true -> sb <> [] ->
  sp_run args sb 0%Z false false (c :: rest) = sp_run (args ++ [sb]) [] 0%Z false false rest.
Proof.
  intros Hsp Hne. destruct (safe_inv c (space_safe c Hsp)) as (H1 & H2 & H3 & H4).
  cbn [sp_run]. rewrite H1, H2, H3, H4, Hsp. destruct sb; [congruence|]. reflexivity.
Qed.

Lemma sp_quote_open0 args sb rest :
  sp_run args sb 0%Z false false (34 :: rest) = sp_run args sb 0%Z true false rest.
Proof. reflexivity. Qed.

Lemma sp_quote_close0 args sb rest :
  sp_run args sb 0%Z true false (34 :: rest) = sp_run (args ++ [sb]) [] 0%Z false false rest.
Proof. reflexivity. Qed.

(* inside quotes everything except quote and backslash is copied, at any depth *)
Lemma sp_quoted_copy : forall x args sb d rest, noquote x = true -> nobsl x = true ->
  sp_run args sb d true false (x ++ rest) = sp_run args (sb ++ x) d true false rest.
Proof.
  induction x as [|c r IH]; intros args sb d rest Hq Hb; cbn [app].
  - rewrite app_nil_r. reflexivity.
  - cbn [noquote nobsl forallb] in Hq, Hb.
    apply andb_true_iff in Hq as [Hq1 Hq2]. apply andb_true_iff in Hb as [Hb1 Hb2].
    apply negb_true_iff in Hq1, Hb1.
    rewrite sp_quoted_char by assumption. rewrite IH by assumption.
    rewrite <- app_assoc. reflexivity.
Qed.

Lemma sp_skip_spaces : forall s args rest, ws s = true ->
  sp_run args [] 0%Z false false (s ++ rest) = sp_run args [] 0%Z false false rest.
Proof.
  induction s as [|c r IH]; intros args rest H; cbn [app]; auto.
  cbn [ws forallb] in H. apply andb_true_iff in H as [Hc Hr].
  rewrite sp_skip_space by assumption. apply IH; auto.
Qed.

Lemma okS_app : forall x k q j y, okS k q x = true -> okS (k + j) q (x ++ y) = okS j false y.
Proof.
  induction x as [|c r IH]; intros k q j y H; cbn [okS app] in *.
  - apply andb_true_iff in H as [Hk Hq]. apply Nat.eqb_eq in Hk. apply negb_true_iff in Hq. subst. reflexivity.
  - destruct (c =? 92); [discriminate|].
    destruct (c =? 34). { destruct k as [|k']; [discriminate|]. cbn [Nat.add]. apply (IH (S k')); auto. }
    destruct q. { apply IH; auto. }
    destruct (c =? 123). { apply (IH (S k)); auto. }
    destruct (c =? 125). { destruct k as [|k']; [discriminate|]. cbn [Nat.add]. apply IH; auto. }
    destruct (is_space c). { destruct k as [|k']; [discriminate|]. cbn [Nat.add]. apply (IH (S k')); auto. }
    apply IH; auto.
Qed.

(* safe runes are transparent below depth 0 *)
Lemma okS_deep_safe : forall s k y, safe_str s = true -> okS (S k) false (s ++ y) = okS (S k) false y.
Proof.
  induction s as [|c r IH]; intros k y H; cbn [app]; auto.
  cbn [safe_str forallb] in H. apply andb_true_iff in H as [Hc Hr].
  destruct (safe_inv c Hc) as (H1 & H2 & H3 & H4). cbn [okS]. rewrite H1, H2, H3, H4.
  destruct (is_space c); apply IH; auto.
Qed.

(* safe runes without white space are transparent at depth 0 *)
Lemma okS_word : forall s y, safe_str s = true -> nospace s = true -> okS 0 false (s ++ y) = okS 0 false y.
Proof.
  induction s as [|c r IH]; intros y H Hn; cbn [app]; auto.
  cbn [safe_str nospace forallb] in H, Hn. apply andb_true_iff in H as [Hc Hr]. apply andb_true_iff in Hn as [Hn1 Hn2].
  destruct (safe_inv c Hc) as (H1 & H2 & H3 & H4). cbn [okS]. rewrite H1, H2, H3, H4.
  apply negb_true_iff in Hn1. rewrite Hn1. apply IH; auto.
Qed.

(* inside quotes *)
Lemma okS_quoted : forall s k y, noquote s = true -> nobsl s = true -> okS k true (s ++ y) = okS k true y.
Proof.
  induction s as [|c r IH]; intros k y Hq Hb; cbn [app]; auto.
  cbn [noquote nobsl forallb] in Hq, Hb.
  apply andb_true_iff in Hq as [Hq1 Hq2]. apply andb_true_iff in Hb as [Hb1 Hb2].
  apply negb_true_iff in Hq1, Hb1. cbn [okS]. rewrite Hq1, Hb1. apply IH; auto.
Qed.

(* a quoted item below depth 0 *)
Lemma okS_quoted_item s k y : noquote s = true -> nobsl s = true ->
  okS (S k) false (34 :: s ++ 34 :: y) = okS (S k) false y.
Proof.
  intros Hq Hb. cbn [okS]. change (34 =? 92) with false. change (34 =? 34) with true. cbn [negb].
  rewrite okS_quoted by assumption. reflexivity.
Qed.

Lemma okS_nobsl : forall x k q, okS k q x = true -> nobsl x = true.
Proof.
  induction x as [|c r IH]; intros k q H; cbn [okS nobsl forallb] in *; auto.
  destruct (c =? 92); [discriminate|]. cbn [negb andb].
  destruct (c =? 34); [destruct k; [discriminate|eapply IH; eauto]|].
  destruct q; [eapply IH; eauto|].
  destruct (c =? 123); [eapply IH; eauto|].
  destruct (c =? 125); [destruct k; [discriminate|eapply IH; eauto]|].
  destruct (is_space c); [destruct k; [discriminate|eapply IH; eauto]|]. eapply IH; eauto.
Qed.

Lemma okS_copy : forall x k q D args sb rest,
  okS k q x = true ->
  sp_run args sb (Z.of_nat (D + k)) q false (x ++ rest) = sp_run args (sb ++ x) (Z.of_nat D) false false rest.
Proof.
  induction x as [|c r IH]; intros k q D args sb rest H; cbn [okS] in H.
  - apply andb_true_iff in H as [Hk Hq]. apply Nat.eqb_eq in Hk. apply negb_true_iff in Hq. subst.
    cbn [app]. rewrite Nat.add_0_r, app_nil_r. reflexivity.
  - cbn [app].
    assert (Hs : forall sb', sb' = sb ++ [c] -> sb' ++ r = sb ++ c :: r).
    { intros sb' ->. rewrite <- app_assoc. reflexivity. }
    destruct (c =? 92) eqn:H92; [discriminate|].
    destruct (c =? 34) eqn:H34.
    { apply N.eqb_eq in H34. subst c. destruct k as [|k']; [discriminate|].
      assert (Hd : (0 <? Z.of_nat (D + S k'))%Z = true) by (apply Z.ltb_lt; lia).
      destruct q.
      - rewrite sp_quote_close_deep by assumption. rewrite IH by assumption. rewrite (Hs _ eq_refl). reflexivity.
      - rewrite sp_quote_open_deep by assumption. rewrite IH by assumption. rewrite (Hs _ eq_refl). reflexivity. }
    destruct q.
    { rewrite sp_quoted_char by assumption. rewrite IH by assumption. rewrite (Hs _ eq_refl). reflexivity. }
    destruct (c =? 123) eqn:H123.
    { apply N.eqb_eq in H123. subst c. rewrite sp_open.
      replace (Z.of_nat (D + k) + 1)%Z with (Z.of_nat (D + S k)) by lia.
      rewrite IH by assumption. rewrite (Hs _ eq_refl). reflexivity. }
    destruct (c =? 125) eqn:H125.
    { apply N.eqb_eq in H125. subst c. destruct k as [|k']; [discriminate|]. rewrite sp_close.
      replace (Z.of_nat (D + S k') - 1)%Z with (Z.of_nat (D + k')) by lia.
      rewrite IH by assumption. rewrite (Hs _ eq_refl). reflexivity. }
    assert (Hsafe : safe c = true) by (unfold safe; rewrite H92, H123, H125, H34; reflexivity).
    destruct (is_space c) eqn:Hsp.
    { destruct k as [|k']; [discriminate|].
      rewrite sp_deep_char; [|assumption|apply Z.ltb_lt; lia].
      rewrite IH by assumption. rewrite (Hs _ eq_refl). reflexivity. }
    rewrite sp_word_char by assumption. rewrite IH by assumption. rewrite (Hs _ eq_refl). reflexivity.
Qed.

(* ---- one item of a statement, followed by white space or by the end of the statement ---- *)
Definition tail_ok (t : str) : bool := match t with [] => true | c :: _ => is_space c end.

Lemma sp_bare_item x acc t : okS 0 false x = true -> x <> [] -> tail_ok t = true ->
  sp_run acc [] 0%Z false false (x ++ t) = sp_run (acc ++ [x]) [] 0%Z false false t.
Proof.
  intros Hx Hne Ht.
  pose proof (okS_copy x 0 false 0 acc [] t Hx) as H. cbn [Nat.add Z.of_nat app] in H. rewrite H.
  destruct t as [|c t'].
  - cbn [sp_run]. destruct x; [congruence|]. cbn [nonempty]. rewrite app_nil_r. reflexivity.
  - cbn [tail_ok] in Ht. rewrite sp_split_space by assumption. rewrite sp_skip_space by assumption. reflexivity.
Qed.

Lemma sp_quoted_item x acc t : noquote x = true -> nobsl x = true ->
  sp_run acc [] 0%Z false false (34 :: x ++ 34 :: t) = sp_run (acc ++ [x]) [] 0%Z false false t.
Proof.
  intros Hq Hb. rewrite sp_quote_open0, sp_quoted_copy by assumption. cbn [app]. apply sp_quote_close0.
Qed.

Lemma sp_end acc : sp_run acc [] 0%Z false false [] = acc.
Proof. cbn. apply app_nil_r. Qed.
