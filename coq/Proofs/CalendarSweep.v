(* C18 — the one expensive step: every day of one 400-year era (146097 days) is checked by
   vm_compute; CalendarProof.v lifts it to all days by periodicity. Kept in its own file so that
   it is compiled once. *)
From Coq Require Import List ZArith NArith Lia Bool.
From RareV Require Import Model.Calendar.
Local Open Scope Z_scope.

Definition all_range (start : Z) (n : N) (f : Z -> bool) : bool :=
  snd (N.iter n (fun p => (fst p + 1, snd p && f (fst p))) (start, true)).

Lemma all_range_iter start n f :
  let r := N.iter n (fun p => (fst p + 1, snd p && f (fst p))) (start, true) in
  fst r = start + Z.of_N n /\
  (snd r = true -> forall z, start <= z < start + Z.of_N n -> f z = true).
Proof.
  induction n as [|n IH] using N.peano_ind.
  - cbn. split; [lia|]. intros _ z Hz. lia.
  - rewrite N.iter_succ. cbv zeta in IH |- *.
    set (r := N.iter n _ _) in *. destruct IH as [IH1 IH2]. cbn [fst snd].
    split; [lia|]. intros H z Hz. apply andb_true_iff in H as [H1 H2].
    destruct (Z.eq_dec z (start + Z.of_N n)) as [->|Hne].
    + rewrite <- IH1. exact H2.
    + apply IH2; [exact H1|lia].
Qed.

Lemma all_range_spec start n f :
  all_range start n f = true -> forall z, start <= z < start + Z.of_N n -> f z = true.
Proof. intros H. exact (proj2 (all_range_iter start n f) H). Qed.

(* what is checked for a day-of-era doe (era 0: day = doe - 719468) *)
Definition doe_ok (doe : Z) : bool :=
  let z := doe - 719468 in
  let '(y, m, d) := civil_of_doe doe in
  (days_from_civil y m d =? z) && (1 <=? m) && (m <=? 12) && (1 <=? d) && (d <=? days_in_month y m)
  && (year_start y <=? z) && (z <? year_start (y + 1))
  && (days_from_civil y m 1 <=? z) && (0 <=? y) && (y <=? 400)
  && (let '(y1, m1, d1) := civil_from_days (days_from_civil y m 1) in (y1 =? y) && (m1 =? m) && (d1 =? 1)).

Lemma era_sweep : all_range 0 146097 doe_ok = true.
Proof. vm_compute. reflexivity. Qed.

Lemma doe_ok_all doe : 0 <= doe < 146097 -> doe_ok doe = true.
Proof. intros H. apply (all_range_spec 0 146097 doe_ok era_sweep). cbn. lia. Qed.

(* years of one era: the length of each year (365 / 366 by the leap rule) *)
Definition year_ok (y : Z) : bool :=
  (year_start (y + 1) - year_start y =? (if is_leap y then 366 else 365)).
Lemma year_sweep : all_range 0 400 year_ok = true.
Proof. vm_compute. reflexivity. Qed.
Lemma year_ok_all y : 0 <= y < 400 -> year_ok y = true.
Proof. intros H. apply (all_range_spec 0 400 year_ok year_sweep). cbn. lia. Qed.
