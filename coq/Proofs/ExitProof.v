(* C06: exit status precedence (DetermineErrorState + main), with the translator's constants. *)
From Coq Require Import ZArith Arith Bool Lia.
From RareV Require Import Gen.GenC06 Model.Exit.

(* read errors first, then parse errors, then "nothing matched", else success *)
Theorem exit_precedence readErr parseErr matched :
  exit_code readErr parseErr matched =
  if 0 <? readErr then 2%Z else if 0 <? parseErr then 2%Z else if matched =? 0 then 1%Z else 0%Z.
Proof. reflexivity. Qed.

Theorem exit_2_iff readErr parseErr matched :
  exit_code readErr parseErr matched = 2%Z <-> readErr > 0 \/ parseErr > 0.
Proof.
  rewrite exit_precedence.
  destruct (0 <? readErr) eqn:A; [apply Nat.ltb_lt in A; split; auto|apply Nat.ltb_ge in A].
  destruct (0 <? parseErr) eqn:B; [apply Nat.ltb_lt in B; split; auto|apply Nat.ltb_ge in B].
  destruct (matched =? 0); split; try discriminate; lia.
Qed.
Theorem exit_1_iff readErr parseErr matched :
  exit_code readErr parseErr matched = 1%Z <-> readErr = 0 /\ parseErr = 0 /\ matched = 0.
Proof.
  rewrite exit_precedence.
  destruct (0 <? readErr) eqn:A; [apply Nat.ltb_lt in A; split; [discriminate|lia]|apply Nat.ltb_ge in A].
  destruct (0 <? parseErr) eqn:B; [apply Nat.ltb_lt in B; split; [discriminate|lia]|apply Nat.ltb_ge in B].
  destruct (matched =? 0) eqn:C; [apply Nat.eqb_eq in C|apply Nat.eqb_neq in C]; split; try discriminate; lia.
Qed.
Theorem exit_0_iff readErr parseErr matched :
  exit_code readErr parseErr matched = 0%Z <-> readErr = 0 /\ parseErr = 0 /\ matched > 0.
Proof.
  rewrite exit_precedence.
  destruct (0 <? readErr) eqn:A; [apply Nat.ltb_lt in A; split; [discriminate|lia]|apply Nat.ltb_ge in A].
  destruct (0 <? parseErr) eqn:B; [apply Nat.ltb_lt in B; split; [discriminate|lia]|apply Nat.ltb_ge in B].
  destruct (matched =? 0) eqn:C; [apply Nat.eqb_eq in C|apply Nat.eqb_neq in C]; split; try discriminate; lia.
Qed.
