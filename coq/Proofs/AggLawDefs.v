(* C07 — the table law: shared definitions. *)
From Coq Require Import List NArith ZArith Bool.
From RareV Require Import Base.Hex Base.Num Model.Agg Proofs.AggMap.
Import ListNotations.

(* a well-formed cell map: rows in key order, every row's cells in key order and non-empty *)
Definition cs_ok (cs : cellmap) : Prop :=
  asorted cs /\ forall r cells, In (r, cells) cs -> asorted cells /\ cells <> [].
