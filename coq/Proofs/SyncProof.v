(* C05 (a): lockset / happens-before soundness - a trace whose locations follow one of the three
   disciplines (all atomic, guarded by one mutex incl. RW locks, init-then-read-only) has no data race. *)
From Coq Require Import List Arith Lia Bool.
From RareV Require Import Model.Sync.
Import ListNotations.

Lemma firstn_S_nth {A} (l : list A) i e : nth_error l i = Some e -> firstn (S i) l = firstn i l ++ [e].
Proof.
  revert i; induction l as [|a l IH]; intros [|i] H; simpl in *; try discriminate.
  - now inversion H.
  - f_equal. now apply IH.
Qed.
Lemma holder_snoc tr e : holder (tr ++ [e]) = step_h (holder tr) e.
Proof. unfold holder. now rewrite fold_left_app. Qed.

Lemma upd_same h m v : upd h m v m = v.
Proof. unfold upd. now rewrite Nat.eqb_refl. Qed.
Lemma upd_other h m v m' : m' <> m -> upd h m v m' = h m'.
Proof. unfold upd. intros H. destruct (Nat.eqb_spec m' m); congruence. Qed.

Definition opt_dec (a b : option nat) : {a = b} + {a <> b}.
Proof. decide equality; apply Nat.eq_dec. Defined.

(* state of mutex m after one more event *)
Lemma step_m h e m :
  step_h h e m =
  match e with
  | Acq t m' => if m =? m' then {| hw := Some t; hr := hr (h m') |} else h m
  | Rel t m' => if m =? m' then {| hw := None; hr := hr (h m') |} else h m
  | RAcq t m' => if m =? m' then {| hw := hw (h m'); hr := fun t' => if t' =? t then S (hr (h m') t') else hr (h m') t' |} else h m
  | RRel t m' => if m =? m' then {| hw := hw (h m'); hr := fun t' => if t' =? t then pred (hr (h m') t') else hr (h m') t' |} else h m
  | _ => h m
  end.
Proof. destruct e; cbn [step_h]; unfold upd; reflexivity. Qed.

(* exclusive and shared holds exclude each other *)
Lemma excl tr m : wf tr -> forall i, i <= length tr ->
  forall t, hw (holder (firstn i tr) m) = Some t -> forall t', hr (holder (firstn i tr) m) t' = 0.
Proof.
  intros Hwf. induction i as [|i IH]; intros Hi t Ht t'; [cbn in *; discriminate|].
  destruct (nth_error tr i) as [e|] eqn:Ee; [|apply nth_error_None in Ee; lia].
  rewrite (firstn_S_nth _ _ _ Ee), holder_snoc, step_m in *.
  pose proof (Hwf _ _ Ee) as Hw. cbv zeta in Hw.
  destruct e as [t0 m0|t0 m0|t0 m0|t0 m0|t0 x w a|t0 t1]; try (eapply IH; eauto; lia).
  - destruct (Nat.eqb_spec m m0) as [->|]; [|eapply IH; eauto; lia]. cbn in *. apply Hw.
  - destruct (Nat.eqb_spec m m0) as [->|]; [|eapply IH; eauto; lia]. cbn in *. discriminate.
  - destruct (Nat.eqb_spec m m0) as [->|]; [|eapply IH; eauto; lia]. cbn in *. congruence.
  - destruct (Nat.eqb_spec m m0) as [->|]; [|eapply IH; eauto; lia]. cbn in *.
    assert (hr (holder (firstn i tr) m0) t' = 0) as Z by (eapply IH; eauto; lia).
    destruct (t' =? t0); rewrite Z; reflexivity.
Qed.

Lemma released tr m t : wf tr -> forall j i, i <= j -> j <= length tr ->
  hw (holder (firstn i tr) m) = Some t -> hw (holder (firstn j tr) m) <> Some t ->
  exists k, i <= k < j /\ nth_error tr k = Some (Rel t m).
Proof.
  intros Hwf. induction j as [|j IH]; intros i Hij Hj Hi Hne.
  - replace i with 0 in Hi by lia. cbn in Hi. discriminate.
  - destruct (Nat.eq_dec i (S j)) as [->|Hlt]; [congruence|].
    destruct (nth_error tr j) as [e|] eqn:Ee; [|apply nth_error_None in Ee; lia].
    rewrite (firstn_S_nth _ _ _ Ee), holder_snoc, step_m in Hne.
    destruct (opt_dec (hw (holder (firstn j tr) m)) (Some t)) as [Heq|Hneq].
    + pose proof (Hwf _ _ Ee) as Hw. cbv zeta in Hw.
      destruct e as [t0 m0|t0 m0|t0 m0|t0 m0|t0 x w a|t0 t1]; try congruence.
      * destruct (Nat.eqb_spec m m0) as [->|]; [|congruence]. destruct Hw as (Hw & _). congruence.
      * destruct (Nat.eqb_spec m m0) as [->|]; [|congruence]. rewrite Heq in Hw. inversion Hw; subst.
        exists j. split; [lia|assumption].
      * destruct (Nat.eqb_spec m m0) as [->|]; cbn in Hne; congruence.
      * destruct (Nat.eqb_spec m m0) as [->|]; cbn in Hne; congruence.
    + destruct (IH i) as (k & Hk & Hr); try lia; auto. exists k. split; [lia|assumption].
Qed.

Lemma acquired tr m t' : forall j i, i <= j -> j <= length tr ->
  hw (holder (firstn i tr) m) <> Some t' -> hw (holder (firstn j tr) m) = Some t' ->
  exists k, i <= k < j /\ nth_error tr k = Some (Acq t' m).
Proof.
  induction j as [|j IH]; intros i Hij Hj Hi Hjj.
  - replace i with 0 in Hi by lia. cbn in *. congruence.
  - destruct (Nat.eq_dec i (S j)) as [->|Hlt]; [congruence|].
    destruct (nth_error tr j) as [e|] eqn:Ee; [|apply nth_error_None in Ee; lia].
    rewrite (firstn_S_nth _ _ _ Ee), holder_snoc, step_m in Hjj.
    destruct (opt_dec (hw (holder (firstn j tr) m)) (Some t')) as [Heq|Hneq].
    + destruct (IH i) as (k & Hk & Hr); try lia; auto. exists k. split; [lia|assumption].
    + destruct e as [t0 m0|t0 m0|t0 m0|t0 m0|t0 x w a|t0 t1]; try congruence.
      * destruct (Nat.eqb_spec m m0) as [->|]; [|congruence]. cbn in Hjj. inversion Hjj; subst. exists j. split; [lia|assumption].
      * destruct (Nat.eqb_spec m m0) as [->|]; cbn in Hjj; congruence.
      * destruct (Nat.eqb_spec m m0) as [->|]; cbn in Hjj; congruence.
      * destruct (Nat.eqb_spec m m0) as [->|]; cbn in Hjj; congruence.
Qed.

Lemma racquired tr m t' : forall j i, i <= j -> j <= length tr ->
  hr (holder (firstn i tr) m) t' = 0 -> hr (holder (firstn j tr) m) t' > 0 ->
  exists k, i <= k < j /\ nth_error tr k = Some (RAcq t' m).
Proof.
  induction j as [|j IH]; intros i Hij Hj Hi Hjj.
  - replace i with 0 in Hi by lia. cbn in *. lia.
  - destruct (Nat.eq_dec i (S j)) as [->|Hlt]; [lia|].
    destruct (nth_error tr j) as [e|] eqn:Ee; [|apply nth_error_None in Ee; lia].
    rewrite (firstn_S_nth _ _ _ Ee), holder_snoc, step_m in Hjj.
    destruct (Nat.eq_dec (hr (holder (firstn j tr) m) t') 0) as [Hz|Hnz].
    + destruct e as [t0 m0|t0 m0|t0 m0|t0 m0|t0 x w a|t0 t1]; try lia.
      * destruct (Nat.eqb_spec m m0) as [->|]; cbn in Hjj; lia.
      * destruct (Nat.eqb_spec m m0) as [->|]; cbn in Hjj; lia.
      * destruct (Nat.eqb_spec m m0) as [->|]; [|lia]. cbn in Hjj.
        destruct (Nat.eqb_spec t' t0) as [->|]; [|lia]. exists j. split; [lia|assumption].
      * destruct (Nat.eqb_spec m m0) as [->|]; [|lia]. cbn in Hjj. destruct (t' =? t0); lia.
    + destruct (IH i) as (k & Hk & Hr); try lia; auto. exists k. split; [lia|assumption].
Qed.

Lemma rreleased tr m t : forall j i, i <= j -> j <= length tr ->
  hr (holder (firstn i tr) m) t > 0 -> hr (holder (firstn j tr) m) t = 0 ->
  exists k, i <= k < j /\ nth_error tr k = Some (RRel t m).
Proof.
  induction j as [|j IH]; intros i Hij Hj Hi Hjj.
  - replace i with 0 in Hi by lia. cbn in *. lia.
  - destruct (Nat.eq_dec i (S j)) as [->|Hlt]; [lia|].
    destruct (nth_error tr j) as [e|] eqn:Ee; [|apply nth_error_None in Ee; lia].
    rewrite (firstn_S_nth _ _ _ Ee), holder_snoc, step_m in Hjj.
    destruct (Nat.eq_dec (hr (holder (firstn j tr) m) t) 0) as [Hz|Hnz].
    + destruct (IH i) as (k & Hk & Hr); try lia; auto. exists k. split; [lia|assumption].
    + destruct e as [t0 m0|t0 m0|t0 m0|t0 m0|t0 x w a|t0 t1]; try lia.
      * destruct (Nat.eqb_spec m m0) as [->|]; cbn in Hjj; lia.
      * destruct (Nat.eqb_spec m m0) as [->|]; cbn in Hjj; lia.
      * destruct (Nat.eqb_spec m m0) as [->|]; [|lia]. cbn in Hjj. destruct (t =? t0); lia.
      * destruct (Nat.eqb_spec m m0) as [->|]; [|lia]. cbn in Hjj.
        destruct (Nat.eqb_spec t t0) as [->|]; [|lia]. exists j. split; [lia|assumption].
Qed.

Lemma after_rel tr m t k : nth_error tr k = Some (Rel t m) ->
  hw (holder (firstn (S k) tr) m) = None /\ hr (holder (firstn (S k) tr) m) = hr (holder (firstn k tr) m).
Proof. intros H. rewrite (firstn_S_nth _ _ _ H), holder_snoc, step_m, Nat.eqb_refl. cbn. auto. Qed.

Theorem guarded_no_race tr x m : wf tr -> guarded tr x m ->
  forall i j t t' w a w' a', i < j ->
    nth_error tr i = Some (Acc t x w a) -> nth_error tr j = Some (Acc t' x w' a') -> t <> t' ->
    (w = true \/ w' = true) -> hb tr i j.
Proof.
  intros Hwf Hg i j t t' w a w' a' Hij Ei Ej Hne Hww.
  pose proof (Hg _ _ _ _ Ei) as Hi. pose proof (Hg _ _ _ _ Ej) as Hj. cbv zeta in Hi, Hj.
  assert (Hjl : j < length tr) by (apply nth_error_Some; congruence).
  (* the case where t holds m exclusively at i *)
  assert (Hexcl : hw (holder (firstn i tr) m) = Some t -> hb tr i j).
  { intros Hwi.
    assert (hw (holder (firstn j tr) m) <> Some t) as Hnj.
    { destruct w'; cbv iota in Hj; [congruence|]. destruct Hj as [Hj|Hj]; [congruence|].
      intros Hc. pose proof (excl tr m Hwf j ltac:(lia) t Hc t') as Z. rewrite Z in Hj. inversion Hj. }
    destruct (released tr m t Hwf j i) as (k & Hk & Hr); try lia; auto.
    destruct (after_rel _ _ _ _ Hr) as (Hk1 & Hk2).
    assert (k <> i) by (intros ->; congruence).
    assert (hw (holder (firstn k tr) m) = Some t) as Hwk by (exact (Hwf _ _ Hr)).
    assert (Hpo : hb tr i k) by (eapply hb_po; eauto; lia).
    assert (Hw' : hw (holder (firstn j tr) m) = Some t' \/ hr (holder (firstn j tr) m) t' > 0)
      by (destruct w'; cbv iota in Hj; auto).
    destruct Hw' as [Hw'|Hr'].
    - destruct (acquired tr m t' j (S k)) as (k' & Hk' & Ha); try lia; auto; [congruence|].
      assert (k' <> j) by (intros ->; congruence).
      apply hb_trans with k; [exact Hpo|]. apply hb_trans with k'; [eapply hb_sync; eauto; lia|].
      eapply hb_po; eauto. lia.
    - assert (hr (holder (firstn (S k) tr) m) t' = 0) as Hz.
      { rewrite Hk2. exact (excl tr m Hwf k ltac:(lia) t Hwk t'). }
      destruct (racquired tr m t' j (S k)) as (k' & Hk' & Ha); try lia; auto.
      assert (k' <> j) by (intros ->; congruence).
      apply hb_trans with k; [exact Hpo|]. apply hb_trans with k'; [eapply hb_sync_wr; eauto; lia|].
      eapply hb_po; eauto. lia. }
  destruct w; cbv iota in Hi.
  - apply Hexcl. exact Hi.
  - destruct Hww as [|Hw']; [discriminate|]. subst w'. cbv iota in Hj.
    destruct Hi as [Hi|Hi]; [apply Hexcl; exact Hi|].
    (* t holds m shared at i; t' holds it exclusively at j *)
    assert (hr (holder (firstn j tr) m) t = 0) as Hz by (exact (excl tr m Hwf j ltac:(lia) t' Hj t)).
    destruct (rreleased tr m t j i) as (k & Hk & Hr); try lia; auto.
    assert (k <> i) by (intros ->; congruence).
    assert (hw (holder (firstn k tr) m) <> Some t') as Hnk.
    { intros Hc. pose proof (excl tr m Hwf k ltac:(lia) t' Hc t) as Z. pose proof (Hwf _ _ Hr) as Hw. cbv beta iota zeta in Hw. lia. }
    destruct (acquired tr m t' j k) as (k' & Hk' & Ha); try lia; auto.
    assert (k' <> k) by (intros ->; congruence).
    assert (k' <> j) by (intros ->; congruence).
    apply hb_trans with k; [eapply hb_po; eauto; lia|].
    apply hb_trans with k'; [eapply hb_sync_rw; eauto; lia|].
    eapply hb_po; eauto. lia.
Qed.

Theorem lockset_sound tr : wf tr ->
  (forall x, (exists m, guarded tr x m) \/ all_atomic tr x \/ init_then_read tr x) -> ~ race tr.
Proof.
  intros Hwf Hd (i & j & e1 & e2 & Hij & E1 & E2 & Hc & Hnhb).
  destruct e1 as [| | | |t x w a|]; try contradiction. destruct e2 as [| | | |t' x' w' a'|]; try contradiction.
  destruct Hc as (<- & Hne & Hww & Hat).
  destruct (Hd x) as [(m & Hg)|[Ha|(t0 & Hi)]].
  - apply Hnhb. eapply guarded_no_race; eauto.
  - rewrite (Ha _ _ _ _ E1), (Ha _ _ _ _ E2) in Hat. destruct Hat; discriminate.
  - destruct Hww as [->| ->].
    + destruct (Hi _ _ _ _ E1 eq_refl) as (-> & Hall).
      destruct (Hall _ _ _ _ E2 ltac:(congruence)) as (_ & Hhb). exact (Hnhb Hhb).
    + destruct (Hi _ _ _ _ E2 eq_refl) as (-> & Hall).
      destruct (Hall _ _ _ _ E1 ltac:(congruence)) as (Hlt & _). lia.
Qed.

(* the table version: every location below n is classified (not CBad), the trace obeys the table *)
Theorem table_sound tbl n tr : table_ok tbl n = true -> wf tr -> obeys tbl tr -> locs_below tr n -> ~ race tr.
Proof.
  intros Hok Hwf Hob Hb (i & j & e1 & e2 & Hij & E1 & E2 & Hc & Hnhb).
  destruct e1 as [| | | |t x w a|] eqn:He1; try contradiction. destruct e2 as [| | | |t' x' w' a'|] eqn:He2; try contradiction.
  pose proof Hc as (<- & Hne & Hww & Hat).
  pose proof (Hb _ _ _ _ _ E1) as Hx. specialize (Hob x).
  unfold table_ok in Hok. rewrite forallb_forall in Hok. specialize (Hok x ltac:(apply in_seq; lia)).
  destruct (classify_loc tbl x) eqn:Ec; try discriminate.
  - rewrite (Hob _ _ _ _ E1), (Hob _ _ _ _ E2) in Hat. destruct Hat; discriminate.
  - apply Hnhb. eapply guarded_no_race; eauto.
  - destruct Hob as (t0 & Hi). destruct Hww as [->| ->].
    + destruct (Hi _ _ _ _ E1 eq_refl) as (-> & Hall).
      destruct (Hall _ _ _ _ E2 ltac:(congruence)) as (_ & Hhb). exact (Hnhb Hhb).
    + destruct (Hi _ _ _ _ E2 eq_refl) as (-> & Hall).
      destruct (Hall _ _ _ _ E1 ltac:(congruence)) as (Hlt & _). lia.
Qed.
