(* C13: the O(n log n) sort used for large key sets is the reference sort: on a key set on which
   the comparator is a total order (on distinct keys), [msort] returns a sorted permutation,
   hence (uniqueness) exactly [isort]. *)
From Coq Require Import List Permutation Sorted Bool Lia Arith.
From RareV Require Import Model.Sort Proofs.SortGeneric.
Import ListNotations.

Section M.
Context {A : Type}.
Variable less : A -> A -> bool.
Notation ltl := (lt less).

Lemma merge_nil_l l2 : merge less [] l2 = l2.
Proof. destruct l2; reflexivity. Qed.
Lemma merge_nil_r l1 : merge less l1 [] = l1.
Proof. destruct l1; reflexivity. Qed.
Lemma merge_eq a1 l1 a2 l2 :
  merge less (a1 :: l1) (a2 :: l2) =
  if less a2 a1 then a2 :: merge less (a1 :: l1) l2 else a1 :: merge less l1 (a2 :: l2).
Proof. reflexivity. Qed.

Lemma merge_perm : forall l1 l2, Permutation (l1 ++ l2) (merge less l1 l2).
Proof.
  induction l1 as [|a1 l1 IH1]; intros l2.
  - rewrite merge_nil_l. reflexivity.
  - induction l2 as [|a2 l2 IH2].
    + rewrite merge_nil_r, app_nil_r. reflexivity.
    + rewrite merge_eq. destruct (less a2 a1).
      * etransitivity; [apply Permutation_sym, Permutation_middle|]. constructor. exact IH2.
      * cbn. constructor. apply IH1.
Qed.

Lemma NoDup_app_cross (l1 l2 : list A) x y : NoDup (l1 ++ l2) -> In x l1 -> In y l2 -> x <> y.
Proof.
  induction l1 as [|a l1 IH]; intros Hnd Hx Hy; [contradiction|].
  cbn in Hnd. inversion Hnd as [|? ? Hna Hnd1]; subst. destruct Hx as [->|Hx].
  - intros ->. apply Hna. apply in_or_app. now right.
  - now apply IH.
Qed.

Lemma NoDup_app_parts (l1 l2 : list A) : NoDup (l1 ++ l2) -> NoDup l1 /\ NoDup l2.
Proof.
  induction l1 as [|a l1 IH]; cbn; intros H; [split; [constructor|exact H]|].
  inversion H as [|? ? Hna Hnd]; subst. destruct (IH Hnd) as [H1 H2]. split; [|exact H2].
  constructor; [|exact H1]. intros Hin. apply Hna. apply in_or_app. now left.
Qed.

Lemma merge_sorted L : order_on less L -> forall l1 l2,
  incl (l1 ++ l2) L -> NoDup (l1 ++ l2) ->
  StronglySorted ltl l1 -> StronglySorted ltl l2 -> StronglySorted ltl (merge less l1 l2).
Proof.
  intros (Has & Htr & Hto). induction l1 as [|a1 l1 IH1]; intros l2 Hi Hnd H1 H2.
  - now rewrite merge_nil_l.
  - induction l2 as [|a2 l2 IH2].
    + now rewrite merge_nil_r.
    + rewrite merge_eq.
      inversion H1 as [|? ? H1s H1a]; subst. inversion H2 as [|? ? H2s H2a]; subst.
      rewrite Forall_forall in H1a, H2a.
      assert (I1 : In a1 L) by (apply Hi; now left).
      assert (I2 : In a2 L) by (apply Hi; apply in_or_app; right; now left).
      assert (Il1 : forall z, In z l1 -> In z L) by (intros z Hz; apply Hi; right; apply in_or_app; now left).
      assert (Il2 : forall z, In z l2 -> In z L)
        by (intros z Hz; apply Hi; apply in_or_app; right; now right).
      assert (N12 : a1 <> a2) by (apply (NoDup_app_cross _ _ a1 a2 Hnd); now left).
      assert (Nd1 : NoDup (a1 :: l1)) by exact (proj1 (NoDup_app_parts _ _ Hnd)).
      assert (Nd2 : NoDup (a2 :: l2)) by exact (proj2 (NoDup_app_parts _ _ Hnd)).
      inversion Nd1 as [|? ? Na1 _]; subst. inversion Nd2 as [|? ? Na2 _]; subst.
      destruct (less a2 a1) eqn:E.
      * constructor.
        -- apply IH2; auto.
           ++ intros z Hz. apply Hi. apply in_app_or in Hz as [Hz|Hz]; apply in_or_app; [now left|right; now right].
           ++ now apply NoDup_remove_1 in Hnd.
        -- eapply Permutation_Forall; [apply merge_perm|].
           apply Forall_app. split; [constructor; [exact E|]|]; rewrite Forall_forall; intros z Hz.
           ++ apply (Htr a2 a1 z); auto.
              ** intros ->. contradiction.
              ** intros ->. apply (NoDup_app_cross _ _ z z Hnd); [now right|now left|reflexivity].
           ++ now apply H2a.
      * assert (L12 : ltl a1 a2).
        { destruct (Hto a1 a2 I1 I2 N12) as [Lx|Lx]; [exact Lx|]. unfold lt in Lx. congruence. }
        constructor.
        -- apply IH1; auto.
           ++ intros z Hz. apply Hi. now right.
           ++ cbn in Hnd. now inversion Hnd.
        -- eapply Permutation_Forall; [apply merge_perm|].
           apply Forall_app. split; [|constructor; [exact L12|]]; rewrite Forall_forall; intros z Hz.
           ++ now apply H1a.
           ++ apply (Htr a1 a2 z); auto.
              ** intros ->. contradiction.
              ** intros ->. apply (NoDup_app_cross _ _ z z Hnd); [now left|now right|reflexivity].
Qed.

Lemma halve_spec : forall l : list A,
  (Permutation l (fst (halve l) ++ snd (halve l)) /\
   List.length (snd (halve l)) <= List.length (fst (halve l)) <= S (List.length (snd (halve l)))) /\
  forall a,
  (Permutation (a :: l) (fst (halve (a :: l)) ++ snd (halve (a :: l))) /\
   List.length (snd (halve (a :: l))) <= List.length (fst (halve (a :: l))) <= S (List.length (snd (halve (a :: l))))).
Proof.
  induction l as [|b r IH].
  - split; [cbn; split; [constructor|lia]|]. intros a. cbn. split; [reflexivity|lia].
  - destruct IH as [IHr IHb]. split; [apply IHb|].
    intros a. cbn [halve]. destruct (halve r) as [x y] eqn:E. cbn [fst snd] in *.
    destruct IHr as [Hp Hl]. split.
    + cbn. constructor. etransitivity; [|apply Permutation_middle]. now constructor.
    + cbn. lia.
Qed.

Lemma msort_fuel_correct L : order_on less L -> forall f l,
  List.length l <= f -> incl l L -> NoDup l ->
  StronglySorted ltl (msort_fuel less f l) /\ Permutation l (msort_fuel less f l).
Proof.
  intros Ho. induction f as [|f IH]; intros l Hlen Hi Hnd.
  - destruct l; [|cbn in Hlen; lia]. cbn. split; constructor.
  - destruct l as [|a [|b r]].
    + cbn. split; constructor.
    + cbn. split; [repeat constructor|reflexivity].
    + cbn [msort_fuel].
      destruct (proj2 (halve_spec (b :: r)) a) as [Hp Hl].
      destruct (halve (a :: b :: r)) as [x y] eqn:E. cbn [fst snd] in Hp, Hl.
      pose proof (Permutation_length Hp) as Hlen2. rewrite app_length in Hlen2. cbn in Hlen2, Hlen.
      assert (Hndxy : NoDup (x ++ y)) by (eapply Permutation_NoDup; eauto).
      assert (Hixy : incl (x ++ y) L).
      { intros z Hz. apply Hi. eapply Permutation_in; [apply Permutation_sym; exact Hp|exact Hz]. }
      destruct (IH x) as [Sx Px]; [lia|intros z Hz; apply Hixy, in_or_app; now left
                                  |exact (proj1 (NoDup_app_parts _ _ Hndxy))|].
      destruct (IH y) as [Sy Py]; [lia|intros z Hz; apply Hixy, in_or_app; now right
                                  |exact (proj2 (NoDup_app_parts _ _ Hndxy))|].
      assert (Pxy : Permutation (x ++ y) (msort_fuel less f x ++ msort_fuel less f y))
        by now apply Permutation_app.
      split.
      * apply (merge_sorted L Ho); auto.
        -- intros z Hz. apply Hixy. eapply Permutation_in; [apply Permutation_sym; exact Pxy|exact Hz].
        -- eapply Permutation_NoDup; eauto.
      * etransitivity; [exact Hp|]. etransitivity; [exact Pxy|]. apply merge_perm.
Qed.

(* the fast sort is the reference sort *)
Theorem msort_isort l : order_on less l -> NoDup l -> msort less l = isort less l.
Proof.
  intros Ho Hnd. destruct (msort_fuel_correct l Ho (List.length l) l) as [Hs Hp]; auto.
  - apply incl_refl.
  - now apply sort_unique.
Qed.

Lemma msort_sorted l : order_on less l -> NoDup l ->
  StronglySorted ltl (msort less l) /\ Permutation l (msort less l).
Proof.
  intros Ho Hnd. apply (msort_fuel_correct l Ho (List.length l) l); auto. apply incl_refl.
Qed.
End M.
