(* C07 — MatchCounter: the fold equals the specification; order independence. *)
From Coq Require Import List NArith ZArith Bool Lia Sorted Permutation.
From RareV Require Import Base.Hex Base.Num Model.Agg Proofs.AggMap.
Import ListNotations.
Local Open Scope Z_scope.

(* ---------- small generic facts (also used for the table / accumulator) ---------- *)
Lemma mem_ext k l1 l2 : (In k l1 <-> In k l2) -> mem k l1 = mem k l2.
Proof.
  intros H. destruct (mem k l1) eqn:E1, (mem k l2) eqn:E2; try reflexivity.
  - apply mem_In in E1. apply H in E1. apply mem_In in E1. congruence.
  - apply mem_In in E2. apply H in E2. apply mem_In in E2. congruence.
Qed.

Lemma Permutation_filter {A} (p : A -> bool) l1 l2 : Permutation l1 l2 -> Permutation (filter p l1) (filter p l2).
Proof.
  induction 1; cbn.
  - constructor.
  - destruct (p x); [constructor|]; assumption.
  - destruct (p x), (p y); try apply Permutation_refl. apply perm_swap.
  - eapply Permutation_trans; eassumption.
Qed.

Section SumBy.
  Context {K : Type}.
  Definition sum_by (p : K -> bool) (l : list (K * Z)) : Z := zsum (map snd (filter (fun x => p (fst x)) l)).
  Lemma sum_by_snoc p l x : sum_by p (l ++ [x]) = sum_by p l + (if p (fst x) then snd x else 0).
  Proof.
    unfold sum_by. rewrite filter_app, map_app, zsum_app. cbn. destruct (p (fst x)); cbn; lia.
  Qed.
  Lemma sum_by_none p l : (forall x, In x l -> p (fst x) = false) -> sum_by p l = 0.
  Proof.
    unfold sum_by. induction l as [|x l IH]; intros H; cbn; [reflexivity|].
    rewrite (H x) by (left; reflexivity). apply IH. intros y Hy. apply H. right. exact Hy.
  Qed.
  Lemma sum_by_perm p l1 l2 : Permutation l1 l2 -> sum_by p l1 = sum_by p l2.
  Proof. intros H. unfold sum_by. apply zsum_perm. apply Permutation_map. apply Permutation_filter. exact H. Qed.
End SumBy.

Lemma length_filter_perm {A} (p : A -> bool) l1 l2 : Permutation l1 l2 -> length (filter p l1) = length (filter p l2).
Proof. intros H. apply Permutation_length. apply Permutation_filter. exact H. Qed.

(* ---------- counter ---------- *)
Lemma sum_for_by k kv : sum_for k kv = sum_by (beq k) kv.
Proof. reflexivity. Qed.

Lemma valid2_snoc h s : valid2 (h ++ [s]) = valid2 h ++ match parse2 s with Some kv => [kv] | None => [] end.
Proof. unfold valid2. rewrite flat_map_app. cbn. rewrite app_nil_r. reflexivity. Qed.
Lemma nerr2_snoc h s : nerr2 (h ++ [s]) = (nerr2 h + match parse2 s with None => 1 | Some _ => 0 end)%N.
Proof.
  unfold nerr2. rewrite filter_app, app_length. cbn. destruct (parse2 s); cbn; lia.
Qed.

Lemma spec_items_sorted kv : asorted (spec_counter_items kv).
Proof. unfold asorted, spec_counter_items. rewrite keys_tab. apply usort_sorted. Qed.

Lemma afind_spec_items k kv :
  afind k (spec_counter_items kv) = if mem k (map fst kv) then Some (wrap64 (sum_for k kv)) else None.
Proof.
  unfold spec_counter_items. rewrite (afind_tab (fun k => wrap64 (sum_for k kv))).
  rewrite (mem_ext k (usort (map fst kv)) (map fst kv)) by apply In_usort. reflexivity.
Qed.

Lemma spec_items_snoc kv k v :
  aupd k (addo v) (spec_counter_items kv) = spec_counter_items (kv ++ [(k, v)]).
Proof.
  apply amap_ext.
  - apply aupd_sorted. apply spec_items_sorted.
  - apply spec_items_sorted.
  - intros k'. rewrite afind_spec_items. rewrite map_app. cbn [map fst].
    rewrite !sum_for_by, sum_by_snoc. cbn [fst snd].
    destruct (bytes_dec k' k) as [->|Hne].
    + rewrite afind_aupd_same by apply spec_items_sorted. rewrite afind_spec_items, beq_refl.
      replace (mem k (map fst kv ++ [k])) with true
        by (symmetry; apply mem_In; apply in_or_app; right; left; reflexivity).
      f_equal. destruct (mem k (map fst kv)) eqn:M; unfold addo; cbn [dflt].
      * rewrite sum_for_by. apply add64_wrap.
      * rewrite sum_by_none.
        -- unfold add64. reflexivity.
        -- intros x Hx. apply beq_neq. intros ->. apply (in_map fst) in Hx. apply mem_In in Hx. congruence.
    + rewrite afind_aupd_other by exact Hne. rewrite afind_spec_items.
      rewrite (beq_neq k' k) by exact Hne. rewrite Z.add_0_r.
      rewrite (mem_ext k' (map fst kv ++ [k]) (map fst kv)); [reflexivity|].
      rewrite in_app_iff. cbn. intuition congruence.
Qed.

Lemma c_run_snoc h s : c_run (h ++ [s]) = c_sample (c_run h) s.
Proof. unfold c_run. rewrite fold_left_app. reflexivity. Qed.

(* C07_counter_fold *)
Theorem counter_fold_proof : forall h, c_run h = spec_counter h.
Proof.
  intros h. induction h as [|s h IH] using rev_ind; [reflexivity|].
  rewrite c_run_snoc, IH. unfold c_sample, spec_counter.
  rewrite valid2_snoc, nerr2_snoc. destruct (parse2 s) as [[k v]|]; cbn [c_items c_errors c_total].
  - unfold c_sample_value. cbn [c_items c_errors c_total].
    rewrite spec_items_snoc, map_app, zsum_app, add64_wrap. cbn. f_equal; [lia | f_equal; lia].
  - rewrite app_nil_r. reflexivity.
Qed.

(* what the specification says, key by key *)
Theorem counter_spec_meaning : forall h k,
  afind k (c_items (c_run h)) =
    (if mem k (map fst (valid2 h)) then Some (wrap64 (sum_for k (valid2 h))) else None) /\
  asorted (c_items (c_run h)).
Proof.
  intros h k. rewrite counter_fold_proof. cbn [spec_counter c_items]. split; [apply afind_spec_items | apply spec_items_sorted].
Qed.

Lemma valid2_perm h1 h2 : Permutation h1 h2 -> Permutation (valid2 h1) (valid2 h2).
Proof. intros H. unfold valid2. apply Permutation_flat_map. exact H. Qed.

Lemma spec_counter_items_perm kv1 kv2 : Permutation kv1 kv2 -> spec_counter_items kv1 = spec_counter_items kv2.
Proof.
  intros H. apply amap_ext; try apply spec_items_sorted.
  intros k. rewrite !afind_spec_items, !sum_for_by.
  rewrite (sum_by_perm _ _ _ H).
  rewrite (mem_ext k (map fst kv1) (map fst kv2)); [reflexivity|].
  split; apply Permutation_in; [|apply Permutation_sym]; apply Permutation_map; exact H.
Qed.

(* C07_counter_perm *)
Theorem counter_perm_proof : forall h1 h2, Permutation h1 h2 -> c_run h1 = c_run h2.
Proof.
  intros h1 h2 H. rewrite !counter_fold_proof. unfold spec_counter.
  pose proof (valid2_perm _ _ H) as Hv. f_equal.
  - apply spec_counter_items_perm. exact Hv.
  - unfold nerr2. f_equal. apply length_filter_perm. exact H.
  - f_equal. apply zsum_perm. apply Permutation_map. exact Hv.
Qed.
