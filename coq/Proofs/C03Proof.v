(* C03: the final aggregate does not depend on the schedule, the tuning, the order of the file
   arguments or the division of lines among files: composition of the pipeline theorems (C01, C02,
   C05) with the permutation invariance of the count-style aggregators (C07). *)
From Coq Require Import List NArith ZArith Arith Permutation Bool.
From RareV Require Import Base.Hex Base.Num Model.Batch Model.Pipeline Model.AggLoop Model.Agg
  Proofs.PipelineProof Proofs.PipelineOrder Proofs.AggLoopProof Proofs.ReduceOrder Props.C07.
Import ListNotations.

Section C03.
Variable classify : lineid -> cls bytes.     (* a match emits its extracted key *)
Variable c : cfg.
Notation seq := (seq_keys bytes classify).

Lemma seq_keys_perm i1 i2 : Permutation i1 i2 -> Permutation (seq i1) (seq i2).
Proof.
  unfold seq_keys. induction 1; cbn [flat_map]; auto.
  - apply Permutation_app_head. assumption.
  - rewrite !app_assoc. apply Permutation_app_tail. apply Permutation_app_comm.
  - etransitivity; eauto.
Qed.

(* the pipeline alone: whatever the schedule, the consumer's keys fold to the reference aggregate *)
Theorem pipeline_counts srcs nw s : cfg_ok c -> nw >= 1 ->
  reach bytes classify c (init bytes srcs nw) s -> (forall s', ~ step bytes classify c s s') ->
  c_run (consumed bytes s) = c_run (seq (input_of srcs)) /\
  s_run (consumed bytes s) = s_run (seq (input_of srcs)) /\
  (forall d, t_run d (consumed bytes s) = t_run d (seq (input_of srcs))).
Proof.
  intros Hc Hn Hr Ht. destruct (pipeline_final bytes classify c srcs nw s Hc Hn Hr Ht) as (_ & P & _).
  split; [apply C07_counter_perm; exact P|]. split; [apply C07_subkey_perm; exact P|].
  intros d. apply C07_table_perm. exact P.
Qed.

(* through the aggregation loop: what was sampled when the loop is done *)
Theorem loop_counts srcs nw x : nw >= 1 ->
  creach bytes classify c (init bytes srcs nw, loop0 bytes) x -> ag bytes (snd x) = ADone ->
  c_run (sampled bytes (snd x)) = c_run (seq (input_of srcs)) /\
  s_run (sampled bytes (snd x)) = s_run (seq (input_of srcs)) /\
  (forall d, t_run d (sampled bytes (snd x)) = t_run d (seq (input_of srcs))).
Proof.
  intros Hn Hr Ha.
  destruct (final_complete bytes classify (input_of srcs) (errors_of srcs) x (creach_inv bytes classify c srcs nw x Hn Hr) Ha) as (_ & P & _).
  split; [apply C07_counter_perm; exact P|]. split; [apply C07_subkey_perm; exact P|].
  intros d. apply C07_table_perm. exact P.
Qed.

(* reduce with sum / count accumulators (the definition the correspondence runs; `bad` is the marker a
   non-integer operand gives, any text that is not itself an integer): the group table is a function of
   the multiset of keys, so it does not depend on the schedule or the tuning either *)
Theorem pipeline_reduce bad srcs nw s : atoi bad = None -> cfg_ok c -> nw >= 1 ->
  reach bytes classify c (init bytes srcs nw) s -> (forall s', ~ step bytes classify c s s') ->
  a_run expr (eval_expr bad) reduce_def (consumed bytes s) = a_run expr (eval_expr bad) reduce_def (seq (input_of srcs)).
Proof.
  intros Hb Hc Hn Hr Ht. destruct (pipeline_final bytes classify c srcs nw s Hc Hn Hr Ht) as (_ & P & _).
  apply reduce_sum_count_perm; [exact Hb|exact P].
Qed.
Theorem loop_reduce bad srcs nw x : atoi bad = None -> nw >= 1 ->
  creach bytes classify c (init bytes srcs nw, loop0 bytes) x -> ag bytes (snd x) = ADone ->
  a_run expr (eval_expr bad) reduce_def (sampled bytes (snd x)) = a_run expr (eval_expr bad) reduce_def (seq (input_of srcs)).
Proof.
  intros Hb Hn Hr Ha.
  destruct (final_complete bytes classify (input_of srcs) (errors_of srcs) x (creach_inv bytes classify c srcs nw x Hn Hr) Ha) as (_ & P & _).
  apply reduce_sum_count_perm; [exact Hb|exact P].
Qed.

(* two runs - any configurations, any schedules - of the same input agree *)
Corollary schedule_independent srcs nw1 nw2 c2 s1 s2 : cfg_ok c -> cfg_ok c2 -> nw1 >= 1 -> nw2 >= 1 ->
  reach bytes classify c (init bytes srcs nw1) s1 -> (forall s', ~ step bytes classify c s1 s') ->
  reach bytes classify c2 (init bytes srcs nw2) s2 -> (forall s', ~ step bytes classify c2 s2 s') ->
  Permutation (consumed bytes s1) (consumed bytes s2).
Proof.
  intros A B C D E F G H.
  destruct (pipeline_final bytes classify c srcs nw1 s1 A C E F) as (_ & P1 & _).
  destruct (pipeline_final bytes classify c2 srcs nw2 s2 B D G H) as (_ & P2 & _).
  etransitivity; [exact P1|symmetry; exact P2].
Qed.
End C03.

(* any accumulator - order-sensitive ones included - with one reader at a time and one worker *)
Theorem any_fold_1x1 (A : Type) (f : A -> bytes -> A) (a0 : A) classify c srcs s :
  nreaders c = 1 -> chcap c >= 1 -> rcap c >= 1 ->
  reach bytes classify c (init bytes srcs 1) s -> (forall s', ~ step bytes classify c s s') ->
  fold_left f (consumed bytes s) a0 = fold_left f (seq_keys bytes classify (input_of srcs)) a0.
Proof. intros H1 H2 H3 Hr Ht. rewrite (ordered_final bytes classify c H1 srcs s H2 H3 Hr Ht). reflexivity. Qed.

(* keys that do not mention {src} / {line}: the result depends only on the multiset of line texts -
   re-ordering the file arguments or re-dividing the same lines among files changes nothing *)
Theorem file_split_independent (g : bytes -> cls bytes) classify in1 in2 :
  (forall id, classify id = g (snd id)) ->
  Permutation (map (fun id : lineid => snd id) in1) (map (fun id : lineid => snd id) in2) ->
  Permutation (seq_keys bytes classify in1) (seq_keys bytes classify in2).
Proof.
  intros Hg P.
  assert (forall l, seq_keys bytes classify l =
                    flat_map (fun t => match g t with Mat k => [k] | _ => [] end) (map (fun id : lineid => snd id) l)) as E.
  { induction l as [|id l IH]; [reflexivity|]. unfold seq_keys in *. cbn [flat_map map]. rewrite IH.
    unfold key_of. rewrite Hg. reflexivity. }
  rewrite !E. clear E. induction P; cbn [flat_map]; auto.
  - apply Permutation_app_head. assumption.
  - rewrite !app_assoc. apply Permutation_app_tail. apply Permutation_app_comm.
  - etransitivity; eauto.
Qed.
