(* C07 — TableAggregator.Trim (pkg/aggregation/table.go): what is true of the code for every
   predicate and every visiting order of the column map (the cells and rows are exactly those of
   the specification; sums and totals are never recomputed), what is true for column predicates
   (the only use in the program) and row predicates, and the refutation of the full statement. *)
From Coq Require Import List NArith ZArith Bool Lia Sorted Permutation.
From RareV Require Import Base.Hex Base.Num Model.Agg Proofs.AggMap Proofs.AggTableWf.
Import ListNotations.
Local Open Scope Z_scope.

Definition cells_of (t : table) : list (bytes * amap Z) :=
  map (fun rw : bytes * trow => (fst rw, fst (snd rw))) (t_rows t).

(* ------------------------------------------------------------------ lists *)
Lemma filter_filter {A} (f g : A -> bool) l :
  filter f (filter g l) = filter (fun x => g x && f x) l.
Proof.
  induction l as [|x l IH]; cbn; [reflexivity|].
  destruct (g x); cbn; [destruct (f x)|]; rewrite ?IH; reflexivity.
Qed.

Lemma filter_true_in {A} (f : A -> bool) l : (forall x, In x l -> f x = true) -> filter f l = l.
Proof.
  induction l as [|x l IH]; cbn; intros H; [reflexivity|].
  rewrite (H x (or_introl eq_refl)). f_equal. apply IH. intros y Hy. apply H. right. exact Hy.
Qed.

Lemma filter_map_filter {A} (P : A -> bool) (F : A -> A) l :
  (forall x, P x = false -> P (F x) = false) ->
  filter P (map F (filter P l)) = filter P (map F l).
Proof.
  intros H. induction l as [|x l IH]; cbn; [reflexivity|].
  destruct (P x) eqn:E; cbn; rewrite IH; [reflexivity|]. rewrite (H _ E). reflexivity.
Qed.

Lemma map_filter_id {A} (E E' : A -> bool) (f : A -> A) l :
  (forall x, In x l -> E x = E' x) -> (forall x, In x l -> E x = true -> f x = x) ->
  map f (filter E l) = filter E' l.
Proof.
  induction l as [|x l IH]; cbn; intros H1 H2; [reflexivity|].
  rewrite <- (H1 x (or_introl eq_refl)). destruct (E x) eqn:Ex; cbn.
  - rewrite (H2 x (or_introl eq_refl) Ex). f_equal. apply IH; intros y Hy; [apply H1 | apply H2]; right; exact Hy.
  - apply IH; intros y Hy; [apply H1 | apply H2]; right; exact Hy.
Qed.

(* ------------------------------------------------------------------ association lists *)
Section AMapMore.
  Context {V : Type}.
  Implicit Types m : amap V.

  Lemma aremove_filter c m : aremove c m = filter (fun cl => negb (beq (fst cl) c)) m.
  Proof.
    induction m as [|[k v] m IH]; cbn; [reflexivity|].
    rewrite (beq_sym k c). destruct (beq c k); cbn; rewrite IH; reflexivity.
  Qed.

  Lemma filter_asorted (f : bytes * V -> bool) m : asorted m -> asorted (filter f m).
  Proof.
    unfold asorted. induction m as [|[k v] m IH]; cbn; intros Hs; [constructor|].
    apply ksorted_cons_inv in Hs as [Hs HF]. destruct (f (k, v)); cbn; [|apply IH; exact Hs].
    constructor; [apply IH; exact Hs|].
    rewrite Forall_forall in *. intros x Hx. apply HF.
    apply in_map_iff in Hx as (cl & <- & Hcl). apply filter_In in Hcl as [Hcl _].
    apply in_map. exact Hcl.
  Qed.

  Lemma aremove_asorted c m : asorted m -> asorted (aremove c m).
  Proof. rewrite aremove_filter. apply filter_asorted. Qed.

  Lemma keys_aremove c x m : In x (map fst (aremove c m)) <-> In x (map fst m) /\ x <> c.
  Proof.
    rewrite aremove_filter. split.
    - intros H. apply in_map_iff in H as (cl & <- & Hcl). apply filter_In in Hcl as [Hcl Hb].
      split; [apply in_map; exact Hcl|]. intros E. rewrite E, beq_refl in Hb. discriminate.
    - intros [H Hne]. apply in_map_iff in H as (cl & <- & Hcl). apply in_map. apply filter_In.
      split; [exact Hcl|]. rewrite beq_neq by exact Hne. reflexivity.
  Qed.

  Lemma aremove_notin c m : ~ In c (map fst m) -> aremove c m = m.
  Proof.
    intros H. rewrite aremove_filter. apply filter_true_in. intros cl Hcl.
    destruct (beq (fst cl) c) eqn:E; [|reflexivity]. apply beq_eq in E. exfalso. apply H.
    rewrite <- E. apply in_map. exact Hcl.
  Qed.

  (* a filter on the key only *)
  Lemma afind_filter_key (q : bytes -> bool) k m :
    afind k (filter (fun cl => q (fst cl)) m) = if q k then afind k m else None.
  Proof.
    induction m as [|[k' v] m IH]; cbn; [destruct (q k); reflexivity|].
    destruct (beq k k') eqn:E.
    - apply beq_eq in E. subst k'. destruct (q k) eqn:Q; cbn; [rewrite beq_refl; reflexivity|].
      exact IH.
    - destruct (q k'); cbn; [rewrite E|]; exact IH.
  Qed.
End AMapMore.

(* ------------------------------------------------------------------ one column, the rows *)
Definition nonempty (rw : bytes * trow) : bool := negb (is_nil (fst (snd rw))).

Definition row_step (pred : bytes -> bytes -> Z -> bool) (c : bytes) (rw : bytes * trow) : bytes * trow :=
  if pred c (fst rw) (t_value (snd rw) c)
  then (fst rw, (aremove c (fst (snd rw)), snd (snd rw))) else rw.
Definition rows_step pred c (rows : amap trow) : amap trow := filter nonempty (map (row_step pred c) rows).

Lemma trim_col_rows pred t c : t_rows (trim_col pred t c) = rows_step pred c (t_rows t).
Proof.
  unfold trim_col, rows_step. cbn [t_rows]. rewrite map_map.
  change (fun rw : bytes * trow => negb (is_nil (fst (snd rw)))) with nonempty. f_equal.
  apply map_ext. intros rw. unfold row_step. destruct (pred c (fst rw) (t_value (snd rw) c)); reflexivity.
Qed.

Lemma trim_order_snoc pred order c t :
  trim_order pred (order ++ [c]) t = trim_col pred (trim_order pred order t) c.
Proof. unfold trim_order. rewrite fold_left_app. reflexivity. Qed.

(* the cells that stay once the columns of [order] have been visited *)
Definition keep (pred : bytes -> bytes -> Z -> bool) (order : list bytes) (r : bytes) (cl : bytes * Z) : bool :=
  negb (mem (fst cl) order && pred (fst cl) r (snd cl)).
Definition row_after pred order (rw : bytes * trow) : bytes * trow :=
  (fst rw, (filter (keep pred order (fst rw)) (fst (snd rw)), snd (snd rw))).
Definition rows_after pred order (rows : amap trow) : amap trow :=
  filter nonempty (map (row_after pred order) rows).

Lemma row_eq (r : bytes) (c1 c2 : amap Z) (sm : Z) : c1 = c2 -> (r, (c1, sm)) = (r, (c2, sm)).
Proof. intros ->. reflexivity. Qed.

Lemma row_step_filter pred c rw : asorted (fst (snd rw)) ->
  row_step pred c rw =
  (fst rw, (filter (fun cl : bytes * Z => negb (beq (fst cl) c && pred (fst cl) (fst rw) (snd cl))) (fst (snd rw)),
            snd (snd rw))).
Proof.
  destruct rw as [r [cells sm]]. cbn [fst snd]. intros Hs. unfold row_step, t_value. cbn [fst snd].
  remember (pred c r (dflt (afind c cells))) as b eqn:Hb.
  assert (E : filter (fun cl : bytes * Z => negb (beq (fst cl) c && pred (fst cl) r (snd cl))) cells =
              filter (fun cl : bytes * Z => negb (beq (fst cl) c && b)) cells).
  { apply filter_ext_in. intros [k v] Hin. cbn [fst snd]. destruct (beq k c) eqn:Ek; [|reflexivity].
    apply beq_eq in Ek. subst k. rewrite Hb, (afind_in_sorted _ _ _ Hs Hin). reflexivity. }
  rewrite E. destruct b.
  - rewrite aremove_filter. apply row_eq. apply filter_ext. intros cl. rewrite andb_true_r. reflexivity.
  - apply row_eq. symmetry. apply filter_true_in. intros cl _. rewrite andb_false_r. reflexivity.
Qed.

Lemma row_step_empty pred c rw : nonempty rw = false -> nonempty (row_step pred c rw) = false.
Proof.
  destruct rw as [r [[|cl cells] sm]]; unfold nonempty, row_step; cbn [fst snd is_nil negb]; intros H; [|discriminate].
  destruct (pred _ _ _); reflexivity.
Qed.

Definition rows_ok (rows : amap trow) : Prop :=
  forall rw, In rw rows -> asorted (fst (snd rw)) /\ fst (snd rw) <> [].

Lemma trim_order_rows pred order t : rows_ok (t_rows t) ->
  t_rows (trim_order pred order t) = rows_after pred order (t_rows t).
Proof.
  intros Hok. induction order as [|c order IH] using rev_ind.
  - cbn. unfold rows_after. rewrite (map_ext_in _ (fun rw => rw)).
    + rewrite map_id. symmetry. apply filter_true_in. intros [r [cells sm]] Hin.
      apply Hok in Hin as [_ Hne]. cbn [fst snd] in Hne. unfold nonempty. cbn [fst snd].
      destruct cells; [contradiction|reflexivity].
    + intros [r [cells sm]] _. unfold row_after. cbn [fst snd]. apply row_eq.
      apply filter_true_in. intros cl _. reflexivity.
  - rewrite trim_order_snoc, trim_col_rows, IH. unfold rows_step, rows_after.
    rewrite filter_map_filter by apply row_step_empty. f_equal. rewrite map_map.
    apply map_ext_in. intros rw Hin. apply Hok in Hin as [Hs _].
    rewrite row_step_filter by (apply filter_asorted; exact Hs).
    unfold row_after. cbn [fst snd]. apply row_eq. rewrite filter_filter. apply filter_ext.
    intros cl. unfold keep, mem. rewrite existsb_app. cbn [existsb].
    destruct (existsb (beq (fst cl)) order), (beq (fst cl) c), (pred (fst cl) (fst rw) (snd cl)); reflexivity.
Qed.

Lemma wf_rows_ok t : t_wf t -> rows_ok (t_rows t).
Proof.
  intros (_ & _ & H & _) [r [cells sm]] Hin. apply H in Hin as (Hs & Hne & _). split; assumption.
Qed.

Lemma cells_filter_nonempty rows :
  map (fun rw : bytes * trow => (fst rw, fst (snd rw))) (filter nonempty rows) =
  filter (fun p : bytes * amap Z => negb (is_nil (snd p))) (map (fun rw : bytes * trow => (fst rw, fst (snd rw))) rows).
Proof.
  induction rows as [|rw rows IH]; cbn; [reflexivity|].
  unfold nonempty at 1. destruct (negb (is_nil (fst (snd rw)))); cbn; rewrite IH; reflexivity.
Qed.

(* rows of the specification *)
Definition spec_row (pred : bytes -> bytes -> Z -> bool) (rw : bytes * trow) : bytes * trow :=
  let cells := filter (fun cl : bytes * Z => negb (pred (fst cl) (fst rw) (snd cl))) (fst (snd rw)) in
  (fst rw, (cells, wrap64 (zsum (map snd cells)))).
Lemma spec_trim_rows pred t : t_rows (spec_trim pred t) = filter nonempty (map (spec_row pred) (t_rows t)).
Proof. reflexivity. Qed.

Lemma wf_cell_in_order t order rw k :
  t_wf t -> Permutation order (map fst (t_cols t)) -> In rw (t_rows t) ->
  In k (map fst (fst (snd rw))) -> mem k order = true.
Proof.
  intros (_ & _ & H & _) HP Hin Hk. destruct rw as [r [cells sm]]. apply H in Hin as (_ & _ & Hc).
  apply mem_In. apply (Permutation_in _ (Permutation_sym HP)). apply Hc. exact Hk.
Qed.

(* 1. for every predicate and every visiting order: the rows and their cells are those of the specification *)
Theorem trim_cells_proof : forall pred order t,
  t_wf t -> Permutation order (map fst (t_cols t)) ->
  cells_of (trim_order pred order t) = cells_of (spec_trim pred t).
Proof.
  intros pred order t Hwf HP. unfold cells_of.
  rewrite trim_order_rows by (apply wf_rows_ok; exact Hwf). rewrite spec_trim_rows.
  unfold rows_after. rewrite !cells_filter_nonempty. f_equal. rewrite !map_map.
  apply map_ext_in. intros rw Hin. unfold row_after, spec_row. cbn [fst snd]. f_equal.
  apply filter_ext_in. intros cl Hcl. unfold keep.
  rewrite (wf_cell_in_order t order rw (fst cl) Hwf HP Hin) by (apply in_map; exact Hcl).
  reflexivity.
Qed.

(* every surviving row keeps its old sum *)
Theorem trim_sums_stale : forall pred order t,
  t_wf t -> Permutation order (map fst (t_cols t)) ->
  forall r cells sm, In (r, (cells, sm)) (t_rows (trim_order pred order t)) ->
  exists cells0, In (r, (cells0, sm)) (t_rows t).
Proof.
  intros pred order t Hwf _ r cells sm Hin.
  rewrite trim_order_rows in Hin by (apply wf_rows_ok; exact Hwf).
  unfold rows_after in Hin. apply filter_In in Hin as [Hin _].
  apply in_map_iff in Hin as ([r0 [cells0 sm0]] & E & Hin). unfold row_after in E. cbn [fst snd] in E.
  inversion E; subst. exists cells0. exact Hin.
Qed.

(* ------------------------------------------------------------------ one column, the columns *)
Lemma trim_col_cols pred t c :
  t_cols (trim_col pred t c) = t_cols t \/ t_cols (trim_col pred t c) = aremove c (t_cols t).
Proof. unfold trim_col. cbn [t_cols]. destruct (forallb _ _); auto. Qed.

Lemma trim_order_cols_afind pred order : forall t x,
  afind x (t_cols (trim_order pred order t)) = None \/
  afind x (t_cols (trim_order pred order t)) = afind x (t_cols t).
Proof.
  induction order as [|c order IH]; intros t x; [right; reflexivity|].
  change (trim_order pred (c :: order) t) with (trim_order pred order (trim_col pred t c)).
  destruct (IH (trim_col pred t c) x) as [H|H]; [left; exact H|]. rewrite H.
  destruct (trim_col_cols pred t c) as [E|E]; rewrite E; [right; reflexivity|].
  rewrite afind_aremove. destruct (beq x c); [left|right]; reflexivity.
Qed.

Lemma forallb_map_ext {A B} (f : B -> bool) (g : A -> B) (h : A -> bool) l :
  (forall x, f (g x) = h x) -> forallb f (map g l) = forallb h l.
Proof. intros H. induction l as [|x l IH]; cbn; [reflexivity|]. rewrite IH, H. reflexivity. Qed.

Lemma trim_col_cols_eq pred t c :
  t_cols (trim_col pred t c) =
  if forallb (fun rw : bytes * trow => pred c (fst rw) (t_value (snd rw) c)) (t_rows t)
  then aremove c (t_cols t) else t_cols t.
Proof.
  unfold trim_col. cbn [t_cols].
  rewrite (forallb_map_ext _ _ (fun rw : bytes * trow => pred c (fst rw) (t_value (snd rw) c))); [reflexivity|].
  intros rw. destruct (pred c (fst rw) (t_value (snd rw) c)); reflexivity.
Qed.

(* every cell is in a known column: kept by Trim (a column is deleted only when all its cells went) *)
Definition known_cols (t : table) : Prop :=
  forall rw k, In rw (t_rows t) -> In k (map fst (fst (snd rw))) -> In k (map fst (t_cols t)).

Lemma trim_col_known pred t c : known_cols t -> known_cols (trim_col pred t c).
Proof.
  intros Hk rw k Hin Hcell. rewrite trim_col_rows in Hin. rewrite trim_col_cols_eq.
  unfold rows_step in Hin. apply filter_In in Hin as [Hin _].
  apply in_map_iff in Hin as (rw0 & E & Hin0).
  assert (Hsub : In k (map fst (fst (snd rw0))) /\
                 (pred c (fst rw0) (t_value (snd rw0) c) = true -> k <> c)).
  { unfold row_step in E. destruct (pred c (fst rw0) (t_value (snd rw0) c)); subst rw.
    - cbn [fst snd] in Hcell. apply keys_aremove in Hcell. split; [tauto | intros _; tauto].
    - split; [exact Hcell | intros; discriminate]. }
  destruct Hsub as [Hc Hne].
  destruct (forallb _ (t_rows t)) eqn:F.
  - apply keys_aremove. split; [eapply Hk; eauto|]. apply Hne.
    rewrite forallb_forall in F. apply F. exact Hin0.
  - eapply Hk; eauto.
Qed.

Lemma trim_order_known pred order : forall t, known_cols t -> known_cols (trim_order pred order t).
Proof.
  induction order as [|c order IH]; intros t Hk; [exact Hk|].
  change (trim_order pred (c :: order) t) with (trim_order pred order (trim_col pred t c)).
  apply IH. apply trim_col_known. exact Hk.
Qed.

Lemma wf_known t : t_wf t -> known_cols t.
Proof.
  intros (_ & _ & H & _) [r [cells sm]] k Hin Hk. apply H in Hin as (_ & _ & Hc). apply Hc. exact Hk.
Qed.

Lemma spec_trim_cols pred t :
  t_cols (spec_trim pred t) =
  map (fun cl : bytes * Z =>
         (fst cl, wrap64 (zsum (map (fun rw : bytes * trow => t_value (snd rw) (fst cl)) (t_rows (spec_trim pred t))))))
      (filter (fun cl : bytes * Z =>
                 existsb (fun rw : bytes * trow =>
                            match afind (fst cl) (fst (snd rw)) with Some _ => true | None => false end)
                         (t_rows (spec_trim pred t)))
              (t_cols t)).
Proof. reflexivity. Qed.

(* the columns: no column appears, a column that still has a cell is never deleted, and the totals
   of the columns that stay are the old ones *)
Theorem trim_cols_subset : forall pred order t,
  t_wf t -> Permutation order (map fst (t_cols t)) ->
  (forall c, In c (map fst (t_cols (trim_order pred order t))) -> In c (map fst (t_cols t))) /\
  (forall c, In c (map fst (t_cols (spec_trim pred t))) -> In c (map fst (t_cols (trim_order pred order t)))) /\
  (forall c, In c (map fst (t_cols (trim_order pred order t))) ->
             afind c (t_cols (trim_order pred order t)) = afind c (t_cols t)).
Proof.
  intros pred order t Hwf HP.
  assert (H3 : forall c, In c (map fst (t_cols (trim_order pred order t))) ->
                         afind c (t_cols (trim_order pred order t)) = afind c (t_cols t)).
  { intros c Hc. destruct (trim_order_cols_afind pred order t c) as [H|H]; [|exact H].
    apply afind_none_notin in H. contradiction. }
  split; [|split; [|exact H3]].
  - intros c Hc. pose proof (H3 c Hc) as E.
    destruct (afind c (t_cols t)) eqn:A.
    + apply afind_some_in in A. apply (in_map fst) in A. exact A.
    + apply afind_none_notin in E. contradiction.
  - intros c Hc. rewrite spec_trim_cols, map_map in Hc. cbn [fst] in Hc.
    apply in_map_iff in Hc as (cl & <- & Hcl). apply filter_In in Hcl as [_ Hex].
    apply existsb_exists in Hex as (rw & Hrw & Hf).
    destruct (afind (fst cl) (fst (snd rw))) eqn:A; [|discriminate].
    apply afind_some_in in A. apply (in_map fst) in A. cbn [fst] in A.
    assert (Hc : In (fst rw, fst (snd rw)) (cells_of (spec_trim pred t))).
    { unfold cells_of. apply (in_map (fun rw : bytes * trow => (fst rw, fst (snd rw)))). exact Hrw. }
    rewrite <- (trim_cells_proof pred order t Hwf HP) in Hc. unfold cells_of in Hc.
    apply in_map_iff in Hc as (rw' & E & Hrw'). inversion E as [[E1 E2]].
    apply (trim_order_known pred order t (wf_known t Hwf) rw' (fst cl) Hrw'). rewrite E2. exact A.
Qed.

(* ------------------------------------------------------------------ 2. column predicates *)
Lemma forallb_const {A} (b : bool) (l : list A) : forallb (fun _ => b) l = b || is_nil l.
Proof. induction l as [|x l IH]; cbn; [rewrite orb_true_r; reflexivity|]. rewrite IH. destruct b; reflexivity. Qed.

Lemma colpred_cols (sel : bytes -> bool) order t : t_wf t ->
  t_cols (trim_order (fun c (_ : bytes) (_ : Z) => sel c) order t) =
  filter (fun cl : bytes * Z => negb (mem (fst cl) order && sel (fst cl))) (t_cols t).
Proof.
  intros Hwf. induction order as [|c order IH] using rev_ind.
  - cbn. symmetry. apply filter_true_in. intros cl _. reflexivity.
  - rewrite trim_order_snoc, trim_col_cols_eq, IH. cbv beta. rewrite forallb_const.
    destruct (sel c) eqn:Sc; cbn [orb].
    + rewrite aremove_filter, filter_filter. apply filter_ext. intros cl.
      unfold mem. rewrite existsb_app. cbn [existsb].
      destruct (beq (fst cl) c) eqn:E.
      * apply beq_eq in E. rewrite E, Sc. destruct (existsb (beq c) order); reflexivity.
      * destruct (existsb (beq (fst cl)) order), (sel (fst cl)); reflexivity.
    + assert (EF : filter (fun cl : bytes * Z => negb (mem (fst cl) (order ++ [c]) && sel (fst cl))) (t_cols t) =
                   filter (fun cl : bytes * Z => negb (mem (fst cl) order && sel (fst cl))) (t_cols t)).
      { apply filter_ext. intros cl. unfold mem. rewrite existsb_app. cbn [existsb].
        destruct (beq (fst cl) c) eqn:E.
        - apply beq_eq in E. rewrite E, Sc. rewrite !andb_false_r. reflexivity.
        - rewrite !orb_false_r. reflexivity. }
      rewrite EF. destruct (is_nil _) eqn:Nil; [|reflexivity].
      apply aremove_notin. intros Hc.
      apply in_map_iff in Hc as (cl & Ecl & Hcl). apply filter_In in Hcl as [Hcl _].
      apply (in_map fst) in Hcl. rewrite Ecl in Hcl.
      destruct Hwf as (Hwf1 & Hwf2 & Hwf3 & Hwf4).
      destruct (Hwf4 c Hcl) as (r & cells & sm & Hrow & Hcell).
      rewrite trim_order_rows in Nil
        by (intros rw Hrw; destruct rw as [r0 [cells0 sm0]]; apply Hwf3 in Hrw; cbn [fst snd]; tauto).
      apply in_map_iff in Hcell as ([k v] & Ek & Hkv). cbn [fst] in Ek. subst k.
      assert (Hin : In (row_after (fun c (_ : bytes) (_ : Z) => sel c) order (r, (cells, sm)))
                       (rows_after (fun c (_ : bytes) (_ : Z) => sel c) order (t_rows t))).
      { unfold rows_after. apply filter_In. split; [apply in_map; exact Hrow|].
        unfold nonempty, row_after. cbn [fst snd].
        assert (Hk : In (c, v) (filter (keep (fun c (_ : bytes) (_ : Z) => sel c) order r) cells)).
        { apply filter_In. split; [exact Hkv|]. unfold keep. cbn [fst snd]. rewrite Sc, andb_false_r. reflexivity. }
        destruct (filter _ cells); [contradiction|reflexivity]. }
      destruct (rows_after _ order (t_rows t)); [contradiction|discriminate].
Qed.

Lemma colpred_spec_find (sel : bytes -> bool) rw c :
  afind c (fst (snd (spec_row (fun c (_ : bytes) (_ : Z) => sel c) rw))) =
  if negb (sel c) then afind c (fst (snd rw)) else None.
Proof.
  unfold spec_row. cbn [fst snd].
  pose proof (afind_filter_key (fun k => negb (sel k)) c (fst (snd rw))) as H. cbv beta in H. exact H.
Qed.

Lemma colpred_spec_value (sel : bytes -> bool) rw c : sel c = false ->
  t_value (snd (spec_row (fun c (_ : bytes) (_ : Z) => sel c) rw)) c = t_value (snd rw) c.
Proof. intros S. unfold t_value. rewrite colpred_spec_find, S. reflexivity. Qed.

Lemma colpred_spec_sum (sel : bytes -> bool) c rows : sel c = false ->
  zsum (map (fun rw : bytes * trow => t_value (snd rw) c)
            (filter nonempty (map (spec_row (fun c (_ : bytes) (_ : Z) => sel c)) rows))) =
  zsum (map (fun rw : bytes * trow => t_value (snd rw) c) rows).
Proof.
  intros S. induction rows as [|rw rows IH]; [reflexivity|].
  cbn [map filter]. destruct (nonempty (spec_row _ rw)) eqn:N.
  - unfold zsum in *. cbn [map fold_right]. rewrite IH, colpred_spec_value by exact S. reflexivity.
  - unfold zsum in *. cbn [map fold_right]. rewrite IH.
    rewrite <- (colpred_spec_value sel rw c S). unfold t_value, nonempty in *.
    destruct (fst (snd (spec_row _ rw))); [reflexivity|discriminate].
Qed.

Theorem trim_colpred_proof : forall (sel : bytes -> bool) order t,
  t_wf t -> t_totals_ok t -> Permutation order (map fst (t_cols t)) ->
  let pred := fun c (_ : bytes) (_ : Z) => sel c in
  cells_of (trim_order pred order t) = cells_of (spec_trim pred t) /\
  t_cols (trim_order pred order t) = t_cols (spec_trim pred t).
Proof.
  intros sel order t Hwf Htot HP pred. split; [apply trim_cells_proof; assumption|].
  unfold pred. rewrite colpred_cols by exact Hwf. rewrite spec_trim_cols. symmetry.
  assert (HE : forall cl, In cl (t_cols t) ->
            existsb (fun rw : bytes * trow =>
                       match afind (fst cl) (fst (snd rw)) with Some _ => true | None => false end)
                    (t_rows (spec_trim (fun c (_ : bytes) (_ : Z) => sel c) t)) = negb (sel (fst cl))).
  { intros cl Hcl. rewrite spec_trim_rows. destruct (sel (fst cl)) eqn:S; cbn [negb].
    - destruct (existsb _ _) eqn:Ex; [|reflexivity]. apply existsb_exists in Ex as (rw & Hrw & Hf).
      apply filter_In in Hrw as [Hrw _]. apply in_map_iff in Hrw as (rw0 & <- & _).
      rewrite colpred_spec_find, S in Hf. discriminate.
    - apply existsb_exists. destruct Hwf as (_ & _ & _ & Hwf4).
      destruct (Hwf4 (fst cl) (in_map fst _ _ Hcl)) as (r & cells & sm & Hrow & Hcell).
      exists (spec_row (fun c (_ : bytes) (_ : Z) => sel c) (r, (cells, sm))).
      pose proof (colpred_spec_find sel (r, (cells, sm)) (fst cl)) as Hf. rewrite S in Hf. cbn [negb fst snd] in Hf.
      destruct (afind (fst cl) cells) eqn:A; [|apply afind_none_notin in A; contradiction].
      split; [|rewrite Hf; reflexivity].
      apply filter_In. split; [apply in_map; exact Hrow|].
      unfold nonempty. destruct (fst (snd (spec_row _ (r, (cells, sm))))); [discriminate|reflexivity]. }
  apply map_filter_id.
  - intros cl Hcl. rewrite (HE cl Hcl).
    assert (M : mem (fst cl) order = true).
    { apply mem_In. apply (Permutation_in _ (Permutation_sym HP)). apply in_map. exact Hcl. }
    rewrite M. reflexivity.
  - intros [c v] Hcl Ex. rewrite (HE _ Hcl) in Ex. cbn [fst] in *.
    apply negb_true_iff in Ex. rewrite spec_trim_rows, colpred_spec_sum by exact Ex.
    destruct Htot as [_ Htot]. rewrite <- (Htot c v Hcl). reflexivity.
Qed.

(* 5. for a column predicate the visiting order is irrelevant *)
Corollary trim_order_irrelevant_colpred : forall (sel : bytes -> bool) order1 order2 t,
  t_wf t -> t_totals_ok t ->
  Permutation order1 (map fst (t_cols t)) -> Permutation order2 (map fst (t_cols t)) ->
  let pred := fun c (_ : bytes) (_ : Z) => sel c in
  cells_of (trim_order pred order1 t) = cells_of (trim_order pred order2 t) /\
  t_cols (trim_order pred order1 t) = t_cols (trim_order pred order2 t).
Proof.
  intros sel order1 order2 t Hwf Htot HP1 HP2 pred. subst pred.
  destruct (trim_colpred_proof sel order1 t Hwf Htot HP1) as [A1 B1].
  destruct (trim_colpred_proof sel order2 t Hwf Htot HP2) as [A2 B2].
  split; [rewrite A1, A2 | rewrite B1, B2]; reflexivity.
Qed.

(* ------------------------------------------------------------------ 3. row predicates *)
Lemma filter_false_in {A} (f : A -> bool) l : (forall x, In x l -> f x = false) -> filter f l = [].
Proof.
  induction l as [|x l IH]; cbn; intros H; [reflexivity|].
  rewrite (H x (or_introl eq_refl)). apply IH. intros y Hy. apply H. right. exact Hy.
Qed.

Lemma filter_map_pointwise {A} (P Q : A -> bool) (F : A -> A) l :
  (forall x, In x l -> (Q x = true -> F x = x /\ P x = true) /\ (Q x = false -> P (F x) = false)) ->
  filter P (map F l) = filter Q l.
Proof.
  induction l as [|x l IH]; cbn; intros H; [reflexivity|].
  destruct (H x (or_introl eq_refl)) as [H1 H2]. destruct (Q x).
  - destruct (H1 eq_refl) as [E1 E2]. rewrite E1, E2. f_equal. apply IH. intros y Hy. apply H. right. exact Hy.
  - rewrite (H2 eq_refl). apply IH. intros y Hy. apply H. right. exact Hy.
Qed.

Theorem trim_rowpred_proof : forall (sel : bytes -> bool) order t,
  t_wf t -> Permutation order (map fst (t_cols t)) ->
  let pred := fun (_ : bytes) r (_ : Z) => sel r in
  t_rows (trim_order pred order t) = filter (fun rw : bytes * trow => negb (sel (fst rw))) (t_rows t).
Proof.
  intros sel order t Hwf HP pred. rewrite trim_order_rows by (apply wf_rows_ok; exact Hwf).
  unfold rows_after. apply filter_map_pointwise. intros [r [cells sm]] Hin. cbn [fst].
  unfold row_after, nonempty, pred, keep. cbn [fst snd]. split; intros S.
  - apply negb_true_iff in S. split.
    + apply row_eq. apply filter_true_in. intros cl _. rewrite S, andb_false_r. reflexivity.
    + apply (wf_rows_ok t Hwf) in Hin as [_ Hne]. cbn [fst snd] in Hne. destruct cells; [contradiction|reflexivity].
  - apply negb_false_iff in S. rewrite filter_false_in; [reflexivity|]. intros cl Hcl.
    rewrite S, (wf_cell_in_order t order (r, (cells, sm)) (fst cl) Hwf HP Hin) by (apply in_map; exact Hcl).
    reflexivity.
Qed.

(* ------------------------------------------------------------------ 4. the full statement is false *)
(* samples "a\0r1", "b\0r2\05"; predicate value > 3: the cell (b, r2) goes, row r2 goes, but column b
   stays (the predicate is false for the absent cell (b, r1) = 0) with its old total 5 *)
Theorem trim_refuted :
  exists h pred, let t := t_run [0%N] h in trim pred t <> spec_trim pred t.
Proof.
  exists [[97;0;114;49]; [98;0;114;50;0;53]]%N, (fun _ _ v => 3 <? v). cbv zeta.
  intros H. apply (f_equal t_cols) in H. vm_compute in H. discriminate.
Qed.

(* samples "a\0r1", "b\0r1"; column predicate "= a": the row keeps the sum 2 of the two cells *)
Theorem trim_refuted_colpred :
  exists h sel, let pred := fun c (_ : bytes) (_ : Z) => sel c in
                let t := t_run [0%N] h in trim pred t <> spec_trim pred t.
Proof.
  exists [[97;0;114;49]; [98;0;114;49]]%N, (fun c => beq c [97%N]). cbv zeta.
  intros H. apply (f_equal t_rows) in H. vm_compute in H. discriminate.
Qed.
