(* C10: laws of the effect monad of Model/Eff.v. *)
From Coq Require Import List NArith ZArith Bool Arith Lia.
From RareV Require Import Base.Hex Model.Eff.
Import ListNotations.

(* ---- meq is an equivalence, and everything respects it ---- *)
Lemma meq_refl {A} (m : M A) : meq m m.
Proof. induction m; constructor; auto. Qed.

Lemma meq_sym {A} (m m' : M A) : meq m m' -> meq m' m.
Proof. induction 1; constructor; auto. Qed.

Lemma meq_trans {A} (m1 m2 m3 : M A) : meq m1 m2 -> meq m2 m3 -> meq m1 m3.
Proof.
  intros H; revert m3; induction H; intros m3 H3; inversion H3; subst; constructor; auto.
Qed.

Lemma run_meq {A} (m m' : M A) : meq m m' -> forall c clk, run m c clk = run m' c clk.
Proof.
  induction 1; intros c clk; simpl; auto.
  - rewrite H0. reflexivity.
  - rewrite H0. reflexivity.
Qed.

Lemma static_meq {A} (m m' : M A) c0 : meq m m' -> static c0 m = static c0 m'.
Proof. intros H. unfold static. rewrite (run_meq _ _ H). reflexivity. Qed.

Lemma bind_meq {A B} (m m' : M A) (f f' : A -> M B) :
  meq m m' -> (forall a, meq (f a) (f' a)) -> meq (bind m f) (bind m' f').
Proof. induction 1; intros Hf; simpl; auto; constructor; auto. Qed.

Lemma bind_ret_r {A} (m : M A) : meq (bind m Ret) m.
Proof. induction m; simpl; constructor; auto. Qed.

Lemma bind_assoc {A B C} (m : M A) (f : A -> M B) (g : B -> M C) :
  meq (bind (bind m f) g) (bind m (fun a => bind (f a) g)).
Proof. induction m; simpl; try (constructor; auto). apply meq_refl. Qed.

(* what bind computes *)
Lemma run_bind {A B} (m : M A) (f : A -> M B) c clk :
  run (bind m f) c clk =
  let (a, n) := run m c clk in let (b, n') := run (f a) c clk in (b, (n + n')%nat).
Proof.
  induction m; simpl.
  - destruct (run (f a) c clk); reflexivity.
  - rewrite H. destruct (run (k (cm c i)) c clk) as [a n]. destruct (run (f a) c clk). reflexivity.
  - rewrite H. destruct (run (k (ck c s)) c clk) as [a n]. destruct (run (f a) c clk). reflexivity.
  - apply H.
Qed.

(* ---- the probe ---- *)
(* a stage that reads the clock only after a key look-up and is not seen looking anything up by the
   probe is a literal *)
Lemma static_is_ret {A} (m : M A) c0 v : kg m -> static c0 m = Some v -> m = Ret v.
Proof.
  unfold static. destruct 1; simpl.
  - intros H; inversion H; reflexivity.
  - destruct (run (k []) monitor c0); simpl; discriminate.
  - destruct (run (k []) monitor c0); simpl; discriminate.
Qed.

Theorem static_constant {A} (m : M A) c0 v :
  kg m -> static c0 m = Some v -> forall c clk, run m c clk = (v, O).
Proof. intros K H c clk. rewrite (static_is_ret _ _ _ K H). reflexivity. Qed.

(* without the guard the probe can be fooled: a stage reading the clock without touching the context *)
Lemma static_unguarded_frozen :
  exists (m : stage) c0 v, static c0 m = Some v /\ exists c clk, fst (run m c clk) <> v.
Proof.
  exists (Now (fun t => Ret [N.of_nat (Z.to_nat t)])), 1%Z, [1%N]. split; [reflexivity|].
  exists monitor, 2%Z. simpl. discriminate.
Qed.

(* a static stage has a static value in every clock reading, kg or not: zero look-ups *)
Lemma static_some_run {A} (m : M A) c0 v : static c0 m = Some v -> run m monitor c0 = (v, O).
Proof.
  unfold static. destruct (run m monitor c0) as [a n]. destruct n; simpl; [|discriminate].
  intros H; inversion H; reflexivity.
Qed.

(* ---- kg is preserved ---- *)
Lemma kg_bind {A B} (m : M A) (f : A -> M B) : kg m -> (forall a, kg (f a)) -> kg (bind m f).
Proof. induction 1; intros Hf; simpl; auto; constructor; auto. Qed.

Lemma kg_meq {A} (m m' : M A) : meq m m' -> kg m -> kg m'.
Proof.
  induction 1; intros K; inversion K; subst; constructor.
  intros x. apply H0. match goal with H : forall s, kg (k s) |- _ => apply H end.
Qed.

Lemma kg_subst {A} h (m : M A) : (forall i, kg (h i)) -> kg m -> kg (subst_match h m).
Proof.
  intros Hh. induction 1; simpl; try constructor.
  apply kg_bind; auto.
Qed.

Lemma kg_lazy_args (args : list stage) : Forall kg args -> forall i, kg (lazy_args args i).
Proof.
  intros F i. unfold lazy_args. destruct (i <? 0)%Z; [constructor|].
  revert F. generalize (Z.to_nat i) as n. induction args; intros n F; destruct n; simpl; try constructor.
  - inversion F; auto.
  - inversion F; subst. apply IHargs; auto.
Qed.

Lemma kg_with_args {A} (args : list stage) (m : M A) : Forall kg args -> kg m -> kg (with_args args m).
Proof. intros F K. apply kg_subst; auto. apply kg_lazy_args; auto. Qed.

Lemma kg_sub_ctx {A} v0 v1 (m : M A) : kg m -> kg (sub_ctx v0 v1 m).
Proof. intros K. apply kg_subst; auto. intros i. constructor. Qed.

Lemma kg_nth (args : list stage) i : Forall kg args -> kg (nth i args (Ret [])).
Proof.
  revert i. induction args; intros i F; destruct i; simpl; try constructor.
  - inversion F; auto.
  - inversion F; subst; auto.
Qed.

Lemma kg_interp mask (args : list stage) p : Forall kg args -> pkg p -> kg (interp mask args p).
Proof.
  intros F. induction 1; simpl; try constructor; auto.
  - destruct (mask i); [constructor|]. apply kg_bind; auto. apply kg_nth; auto.
  - destruct (mask i); [|constructor]. apply kg_bind; auto. apply kg_sub_ctx, kg_nth; auto.
Qed.

(* ---- sub-contexts ---- *)
Lemma subst_meq {A} h h' (m m' : M A) :
  (forall i, meq (h i) (h' i)) -> meq m m' -> meq (subst_match h m) (subst_match h' m').
Proof.
  intros Hh. induction 1; simpl; try (constructor; auto).
  apply bind_meq; auto.
Qed.

Lemma subst_bind {A B} h (m : M A) (f : A -> M B) :
  meq (subst_match h (bind m f)) (bind (subst_match h m) (fun a => subst_match h (f a))).
Proof.
  induction m; simpl; try (constructor; auto).
  - apply meq_refl.
  - eapply meq_trans; [|apply meq_sym, bind_assoc].
    apply bind_meq; [apply meq_refl|]. auto.
Qed.

(* a sub-context inside a sub-context: the inner one answers first, its answers are evaluated in the outer *)
Lemma subst_subst {A} h g (m : M A) :
  meq (subst_match h (subst_match g m)) (subst_match (fun i => subst_match h (g i)) m).
Proof.
  induction m; simpl; try (constructor; auto).
  eapply meq_trans; [apply subst_bind|]. apply bind_meq; [apply meq_refl|]. auto.
Qed.

(* no GetMatch left: an enclosing sub-context changes nothing *)
Lemma subst_sub_vals {A} h v0 v1 (m : M A) :
  meq (subst_match h (sub_ctx v0 v1 m)) (sub_ctx v0 v1 m).
Proof.
  unfold sub_ctx. eapply meq_trans; [apply subst_subst|]. apply subst_meq; [|apply meq_refl].
  intros i. apply meq_refl.
Qed.

Lemma subst_id {A} (m : M A) : meq (subst_match (fun i => GetMatch i Ret) m) m.
Proof. induction m; simpl; constructor; auto. Qed.

(* what a stage computes in a sub-context: its value in the context the sub-context presents *)
Lemma run_subst_fst {A} h (m : M A) c clk :
  fst (run (subst_match h m) c clk) =
  fst (run m (mkctx (fun i => fst (run (h i) c clk)) (ck c)) clk).
Proof.
  induction m; simpl; auto.
  - rewrite run_bind. destruct (run (h i) c clk) as [a n] eqn:E. simpl.
    specialize (H a).
    destruct (run (subst_match h (k a)) c clk) as [b n'] eqn:E2. simpl in *.
    destruct (run (k a) _ clk) eqn:E3. simpl in *. auto.
  - specialize (H (ck c s)).
    destruct (run (subst_match h (k (ck c s))) c clk). destruct (run (k (ck c s)) _ clk). simpl in *. auto.
Qed.

(* funcfile/stage.go: a user function's stage = the body evaluated in a lazy sub-context of the
   call's arguments, named keys resolved in the caller's context *)
Lemma run_with_args_fst {A} args (m : M A) c clk :
  fst (run (with_args args m) c clk) = fst (run m (lazy_ctx args c clk) clk).
Proof. apply run_subst_fst. Qed.

Lemma nth_meq (l l' : list stage) i : Forall2 meq l l' -> meq (nth i l (Ret [])) (nth i l' (Ret [])).
Proof.
  intros F. revert i. induction F; intros i; destruct i; simpl; auto; apply meq_refl.
Qed.

Lemma lazy_args_meq l l' i : Forall2 meq l l' -> meq (lazy_args l i) (lazy_args l' i).
Proof. intros F. unfold lazy_args. destruct (i <? 0)%Z; [apply meq_refl|]. apply nth_meq; auto. Qed.

Lemma with_args_meq {A} l l' (m m' : M A) :
  Forall2 meq l l' -> meq m m' -> meq (with_args l m) (with_args l' m').
Proof. intros F H. apply subst_meq; auto. intros i. apply lazy_args_meq; auto. Qed.

(* ---- helper bodies ---- *)
Lemma interp_meq mask l l' p : Forall2 meq l l' -> meq (interp mask l p) (interp mask l' p).
Proof.
  intros F. induction p; simpl; try assumption; try (constructor; auto); try apply meq_refl.
  - destruct (mask i); [apply meq_refl|]. apply bind_meq; auto. apply nth_meq; auto.
  - destruct (mask i); [|apply meq_refl]. apply bind_meq; auto.
    apply subst_meq; [intros; apply meq_refl|]. apply nth_meq; auto.
Qed.

(* a helper's stage inside a sub-context = the helper over its arguments put inside that sub-context,
   binder bodies untouched *)
Fixpoint masked_map (mask : nat -> bool) (f : stage -> stage) (j : nat) (l : list stage) : list stage :=
  match l with
  | [] => []
  | a :: r => (if mask j then a else f a) :: masked_map mask f (S j) r
  end.

Lemma nth_masked_map mask f l : forall j i,
  nth i (masked_map mask f j l) (Ret []) =
  if (i <? length l)%nat then (if mask (j + i)%nat then nth i l (Ret []) else f (nth i l (Ret [])))
  else Ret [].
Proof.
  induction l; intros j i; simpl.
  - destruct i; reflexivity.
  - destruct i; simpl.
    + rewrite Nat.add_0_r. reflexivity.
    + rewrite IHl. replace (S j + i)%nat with (j + S i)%nat by lia. reflexivity.
Qed.

Lemma interp_subst h mask l p : ntm p ->
  meq (subst_match h (interp mask l p)) (interp mask (masked_map mask (subst_match h) 0 l) p).
Proof.
  induction 1; simpl; try assumption; try (constructor; auto); try apply meq_refl.
  - destruct (mask i) eqn:Em; [apply meq_refl|].
    eapply meq_trans; [apply subst_bind|]. apply bind_meq; auto.
    rewrite nth_masked_map. simpl. rewrite Em.
    destruct (i <? length l)%nat eqn:El; [apply meq_refl|].
    rewrite nth_overflow by (apply Nat.ltb_ge; auto). apply meq_refl.
  - destruct (mask i) eqn:Em; [|apply meq_refl].
    eapply meq_trans; [apply subst_bind|]. apply bind_meq; auto.
    rewrite nth_masked_map. simpl. rewrite Em.
    eapply meq_trans; [apply subst_sub_vals|].
    destruct (i <? length l)%nat eqn:El; [apply meq_refl|].
    rewrite nth_overflow by (apply Nat.ltb_ge; auto). apply meq_refl.
Qed.
