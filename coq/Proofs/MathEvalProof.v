(* C19 — proofs about evaluation, simplification and Compile (Model/MathEval.v), instantiating the
   generic parser theorems with the regenerated tables of Gen/GenMathOps.v. *)
From Coq Require Import List Arith Lia Bool NArith ZArith.
From RareV Require Import Base.Hex Base.Num Base.Res Gen.GenMathOps
     Model.MathParse Model.MathTok Model.MathEval Proofs.MathParseProof Proofs.MathRelProof.
Import ListNotations.

(* ---------------------------------------------------------------- facts about the regenerated tables *)
Lemma bmem_In x l : bmem x l = true -> In x l.
Proof.
  induction l as [|y l IH]; cbn; [discriminate|]. intros H. apply orb_true_iff in H as [H|H].
  - left. symmetry. now apply bytes_eqb_eq.
  - right. auto.
Qed.

Definition count_levels (o : bytes) : nat := length (filter (bmem o) orderOfOps).

(* every key of ops sits in exactly one level of orderOfOps, every entry of orderOfOps is a key of ops,
   and the operator of implied multiplication is one of them *)
Definition prec_table_wf_b : bool :=
  forallb (fun o => Nat.eqb (count_levels o) 1) binOpKeys &&
  forallb (forallb is_binop) orderOfOps &&
  is_binop MUL.
Lemma prec_table_wf_proof : prec_table_wf_b = true.
Proof. vm_compute. reflexivity. Qed.

Notation in_tblM := (in_tbl bytes bytes_eqb orderOfOps).

Lemma ops_have_level : forall o, is_binop o = true -> in_tblM o.
Proof.
  intros o H. apply bmem_In in H.
  assert (F : forallb (fun k => lvl bytes bytes_eqb orderOfOps k <? length orderOfOps) binOpKeys = true)
    by (vm_compute; reflexivity).
  rewrite forallb_forall in F. specialize (F _ H). apply Nat.ltb_lt in F. exact F.
Qed.
Lemma mul_has_level : in_tblM MUL.
Proof. unfold in_tbl. apply Nat.ltb_lt. vm_compute. reflexivity. Qed.

(* ^ above * / % above + - above comparisons above && || *)
Definition lv (s : list N) : nat := mlvl s.
Definition levels_b : bool :=
  let pow := lv [94%N] in
  let mul := lv [42%N] in let add := lv [43%N] in let cmp := lv [60%N] in let land := lv [38%N;38%N] in
  (pow <? mul) && (mul <? add) && (add <? cmp) && (cmp <? land) &&
  Nat.eqb (lv [47%N]) mul && Nat.eqb (lv [37%N]) mul &&
  Nat.eqb (lv [45%N]) add &&
  forallb (fun o => Nat.eqb (lv o) cmp) [[61%N;61%N]; [60%N;61%N]; [62%N;61%N]; [62%N]] &&
  Nat.eqb (lv [124%N;124%N]) land &&
  forallb (fun o => lv o <? length orderOfOps) [[94%N]; [42%N]; [43%N]; [60%N]; [38%N;38%N]].
Lemma levels_proof : levels_b = true.
Proof. vm_compute. reflexivity. Qed.

(* ---------------------------------------------------------------- parser theorems at the instance *)
Notation inorderM := (inorder atom bytes bytes).
Notation ops_inM := (ops_in atom bytes bytes bytes_eqb orderOfOps is_binop).

Lemma parse_tokens_ok rep ts t : parse_tokens rep ts = OOk t -> mparse_top rep ts = POk t [].
Proof.
  unfold parse_tokens. destruct (mparse_top rep ts) as [t0 [|x r]| | |]; try discriminate. intros H; inversion H; reflexivity.
Qed.

Lemma parse_tokens_sound rep ts t : parse_tokens rep ts = OOk t -> inorderM t = ts /\ mwp t /\ ops_inM t.
Proof.
  intros H. apply parse_tokens_ok in H. unfold mparse_top, parse_top in H.
  destruct (parse_sound _ _ _ _ _ _ _ _ _ _ _ H) as [Hi Hw].
  destruct (ops_sound atom bytes bytes bytes_eqb orderOfOps is_binop MUL rep mul_has_level (fuel_for atom bytes bytes ts)) as (Op & _ & _).
  repeat split; auto. eapply Op; eauto.
Qed.

Lemma parse_tokens_complete rep t : mwp t -> ops_inM t -> parse_tokens rep (inorderM t) = OOk t.
Proof.
  intros Hw Ho. pose proof (parse_complete atom bytes bytes bytes_eqb orderOfOps is_binop MUL rep t Hw Ho) as P.
  unfold parse_tokens, mparse_top, parse_top, fuel_for.
  pose proof (cost_le atom bytes bytes t) as Hc.
  destruct (mono_le atom bytes bytes bytes_eqb orderOfOps is_binop MUL rep
              (S (cost atom bytes bytes t)) (4 * tsize atom bytes bytes (inorderM t) + 3)) as (Mp & _ & _); [lia|].
  rewrite (Mp _ _ _ _ P). reflexivity.
Qed.

Lemma parse_tokens_unique t1 t2 : mwp t1 -> mwp t2 -> ops_inM t1 -> ops_inM t2 -> inorderM t1 = inorderM t2 -> t1 = t2.
Proof. intros; eapply (wp_unique atom bytes bytes bytes_eqb orderOfOps is_binop MUL true); eauto. Qed.

Lemma parse_tokens_no_fuel rep ts : parse_tokens rep ts <> OFuel.
Proof.
  unfold parse_tokens, mparse_top, parse_top, fuel_for.
  destruct (fuel_enough atom bytes bytes bytes_eqb orderOfOps is_binop MUL rep (4 * tsize atom bytes bytes ts + 3)) as (Fp & _ & _).
  specialize (Fp None ts). destruct (parse _ _ _ _ _ _ _ _ _ _ _) as [t0 [|x r]| | |]; try discriminate.
  exfalso. apply Fp; [lia|reflexivity].
Qed.

Lemma parse_tokens_no_panic ts : parse_tokens true ts <> OPanic.
Proof.
  unfold parse_tokens, mparse_top, parse_top.
  destruct (no_panic atom bytes bytes bytes_eqb orderOfOps is_binop MUL true eq_refl ops_have_level mul_has_level
                     (fuel_for atom bytes bytes ts)) as (Np & _ & _).
  specialize (Np None ts). destruct (parse _ _ _ _ _ _ _ _ _ _ _) as [t0 [|x r]| | |]; try discriminate.
  exfalso. apply Np; reflexivity.
Qed.

(* the code as it stands (getNextExpr not repaired) panics on a lone unary operator *)
Lemma parse_tokens_unrepaired_panics : parse_tokens false [TMod [45%N]] = OPanic.
Proof. vm_compute. reflexivity. Qed.

(* rejected token lists: empty, dangling operator at either end, trailing unary operator *)
Lemma rejects_empty rep : parse_tokens rep [] = OErr.
Proof. reflexivity. Qed.

Lemma not_ok_is_err ts : (forall t, parse_tokens true ts <> OOk t) -> parse_tokens true ts = OErr.
Proof.
  intros H. pose proof (parse_tokens_no_fuel true ts). pose proof (parse_tokens_no_panic ts).
  destruct (parse_tokens true ts) as [t| | |]; try reflexivity; try contradiction. exfalso. eapply H; reflexivity.
Qed.

Lemma rejects_trailing_op pre o : parse_tokens true (pre ++ [TOp o]) = OErr.
Proof.
  apply not_ok_is_err. intros t H. apply parse_tokens_sound in H. destruct H as (Hi & _).
  eapply inorder_last_not_op; eauto.
Qed.
Lemma rejects_trailing_mod pre m : parse_tokens true (pre ++ [TMod m]) = OErr.
Proof.
  apply not_ok_is_err. intros t H. apply parse_tokens_sound in H. destruct H as (Hi & _).
  eapply inorder_last_not_mod; eauto.
Qed.
Lemma rejects_leading_op o rest : parse_tokens true (TOp o :: rest) = OErr.
Proof.
  apply not_ok_is_err. intros t H. apply parse_tokens_sound in H. destruct H as (Hi & _).
  eapply inorder_first_not_op; eauto.
Qed.

(* ---------------------------------------------------------------- evaluation *)
Section EvalProofs.
Variable V : Type.
Variables vadd vsub vmul vdiv vpow : V -> V -> V.
Variables vlt vle vgt vge veq : V -> V -> bool.
Variable vtruthy : V -> bool.
Variables vone vzero vnan : V.
Variable to_int : V -> Z.
Variable of_int : Z -> V.
Variable unop : bytes -> V -> V.
Variable cval : const -> V.
Variable rep_ops : bool.

Notation ctx := (ctx V).
Notation expr := (expr V).
Notation binop := (binop V vadd vsub vmul vdiv vpow vlt vle vgt vge veq vtruthy vone vzero vnan to_int of_int rep_ops).
Notation unop_r := (unop_r V unop).
Notation meval := (meval V vadd vsub vmul vdiv vpow vlt vle vgt vge veq vtruthy vone vzero vnan to_int of_int unop rep_ops).
Notation aeval := (aeval V vadd vsub vmul vdiv vpow vlt vle vgt vge veq vtruthy vone vzero vnan to_int of_int unop cval rep_ops).
Notation simplify := (simplify V vadd vsub vmul vdiv vpow vlt vle vgt vge veq vtruthy vone vzero vnan to_int of_int unop rep_ops).
Notation to_expr := (to_expr V vadd vsub vmul vdiv vpow vlt vle vgt vge veq vtruthy vone vzero vnan to_int of_int unop cval rep_ops).
Notation compile_tokens := (compile_tokens V vadd vsub vmul vdiv vpow vlt vle vgt vge veq vtruthy vone vzero vnan to_int of_int unop cval rep_ops).
Notation compile := (compile V vadd vsub vmul vdiv vpow vlt vle vgt vge veq vtruthy vone vzero vnan to_int of_int unop cval rep_ops).
Notation ctx0 := (ctx0 V vzero).
Notation aval := (aval V cval).
Notation hits := (hits V).

(* an expression that never asks the context has the same value under every context *)
Lemma hits0_eval e : hits e = 0 -> forall c c', meval c e = meval c' e.
Proof.
  induction e as [v|n|i|m x IH|o l IHl r IHr]; cbn [MathEval.hits MathEval.meval]; intros H c c'; try discriminate; try reflexivity.
  - rewrite (IH H c c'). reflexivity.
  - assert (hits l = 0 /\ hits r = 0) as [Hl Hr] by lia.
    rewrite (IHl Hl c c'), (IHr Hr c c'). reflexivity.
Qed.

(* simplify.go is invisible *)
Lemma simplify_sound e e' : simplify e = Ok e' -> forall c, meval c e' = meval c e.
Proof.
  unfold MathEval.simplify. destruct (meval ctx0 e) as [v|] eqn:E; cbn [rbind]; [|discriminate].
  intros H c. inversion H; subst. destruct (Nat.eqb (hits e) 0) eqn:Eh; [|reflexivity].
  apply Nat.eqb_eq in Eh. cbn [MathEval.meval]. rewrite (hits0_eval e Eh c ctx0). symmetry. exact E.
Qed.

(* simplify itself fails only if the probe evaluation panics *)
Lemma simplify_panic e : simplify e = Panic -> meval ctx0 e = Panic.
Proof. unfold MathEval.simplify. destruct (meval ctx0 e); cbn [rbind]; [discriminate|reflexivity]. Qed.

(* the compiled expression has the value of the syntax tree *)
Lemma to_expr_sound t : forall e, to_expr t = Ok e -> forall c, meval c e = aeval c t.
Proof.
  induction t as [a | m x IH | o imp l IHl r IHr | x IH]; cbn [MathEval.to_expr MathEval.aeval]; intros e H c.
  - inversion H; subst. destruct a; reflexivity.
  - destruct (to_expr x) as [ex|] eqn:Ex; cbn [rbind] in H; [|discriminate]. inversion H; subst.
    cbn [MathEval.meval]. rewrite (IH _ eq_refl c). reflexivity.
  - destruct (to_expr l) as [el|] eqn:El; cbn [rbind] in H; [|discriminate].
    destruct (to_expr r) as [er|] eqn:Er; cbn [rbind] in H; [|discriminate].
    destruct (simplify el) as [sl|] eqn:Sl; cbn [rbind] in H; [|discriminate].
    destruct (simplify er) as [sr|] eqn:Sr; cbn [rbind] in H; [|discriminate].
    inversion H; subst. cbn [MathEval.meval].
    rewrite (simplify_sound _ _ Sl c), (simplify_sound _ _ Sr c), (IHl _ eq_refl c), (IHr _ eq_refl c). reflexivity.
  - destruct (to_expr x) as [ex|] eqn:Ex; cbn [rbind] in H; [|discriminate].
    rewrite (simplify_sound _ _ H c). apply IH. reflexivity.
Qed.

(* Compile: the value of a compiled formula is the value of its parse under the order of operations *)
Lemma compile_tokens_sem rep ts e : compile_tokens rep ts = OOk e ->
  exists t, parse_tokens rep ts = OOk t /\ inorderM t = ts /\ mwp t /\ forall c, meval c e = aeval c t.
Proof.
  unfold MathEval.compile_tokens. destruct (parse_tokens rep ts) as [t| | |] eqn:P; cbn [obind]; try discriminate.
  destruct (to_expr t) as [e0|] eqn:T; cbn [rbind lift]; [|discriminate].
  destruct (simplify e0) as [e1|] eqn:S; cbn [lift]; [|discriminate].
  intros H. inversion H; subst. exists t. destruct (parse_tokens_sound _ _ _ P) as (Hi & Hw & _).
  repeat split; auto. intros c. rewrite (simplify_sound _ _ S c). apply to_expr_sound. exact T.
Qed.

(* ---- constants and variables ---- *)
Section ConstVar.
Variable c : ctx.
Definition arel (a a' : atom) : Prop := aval c a = aval c a'.
Notation tokRc := (tokR atom bytes bytes arel).
Notation astRc := (astR atom bytes bytes arel).

Lemma aeval_rel t t' : astRc t t' -> aeval c t = aeval c t'.
Proof.
  induction 1 as [a a' Ha|m e e' He IH|o i l l' r r' Hl IHl Hr IHr|e e' He IH]; cbn [MathEval.aeval].
  - unfold arel in Ha. now rewrite Ha.
  - now rewrite IH.
  - now rewrite IHl, IHr.
  - exact IH.
Qed.

Lemma const_var rep ts ts' e e' : Forall2 tokRc ts ts' ->
  compile_tokens rep ts = OOk e -> compile_tokens rep ts' = OOk e' -> meval c e = meval c e'.
Proof.
  intros HR H H'. apply compile_tokens_sem in H as (t & P & _ & _ & Hv). apply compile_tokens_sem in H' as (t' & P' & _ & _ & Hv').
  rewrite Hv, Hv'. apply aeval_rel.
  apply parse_tokens_ok in P. apply parse_tokens_ok in P'.
  pose proof (natural_top atom bytes bytes bytes_eqb orderOfOps is_binop MUL rep arel ts ts' HR) as N.
  unfold mparse_top in P, P'. rewrite P, P' in N. exact (proj1 N).
Qed.

(* the two formulas are accepted or rejected together *)
Lemma const_var_accept rep ts ts' : Forall2 tokRc ts ts' ->
  (exists t, parse_tokens rep ts = OOk t) -> exists t', parse_tokens rep ts' = OOk t'.
Proof.
  intros HR [t P]. apply parse_tokens_ok in P.
  pose proof (natural_top atom bytes bytes bytes_eqb orderOfOps is_binop MUL rep arel ts ts' HR) as N.
  unfold mparse_top in P. rewrite P in N. unfold parse_tokens, mparse_top.
  destruct (parse_top _ _ _ _ _ _ _ _ ts') as [t' r'| | |]; simpl in N; try contradiction.
  destruct N as [_ Hr]. inversion Hr; subst. eauto.
Qed.
End ConstVar.

(* ---- totality of evaluation with the repaired integer operators ---- *)
Lemma binop_total o l r : rep_ops = true -> is_binop o = true -> binop o l r <> Panic.
Proof.
  intros Hr Ho. unfold MathEval.binop, int_fault. rewrite Hr.
  unfold is_binop, binOpKeys in Ho. cbn [bmem] in Ho.
  repeat match goal with
         | |- context [bytes_eqb o ?k] => destruct (bytes_eqb o k) eqn:?
         end; try discriminate;
  repeat match goal with |- context [if ?b then _ else _] => destruct b end; try discriminate.
  all: try (exfalso; cbn in Ho; discriminate).
Qed.

Fixpoint mods_ok_t (t : mast) : Prop :=
  match t with
  | Atom _ => True | Un m e => is_uniop m = true /\ mods_ok_t e
  | Bin _ _ l r => mods_ok_t l /\ mods_ok_t r | Grp e => mods_ok_t e
  end.
(* the operators of a tree are keys of ops (implied multiplications are "*") *)
Fixpoint binops_ok_t (t : mast) : Prop :=
  match t with
  | Atom _ => True | Un _ e => binops_ok_t e
  | Bin o _ l r => is_binop o = true /\ binops_ok_t l /\ binops_ok_t r | Grp e => binops_ok_t e
  end.

Lemma aeval_total t : rep_ops = true -> mods_ok_t t -> binops_ok_t t -> forall c, aeval c t <> Panic.
Proof.
  intros Hr. induction t as [a | m x IH | o imp l IHl r IHr | x IH]; cbn [mods_ok_t binops_ok_t MathEval.aeval]; intros Hm Hb c.
  - discriminate.
  - destruct Hm as [Hm Hx]. specialize (IH Hx Hb c). destruct (aeval c x); [|contradiction].
    cbn [rbind]. unfold MathEval.unop_r. rewrite Hm. discriminate.
  - destruct Hm as [Hl Hr']. destruct Hb as (Ho & Hbl & Hbr).
    specialize (IHl Hl Hbl c). specialize (IHr Hr' Hbr c).
    destruct (aeval c l); [|contradiction]. destruct (aeval c r); [|contradiction]. cbn [rbind].
    apply binop_total; assumption.
  - auto.
Qed.

Lemma simplify_total e : (forall c, meval c e <> Panic) -> simplify e <> Panic.
Proof. intros H E. apply simplify_panic in E. exact (H _ E). Qed.

Lemma to_expr_total t : rep_ops = true -> mods_ok_t t -> binops_ok_t t -> to_expr t <> Panic.
Proof.
  intros Hr. induction t as [a | m x IH | o imp l IHl r IHr | x IH]; cbn [mods_ok_t binops_ok_t MathEval.to_expr]; intros Hm Hb.
  - discriminate.
  - destruct Hm as [Hm Hx]. specialize (IH Hx Hb). destruct (to_expr x); [discriminate|contradiction].
  - destruct Hm as [Hl Hr']. destruct Hb as (Ho & Hbl & Hbr).
    specialize (IHl Hl Hbl). specialize (IHr Hr' Hbr).
    destruct (to_expr l) as [el|] eqn:El; [|contradiction]. destruct (to_expr r) as [er|] eqn:Er; [|contradiction].
    cbn [rbind].
    assert (Sl : simplify el <> Panic).
    { apply simplify_total. intros c. rewrite (to_expr_sound _ _ El c). now apply aeval_total. }
    assert (Sr : simplify er <> Panic).
    { apply simplify_total. intros c. rewrite (to_expr_sound _ _ Er c). now apply aeval_total. }
    destruct (simplify el); [|contradiction]. destruct (simplify er); [|contradiction]. discriminate.
  - specialize (IH Hm Hb). destruct (to_expr x) as [ex|] eqn:Ex; [|contradiction]. cbn [rbind].
    apply simplify_total. intros c. rewrite (to_expr_sound _ _ Ex c). now apply aeval_total.
Qed.

Lemma ops_in_binops t : mwp t -> ops_inM t -> binops_ok_t t.
Proof.
  induction t as [a | m x IH | o imp l IHl r IHr | x IH]; cbn; auto.
  - intros (_ & Hw) Ho. auto.
  - intros (Hwl & Hwr & _ & _ & Himp) (Hi & _ & Hl & Hr). repeat split; auto. destruct imp.
    + destruct (Himp eq_refl) as [-> _]. reflexivity.
    + auto.
Qed.

(* Compile never panics on tokens whose modifiers are keys of uniOps (the tokenizer emits no others) *)
Lemma compile_tokens_total ts : rep_ops = true ->
  (forall t, inorderM t = ts -> mods_ok_t t) -> compile_tokens true ts <> OPanic.
Proof.
  intros Hr Hm. unfold MathEval.compile_tokens.
  pose proof (parse_tokens_no_panic ts) as Np.
  destruct (parse_tokens true ts) as [t| | |] eqn:P; cbn [obind]; try discriminate; [|contradiction].
  destruct (parse_tokens_sound _ _ _ P) as (Hi & Hw & Ho).
  pose proof (ops_in_binops t Hw Ho) as Hb. pose proof (Hm t Hi) as Hmt.
  pose proof (to_expr_total t Hr Hmt Hb) as Te.
  destruct (to_expr t) as [e0|] eqn:T; [|contradiction]. cbn [rbind].
  assert (S : simplify e0 <> Panic).
  { apply simplify_total. intros c. rewrite (to_expr_sound _ _ T c). now apply aeval_total. }
  destruct (simplify e0); [discriminate|contradiction].
Qed.

(* ... and what it returns never panics in Eval *)
Lemma compiled_eval_total ts e : rep_ops = true ->
  (forall t, inorderM t = ts -> mods_ok_t t) -> compile_tokens true ts = OOk e -> forall c, meval c e <> Panic.
Proof.
  intros Hr Hm H c. apply compile_tokens_sem in H as (t & P & Hi & Hw & Hv). rewrite Hv.
  destruct (parse_tokens_sound _ _ _ P) as (_ & _ & Ho).
  apply aeval_total; auto. now apply ops_in_binops.
Qed.

(* the original operators do panic *)
Lemma binop_orig_panics l r : rep_ops = false -> to_int r = 0%Z -> binop [37%N] l r = Panic.
Proof. intros Hr Hz. unfold MathEval.binop, int_fault. cbn. rewrite Hz, Hr. reflexivity. Qed.

End EvalProofs.
