(* C10: the optimiser is sound; every modelled helper is a well-behaved constructor. *)
From Coq Require Import List NArith ZArith Bool Arith Lia.
From RareV Require Import Base.Hex Base.Res Base.Num Gen.GenC11 Model.Tmpl Model.Funcs Model.Eff Model.Optimize
                          Proofs.EffProof.
Import ListNotations.

(* ---- concatenation of stages ---- *)
Definition mapp (a b : stage) : stage := bind a (fun x => bind b (fun y => Ret (x ++ y))).

Lemma mconcat_cons s r : mconcat (s :: r) = mapp s (mconcat r).
Proof. reflexivity. Qed.

Lemma mapp_meq a a' b b' : meq a a' -> meq b b' -> meq (mapp a b) (mapp a' b').
Proof.
  intros Ha Hb. unfold mapp. apply bind_meq; auto. intros x. apply bind_meq; auto. intros; apply meq_refl.
Qed.

Lemma mapp_assoc a b c : meq (mapp (mapp a b) c) (mapp a (mapp b c)).
Proof.
  unfold mapp.
  eapply meq_trans; [apply bind_assoc|]. apply bind_meq; [apply meq_refl|]. intros x.
  eapply meq_trans; [apply bind_assoc|].
  eapply meq_trans; [|apply meq_sym, bind_assoc].
  apply bind_meq; [apply meq_refl|]. intros y. simpl.
  eapply meq_trans; [|apply meq_sym, bind_assoc].
  apply bind_meq; [apply meq_refl|]. intros z. simpl. rewrite app_assoc. apply meq_refl.
Qed.

Lemma mapp_nil_l m : meq (mapp (Ret []) m) m.
Proof. unfold mapp. simpl. apply bind_ret_r. Qed.

Lemma mapp_nil_r m : meq (mapp m (Ret [])) m.
Proof.
  unfold mapp. simpl. eapply meq_trans; [|apply bind_ret_r].
  apply bind_meq; [apply meq_refl|]. intros x. rewrite app_nil_r. apply meq_refl.
Qed.

Lemma kg_mapp a b : kg a -> kg b -> kg (mapp a b).
Proof. intros. unfold mapp. apply kg_bind; auto. intros. apply kg_bind; auto. intros; constructor. Qed.

Lemma kg_mconcat l : Forall kg l -> kg (mconcat l).
Proof. induction 1; simpl; [constructor|]. apply kg_mapp; auto. Qed.

Lemma mconcat_meq l l' : Forall2 meq l l' -> meq (mconcat l) (mconcat l').
Proof. induction 1; simpl; [apply meq_refl|]. apply mapp_meq; auto. Qed.

(* ---- CompiledKeyBuilder.optimize ---- *)
Lemma opt_loop_sound c0 l : Forall kg l -> forall sb,
  meq (mconcat (opt_loop c0 sb l)) (mapp (Ret sb) (mconcat l)).
Proof.
  induction 1 as [|s r Ks Kr IH]; intros sb.
  - simpl. destruct sb; simpl; apply meq_refl.
  - cbn [opt_loop]. destruct (static c0 s) as [v|] eqn:E.
    + pose proof (static_is_ret _ _ _ Ks E) as Es. subst s. eapply meq_trans; [apply IH|].
      change (mconcat (Ret v :: r)) with (mapp (Ret v) (mconcat r)).
      eapply meq_trans; [|apply (mapp_assoc (Ret sb) (Ret v) (mconcat r))].
      apply meq_refl.
    + assert (T : meq (mconcat (s :: opt_loop c0 [] r)) (mapp s (mconcat r))).
      { change (mconcat (s :: opt_loop c0 [] r)) with (mapp s (mconcat (opt_loop c0 [] r))).
        apply mapp_meq; [apply meq_refl|].
        eapply meq_trans; [apply IH|]. apply mapp_nil_l. }
      destruct sb as [|b sb'].
      * simpl flushb. simpl app. eapply meq_trans; [apply T|].
        apply meq_sym. change (mconcat (s :: r)) with (mapp s (mconcat r)). apply mapp_nil_l.
      * simpl flushb. change ([Ret (b :: sb')] ++ s :: opt_loop c0 [] r)
          with (Ret (b :: sb') :: s :: opt_loop c0 [] r).
        change (mconcat (Ret (b :: sb') :: s :: opt_loop c0 [] r))
          with (mapp (Ret (b :: sb')) (mconcat (s :: opt_loop c0 [] r))).
        apply mapp_meq; [apply meq_refl|]. apply T.
Qed.

(* build (optimize stages) = build stages, in every context and at every clock reading,
   including the number of look-ups *)
Theorem optimize_sound c0 l : Forall kg l -> meq (mconcat (optimize c0 l)) (mconcat l).
Proof. intros K. eapply meq_trans; [apply opt_loop_sound; auto|]. apply mapp_nil_l. Qed.

Lemma opt_loop_kg c0 l : Forall kg l -> forall sb, Forall kg (opt_loop c0 sb l).
Proof.
  induction 1; intros sb; simpl.
  - destruct sb; repeat constructor.
  - destruct (static c0 x); auto. apply Forall_app. split.
    + destruct sb; repeat constructor.
    + constructor; auto.
Qed.

(* ---- constructors ---- *)
Definition ctor_good (f : ctor) : Prop :=
  (forall l l', Forall2 meq l l' -> meq (f l) (f l')) /\ (forall l, Forall kg l -> kg (f l)).
Definition env_good (c0 : Z) (E : env) : Prop :=
  forall f d, lookup E f = Some d -> ctor_good (ctor_of_def c0 d).

Lemma map_static_meq c0 (l l' : list stage) : Forall2 meq l l' -> map (static c0) l = map (static c0) l'.
Proof. induction 1; simpl; auto. rewrite (static_meq _ _ c0 H), IHForall2. reflexivity. Qed.

Lemma helper_good c0 h : (forall v, pkg (h_body h c0 v)) -> ctor_good (ctor_of c0 h).
Proof.
  intros P. split.
  - intros l l' F. unfold ctor_of. rewrite (map_static_meq c0 _ _ F). apply interp_meq; auto.
  - intros l F. unfold ctor_of. apply kg_interp; auto.
Qed.

Lemma ufun_good body : kg body -> ctor_good (ufun body).
Proof.
  intros K. split.
  - intros l l' F. apply with_args_meq; auto. apply meq_refl.
  - intros l F. apply kg_with_args; auto.
Qed.

Lemma env_good_cons c0 E f d : ctor_good (ctor_of_def c0 d) -> env_good c0 E -> env_good c0 ((f, d) :: E).
Proof.
  intros G GE g d'. unfold lookup. simpl. destruct (bytes_eqb f g).
  - intros H; inversion H; subst; auto.
  - apply GE.
Qed.

(* ---- the parse tree: induction through the argument lists ---- *)
Section PieceInd.
  Variable P : piece -> Prop.
  Hypothesis Hlit : forall s, P (PLit s).
  Hypothesis Hmatch : forall i, P (PMatch i).
  Hypothesis Hkey : forall k, P (PKey k).
  Hypothesis Hcall : forall f args, Forall (Forall P) args -> P (PCall f args).
  Fixpoint piece_ind2 (p : piece) : P p :=
    match p with
    | PLit s => Hlit s
    | PMatch i => Hmatch i
    | PKey k => Hkey k
    | PCall f args =>
        Hcall f args
          ((fix go (l : list tmpl) : Forall (Forall P) l :=
              match l with
              | [] => Forall_nil _
              | a :: r => Forall_cons a
                            ((fix go2 (t : tmpl) : Forall P t :=
                                match t with
                                | [] => Forall_nil _
                                | q :: t' => Forall_cons q (piece_ind2 q) (go2 t')
                                end) a) (go r)
              end) args)
    end.
End PieceInd.

Section Sound.
  Variable c0 : Z.
  Variable E : env.
  Hypothesis GE : env_good c0 E.

  Definition piece_ok (p : piece) : Prop :=
    meq (piece_stage true c0 E p) (piece_stage false c0 E p)
    /\ kg (piece_stage true c0 E p) /\ kg (piece_stage false c0 E p).

  Lemma finish_kg o l : Forall kg l -> Forall kg (finish o c0 l).
  Proof. intros K. destruct o; simpl; auto. apply opt_loop_kg; auto. Qed.

  Lemma finish_sound l : Forall kg l -> meq (mconcat (finish true c0 l)) (mconcat (finish false c0 l)).
  Proof. intros K. simpl. apply optimize_sound; auto. Qed.

  Lemma seq_ok (t : tmpl) : Forall piece_ok t ->
    Forall2 meq (map (piece_stage true c0 E) t) (map (piece_stage false c0 E) t)
    /\ Forall kg (map (piece_stage true c0 E) t) /\ Forall kg (map (piece_stage false c0 E) t).
  Proof.
    induction 1 as [|p r [Hm [K1 K2]] _ [IH1 [IH2 IH3]]]; simpl; repeat split; constructor; auto.
  Qed.

  Lemma arg_ok (a : tmpl) : Forall piece_ok a ->
    meq (arg_stage true c0 E a) (arg_stage false c0 E a)
    /\ kg (arg_stage true c0 E a) /\ kg (arg_stage false c0 E a).
  Proof.
    intros F. destruct (seq_ok a F) as [Hm [K1 K2]]. unfold arg_stage. repeat split.
    - eapply meq_trans; [apply finish_sound; auto|]. simpl. apply mconcat_meq; auto.
    - apply kg_mconcat, finish_kg; auto.
    - apply kg_mconcat, finish_kg; auto.
  Qed.

  Lemma args_ok (args : list tmpl) : Forall (Forall piece_ok) args ->
    Forall2 meq (map (arg_stage true c0 E) args) (map (arg_stage false c0 E) args)
    /\ Forall kg (map (arg_stage true c0 E) args) /\ Forall kg (map (arg_stage false c0 E) args).
  Proof.
    induction 1 as [|a r Ha _ [IH1 [IH2 IH3]]]; simpl; repeat split; try constructor; auto;
      destruct (arg_ok a Ha) as [? [? ?]]; auto.
  Qed.

  Lemma piece_stage_call o f args :
    piece_stage o c0 E (PCall f args) =
    match lookup E f with
    | Some d => ctor_of_def c0 d (map (arg_stage o c0 E) args)
    | None => Ret (err_lit f)
    end.
  Proof. reflexivity. Qed.

  Lemma piece_all_ok : forall p, piece_ok p.
  Proof.
    apply piece_ind2; intros.
    - repeat split; simpl; try constructor.
    - repeat split; simpl; constructor; intros; constructor.
    - repeat split; simpl; constructor; intros; constructor.
    - unfold piece_ok. rewrite !piece_stage_call.
      destruct (lookup E f) as [d|] eqn:L.
      + destruct (GE f d L) as [Gm Gk]. destruct (args_ok args H) as [Hm [K1 K2]].
        repeat split; auto.
      + repeat split; constructor.
  Qed.

  Lemma tmpl_all_ok (t : tmpl) : Forall piece_ok t.
  Proof. apply Forall_forall. intros p _. apply piece_all_ok. Qed.

  (* every compiled template reads the clock only after a key look-up *)
  Theorem eval_kg o t : kg (eval_tmpl o c0 E t).
  Proof.
    destruct (arg_ok t (tmpl_all_ok t)) as [_ [K1 K2]]. destruct o; auto.
  Qed.

  (* the whole template, through every level of nested compilation:
     optimising and plain compilation give the same stage *)
  Theorem eval_opt_sound t : meq (eval_tmpl true c0 E t) (eval_tmpl false c0 E t).
  Proof. destruct (arg_ok t (tmpl_all_ok t)) as [Hm _]. exact Hm. Qed.
End Sound.

(* ---- every modelled helper is well-behaved ---- *)
Section Wf.
  Variable W : prog -> Prop.
  Hypothesis Wdone : forall v, W (Done v).
  Hypothesis Weval : forall i k, (forall v, W (k v)) -> W (Eval i k).
  Hypothesis Wsub : forall i a b k, (forall v, W (k v)) -> W (EvalSub i a b k).
  Hypothesis Wfail : forall v, W (Fail v).
  Hypothesis Werr : forall p, W p -> W (Err p).
  Hypothesis Wlive : forall k, (forall t, W (k t)) -> W (Touch [] (Clock k)).

  Lemma W_eval_all is_ : forall k, (forall xs, W (k xs)) -> W (eval_all is_ k).
  Proof. induction is_; intros k Hk; simpl; auto. Qed.
  Lemma W_first_nonempty is_ : W (first_nonempty is_).
  Proof. induction is_; simpl; auto. apply Weval. intros v. destruct (nonemp v); auto. Qed.
  Lemma W_typed_int v i k : (forall o, W (k o)) -> W (typed_int v i k).
  Proof. intros Hk. unfold typed_int. destruct (vstat v i); auto. Qed.
  Lemma W_ifold_run f v is_ : forall acc, W (ifold_run f v is_ acc).
  Proof.
    induction is_; intros acc; simpl; auto. apply W_typed_int. intros [x|]; auto.
    destruct (iop f acc x); auto.
  Qed.
  Lemma W_switch_run pairs : forall i n, W (switch_run pairs i n).
  Proof.
    induction pairs; intros i n; simpl.
    - destruct (Nat.odd n); auto.
    - apply Weval. intros c. destruct (truthy c); auto.
  Qed.
  Lemma W_strcmp_run neg is_ : forall val, W (strcmp_run neg is_ val).
  Proof. induction is_; intros val; simpl; auto. Qed.
  Lemma W_and_run is_ : W (and_run is_).
  Proof. induction is_; simpl; auto. apply Weval. intros x. destruct (truthy x); auto. Qed.
  Lemma W_or_run is_ : W (or_run is_).
  Proof. induction is_; simpl; auto. apply Weval. intros x. destruct (truthy x); auto. Qed.
  Lemma W_map_sub i items : forall k, (forall ys, W (k ys)) -> W (map_sub i items k).
  Proof. induction items; intros k Hk; simpl; auto. Qed.
  Lemma W_filter_sub i items : forall kept, W (filter_sub i items kept).
  Proof. induction items; intros kept; simpl; auto. Qed.
  Lemma W_reduce_sub i items : forall memo, W (reduce_sub i items memo).
  Proof. induction items; intros memo; simpl; auto. Qed.
  Lemma W_for_run fuel : forall val idx first chunks, W (for_run fuel val idx first chunks).
  Proof.
    induction fuel; intros; simpl; auto. apply Wsub. intros c. destruct (truthy c); auto.
  Qed.

  Ltac wstep :=
    match goal with
    | |- W (argc _ _ _) => unfold argc
    | |- W (eval_all _ _) => apply W_eval_all; intros
    | |- W (first_nonempty _) => apply W_first_nonempty
    | |- W (typed_int _ _ _) => apply W_typed_int; intros
    | |- W (ifold_run _ _ _ _) => apply W_ifold_run
    | |- W (switch_run _ _ _) => apply W_switch_run
    | |- W (strcmp_run _ _ _) => apply W_strcmp_run
    | |- W (and_run _) => apply W_and_run
    | |- W (or_run _) => apply W_or_run
    | |- W (map_sub _ _ _) => apply W_map_sub; intros
    | |- W (filter_sub _ _ _) => apply W_filter_sub
    | |- W (reduce_sub _ _ _) => apply W_reduce_sub
    | |- W (for_run _ _ _ _ _) => apply W_for_run
    | |- W (Done _) => apply Wdone
    | |- W (Fail _) => apply Wfail
    | |- W (Err _) => apply Werr
    | |- W (Eval _ _) => apply Weval; intros
    | |- W (EvalSub _ _ _ _) => apply Wsub; intros
    | |- W (Touch [] (Clock _)) => apply Wlive; intros
    | |- W (if ?b then _ else _) => destruct b
    | |- W (match ?x with _ => _ end) => destruct x
    | |- W (let '(_, _) := ?x in _) => destruct x
    end.
  Ltac wtac := repeat wstep.

  Lemma W_stdlib : forall n h, In (n, h) stdlib -> forall c0 v, W (h_body h c0 v).
  Proof.
    intros n h HIn c0 v. unfold stdlib, stdlib_gen in HIn. simpl in HIn.
    repeat (destruct HIn as [HIn | HIn]; [inversion HIn; subst; clear HIn; cbn [h_body H] | ]);
      try contradiction;
      try (unfold p_coalesce, p_bucket, p_bucketrange, with_bucket_size, p_clamp, p_expbucket, p_isint, p_ifold,
             p_if, p_switch, p_unless, p_strcmp, p_not, p_and, p_or, p_len, p_like, p_prefix, p_suffix,
             p_substr, p_select, p_upper, p_lower, p_join, p_hi, p_csv, p_alen, p_amap, p_afilter, p_areduce,
             p_afor, p_ain, p_time, touch, eval1, eval2; wtac).
  Qed.
End Wf.

Lemma stdlib_pkg n h : In (n, h) stdlib -> forall c0 v, pkg (h_body h c0 v).
Proof. apply W_stdlib; intros; constructor; auto. Qed.
Lemma stdlib_ntm n h : In (n, h) stdlib -> forall c0 v, ntm (h_body h c0 v).
Proof. apply W_stdlib; intros; repeat constructor; auto. Qed.

Lemma lookup_std_env f d : lookup std_env f = Some d -> exists n h, d = FHelper h /\ In (n, h) stdlib.
Proof.
  unfold lookup, std_env, std_env_gen. fold stdlib.
  destruct (find _ _) as [p|] eqn:F; [|discriminate]. intros H; inversion H; subst.
  apply find_some in F. destruct F as [F _]. apply in_map_iff in F. destruct F as [[n h] [Ep Hin]].
  subst p. exists n, h. split; auto.
Qed.

Theorem std_env_good c0 : env_good c0 std_env.
Proof.
  intros f d L. destruct (lookup_std_env f d L) as [n [h [-> Hin]]].
  simpl. apply helper_good. intros v. eapply stdlib_pkg; eauto.
Qed.

