(* C08: proofs about Model/NoCrash.v -- totality of every helper with an output model, of
   expression trees over them, the guard statements behind the panic-site map, markers. *)
From Coq Require Import List NArith ZArith Bool String Lia.
From RareV Require Import Base.Hex Base.Res Base.Num Gen.GenC11 Gen.GenFuncs Gen.GenPanicSites
  Model.Ctx Model.Humanize Model.CsvItem Model.Funcs Model.Drawing Model.NoCrash
  Model.Tmpl Model.Splitter Model.MathTok Model.MathEval
  Proofs.NumProof Proofs.FuncsArith Proofs.FuncsStr Proofs.HumanizeProof Proofs.DrawingProof
  Proofs.TmplFuel Proofs.SplitterProof Proofs.MathEvalProof.
Import ListNotations.
Local Open Scope Z_scope.

(* ------------------------------------------------------------------ Model/Funcs.v never says Panic *)
Ltac head :=
  match goal with
  | |- Ok _ <> Panic => discriminate
  | |- ok _ <> Panic => discriminate
  | |- (match ?x with _ => _ end) <> Panic => destruct x
  | |- (if ?x then _ else _) <> Panic => destruct x
  | |- _ => progress cbv zeta
  end.

Lemma ifold_loop_total f : forall rest acc, ifold_loop f acc rest <> Panic.
Proof.
  induction rest as [|a r IH]; intros acc; cbn [ifold_loop]; [discriminate|].
  destruct (atoi (a_val a)); [|discriminate]. destruct (iop f acc z); [apply IH|discriminate].
Qed.

Lemma ifold_total f args : f_ifold f args <> Panic.
Proof.
  unfold f_ifold. destruct args as [|a0 [|a1 r]]; try discriminate.
  try (destruct (existsb const_bad_int _); [discriminate|]).
  destruct (atoi (a_val a0)); [apply ifold_loop_total|discriminate].
Qed.

Lemma with_bucket_total args k : with_bucket args k <> Panic.
Proof. unfold with_bucket. repeat head. Qed.

Lemma hf_total v s : s <> [] -> humanize_float v s <> Panic.
Proof. intros Hs. unfold humanize_float. destruct v; try discriminate. destruct s; [contradiction|]. cbv zeta. destruct (Nat.leb _ 3); discriminate. Qed.

Theorem scalar_total f args orc : (f = Hf -> orc <> []) -> Funcs.eval (f, args, orc) <> Panic.
Proof.
  intros Hh. unfold Funcs.eval.
  destruct f;
    try apply ifold_total;
    try (unfold f_bucket, f_bucketrange; apply with_bucket_total);
    try (unfold f_coalesce, f_clamp, f_expbucket, f_isint, f_isnum, f_ffold, f_fun, f_ceilfloor, f_round,
           f_if, f_switch, f_unless, f_strcmp, f_not, f_and, f_or, f_numcmp, f_len, f_str2, f_format,
           f_substr, f_select, f_case, f_join, f_fwd1, f_table, f_hi, f_unitize, f_percent, f_csv;
         repeat head; fail).
  (* Hf *)
  unfold f_hf. destruct args as [|a [|b r]]; try discriminate. destruct (a_f a); [|discriminate].
  apply hf_total. apply Hh. reflexivity.
Qed.

(* ------------------------------------------------------------------ the integer folds, left to right *)
Lemma ifold_ltr_total f args : f_ifold_ltr f args <> Panic.
Proof.
  unfold f_ifold_ltr. destruct args as [|a0 [|a1 r]]; try discriminate.
  destruct (atoi (a_val a0)); [apply ifold_loop_total|discriminate].
Qed.
Theorem scalar_eval_total f args orc : (f = Hf -> orc <> []) -> scalar_eval f args orc <> Panic.
Proof. intros H. unfold scalar_eval. destruct (is_ifold f); [apply ifold_ltr_total|apply scalar_total; exact H]. Qed.

(* the unfolding that states the order: operand 0, then operand 1 (type, then zero divisor), then the rest *)
Lemma ifold_ltr_order f a0 a1 rest :
  f_ifold_ltr f (a0 :: a1 :: rest) =
  match atoi (a_val a0) with
  | None => Ok ErrorNum
  | Some v0 =>
      match atoi (a_val a1) with
      | None => Ok ErrorNum
      | Some v1 => match iop f v0 v1 with
                   | Some x => ifold_loop f x rest
                   | None => Ok ErrorValue
                   end
      end
  end.
Proof. reflexivity. Qed.

(* agreement with Model/Funcs.v f_ifold (the order before 2e0440e) *)
Lemma ifold_ltr_agrees f args : existsb const_bad_int args = false -> f_ifold_ltr f args = f_ifold f args.
Proof.
  intros H. unfold f_ifold_ltr, f_ifold. destruct args as [|a0 [|a1 r]]; try reflexivity; rewrite ?H; reflexivity.
Qed.
Lemma const_bad_int_bad a : const_bad_int a = true -> atoi (a_val a) = None.
Proof. unfold const_bad_int. intros H. apply andb_true_iff in H as [_ H]. destruct (atoi (a_val a)); [discriminate|reflexivity]. Qed.
Lemma ifold_ltr_nodiv f args : f <> Divi -> f <> Modi -> f_ifold_ltr f args = f_ifold f args.
Proof.
  (* since the C11 model follows 2e0440e the two definitions coincide *)
  intros Hd Hm. unfold f_ifold_ltr, f_ifold. destruct args as [|a0 [|a1 r]]; reflexivity.
Qed.
Lemma ifold_ltr_bad_operand f args : (exists a, In a args /\ atoi (a_val a) = None) ->
  f_ifold_ltr f args = Ok ErrorNum \/ f_ifold_ltr f args = Ok ErrorValue \/ f_ifold_ltr f args = Ok ErrorArgCount.
Proof.
  intros [x [Hin Hx]]. unfold f_ifold_ltr. destruct args as [|a0 [|a1 r]]; try (right; right; reflexivity).
  destruct (atoi (a_val a0)) eqn:E0; [|left; reflexivity].
  destruct (ifold_loop_bad f (a1 :: r) z) as [H|H]; [|left; exact H|right; left; exact H].
  destruct Hin as [->|Hin]; [congruence|]. exists x. split; assumption.
Qed.

(* ------------------------------------------------------------------ eval_name *)
Theorem eval_name_total n args o r : oracle_ok n o -> eval_name n args o = Some r -> r <> Panic.
Proof.
  unfold eval_name, oracle_ok. intros Ho. destruct (classify n) as [k|]; [|discriminate].
  destruct k; cbn [eval_class]; intros H; inversion H; subst.
  - apply scalar_eval_total. intros ->. apply Ho. reflexivity.
  - apply repeat_total.
  - apply color_total.
  - apply bar_total.
Qed.

(* every helper with an output model evaluates to something *)
Lemma has_model_eval n args o : has_model n = true -> exists r, eval_name n args o = Some r.
Proof.
  unfold has_model, eval_name. destruct (classify n) as [k|]; [|discriminate].
  destruct k; try discriminate; intros _; eexists; reflexivity.
Qed.

(* ------------------------------------------------------------------ trees *)
Section TreeProof.
  Variable cflag : sx -> bool.
  Variable fparse : bytes -> option fval.
  Variable orc : string -> list bytes -> oracle.
  Variable other : string -> list bytes -> bytes.
  Variable c : tctx.
  Hypothesis Hc : tctx_ok c.

  Notation tev := (teval cflag fparse orc other c).
  Notation go := (fix go (l : list sx) : result (list bytes) :=
                    match l with [] => Ok [] | x :: r => y <- tev x ;; ys <- go r ;; Ok (y :: ys) end).
  Notation all := (fix all (l : list sx) : Prop :=
                     match l with [] => True | x :: r => tree_oracle_ok orc x /\ all r end).

  Fixpoint teval_total (e : sx) : tree_oracle_ok orc e -> tev e <> Panic.
  Proof.
    assert (L : forall l, all l -> go l <> Panic).
    { induction l as [|x r IH]; [discriminate|]. intros [Hx Hr].
      specialize (teval_total x Hx). specialize (IH Hr).
      change (go (x :: r)) with (y <- tev x ;; ys <- go r ;; Ok (y :: ys)).
      destruct (tev x); [|contradiction]. cbn [rbind]. destruct (go r); [discriminate|contradiction]. }
    destruct e as [s|i|k|ps|n args]; intros H.
    - discriminate.
    - apply Hc.
    - discriminate.
    - cbn [teval]. cbn [tree_oracle_ok] in H. specialize (L ps H). destruct (go ps); [discriminate|contradiction].
    - cbn [teval]. cbn [tree_oracle_ok] in H. destruct H as [Ho Ha]. specialize (L args Ha).
      destruct (go args) as [vs|]; [|contradiction]. cbn [rbind].
      destruct (eval_name n (mk_args cflag fparse args vs) (orc n vs)) eqn:E; [|discriminate].
      eapply eval_name_total; [apply Ho|exact E].
  Qed.
End TreeProof.

Lemma monitor_ok : tctx_ok monitor_ctx.
Proof. intros i. discriminate. Qed.

(* ------------------------------------------------------------------ guard statements *)
Lemma iop_r_ok f a b x : iop f a b = Some x -> iop_r f a b = Ok x.
Proof.
  unfold iop, iop_r, go_quot, go_rem. destruct f; intros H; try (rewrite H; reflexivity);
    destruct (b =? 0); try discriminate; inversion H; reflexivity.
Qed.

Lemma with_bucket_guard args k :
  with_bucket args k = with_bucket args (fun v s => if 0 <? s then k v s else []).
Proof.
  unfold with_bucket. destruct args as [|a [|b [|x r]]]; try reflexivity.
  destruct (static_int b) as [s|]; [|reflexivity].
  destruct (s <=? 0) eqn:E; [reflexivity|]. apply Z.leb_gt in E.
  destruct (atoi (a_val a)); [|reflexivity].
  replace (0 <? s) with true by (symmetry; apply Z.ltb_lt; lia). reflexivity.
Qed.

Lemma pow10_le_pos : forall fuel v p, 0 < p -> 0 < pow10_le fuel v p.
Proof.
  induction fuel as [|f IH]; intros v p Hp; cbn [pow10_le]; [assumption|].
  destruct (10 <=? v / p); [apply IH; lia|assumption].
Qed.

Lemma substr_slice_ok s l n :
  let '(lo, hi) := substr_window (Z.of_nat (List.length s)) l n in go_slice s lo hi = Ok (slice s lo hi).
Proof.
  unfold substr_window. cbv zeta.
  set (len := Z.of_nat (List.length s)).
  set (left := if l <? 0 then Z.max (l + len) 0 else Z.min l len).
  set (lg := Z.max n 0).
  assert (Hl : 0 <= left <= len).
  { unfold left, len. destruct (l <? 0) eqn:E; [apply Z.ltb_lt in E|apply Z.ltb_ge in E]; lia. }
  set (right := if lg <? len - left then left + lg else len).
  assert (Hr : left <= right <= len).
  { unfold right, lg. destruct (Z.max n 0 <? len - left) eqn:E; [apply Z.ltb_lt in E|apply Z.ltb_ge in E]; lia. }
  unfold go_slice, slice. fold len.
  replace ((0 <=? left) && (left <=? right) && (right <=? len)) with true; [reflexivity|].
  symmetry. rewrite !andb_true_iff, !Z.leb_le. lia.
Qed.

Lemma sel_loop_bounds : forall rest i idx cur ws inD q, (ws <= i)%nat ->
  match sel_loop rest i idx cur ws inD q with
  | (w, Some e) => (w <= e <= i + List.length rest)%nat
  | (w, None) => (w <= i + List.length rest)%nat
  end.
Proof.
  induction rest as [|ch r IH]; intros i idx cur ws inD q Hw; cbn [sel_loop].
  - destruct (cur =? idx); cbn [List.length]; lia.
  - cbn [List.length].
    destruct ((q && (ch =? 34)%N) || (negb q && is_sel_delim ch)).
    + destruct (cur =? idx); [lia|].
      specialize (IH (S i) idx cur ws true false). destruct (sel_loop r (S i) idx cur ws true false) as [w [e|]]; lia.
    + destruct (ch =? 34)%N.
      * specialize (IH (S i) idx cur ws inD (negb q)). destruct (sel_loop r (S i) idx cur ws inD (negb q)) as [w [e|]]; lia.
      * destruct inD.
        -- specialize (IH (S i) idx (cur + 1) i false q). destruct (sel_loop r (S i) idx (cur + 1) i false q) as [w [e|]]; lia.
        -- specialize (IH (S i) idx cur ws false q). destruct (sel_loop r (S i) idx cur ws false q) as [w [e|]]; lia.
Qed.

Lemma select_slices_ok s idx : select_field_r s idx = Ok (select_field s idx).
Proof.
  unfold select_field_r, select_field.
  pose proof (sel_loop_bounds s 0 idx 0 0 false false (le_n 0)) as B.
  destruct (sel_loop s 0 idx 0 0 false false) as [ws [e|]]; cbn [Nat.add] in B.
  - unfold go_slice.
    replace ((0 <=? Z.of_nat ws) && (Z.of_nat ws <=? Z.of_nat e) && (Z.of_nat e <=? Z.of_nat (List.length s))) with true.
    + rewrite Nat2Z.id. replace (Z.to_nat (Z.of_nat e - Z.of_nat ws)) with (e - ws)%nat by lia. reflexivity.
    + symmetry. rewrite !andb_true_iff, !Z.leb_le. lia.
  - unfold go_slice, blen.
    replace ((0 <=? Z.of_nat ws) && (Z.of_nat ws <=? Z.of_nat (List.length s)) && (Z.of_nat (List.length s) <=? Z.of_nat (List.length s))) with true.
    + rewrite Nat2Z.id. rewrite firstn_all2; [reflexivity|]. rewrite skipn_length. lia.
    + symmetry. rewrite !andb_true_iff, !Z.leb_le. lia.
Qed.

Lemma subctx_get_total v0 v1 idx : subctx_get true v0 v1 idx <> Panic.
Proof.
  unfold subctx_get. destruct ((0 <=? idx) && (idx <? 2)) eqn:E; [|discriminate].
  apply andb_true_iff in E as [E1 E2]. apply Z.leb_le in E1. apply Z.ltb_lt in E2.
  replace (idx <? 0) with false by (symmetry; apply Z.ltb_ge; lia).
  assert (idx = 0 \/ idx = 1) as [-> | ->] by lia; discriminate.
Qed.
Lemma subctx_get_value v0 v1 idx :
  subctx_get true v0 v1 idx = Ok (if idx =? 0 then v0 else if idx =? 1 then v1 else []).
Proof.
  unfold subctx_get. destruct ((0 <=? idx) && (idx <? 2)) eqn:E.
  - apply andb_true_iff in E as [E1 E2]. apply Z.leb_le in E1. apply Z.ltb_lt in E2.
    replace (idx <? 0) with false by (symmetry; apply Z.ltb_ge; lia).
    assert (idx = 0 \/ idx = 1) as [-> | ->] by lia; reflexivity.
  - apply andb_false_iff in E. destruct (idx =? 0) eqn:A; [apply Z.eqb_eq in A; subst; destruct E; discriminate|].
    destruct (idx =? 1) eqn:B; [apply Z.eqb_eq in B; subst; destruct E; discriminate|]. reflexivity.
Qed.
Lemma subctx_get_pinned_refuted v0 v1 idx : idx < 0 -> subctx_get false v0 v1 idx = Panic.
Proof.
  intros H. unfold subctx_get. replace (idx <? 2) with true by (symmetry; apply Z.ltb_lt; lia).
  replace (idx <? 0) with true by (symmetry; apply Z.ltb_lt; lia). reflexivity.
Qed.

(* the statement behind every guard name used in [covered] *)
Definition guard_stmt (g : guard) : Prop :=
  match g with
  | G_compile => forall fs s, Tmpl.compile fs s <> Panic
  | G_divi => forall f a b x, iop f a b = Some x -> iop_r f a b = Ok x
  | G_bucket => forall args k, with_bucket args k = with_bucket args (fun v s => if 0 <? s then k v s else [])
  | G_expbucket => forall fuel v p, 0 < p -> 0 < pow10_le fuel v p
  | G_substr => forall s l n,
      let '(lo, hi) := substr_window (Z.of_nat (List.length s)) l n in go_slice s lo hi = Ok (slice s lo hi)
  | G_select => forall s idx, select_field_r s idx = Ok (select_field s idx)
  | G_repeat => forall args, f_repeat true args <> Panic
  | G_bar => forall unicode blocks, bar_write unicode blocks <> Panic
  | G_wrap => forall enabled code s, color_wrap enabled code s <> Panic
  | G_subctx => forall v0 v1 idx, subctx_get true v0 v1 idx <> Panic
  | G_math_ops =>
      forall (V : Type) (vadd vsub vmul vdiv vpow : V -> V -> V) (vlt vle vgt vge veq : V -> V -> bool)
             (vtruthy : V -> bool) (vone vzero vnan : V) (to_int : V -> Z) (of_int : Z -> V) o l r,
        is_binop o = true ->
        binop V vadd vsub vmul vdiv vpow vlt vle vgt vge veq vtruthy vone vzero vnan to_int of_int true o l r <> Panic
  | G_math_parse => forall ts, parse_tokens true ts <> OPanic
  | G_unitize => forall n step delim units mant, 1 < step -> units <> [] ->
      ~ (- step < n < step) ->
      exists r, (r < List.length units)%nat /\ unitize n step delim units mant = mant ++ unit_suffix delim (nth r units [])
  | G_splitter => forall d s i, Splitter.index_of d s = Some i -> (i + List.length d <= List.length s)%nat
  end.

Theorem all_guards_hold : forall g, guard_stmt g.
Proof.
  destruct g; cbn [guard_stmt].
  - exact compile_total.
  - exact iop_r_ok.
  - exact with_bucket_guard.
  - exact pow10_le_pos.
  - exact substr_slice_ok.
  - exact select_slices_ok.
  - exact repeat_total.
  - exact bar_write_total.
  - exact color_wrap_total.
  - exact subctx_get_total.
  - intros. apply binop_total; [reflexivity|assumption].
  - exact parse_tokens_no_panic.
  - intros n step delim units mant H1 H2 H3.
    destruct (unitize_law_proof n step delim units mant H1 H2) as [_ L].
    destruct (L H3) as [r [Hr [He _]]]. exists r. split; assumption.
  - exact index_of_bound.
Qed.

(* ------------------------------------------------------------------ markers *)
Definition all_markers : list bytes :=
  [M_ErrorNum; M_ErrorParsing; M_ErrorArgCount; M_ErrorConst; M_ErrorEnum; M_ErrorArgName; M_ErrorEmpty; M_ErrorFile; M_ErrorValue].

Lemma markers_facts :
  (ErrorNum, ErrorArgCount, ErrorConst, ErrorValue) = (M_ErrorNum, M_ErrorArgCount, M_ErrorConst, M_ErrorValue) /\
  forallb (fun m => match atoi m with None => true | Some _ => false end) all_markers = true /\
  forallb (fun m => match m with [] => false | _ => true end) all_markers = true.
Proof. vm_compute. repeat split; reflexivity. Qed.

Lemma clamp_marker a lo hi l h : static_int lo = Some l -> static_int hi = Some h -> atoi (a_val a) = None ->
  f_clamp [a; lo; hi] = Ok ErrorNum.
Proof. intros H1 H2 H3. unfold f_clamp. rewrite H1, H2, H3. reflexivity. Qed.
Lemma expbucket_marker a : atoi (a_val a) = None -> f_expbucket [a] = Ok ErrorNum.
Proof. intros H. unfold f_expbucket. rewrite H. reflexivity. Qed.
Lemma hi_marker a : atoi (a_val a) = None -> f_hi [a] = Ok ErrorNum.
Proof. intros H. unfold f_hi. rewrite H. reflexivity. Qed.
Lemma select_marker s i : atoi (a_val i) = None -> f_select [s; i] = Ok ErrorNum.
Proof. intros H. unfold f_select. rewrite H. reflexivity. Qed.

(* ------------------------------------------------------------------ the boolean form *)
Lemma check_sound c : (forall n args o, c = CFlat n args o -> has_model n = true /\ oracle_ok n o) ->
  C08_check c (predict c) = true.
Proof.
  destruct c as [n args o|vs| |m idx|]; intros H; [|cbn [predict]; destruct (range_class vs) as [|[[q|q|]|[q|q|]|]]; reflexivity|reflexivity|reflexivity|reflexivity].
  destruct (H n args o eq_refl) as [Hm Ho]. cbn [predict].
  destruct (has_model_eval n args o Hm) as [r E]. rewrite E.
  pose proof (eval_name_total n args o r Ho E). destruct r; [reflexivity|contradiction].
Qed.

(* ------------------------------------------------------------------ C08_markers, in one statement *)
Definition markers_stmt : Prop :=
  (ErrorNum, ErrorArgCount, ErrorConst, ErrorValue) = (M_ErrorNum, M_ErrorArgCount, M_ErrorConst, M_ErrorValue) /\
  (forall m, In m all_markers -> atoi m = None /\ m <> []) /\
  (forall fixed c n, a_const c = true -> atoi (a_val n) = None -> f_repeat fixed [c; n] = Ok M_ErrorNum) /\
  (forall fixed u v mx ln b m l, static_int mx = Some m -> static_int ln = Some l -> 0 <= l <= bar_cap ->
     atoi (a_val v) = None -> f_bar fixed u [v; mx; ln] b = Ok M_ErrorNum) /\
  (forall f args, (exists a, In a args /\ atoi (a_val a) = None) ->
     f_ifold_ltr f args = Ok M_ErrorNum \/ f_ifold_ltr f args = Ok M_ErrorValue \/ f_ifold_ltr f args = Ok M_ErrorArgCount) /\
  (forall a b s, static_int b = Some s -> 0 < s -> atoi (a_val a) = None -> f_bucket [a; b] = Ok M_ErrorNum) /\
  (forall a lo hi l h, static_int lo = Some l -> static_int hi = Some h -> atoi (a_val a) = None ->
     f_clamp [a; lo; hi] = Ok M_ErrorNum) /\
  (forall a, atoi (a_val a) = None -> f_expbucket [a] = Ok M_ErrorNum) /\
  (forall a, atoi (a_val a) = None -> f_hi [a] = Ok M_ErrorNum) /\
  (forall s i, atoi (a_val i) = None -> f_select [s; i] = Ok M_ErrorNum) /\
  (forall s l n, a_val s <> [] -> atoi (a_val l) = None \/ atoi (a_val n) = None -> f_substr [s; l; n] = Ok M_ErrorNum).

Theorem markers_all : markers_stmt.
Proof.
  destruct markers_facts as [E [N NE]].
  split; [exact E|]. split.
  { intros m Hm. rewrite forallb_forall in N, NE. specialize (N m Hm). specialize (NE m Hm).
    split; [destruct (atoi m); [discriminate|reflexivity]|destruct m; [discriminate|discriminate]]. }
  split; [exact repeat_marker|]. split; [exact bar_marker|]. split; [exact ifold_ltr_bad_operand|].
  split; [intros a b s; exact (proj2 (proj2 (bucket_markers_proof a b)) s)|].
  split; [exact clamp_marker|]. split; [exact expbucket_marker|]. split; [exact hi_marker|].
  split; [exact select_marker|]. intros s l n. exact (proj2 (substr_markers_proof s l n)).
Qed.

(* ------------------------------------------------------------------ precision arguments (repair 7c30345) *)
(* a constant precision above maxPrecision gives <VALUE> whatever the other arguments and the oracle are:
   strconv.FormatFloat is never asked for more than maxPrecision decimals *)
Definition precision_stmt : Prop :=
  forall a p pv orc, static_int p = Some pv -> (maxPrecision < pv)%Z ->
    f_round [a; p] orc = Ok M_ErrorValue /\
    (forall u st d un, f_unitize u st d un [a; p] orc = Ok M_ErrorValue) /\
    f_percent [a; p] orc = Ok M_ErrorValue /\
    (forall mx, f_percent [a; p; mx] orc = Ok M_ErrorValue) /\
    (forall mn mx, f_percent [a; p; mn; mx] orc = Ok M_ErrorValue).
Theorem precision_marker : precision_stmt.
Proof.
  intros a p pv orc Hp Hlt.
  assert (E : precision_ok pv = false) by (unfold precision_ok; apply Z.leb_gt; exact Hlt).
  unfold f_round, f_unitize, f_percent. cbv zeta. rewrite Hp, E. repeat split; reflexivity.
Qed.

(* ------------------------------------------------------------------ @range never builds more than its cap *)
Lemma range_c_bounded stop incr : forall fuel i count acc l,
  Z.of_nat (List.length acc) = count -> (count <= maxRangeElements)%Z ->
  range_c fuel i stop incr count acc = Some l -> (Z.of_nat (List.length l) <= maxRangeElements)%Z.
Proof.
  induction fuel as [|f IH]; intros i count acc l Hl Hc; cbn [range_c]; [discriminate|].
  destruct (((incr >? 0) && (i <? stop)) || ((incr <? 0) && (i >? stop)))%Z.
  - destruct (maxRangeElements <? count + 1)%Z eqn:E; [discriminate|]. apply Z.ltb_ge in E.
    apply IH; [cbn [List.length]; lia|lia].
  - intros H. inversion H. rewrite rev_length. lia.
Qed.
Theorem range_bounded start stop incr l :
  range_capped start stop incr = Some l -> (Z.of_nat (List.length l) <= maxRangeElements)%Z.
Proof. unfold range_capped. apply range_c_bounded; [reflexivity|vm_compute; discriminate]. Qed.

(* ------------------------------------------------------------------ accumulator contexts *)
(* the repaired loops call Splitter.Next at most once per field of the sample, whatever index the template names *)
Theorem acc_rounds_bounded m idx : (0 <= acc_rounds m idx <= Z.of_nat (List.length (acc_fields m)))%Z.
Proof. unfold acc_rounds. lia. Qed.
Theorem acc_get_match_outside m idx :
  (idx < 0 \/ Z.of_nat (List.length (acc_fields m)) < idx)%Z -> acc_get_match m idx = [].
Proof.
  intros H. unfold acc_get_match, field_at.
  destruct (idx =? 0)%Z eqn:E; [apply Z.eqb_eq in E; lia|].
  replace ((idx - 1 <? 0) || (Z.of_nat (List.length (acc_fields m)) <=? idx - 1))%Z with true; [reflexivity|].
  symmetry. apply orb_true_iff. destruct H; [left; apply Z.ltb_lt; lia|right; apply Z.leb_le; lia].
Qed.
