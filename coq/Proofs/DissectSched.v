(* C12 — factory-level contract: instances created from one compiled pattern share no mutable
   state.  For ANY interleaving of calls over any number of instances, every call returns the
   offsets of its own line alone, and the returned slice still reads so after all calls. *)
From Coq Require Import List NArith ZArith Bool Arith Lia.
From RareV Require Import Base.Hex Base.Res Model.Dissect Model.IntPool Model.DissectRun
  Proofs.DissectFind Proofs.IntPoolProof Proofs.DissectRunProof.
Import ListNotations.

(* W instances = W pools; a schedule is a list of (instance, line) in the order the calls happen
   (any execution of goroutines that each own one instance is such a sequence of atomic calls,
   since a call touches only its own instance's pool and the immutable compiled pattern) *)
Fixpoint run_sched (d : dissect) (pools : list pool) (sched : list (nat * bytes))
  : result (list (nat * option slice * option (list Z)) * list pool) :=
  match sched with
  | [] => Ok ([], pools)
  | (k, l) :: r =>
      match nth_error pools k with
      | None => Panic
      | Some p =>
          match find_inst d p l with
          | Panic => Panic
          | Ok (osl, p') =>
              match run_sched d (upd pools k p') r with
              | Panic => Panic
              | Ok (xs, ps) => Ok ((k, osl, option_map (read (p_heap p')) osl) :: xs, ps)
              end
          end
      end
  end.

Definition instances (d : dissect) (w : nat) : list pool := repeat (create_instance d) w.

Definition dflt : pool := new_pool 0.
Definition good (d : dissect) (p : pool) : Prop := wf p /\ p_size p = group_slots d * pool_mult.
Definition ext (p p' : pool) : Prop :=
  forall sl0, retired p sl0 -> retired p' sl0 /\ read (p_heap p') sl0 = read (p_heap p) sl0.

Lemma ext_refl p : ext p p.
Proof. intros sl H. auto. Qed.
Lemma ext_trans p1 p2 p3 : ext p1 p2 -> ext p2 p3 -> ext p1 p3.
Proof.
  intros H1 H2 sl H. destruct (H1 _ H) as [A B]. destruct (H2 _ A) as [C D]. split; auto. congruence.
Qed.

Lemma Forall_upd {A} (P : A -> Prop) (l : list A) : forall k v, Forall P l -> P v -> Forall P (upd l k v).
Proof.
  induction l as [|x l IH]; intros [|k] v Hl Hv; cbn; auto; inversion Hl; subst; constructor; auto.
Qed.

Lemma run_sched_spec d : compiled d -> forall sched pools,
  Forall (good d) pools -> Forall (fun c => fst c < length pools) sched ->
  exists xs ps, run_sched d pools sched = Ok (xs, ps) /\
    length ps = length pools /\ Forall (good d) ps /\
    (forall j, ext (nth j pools dflt) (nth j ps dflt)) /\
    Forall2 (fun c x => fst (fst x) = fst c /\
                        entry_ok d (nth (fst c) ps dflt) (snd c) (snd (fst x), snd x)) sched xs.
Proof.
  intros Hc. induction sched as [|[k l] r IH]; intros pools Hg Hk.
  - exists [], pools. cbn. repeat split; auto; intros j; apply ext_refl.
  - inversion Hk as [|? ? Hk0 Hkr]; subst. cbn [fst] in Hk0. cbn [run_sched].
    destruct (nth_error pools k) as [p|] eqn:En; [|apply nth_error_None in En; lia].
    assert (Hp : good d p) by (eapply Forall_forall; [exact Hg|eapply nth_error_In; eauto]).
    destruct Hp as [Hwf Hsz].
    assert (Hnth : nth k pools dflt = p) by (apply nth_error_nth; auto).
    destruct (find_inst d p l) as [[osl p']|] eqn:Ef; [|exfalso; eapply find_inst_no_panic; eauto].
    destruct (find_inst_spec _ _ _ _ _ Hc Hwf Hsz Ef) as (Hwf' & Hsz' & Hext & He).
    assert (Hg' : Forall (good d) (upd pools k p')).
    { apply Forall_upd; auto. split; auto. congruence. }
    assert (Hkr' : Forall (fun c => fst c < length (upd pools k p')) r) by (rewrite upd_length; auto).
    destruct (IH _ Hg' Hkr') as (xs & ps & -> & Hlen & Hgps & Hexts & Hall).
    rewrite upd_length in Hlen.
    exists ((k, osl, option_map (read (p_heap p')) osl) :: xs), ps.
    split; [reflexivity|]. split; [auto|]. split; [auto|]. split.
    + intros j. specialize (Hexts j). destruct (Nat.eq_dec j k) as [->|Hne].
      * rewrite nth_upd_same in Hexts by auto. rewrite Hnth. eapply ext_trans; eauto.
      * rewrite nth_upd_other in Hexts by auto. exact Hexts.
    + constructor; auto. cbn [fst snd]. split; auto.
      specialize (Hexts k). rewrite nth_upd_same in Hexts by auto.
      eapply entry_ok_later; eauto.
Qed.

Lemma good_instances d w : Forall (good d) (instances d w).
Proof.
  unfold instances. induction w; cbn; constructor; auto.
  split; [apply wf_new|reflexivity].
Qed.

(* C12_instances_independent *)
Theorem instances_independent_proof d w sched :
  compiled d -> Forall (fun c => fst c < w) sched ->
  exists xs ps, run_sched d (instances d w) sched = Ok (xs, ps) /\
    Forall2 (fun c x =>
               fst (fst x) = fst c /\
               snd x = option_map (map Z.of_nat) (find d (snd c)) /\
               option_map (read (p_heap (nth (fst c) ps dflt))) (snd (fst x)) = snd x) sched xs.
Proof.
  intros Hc Hk.
  assert (Hk' : Forall (fun c => fst c < length (instances d w)) sched).
  { unfold instances. rewrite repeat_length. exact Hk. }
  destruct (run_sched_spec d Hc sched _ (good_instances d w) Hk') as (xs & ps & Hr & _ & _ & _ & Hall).
  exists xs, ps. split; auto. clear Hr Hk Hk'.
  induction Hall as [|c x sched xs [Hf He] _ IH]; constructor; auto.
  split; auto. unfold entry_ok in He. destruct x as [[k [sl|]] s]; cbn [fst snd option_map] in *.
  - destruct He as (_ & -> & Hrd). split; auto.
  - destruct He as [-> ->]. split; reflexivity.
Qed.
