From Coq Require Import List NArith ZArith Lia Bool Arith.
From RareV Require Import Base.Hex Model.Lines.
Import ListNotations.

(* ---------- list algebra ---------- *)
Lemma skipn_skipn {A} (n m : nat) (l : list A) : skipn n (skipn m l) = skipn (m + n) l.
Proof. revert l; induction m as [|m IH]; intros l; simpl; [reflexivity|]. destruct l; [now rewrite !skipn_nil | apply IH]. Qed.

Lemma firstn_plus {A} (n m : nat) (l : list A) : firstn (n + m) l = firstn n l ++ firstn m (skipn n l).
Proof. revert l; induction n as [|n IH]; intros l; simpl; [reflexivity|]. destruct l; simpl; [now rewrite firstn_nil | f_equal; apply IH]. Qed.

Lemma slice_app_mid (l : list byte) lo mid hi :
  lo <= mid -> mid <= hi -> slice l lo hi = slice l lo mid ++ slice l mid hi.
Proof.
  intros H1 H2. unfold slice.
  replace (hi - lo) with ((mid - lo) + (hi - mid)) by lia.
  rewrite firstn_plus. f_equal. rewrite skipn_skipn. f_equal. f_equal. lia.
Qed.

Lemma slice_nil (l : list byte) lo : slice l lo lo = [].
Proof. unfold slice. now rewrite Nat.sub_diag. Qed.

Lemma slice_length (l : list byte) lo hi : lo <= hi -> hi <= length l -> length (slice l lo hi) = hi - lo.
Proof. intros. unfold slice. rewrite firstn_length, skipn_length. lia. Qed.

Lemma slice_0 (l : list byte) n : slice l 0 n = firstn n l.
Proof. unfold slice. now rewrite Nat.sub_0_r. Qed.

(* write_at leaves the prefix alone and installs d *)
Lemma write_at_length (l d : list byte) pos : pos + length d <= length l -> length (write_at l pos d) = length l.
Proof. intros. unfold write_at. rewrite !app_length, firstn_length, skipn_length. lia. Qed.

Lemma write_at_firstn (l d : list byte) pos : pos <= length l -> firstn pos (write_at l pos d) = firstn pos l.
Proof.
  intros. unfold write_at. rewrite firstn_app, firstn_firstn, Nat.min_id, firstn_length.
  replace (pos - Nat.min pos (length l)) with 0 by lia. now rewrite firstn_O, app_nil_r.
Qed.

Lemma slice_below (l l' : list byte) lo hi pos : hi <= pos -> firstn pos l = firstn pos l' -> slice l lo hi = slice l' lo hi.
Proof.
  intros Hh He. unfold slice.
  assert (forall x : list byte, firstn (hi - lo) (skipn lo x) = firstn (hi - lo) (skipn lo (firstn pos x))) as E.
  { intros x. rewrite skipn_firstn_comm, firstn_firstn. f_equal. lia. }
  rewrite (E l), (E l'). now rewrite He.
Qed.

Lemma slice_write_at_below (l d : list byte) lo hi pos : hi <= pos -> pos <= length l ->
  slice (write_at l pos d) lo hi = slice l lo hi.
Proof. intros. apply slice_below with (pos := pos); [assumption|]. now apply write_at_firstn. Qed.

Lemma slice_write_at_new (l d : list byte) pos : pos + length d <= length l ->
  slice (write_at l pos d) pos (pos + length d) = d.
Proof.
  intros. unfold slice, write_at.
  rewrite skipn_app, firstn_length. replace (pos - Nat.min pos (length l)) with 0 by lia.
  rewrite skipn_O. rewrite (skipn_all2 (firstn pos l)) by (rewrite firstn_length; lia). simpl.
  replace (pos + length d - pos) with (length d) by lia.
  rewrite firstn_app, firstn_all, Nat.sub_diag, firstn_O. now rewrite app_nil_r.
Qed.

Lemma skipn_slice (c : list byte) lo hi k : k <= hi - lo -> skipn k (slice c lo hi) = slice c (lo + k) hi.
Proof.
  intros H. unfold slice. rewrite skipn_firstn_comm, skipn_skipn. f_equal. lia.
Qed.

Lemma firstn_slice (c : list byte) lo hi k : k <= hi - lo -> firstn k (slice c lo hi) = slice c lo (lo + k).
Proof.
  intros H. unfold slice. rewrite firstn_firstn. f_equal. lia.
Qed.

(* ---------- index_nl ---------- *)
Lemma index_nl_some (l : list byte) i : index_nl l = Some i ->
  i < length l /\ nth i l 0%N = NL /\ ~ In NL (firstn i l) /\ l = firstn i l ++ NL :: skipn (S i) l.
Proof.
  revert i; induction l as [|b r IH]; intros i H; simpl in H; [discriminate|].
  destruct (N.eqb_spec b NL) as [->|Hne].
  - inversion H; subst. simpl. repeat split; auto; lia.
  - destruct (index_nl r) as [j|] eqn:E; simpl in H; [|discriminate]. inversion H; subst.
    destruct (IH j eq_refl) as (H1 & H2 & H3 & H4). simpl. repeat split; auto; try lia.
    + intros [Hb|Hin]; [congruence | auto].
    + f_equal. exact H4.
Qed.

Lemma index_nl_none (l : list byte) : index_nl l = None -> ~ In NL l.
Proof.
  induction l as [|b r IH]; simpl; intros H; [tauto|].
  destruct (N.eqb_spec b NL); [discriminate|].
  destruct (index_nl r); simpl in H; [discriminate|]. intros [Hb|Hin]; [congruence | now apply IH].
Qed.

(* ---------- spec lemmas ---------- *)
Lemma spec_aux_nonl acc a : ~ In NL a ->
  lines_spec_aux acc a = match rev acc ++ a with [] => [] | x => [x] end.
Proof.
  revert acc; induction a as [|b r IH]; intros acc Hn; simpl.
  - rewrite app_nil_r. destruct acc; simpl; [reflexivity|]. destruct (rev acc ++ [b]) eqn:E; [now destruct (rev acc)|reflexivity].
  - destruct (N.eqb_spec b NL) as [->|Hne]; [exfalso; apply Hn; now left|].
    rewrite IH by (intros H; apply Hn; now right). simpl. now rewrite <- app_assoc.
Qed.

Lemma spec_aux_nl acc a r : ~ In NL a ->
  lines_spec_aux acc (a ++ NL :: r) = drop_cr (rev acc ++ a) :: lines_spec_aux [] r.
Proof.
  revert acc; induction a as [|b a IH]; intros acc Hn; simpl.
  - rewrite ?N.eqb_refl, app_nil_r. reflexivity.
  - destruct (N.eqb_spec b NL) as [->|Hne]; [exfalso; apply Hn; now left|].
    rewrite IH by (intros H; apply Hn; now right). simpl. now rewrite <- app_assoc.
Qed.

Lemma spec_nl a r : ~ In NL a -> lines_spec (a ++ NL :: r) = drop_cr a :: lines_spec r.
Proof. intros. unfold lines_spec. now rewrite spec_aux_nl. Qed.
Lemma spec_nonl a : ~ In NL a -> lines_spec a = match a with [] => [] | x => [x] end.
Proof. intros. unfold lines_spec. rewrite spec_aux_nonl by assumption. simpl. destruct a; reflexivity. Qed.

(* ---------- state facts ---------- *)
Definition W (s : st) := slice (cur s) (offset s) (end_ s).
Definition WF (s : st) := heap s <> [] /\ offset s <= end_ s /\ end_ s <= length (cur s).

Lemma nth_last {A} (l : list A) d : nth (length l - 1) l d = last l d.
Proof.
  induction l as [|a l IH]; [reflexivity|]. destruct l as [|b l]; [reflexivity|].
  simpl length in *. replace (S (S (length l)) - 1) with (S (length l)) by lia.
  change (nth (S (length l)) (a :: b :: l) d) with (nth (length l) (b :: l) d).
  replace (length l) with (S (length l) - 1) at 1 by lia. rewrite IH. reflexivity.
Qed.

Lemma read_tok_cur (s : st) lo hi : read_tok (heap s) (length (heap s) - 1, lo, hi) = slice (cur s) lo hi.
Proof. unfold read_tok, cur. now rewrite nth_last. Qed.

Lemma drop_cr_snoc (l : list byte) b : drop_cr (l ++ [b]) = if N.eqb b CR then l else l ++ [b].
Proof. unfold drop_cr. rewrite rev_app_distr. simpl. destruct (N.eqb b CR); [now rewrite rev_involutive|reflexivity]. Qed.

Lemma slice_snoc (c : list byte) lo hi : lo < hi -> hi <= length c ->
  slice c lo hi = slice c lo (hi - 1) ++ [nth (hi - 1) c 0%N].
Proof.
  intros H1 H2. rewrite (slice_app_mid c lo (hi - 1) hi) by lia. f_equal.
  unfold slice. replace (hi - (hi - 1)) with 1 by lia.
  assert (E : forall (k : nat) (x : list byte), k < length x -> firstn 1 (skipn k x) = [nth k x 0%N]).
  { induction k as [|k IH]; intros [|a x] Hl; simpl in *; try lia; [reflexivity|]. apply IH. lia. }
  apply E. lia.
Qed.

Lemma tok_dropcr_read (s : st) lo hi : lo <= hi -> hi <= length (cur s) ->
  read_tok (heap s) (tok_dropcr s lo hi) = drop_cr (slice (cur s) lo hi).
Proof.
  intros H1 H2. unfold tok_dropcr.
  destruct (Nat.ltb_spec lo hi) as [Hlt|Hge]; cbn [andb].
  - rewrite (slice_snoc (cur s) lo hi) by lia. rewrite drop_cr_snoc.
    destruct (N.eqb (nth (hi - 1) (cur s) 0%N) CR); rewrite read_tok_cur; [reflexivity|].
    now rewrite <- slice_snoc by lia.
  - rewrite read_tok_cur. replace hi with lo by lia. rewrite slice_nil. reflexivity.
Qed.

Lemma W_eq s s' o e : heap s' = heap s -> offset s' = o -> end_ s' = e -> W s' = slice (cur s) o e.
Proof. unfold W, cur. intros -> -> ->. reflexivity. Qed.

Definition step_ok (s s' : st) (r : option token) : Prop :=
  exists fut, del s' = del s ++ fut /\ WF s' /\
  match r with
  | Some t => exists line, ~ In NL line /\
        ((W s ++ fut = line ++ NL :: W s' /\ read_tok (heap s') t = drop_cr line)
         \/ (W s ++ fut = line /\ line <> [] /\ W s' = [] /\ eof s' = true /\ read_tok (heap s') t = line))
  | None => W s ++ fut = [] /\ eof s' = true /\ W s' = []
  end.

Lemma step_ok_compose s s2 s' r d : W s2 = W s ++ d -> del s2 = del s ++ d -> step_ok s2 s' r -> step_ok s s' r.
Proof.
  intros HW Hd (fut & H1 & H2 & H3). exists (d ++ fut). rewrite H1, Hd, <- app_assoc. split; [reflexivity|]. split; [assumption|].
  rewrite app_assoc, <- HW. exact H3.
Qed.

Lemma entry_ok s r s' : WF s -> entry s = Some (r, s') -> step_ok s s' r.
Proof.
  intros (Hh & Ho & He) H. unfold entry in H.
  destruct (Nat.ltb_spec (offset s) (end_ s)) as [Hlt|Hge].
  - destruct (index_nl (slice (cur s) (offset s) (end_ s))) as [eol|] eqn:E.
    + inversion H; subst; clear H. exists []. rewrite !app_nil_r. simpl.
      destruct (index_nl_some _ _ E) as (Hl & _ & Hn & Hsplit).
      rewrite slice_length in Hl by lia.
      split; [reflexivity|]. split; [unfold WF; simpl; repeat split; auto; lia|].
      exists (firstn eol (W s)). split; [exact Hn|]. left. split.
      * unfold W at 1. rewrite Hsplit at 1. f_equal. f_equal.
        rewrite (W_eq s _ (offset s + eol + 1) (end_ s)) by reflexivity.
        rewrite skipn_slice by lia. f_equal. lia.
      * change (heap {| heap := heap s; offset := offset s + eol + 1; end_ := end_ s; eof := eof s; nerr := nerr s;
                        bufSize := bufSize s; sc := sc s; stream := stream s; reads_after_err := reads_after_err s; del := del s |}) with (heap s).
        rewrite tok_dropcr_read by lia. f_equal.
        unfold W. rewrite firstn_slice by lia. reflexivity.
    + destruct (eof s) eqn:Ee; [|discriminate]. inversion H; subst; clear H. exists []. rewrite !app_nil_r. simpl.
      split; [reflexivity|]. split; [unfold WF; simpl; repeat split; auto; lia|].
      exists (W s). split; [now apply index_nl_none|]. right.
      split; [reflexivity|]. split.
      { intros Hnil. apply (f_equal (@length byte)) in Hnil. unfold W in Hnil. rewrite slice_length in Hnil by lia. simpl in Hnil. lia. }
      split. { rewrite (W_eq s _ (end_ s) (end_ s)) by reflexivity. apply slice_nil. }
      split. { reflexivity. }
      change (read_tok (heap s) (length (heap s) - 1, offset s, end_ s) = W s). now rewrite read_tok_cur.
  - destruct (eof s) eqn:Ee; [|discriminate]. inversion H; subst; clear H. exists []. rewrite !app_nil_r.
    assert (offset s' = end_ s') by lia.
    assert (W s' = []) by (unfold W; rewrite H; apply slice_nil).
    repeat split; auto.
Qed.

(* ---------- grow / do_read ---------- *)
Lemma cur_snoc h (b : list byte) : last (h ++ [b]) [] = b.
Proof. apply last_last. Qed.

Lemma grow_ok s : WF s ->
  WF (grow s) /\ W (grow s) = W s /\ del (grow s) = del s /\ eof (grow s) = eof s /\ sc (grow s) = sc s /\
  bufSize (grow s) = bufSize s.
Proof.
  intros (Hh & Ho & He). unfold grow.
  destruct (Nat.leb_spec (length (cur s)) (end_ s)) as [Hfull|Hroom]; [|repeat split; auto].
  unfold WF, W, cur; cbn [heap offset end_ del eof sc bufSize]. rewrite cur_snoc. fold (cur s).
  repeat split; auto.
  - intros H; destruct (heap s); discriminate.
  - lia.
  - rewrite app_length, slice_length by lia. lia.
  - rewrite slice_0, firstn_app, slice_length by lia.
    replace (end_ s - offset s - (end_ s - offset s)) with 0 by lia. rewrite firstn_O, app_nil_r.
    apply firstn_all2. rewrite slice_length by lia. lia.
Qed.

Lemma set_cur_last h (b : list byte) : h <> [] -> last (set_cur h b) [] = b.
Proof. intros. unfold set_cur. apply last_last. Qed.
Lemma set_cur_nonnil h (b : list byte) : set_cur h b <> [].
Proof. unfold set_cur. destruct (removelast h); discriminate. Qed.

Lemma removelast_length {A} (l : list A) : l <> [] -> length (removelast l) = length l - 1.
Proof.
  intros H. destruct (exists_last H) as (l' & a & ->). rewrite removelast_last, app_length. simpl. lia.
Qed.
Lemma set_cur_length h (b : list byte) : h <> [] -> length (set_cur h b) = length h.
Proof. intros H. unfold set_cur. rewrite app_length, removelast_length by assumption. simpl. destruct h; [congruence|simpl; lia]. Qed.

Lemma do_read_ok s n e s2 : WF s -> do_read s = (n, e, s2) ->
  exists d, length d = n /\ WF s2 /\ W s2 = W s ++ d /\ del s2 = del s ++ d /\ eof s2 = eof s /\
            offset s2 = offset s /\ end_ s2 = end_ s + n /\ length (sc s2) <= pred (length (sc s)) /\
            slice (cur s2) (end_ s2 - n) (end_ s2) = d /\ length (heap s2) = length (heap s).
Proof.
  intros (Hh & Ho & He) H. unfold do_read in H.
  destruct (sc s) as [|[want e0] rest] eqn:Esc.
  - (* script exhausted: (0, EOF) *)
    simpl in H. inversion H; subst; clear H. exists []. cbn [heap offset end_ del eof sc].
    unfold WF, W, cur; cbn [heap offset end_]. rewrite set_cur_last by assumption.
    unfold write_at. simpl. rewrite !Nat.add_0_r, firstn_skipn, !app_nil_r. fold (cur s).
    repeat split; auto using set_cur_nonnil; try lia.
    + now rewrite Nat.sub_0_r, slice_nil.
    + now apply set_cur_length.
  - inversion H; subst; clear H.
    set (n := Nat.min want (Nat.min (length (cur s) - end_ s) (length (stream s)))).
    set (d := firstn n (stream s)).
    assert (Hd : length d = n) by (unfold d; rewrite firstn_length; unfold n; lia).
    exists d. cbn [heap offset end_ del eof sc].
    unfold WF, W, cur; cbn [heap offset end_]. rewrite set_cur_last by assumption. fold (cur s).
    assert (Hfit : end_ s + length d <= length (cur s)) by (rewrite Hd; unfold n; lia).
    repeat split; auto using set_cur_nonnil; try lia.
    + rewrite write_at_length by lia. lia.
    + rewrite (slice_app_mid _ (offset s) (end_ s) (end_ s + n)) by lia.
      rewrite slice_write_at_below by lia. f_equal. rewrite <- Hd. apply slice_write_at_new. lia.
    + replace (end_ s + n - n) with (end_ s) by lia. rewrite <- Hd. apply slice_write_at_new. lia.
    + now apply set_cur_length.
Qed.

Lemma in_app_nonl (a b : list byte) : ~ In NL a -> ~ In NL b -> ~ In NL (a ++ b).
Proof. intros Ha Hb H. apply in_app_or in H. tauto. Qed.

Lemma read_loop_ok fuel : forall s r s', WF s -> ~ In NL (W s) ->
  read_loop fuel s = Some (r, s') -> step_ok s s' r.
Proof.
  induction fuel as [|fuel IH]; intros s r s' Hwf Hnl H; [discriminate|].
  cbn [read_loop] in H.
  destruct (grow_ok s Hwf) as (Hwf1 & HW1 & Hd1 & He1 & _ & _).
  destruct (do_read (grow s)) as [[n e] s2] eqn:Er.
  destruct (do_read_ok _ _ _ _ Hwf1 Er) as (d & Hdl & Hwf2 & HW2 & Hd2 & He2 & Ho2 & Hen2 & _ & Hsl & Hhl).
  rewrite HW1 in HW2. rewrite Hd1 in Hd2. subst n.
  destruct e.
  - (* RNil *)
    rewrite Hsl in H.
    destruct (index_nl d) as [eol|] eqn:E.
    + inversion H; subst r s'; clear H.
      destruct (index_nl_some _ _ E) as (Hl & _ & Hn & Hsplit).
      destruct Hwf2 as (Hh2 & Hoo2 & Hee2). pose proof Hwf1 as (_ & Hog & _).
      assert (Hk : skipn (S eol) d = slice (cur s2) (end_ s2 - length d + S eol) (end_ s2)).
      { rewrite <- (skipn_slice (cur s2) (end_ s2 - length d) (end_ s2) (S eol)) by lia. now rewrite Hsl. }
      assert (Hf : firstn eol d = slice (cur s2) (end_ s2 - length d) (end_ s2 - length d + eol)).
      { rewrite <- (firstn_slice (cur s2) (end_ s2 - length d) (end_ s2) eol) by lia. now rewrite Hsl. }
      assert (HlW : length (W s) = end_ s2 - length d - offset s2).
      { pose proof (f_equal (@length byte) HW2) as HH. rewrite app_length in HH. unfold W at 1 in HH. rewrite slice_length in HH by lia. lia. }
      exists d. cbn [del]. split; [exact Hd2|]. split; [unfold WF; cbn [heap offset end_]; fold (cur s2); repeat split; auto; lia|].
      exists (W s ++ firstn eol d). split; [apply in_app_nonl; assumption|]. left. split.
      * rewrite <- app_assoc. f_equal. rewrite Hsplit at 1. f_equal. f_equal.
        rewrite (W_eq s2 _ (end_ s2 - length d + eol + 1) (end_ s2)) by reflexivity.
        rewrite Hk. f_equal. lia.
      * change (heap {| heap := heap s2; offset := end_ s2 - length d + eol + 1; end_ := end_ s2; eof := eof s2; nerr := nerr s2;
                        bufSize := bufSize s2; sc := sc s2; stream := stream s2; reads_after_err := reads_after_err s2; del := del s2 |}) with (heap s2).
        rewrite tok_dropcr_read by lia. f_equal.
        rewrite (slice_app_mid (cur s2) (offset s2) (end_ s2 - length d) (end_ s2 - length d + eol)) by lia.
        rewrite <- Hf. f_equal.
        transitivity (firstn (end_ s2 - length d - offset s2) (W s2)).
        -- unfold W. rewrite firstn_slice by lia. f_equal. lia.
        -- rewrite HW2, firstn_app, HlW, Nat.sub_diag, firstn_O, app_nil_r. apply firstn_all2. lia.
    + apply (step_ok_compose s s2 s' r d HW2 Hd2).
      apply IH; [assumption| rewrite HW2; apply in_app_nonl; [assumption|now apply index_nl_none] | exact H].
  - (* REof *)
    apply (step_ok_compose s s2 s' r d HW2 Hd2).
    match type of H with entry ?s3 = _ => assert (Hs3 : step_ok s3 s' r) by (apply entry_ok; [exact Hwf2 | exact H]) end.
    exact Hs3.
  - (* RErr *)
    apply (step_ok_compose s s2 s' r d HW2 Hd2).
    match type of H with entry ?s3 = _ => assert (Hs3 : step_ok s3 s' r) by (apply entry_ok; [exact Hwf2 | exact H]) end.
    exact Hs3.
Qed.

Lemma entry_none s : WF s -> entry s = None -> ~ In NL (W s) /\ eof s = false.
Proof.
  intros (Hh & Ho & He) H. unfold entry in H.
  destruct (Nat.ltb_spec (offset s) (end_ s)).
  - destruct (index_nl (slice (cur s) (offset s) (end_ s))) eqn:E; [discriminate|].
    destruct (eof s); [discriminate|]. split; [now apply index_nl_none|reflexivity].
  - destruct (eof s); [discriminate|]. split; [|reflexivity].
    unfold W. replace (offset s) with (end_ s) by lia. rewrite slice_nil. tauto.
Qed.

Lemma scan_ok s r s' : WF s -> scan s = Some (r, s') -> step_ok s s' r.
Proof.
  intros Hwf H. unfold scan in H. destruct (entry s) as [[r0 s0]|] eqn:E.
  - inversion H; subst. now apply entry_ok.
  - destruct (entry_none s Hwf E) as (Hn & _). eapply read_loop_ok; eauto.
Qed.

Lemma scan_eof s r s' : eof s = true -> scan s = Some (r, s') -> del s' = del s /\ eof s' = true.
Proof.
  intros He H. unfold scan, entry in H. rewrite He in H.
  destruct (offset s <? end_ s).
  - destruct (index_nl _); inversion H; subst; cbn [del eof]; auto.
  - inversion H; subst; auto.
Qed.

(* ---------- main theorem: tokens (read at return time) = lines of the delivered bytes ---------- *)
Theorem scan_all_exact fuel : forall s acc toks sf, WF s ->
  scan_all fuel s acc = Some (toks, sf) ->
  exists fut, del sf = del s ++ fut /\ (eof s = true -> fut = []) /\
              map snd toks = map snd (rev acc) ++ lines_spec (W s ++ fut).
Proof.
  induction fuel as [|fuel IH]; intros s acc toks sf Hwf H; [discriminate|].
  cbn [scan_all] in H. destruct (scan s) as [[[t|] s']|] eqn:Es; [| |discriminate].
  - destruct (scan_ok _ _ _ Hwf Es) as (fut & Hd & Hwf' & line & Hnl & Hcase).
    destruct (IH _ _ _ _ Hwf' H) as (fut' & Hd' & Heof' & Hm).
    exists (fut ++ fut'). rewrite Hd', Hd, <- app_assoc. split; [reflexivity|]. split.
    { intros He. destruct (scan_eof _ _ _ He Es) as (Hdd & He'). rewrite Hdd in Hd.
      assert (fut = []) by (apply (app_inv_head (del s)); now rewrite app_nil_r, <- Hd).
      subst fut. now rewrite (Heof' He'). }
    rewrite Hm. cbn [rev]. rewrite map_app. cbn [map snd]. rewrite <- app_assoc. f_equal. cbn [app].
    destruct Hcase as [(HW & Hr) | (HW & Hne & HW' & He' & Hr)].
    + rewrite app_assoc, HW. rewrite <- app_assoc. cbn [app]. rewrite spec_nl by assumption. now rewrite Hr.
    + rewrite (Heof' He'), HW', !app_nil_r, HW. cbn [app].
      change (lines_spec []) with (@nil (list byte)).
      rewrite (spec_nonl line) by assumption.
      rewrite Hr. destruct line; [congruence|reflexivity].
  - inversion H; subst toks sf; clear H.
    destruct (scan_ok _ _ _ Hwf Es) as (fut & Hd & Hwf' & HW & He' & HW').
    exists fut. split; [exact Hd|]. split.
    { intros He. destruct (scan_eof _ _ _ He Es) as (Hdd & _). rewrite Hdd in Hd.
      apply (app_inv_head (del s)). now rewrite app_nil_r, <- Hd. }
    rewrite HW. unfold lines_spec; simpl. now rewrite app_nil_r.
Qed.

Lemma init_WF bs scr str : WF (init bs scr str).
Proof. unfold WF, init, cur; simpl. repeat split; try lia. discriminate. Qed.

Corollary C04_lines_exact bs scr str fuel toks sf :
  scan_all fuel (init bs scr str) [] = Some (toks, sf) ->
  map snd toks = lines_spec (del sf).
Proof.
  intros H. destruct (scan_all_exact fuel _ _ _ _ (init_WF bs scr str) H) as (fut & Hd & _ & Hm).
  rewrite Hm, Hd. simpl. unfold W, init; simpl. rewrite ?slice_nil. reflexivity.
Qed.

(* ---------- tokens are never overwritten ---------- *)
Definition tok_safe (s : st) (t : token) : Prop :=
  let '(b, lo, hi) := t in
  b < length (heap s) - 1 \/ (b = length (heap s) - 1 /\ hi <= offset s).

(* s2 preserves every safe token of s *)
Definition pres (s s2 : st) : Prop :=
  forall t, tok_safe s t -> read_tok (heap s2) t = read_tok (heap s) t /\ tok_safe s2 t.

Lemma pres_refl s : pres s s. Proof. intros t H; auto. Qed.
Lemma pres_trans s1 s2 s3 : pres s1 s2 -> pres s2 s3 -> pres s1 s3.
Proof. intros H12 H23 t H. destruct (H12 t H) as (E1 & S2). destruct (H23 t S2) as (E2 & S3). split; [congruence|assumption]. Qed.

Lemma pres_same_heap s s2 : heap s2 = heap s -> offset s <= offset s2 -> pres s s2.
Proof. intros Hh Ho [[b lo] hi] H. unfold tok_safe in *. rewrite Hh. split; [reflexivity|]. destruct H as [H|[H1 H2]]; [left; auto|right; split; auto; lia]. Qed.

Lemma pres_grow s : WF s -> pres s (grow s).
Proof.
  intros (Hh & Ho & He). unfold grow. destruct (length (cur s) <=? end_ s); [|apply pres_refl].
  intros [[b lo] hi] H. unfold tok_safe, read_tok in *. cbn [heap offset]. rewrite app_length. simpl.
  assert (Hb : b < length (heap s)) by (destruct (heap s); [congruence|]; simpl in *; lia).
  split; [now rewrite app_nth1 by lia | left; lia].
Qed.

Lemma nth_set_cur h (x : list byte) b : b < length h - 1 -> nth b (set_cur h x) [] = nth b h [].
Proof.
  intros H. unfold set_cur. assert (h <> []) by (destruct h; simpl in *; [lia|discriminate]).
  destruct (exists_last H0) as (h' & a & ->). rewrite removelast_last. rewrite app_length in H. simpl in H.
  rewrite !app_nth1 by lia. reflexivity.
Qed.

Lemma nth_set_cur_last h (x : list byte) : h <> [] -> nth (length h - 1) (set_cur h x) [] = x.
Proof.
  intros H. unfold set_cur. destruct (exists_last H) as (h' & a & ->). rewrite removelast_last, app_length. simpl.
  replace (length h' + 1 - 1) with (length h') by lia. rewrite app_nth2 by lia. now rewrite Nat.sub_diag.
Qed.

Lemma pres_do_read s n e s2 : WF s -> do_read s = (n, e, s2) -> pres s s2.
Proof.
  intros (Hh & Ho & He) H. unfold do_read in H.
  destruct (match sc s with [] => (0, REof, []) | (n0, e0) :: r => (n0, e0, r) end) as [[want e0] rest].
  inversion H; subst; clear H.
  set (d := firstn (Nat.min want (Nat.min (length (cur s) - end_ s) (length (stream s)))) (stream s)).
  intros [[b lo] hi] Hs. unfold tok_safe, read_tok in *. cbn [heap offset].
  rewrite set_cur_length by assumption. split; [|exact Hs].
  destruct Hs as [Hb|[Hb Hhi]].
  - now rewrite nth_set_cur.
  - subst b. rewrite nth_set_cur_last by assumption. rewrite nth_last. fold (cur s).
    apply slice_write_at_below; lia.
Qed.

Lemma entry_pres s r s' : entry s = Some (r, s') -> pres s s'.
Proof.
  unfold entry. intros H.
  destruct (offset s <? end_ s) eqn:Hlt.
  - apply Nat.ltb_lt in Hlt. destruct (index_nl _).
    + inversion H; subst. apply pres_same_heap; cbn [heap offset]; [reflexivity|lia].
    + destruct (eof s); inversion H; subst. apply pres_same_heap; cbn [heap offset]; [reflexivity|lia].
  - destruct (eof s); inversion H; subst. apply pres_refl.
Qed.

Lemma read_loop_pres fuel : forall s r s', WF s -> read_loop fuel s = Some (r, s') -> pres s s'.
Proof.
  induction fuel as [|fuel IH]; intros s r s' Hwf H; [discriminate|]. cbn [read_loop] in H.
  destruct (grow_ok s Hwf) as (Hwf1 & _).
  destruct (do_read (grow s)) as [[n e] s2] eqn:Er.
  destruct (do_read_ok _ _ _ _ Hwf1 Er) as (d & _ & Hwf2 & _ & _ & _ & Ho2 & Hen2 & _ & _ & _).
  pose proof (pres_trans _ _ _ (pres_grow s Hwf) (pres_do_read _ _ _ _ Hwf1 Er)) as P2.
  destruct e.
  - destruct (index_nl _) eqn:E.
    + inversion H; subst. eapply pres_trans; [exact P2|]. apply pres_same_heap; cbn [heap offset]; [reflexivity|].
      destruct (index_nl_some _ _ E) as (Hl & _). destruct Hwf1 as (_ & Hog & _). lia.
    + eapply pres_trans; [exact P2|]. eapply IH; eauto.
  - eapply pres_trans; [exact P2|]. eapply pres_trans; [|eapply entry_pres; exact H]. apply pres_same_heap; reflexivity || (cbn [offset]; lia).
  - eapply pres_trans; [exact P2|]. eapply pres_trans; [|eapply entry_pres; exact H]. apply pres_same_heap; reflexivity || (cbn [offset]; lia).
Qed.

Lemma scan_pres s r s' : WF s -> scan s = Some (r, s') -> pres s s'.
Proof.
  intros Hwf H. unfold scan in H. destruct (entry s) as [[r0 s0]|] eqn:E.
  - inversion H; subst. eapply entry_pres; eauto.
  - eapply read_loop_pres; eauto.
Qed.

Lemma tok_dropcr_safe s lo hi s' : heap s' = heap s -> hi <= offset s' -> tok_safe s' (tok_dropcr s lo hi).
Proof.
  intros Hs Ho. unfold tok_dropcr. destruct (_ && _); unfold tok_safe; rewrite Hs; right; split; auto; lia.
Qed.

Lemma entry_emits_safe s t s' : entry s = Some (Some t, s') -> tok_safe s' t.
Proof.
  unfold entry. intros H. destruct (offset s <? end_ s) eqn:Hlt.
  - destruct (index_nl _) as [eol|].
    + inversion H; subst. apply tok_dropcr_safe; [reflexivity|cbn [offset]; lia].
    + destruct (eof s); inversion H; subst. unfold tok_safe; cbn [heap offset]. right. split; auto.
  - destruct (eof s); inversion H.
Qed.

Lemma read_loop_emits_safe fuel : forall s t s', read_loop fuel s = Some (Some t, s') -> tok_safe s' t.
Proof.
  induction fuel as [|fuel IH]; intros s t s' H; [discriminate|]. cbn [read_loop] in H.
  destruct (do_read (grow s)) as [[n e] s2] eqn:Er.
  destruct e.
  - destruct (index_nl _) as [eol|].
    + inversion H; subst. apply tok_dropcr_safe; [reflexivity|cbn [offset]; lia].
    + eapply IH; eauto.
  - eapply entry_emits_safe; eauto.
  - eapply entry_emits_safe; eauto.
Qed.

Lemma scan_emits_safe s t s' : scan s = Some (Some t, s') -> tok_safe s' t.
Proof.
  unfold scan. intros H. destruct (entry s) as [[r0 s0]|] eqn:E.
  - inversion H; subst. eapply entry_emits_safe; eauto.
  - eapply read_loop_emits_safe; eauto.
Qed.

Theorem scan_all_stable fuel : forall s acc toks sf, WF s ->
  (forall t c, In (t, c) acc -> tok_safe s t /\ read_tok (heap s) t = c) ->
  scan_all fuel s acc = Some (toks, sf) ->
  forall t c, In (t, c) toks -> read_tok (heap sf) t = c.
Proof.
  induction fuel as [|fuel IH]; intros s acc toks sf Hwf Hacc H; [discriminate|].
  cbn [scan_all] in H. destruct (scan s) as [[[t0|] s']|] eqn:Es; [| |discriminate].
  - destruct (scan_ok _ _ _ Hwf Es) as (_ & _ & Hwf' & _).
    pose proof (scan_pres _ _ _ Hwf Es) as P.
    eapply IH; [exact Hwf' | | exact H].
    intros t c [Heq|Hin].
    + inversion Heq; subst. split; [eapply scan_emits_safe; eauto|reflexivity].
    + destruct (Hacc _ _ Hin) as (Hs & Hr). destruct (P t Hs) as (E & S'). split; [assumption|congruence].
  - inversion H; subst toks sf; clear H. intros t c Hin. apply in_rev in Hin.
    destruct (Hacc _ _ Hin) as (Hs & Hr). destruct (scan_pres _ _ _ Hwf Es t Hs) as (E & _). congruence.
Qed.

Corollary C04_tokens_stable bs scr str fuel toks sf :
  scan_all fuel (init bs scr str) [] = Some (toks, sf) ->
  forall t c, In (t, c) toks -> read_tok (heap sf) t = c.
Proof. intros H. eapply scan_all_stable; [apply init_WF | | exact H]. intros t c []. Qed.
