From Coq Require Import List NArith Bool.
From RareV Require Import Base.Hex Model.Lines.
Import ListNotations.

Lemma drop_cr_fast_eq acc : drop_cr_fast acc = drop_cr (rev acc).
Proof.
  unfold drop_cr_fast, drop_cr. rewrite rev_involutive. destruct acc as [|b r]; [reflexivity|].
  rewrite !rev_append_rev, !app_nil_r. reflexivity.
Qed.

Lemma lines_fast_aux_eq s : forall acc, lines_fast_aux acc s = lines_spec_aux acc s.
Proof.
  induction s as [|b r IH]; intros acc; cbn [lines_fast_aux lines_spec_aux].
  - destruct acc; [reflexivity|]. rewrite rev_append_rev, app_nil_r. reflexivity.
  - destruct (N.eqb b NL); [rewrite drop_cr_fast_eq, IH; reflexivity|apply IH].
Qed.

Theorem lines_fast_eq s : lines_fast s = lines_spec s.
Proof. apply lines_fast_aux_eq. Qed.
