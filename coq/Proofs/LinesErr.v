(* C04, third clause: a non-EOF read error is reported exactly once, and no Read is issued after it. *)
From Coq Require Import List NArith ZArith Lia Bool Arith.
From RareV Require Import Base.Hex Model.Lines Proofs.LinesProof.
Import ListNotations.

Definition EI (scr0 : script) (s : st) : Prop :=
  reads_after_err s = 0 /\
  (eof s = false -> nerr s = 0 /\ first_term scr0 = first_term (sc s)) /\
  (eof s = true -> nerr s = expected_nerr scr0).

Lemma entry_EI scr0 s r s' : entry s = Some (r, s') -> EI scr0 s -> EI scr0 s'.
Proof.
  unfold entry, EI. intros H HI.
  destruct (offset s <? end_ s).
  - destruct (index_nl _).
    + inversion H; subst; cbn. exact HI.
    + destruct (eof s) eqn:E; inversion H; subst; cbn. exact HI.
  - destruct (eof s) eqn:E; inversion H; subst. rewrite E. exact HI.
Qed.

Lemma grow_EI scr0 s : EI scr0 s -> EI scr0 (grow s).
Proof. unfold grow, EI. destruct (_ <=? _); cbn; auto. Qed.

Lemma grow_eof s : eof (grow s) = eof s.
Proof. unfold grow. destruct (_ <=? _); reflexivity. Qed.

Lemma read_loop_EI scr0 fuel : forall s r s', eof s = false -> EI scr0 s ->
  read_loop fuel s = Some (r, s') -> EI scr0 s'.
Proof.
  induction fuel as [|fuel IH]; intros s r s' He HI H; [discriminate|].
  cbn [read_loop] in H.
  pose proof (grow_EI _ _ HI) as HG. pose proof (grow_eof s) as HGe. rewrite He in HGe.
  remember (grow s) as g eqn:Eg. clear Eg HI s He.
  unfold do_read in H.
  destruct HG as (Hra & Hf & _). destruct (Hf HGe) as (Hn & Hft).
  destruct (sc g) as [|[want e] rest] eqn:Esc.
  - (* script exhausted: (0, EOF) *)
    cbn in H. eapply entry_EI in H; [exact H|].
    unfold EI; cbn. rewrite HGe, Hra, Hn. repeat split; try discriminate; try lia.
    intros _. unfold expected_nerr. rewrite Hft. reflexivity.
  - destruct e.
    + cbn in H. destruct (index_nl _).
      * inversion H; subst; cbn. unfold EI; cbn. rewrite HGe, Hra. split; [reflexivity|]. split; [|discriminate].
        intros _. split; [assumption|]. rewrite Hft. reflexivity.
      * eapply IH; [| |exact H]; cbn; [assumption|].
        unfold EI; cbn. rewrite HGe, Hra. split; [reflexivity|]. split; [|congruence].
        intros _. split; [assumption|]. rewrite Hft. reflexivity.
    + cbn in H. eapply entry_EI in H; [exact H|].
      unfold EI; cbn. rewrite HGe, Hra, Hn. repeat split; try discriminate; try lia.
      intros _. unfold expected_nerr. rewrite Hft. reflexivity.
    + cbn in H. eapply entry_EI in H; [exact H|].
      unfold EI; cbn. rewrite HGe, Hra, Hn. repeat split; try discriminate; try lia.
      intros _. unfold expected_nerr. rewrite Hft. reflexivity.
Qed.

Lemma scan_EI scr0 s r s' : WF s -> EI scr0 s -> scan s = Some (r, s') -> EI scr0 s'.
Proof.
  intros Hwf HI H. unfold scan in H. destruct (entry s) as [[r0 s0]|] eqn:E.
  - inversion H; subst. eapply entry_EI; eauto.
  - destruct (entry_none _ Hwf E) as (_ & He). eapply read_loop_EI; eauto.
Qed.

Lemma scan_all_EI scr0 fuel : forall s acc toks sf, WF s -> EI scr0 s ->
  scan_all fuel s acc = Some (toks, sf) -> EI scr0 sf /\ eof sf = true.
Proof.
  induction fuel as [|fuel IH]; intros s acc toks sf Hwf HI H; [discriminate|].
  cbn [scan_all] in H. destruct (scan s) as [[[t0|] s']|] eqn:Es; [| |discriminate].
  - destruct (scan_ok _ _ _ Hwf Es) as (_ & _ & Hwf' & _).
    eapply IH; [exact Hwf'| |exact H]. exact (scan_EI _ _ _ _ Hwf HI Es).
  - inversion H; subst toks sf; clear H.
    destruct (scan_ok _ _ _ Hwf Es) as (fut & Hd & Hwf' & HW & He' & HW').
    split; [exact (scan_EI _ _ _ _ Hwf HI Es)|assumption].
Qed.

Lemma init_EI bs scr str : EI scr (init bs scr str).
Proof. unfold EI, init; cbn. repeat split; try reflexivity. discriminate. Qed.

Corollary C04_error_once bs scr str fuel toks sf :
  scan_all fuel (init bs scr str) [] = Some (toks, sf) ->
  nerr sf = expected_nerr scr /\ reads_after_err sf = 0.
Proof.
  intros H. destruct (scan_all_EI scr fuel _ _ _ _ (init_WF bs scr str) (init_EI bs scr str) H) as ((Hra & _ & Ht) & He).
  split; [apply Ht; exact He | exact Hra].
Qed.
