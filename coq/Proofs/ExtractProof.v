(* The sequential reference that the correspondence evaluates (Model/Extract.v [reference]) is the
   [seq_keys] / true-count side of the pipeline theorem, for the classifier built from a matcher
   oracle, an ignore set and a key expression. *)
From Coq Require Import List NArith ZArith Arith Lia Bool.
From RareV Require Import Base.Hex Base.Res Base.Num Model.Batch Model.Pipeline Model.Ctx Model.Extract Proofs.CtxProof.
Import ListNotations.

Section Ref.
Variable names : list (bytes * Z).
Variable extract : ktmpl.
Variable igs : list ktmpl.
Variable orc : lineid -> option (list Z).      (* the matcher, as an oracle *)

Definition classify_of (id : lineid) : cls mtch := cls_of (process names extract igs id (orc id)).

Lemma reference_acc ids : forall acc,
  let r := reference names extract igs ids (map orc ids) acc in
  s_read r = (s_read acc + N.of_nat (length ids))%N /\
  s_matched r = (s_matched acc + N.of_nat (list_sum (map (isM mtch classify_of) ids)))%N /\
  s_ignored r = (s_ignored acc + N.of_nat (list_sum (map (isI mtch classify_of) ids)))%N /\
  s_matches r = rev (s_matches acc) ++ seq_keys mtch classify_of ids.
Proof.
  induction ids as [|id ids IH]; intros acc; cbn [map reference].
  - cbn. rewrite !N.add_0_r, app_nil_r. auto.
  - specialize (IH (match process names extract igs id (orc id) with
        | Ok Unm => {| s_read := N.succ (s_read acc); s_matched := s_matched acc; s_ignored := s_ignored acc; s_matches := s_matches acc; s_panic := s_panic acc |}
        | Ok Ign => {| s_read := N.succ (s_read acc); s_matched := s_matched acc; s_ignored := N.succ (s_ignored acc); s_matches := s_matches acc; s_panic := s_panic acc |}
        | Ok (Mat m) => {| s_read := N.succ (s_read acc); s_matched := N.succ (s_matched acc); s_ignored := s_ignored acc; s_matches := m :: s_matches acc; s_panic := s_panic acc |}
        | Panic => {| s_read := N.succ (s_read acc); s_matched := s_matched acc; s_ignored := s_ignored acc; s_matches := s_matches acc; s_panic := true |}
        end)).
    cbv zeta in IH. destruct IH as (A & B & C & D). rewrite A, B, C, D. clear A B C D.
    unfold seq_keys, key_of, isM, isI, classify_of. cbn [flat_map map list_sum length].
    destruct (process names extract igs id (orc id)) as [[| |m]|]; cbn [cls_of s_read s_matched s_ignored s_matches rev app];
      repeat split; try (cbn [list_sum]; lia); rewrite <- ?app_assoc; try reflexivity.
    all: try (change (list_sum (?x :: ?l)) with (x + list_sum l)%nat; lia).
Qed.

(* what the correspondence computes = what C01_final / C01_end_to_end state *)
Theorem reference_is_seq ids :
  let r := reference names extract igs ids (map orc ids) summary0 in
  s_matches r = seq_keys mtch classify_of ids /\
  s_read r = N.of_nat (length ids) /\
  s_matched r = N.of_nat (list_sum (map (isM mtch classify_of) ids)) /\
  s_ignored r = N.of_nat (list_sum (map (isI mtch classify_of) ids)).
Proof.
  destruct (reference_acc ids summary0) as (A & B & C & D). cbv zeta. rewrite A, B, C, D. cbn. auto.
Qed.

(* every emitted match carries the identity of its line: true source, true number, unmodified text,
   the matcher's index list *)
Theorem process_fields id m : process names extract igs id (orc id) = Ok (Mat m) ->
  (e_src m, e_no m, e_line m) = id /\ orc id = Some (e_ix m).
Proof.
  destruct id as [[src no] line]. unfold process. destruct (orc (src, no, line)) as [ix|]; [|discriminate].
  destruct ix as [|i0 ix]; [discriminate|].
  destruct (any_truthy _ _) as [[|]|]; cbn [rbind]; try discriminate.
  destruct (eval_tmpl _ _) as [[|k0 k]|]; cbn [rbind]; try discriminate.
  intros H. inversion H; subst. cbn. auto.
Qed.
End Ref.
