(* C16: the reader undoes the writer's escape, for every byte string (and every N-valued "byte").
   Depends on the generated table only through [table_ok] (checked by computation). *)
From Coq Require Import List NArith Bool Lia.
From RareV Require Import Base.Hex Base.Num Gen.GenJson Model.Json.
Import ListNotations.
Local Open Scope N_scope.


Lemma table_ok : table_ok_b = true.
Proof. vm_compute. reflexivity. Qed.

Lemma pre_pre p q o : pre p (pre q o) = pre (p ++ q) o.
Proof. destruct o as [[t r]|]; cbn; [rewrite app_assoc|]; reflexivity. Qed.

Lemma read_quote tl : read_chars (34 :: tl) = Some ([], tl).
Proof. reflexivity. Qed.

Lemma read_simple c x tl : simple_esc c = Some x -> read_chars (92 :: c :: tl) = pre [x] (read_chars tl).
Proof.
  intros H. cbn [read_chars].
  change (92 =? 34) with false. change (92 =? 92) with true. cbv iota.
  destruct (c =? 117) eqn:E.
  - apply N.eqb_eq in E. subst c. vm_compute in H. discriminate.
  - rewrite H. reflexivity.
Qed.

Lemma read_u h1 h2 h3 h4 cp tl :
  hex4 h1 h2 h3 h4 = Some cp -> cp <? 128 = true ->
  read_chars (92 :: 117 :: h1 :: h2 :: h3 :: h4 :: tl) = pre [cp] (read_chars tl).
Proof.
  intros H L. cbn [read_chars].
  change (92 =? 34) with false. change (92 =? 92) with true. change (117 =? 117) with true. cbv iota.
  rewrite H.
  assert (L2 : cp <? 55296 = true) by (apply N.ltb_lt; apply N.ltb_lt in L; lia).
  rewrite L2. unfold utf8_enc. rewrite L. reflexivity.
Qed.

Lemma read_raw b tl : b <> 34 -> b <> 92 -> 32 <= b -> read_chars (b :: tl) = pre [b] (read_chars tl).
Proof.
  intros H1 H2 H3. cbn [read_chars].
  apply N.eqb_neq in H1. apply N.eqb_neq in H2. rewrite H1, H2.
  assert (L : b <? 32 = false) by (apply N.ltb_ge; exact H3).
  rewrite L. reflexivity.
Qed.

Lemma assoc_in b t e : assoc b t = Some e -> In (b, e) t.
Proof.
  induction t as [|[k v] t IH]; cbn; [discriminate|].
  destruct (k =? b) eqn:E.
  - intros H. inversion H; subst. apply N.eqb_eq in E. subst. now left.
  - intros H. right. auto.
Qed.

Lemma lookup_entry b e : lookup b = Some e -> e <> [] /\ entry_ok_b (b, e) = true.
Proof.
  unfold lookup. destruct (b <? escape_lookup_len); [|discriminate].
  destruct (assoc b escape_lookup) as [[|x e']|] eqn:A; try discriminate.
  intros H. inversion H; subst. split; [discriminate|].
  pose proof table_ok as T. unfold table_ok_b in T.
  apply andb_true_iff in T as [T _]. apply andb_true_iff in T as [T _].
  rewrite forallb_forall in T. apply T. apply assoc_in. exact A.
Qed.

Lemma read_entry b e tl : e <> [] -> entry_ok_b (b, e) = true -> read_chars (e ++ tl) = pre [b] (read_chars tl).
Proof.
  intros Hne H. unfold entry_ok_b in H.
  destruct e as [|bs [|c [|h1 [|h2 [|h3 [|h4 [|x e]]]]]]]; try discriminate; try congruence.
  - apply andb_true_iff in H as [B H]. apply N.eqb_eq in B. subst bs.
    destruct (simple_esc c) as [x|] eqn:S; [|discriminate]. apply N.eqb_eq in H. subst x.
    cbn [app]. apply read_simple. exact S.
  - apply andb_true_iff in H as [B H]. apply andb_true_iff in B as [B U].
    apply N.eqb_eq in B. apply N.eqb_eq in U. subst bs c.
    destruct (hex4 h1 h2 h3 h4) as [cp|] eqn:S; [|discriminate].
    apply andb_true_iff in H as [H L]. apply N.eqb_eq in H. subst cp.
    cbn [app]. apply read_u; assumption.
Qed.

Definition u00_ok (b : N) : bool :=
  match hex4 48 48 (hexd (b / 16)) (hexd (b mod 16)) with Some cp => cp =? b | None => false end.

Lemma u00_all : forallb u00_ok (map N.of_nat (seq 0 32)) = true.
Proof. vm_compute. reflexivity. Qed.

Lemma u00 b : b < 32 -> hex4 48 48 (hexd (b / 16)) (hexd (b mod 16)) = Some b.
Proof.
  intros L. pose proof u00_all as A. rewrite forallb_forall in A.
  assert (I : In b (map N.of_nat (seq 0 32))).
  { apply in_map_iff. exists (N.to_nat b). split; [apply N2Nat.id|]. apply in_seq. lia. }
  specialize (A b I). unfold u00_ok in A.
  destruct (hex4 48 48 (hexd (b / 16)) (hexd (b mod 16))) as [cp|]; [|discriminate].
  apply N.eqb_eq in A. now subst.
Qed.

Lemma has_34 : lookup 34 <> None.
Proof. vm_compute. discriminate. Qed.
Lemma has_92 : lookup 92 <> None.
Proof. vm_compute. discriminate. Qed.

(* one written byte reads back as that byte *)
Lemma read_esc_byte b tl : read_chars (esc_byte b ++ tl) = pre [b] (read_chars tl).
Proof.
  unfold esc_byte. destruct (lookup b) as [e|] eqn:L.
  - destruct (lookup_entry _ _ L) as [Hne Hok]. apply read_entry; assumption.
  - destruct (b <? 32) eqn:C.
    + apply N.ltb_lt in C. cbn [app]. apply read_u; [apply u00; exact C|].
      apply N.ltb_lt. lia.
    + apply N.ltb_ge in C. cbn [app]. apply read_raw; [| |exact C].
      * intros ->. apply has_34. exact L.
      * intros ->. apply has_92. exact L.
Qed.

(* unescape after escape is the identity: the characters of a written string, followed by the
   closing quote, read back as exactly the original bytes, and reading stops right after the quote *)
Theorem read_escape s tl : read_chars (escape s ++ 34 :: tl) = Some (s, tl).
Proof.
  induction s as [|b s IH]; [reflexivity|].
  unfold escape in *. cbn [flat_map]. rewrite <- app_assoc. rewrite read_esc_byte, IH. reflexivity.
Qed.


Lemma escape_plain s : forallb plain_byte s = true -> escape s = s.
Proof.
  induction s as [|b s IH]; [reflexivity|]. cbn [forallb]. intros H.
  apply andb_true_iff in H as [H1 H2]. unfold escape in *. cbn [flat_map]. rewrite (IH H2).
  unfold plain_byte, has_entry in H1. apply andb_true_iff in H1 as [A B].
  unfold esc_byte. destruct (lookup b); [discriminate|].
  apply N.leb_le in A. assert (C : b <? 32 = false) by (apply N.ltb_ge; exact A). rewrite C. reflexivity.
Qed.

(* the first written byte of a string character is never a quote unless escaped: used for keys *)
Lemma escape_app a b : escape (a ++ b) = escape a ++ escape b.
Proof. unfold escape. apply flat_map_app. Qed.

(* every byte that must not appear raw in a JSON string is written as an escape sequence *)
Lemma escapes_cover b : (b < 32 \/ b = 34 \/ b = 92) -> exists c r, esc_byte b = 92 :: c :: r.
Proof.
  intros H. unfold esc_byte. destruct (lookup b) as [e|] eqn:L.
  - destruct (lookup_entry _ _ L) as [Hne Hok]. unfold entry_ok_b in Hok.
    destruct e as [|bs [|c e]]; try congruence; try discriminate.
    assert (B : bs = 92).
    { destruct e as [|h1 [|h2 [|h3 [|h4 [|x e]]]]]; try discriminate;
        repeat (apply andb_true_iff in Hok as [Hok ?]); apply N.eqb_eq in Hok; exact Hok. }
    subst bs. eauto.
  - destruct (b <? 32) eqn:C; [eauto|].
    apply N.ltb_ge in C. destruct H as [H|[->| ->]]; [lia| |].
    + exfalso. apply has_34. exact L.
    + exfalso. apply has_92. exact L.
Qed.
