(* C07 — SubKeyCounter (countersubkey.go): the state invariant (index map = positions of the sorted
   sub-key list, every row vector has the length of the sub-key list, count = sum of the row),
   the bound that makes insertAti64 / submatches[i] panic-free, equality with the declarative
   specification, and order-independence. *)
From Coq Require Import List NArith ZArith Bool Lia Sorted Permutation.
From RareV Require Import Base.Hex Base.Num Model.Agg Proofs.AggMap.
Import ListNotations.
Local Open Scope Z_scope.

(* ------------------------------------------------------------------ insert_alnum / insert_at / vec_add *)
Lemma insert_alnum_idx_le : forall l e, (snd (insert_alnum l e) <= length l)%nat.
Proof.
  induction l as [|a r IH]; intros e; cbn [insert_alnum]; [cbn; lia|].
  destruct (blt e a); [cbn; lia|].
  specialize (IH e). destruct (insert_alnum r e) as [l' i]. cbn [snd length] in *. lia.
Qed.

Lemma insert_alnum_uins l e : ~ In e l -> fst (insert_alnum l e) = uins e l.
Proof.
  induction l as [|a r IH]; intros Hn; cbn [insert_alnum uins]; [reflexivity|].
  unfold blt. destruct (bcmp e a) eqn:E.
  - apply bcmp_eq in E. subst. exfalso. apply Hn. left. reflexivity.
  - reflexivity.
  - rewrite <- IH by (intros H; apply Hn; right; exact H).
    destruct (insert_alnum r e) as [l' i]. reflexivity.
Qed.

Lemma insert_alnum_nth l e : nth_error (fst (insert_alnum l e)) (snd (insert_alnum l e)) = Some e.
Proof.
  induction l as [|a r IH]; cbn [insert_alnum]; [reflexivity|].
  destruct (blt e a); [reflexivity|].
  destruct (insert_alnum r e) as [l' i]. cbn [fst snd nth_error] in *. exact IH.
Qed.

Lemma insert_alnum_map {B} (f : bytes -> B) l e :
  insert_at (map f l) (snd (insert_alnum l e)) (f e) = map f (fst (insert_alnum l e)).
Proof.
  induction l as [|a r IH]; cbn [insert_alnum]; [reflexivity|].
  destruct (blt e a); [reflexivity|].
  destruct (insert_alnum r e) as [l' i]. cbn [fst snd map insert_at] in *. rewrite IH. reflexivity.
Qed.

Lemma vec_add_map (f : bytes -> Z) sk z l : forall i,
  NoDup l -> nth_error l i = Some sk ->
  vec_add (map f l) i z = map (fun s => if beq s sk then add64 (f s) z else f s) l.
Proof.
  induction l as [|a r IH]; intros i Hnd Hn; [destruct i; discriminate|].
  inversion Hnd as [|? ? Hna Hnr]; subst.
  destruct i as [|i]; cbn [nth_error] in Hn; cbn [map vec_add].
  - inversion Hn; subst a. rewrite beq_refl. f_equal.
    apply map_ext_in. intros s Hs. rewrite beq_neq; [reflexivity|]. intros ->. contradiction.
  - rewrite (beq_neq a sk).
    + f_equal. apply IH; assumption.
    + intros ->. apply Hna. eapply nth_error_In. exact Hn.
Qed.

(* ------------------------------------------------------------------ index map *)
Lemma regen_sorted ks : forall j idx, asorted idx -> asorted (regen ks j idx).
Proof.
  induction ks as [|k r IH]; intros j idx H; cbn [regen]; [exact H|].
  apply IH. apply aupd_sorted. exact H.
Qed.

Lemma regen_find ks : forall j idx s i, NoDup ks -> asorted idx ->
  (afind s (regen ks j idx) = Some i <->
   (exists p, nth_error ks p = Some s /\ i = (j + p)%nat) \/ (~ In s ks /\ afind s idx = Some i)).
Proof.
  induction ks as [|k r IH]; intros j idx s i Hnd Hs; cbn [regen].
  - split.
    + intros H. right. split; [intros []|exact H].
    + intros [(p & Hp & _)|[_ H]]; [destruct p; discriminate|exact H].
  - inversion Hnd as [|? ? Hnk Hnr]; subst.
    rewrite IH by (try assumption; apply aupd_sorted; exact Hs).
    destruct (bytes_dec s k) as [->|Hne].
    + rewrite afind_aupd_same by exact Hs. split.
      * intros [(p & Hp & _)|[_ H]].
        -- exfalso. apply Hnk. eapply nth_error_In. exact Hp.
        -- left. exists O. split; [reflexivity|]. inversion H. lia.
      * intros [(p & Hp & Hi)|[Hn _]].
        -- destruct p as [|p]; cbn [nth_error] in Hp.
           ++ right. split; [exact Hnk|]. f_equal. lia.
           ++ exfalso. apply Hnk. eapply nth_error_In. exact Hp.
        -- exfalso. apply Hn. left. reflexivity.
    + rewrite afind_aupd_other by exact Hne. split.
      * intros [(p & Hp & Hi)|[Hn H]].
        -- left. exists (S p). split; [exact Hp|lia].
        -- right. split; [|exact H]. intros [E|Hin]; [congruence|contradiction].
      * intros [(p & Hp & Hi)|[Hn H]].
        -- destruct p as [|p]; cbn [nth_error] in Hp; [congruence|].
           left. exists p. split; [exact Hp|lia].
        -- right. split; [|exact H]. intros Hin. apply Hn. right. exact Hin.
Qed.

Lemma regen_spec ks idx : NoDup ks -> asorted idx ->
  (forall s i, afind s idx = Some i -> In s ks) ->
  forall s i, afind s (regen ks O idx) = Some i <-> nth_error ks i = Some s.
Proof.
  intros Hnd Hs Hin s i. rewrite regen_find by assumption. split.
  - intros [(p & Hp & ->)|[Hn H]]; [exact Hp|]. exfalso. apply Hn. eapply Hin. exact H.
  - intros H. left. exists i. split; [exact H|reflexivity].
Qed.

Lemma keys_enum_from {A} (l : list A) : forall j, map fst (enum_from j l) = l.
Proof. induction l as [|a r IH]; intros j; cbn; [reflexivity|]. rewrite IH. reflexivity. Qed.

Lemma In_enum_from {A} (l : list A) : forall j s i,
  In (s, i) (enum_from j l) <-> exists p, nth_error l p = Some s /\ i = (j + p)%nat.
Proof.
  induction l as [|a r IH]; intros j s i; cbn [enum_from In].
  - split; [intros []|intros (p & Hp & _); destruct p; discriminate].
  - rewrite IH. split.
    + intros [E|(p & Hp & Hi)].
      * inversion E; subst. exists O. split; [reflexivity|lia].
      * exists (S p). split; [exact Hp|lia].
    + intros (p & Hp & Hi). destruct p as [|p]; cbn [nth_error] in Hp.
      * left. inversion Hp; subst. f_equal. lia.
      * right. exists p. split; [exact Hp|lia].
Qed.

Lemma afind_enum l s i : ksorted l -> (afind s (enum_from O l) = Some i <-> nth_error l i = Some s).
Proof.
  intros Hs.
  assert (Ha : asorted (enum_from O l)) by (unfold asorted; rewrite keys_enum_from; exact Hs).
  split.
  - intros H. apply afind_some_in in H. apply In_enum_from in H as (p & Hp & ->). exact Hp.
  - intros H. apply afind_in_sorted; [exact Ha|]. apply In_enum_from. exists i. split; [exact H|reflexivity].
Qed.

(* ------------------------------------------------------------------ sums *)
Definition firsts (v : list (bytes * bytes * Z)) : list bytes := map (fun p => fst (fst p)) v.
Definition seconds (v : list (bytes * bytes * Z)) : list bytes := map (fun p => snd (fst p)) v.
(* the row of key k *)
Definition row (v : list (bytes * bytes * Z)) (keys : list bytes) (k : bytes) : skrow :=
  (wrap64 (sum_a k v), map (fun s => wrap64 (sum_ab k s v)) keys).

Lemma zsum_one z : zsum [z] = z.
Proof. unfold zsum. cbn [fold_right]. lia. Qed.

Lemma sum_a_app k v a b z : sum_a k (v ++ [(a, b, z)]) = sum_a k v + (if beq k a then z else 0).
Proof.
  unfold sum_a. rewrite filter_app, map_app, zsum_app. f_equal.
  cbn [filter fst snd]. destruct (beq k a); cbn [map snd]; [apply zsum_one|reflexivity].
Qed.
Lemma sum_ab_app k s v a b z :
  sum_ab k s (v ++ [(a, b, z)]) = sum_ab k s v + (if beq k a && beq s b then z else 0).
Proof.
  unfold sum_ab. rewrite filter_app, map_app, zsum_app. f_equal.
  cbn [filter fst snd]. destruct (beq k a && beq s b); cbn [map snd]; [apply zsum_one|reflexivity].
Qed.

Lemma filter_none {A} (p : A -> bool) l : (forall x, In x l -> p x = false) -> filter p l = [].
Proof.
  induction l as [|a r IH]; intros H; cbn [filter]; [reflexivity|].
  rewrite (H a) by (left; reflexivity). apply IH. intros x Hx. apply H. right. exact Hx.
Qed.

Lemma sum_a_notin k v : ~ In k (firsts v) -> sum_a k v = 0.
Proof.
  intros Hn. unfold sum_a. rewrite filter_none; [reflexivity|].
  intros x Hx. apply beq_neq. intros ->. apply Hn. unfold firsts. apply in_map_iff. exists x. tauto.
Qed.
Lemma sum_ab_notin_a k s v : ~ In k (firsts v) -> sum_ab k s v = 0.
Proof.
  intros Hn. unfold sum_ab. rewrite filter_none; [reflexivity|].
  intros x Hx. rewrite (beq_neq k); [reflexivity|].
  intros ->. apply Hn. unfold firsts. apply in_map_iff. exists x. tauto.
Qed.
Lemma sum_ab_notin_b k s v : ~ In s (seconds v) -> sum_ab k s v = 0.
Proof.
  intros Hn. unfold sum_ab. rewrite filter_none; [reflexivity|].
  intros x Hx. rewrite (beq_neq s); [apply andb_false_r|].
  intros ->. apply Hn. unfold seconds. apply in_map_iff. exists x. tauto.
Qed.

Lemma firsts_app v a b z : firsts (v ++ [(a, b, z)]) = firsts v ++ [a].
Proof. unfold firsts. rewrite map_app. reflexivity. Qed.
Lemma seconds_app v a b z : seconds (v ++ [(a, b, z)]) = seconds v ++ [b].
Proof. unfold seconds. rewrite map_app. reflexivity. Qed.

Lemma mem_snoc k l a : mem k (l ++ [a]) = mem k l || beq k a.
Proof. unfold mem. rewrite existsb_app. cbn [existsb]. rewrite orb_false_r. reflexivity. Qed.
Lemma mem_false k l : mem k l = false <-> ~ In k l.
Proof. rewrite <- mem_In. destruct (mem k l); split; congruence. Qed.

(* count = sum of the row *)
Lemma wrap_zsum_wrap {A} (f : A -> Z) l :
  wrap64 (zsum (map (fun s => wrap64 (f s)) l)) = wrap64 (zsum (map f l)).
Proof.
  induction l as [|a r IH]; [reflexivity|].
  unfold zsum in *. cbn [map fold_right]. rewrite wrap64_idem.
  rewrite <- wrap64_idem_r, IH, wrap64_idem_r. reflexivity.
Qed.
Lemma zsum_map_add {A} (g h : A -> Z) l :
  zsum (map (fun s => g s + h s) l) = zsum (map g l) + zsum (map h l).
Proof. unfold zsum. induction l as [|a r IH]; cbn [map fold_right]; [reflexivity|]. rewrite IH. ring. Qed.
Lemma zsum_indicator b z l : NoDup l ->
  zsum (map (fun s => if beq s b then z else 0) l) = if mem b l then z else 0.
Proof.
  unfold zsum, mem. induction l as [|a r IH]; intros Hnd; cbn [map fold_right existsb]; [reflexivity|].
  inversion Hnd as [|? ? Hna Hnr]; subst. rewrite IH by exact Hnr. rewrite (beq_sym b a).
  destruct (beq a b) eqn:E; cbn [orb]; [|lia].
  apply beq_eq in E. subst a. apply mem_false in Hna. unfold mem in Hna. rewrite Hna. lia.
Qed.
Lemma zsum_const0 {A} (l : list A) : zsum (map (fun _ => 0) l) = 0.
Proof. unfold zsum. induction l; cbn [map fold_right]; [reflexivity|]. rewrite IHl. reflexivity. Qed.

Lemma sum_ab_cons k s a b z v :
  sum_ab k s ((a, b, z) :: v) = (if beq k a && beq s b then z else 0) + sum_ab k s v.
Proof.
  unfold sum_ab. cbn [filter fst snd]. destruct (beq k a && beq s b); [|lia].
  unfold zsum. cbn [map fold_right snd]. reflexivity.
Qed.
Lemma sum_a_cons k a b z v : sum_a k ((a, b, z) :: v) = (if beq k a then z else 0) + sum_a k v.
Proof.
  unfold sum_a. cbn [filter fst snd]. destruct (beq k a); [|lia].
  unfold zsum. cbn [map fold_right snd]. reflexivity.
Qed.

Lemma sum_row k keys v : NoDup keys -> (forall s, In s (seconds v) -> In s keys) ->
  zsum (map (fun s => sum_ab k s v) keys) = sum_a k v.
Proof.
  intros Hnd. induction v as [|[[a b] z] v IH]; intros Hin.
  - apply zsum_const0.
  - rewrite sum_a_cons, <- IH by (intros s Hs; apply Hin; right; exact Hs).
    rewrite (map_ext _ _ (fun s => sum_ab_cons k s a b z v)).
    rewrite zsum_map_add. f_equal.
    destruct (beq k a); cbn [andb].
    + rewrite zsum_indicator by exact Hnd.
      assert (M : mem b keys = true) by (apply mem_In; apply Hin; left; reflexivity).
      rewrite M. reflexivity.
    + apply zsum_const0.
Qed.

Lemma row_count k keys v : NoDup keys -> (forall s, In s (seconds v) -> In s keys) ->
  wrap64 (zsum (map (fun s => wrap64 (sum_ab k s v)) keys)) = wrap64 (sum_a k v).
Proof. intros Hnd Hin. rewrite wrap_zsum_wrap, sum_row by assumption. reflexivity. Qed.

(* ------------------------------------------------------------------ maps of rows *)
Lemma afind_map_vals {V W} (g : V -> W) k (m : amap V) :
  afind k (map (fun kr => (fst kr, g (snd kr))) m) = option_map g (afind k m).
Proof.
  induction m as [|[k' x] m IH]; cbn [map afind fst snd]; [reflexivity|].
  destruct (beq k k'); [reflexivity|exact IH].
Qed.
Lemma keys_map_vals {V W} (g : V -> W) (m : amap V) :
  map fst (map (fun kr => (fst kr, g (snd kr))) m) = map fst m.
Proof. rewrite map_map. reflexivity. Qed.

Lemma afind_ins k i (m : amap skrow) :
  afind k (map (fun kr : bytes * skrow => (fst kr, (fst (snd kr), insert_at (snd (snd kr)) i 0))) m)
  = option_map (fun r : skrow => (fst r, insert_at (snd r) i 0)) (afind k m).
Proof. exact (afind_map_vals (fun r : skrow => (fst r, insert_at (snd r) i 0)) k m). Qed.
Lemma keys_ins i (m : amap skrow) :
  map fst (map (fun kr : bytes * skrow => (fst kr, (fst (snd kr), insert_at (snd (snd kr)) i 0))) m) = map fst m.
Proof. exact (keys_map_vals (fun r : skrow => (fst r, insert_at (snd r) i 0)) m). Qed.

(* ------------------------------------------------------------------ the invariant *)
(* the state after a history whose valid samples are v *)
Definition big_inv (v : list (bytes * bytes * Z)) (st : subkey) : Prop :=
  ksorted (s_keys st) /\ asorted (s_idx st) /\
  (forall sk i, afind sk (s_idx st) = Some i <-> nth_error (s_keys st) i = Some sk) /\
  asorted (s_matches st) /\
  (forall s, In s (s_keys st) <-> In s (seconds v)) /\
  (forall k, afind k (s_matches st) = if mem k (firsts v) then Some (row v (s_keys st) k) else None).

Lemma big_inv_s0 : big_inv [] s0.
Proof.
  unfold big_inv, s0; cbn [s_keys s_idx s_matches firsts seconds map]. repeat split; try constructor.
  - discriminate.
  - destruct i; discriminate.
  - intros [].
  - intros [].
Qed.

(* item.count += v; item.submatches[i] += v, for the row of k *)
Lemma final_upd v k sk z m2 keys' i :
  asorted m2 -> NoDup keys' -> nth_error keys' i = Some sk ->
  (forall k', afind k' m2 = if mem k' (firsts (v ++ [(k, sk, z)]))
                            then Some (wrap64 (sum_a k' (v ++ [(k, sk, z)])),
                                       map (fun s => wrap64 (sum_ab k' s v)) keys')
                            else None) ->
  forall k', afind k' (aupd k (fun o => match o with Some (c, vec) => (c, vec_add vec i z) | None => (0, []) end) m2)
             = if mem k' (firsts (v ++ [(k, sk, z)])) then Some (row (v ++ [(k, sk, z)]) keys' k') else None.
Proof.
  intros Hs Hnd Hn M2 k'. destruct (bytes_dec k' k) as [->|Hne].
  - rewrite afind_aupd_same by exact Hs. rewrite M2.
    rewrite firsts_app, mem_snoc, beq_refl, orb_true_r. f_equal. unfold row. f_equal.
    rewrite (vec_add_map _ sk z keys' i Hnd Hn). apply map_ext. intros s.
    rewrite sum_ab_app, beq_refl. cbn [andb]. destruct (beq s sk).
    + apply add64_wrap.
    + rewrite Z.add_0_r. reflexivity.
  - rewrite afind_aupd_other by exact Hne. rewrite M2.
    destruct (mem k' (firsts (v ++ [(k, sk, z)]))); [|reflexivity].
    f_equal. unfold row. f_equal. apply map_ext. intros s.
    rewrite sum_ab_app, (beq_neq k' k) by exact Hne. cbn [andb]. rewrite Z.add_0_r. reflexivity.
Qed.

Lemma big_inv_step v st k sk z :
  big_inv v st -> big_inv (v ++ [(k, sk, z)]) (s_sample_value st k sk z).
Proof.
  destruct st as [m keys idx er]. unfold big_inv. cbn [s_keys s_idx s_matches].
  intros (K & AI & IX & AM & KS & MT).
  unfold s_sample_value. cbn [s_keys s_idx s_matches s_errors].
  set (g1 := fun o : option skrow => match o with
                                     | Some (c, vec) => (add64 c z, vec)
                                     | None => (add64 0 z, repeat 0 (length keys))
                                     end).
  set (m1 := aupd k g1 m).
  set (v' := v ++ [(k, sk, z)]).
  assert (AM1 : asorted m1) by (apply aupd_sorted; exact AM).
  assert (M1 : forall k', afind k' m1 = if mem k' (firsts v')
                                        then Some (wrap64 (sum_a k' v'), map (fun s => wrap64 (sum_ab k' s v)) keys)
                                        else None).
  { intros k'. unfold m1, v'. rewrite firsts_app, mem_snoc. destruct (bytes_dec k' k) as [->|Hne].
    - rewrite afind_aupd_same by exact AM. rewrite beq_refl, orb_true_r. f_equal.
      rewrite MT, sum_a_app, beq_refl. destruct (mem k (firsts v)) eqn:E; cbn [g1 row].
      + f_equal. apply add64_wrap.
      + apply mem_false in E. rewrite (sum_a_notin _ _ E). f_equal.
        induction keys as [|a r IH]; [reflexivity|]. cbn [length repeat map].
        rewrite (sum_ab_notin_a _ _ _ E). f_equal.
        clear - E. induction r as [|b r IH]; [reflexivity|]. cbn [length repeat map].
        rewrite (sum_ab_notin_a _ _ _ E). f_equal. exact IH.
    - rewrite afind_aupd_other by exact Hne. rewrite MT, (beq_neq k' k), orb_false_r by exact Hne.
      destruct (mem k' (firsts v)); [|reflexivity]. unfold row. f_equal. f_equal.
      rewrite sum_a_app, (beq_neq k' k), Z.add_0_r by exact Hne. reflexivity. }
  assert (KS' : forall keys', (forall s, In s keys' <-> s = sk \/ In s keys) ->
                              forall s, In s keys' <-> In s (seconds v')).
  { intros keys' H s. unfold v'. rewrite seconds_app, in_app_iff, H, KS. cbn [In]. intuition. }
  destruct (afind sk idx) as [i|] eqn:E.
  - (* the sub-key exists *)
    apply IX in E. cbn [s_keys s_idx s_matches].
    assert (Hin : In sk keys) by (eapply nth_error_In; exact E).
    refine (conj K (conj AI (conj IX (conj _ (conj _ _))))).
    + apply aupd_sorted. exact AM1.
    + apply KS'. intros s. split; [tauto|]. intros [->|H]; assumption.
    + apply final_upd; try assumption. apply ksorted_NoDup. exact K.
  - (* a new sub-key *)
    assert (Hnin : ~ In sk keys).
    { intros Hin. apply In_nth_error in Hin as (i & Hi). apply IX in Hi. congruence. }
    pose proof (insert_alnum_uins keys sk Hnin) as EU.
    pose proof (insert_alnum_nth keys sk) as EN.
    pose proof (insert_alnum_map (fun s => wrap64 (sum_ab k s v)) keys sk) as EM0.
    assert (EM : forall k', insert_at (map (fun s => wrap64 (sum_ab k' s v)) keys) (snd (insert_alnum keys sk)) 0
                            = map (fun s => wrap64 (sum_ab k' s v)) (fst (insert_alnum keys sk))).
    { intros k'. rewrite <- insert_alnum_map. f_equal.
      rewrite sum_ab_notin_b; [reflexivity|]. rewrite <- KS. exact Hnin. }
    clear EM0.
    destruct (insert_alnum keys sk) as [keys' i]. cbn [fst snd] in *. subst keys'.
    cbn [s_keys s_idx s_matches].
    assert (K' : ksorted (uins sk keys)) by (apply uins_sorted; exact K).
    assert (ND : NoDup (uins sk keys)) by (apply ksorted_NoDup; exact K').
    refine (conj K' (conj _ (conj _ (conj _ (conj _ _))))).
    + apply regen_sorted. exact AI.
    + apply regen_spec; try assumption.
      intros s j H. apply In_uins. right. apply IX in H. eapply nth_error_In. exact H.
    + apply aupd_sorted. unfold asorted. rewrite keys_ins. exact AM1.
    + apply KS'. intros s. apply In_uins.
    + apply final_upd; try assumption.
      * unfold asorted. rewrite keys_ins. exact AM1.
      * intros k'. rewrite afind_ins.
        rewrite M1. unfold v'. destruct (mem k' (firsts (v ++ [(k, sk, z)]))); [|reflexivity].
        cbn [option_map fst snd]. rewrite EM. reflexivity.
Qed.

Lemma valid3_snoc h e :
  valid3 [0%N] (h ++ [e]) = valid3 [0%N] h ++ match parse3 [0%N] e with Some x => [x] | None => [] end.
Proof. unfold valid3. rewrite flat_map_app. cbn [flat_map]. rewrite app_nil_r. reflexivity. Qed.

Lemma s_run_snoc h e : s_run (h ++ [e]) = s_sample (s_run h) e.
Proof. unfold s_run. rewrite fold_left_app. reflexivity. Qed.

Lemma big_run h : big_inv (valid3 [0%N] h) (s_run h) /\ s_errors (s_run h) = nerr3 [0%N] h.
Proof.
  induction h as [|e h [IH IE]] using rev_ind.
  - split; [exact big_inv_s0|reflexivity].
  - rewrite s_run_snoc, valid3_snoc. unfold nerr3. rewrite filter_app, app_length. cbn [filter].
    unfold s_sample. destruct (parse3 [0%N] e) as [[[k sk] z]|].
    + split; [apply big_inv_step; exact IH|].
      cbn [length]. rewrite Nat.add_0_r.
      unfold s_sample_value. destruct (afind sk (s_idx (s_run h))).
      * cbn [s_errors]. exact IE.
      * destruct (insert_alnum (s_keys (s_run h)) sk). cbn [s_errors]. exact IE.
    + rewrite app_nil_r. split; [exact IH|]. cbn [s_errors length]. rewrite IE. unfold nerr3. lia.
Qed.

(* ------------------------------------------------------------------ C07: SubKeyCounter invariant *)
Definition sk_inv (s : subkey) : Prop :=
  ksorted (s_keys s) /\ asorted (s_idx s) /\
  (forall sk i, afind sk (s_idx s) = Some i <-> nth_error (s_keys s) i = Some sk) /\
  asorted (s_matches s) /\
  (forall k c vec, afind k (s_matches s) = Some (c, vec) ->
      length vec = length (s_keys s) /\ c = wrap64 (zsum vec)).

Lemma subkey_inv_proof : forall h, sk_inv (s_run h).
Proof.
  intros h. destruct (big_run h) as [(K & AI & IX & AM & KS & MT) _].
  unfold sk_inv. refine (conj K (conj AI (conj IX (conj AM _)))).
  intros k c vec H. rewrite MT in H. destruct (mem k (firsts (valid3 [0%N] h))); [|discriminate].
  unfold row in H. inversion H. split.
  - apply map_length.
  - symmetry. apply row_count.
    + apply ksorted_NoDup. exact K.
    + intros s. apply KS.
Qed.

(* ------------------------------------------------------------------ C07: equality with the specification *)
Lemma spec_subkey_eq h :
  spec_subkey h =
  let v := valid3 [0%N] h in
  mkS (map (fun k => (k, row v (usort (seconds v)) k)) (usort (firsts v)))
      (usort (seconds v)) (enum_from O (usort (seconds v))) (nerr3 [0%N] h).
Proof. reflexivity. Qed.

Lemma mem_usort k l : mem k (usort l) = mem k l.
Proof.
  destruct (mem k l) eqn:E.
  - apply mem_In. apply In_usort. apply mem_In. exact E.
  - apply mem_false. rewrite In_usort. apply mem_false. exact E.
Qed.

Lemma subkey_fold_proof : forall h, s_run h = spec_subkey h.
Proof.
  intros h. rewrite spec_subkey_eq. cbv zeta.
  destruct (big_run h) as [(K & AI & IX & AM & KS & MT) ER].
  destruct (s_run h) as [m keys idx er]. cbn [s_keys s_idx s_matches s_errors] in *.
  assert (EK : keys = usort (seconds (valid3 [0%N] h))).
  { apply ksorted_ext; [exact K | apply usort_sorted|]. intros x. rewrite In_usort. apply KS. }
  rewrite <- EK. f_equal.
  - apply amap_ext; [exact AM| |].
    + unfold asorted. rewrite keys_tab. apply usort_sorted.
    + intros k. rewrite afind_tab, mem_usort. apply MT.
  - apply amap_ext; [exact AI| |].
    + unfold asorted. rewrite keys_enum_from. exact K.
    + intros s. destruct (afind s idx) as [i|] eqn:E.
      * symmetry. apply afind_enum; [exact K|]. apply IX. exact E.
      * destruct (afind s (enum_from O keys)) as [i|] eqn:E2; [|reflexivity].
        apply afind_enum in E2; [|exact K]. apply IX in E2. congruence.
  - exact ER.
Qed.

(* readable corollary: cell (k, s) is the wrapped sum of the increments of the valid samples with
   key k and sub-key s; the count is the wrapped sum of all increments for k *)
Lemma subkey_cell_proof : forall h k s i, nth_error (s_keys (s_run h)) i = Some s ->
  forall c vec, afind k (s_matches (s_run h)) = Some (c, vec) ->
  nth i vec 0 = wrap64 (sum_ab k s (valid3 [0%N] h)) /\ c = wrap64 (sum_a k (valid3 [0%N] h)).
Proof.
  intros h k s i Hn c vec Hf.
  destruct (big_run h) as [(K & AI & IX & AM & KS & MT) _].
  rewrite MT in Hf. destruct (mem k (firsts (valid3 [0%N] h))); [|discriminate].
  unfold row in Hf. inversion Hf. split; [|reflexivity].
  apply nth_error_nth.
  apply (map_nth_error (fun s0 => wrap64 (sum_ab k s0 (valid3 [0%N] h)))). exact Hn.
Qed.

(* ------------------------------------------------------------------ C07: order independence *)
Lemma Permutation_filter' {A} (p : A -> bool) l1 l2 :
  Permutation l1 l2 -> Permutation (filter p l1) (filter p l2).
Proof.
  induction 1 as [|x l1 l2 _ IH|x y l|l1 l2 l3 _ IH1 _ IH2]; cbn [filter].
  - constructor.
  - destruct (p x); [constructor|]; exact IH.
  - destruct (p x), (p y); try apply Permutation_refl. constructor.
  - eapply Permutation_trans; eassumption.
Qed.

Lemma spec_subkey_perm h1 h2 : Permutation h1 h2 -> spec_subkey h1 = spec_subkey h2.
Proof.
  intros HP. rewrite !spec_subkey_eq. cbv zeta.
  assert (PV : Permutation (valid3 [0%N] h1) (valid3 [0%N] h2)) by (apply Permutation_flat_map; exact HP).
  set (v1 := valid3 [0%N] h1) in *. set (v2 := valid3 [0%N] h2) in *.
  assert (E1 : usort (firsts v1) = usort (firsts v2)) by (apply usort_perm, Permutation_map; exact PV).
  assert (E2 : usort (seconds v1) = usort (seconds v2)) by (apply usort_perm, Permutation_map; exact PV).
  assert (SA : forall k, sum_a k v1 = sum_a k v2).
  { intros k. unfold sum_a. apply zsum_perm, Permutation_map, Permutation_filter'. exact PV. }
  assert (SAB : forall k s, sum_ab k s v1 = sum_ab k s v2).
  { intros k s. unfold sum_ab. apply zsum_perm, Permutation_map, Permutation_filter'. exact PV. }
  assert (EN : nerr3 [0%N] h1 = nerr3 [0%N] h2).
  { unfold nerr3. f_equal. apply Permutation_length, Permutation_filter'. exact HP. }
  rewrite E1, E2, EN. f_equal.
  apply map_ext. intros k. f_equal. unfold row. rewrite SA. f_equal.
  apply map_ext. intros s. rewrite SAB. reflexivity.
Qed.

Lemma subkey_perm_proof : forall h1 h2, Permutation h1 h2 -> s_run h1 = s_run h2.
Proof. intros h1 h2 HP. rewrite !subkey_fold_proof. apply spec_subkey_perm. exact HP. Qed.
