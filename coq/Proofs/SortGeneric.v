(* C13: generic facts about the reference sort, order axioms on a key set, uniqueness of the
   sorted arrangement, Reverse, and comparators with closure state that behave like a pure one. *)
From Coq Require Import List Permutation Sorted Bool Lia.
From RareV Require Import Model.Sort.
Import ListNotations.

Section G.
Context {A : Type}.

Section OneOrder.
Variable less : A -> A -> bool.
Notation ltl := (lt less).

Lemma insert_perm x l : Permutation (x :: l) (insert less x l).
Proof.
  induction l as [|y r IH]; cbn; [reflexivity|].
  destruct (less x y); [reflexivity|].
  etransitivity; [apply perm_swap|]. now constructor.
Qed.

Lemma isort_perm l : Permutation l (isort less l).
Proof.
  induction l as [|x r IH]; cbn; [constructor|].
  etransitivity; [|apply insert_perm]. now constructor.
Qed.

Lemma order_on_incl l l' : incl l' l -> order_on less l -> order_on less l'.
Proof.
  intros Hi (Ha & Ht & Ho). repeat split.
  - intros a b Ia Ib. apply Ha; auto.
  - intros a b c Ia Ib Ic. apply Ht; auto.
  - intros a b Ia Ib. apply Ho; auto.
Qed.

(* the design sketch's statement: irreflexive + transitive (on all members) *)
Definition strict_on (l : list A) :=
  (forall a, In a l -> less a a = false) /\
  (forall a b c, In a l -> In b l -> In c l -> ltl a b -> ltl b c -> ltl a c).

Lemma sorted_perm_unique_aux : forall l1 l2 l,
  (forall x, In x l1 -> In x l) -> strict_on l ->
  Permutation l1 l2 -> StronglySorted ltl l1 -> StronglySorted ltl l2 -> l1 = l2.
Proof.
  induction l1 as [|a l1 IH]; intros l2 l Hsub (Hirr & Htr) Hp H1 H2.
  - apply Permutation_nil in Hp. now subst.
  - destruct l2 as [|b l2]; [apply Permutation_sym, Permutation_nil in Hp; discriminate|].
    inversion H1 as [|? ? H1s H1a]; subst. inversion H2 as [|? ? H2s H2b]; subst.
    assert (Hab : a = b).
    { assert (Inb : In b (a :: l1)) by (eapply Permutation_in; [apply Permutation_sym; exact Hp|now left]).
      assert (Ina : In a (b :: l2)) by (eapply Permutation_in; [exact Hp|now left]).
      destruct Inb as [->|Inb]; [reflexivity|]. destruct Ina as [->|Ina]; [reflexivity|].
      rewrite Forall_forall in H1a, H2b. pose proof (H1a _ Inb) as Lab. pose proof (H2b _ Ina) as Lba.
      assert (In a l) by (apply Hsub; now left). assert (In b l) by (apply Hsub; now right).
      pose proof (Htr a b a H H0 H Lab Lba) as Laa. unfold lt in Laa. rewrite (Hirr a H) in Laa. discriminate. }
    subst b. f_equal. apply (IH l2 l); auto.
    + intros x Hx. apply Hsub. now right.
    + split; auto.
    + eapply Permutation_cons_inv; eauto.
Qed.

Theorem sorted_perm_unique l l1 l2 : strict_on l ->
  Permutation l l1 -> Permutation l l2 -> StronglySorted ltl l1 -> StronglySorted ltl l2 -> l1 = l2.
Proof.
  intros Hs P1 P2 S1 S2. apply (sorted_perm_unique_aux l1 l2 l); auto.
  - intros x Hx. eapply Permutation_in; [apply Permutation_sym; exact P1|exact Hx].
  - etransitivity; [apply Permutation_sym; exact P1|exact P2].
Qed.

(* on distinct keys asymmetry alone makes the sorted arrangement unique *)
Lemma sorted_perm_unique_asym_aux : forall l1 l2 l,
  incl l1 l -> asymmetric_on less l -> NoDup l1 ->
  Permutation l1 l2 -> StronglySorted ltl l1 -> StronglySorted ltl l2 -> l1 = l2.
Proof.
  induction l1 as [|a l1 IH]; intros l2 l Hsub Has Hnd Hp H1 H2.
  - apply Permutation_nil in Hp. now subst.
  - destruct l2 as [|b l2]; [apply Permutation_sym, Permutation_nil in Hp; discriminate|].
    inversion H1 as [|? ? H1s H1a]; subst. inversion H2 as [|? ? H2s H2b]; subst.
    inversion Hnd as [|? ? Hna Hnd1]; subst.
    assert (Hab : a = b).
    { assert (Inb : In b (a :: l1)) by (eapply Permutation_in; [apply Permutation_sym; exact Hp|now left]).
      assert (Ina : In a (b :: l2)) by (eapply Permutation_in; [exact Hp|now left]).
      destruct Inb as [->|Inb]; [reflexivity|]. destruct Ina as [->|Ina]; [reflexivity|].
      rewrite Forall_forall in H1a, H2b. pose proof (H1a _ Inb) as Lab. pose proof (H2b _ Ina) as Lba.
      exfalso. apply (Has a b); auto.
      - apply Hsub. now left.
      - apply Hsub. now right.
      - intros ->. contradiction. }
    subst b. f_equal. apply (IH l2 l); auto.
    + intros x Hx. apply Hsub. now right.
    + eapply Permutation_cons_inv; eauto.
Qed.

Lemma insert_sorted l : order_on less l -> forall r x, incl (x :: r) l -> NoDup (x :: r) ->
  StronglySorted ltl r -> StronglySorted ltl (insert less x r).
Proof.
  intros (Has & Htr & Hto). induction r as [|y r IH]; intros x Hi Hnd Hs; cbn.
  - constructor; constructor.
  - inversion Hs as [|? ? Hsr Hy]; subst.
    inversion Hnd as [|? ? Hnx Hnd1]; subst. inversion Hnd1 as [|? ? Hny Hnd2]; subst.
    assert (Ix : In x l) by (apply Hi; now left).
    assert (Iy : In y l) by (apply Hi; right; now left).
    assert (Hxy : x <> y) by (intros ->; apply Hnx; now left).
    destruct (less x y) eqn:E.
    + constructor; [assumption|]. constructor; [exact E|].
      rewrite Forall_forall in *. intros z Hz.
      apply (Htr x y z); auto.
      * apply Hi. right. now right.
      * intros ->. contradiction.
      * intros ->. apply Hnx. now right.
    + constructor.
      * apply IH; auto.
        -- intros z [->|Hz]; apply Hi; [now left|right; now right].
        -- constructor; [|assumption]. intros Hx. apply Hnx. now right.
      * assert (Lyx : ltl y x).
        { destruct (Hto x y Ix Iy Hxy) as [L|L]; [|exact L]. unfold lt in L. congruence. }
        eapply Permutation_Forall; [apply insert_perm|]. constructor; assumption.
Qed.

Lemma isort_sorted l : order_on less l -> forall r, incl r l -> NoDup r -> StronglySorted ltl (isort less r).
Proof.
  intros Ho. induction r as [|x r IH]; intros Hi Hnd; cbn; [constructor|].
  inversion Hnd as [|? ? Hnx Hnd1]; subst.
  apply (insert_sorted l Ho).
  - intros z [->|Hz]; [apply Hi; now left|].
    apply Hi. right. eapply Permutation_in; [apply Permutation_sym, isort_perm|exact Hz].
  - constructor.
    + intros Hx. apply Hnx. eapply Permutation_in; [apply Permutation_sym, isort_perm|exact Hx].
    + eapply Permutation_NoDup; [apply isort_perm|assumption].
  - apply IH; auto. intros z Hz. apply Hi. now right.
Qed.

(* any correct sorting algorithm: a sorted arrangement of the keys is THE reference arrangement *)
Theorem sort_unique l out : order_on less l -> NoDup l ->
  Permutation l out -> StronglySorted ltl out -> out = isort less l.
Proof.
  intros Ho Hnd Hp Hs.
  apply (sorted_perm_unique_asym_aux out (isort less l) l).
  - intros x Hx. eapply Permutation_in; [apply Permutation_sym; exact Hp|exact Hx].
  - apply Ho.
  - eapply Permutation_NoDup; eauto.
  - etransitivity; [apply Permutation_sym; exact Hp|apply isort_perm].
  - exact Hs.
  - apply (isort_sorted l Ho); auto. apply incl_refl.
Qed.

(* every arrangement of the same keys sorts to the same sequence *)
Theorem isort_perm_invariant l l' : order_on less l -> NoDup l -> Permutation l l' ->
  isort less l' = isort less l.
Proof.
  intros Ho Hnd Hp. apply sort_unique; auto.
  - etransitivity; [exact Hp|apply isort_perm].
  - apply (isort_sorted l Ho).
    + intros x Hx. eapply Permutation_in; [apply Permutation_sym; exact Hp|exact Hx].
    + eapply Permutation_NoDup; eauto.
Qed.

Lemma SS_snoc (R : A -> A -> Prop) l a :
  StronglySorted R l -> Forall (fun x => R x a) l -> StronglySorted R (l ++ [a]).
Proof.
  induction l as [|x l IH]; intros Hs Hf; cbn.
  - constructor; constructor.
  - inversion Hs; subst. inversion Hf; subst. constructor; [auto|].
    apply Forall_app. split; [assumption|]. constructor; [assumption|constructor].
Qed.

Lemma SS_rev (R R' : A -> A -> Prop) l :
  NoDup l -> (forall a b, In a l -> In b l -> a <> b -> R a b -> R' b a) ->
  StronglySorted R l -> StronglySorted R' (rev l).
Proof.
  induction l as [|x l IH]; intros Hnd Himp Hs; cbn; [constructor|].
  inversion Hs as [|? ? Hsl Hx]; subst. inversion Hnd as [|? ? Hnx Hnd1]; subst.
  apply SS_snoc.
  - apply IH; auto. intros a b Ia Ib. apply Himp; now right.
  - rewrite Forall_forall in *. intros z Hz. apply in_rev in Hz.
    apply Himp; [now left|now right| |auto].
    intros ->. contradiction.
Qed.

Lemma SS_impl_nodup (R R' : A -> A -> Prop) l :
  NoDup l -> (forall a b, In a l -> In b l -> a <> b -> R a b -> R' a b) ->
  StronglySorted R l -> StronglySorted R' l.
Proof.
  induction l as [|x l IH]; intros Hnd Himp Hs; [constructor|].
  inversion Hs as [|? ? Hsl Hx]; subst. inversion Hnd as [|? ? Hnx Hnd1]; subst.
  constructor.
  - apply IH; auto. intros a b Ia Ib. apply Himp; now right.
  - rewrite Forall_forall in *. intros z Hz. apply Himp; [now left|now right| |auto].
    intros ->. contradiction.
Qed.

Lemma reverse_order_on l : order_on less l -> order_on (reverse less) l.
Proof.
  intros (Has & Htr & Hto). unfold reverse, lt. repeat split.
  - intros a b Ia Ib Hab H1 H2.
    apply negb_true_iff in H1, H2.
    destruct (Hto a b Ia Ib Hab) as [L|L]; unfold lt in L; congruence.
  - intros a b c Ia Ib Ic Hab Hbc Hac H1 H2.
    apply negb_true_iff in H1, H2. apply negb_true_iff.
    destruct (less a c) eqn:E; [|reflexivity]. exfalso.
    assert (Lba : ltl b a).
    { destruct (Hto a b Ia Ib Hab) as [L|L]; [unfold lt in L; congruence|exact L]. }
    assert (Lcb : ltl c b).
    { destruct (Hto b c Ib Ic Hbc) as [L|L]; [unfold lt in L; congruence|exact L]. }
    assert (Lca : ltl c a) by (apply (Htr c b a); auto).
    apply (Has a c); auto.
  - intros a b Ia Ib Hab. unfold lt, reverse.
    destruct (less a b) eqn:E1; destruct (less b a) eqn:E2; cbn; auto.
    exfalso. apply (Has a b); auto.
Qed.

End OneOrder.

(* sorting with the reversed comparator gives the reversed sequence *)
Theorem isort_reverse (less : A -> A -> bool) l : order_on less l -> NoDup l ->
  isort (reverse less) l = rev (isort less l).
Proof.
  intros Ho Hnd. symmetry. apply sort_unique; auto.
  - now apply reverse_order_on.
  - etransitivity; [apply isort_perm|apply Permutation_rev].
  - assert (Hp : Permutation l (isort less l)) by apply isort_perm.
    apply (SS_rev (lt less)).
    + eapply Permutation_NoDup; eauto.
    + intros a b Ia Ib Hab L. unfold lt, reverse in *. apply negb_true_iff.
      destruct (less b a) eqn:E; [|reflexivity]. exfalso.
      destruct Ho as (Has & _ & _). apply (Has a b); auto;
        eapply Permutation_in; try (apply Permutation_sym; exact Hp); assumption.
    + apply (isort_sorted less l Ho); auto. apply incl_refl.
Qed.



(* two comparators that agree on the members of a key set sort it alike *)
Lemma insert_ext (f g : A -> A -> bool) l :
  (forall a b, In a l -> In b l -> f a b = g a b) ->
  forall r x, incl (x :: r) l -> insert f x r = insert g x r.
Proof.
  intros He. induction r as [|y r IH]; intros x Hi; cbn; [reflexivity|].
  rewrite He by (apply Hi; cbn; auto).
  destruct (g x y); [reflexivity|]. f_equal. apply IH.
  intros z [->|Hz]; apply Hi; [now left|right; now right].
Qed.
Lemma isort_ext (f g : A -> A -> bool) l :
  (forall a b, In a l -> In b l -> f a b = g a b) ->
  forall r, incl r l -> isort f r = isort g r.
Proof.
  intros He. induction r as [|x r IH]; intros Hi; cbn; [reflexivity|].
  rewrite IH by (intros z Hz; apply Hi; now right).
  apply (insert_ext f g l He).
  intros z [->|Hz]; [apply Hi; now left|].
  apply Hi. right. eapply Permutation_in; [apply Permutation_sym, isort_perm|exact Hz].
Qed.

(* a comparator with closure state that, on a key set and from the states P, decides like the
   pure comparator f and stays in P: the stateful sort is the pure sort *)
Section Pure.
Context {S : Type}.
Variable cmp : scmp S A.
Variable P : S -> Prop.
Variable f : A -> A -> bool.
Variable l : list A.
Hypothesis Hpure : forall st a b, P st -> In a l -> In b l ->
  fst (cmp st a b) = f a b /\ P (snd (cmp st a b)).

Lemma sinsert_pure : forall r x st, P st -> incl (x :: r) l ->
  fst (sinsert cmp st x r) = insert f x r /\ P (snd (sinsert cmp st x r)).
Proof.
  induction r as [|y r IH]; intros x st Hp Hi; cbn; [auto|].
  destruct (Hpure st x y Hp) as [E1 E2]; [apply Hi; now left|apply Hi; right; now left|].
  destruct (cmp st x y) as [b st1]. cbn in E1, E2. subst b.
  destruct (f x y); cbn; [auto|].
  destruct (IH x st1 E2) as [E3 E4].
  { intros z [->|Hz]; apply Hi; [now left|right; now right]. }
  destruct (sinsert cmp st1 x r) as [r' st2]. cbn in *. subst r'. auto.
Qed.

Lemma sisort_pure : forall r st, P st -> incl r l ->
  fst (sisort cmp st r) = isort f r /\ P (snd (sisort cmp st r)).
Proof.
  induction r as [|x r IH]; intros st Hp Hi; cbn; [auto|].
  destruct (IH st Hp) as [E1 E2]; [intros z Hz; apply Hi; now right|].
  destruct (sisort cmp st r) as [r' st1]. cbn in E1, E2. subst r'.
  apply sinsert_pure; auto.
  intros z [->|Hz]; [apply Hi; now left|].
  apply Hi. right. eapply Permutation_in; [apply Permutation_sym, isort_perm|exact Hz].
Qed.

Lemma srun_pure : forall ps st, P st -> (forall p, In p ps -> In (fst p) l /\ In (snd p) l) ->
  fst (srun cmp st ps) = map (fun p => f (fst p) (snd p)) ps /\ P (snd (srun cmp st ps)).
Proof.
  induction ps as [|[a b] ps IH]; intros st Hp Hi; cbn; [auto|].
  destruct (Hi (a, b)) as [Ia Ib]; [now left|]. cbn in Ia, Ib.
  destruct (Hpure st a b Hp Ia Ib) as [E1 E2].
  destruct (cmp st a b) as [x st1]. cbn in E1, E2. subst x.
  destruct (IH st1 E2) as [E3 E4]; [intros p Hin; apply Hi; now right|].
  destruct (srun cmp st1 ps) as [xs st2]. cbn in *. subst xs. auto.
Qed.
End Pure.

End G.
