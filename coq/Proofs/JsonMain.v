(* C16: main statements about json_view. *)
From Coq Require Import List NArith ZArith Bool Lia Permutation.
From RareV Require Import Base.Hex Base.Num Base.Res Gen.GenJson Model.Json
  Proofs.JsonEscape Proofs.JsonNumber Proofs.JsonParse Proofs.JsonSort.
Import ListNotations.


Lemma member_ok_b_spec text j : member_ok_b text j = true -> member_ok text j.
Proof.
  destruct j as [t|lit|b]; cbn [member_ok_b member_ok].
  - intros H. apply bytes_eqb_eq. exact H.
  - destruct (dec_val lit) as [a|]; [|discriminate]. destruct (dec_val text) as [c|]; [|discriminate].
    unfold pair_eqb. intros H. apply andb_true_iff in H as [H1 H2].
    apply Z.eqb_eq in H1. apply Z.eqb_eq in H2. destruct a, c; cbn in *; subst. split; eauto.
  - auto.
Qed.

Lemma members_ok_b_spec exp : forall ms, members_ok_b exp ms = true ->
  Forall2 (fun e m => fst m = fst e /\ member_ok (snd e) (snd m)) exp ms.
Proof.
  induction exp as [|[k t] exp IH]; intros [|[k' j] ms]; cbn [members_ok_b]; try discriminate.
  - constructor.
  - intros H. apply andb_true_iff in H as [H H3]. apply andb_true_iff in H as [H1 H2].
    constructor; [|apply IH; exact H3]. cbn [fst snd]. split.
    + symmetry. apply bytes_eqb_eq. exact H1.
    + apply member_ok_b_spec. exact H2.
Qed.

(* the boolean form used on observed outputs means: valid JSON whose members are faithful *)
Theorem view_ok_b_spec exp text : view_ok_b exp text = true ->
  exists ms, json_parse text = Some ms /\
             Forall2 (fun e m => fst m = fst e /\ member_ok (snd e) (snd m)) exp ms.
Proof.
  unfold view_ok_b. destruct (json_parse text) as [ms|]; [|discriminate].
  intros H. exists ms. split; [reflexivity|]. apply members_ok_b_spec. exact H.
Qed.

(* ------------------------------------------------------------------ valid and faithful *)
Lemma view_inv nm nb tbl line ix text : json_view nm nb tbl line ix = Ok text ->
  exists ms, expected_members nm nb tbl line ix = Ok ms /\ text = render (infer_members ms).
Proof.
  unfold json_view. destruct (expected_members nm nb tbl line ix) as [ms|]; cbn [rmap]; [|discriminate].
  intros H. inversion H. eauto.
Qed.

Theorem C16_valid_faithful_proof nm nb tbl line ix text :
  json_view nm nb tbl line ix = Ok text ->
  exists exp ms, expected_members nm nb tbl line ix = Ok exp /\
                 json_parse text = Some ms /\
                 Forall2 (fun e m => fst m = fst e /\ member_ok (snd e) (snd m)) exp ms.
Proof.
  intros H. destruct (view_inv _ _ _ _ _ _ H) as (exp & E & ->).
  destruct (view_ok_b_spec exp _ (view_ok_render exp)) as (ms & P & F).
  exists exp, ms. auto.
Qed.

(* sharper: the reader returns exactly the members as inferred from the texts *)
Theorem C16_parse_exact_proof nm nb tbl line ix text :
  json_view nm nb tbl line ix = Ok text ->
  exists exp, expected_members nm nb tbl line ix = Ok exp /\ json_parse text = Some (infer_members exp).
Proof.
  intros H. destruct (view_inv _ _ _ _ _ _ H) as (exp & E & ->).
  exists exp. split; [exact E|]. apply parse_render. apply infer_members_wf.
Qed.

Theorem C16_check_sound_proof nm nb tbl line ix text :
  json_view nm nb tbl line ix = Ok text ->
  C16_check_view (expected_members nm nb tbl line ix) [text] = true.
Proof.
  intros H. destruct (view_inv _ _ _ _ _ _ H) as (exp & E & ->).
  rewrite E. cbn [C16_check_view]. apply view_ok_render.
Qed.

(* what "inferred" means, clause by clause *)
Theorem infer_spec v :
  match infer v with
  | JNum lit => lit = v /\ is_numeric v = true
  | JBool true => is_numeric v = false /\ fold_eq w_true v = true
  | JBool false => is_numeric v = false /\ fold_eq w_true v = false /\ fold_eq w_false v = true
  | JStr s => s = v /\ is_numeric v = false /\ fold_eq w_true v = false /\ fold_eq w_false v = false
  end.
Proof.
  unfold infer. destruct (is_numeric v); [auto|].
  destruct (fold_eq w_true v); [auto|]. destruct (fold_eq w_false v); auto.
Qed.

(* ------------------------------------------------------------------ deterministic *)
Theorem C16_deterministic_proof nm nb tbl tbl' line ix :
  Permutation tbl tbl' -> json_view nm nb tbl line ix = json_view nm nb tbl' line ix.
Proof.
  intros P. unfold json_view, expected_members, named_members. rewrite (sort_perm _ _ P). reflexivity.
Qed.

(* ------------------------------------------------------------------ no panic under the matcher contract *)
Local Open Scope Z_scope.


Lemma pairs_nth n : forall (k : nat) ix, pairs_ok n ix = true -> (2 * k + 1 < length ix)%nat ->
  let st := nth (2 * k) ix 0 in let en := nth (2 * k + 1) ix 0 in
  (st <? 0) || (en <? 0) || ((st <=? en) && (en <=? n)) = true.
Proof.
  induction k as [|k IH]; intros ix H L; destruct ix as [|st [|en r]]; cbn [length] in L; try lia;
    cbn [pairs_ok] in H; apply andb_true_iff in H as [H1 H2].
  - exact H1.
  - replace (2 * S k)%nat with (S (S (2 * k))) by lia.
    replace (S (S (2 * k)) + 1)%nat with (S (S (2 * k + 1))) by lia.
    cbn [nth]. apply IH; [exact H2|lia].
Qed.

Lemma get_match_ok line ix idx : pairs_ok (zlen line) ix = true -> exists v, get_match line ix idx = Ok v.
Proof.
  intros H. unfold get_match.
  destruct ((idx * 2 <? 0) || (zlen ix <=? idx * 2 + 1)) eqn:G; [eauto|].
  apply orb_false_iff in G as [G1 G2]. apply Z.ltb_ge in G1. apply Z.leb_gt in G2. unfold zlen in G2.
  pose proof (pairs_nth (zlen line) (Z.to_nat idx) ix H) as P.
  assert (L : (2 * Z.to_nat idx + 1 < length ix)%nat) by lia.
  specialize (P L). cbv zeta in P. unfold znth.
  replace (Z.to_nat (idx * 2)) with (2 * Z.to_nat idx)%nat by lia.
  replace (Z.to_nat (idx * 2 + 1)) with (2 * Z.to_nat idx + 1)%nat by lia.
  set (st := nth (2 * Z.to_nat idx) ix 0) in *. set (en := nth (2 * Z.to_nat idx + 1) ix 0) in *.
  destruct ((st <? 0) || (en <? 0)) eqn:U; [eauto|].
  cbn [orb] in P. apply andb_true_iff in P as [P1 P2]. apply Z.leb_le in P1. apply Z.leb_le in P2.
  assert (E1 : en <? st = false) by (apply Z.ltb_ge; lia).
  assert (E2 : zlen line <? en = false) by (apply Z.ltb_ge; lia).
  rewrite E1, E2. cbn [orb]. eauto.
Qed.

Lemma rmapM_ok {A B} (f : A -> result B) l : (forall a, exists b, f a = Ok b) -> exists bs, rmapM f l = Ok bs.
Proof.
  intros H. induction l as [|a l (bs & IH)]; [eexists; reflexivity|].
  destruct (H a) as (b & E). cbn [rmapM]. rewrite E. cbn [rbind]. rewrite IH. cbn [rbind]. eauto.
Qed.

Theorem C16_no_panic_proof nm nb tbl line ix :
  pairs_ok (zlen line) ix = true -> exists text, json_view nm nb tbl line ix = Ok text.
Proof.
  intros H. unfold json_view.
  assert (E : exists ms, expected_members nm nb tbl line ix = Ok ms).
  { unfold expected_members.
    assert (A : exists a, (if nm then named_members tbl line ix else Ok []) = Ok a).
    { destruct nm; [|eauto]. unfold named_members. apply rmapM_ok. intros e.
      destruct (get_match_ok line ix (snd e) H) as (v & ->). cbn [rbind]. eauto. }
    assert (B : exists b, (if nb then numbered_members line ix else Ok []) = Ok b).
    { destruct nb; [|eauto]. unfold numbered_members.
      destruct (rmapM_ok (fun i : nat => v <- get_match line ix (Z.of_nat i);; Ok (itoa (Z.of_nat i), v))
                         (seq 0 (Z.to_nat (Z.quot (zlen ix) 2)))) as (bs & ->).
      - intros i. destruct (get_match_ok line ix (Z.of_nat i) H) as (v & ->). cbn [rbind]. eauto.
      - cbn [rbind]. eauto. }
    destruct A as (a & ->). destruct B as (b & ->). cbn [rbind]. eauto. }
  destruct E as (ms & ->). cbn [rmap]. eauto.
Qed.

Local Close Scope Z_scope.

(* ------------------------------------------------------------------ member names *)
Local Open Scope N_scope.


Lemma word_plain_all : forallb (fun b => implb (is_word b) (plain_byte b)) (map N.of_nat (seq 0 128)) = true.
Proof. vm_compute. reflexivity. Qed.

(* regexp group names ([A-Za-z0-9_]+) never need escaping, whatever else the table escapes *)
Lemma word_plain b : is_word b = true -> plain_byte b = true.
Proof.
  intros W. pose proof word_plain_all as A. rewrite forallb_forall in A.
  assert (I : In b (map N.of_nat (seq 0 128))).
  { apply in_map_iff. exists (N.to_nat b). split; [apply N2Nat.id|]. apply in_seq.
    unfold is_word, is_digit in W.
    repeat (apply orb_true_iff in W as [W|W]);
      try (apply andb_true_iff in W as [W1 W2]; apply N.leb_le in W1; apply N.leb_le in W2; lia).
    apply N.eqb_eq in W. lia. }
  specialize (A b I). rewrite W in A. exact A.
Qed.

(* a name made of plain bytes appears verbatim between the quotes *)
Theorem C16_key_safe_proof first k j : forallb plain_byte k = true ->
  write_member first k j = (if first then [] else [44; 32]) ++ [34] ++ k ++ [34; 58; 32] ++ write_val j.
Proof. intros H. unfold write_member. rewrite (escape_plain k H). reflexivity. Qed.

Theorem C16_word_key_safe_proof first k j : forallb is_word k = true ->
  write_member first k j = (if first then [] else [44; 32]) ++ [34] ++ k ++ [34; 58; 32] ++ write_val j.
Proof.
  intros H. apply C16_key_safe_proof. rewrite forallb_forall in *. intros b Hb. apply word_plain. auto.
Qed.

(* ------------------------------------------------------------------ true/false: ASCII case only *)
Lemma fold_eq_ascii w : forall s, fold_eq w s = true <-> map ascii_lower s = w.
Proof.
  induction w as [|c w IH]; intros [|b r]; cbn [fold_eq map]; split; intros H; try discriminate; try reflexivity.
  - apply andb_true_iff in H as [H1 H2]. apply N.eqb_eq in H1. apply IH in H2. congruence.
  - inversion H; subst. rewrite N.eqb_refl. cbn [andb]. apply IH. reflexivity.
Qed.

(* the code as found (strings.EqualFold) wrote the capture fal<U+017F>e as the boolean false: the
   member does not decode to the captured text; the repaired code writes it as a string *)
Definition long_s_false : bytes := [102; 97; 108; 197; 191; 101].

Lemma bool_asfound_refuted_proof :
  exists v, infer_asfound v = JBool false /\ member_ok_b v (infer_asfound v) = false /\ infer v = JStr v.
Proof. exists long_s_false. vm_compute. auto. Qed.
