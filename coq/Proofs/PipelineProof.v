(* C01: conservation invariant, channel discipline, progress (no deadlock), termination variant,
   and the final-state theorem, for every schedule of the transition system of Model/Pipeline.v. *)
From Coq Require Import List NArith Arith Lia Permutation Bool.
From AAC_tactics Require Import AAC Instances.
Import Instances.Lists.
From RareV Require Import Base.Hex Model.Batch Model.Pipeline.
Import ListNotations.

Section PipeProof.
Variable K : Type.
Variable classify : lineid -> cls K.
Variable c : cfg.

Notation state := (state K).
Notation step := (step K classify c).
Notation key_of := (key_of K classify).
Notation isM := (isM K classify).
Notation isI := (isI K classify).

(* ---- accounting ---- *)
Definition r_lines (r : rstate) : list lineid :=
  match r with RNew true _ bs => flat_map b_ids bs | RNew false _ _ => [] | RSend _ bs => flat_map b_ids bs | RDone => [] end.
Definition r_errs (r : rstate) : nat :=
  match r with RNew true e _ => b2n e | RNew false _ _ => 1 | RSend e _ => b2n e | RDone => 0 end.
Definition w_lines (w : wstate K) : list lineid := match w with WBusy src no ls _ => numbered src no ls | _ => [] end.
Definition w_out (w : wstate K) : list K := match w with WBusy _ _ _ out => out | _ => [] end.

Definition pending (s : state) : list lineid :=
  flat_map r_lines (rd K s) ++ flat_map b_ids (ch K s) ++ flat_map w_lines (wk K s).
Definition keys_inflight (s : state) : list K :=
  flat_map w_out (wk K s) ++ concat (rch K s) ++ consumed K s.

(* every line is in exactly one place; the counters equal the true counts of what was classified *)
Definition Inv (input : list lineid) (nerrs : nat) (s : state) : Prop :=
  Permutation (pending s ++ processed K s) input /\
  Permutation (keys_inflight s) (flat_map key_of (processed K s)) /\
  cR K s = length (processed K s) /\
  cM K s = list_sum (map isM (processed K s)) /\
  cI K s = list_sum (map isI (processed K s)) /\
  errs K s + list_sum (map r_errs (rd K s)) = nerrs.

Lemma flat_map_mid {A B} (f : A -> list B) l1 x l2 :
  flat_map f (l1 ++ x :: l2) = flat_map f l1 ++ f x ++ flat_map f l2.
Proof. rewrite flat_map_app. reflexivity. Qed.

Lemma list_sum_app l1 l2 : list_sum (l1 ++ l2) = list_sum l1 + list_sum l2.
Proof. induction l1; simpl; lia. Qed.

Lemma list_sum_mid {A} (f : A -> nat) l1 x l2 : list_sum (map f (l1 ++ x :: l2)) = list_sum (map f l1) + f x + list_sum (map f l2).
Proof. rewrite map_app, list_sum_app. simpl. lia. Qed.

Ltac perm_tac :=
  repeat rewrite ?flat_map_mid, ?concat_app, ?app_nil_r, <- ?app_assoc in *; cbn [flat_map r_lines w_lines w_out numbered concat app b_ids b_src b_start b_lines] in *;
  repeat rewrite ?flat_map_mid, ?concat_app, ?app_nil_r, <- ?app_assoc in *.

Lemma inv_step input ne s s' : Inv input ne s -> step s s' -> Inv input ne s'.
Proof.
  intros (Hp & Hk & HR & HM & HI & HE) Hs.
  inversion Hs; subst; unfold Inv, pending, keys_inflight in *; cbn [rd ch wk rch consumed processed cR cM cI errs] in *;
    try match goal with H : rd K s = _ |- _ => rewrite H in * end;
    try match goal with H : wk K s = _ |- _ => rewrite H in * end;
    try match goal with H : ch K s = _ |- _ => rewrite H in * end;
    try match goal with H : rch K s = _ |- _ => rewrite H in * end;
    rewrite ?list_sum_mid in *; cbn [r_errs b2n] in *;
    perm_tac; repeat split; auto.
  all: try (rewrite ?app_length, ?map_app, ?list_sum_app, ?flat_map_app; simpl; lia).
  all: try lia.
  all: try (etransitivity; [| eassumption]).
  all: try (etransitivity; [| rewrite flat_map_app; simpl; rewrite app_nil_r; apply Permutation_app; [eassumption | reflexivity]]).
  all: repeat match goal with |- context [?x :: ?l] => lazymatch l with nil => fail | _ => change (x :: l) with ([x] ++ l) end end.
  all: try aac_reflexivity.
  all: try (rewrite <- Hk; aac_reflexivity).
  all: unfold b_ids in *.
  all: try aac_reflexivity.
  repeat apply Permutation_app_head. symmetry. cbn [app].
  etransitivity; [apply Permutation_cons_append|]. rewrite <- !app_assoc. reflexivity.
Qed.

(* ---------- channel discipline ---------- *)
Definition n_send (r : list rstate) := length (filter (fun x => match x with RSend _ _ => true | _ => false end) r).
Definition Aux (s : state) : Prop :=
  sema K s = n_send (rd K s) /\
  (closed K s = true -> all_done_r (rd K s)) /\           (* c is closed only after every reader is done: no send on a closed channel *)
  (In WDone (wk K s) -> closed K s = true /\ ch K s = []) /\ (* a worker exits only when c is closed and drained *)
  (rclosed K s = true -> all_done_w K (wk K s)) /\           (* readChan is closed only after every worker exited *)
  (cdone K s = true -> rclosed K s = true /\ rch K s = []).

Lemma n_send_mid r1 x r2 : n_send (r1 ++ x :: r2) = n_send r1 + (match x with RSend _ _ => 1 | _ => 0 end) + n_send r2.
Proof. unfold n_send. rewrite filter_app, app_length. simpl. destruct x; simpl; lia. Qed.

Lemma all_done_r_mid r1 x r2 : all_done_r (r1 ++ x :: r2) -> x = RDone.
Proof. unfold all_done_r. rewrite Forall_app. intros (_ & H). now inversion H. Qed.
Lemma all_done_w_mid (w1 : list (wstate K)) x w2 : all_done_w K (w1 ++ x :: w2) -> x = WDone.
Proof. unfold all_done_w. rewrite Forall_app. intros (_ & H). now inversion H. Qed.
Lemma all_done_r_set r1 x r2 : all_done_r (r1 ++ x :: r2) -> all_done_r (r1 ++ RDone :: r2).
Proof. unfold all_done_r. rewrite !Forall_app. intros (H1 & H2). split; auto. inversion H2; subst. constructor; auto. Qed.

Lemma in_mid_other {A} (y : A) l1 x x' l2 : In y (l1 ++ x' :: l2) -> y <> x' -> In y (l1 ++ x :: l2).
Proof. rewrite !in_app_iff. simpl. intros [H|[H|H]] Hn; auto. congruence. Qed.

Lemma aux_step s s' : Aux s -> step s s' -> Aux s'.
Proof.
  intros (Hs & Hc & Hw & Hrc & Hcd) Hst.
  inversion Hst; subst; unfold Aux; cbn [rd sema ch closed wk rch rclosed consumed cdone];
    try match goal with H : rd K s = _ |- _ => rewrite H in * end;
    try match goal with H : wk K s = _ |- _ => rewrite H in * end.
  all: rewrite ?n_send_mid in *; simpl in *.
  all: repeat split; intros; try lia; try tauto; try congruence.
  all: try (match goal with H : all_done_r _ |- all_done_r _ => exact (all_done_r_set _ _ _ H) end).
  all: try (match goal with Hx : closed K _ = true |- _ => apply Hc in Hx; apply all_done_r_mid in Hx; discriminate end).
  all: try (match goal with Hx : closed K _ = true |- all_done_r _ => apply Hc in Hx; exact (all_done_r_set _ _ _ Hx) end).
  all: try (match goal with Hx : rclosed K _ = true |- _ => apply Hrc in Hx; apply all_done_w_mid in Hx; discriminate end).
  all: try (match goal with Hx : In WDone (_ ++ _ :: _) |- _ =>
              eapply (in_mid_other WDone) in Hx; [destruct (Hw Hx); congruence | discriminate] end).
  all: try (match goal with Hx : In WDone _ |- _ => destruct (Hw Hx); congruence end).
  all: try (match goal with Hx : cdone K _ = true |- _ => destruct (Hcd Hx); congruence end).
Qed.

(* ---------- progress: no deadlock ---------- *)
Lemma wk_cases (w : list (wstate K)) :
  (exists w1 src no ls out w2, w = w1 ++ WBusy src no ls out :: w2) \/
  (exists w1 w2, w = w1 ++ WIdle :: w2) \/ all_done_w K w.
Proof.
  induction w as [|x w IH]; [right; right; constructor|].
  destruct x as [|src no ls out|].
  - right; left. exists [], w. reflexivity.
  - left. exists [], src, no, ls, out, w. reflexivity.
  - destruct IH as [(w1 & src & no & ls & out & w2 & ->)|[(w1 & w2 & ->)|H]].
    + left. exists (WDone :: w1), src, no, ls, out, w2. reflexivity.
    + right; left. exists (WDone :: w1), w2. reflexivity.
    + right; right. constructor; auto.
Qed.

Lemma rd_cases (r : list rstate) :
  (exists r1 e bs r2, r = r1 ++ RSend e bs :: r2) \/
  (n_send r = 0 /\ ((exists r1 ok e bs r2, r = r1 ++ RNew ok e bs :: r2 /\ no_new r1) \/ all_done_r r)).
Proof.
  induction r as [|x r IH]; [right; split; [reflexivity|right; constructor]|].
  destruct x as [ok e bs|e bs|].
  - destruct IH as [(r1 & e' & bs' & r2 & ->)|(Hn & _)].
    + left. exists (RNew ok e bs :: r1), e', bs', r2. reflexivity.
    + right. split; [exact Hn|]. left. exists [], ok, e, bs, r. split; [reflexivity|constructor].
  - left. exists [], e, bs, r. reflexivity.
  - destruct IH as [(r1 & e' & bs' & r2 & ->)|(Hn & [(r1 & ok & e & bs & r2 & -> & Hnn)|H])].
    + left. exists (RDone :: r1), e', bs', r2. reflexivity.
    + right. split; [exact Hn|]. left. exists (RDone :: r1), ok, e, bs, r2. split; [reflexivity|constructor; [exact I|exact Hnn]].
    + right. split; [exact Hn|]. right. constructor; auto.
Qed.

Definition cfg_ok := nreaders c >= 1 /\ chcap c >= 1 /\ rcap c >= 1.

Theorem progress s : cfg_ok -> Aux s -> cdone K s = false -> exists s', step s s'.
Proof.
  intros (Hn & Hcc & Hrc) (Hs & Hc & Hw & Hrcl & Hcd) Hnd.
  destruct (rch K s) as [|m rest] eqn:Erch; [|eexists; eapply s_crecv; eauto].
  destruct (rclosed K s) eqn:Ercl; [eexists; eapply s_cdone; eauto|].
  destruct (wk_cases (wk K s)) as [(w1 & src & no & ls & out & w2 & Ew)|[(w1 & w2 & Ew)|Hall]].
  - destruct ls as [|l ls].
    + destruct out as [|o out].
      * eexists; eapply s_wskip; eauto.
      * eexists; eapply s_wsend; eauto. rewrite Erch. simpl. lia.
    + eexists; eapply s_wline; eauto.
  - destruct (ch K s) as [|b rest] eqn:Ech; [|eexists; eapply s_wrecv; eauto].
    destruct (closed K s) eqn:Ecl; [eexists; eapply s_wexit; eauto|].
    destruct (rd_cases (rd K s)) as [(r1 & e & bs & r2 & Er)|(Hns & [(r1 & ok & e & bs & r2 & Er & Hnn)|Hall])].
    + destruct bs as [|b bs].
      * eexists; eapply s_rfin; eauto.
      * eexists; eapply s_rsend; eauto. rewrite Ech. simpl. lia.
    + destruct ok.
      * eexists; eapply s_racq_ok; eauto. lia.
      * eexists; eapply s_racq_fail; eauto. lia.
    + eexists; eapply s_close; eauto.
  - eexists; eapply s_rclose; eauto.
Qed.

(* ---------- termination: a variant that every step decreases ---------- *)
Definition bw (b : batch) : nat := length (b_lines b).
Definition r_mu (r : rstate) : nat :=
  match r with
  | RNew _ _ bs => 2 + list_sum (map (fun b => bw b + 5) bs)
  | RSend _ bs => 1 + list_sum (map (fun b => bw b + 5) bs)
  | RDone => 0
  end.
Definition w_mu (w : wstate K) : nat :=
  match w with WIdle => 1 | WBusy _ _ ls _ => length ls + 3 | WDone => 0 end.
Definition mu (s : state) : nat :=
  list_sum (map r_mu (rd K s)) + list_sum (map (fun b => bw b + 4) (ch K s)) + b2n (negb (closed K s)) +
  list_sum (map w_mu (wk K s)) + length (rch K s) + b2n (negb (rclosed K s)) + b2n (negb (cdone K s)).

Theorem step_decreases s s' : step s s' -> mu s' < mu s.
Proof.
  intros Hs. inversion Hs; subst; unfold mu; cbn [rd ch closed wk rch rclosed cdone];
    try match goal with H : rd K s = _ |- _ => rewrite H in * end;
    try match goal with H : wk K s = _ |- _ => rewrite H in * end;
    try match goal with H : ch K s = _ |- _ => rewrite H in * end;
    try match goal with H : rch K s = _ |- _ => rewrite H in * end;
    try match goal with H : closed K s = _ |- _ => rewrite H in * end;
    try match goal with H : rclosed K s = _ |- _ => rewrite H in * end;
    try match goal with H : cdone K s = _ |- _ => rewrite H in * end;
    rewrite ?list_sum_mid, ?map_app, ?list_sum_app, ?app_length; cbn [r_mu w_mu map list_sum length negb b2n bw b_lines]; try lia.
  all: unfold bw; simpl; lia.
Qed.

Inductive steps : nat -> state -> state -> Prop :=
| steps0 s : steps 0 s s
| stepsS n s s' s'' : step s s' -> steps n s' s'' -> steps (S n) s s''.

(* no execution, under any schedule, is longer than the variant of its first state *)
Theorem bounded_executions n s s' : steps n s s' -> n + mu s' <= mu s.
Proof. induction 1 as [|n s s1 s2 H1 _ IH]; [lia|]. apply step_decreases in H1. lia. Qed.

(* ---------- what a finished run looks like ---------- *)
Lemma all_done_w_lines (w : list (wstate K)) : all_done_w K w -> flat_map w_lines w = [] /\ flat_map w_out w = [].
Proof. induction 1 as [|x w Hx _ (IH1 & IH2)]; [auto|]. subst x. simpl. auto. Qed.
Lemma all_done_r_lines r : all_done_r r -> flat_map r_lines r = [] /\ list_sum (map r_errs r) = 0.
Proof. induction 1 as [|x r Hx _ (IH1 & IH2)]; [auto|]. subst x. simpl. auto. Qed.

Theorem finished_all input ne s : Inv input ne s -> Aux s -> wk K s <> [] -> cdone K s = true ->
  Permutation (processed K s) input /\
  Permutation (consumed K s) (flat_map key_of input) /\
  cR K s = length input /\ cM K s = list_sum (map isM input) /\ cI K s = list_sum (map isI input) /\
  errs K s = ne.
Proof.
  intros (Hp & Hk & HR & HM & HI & HE) (Hs & Hc & Hw & Hrcl & Hcd) Hne Hd.
  destruct (Hcd Hd) as (Hrc & Hrch). pose proof (Hrcl Hrc) as Hall.
  assert (Hin : In WDone (wk K s)).
  { destruct (wk K s) as [|x w]; [congruence|]. inversion Hall; subst. now left. }
  destruct (Hw Hin) as (Hcl & Hch). pose proof (Hc Hcl) as Hallr.
  destruct (all_done_w_lines _ Hall) as (Hwl & Hwo).
  destruct (all_done_r_lines _ Hallr) as (Hrl & Hre).
  unfold pending, keys_inflight in *. rewrite Hrl, Hch, Hwl in Hp. simpl in Hp.
  rewrite Hwo, Hrch in Hk. simpl in Hk.
  assert (Hkk : Permutation (flat_map key_of (processed K s)) (flat_map key_of input)).
  { clear -Hp. induction Hp; simpl; auto.
    - now apply Permutation_app_head.
    - rewrite !app_assoc. apply Permutation_app_tail. apply Permutation_app_comm.
    - etransitivity; eauto. }
  assert (Hsum : forall f : lineid -> nat, list_sum (map f (processed K s)) = list_sum (map f input)).
  { intros f. clear -Hp. induction Hp; simpl; auto; lia. }
  repeat split; auto.
  - etransitivity; eauto.
  - rewrite HR. now apply Permutation_length.
  - rewrite HM. apply Hsum.
  - rewrite HI. apply Hsum.
  - lia.
Qed.

(* ---------- from the initial state ---------- *)
Notation init := (init K).
Notation reach := (reach K classify c).

Lemma init_inv srcs nw : Inv (input_of srcs) (errors_of srcs) (init srcs nw) /\ Aux (init srcs nw).
Proof.
  split.
  - unfold Inv, pending, keys_inflight, Pipeline.init; cbn [rd ch wk rch consumed processed cR cM cI errs].
    assert (E1 : flat_map r_lines (map (fun x : source => RNew (fst (fst x)) (snd (fst x)) (snd x)) srcs) = input_of srcs).
    { unfold input_of. induction srcs as [|[[ok e] bs] srcs IH]; simpl; [reflexivity|]. rewrite IH. destruct ok; reflexivity. }
    assert (E2 : forall n, flat_map w_lines (repeat (@WIdle K) n) = [] /\ flat_map w_out (repeat (@WIdle K) n) = []).
    { induction n; simpl; auto. }
    assert (E3 : list_sum (map r_errs (map (fun x : source => RNew (fst (fst x)) (snd (fst x)) (snd x)) srcs)) = errors_of srcs).
    { clear E1. unfold errors_of. induction srcs as [|[[ok e] bs] srcs IH]; [reflexivity|].
      change (list_sum (map r_errs (map (fun x : source => RNew (fst (fst x)) (snd (fst x)) (snd x)) ((ok, e, bs) :: srcs))))
        with (r_errs (RNew ok e bs) + list_sum (map r_errs (map (fun x : source => RNew (fst (fst x)) (snd (fst x)) (snd x)) srcs))).
      rewrite IH. destruct ok; reflexivity. }
    rewrite E1, E3. destruct (E2 nw) as (-> & ->). simpl. rewrite !app_nil_r. repeat split; auto.
  - unfold Aux, Pipeline.init; cbn [rd sema ch closed wk rch rclosed cdone].
    split; [unfold n_send; induction srcs; simpl; auto|].
    split; [discriminate|]. split; [|split; discriminate].
    intros Hx. apply repeat_spec in Hx. discriminate.
Qed.

Lemma wk_nonempty_step s s' : step s s' -> wk K s <> [] -> wk K s' <> [].
Proof.
  intros Hst Hne. inversion Hst; subst; cbn [wk]; auto;
    match goal with |- ?a ++ _ :: _ <> [] => destruct a; discriminate end.
Qed.

Lemma reach_inv srcs nw s : nw >= 1 -> reach (init srcs nw) s ->
  Inv (input_of srcs) (errors_of srcs) s /\ Aux s /\ wk K s <> [].
Proof.
  intros Hnw Hr. induction Hr as [|s s' Hr (I1 & I2 & I3) Hst].
  - destruct (init_inv srcs nw). split; [assumption|]. split; [assumption|]. unfold Pipeline.init; cbn [wk]. destruct nw; [lia|simpl; discriminate].
  - split; [eapply inv_step; eauto|]. split; [eapply aux_step; eauto|]. eapply wk_nonempty_step; eauto.
Qed.

Lemma MI_le l : list_sum (map isM l) + list_sum (map isI l) <= length l.
Proof.
  induction l as [|x l IHl]; simpl; [lia|].
  assert (isM x + isI x <= 1) by (unfold Pipeline.isM, Pipeline.isI; destruct (classify x); lia). lia.
Qed.

(* Every maximal execution, under every schedule and every configuration with capacities >= 1,
   ends with the consumer done, the consumed keys a permutation of the sequential keys, the three
   counters equal to the true counts and the error count equal to the number of failed inputs. *)
Theorem pipeline_final srcs nw s : cfg_ok -> nw >= 1 ->
  reach (init srcs nw) s -> (forall s', ~ step s s') ->
  cdone K s = true /\
  Permutation (consumed K s) (seq_keys K classify (input_of srcs)) /\
  cR K s = length (input_of srcs) /\
  cM K s = list_sum (map isM (input_of srcs)) /\ cI K s = list_sum (map isI (input_of srcs)) /\
  errs K s = errors_of srcs /\
  cR K s = cM K s + cI K s + (length (input_of srcs) - cM K s - cI K s).
Proof.
  intros Hcfg Hnw Hr Hterm. destruct (reach_inv _ _ _ Hnw Hr) as (I1 & I2 & I3).
  destruct (cdone K s) eqn:Hd.
  - split; [reflexivity|]. destruct (finished_all _ _ _ I1 I2 I3 Hd) as (_ & H2 & H3 & H4 & H5 & H6).
    repeat split; auto. rewrite H3, H4, H5.
    pose proof (MI_le (input_of srcs)). lia.
  - exfalso. destruct (progress s Hcfg I2 Hd) as (s' & Hs). exact (Hterm s' Hs).
Qed.

(* with one reader and one worker the matches are consumed in input order *)
End PipeProof.
