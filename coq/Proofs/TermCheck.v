(* C20 — the boolean form C20_check_live (Model/Term.v) used on the implementation's output:
   soundness (what an accepted stream of segments does to the reference terminal) and
   completeness on the model's own output. *)
From Coq Require Import List NArith ZArith Bool Arith Lia.
From RareV Require Import Base.Hex Base.Res Gen.GenTerm Model.Trim Model.Term.
From RareV Require Import Proofs.TrimProof Proofs.TermEmu Proofs.TermMain Proofs.TrimStore Proofs.TermBuffered.
Import ListNotations.

Lemma text_eqb_eq : forall a b, text_eqb a b = true <-> a = b.
Proof. intros a b. apply (list_eqb_eq N.eqb N.eqb_eq). Qed.

Lemma is_ground_eq : forall p, is_ground p = true -> p = Ground.
Proof. intros [| |ps] H; cbn in H; try discriminate; reflexivity. Qed.

Lemma last_write_snoc : forall l done line t,
  last_write l (done ++ [(line, t)]) = if Nat.eqb line l then t else last_write l done.
Proof. intros. unfold last_write. rewrite fold_left_app. reflexivity. Qed.

Lemma max_line_snoc : forall done (u : nat * text),
  max_line (done ++ [u]) = Nat.max (max_line done) (fst u).
Proof. intros. unfold max_line. rewrite fold_left_app. reflexivity. Qed.

Lemma firstn_last_split {A} (d : A) : forall (l : list A) n,
  length l = S n -> l = firstn n l ++ [last l d].
Proof.
  induction l as [|x r IH]; intros n H; [discriminate|].
  destruct r as [|y r'].
  - cbn in H. inversion H. subst n. reflexivity.
  - destruct n as [|n]; [cbn in H; discriminate|].
    cbn [firstn]. change (last (x :: y :: r') d) with (last (y :: r') d).
    cbn [app]. f_equal. apply IH. cbn in *. lia.
Qed.

Section Check.
Variable tc : tcfg.
Variable c : cfg.
Notation wlc := (write_line_no_wrap (autotrim c) (cols c)).

Lemma wlc_nil : wlc [] = [].
Proof. unfold write_line_no_wrap. destruct (autotrim c); reflexivity. Qed.

Lemma rows_show_spec : forall ups rws n,
  rows_show c ups rws n = true <->
  (forall k, k <= n -> nth k rws [] = visible (wlc (last_write k ups))).
Proof.
  intros ups rws. induction n as [|n IH]; cbn [rows_show].
  - rewrite andb_true_r, text_eqb_eq. split.
    + intros H k Hk. replace k with 0 by lia. exact H.
    + intros H. apply H. lia.
  - rewrite andb_true_iff, text_eqb_eq, IH. split.
    + intros [H1 H2] k Hk. destruct (Nat.eq_dec k (S n)); [subst; exact H1 | apply H2; lia].
    + intros H. split; [apply H; lia | intros k Hk; apply H; lia].
Qed.

(* rows shown up to S m, nothing stored beyond: every row is right *)
Lemma rows_all : forall ups rws,
  rows_show c ups rws (S (max_line ups)) = true -> length rws <= S (max_line ups) ->
  forall l, nth l rws [] = visible (wlc (last_write l ups)).
Proof.
  intros ups rws H Hl l. destruct (Nat.le_gt_cases l (S (max_line ups))) as [Hle|Hgt].
  - apply (proj1 (rows_show_spec ups rws _) H). exact Hle.
  - rewrite nth_overflow by lia. rewrite last_write_above by lia. rewrite wlc_nil. reflexivity.
Qed.

(* ---------------------------------------------------------------- soundness *)
Lemma live_ok_sound : forall todo done e segs e',
  live_ok tc c done todo e segs = Some e' ->
  length todo <= length segs /\
  e' = run tc e (concat (firstn (length todo) segs)) /\
  forall k, k < length todo ->
    let ek := run tc e (concat (firstn (S k) segs)) in
    snd ek = Ground /\ crow (fst ek) = fst (nth k todo (0, [])) /\
    forall l, nth l (rows (fst ek)) [] = visible (wlc (last_write l (done ++ firstn (S k) todo))).
Proof.
  induction todo as [|u r IH]; intros done e segs e' H.
  - cbn in H. inversion H; subst. cbn. split; [lia|]. split; [reflexivity|]. intros k Hk. lia.
  - destruct segs as [|seg segs']; [cbn in H; discriminate|].
    cbn [live_ok] in H. cbv zeta in H.
    destruct (is_ground (snd (run tc e seg)) && Nat.eqb (crow (fst (run tc e seg))) (fst u)
              && rows_show c (done ++ [u]) (rows (fst (run tc e seg))) (S (max_line (done ++ [u])))
              && (length (rows (fst (run tc e seg))) <=? S (max_line (done ++ [u]))))%bool eqn:Cnd;
      [|discriminate].
    apply andb_true_iff in Cnd as [Cnd C4]. apply andb_true_iff in Cnd as [Cnd C3].
    apply andb_true_iff in Cnd as [C1 C2].
    apply is_ground_eq in C1. apply Nat.eqb_eq in C2. apply Nat.leb_le in C4.
    destruct (IH _ _ _ _ H) as (L & E & K).
    split; [cbn; lia|]. split.
    + cbn [length firstn concat]. rewrite run_app. exact E.
    + intros k Hk. destruct k as [|k].
      * cbn [firstn concat nth]. rewrite app_nil_r. cbv zeta.
        split; [exact C1|]. split; [exact C2|].
        apply rows_all; assumption.
      * cbn [length] in Hk. specialize (K k ltac:(lia)). cbv zeta in K.
        cbv zeta.
        change (firstn (S (S k)) (seg :: segs')) with (seg :: firstn (S k) segs').
        change (firstn (S (S k)) (u :: r)) with (u :: firstn (S k) r).
        change (nth (S k) (u :: r) (0, [])) with (nth k r (0, [])).
        cbn [concat]. rewrite run_app.
        replace (done ++ u :: firstn (S k) r) with ((done ++ [u]) ++ firstn (S k) r)
          by (rewrite <- app_assoc; reflexivity).
        exact K.
Qed.

(* If the check accepts a stream of segments for a history whose texts fit, then on the
   reference terminal: after the k-th segment the terminal is in its ground state, the cursor is
   on the line of the k-th update and every row shows the visible runes of the text last written
   to it by the first k updates (nothing wrapped, nothing stale, nothing below); after the last
   segment additionally the cursor is parked on row max_line+1, column 0, and visible. *)
Lemma C20_check_live_sound_proof : forall ups segs,
  fits tc c ups = true -> C20_check_live tc c ups segs = true ->
  length segs = S (length ups) /\
  (forall k, k < length ups ->
     let ek := run tc (scr0, Ground) (concat (firstn (S k) segs)) in
     snd ek = Ground /\ crow (fst ek) = fst (nth k ups (0, [])) /\
     forall l, nth l (rows (fst ek)) [] = visible (wlc (last_write l (firstn (S k) ups)))) /\
  exists sc, run tc (scr0, Ground) (concat segs) = (sc, Ground) /\
    (forall l, nth l (rows sc) [] = visible (wlc (last_write l ups))) /\
    crow sc = S (max_line ups) /\ ccol sc = 0 /\ cvis sc = true.
Proof.
  intros ups segs Hf H. unfold C20_check_live in H. rewrite Hf in H. cbn [negb] in H.
  destruct (Nat.eqb (length segs) (S (length ups))) eqn:Hlen; [|discriminate]. cbn [negb] in H.
  apply Nat.eqb_eq in Hlen.
  destruct (live_ok tc c [] ups (scr0, Ground) segs) as [e|] eqn:Hl; [|discriminate].
  destruct (live_ok_sound _ _ _ _ _ Hl) as (_ & E & K).
  cbv zeta in H.
  apply andb_true_iff in H as [H C6]. apply andb_true_iff in H as [H C5].
  apply andb_true_iff in H as [H C4]. apply andb_true_iff in H as [H C3].
  apply andb_true_iff in H as [C1 C2].
  apply is_ground_eq in C1. apply Nat.eqb_eq in C4, C5. apply Nat.leb_le in C3.
  split; [exact Hlen|]. split; [exact K|].
  assert (Hrun : run tc (scr0, Ground) (concat segs) = run tc e (last segs [])).
  { rewrite (firstn_last_split [] segs (length ups) Hlen) at 1.
    rewrite concat_app, run_app. cbn [concat]. rewrite app_nil_r. rewrite <- E. reflexivity. }
  exists (fst (run tc e (last segs []))).
  split; [rewrite Hrun; destruct (run tc e (last segs [])) as [sc p]; cbn in *; subst p; reflexivity|].
  split; [apply rows_all; assumption|]. auto.
Qed.

(* ---------------------------------------------------------------- completeness on the model *)
Lemma fits_ok : forall ups, fits tc c ups = true -> ups_ok tc c ups.
Proof.
  intros ups H u Hu. unfold fits in H. rewrite forallb_forall in H. specialize (H u Hu).
  apply andb_true_iff in H as [H1 H2]. apply Nat.leb_le in H2. split; assumption.
Qed.

Lemma live_ok_model : forall todo done s sc s' segs rest,
  Inv s sc (fun l => visible (wlc (last_write l done))) -> tw_max s = max_line done ->
  ups_ok tc c todo -> tw_run c s todo = (s', segs) ->
  exists sc', live_ok tc c done todo (sc, Ground) (map render segs ++ rest) = Some (sc', Ground) /\
    Inv s' sc' (fun l => visible (wlc (last_write l (done ++ todo)))) /\
    tw_max s' = max_line (done ++ todo).
Proof.
  induction todo as [|[line t] r IH]; intros done s sc s' segs rest I M Hok R.
  - cbn in R. inversion R; subst. exists sc. rewrite app_nil_r. cbn. auto.
  - cbn [tw_run] in R.
    destruct (tw_write c s line t) as [s1 seg] eqn:W.
    destruct (tw_run c s1 r) as [s2 segs'] eqn:R'.
    inversion R; subst s' segs; clear R.
    destruct (write_step tc c s sc _ line t s1 seg I) as (sc1 & E1 & I1 & Cu1 & M1 & _);
      [apply (Hok (line, t)); left; reflexivity | exact W |].
    assert (I1' : Inv s1 sc1 (fun l => visible (wlc (last_write l (done ++ [(line, t)]))))).
    { eapply Inv_ext; [|exact I1]. intros l. cbn beta. rewrite last_write_snoc.
      destruct (Nat.eqb line l); reflexivity. }
    assert (M1' : tw_max s1 = max_line (done ++ [(line, t)])) by (rewrite max_line_snoc, M1, M; reflexivity).
    destruct (IH (done ++ [(line, t)]) s1 sc1 s2 segs' rest I1' M1') as (sc2 & L2 & I2 & M2);
      [intros u Hu; apply Hok; right; exact Hu | exact R' |].
    exists sc2. cbn [map app live_ok]. cbv zeta. rewrite E1. cbn [fst snd is_ground andb].
    destruct I1' as [Ir _ _ Irows _ _ _ Il].
    assert (C2 : Nat.eqb (crow sc1) line = true) by (apply Nat.eqb_eq; rewrite Ir; exact Cu1).
    assert (C3 : rows_show c (done ++ [(line, t)]) (rows sc1) (S (max_line (done ++ [(line, t)]))) = true)
      by (apply rows_show_spec; intros k _; apply Irows).
    assert (C4 : (length (rows sc1) <=? S (max_line (done ++ [(line, t)]))) = true)
      by (apply Nat.leb_le; rewrite <- M1'; exact Il).
    cbn [fst]. rewrite C2, C3, C4. cbn [andb].
    split; [exact L2|]. rewrite <- app_assoc in I2, M2. split; assumption.
Qed.

(* the check accepts what the model emits, for every history, width, margin and AutoTrim setting *)
Lemma C20_check_live_ok_proof : forall ups,
  C20_check_live tc c ups (map render (tw_session c ups)) = true.
Proof.
  intros ups. unfold C20_check_live. destruct (fits tc c ups) eqn:Hf; [|reflexivity]. cbn [negb].
  pose proof (fits_ok ups Hf) as Hok.
  unfold tw_session. destruct (tw_run c tw_new ups) as [s segs] eqn:R.
  assert (I0 : Inv tw_new scr0 (fun l => visible (wlc (last_write l [])))).
  { eapply Inv_ext; [|exact Inv0]. intros l. cbn. rewrite wlc_nil. reflexivity. }
  destruct (live_ok_model ups [] tw_new scr0 s segs [render (snd (tw_close s))] I0 eq_refl Hok R)
    as (sc & L & I & M).
  cbn [app] in I, M.
  assert (Hlen : length segs = length ups).
  { destruct (run_ups tc c ups tw_new scr0 _ s segs Inv0 Hok R) as (_ & _ & _ & _ & _ & H). exact H. }
  rewrite map_app. cbn [map]. rewrite app_length, map_length, Hlen. cbn [length].
  rewrite Nat.add_1_r, Nat.eqb_refl. cbn [negb]. rewrite L. rewrite last_last.
  destruct (tw_close s) as [s' seg] eqn:Cl. cbn [snd].
  destruct (close_step tc s sc _ s' seg I Cl) as (sc' & E' & Rw & Cr & Cc & Cv & _).
  cbv zeta. rewrite E'. cbn [fst snd is_ground andb].
  destruct I as [_ _ _ Irows _ _ _ Il].
  assert (C2 : rows_show c ups (rows sc') (S (max_line ups)) = true)
    by (apply rows_show_spec; intros k _; rewrite Rw; apply Irows).
  assert (C3 : (length (rows sc') <=? S (max_line ups)) = true)
    by (apply Nat.leb_le; rewrite Rw, <- M; exact Il).
  rewrite C2, C3, Cr, M, Nat.eqb_refl, Cc, Cv. reflexivity.
Qed.

End Check.
