(* C16: the order in which named groups are written does not depend on the order in which the
   name table (a Go map) is iterated. *)
From Coq Require Import List NArith ZArith Bool Lia Permutation Sorted.
From RareV Require Import Base.Hex Model.Json.
Import ListNotations.

(* ---- bytewise comparison is a total order *)
Lemma bytes_cmp_refl a : bytes_cmp a a = Eq.
Proof. induction a as [|x a IH]; [reflexivity|]. cbn. rewrite N.compare_refl. exact IH. Qed.

Lemma bytes_cmp_eq a : forall b, bytes_cmp a b = Eq -> a = b.
Proof.
  induction a as [|x a IH]; intros [|y b]; cbn; try discriminate; [reflexivity|].
  destruct (x ?= y)%N eqn:E; try discriminate. apply N.compare_eq in E. subst.
  intros H. f_equal. apply IH. exact H.
Qed.

Lemma bytes_cmp_antisym a : forall b, bytes_cmp b a = CompOpp (bytes_cmp a b).
Proof.
  induction a as [|x a IH]; intros [|y b]; cbn; try reflexivity.
  rewrite (N.compare_antisym x y). destruct (x ?= y)%N; cbn; auto.
Qed.

Lemma bytes_cmp_trans a : forall b c, bytes_cmp a b = Lt -> bytes_cmp b c = Lt -> bytes_cmp a c = Lt.
Proof.
  induction a as [|x a IH]; intros [|y b] [|z c]; cbn; try discriminate; try reflexivity.
  destruct (x ?= y)%N eqn:E1; try discriminate; destruct (y ?= z)%N eqn:E2; try discriminate; intros H1 H2.
  - apply N.compare_eq in E1, E2. subst. rewrite N.compare_refl. eapply IH; eauto.
  - apply N.compare_eq in E1. subst. rewrite E2. reflexivity.
  - apply N.compare_eq in E2. subst. rewrite E1. reflexivity.
  - rewrite N.compare_lt_iff in E1, E2. assert (x ?= z = Lt)%N as -> by (apply N.compare_lt_iff; lia). reflexivity.
Qed.

(* ---- entries: by index, then by name *)
Lemma entry_cmp_refl x : entry_cmp x x = Eq.
Proof. unfold entry_cmp. rewrite Z.compare_refl. apply bytes_cmp_refl. Qed.

Lemma entry_cmp_eq x y : entry_cmp x y = Eq -> x = y.
Proof.
  destruct x as [n i], y as [m j]. unfold entry_cmp. cbn [fst snd].
  destruct (i ?= j)%Z eqn:E; try discriminate. apply Z.compare_eq in E. subst.
  intros H. apply bytes_cmp_eq in H. subst. reflexivity.
Qed.

Lemma entry_cmp_antisym x y : entry_cmp y x = CompOpp (entry_cmp x y).
Proof.
  unfold entry_cmp. rewrite (Z.compare_antisym (snd x) (snd y)).
  destruct (snd x ?= snd y)%Z; cbn; auto. apply bytes_cmp_antisym.
Qed.

Lemma entry_cmp_trans x y z : entry_cmp x y = Lt -> entry_cmp y z = Lt -> entry_cmp x z = Lt.
Proof.
  unfold entry_cmp.
  destruct (snd x ?= snd y)%Z eqn:E1; try discriminate; destruct (snd y ?= snd z)%Z eqn:E2; try discriminate; intros H1 H2.
  - apply Z.compare_eq in E1, E2. rewrite E1, E2, Z.compare_refl. eapply bytes_cmp_trans; eauto.
  - apply Z.compare_eq in E1. rewrite E1, E2. reflexivity.
  - apply Z.compare_eq in E2. rewrite <- E2, E1. reflexivity.
  - rewrite Z.compare_lt_iff in E1, E2. assert (snd x ?= snd z = Lt)%Z as -> by (apply Z.compare_lt_iff; lia). reflexivity.
Qed.

Lemma ltb_lt x y : entry_ltb x y = true <-> entry_cmp x y = Lt.
Proof. unfold entry_ltb. destruct (entry_cmp x y); split; congruence. Qed.

Lemma ltb_asym x y : entry_ltb x y = true -> entry_ltb y x = false.
Proof.
  unfold entry_ltb. rewrite (entry_cmp_antisym x y). destruct (entry_cmp x y); cbn; congruence.
Qed.

Lemma ltb_trans x y z : entry_ltb x y = true -> entry_ltb y z = true -> entry_ltb x z = true.
Proof. rewrite !ltb_lt. apply entry_cmp_trans. Qed.

Lemma ltb_total x y : entry_ltb x y = false -> entry_ltb y x = false -> x = y.
Proof.
  unfold entry_ltb. rewrite (entry_cmp_antisym x y). destruct (entry_cmp x y) eqn:E; cbn; try congruence.
  intros _ _. apply entry_cmp_eq. exact E.
Qed.

(* not (z < x) and z < y  ->  x < y *)
Lemma le_lt_trans x y z : entry_ltb z x = false -> entry_ltb z y = true -> entry_ltb x y = true.
Proof.
  intros H1 H2. destruct (entry_ltb x z) eqn:E.
  - eapply ltb_trans; eauto.
  - rewrite (ltb_total _ _ E H1). exact H2.
Qed.

Lemma insert_two x y : insert x [y] = insert y [x].
Proof.
  cbn. destruct (entry_ltb y x) eqn:A; destruct (entry_ltb x y) eqn:B; try reflexivity.
  - rewrite (ltb_asym _ _ A) in B. discriminate.
  - rewrite (ltb_total _ _ A B). reflexivity.
Qed.

Lemma insert_comm x y l : insert x (insert y l) = insert y (insert x l).
Proof.
  induction l as [|z r IH].
  - apply insert_two.
  - cbn [insert]. destruct (entry_ltb z y) eqn:Zy; destruct (entry_ltb z x) eqn:Zx; cbn [insert].
    + rewrite Zx, Zy. f_equal. exact IH.
    + rewrite Zx. rewrite (le_lt_trans x y z Zx Zy). cbn [insert]. rewrite Zy. reflexivity.
    + rewrite Zy. rewrite (le_lt_trans y x z Zy Zx). cbn [insert]. rewrite Zx. reflexivity.
    + destruct (entry_ltb y x) eqn:A; destruct (entry_ltb x y) eqn:B; cbn [insert]; rewrite ?Zx, ?Zy; try reflexivity.
      * rewrite (ltb_asym _ _ A) in B. discriminate.
      * rewrite (ltb_total _ _ A B). reflexivity.
Qed.

(* any two iteration orders of the same table are sorted to the same list *)
Theorem sort_perm l l' : Permutation l l' -> sort_entries l = sort_entries l'.
Proof.
  induction 1; cbn [sort_entries fold_right] in *.
  - reflexivity.
  - f_equal. assumption.
  - apply insert_comm.
  - congruence.
Qed.

(* and the sorted list holds exactly the entries of the table, in ascending (index, name) order *)
Lemma insert_perm x l : Permutation (insert x l) (x :: l).
Proof.
  induction l as [|y r IH]; cbn [insert]; [reflexivity|].
  destruct (entry_ltb y x); [|reflexivity].
  rewrite IH. apply perm_swap.
Qed.

Theorem sort_is_perm l : Permutation (sort_entries l) l.
Proof.
  induction l as [|x l IH]; cbn [sort_entries fold_right]; [reflexivity|].
  rewrite insert_perm. constructor. exact IH.
Qed.


Lemma insert_sorted x l : Sorted entry_le l -> Sorted entry_le (insert x l).
Proof.
  induction l as [|y r IH]; intros S; cbn [insert].
  - repeat constructor.
  - inversion S as [|? ? S' H]; subst. destruct (entry_ltb y x) eqn:E.
    + constructor; [apply IH; exact S'|].
      destruct r as [|z r]; cbn [insert].
      * constructor. unfold entry_le. apply ltb_asym. exact E.
      * destruct (entry_ltb z x) eqn:E2.
        -- inversion H; subst. constructor. assumption.
        -- constructor. unfold entry_le. apply ltb_asym. exact E.
    + constructor; [exact S|]. constructor. exact E.
Qed.

Theorem sort_sorted l : Sorted entry_le (sort_entries l).
Proof.
  induction l as [|x l IH]; cbn [sort_entries fold_right]; [constructor|]. apply insert_sorted. exact IH.
Qed.
