(* C12 — the pattern compiler against the pattern grammar: what compiles to what, and which of
   the three errors is raised; the lower-cased pattern text has the lower-cased literals. *)
From Coq Require Import List NArith Bool Arith Lia.
From RareV Require Import Base.Hex Model.Dissect Proofs.DissectSearch Proofs.DissectCase.
Import ListNotations.

(* ---------- list helpers ---------- *)

Lemma firstn_len_app {A} (a b : list A) : firstn (length a) (a ++ b) = a.
Proof. induction a; cbn; auto. f_equal. auto. Qed.

Lemma skipn_len_app {A} (a b : list A) n : skipn (length a + n) (a ++ b) = skipn n b.
Proof. induction a; cbn; auto. Qed.

(* ---------- searching for "%{" and "}" in structured text ---------- *)

Definition no_pb (l : bytes) : Prop := index_of fold_id PB l = None.
Definition no_cb (l : bytes) : Prop := ~ In 125%N l.

Lemma index_pb_app lit x : no_pb lit -> index_of fold_id PB (lit ++ PB ++ x) = Some (length lit).
Proof.
  unfold no_pb. induction lit as [|a l IH]; intros H.
  - reflexivity.
  - cbn [index_of] in H. destruct (prefix_at fold_id PB (a :: l)) eqn:E; [discriminate|].
    destruct (index_of fold_id PB l) eqn:El; [discriminate|].
    cbn [app index_of].
    assert (E2 : prefix_at fold_id PB (a :: l ++ PB ++ x) = false).
    { destruct l as [|b l']; cbn in E |- *; unfold fold_id in *.
      - destruct (a =? 37)%N; reflexivity.
      - exact E. }
    rewrite E2, (IH eq_refl). reflexivity.
Qed.

Lemma index_pb_none_app lit : no_pb lit -> index_of fold_id PB (lit ++ []) = None.
Proof. rewrite app_nil_r. auto. Qed.

Lemma index_cb_app k x : no_cb k -> index_of fold_id CB (k ++ CB ++ x) = Some (length k).
Proof.
  unfold no_cb. induction k as [|a l IH]; intros H.
  - reflexivity.
  - cbn [app index_of]. assert (Ha : (a =? 125)%N = false).
    { apply N.eqb_neq. intros ->. apply H. left. reflexivity. }
    cbn [prefix_at CB]. unfold fold_id at 1. rewrite Ha. cbn [andb].
    rewrite IH; auto. intros Hin. apply H. right. auto.
Qed.

Lemma index_cb_none k : no_cb k -> index_of fold_id CB k = None.
Proof.
  unfold no_cb. induction k as [|a l IH]; intros H; [reflexivity|].
  cbn [index_of prefix_at CB]. assert (Ha : (a =? 125)%N = false).
  { apply N.eqb_neq. intros ->. apply H. left. reflexivity. }
  unfold fold_id at 1. rewrite Ha. cbn [andb]. rewrite IH; auto.
  intros Hin. apply H. right. auto.
Qed.

(* ---------- the grammar ---------- *)

Record rawpat := mkRaw { r_prefix : bytes; raw_toks : list (bytes * bytes) }.   (* (key, delimiter) *)

Fixpoint render_toks (ts : list (bytes * bytes)) : bytes :=
  match ts with
  | [] => []
  | (k, u) :: r => PB ++ k ++ CB ++ u ++ render_toks r
  end.
Definition render (raw : rawpat) : bytes := r_prefix raw ++ render_toks (raw_toks raw).

(* [open] = more pattern text follows the tokens, so the last delimiter must be non-empty too *)
Fixpoint wf_toks (open : bool) (ts : list (bytes * bytes)) : Prop :=
  match ts with
  | [] => True
  | (k, u) :: r => no_cb k /\ no_pb u /\ (u <> [] \/ (r = [] /\ open = false)) /\ wf_toks open r
  end.
Definition wf_raw (raw : rawpat) : Prop := no_pb (r_prefix raw) /\ wf_toks false (raw_toks raw).

Definition is_nil {A} (l : list A) : bool := match l with [] => true | _ => false end.
Definition all_delims (raw : rawpat) : bool := forallb (fun ku => negb (is_nil (snd ku))) (raw_toks raw).

(* no non-skipped name repeats (given the names seen so far) *)
Fixpoint dup_free (ts : list (bytes * bytes)) (names : list bytes) : bool :=
  match ts with
  | [] => true
  | (k, _) :: r =>
      let '(n, sk) := key_flags k in
      if sk then dup_free r names else if name_in n names then false else dup_free r (names ++ [n])
  end.

Fixpoint names_of (ts : list (bytes * bytes)) (names : list bytes) : list bytes :=
  match ts with
  | [] => names
  | (k, _) :: r => let '(n, sk) := key_flags k in if sk then names_of r names else names_of r (names ++ [n])
  end.

Definition mk_tok (f : N -> N) (ku : bytes * bytes) : token :=
  let '(n, sk) := key_flags (fst ku) in mkTok n (map f (snd ku)) sk.

Definition build (ic : bool) (f : N -> N) (raw : rawpat) : dissect :=
  mkD ic (map f (r_prefix raw)) (map (mk_tok f) (raw_toks raw)) (names_of (raw_toks raw) []).

(* what follows the well-formed tokens *)
Inductive ending := EndOk | EndUnclosed (tail : bytes) | EndSeq (key tail : bytes).
Definition ending_text (e : ending) : bytes :=
  match e with
  | EndOk => []
  | EndUnclosed tail => PB ++ tail
  | EndSeq key tail => PB ++ key ++ CB ++ PB ++ tail
  end.
Definition ending_wf (e : ending) : Prop :=
  match e with EndOk => True | EndUnclosed tail => no_cb tail | EndSeq key _ => no_cb key end.
Definition ending_open (e : ending) : bool := match e with EndOk => false | _ => true end.

Lemma rest_shape r e : (render_toks r ++ ending_text e = [] /\ r = [] /\ e = EndOk) \/
                       (exists z, render_toks r ++ ending_text e = PB ++ z).
Proof.
  destruct r as [|[k u] r].
  - destruct e; cbn [render_toks app ending_text]; [left; auto|right; eauto|right; eauto].
  - right. cbn [render_toks]. rewrite <- !app_assoc. eauto.
Qed.

Lemma until_end_app u rest :
  no_pb u ->
  (rest = [] \/ ((exists z, rest = PB ++ z) /\ u <> [])) ->
  until_end (u ++ rest) = Some (length u).
Proof.
  intros Hu [->|[[z ->] Hne]]; unfold until_end.
  - rewrite app_nil_r. unfold no_pb in Hu. rewrite Hu. reflexivity.
  - rewrite index_pb_app by auto. destruct u; [congruence|reflexivity].
Qed.

(* the loop on structured text *)
Lemma cloop_render f : forall ts e fuel lit prefix parts names,
  no_pb lit -> wf_toks (ending_open e) ts -> ending_wf e ->
  length (lit ++ render_toks ts ++ ending_text e) < fuel ->
  cloop f fuel (lit ++ render_toks ts ++ ending_text e) prefix parts names =
  if dup_free ts names then
    match e with
    | EndOk => inr (Some (match parts with [] => lit | _ => prefix end, parts ++ map (mk_tok f) ts, names_of ts names))
    | EndUnclosed _ => inl EUnclosed
    | EndSeq _ _ => inl ESequential
    end
  else inl EConflict.
Proof.
  induction ts as [|[k u] r IH]; intros e fuel lit prefix parts names Hlit Hwf He Hfuel.
  - destruct fuel as [|fuel]; [lia|]. cbn [render_toks app dup_free names_of map].
    destruct e as [|tail|key tail]; cbn [ending_text ending_wf] in *.
    + cbn [cloop]. rewrite index_pb_none_app by auto. rewrite !app_nil_r. reflexivity.
    + cbn [cloop]. rewrite index_pb_app by auto.
      rewrite skipn_len_app. cbn [skipn PB app]. rewrite index_cb_none by auto. reflexivity.
    + cbn [cloop]. rewrite index_pb_app by auto.
      rewrite skipn_len_app. cbn [skipn PB app].
      rewrite index_cb_app by auto. rewrite skipn_len_app. cbn [skipn CB app]. reflexivity.
  - destruct fuel as [|fuel]; [lia|].
    cbn [wf_toks] in Hwf. destruct Hwf as (Hk & Hu & Hne & Hr).
    cbn [render_toks]. rewrite <- !app_assoc.
    cbn [cloop]. rewrite index_pb_app by auto.
    rewrite skipn_len_app.
    assert (E0 : skipn 2 (PB ++ k ++ CB ++ u ++ render_toks r ++ ending_text e)
                 = k ++ CB ++ u ++ render_toks r ++ ending_text e) by reflexivity.
    rewrite E0. rewrite index_cb_app by auto.
    rewrite firstn_len_app, skipn_len_app.
    assert (E1 : skipn 1 (CB ++ u ++ render_toks r ++ ending_text e) = u ++ render_toks r ++ ending_text e) by reflexivity.
    rewrite E1.
    assert (Hue : until_end (u ++ render_toks r ++ ending_text e) = Some (length u)).
    { apply until_end_app; auto. destruct (rest_shape r e) as [(H0 & Hr0 & He0)|Hz]; auto.
      right. split; auto. destruct Hne as [Hne|[Hr0 Ho]]; auto.
      exfalso. subst r. destruct e; cbn in Ho; try discriminate.
      destruct Hz as [z Hz]. cbn in Hz. discriminate. }
    rewrite Hue. rewrite !firstn_len_app.
    replace (skipn (length u) (u ++ render_toks r ++ ending_text e)) with (render_toks r ++ ending_text e)
      by (rewrite <- (Nat.add_0_r (length u)), skipn_len_app; reflexivity).
    cbn [dup_free names_of map]. unfold mk_tok at 1. cbn [fst snd].
    destruct (key_flags k) as [n sk].
    assert (Hfuel' : length ([] ++ render_toks r ++ ending_text e) < fuel).
    { cbn [render_toks] in Hfuel. rewrite !app_length in Hfuel. cbn [length PB CB app] in Hfuel. cbn [app]. rewrite app_length. lia. }
    assert (Hpre : forall t (X : bytes), match parts ++ [t] with [] => @nil N | _ => X end = X).
    { intros t X. destruct parts; reflexivity. }
    assert (Happ : forall t, (parts ++ [t]) ++ map (mk_tok f) r = parts ++ t :: map (mk_tok f) r).
    { intros t. rewrite <- app_assoc. reflexivity. }
    destruct sk.
    + pose proof (IH e fuel [] (match parts with [] => lit | _ => prefix end)
                    (parts ++ [mkTok n (map f u) true]) names eq_refl Hr He Hfuel') as H.
      cbn [app] in H. etransitivity; [exact H|]. rewrite Hpre, Happ. reflexivity.
    + destruct (name_in n names); [reflexivity|].
      pose proof (IH e fuel [] (match parts with [] => lit | _ => prefix end)
                    (parts ++ [mkTok n (map f u) false]) (names ++ [n]) eq_refl Hr He Hfuel') as H.
      cbn [app] in H. etransitivity; [exact H|]. rewrite Hpre, Happ. reflexivity.
Qed.

Lemma compile_render ic f raw e :
  no_pb (r_prefix raw) -> wf_toks (ending_open e) (raw_toks raw) -> ending_wf e ->
  compile_f ic f (render raw ++ ending_text e) =
  if dup_free (raw_toks raw) [] then
    match e with
    | EndOk => COk (build ic f raw)
    | EndUnclosed _ => CErr EUnclosed
    | EndSeq _ _ => CErr ESequential
    end
  else CErr EConflict.
Proof.
  intros Hp Hw He. unfold compile_f, render. rewrite <- app_assoc.
  rewrite (cloop_render f (raw_toks raw) e _ (r_prefix raw) [] [] [] Hp Hw He) by lia.
  destruct (dup_free (raw_toks raw) []); [|reflexivity]. destruct e; reflexivity.
Qed.

Theorem compile_ok_proof ic f raw :
  wf_raw raw -> dup_free (raw_toks raw) [] = true -> compile_f ic f (render raw) = COk (build ic f raw).
Proof.
  intros [Hp Hw] Hd. pose proof (compile_render ic f raw EndOk Hp Hw I) as H.
  cbn [ending_text] in H. rewrite app_nil_r, Hd in H. exact H.
Qed.

Theorem compile_conflict_proof ic f raw :
  wf_raw raw -> dup_free (raw_toks raw) [] = false -> compile_f ic f (render raw) = CErr EConflict.
Proof.
  intros [Hp Hw] Hd. pose proof (compile_render ic f raw EndOk Hp Hw I) as H.
  cbn [ending_text] in H. rewrite app_nil_r, Hd in H. exact H.
Qed.

Lemma wf_toks_open ts : wf_toks false ts -> forallb (fun ku => negb (is_nil (snd ku))) ts = true -> wf_toks true ts.
Proof.
  induction ts as [|[k u] r IH]; cbn; auto.
  intros (Hk & Hu & Hne & Hr) Hall. apply andb_true_iff in Hall as [H1 H2].
  repeat split; auto. left. destruct u; [discriminate|congruence].
Qed.

Theorem compile_unclosed_proof ic f raw tail :
  wf_raw raw -> all_delims raw = true -> dup_free (raw_toks raw) [] = true -> ~ In 125%N tail ->
  compile_f ic f (render raw ++ PB ++ tail) = CErr EUnclosed.
Proof.
  intros [Hp Hw] Ha Hd Ht.
  pose proof (compile_render ic f raw (EndUnclosed tail) Hp (wf_toks_open _ Hw Ha) Ht) as H.
  rewrite Hd in H. exact H.
Qed.

Theorem compile_sequential_proof ic f raw key tail :
  wf_raw raw -> all_delims raw = true -> dup_free (raw_toks raw) [] = true -> ~ In 125%N key ->
  compile_f ic f (render raw ++ PB ++ key ++ CB ++ PB ++ tail) = CErr ESequential.
Proof.
  intros [Hp Hw] Ha Hd Ht.
  pose proof (compile_render ic f raw (EndSeq key tail) Hp (wf_toks_open _ Hw Ha) Ht) as H.
  rewrite Hd in H. exact H.
Qed.

(* ---------- the lower-cased pattern text ---------- *)

(* bytes that lower-casing neither produces nor changes: '%' '{' '}' '?' *)
Definition stable (c : N) : Prop := forall b, (lower b =? c)%N = (b =? c)%N.

Lemma stable_of c : (c < 65 \/ 122 < c \/ (90 < c /\ c < 97))%N -> stable c.
Proof.
  intros Hc b. unfold lower. destruct (N.leb 65 b && N.leb b 90)%bool eqn:E; auto.
  apply andb_true_iff in E as [E1 E2]. apply N.leb_le in E1, E2.
  destruct (b + 32 =? c)%N eqn:A; destruct (b =? c)%N eqn:B; auto.
  - apply N.eqb_eq in A. lia.
  - apply N.eqb_eq in B. lia.
Qed.

Lemma prefix_at_lower needle : Forall stable needle -> forall hay,
  prefix_at fold_id needle (map lower hay) = prefix_at fold_id needle hay.
Proof.
  induction 1 as [|c needle Hc _ IH]; intros [|h hay]; cbn; auto.
  unfold fold_id at 1 3. rewrite Hc, IH. reflexivity.
Qed.

Lemma index_of_lower needle : Forall stable needle -> forall hay,
  index_of fold_id needle (map lower hay) = index_of fold_id needle hay.
Proof.
  intros Hs. induction hay as [|h hay IH].
  - reflexivity.
  - cbn [map index_of]. rewrite IH. pose proof (prefix_at_lower needle Hs (h :: hay)) as P.
    cbn [map] in P. rewrite P. reflexivity.
Qed.

Lemma PB_stable : Forall stable PB.
Proof. repeat constructor; apply stable_of; lia. Qed.
Lemma CB_stable : Forall stable CB.
Proof. repeat constructor; apply stable_of; lia. Qed.

Lemma until_end_lower expr : until_end (map lower expr) = until_end expr.
Proof. unfold until_end. rewrite index_of_lower by apply PB_stable. rewrite map_length. reflexivity. Qed.

Lemma key_flags_lower key :
  key_flags (map lower key) = (map lower (fst (key_flags key)), snd (key_flags key)).
Proof.
  destruct key as [|c r]; [reflexivity|]. cbn [map key_flags].
  assert (Hq : stable QM) by (apply stable_of; unfold QM; lia).
  rewrite Hq. destruct (c =? QM)%N; reflexivity.
Qed.

Definition skel (parts : list token) : list (bytes * bool) := map (fun t => (t_until t, t_skip t)) parts.

Lemma cloop_lower : forall fuel expr prefix parts1 parts2 names1 names2 p1 ps1 ns1 p2 ps2 ns2,
  skel parts1 = skel parts2 ->
  cloop lower fuel expr prefix parts1 names1 = inr (Some (p1, ps1, ns1)) ->
  cloop fold_id fuel (map lower expr) (map lower prefix) parts2 names2 = inr (Some (p2, ps2, ns2)) ->
  p2 = map lower p1 /\ skel ps1 = skel ps2.
Proof.
  induction fuel as [|fuel IH]; intros expr prefix parts1 parts2 names1 names2 p1 ps1 ns1 p2 ps2 ns2 Hsk H1 H2;
    [discriminate|].
  cbn [cloop] in H1, H2.
  rewrite index_of_lower in H2 by apply PB_stable.
  assert (Hnil : forall (A : Type) (a b : A), match parts2 with [] => a | _ => b end = match parts1 with [] => a | _ => b end).
  { intros A a b. destruct parts1, parts2; cbn in Hsk; auto; discriminate. }
  destruct (index_of fold_id PB expr) as [start|].
  2:{ injection H1 as E1 E2 E3. injection H2 as F1 F2 F3. subst p1 ps1 p2 ps2. split; auto.
      rewrite Hnil. destruct parts1; reflexivity. }
  rewrite ?skipn_map, ?firstn_map in H2.
  rewrite index_of_lower in H2 by apply CB_stable.
  destruct (index_of fold_id CB (skipn (start + 2) expr)) as [stop|]; [|discriminate].
  rewrite ?skipn_map, ?firstn_map in H2. rewrite until_end_lower in H2.
  destruct (until_end (skipn (stop + 1) (skipn (start + 2) expr))) as [e|]; [|discriminate].
  rewrite ?skipn_map, ?firstn_map in H2.
  rewrite key_flags_lower in H2.
  destruct (key_flags (firstn stop (skipn (start + 2) expr))) as [n sk]. cbn [fst snd] in H2.
  rewrite map_fold_id in H2.
  rewrite (Hnil _ (map lower (firstn start expr)) (map lower prefix)) in H2.
  assert (Hpre : match parts1 with [] => map lower (firstn start expr) | _ => map lower prefix end
               = map lower (match parts1 with [] => firstn start expr | _ => prefix end))
    by (destruct parts1; reflexivity).
  rewrite Hpre in H2.
  assert (Hsk' : forall nm1 nm2 u, skel (parts1 ++ [mkTok nm1 u sk]) = skel (parts2 ++ [mkTok nm2 u sk])).
  { intros. unfold skel in *. rewrite !map_app, Hsk. reflexivity. }
  destruct sk.
  - eapply IH; [apply Hsk'|exact H1|exact H2].
  - destruct (name_in n names1); [discriminate|].
    destruct (name_in (map lower n) names2); [discriminate|].
    eapply IH; [apply Hsk'|exact H1|exact H2].
Qed.

Theorem lowered_pattern_proof pat d1 d2 :
  compile true pat = COk d1 -> compile false (map lower pat) = COk d2 ->
  d_prefix d2 = d_prefix d1 /\
  map (fun t => (t_until t, t_skip t)) (d_tokens d2) = map (fun t => (t_until t, t_skip t)) (d_tokens d1).
Proof.
  unfold compile, compile_f. cbn [foldf]. rewrite map_length.
  destruct (cloop lower (S (length pat)) pat [] [] []) as [e|[[[p1 ps1] ns1]|]] eqn:E1; try discriminate.
  destruct (cloop fold_id (S (length pat)) (map lower pat) [] [] []) as [e|[[[p2 ps2] ns2]|]] eqn:E2; try discriminate.
  intros [= <-] [= <-]. cbn [d_prefix d_tokens].
  destruct (cloop_lower _ _ [] [] [] [] [] _ _ _ _ _ _ eq_refl E1 E2) as [Hp Hs].
  rewrite map_fold_id. split; [auto | symmetry; exact Hs].
Qed.
