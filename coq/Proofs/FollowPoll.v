(* C15, polling reader: the invariant of every reachable state, for every interleaving of writer and reader,
   under the property's history restrictions (removal after drain; a file that is not the open one is looked
   at while still shorter than readBytes). *)
From Coq Require Import List NArith Arith Bool Lia.
From RareV Require Import Base.Hex Model.Follow Proofs.FollowBase Proofs.FollowNotify.
Import ListNotations.
Local Open Scope nat_scope.

Lemma estep_curc e l e' : estep e l e' -> curc e' = match l with LAppend bs => curc e ++ bs | _ => [] end.
Proof. intros H. inversion H; subst; unfold curc; cbn; rewrite ?H0; reflexivity. Qed.

Section PollProof.
Variable reopen : bool.
Variable pre : bytes.
Notation pstep := (pstep reopen true).

Record PInv (s : pstate) : Prop := mkPInv {
  qV : valid_fd (penv s) (pfd s);
  (* readBytes = offset of the descriptor *)
  qO : forall i off, pfd s = Some (i, off) -> off = rb s;
  qP : forall i off, pfd s = Some (i, off) ->
         pre ++ pdel s = concat (firstn i (past (penv s))) ++ firstn off (content (penv s) i);
  qN : pfd s = None -> rb s = 0 /\ pre ++ pdel s = concat (past (penv s));
  qG : exists r, pre ++ pdel s = concat (past (penv s)) ++ r;
  (* between os.Stat and os.Open *)
  qQ : forall sz, ppcs s = POpen sz ->
         (rb s <= sz -> present (penv s) = true /\ sz <= size (penv s) /\ rb s < sz /\
                        (pfd s = Some (ino (penv s), rb s) \/ (rb s = 0 /\ pre ++ pdel s = concat (past (penv s))))) /\
         (sz < rb s -> pre ++ pdel s = concat (past (penv s)));
  qM : reopen = false -> present (penv s) = false -> past (penv s) <> [];
  qE : ppcs s = PEnded -> reopen = false /\ past (penv s) <> []
}.

Lemma old_fd_done s i off : PInv s -> pfd s = Some (i, off) -> i < length (past (penv s)) ->
  pre ++ pdel s = concat (past (penv s)).
Proof.
  intros I F L. destruct (qG _ I) as [r G]. rewrite (qP _ I i off F) in *. rewrite content_past in * by exact L.
  apply (past_full _ _ _ _ L G).
Qed.

Lemma not_current_old e i off : valid_fd e (Some (i, off)) -> fd_current e (Some (i, off)) = false -> i < length (past e).
Proof.
  intros [[V|[V Vp]] _] Fc; [exact V|]. exfalso. cbn in Fc. rewrite Vp, V in Fc. unfold ino in Fc.
  rewrite Nat.eqb_refl in Fc. discriminate.
Qed.

Lemma pinv_env s l e' : PInv s -> pok pre s l -> estep (penv s) l e' ->
  PInv (mkp e' (pfd s) (ppcs s) (rb s) (pdel s) (patt s)).
Proof.
  intros I Ok H. pose proof I as [V O P N G Q M E].
  pose proof (estep_past _ _ _ H) as Pa. destruct (estep_present _ _ _ H) as [Pb Pn].
  assert (pre ++ pdel s = concat (past (penv s)) -> pre ++ pdel s = concat (past e')) as Keep.
  { intros X. rewrite Pa. destruct l; rewrite ?app_nil_r; try exact X.
    cbn in Ok. unfold drained in Ok. rewrite Ok, concat_app. cbn. rewrite app_nil_r. reflexivity. }
  constructor; cbn [penv pfd ppcs rb pdel]; auto.
  - destruct (pfd s) as [[i off]|]; [|exact Logic.I]. apply (estep_fd _ _ _ _ _ H V).
  - intros i off F. rewrite F in V. destruct (estep_fd _ _ _ _ _ H V) as (_ & A & B & _). rewrite A, B. apply P, F.
  - intros F. destruct (N F) as [N1 N2]. split; [exact N1|apply Keep, N2].
  - rewrite Pa. destruct l; rewrite ?app_nil_r; try exact G.
    cbn in Ok. unfold drained in Ok. exists []. rewrite Ok, concat_app. cbn. rewrite !app_nil_r. reflexivity.
  - intros sz Hs. destruct (Q sz Hs) as [Q1 Q2]. split.
    + intros Le. destruct (Q1 Le) as (Qp & Qs & Ql & Qd).
      destruct l; try (inversion H; fail).
      * (* append *)
        unfold size, ino in *. rewrite (estep_curc _ _ _ H), Pa, app_nil_r, app_length.
        repeat split; auto. lia.
      * (* remove: impossible, undelivered bytes exist *)
        exfalso. cbn in Ok. unfold drained, all in Ok. unfold size in *.
        destruct Qd as [Qd|[Qz Qd]].
        -- rewrite (P _ _ Qd) in Ok. unfold ino in Ok. rewrite firstn_all, content_cur in Ok.
           apply app_inv_head in Ok. apply (f_equal (@length _)) in Ok. rewrite firstn_length in Ok. lia.
        -- rewrite Qd in Ok. rewrite <- (app_nil_r (concat _)) in Ok at 1. apply app_inv_head in Ok.
           rewrite <- Ok in Qs. cbn in Qs. lia.
      * rewrite Pb in Qp. discriminate.
    + intros Lt. apply Keep, Q2, Lt.
  - intros Hr Hp. destruct l; try (inversion H; fail); try (rewrite Pn in Hp; discriminate).
    rewrite Pa. intros X. apply app_eq_nil in X as [_ X]. discriminate.
  - intros He. destruct (E He) as [E1 E2]. split; [exact E1|]. rewrite Pa. intros X. apply app_eq_nil in X as [X _]. auto.
Qed.

(* plain follow: what the Stat branch reports as "gone or replaced" implies that a file was removed *)
Lemma gone_removed rp s : PInv s -> reopen = false -> plain_sees rp (penv s) (pfd s) = false -> past (penv s) <> [].
Proof.
  intros I Hr Hg. destruct rp; cbn in Hg; [|apply (qM _ I Hr Hg)].
  destruct (pfd s) as [[i off]|] eqn:F; cbn in Hg; [|apply (qM _ I Hr Hg)].
  pose proof (qV _ I) as V. rewrite F in V. pose proof (not_current_old _ _ _ V Hg) as L.
  intros X. rewrite X in L. cbn in L. lia.
Qed.

Lemma pinv_step s l s' : PInv s -> pok pre s l -> pstep s l s' -> PInv s'.
Proof.
  intros I Ok St. inversion St; subst.
  - eapply pinv_env; eauto.
  - (* data *)
    destruct I as [V O P N G Q M E]. rewrite H0 in V. destruct V as [V1 V2].
    constructor; cbn [penv pfd ppcs rb pdel]; auto; try congruence.
    + split; [exact V1|]. eapply chunk_len; eauto.
    + intros i0 off0 F. inversion F; subst i0 off0. rewrite (O _ _ H0). reflexivity.
    + intros i0 off0 F. inversion F; subst i0 off0. rewrite (firstn_chunk _ _ _ _ H2).
      rewrite !app_assoc. f_equal. apply P, H0.
    + destruct G as [r G]. exists (r ++ bs). rewrite !app_assoc. f_equal. exact G.
  - (* retry *) destruct I as [V O P N G Q M E]. constructor; cbn [penv pfd ppcs rb pdel]; auto; try congruence.
  - destruct I as [V O P N G Q M E]. constructor; cbn [penv pfd ppcs rb pdel]; auto; try congruence.
  - destruct I as [V O P N G Q M E]. constructor; cbn [penv pfd ppcs rb pdel]; auto; try congruence.
  - (* os.Stat, re-open *)
    pose proof I as [V O P N G Q M E]. constructor; cbn [penv pfd ppcs rb pdel]; auto; try congruence.
    + intros sz Hs. destruct (present (penv s)) eqn:Pp; [|discriminate]. cbn [andb] in Hs.
      destruct (size (penv s) =? rb s) eqn:Es; [discriminate|]. cbn in Hs. inversion Hs; subst sz. clear Hs.
      apply Nat.eqb_neq in Es. cbn in Ok. specialize (Ok Pp).
      assert (fd_current (penv s) (pfd s) = false -> pre ++ pdel s = concat (past (penv s))) as Old.
      { intros Fc. destruct (pfd s) as [[i off]|] eqn:F; [|apply N; reflexivity].
        eapply old_fd_done; eauto. eapply not_current_old; eauto. }
      split.
      * intros Le. repeat split; auto; [lia|].
        destruct (fd_current (penv s) (pfd s)) eqn:Fc.
        -- left. destruct (pfd s) as [[i off]|] eqn:F; [|discriminate]. cbn in Fc. rewrite Pp in Fc. cbn in Fc.
           apply Nat.eqb_eq in Fc. subst i. rewrite (O _ _ eq_refl). reflexivity.
        -- right. destruct (Ok eq_refl) as [X|X]; [lia|]. split; [exact X|apply Old; reflexivity].
      * intros Lt. destruct (fd_current (penv s) (pfd s)) eqn:Fc; [|apply Old; reflexivity].
        exfalso. destruct (pfd s) as [[i off]|] eqn:F; [|discriminate]. cbn in Fc. rewrite Pp in Fc. cbn in Fc.
        apply Nat.eqb_eq in Fc. subst i. destruct V as [_ V]. unfold ino in V. rewrite content_cur in V.
        rewrite (O _ _ eq_refl) in V. unfold size in Lt. lia.
    + intros He. destruct (present (penv s) && negb (size (penv s) =? rb s)); discriminate.
  - (* os.Open *)
    pose proof I as [V O P N G Q M E]. destruct (Q sz H) as [Q1 Q2].
    destruct (rb s <=? sz) eqn:Le; [apply Nat.leb_le in Le|apply Nat.leb_gt in Le].
    + destruct (Q1 Le) as (Qp & Qs & Ql & Qd). unfold open_cur. rewrite Qp.
      constructor; cbn [penv pfd ppcs rb pdel]; auto; try congruence.
      * split; [right; split; [reflexivity|exact Qp]|]. unfold ino. rewrite content_cur. unfold size in Qs. lia.
      * intros i off F. inversion F; subst i off. destruct Qd as [Qd|[Qz Qd]]; [apply P, Qd|].
        rewrite Qz. unfold ino. rewrite firstn_all. cbn. rewrite app_nil_r. exact Qd.
    + specialize (Q2 Le). unfold open_cur.
      constructor; cbn [penv pfd ppcs rb pdel]; auto; try congruence.
      * destruct (present (penv s)) eqn:Pp; [|exact Logic.I]. split; [right; split; [reflexivity|exact Pp]|lia].
      * intros i off F. destruct (present (penv s)); inversion F. reflexivity.
      * intros i off F. destruct (present (penv s)); inversion F; subst i off.
        unfold ino. rewrite firstn_all. cbn. rewrite app_nil_r. exact Q2.
  - destruct I as [V O P N G Q M E]. constructor; cbn [penv pfd ppcs rb pdel]; auto; try congruence.
  - pose proof (gone_removed _ _ I H0 H1) as Rm.
    destruct I as [V O P N G Q M E]. constructor; cbn [penv pfd ppcs rb pdel]; auto; try congruence.
  - exact I.
Qed.
End PollProof.

Definition pabs (pre : bytes) (s : pstate) : spec :=
  mks (skipn (length pre) (all (penv s))) (pdel s) (present (penv s)) (removed_b (penv s))
      (match ppcs s with PEnded => true | _ => false end).

Section PollThms.
Variable reopen : bool.
Variable c0 : option bytes.
Variable tail : bool.
Hypothesis new_ok : c0 = None -> reopen = true.      (* followreader.New fails otherwise *)
Let pre := pre_of c0 tail.
Notation pstep := (pstep reopen true).
Notation PInv := (PInv reopen pre).
Notation prun := (run pstep (pok pre) (pinit c0 tail)).

Lemma pinv_init : PInv (pinit c0 tail).
Proof.
  unfold pinit, pre, pre_of, fd0, env0. destruct c0 as [c|]; constructor; cbn; try tauto; try discriminate; try congruence.
  - split; [right; split; [reflexivity|reflexivity]|]. unfold content. cbn. apply start_le.
  - intros i off F. inversion F; subst. unfold content. cbn. rewrite app_nil_r. reflexivity.
  - exists (firstn (start_of tail c) c). rewrite app_nil_r. reflexivity.
  - exists []. reflexivity.
  - intros Hr. rewrite new_ok in Hr; [discriminate|reflexivity].
Qed.

Lemma pinv_run_from s0 tr s : PInv s0 -> run pstep (pok pre) s0 tr s -> PInv s.
Proof. intros I R. induction R as [|s0 tr s1 l s2 R IH Ok St]; [exact I|]. eapply pinv_step; [apply IH, I|exact Ok|exact St]. Qed.
Lemma pinv_run tr s : prun tr s -> PInv s.
Proof. apply pinv_run_from, pinv_init. Qed.

Lemma pinv_prefix s : PInv s -> exists rest, all (penv s) = pre ++ pdel s ++ rest.
Proof.
  intros [V _ P N _ _ _ _]. destruct (pfd s) as [[i off]|] eqn:F.
  - destruct V as [V Vo]. destruct (all_split (penv s) i) as [t T]; [tauto|].
    exists (skipn off (content (penv s) i) ++ t). rewrite app_assoc, (P i off eq_refl), T, <- !app_assoc.
    f_equal. rewrite app_assoc, firstn_skipn. reflexivity.
  - exists (curc (penv s)). rewrite app_assoc. destruct (N eq_refl) as [_ ->]. reflexivity.
Qed.

Lemma pabs_step s l s' : PInv s -> pok pre s l -> pstep s l s' -> spec_step reopen (pabs pre s) l = Some (pabs pre s').
Proof.
  intros I Ok St. pose proof (pinv_step _ _ _ _ _ I Ok St) as I'.
  destruct (pinv_prefix _ I) as [rest A]. destruct (pinv_prefix _ I') as [rest' A'].
  inversion St; subst; unfold pabs in *; cbn [penv pfd ppcs rb pdel] in *.
  - eapply spec_env; eauto. intros ->. exact Ok.
  - rewrite H. cbn [spec_step sEnded sDl sE negb andb]. rewrite A', !skipn_pre.
    rewrite is_prefix_app. destruct bs; [congruence|]. reflexivity.
  - rewrite H. reflexivity.
  - rewrite H. reflexivity.
  - rewrite H. reflexivity.
  - rewrite H. cbn. destruct (present (penv s) && negb (size (penv s) =? rb s)); reflexivity.
  - rewrite H. cbn. destruct (rb s <=? sz); reflexivity.
  - rewrite H. reflexivity.
  - rewrite H. cbn [spec_step sEnded sDl sE sRemoved negb andb].
    rewrite removed_b_true; [reflexivity|]. eapply gone_removed; eauto.
  - reflexivity.
Qed.

Lemma pabs_init : pabs pre (pinit c0 tail) = spec_init c0 tail.
Proof.
  unfold pabs, pinit, spec_init, pre, pre_of, env0, all, curc, present, removed_b. cbn. destruct c0 as [c|]; cbn; [|reflexivity].
  rewrite firstn_length_le by apply start_le. reflexivity.
Qed.

Lemma prun_spec_from s0 tr s : PInv s0 -> run pstep (pok pre) s0 tr s ->
  spec_run reopen (pabs pre s0) tr = Some (pabs pre s).
Proof.
  intros I R. induction R as [|s0 tr s1 l s2 R IH Ok St]; [reflexivity|]. rewrite spec_run_app, (IH I). cbn.
  rewrite (pabs_step s1 l s2); [reflexivity| |assumption|assumption]. eapply pinv_run_from; eauto.
Qed.

Lemma prun_spec tr s : prun tr s -> spec_run reopen (spec_init c0 tail) tr = Some (pabs pre s).
Proof. intros R. rewrite <- pabs_init. apply prun_spec_from; [apply pinv_init|exact R]. Qed.
End PollThms.
