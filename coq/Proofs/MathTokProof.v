(* C19 — a decidable form of the premise of C19_total: every unary-operator token (at any nesting
   depth) is a key of uniOps.  The correspondence evaluates [toks_mods_ok] on the tokens of every
   generated formula (Corr/C19Case.v check). *)
From Coq Require Import List Bool NArith.
From RareV Require Import Base.Hex Gen.GenMathOps Model.MathParse Model.MathTok Model.MathEval Proofs.MathEvalProof.
Import ListNotations.

Lemma tok_mods_group g : tok_mods_ok (TGroup g) = toks_mods_ok g.
Proof. reflexivity. Qed.

Lemma toks_mods_app a b : toks_mods_ok (a ++ b) = toks_mods_ok a && toks_mods_ok b.
Proof. induction a as [|x a IH]; cbn [app toks_mods_ok]; [reflexivity|]. rewrite IH, andb_assoc. reflexivity. Qed.

Lemma mods_ok_inorder t : toks_mods_ok (inorder atom bytes bytes t) = true -> mods_ok_t t.
Proof.
  induction t as [a | m x IH | o imp l IHl r IHr | x IH]; cbn [inorder mods_ok_t]; intros H.
  - exact I.
  - cbn [toks_mods_ok tok_mods_ok] in H. apply andb_true_iff in H as [Hm Hx]. auto.
  - rewrite !toks_mods_app in H. apply andb_true_iff in H as [Hl H]. apply andb_true_iff in H as [_ Hr]. auto.
  - cbn [toks_mods_ok] in H. rewrite tok_mods_group, andb_true_r in H. auto.
Qed.

Lemma mods_premise ts : toks_mods_ok ts = true -> forall t, inorder atom bytes bytes t = ts -> mods_ok_t t.
Proof. intros H t <-. now apply mods_ok_inorder. Qed.
