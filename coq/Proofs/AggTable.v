(* C07 — TableAggregator: the fold equals the specification; totals; min/max; order independence. *)
From Coq Require Import List NArith ZArith Bool Lia Sorted Permutation.
From RareV Require Import Base.Hex Base.Num Model.Agg Proofs.AggMap Proofs.AggCounter Proofs.AggTableWf.
Import ListNotations.
Local Open Scope Z_scope.

Notation v3 := (list (bytes * bytes * Z)).
Definition colkeys (v : v3) : list bytes := map (fun p => fst (fst p)) v.
Definition rowkeys (v : v3) : list bytes := map (fun p => snd (fst p)) v.
Definition cells_spec (r : bytes) (v : v3) : amap Z :=
  map (fun c => (c, wrap64 (sum_ab c r v))) (filter (fun c => has_ab c r v) (usort (colkeys v))).

Definition sum3 (p : bytes * bytes * Z -> bool) (v : v3) : Z := zsum (map snd (filter p v)).
Lemma sum3_snoc p v x : sum3 p (v ++ [x]) = sum3 p v + (if p x then snd x else 0).
Proof. unfold sum3. rewrite filter_app, map_app, zsum_app. cbn. destruct (p x); cbn; lia. Qed.
Lemma sum3_none p v : (forall x, In x v -> p x = false) -> sum3 p v = 0.
Proof.
  unfold sum3. induction v as [|x v IH]; intros H; cbn; [reflexivity|].
  rewrite (H x) by (left; reflexivity). apply IH. intros y Hy. apply H. right. exact Hy.
Qed.
Lemma sum3_perm p v1 v2 : Permutation v1 v2 -> sum3 p v1 = sum3 p v2.
Proof. intros H. unfold sum3. apply zsum_perm, Permutation_map, Permutation_filter, H. Qed.

Lemma has_ab_snoc c r v x : has_ab c r (v ++ [x]) = has_ab c r v || (beq c (fst (fst x)) && beq r (snd (fst x))).
Proof. unfold has_ab. rewrite existsb_app. cbn. rewrite orb_false_r. reflexivity. Qed.
Lemma has_ab_false_sum c r v : has_ab c r v = false -> sum_ab c r v = 0.
Proof.
  intros H. apply (sum3_none (fun p => beq c (fst (fst p)) && beq r (snd (fst p)))).
  intros x Hx. unfold has_ab in H. destruct (beq c (fst (fst x)) && beq r (snd (fst x))) eqn:E; [|reflexivity].
  assert (existsb (fun p => beq c (fst (fst p)) && beq r (snd (fst p))) v = true) by (apply existsb_exists; exists x; split; assumption).
  congruence.
Qed.
Lemma has_ab_col c r v : has_ab c r v = true -> In c (colkeys v) /\ In r (rowkeys v).
Proof.
  unfold has_ab. rewrite existsb_exists. intros (x & Hx & E). apply andb_true_iff in E as [E1 E2].
  apply beq_eq in E1, E2. subst. split; [apply (in_map (fun p => fst (fst p))) | apply (in_map (fun p => snd (fst p)))]; exact Hx.
Qed.
Lemma has_ab_perm c r v1 v2 : Permutation v1 v2 -> has_ab c r v1 = has_ab c r v2.
Proof.
  intros H. unfold has_ab.
  destruct (existsb _ v1) eqn:E1, (existsb _ v2) eqn:E2; try reflexivity.
  - apply existsb_exists in E1 as (x & Hx & E). assert (existsb (fun p => beq c (fst (fst p)) && beq r (snd (fst p))) v2 = true)
      by (apply existsb_exists; exists x; split; [eapply Permutation_in; eassumption | exact E]). congruence.
  - apply existsb_exists in E2 as (x & Hx & E). assert (existsb (fun p => beq c (fst (fst p)) && beq r (snd (fst p))) v1 = true)
      by (apply existsb_exists; exists x; split; [eapply Permutation_in; [apply Permutation_sym|]; eassumption | exact E]). congruence.
Qed.

(* sorted lists stay sorted under filter *)
Lemma ksorted_filter p l : ksorted l -> ksorted (filter p l).
Proof.
  induction l as [|x l IH]; intros H; cbn; [constructor|].
  apply ksorted_cons_inv in H as [Hs HF]. destruct (p x); [|apply IH; exact Hs].
  constructor; [apply IH; exact Hs|]. rewrite Forall_forall in *. intros y Hy. apply filter_In in Hy. apply HF. tauto.
Qed.

Lemma afind_tab_filter {V} (f : bytes -> V) p k l :
  afind k (map (fun x => (x, f x)) (filter p l)) = if mem k l && p k then Some (f k) else None.
Proof.
  rewrite afind_tab.
  destruct (mem k (filter p l)) eqn:M.
  - apply mem_In in M. apply filter_In in M as [M1 M2]. apply mem_In in M1. rewrite M1, M2. reflexivity.
  - destruct (mem k l) eqn:M1; [|reflexivity]. destruct (p k) eqn:M2; [|reflexivity].
    assert (mem k (filter p l) = true) by (apply mem_In, filter_In; split; [apply mem_In; exact M1 | exact M2]). congruence.
Qed.

Lemma cells_spec_sorted r v : asorted (cells_spec r v).
Proof. unfold asorted, cells_spec. rewrite keys_tab. apply ksorted_filter, usort_sorted. Qed.
Lemma afind_cells_spec c r v :
  afind c (cells_spec r v) = if has_ab c r v then Some (wrap64 (sum_ab c r v)) else None.
Proof.
  unfold cells_spec. rewrite (afind_tab_filter (fun c => wrap64 (sum_ab c r v))).
  destruct (has_ab c r v) eqn:H; [|rewrite andb_false_r; reflexivity].
  apply has_ab_col in H as [H _]. apply In_usort in H. apply mem_In in H. rewrite H. reflexivity.
Qed.
Lemma cells_spec_keys c r v : In c (map fst (cells_spec r v)) <-> has_ab c r v = true.
Proof.
  split; intros H.
  - destruct (has_ab c r v) eqn:E; [reflexivity|].
    assert (N : afind c (cells_spec r v) = None) by (rewrite afind_cells_spec, E; reflexivity).
    apply afind_none_notin in N. contradiction.
  - destruct (afind c (cells_spec r v)) eqn:E.
    + apply afind_some_in in E. apply (in_map fst) in E. exact E.
    + rewrite afind_cells_spec, H in E. discriminate.
Qed.

(* one more valid sample (c, r, z) *)
Lemma cells_spec_snoc_same c r z v :
  aupd c (addo z) (cells_spec r v) = cells_spec r (v ++ [(c, r, z)]).
Proof.
  apply amap_ext; [apply aupd_sorted, cells_spec_sorted | apply cells_spec_sorted |].
  intros c'. rewrite (afind_cells_spec c' r (v ++ _)), has_ab_snoc. cbn [fst snd].
  unfold sum_ab at 1. fold (sum3 (fun p => beq c' (fst (fst p)) && beq r (snd (fst p))) (v ++ [(c, r, z)])).
  rewrite sum3_snoc. cbn [fst snd]. rewrite beq_refl, andb_true_r.
  destruct (bytes_dec c' c) as [->|Hne].
  - rewrite afind_aupd_same by apply cells_spec_sorted. rewrite afind_cells_spec, beq_refl, orb_true_r.
    f_equal. destruct (has_ab c r v) eqn:Hh; unfold addo; cbn [dflt].
    + apply add64_wrap.
    + change (sum3 _ v) with (sum_ab c r v). rewrite has_ab_false_sum by exact Hh. reflexivity.
  - rewrite afind_aupd_other by exact Hne. rewrite afind_cells_spec, (beq_neq c' c) by exact Hne.
    rewrite orb_false_r, Z.add_0_r. reflexivity.
Qed.
Lemma cells_spec_snoc_other c r r' z v : r' <> r ->
  cells_spec r' (v ++ [(c, r, z)]) = cells_spec r' v.
Proof.
  intros Hne. apply amap_ext; try apply cells_spec_sorted.
  intros c'. rewrite !afind_cells_spec, has_ab_snoc. cbn [fst snd].
  unfold sum_ab at 1. fold (sum3 (fun p => beq c' (fst (fst p)) && beq r' (snd (fst p))) (v ++ [(c, r, z)])).
  rewrite sum3_snoc. cbn [fst snd]. rewrite (beq_neq r' r) by exact Hne.
  rewrite andb_false_r, orb_false_r, Z.add_0_r. reflexivity.
Qed.
Lemma cells_spec_new r v : ~ In r (rowkeys v) -> cells_spec r v = [].
Proof.
  intros H. unfold cells_spec. replace (filter (fun c => has_ab c r v) (usort (colkeys v))) with (@nil bytes); [reflexivity|].
  symmetry. induction (usort (colkeys v)) as [|x l IH]; cbn; [reflexivity|].
  destruct (has_ab x r v) eqn:E; [|exact IH]. apply has_ab_col in E. tauto.
Qed.

(* rows and columns of the specification *)
Definition rows_spec (v : v3) : amap trow :=
  map (fun r => (r, (cells_spec r v, wrap64 (sum_b r v)))) (usort (rowkeys v)).
Definition cols_spec (v : v3) : amap Z :=
  map (fun c => (c, wrap64 (sum_a c v))) (usort (colkeys v)).
Lemma spec_table_unfold d h : spec_table d h = mkT (rows_spec (valid3 d h)) (cols_spec (valid3 d h)) (nerr3 d h).
Proof. reflexivity. Qed.

Lemma rows_spec_sorted v : asorted (rows_spec v).
Proof. unfold asorted, rows_spec. rewrite keys_tab. apply usort_sorted. Qed.
Lemma cols_spec_sorted v : asorted (cols_spec v).
Proof. unfold asorted, cols_spec. rewrite keys_tab. apply usort_sorted. Qed.
Lemma afind_rows_spec r v :
  afind r (rows_spec v) = if mem r (rowkeys v) then Some (cells_spec r v, wrap64 (sum_b r v)) else None.
Proof.
  unfold rows_spec. rewrite (afind_tab (fun r => (cells_spec r v, wrap64 (sum_b r v)))).
  rewrite (mem_ext r (usort (rowkeys v)) (rowkeys v)) by apply In_usort. reflexivity.
Qed.
Lemma afind_cols_spec c v :
  afind c (cols_spec v) = if mem c (colkeys v) then Some (wrap64 (sum_a c v)) else None.
Proof.
  unfold cols_spec. rewrite (afind_tab (fun c => wrap64 (sum_a c v))).
  rewrite (mem_ext c (usort (colkeys v)) (colkeys v)) by apply In_usort. reflexivity.
Qed.

Lemma cols_spec_snoc c r z v : aupd c (addo z) (cols_spec v) = cols_spec (v ++ [(c, r, z)]).
Proof.
  apply amap_ext; [apply aupd_sorted, cols_spec_sorted | apply cols_spec_sorted |].
  intros c'. rewrite (afind_cols_spec c' (v ++ _)). unfold colkeys at 1. rewrite map_app. cbn [map fst snd].
  unfold sum_a at 1. fold (sum3 (fun p => beq c' (fst (fst p))) (v ++ [(c, r, z)])). rewrite sum3_snoc. cbn [fst snd].
  destruct (bytes_dec c' c) as [->|Hne].
  - rewrite afind_aupd_same by apply cols_spec_sorted. rewrite afind_cols_spec, beq_refl.
    replace (mem c (map (fun p => fst (fst p)) v ++ [c])) with true
      by (symmetry; apply mem_In, in_or_app; right; left; reflexivity).
    f_equal. destruct (mem c (colkeys v)) eqn:M; unfold addo; cbn [dflt].
    + apply add64_wrap.
    + rewrite sum3_none; [reflexivity|]. intros x Hx. apply beq_neq. intros ->.
      apply (in_map (fun p => fst (fst p))) in Hx. apply mem_In in Hx. unfold colkeys in M. congruence.
  - rewrite afind_aupd_other by exact Hne. rewrite afind_cols_spec, (beq_neq c' c), Z.add_0_r by exact Hne.
    rewrite (mem_ext c' (map (fun p => fst (fst p)) v ++ [c]) (colkeys v)); [reflexivity|].
    unfold colkeys. rewrite in_app_iff. cbn. intuition congruence.
Qed.

Lemma rows_spec_snoc c r z v :
  aupd r (fun o => let '(cells, sm) := match o with Some x => x | None => ([], 0) end in
                   (aupd c (addo z) cells, add64 sm z)) (rows_spec v)
  = rows_spec (v ++ [(c, r, z)]).
Proof.
  apply amap_ext; [apply aupd_sorted, rows_spec_sorted | apply rows_spec_sorted |].
  intros r'. rewrite (afind_rows_spec r' (v ++ _)). unfold rowkeys at 1. rewrite map_app. cbn [map fst snd].
  unfold sum_b at 1. fold (sum3 (fun p => beq r' (snd (fst p))) (v ++ [(c, r, z)])). rewrite sum3_snoc. cbn [fst snd].
  destruct (bytes_dec r' r) as [->|Hne].
  - rewrite afind_aupd_same by apply rows_spec_sorted. rewrite afind_rows_spec, beq_refl.
    replace (mem r (map (fun p => snd (fst p)) v ++ [r])) with true
      by (symmetry; apply mem_In, in_or_app; right; left; reflexivity).
    destruct (mem r (rowkeys v)) eqn:M.
    + rewrite cells_spec_snoc_same, add64_wrap. reflexivity.
    + assert (N : ~ In r (rowkeys v)) by (intros Hin; apply mem_In in Hin; congruence).
      rewrite <- cells_spec_snoc_same, (cells_spec_new r v N).
      rewrite sum3_none; [reflexivity|]. intros x Hx. apply beq_neq. intros ->.
      apply N. apply (in_map (fun p => snd (fst p))) in Hx. exact Hx.
  - rewrite afind_aupd_other by exact Hne. rewrite afind_rows_spec, (beq_neq r' r), Z.add_0_r by exact Hne.
    rewrite (cells_spec_snoc_other c r r' z v Hne).
    rewrite (mem_ext r' (map (fun p => snd (fst p)) v ++ [r]) (rowkeys v)); [reflexivity|].
    unfold rowkeys. rewrite in_app_iff. cbn. intuition congruence.
Qed.

Lemma valid3_snoc d h s : valid3 d (h ++ [s]) = valid3 d h ++ match parse3 d s with Some x => [x] | None => [] end.
Proof. unfold valid3. rewrite flat_map_app. cbn. rewrite app_nil_r. reflexivity. Qed.
Lemma nerr3_snoc d h s : nerr3 d (h ++ [s]) = (nerr3 d h + match parse3 d s with None => 1 | Some _ => 0 end)%N.
Proof. unfold nerr3. rewrite filter_app, app_length. cbn. destruct (parse3 d s); cbn; lia. Qed.
Lemma t_run_snoc d h s : t_run d (h ++ [s]) = t_sample d (t_run d h) s.
Proof. unfold t_run. rewrite fold_left_app. reflexivity. Qed.

(* C07_table_fold *)
Theorem table_fold_proof : forall d h, t_run d h = spec_table d h.
Proof.
  intros d h. induction h as [|s h IH] using rev_ind; [reflexivity|].
  rewrite t_run_snoc, IH, !spec_table_unfold. unfold t_sample.
  rewrite valid3_snoc, nerr3_snoc. destruct (parse3 d s) as [[[c r] z]|]; cbn [t_rows t_cols t_errors].
  - unfold t_sample_item. cbn [t_rows t_cols t_errors].
    rewrite rows_spec_snoc, (cols_spec_snoc c r z). f_equal. lia.
  - rewrite app_nil_r. reflexivity.
Qed.

(* ---------- order independence ---------- *)
Lemma valid3_perm d h1 h2 : Permutation h1 h2 -> Permutation (valid3 d h1) (valid3 d h2).
Proof. intros H. unfold valid3. apply Permutation_flat_map. exact H. Qed.

Lemma cells_spec_perm r v1 v2 : Permutation v1 v2 -> cells_spec r v1 = cells_spec r v2.
Proof.
  intros H. apply amap_ext; try apply cells_spec_sorted. intros c. rewrite !afind_cells_spec.
  rewrite (has_ab_perm c r v1 v2 H).
  change (sum_ab c r v1) with (sum3 (fun p => beq c (fst (fst p)) && beq r (snd (fst p))) v1).
  rewrite (sum3_perm _ v1 v2 H). reflexivity.
Qed.

Theorem spec_table_perm d h1 h2 : Permutation h1 h2 -> spec_table d h1 = spec_table d h2.
Proof.
  intros H. rewrite !spec_table_unfold. pose proof (valid3_perm d _ _ H) as Hv. f_equal.
  - apply amap_ext; try apply rows_spec_sorted. intros r. rewrite !afind_rows_spec.
    rewrite (mem_ext r (rowkeys (valid3 d h1)) (rowkeys (valid3 d h2))).
    + rewrite (cells_spec_perm r _ _ Hv).
      change (sum_b r (valid3 d h1)) with (sum3 (fun p => beq r (snd (fst p))) (valid3 d h1)).
      rewrite (sum3_perm _ _ _ Hv). reflexivity.
    + unfold rowkeys. split; apply Permutation_in; [|apply Permutation_sym]; apply Permutation_map; exact Hv.
  - apply amap_ext; try apply cols_spec_sorted. intros c. rewrite !afind_cols_spec.
    rewrite (mem_ext c (colkeys (valid3 d h1)) (colkeys (valid3 d h2))).
    + change (sum_a c (valid3 d h1)) with (sum3 (fun p => beq c (fst (fst p))) (valid3 d h1)).
      rewrite (sum3_perm _ _ _ Hv). reflexivity.
    + unfold colkeys. split; apply Permutation_in; [|apply Permutation_sym]; apply Permutation_map; exact Hv.
  - unfold nerr3. f_equal. apply length_filter_perm. exact H.
Qed.

(* C07_table_perm *)
Theorem table_perm_proof : forall d h1 h2, Permutation h1 h2 -> t_run d h1 = t_run d h2.
Proof. intros d h1 h2 H. rewrite !table_fold_proof. apply spec_table_perm. exact H. Qed.
