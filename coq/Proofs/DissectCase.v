(* C12 — ignore-case: only adds matches (for any byte folding applied to both the pattern
   literals and the line), and equals case-sensitive matching of the folded literals on the
   folded line. *)
From Coq Require Import List NArith Bool Arith Lia.
From RareV Require Import Base.Hex Model.Dissect Proofs.DissectSearch Proofs.DissectFind.
Import ListNotations.

Definition fold_tok (f : N -> N) (t : token) : token := mkTok (t_name t) (map f (t_until t)) (t_skip t).
Definition fold_lits (ic : bool) (f : N -> N) (d : dissect) : dissect :=
  mkD ic (map f (d_prefix d)) (map (fold_tok f) (d_tokens d)) (d_names d).

Lemma map_fold_id (l : bytes) : map fold_id l = l.
Proof. unfold fold_id. apply map_id. Qed.

(* ---------- matching with folding = case-sensitive matching of the folded line ---------- *)

Lemma until_off_map f t line s : until_off f t line s = until_off fold_id t (map f line) s.
Proof.
  unfold until_off. destruct (t_until t); [rewrite map_length; auto|].
  rewrite skipn_map. apply index_of_map.
Qed.

Lemma scan_map f line : forall toks s, scan f toks line s = scan fold_id toks (map f line) s.
Proof.
  induction toks as [|t ts IH]; intros s; auto.
  rewrite !scan_cons, until_off_map. destruct (until_off fold_id t (map f line) s); auto.
  rewrite IH. reflexivity.
Qed.

Theorem find_map_proof f d line : find_f f d line = find_f fold_id d (map f line).
Proof.
  rewrite !find_f_unfold, index_of_map. destruct (index_of fold_id (d_prefix d) (map f line)); auto.
  rewrite scan_map. reflexivity.
Qed.

(* ---------- monotonicity ---------- *)

Lemma until_off_fold_le f t line s s' off :
  s' <= s -> s <= length line ->
  until_off fold_id t line s = Some off ->
  exists off', until_off f (fold_tok f t) line s' = Some off' /\
               s' + off' + length (t_until (fold_tok f t)) <= s + off + length (t_until t).
Proof.
  intros Hss Hs Ho. unfold until_off in *. cbn [fold_tok t_until].
  destruct (t_until t) as [|u us] eqn:U.
  - cbn [map]. inversion Ho; subst. exists (length line - s'). split; auto. cbn. lia.
  - apply index_of_some in Ho as [Ho _].
    apply occurs_skipn in Ho; auto.
    apply (occurs_fold f) in Ho.
    replace (s + off) with (s' + (s + off - s')) in Ho by lia.
    apply occurs_skipn in Ho; [|lia].
    apply index_of_le in Ho as (i & Hi & Hle).
    exists i. split.
    + cbn [map] in *. exact Hi.
    + rewrite map_length. lia.
Qed.

Lemma scan_mono f line : forall toks s s' caps e,
  s' <= s -> s <= length line ->
  scan fold_id toks line s = Some (caps, e) ->
  exists caps' e', scan f (map (fold_tok f) toks) line s' = Some (caps', e') /\ e' <= e.
Proof.
  induction toks as [|t ts IH]; intros s s' caps e Hss Hs H.
  - cbn in *. inversion H; subst. eauto.
  - cbn [map]. rewrite scan_cons in *.
    destruct (until_off fold_id t line s) as [off|] eqn:Eo; [|discriminate].
    destruct (until_off_fold_le f _ _ _ _ _ Hss Hs Eo) as (off' & Eo' & Hle).
    pose proof (until_off_bound _ _ _ _ _ Hs Eo) as Hb.
    rewrite Eo'.
    destruct (scan fold_id ts line (s + off + length (t_until t))) as [[c1 e1]|] eqn:Es; [|discriminate].
    inversion H; subst.
    destruct (IH _ _ _ _ Hle Hb Es) as (c2 & e2 & -> & He). eauto.
Qed.

(* C12_ic_monotone, generic form: whatever byte map folds both the literals and the line *)
Theorem ic_monotone_gen_proof f ic d line r :
  find_f fold_id d line = Some r -> exists r', find_f f (fold_lits ic f d) line = Some r'.
Proof.
  rewrite !find_f_unfold. cbn [fold_lits d_prefix d_tokens].
  destruct (index_of fold_id (d_prefix d) line) as [s0|] eqn:Ep; [|discriminate].
  pose proof (index_of_bound _ _ _ _ Ep) as Hb.
  apply index_of_some in Ep as [Ho _]. apply (occurs_fold f) in Ho.
  apply index_of_le in Ho as (s0' & -> & Hle).
  destruct (scan fold_id (d_tokens d) line (s0 + length (d_prefix d))) as [[caps e]|] eqn:Es; [|discriminate].
  intros _. rewrite map_length.
  assert (Hss : s0' + length (d_prefix d) <= s0 + length (d_prefix d)) by lia.
  destruct (scan_mono f line _ _ _ _ _ Hss Hb Es) as (c2 & e2 & -> & _). eauto.
Qed.

(* ---------- the compiler: folding touches the literals only ---------- *)

Definition cmap (f : N -> N) (r : cerr + option (bytes * list token * list bytes)) :=
  match r with
  | inr (Some (p, parts, names)) => inr (Some (p, map (fold_tok f) parts, names))
  | x => x
  end.

Lemma cloop_fold f : forall fuel expr prefix parts names,
  cloop f fuel expr prefix (map (fold_tok f) parts) names = cmap f (cloop fold_id fuel expr prefix parts names).
Proof.
  induction fuel as [|fuel IH]; intros expr prefix parts names; [reflexivity|].
  cbn [cloop].
  destruct (index_of fold_id PB expr) as [start|].
  2:{ destruct parts; reflexivity. }
  destruct (index_of fold_id CB (skipn (start + 2) expr)) as [stop|]; [|reflexivity].
  destruct (until_end _) as [e|]; [|reflexivity].
  destruct (key_flags _) as [name skip].
  rewrite map_fold_id.
  assert (Hp : map (fold_tok f) parts ++ [mkTok name (map f (firstn e (skipn (stop + 1) (skipn (start + 2) expr)))) skip]
          = map (fold_tok f) (parts ++ [mkTok name (firstn e (skipn (stop + 1) (skipn (start + 2) expr))) skip])).
  { rewrite map_app. reflexivity. }
  rewrite Hp.
  assert (Hpre : match map (fold_tok f) parts with [] => firstn start expr | _ => prefix end
               = match parts with [] => firstn start expr | _ => prefix end) by (destruct parts; reflexivity).
  rewrite Hpre.
  destruct skip; [apply IH|]. destruct (name_in name names); [reflexivity|apply IH].
Qed.

Definition cres_map (g : dissect -> dissect) (r : cres) : cres :=
  match r with COk d => COk (g d) | x => x end.

(* compiling with folding = compiling case-sensitively, then folding the literals: the same
   errors, tokens, skip flags and name table *)
Theorem compile_fold_proof ic f pat :
  compile_f ic f pat = cres_map (fold_lits ic f) (compile_f false fold_id pat).
Proof.
  unfold compile_f. pose proof (cloop_fold f (S (length pat)) pat [] [] []) as H.
  cbn [map] in H. rewrite H.
  destruct (cloop fold_id (S (length pat)) pat [] [] []) as [e|[[[p parts] names]|]]; cbn; auto.
  unfold fold_lits. cbn. rewrite map_fold_id. reflexivity.
Qed.

Lemma compile_ic ic f pat d : compile_f ic f pat = COk d -> d_ic d = ic.
Proof.
  unfold compile_f. destruct (cloop _ _ _ _ _ _) as [e|[[[p parts] names]|]]; try discriminate.
  intros [= <-]. reflexivity.
Qed.

(* C12_ic_monotone *)
Theorem ic_monotone_proof pat d line :
  compile false pat = COk d -> find d line <> None ->
  exists d', compile true pat = COk d' /\ find d' line <> None /\ d_names d' = d_names d.
Proof.
  intros Hc Hf. unfold compile in *. cbn [foldf] in *.
  exists (fold_lits true lower d). rewrite (compile_fold_proof true lower), Hc. cbn [cres_map].
  split; [reflexivity|]. split; [|reflexivity].
  unfold find in *. rewrite (compile_ic _ _ _ _ Hc) in Hf. cbn [foldf fold_lits d_ic] in *.
  destruct (find_f fold_id d line) as [r|] eqn:E; [|congruence].
  destruct (ic_monotone_gen_proof lower true _ _ _ E) as (r' & ->). discriminate.
Qed.

(* compile errors do not depend on the mode *)
Theorem compile_err_mode_proof pat e : compile true pat = CErr e <-> compile false pat = CErr e.
Proof.
  unfold compile. cbn [foldf]. rewrite (compile_fold_proof true lower).
  destruct (compile_f false fold_id pat); cbn; split; congruence.
Qed.

(* C12_ic_ascii: ignore-case matching = case-sensitive matching of the lower-cased literals on
   the lower-cased line *)
Theorem ic_ascii_proof pat d :
  compile false pat = COk d ->
  compile true pat = COk (fold_lits true lower d) /\
  forall line, find (fold_lits true lower d) line = find (fold_lits false lower d) (map lower line).
Proof.
  intros Hc. unfold compile in *. cbn [foldf] in *.
  rewrite (compile_fold_proof true lower), Hc. split; [reflexivity|].
  intros line. unfold find. cbn [fold_lits d_ic foldf].
  rewrite find_map_proof. reflexivity.
Qed.

(* lower is the identity outside A-Z and idempotent *)
Lemma lower_idem b : lower (lower b) = lower b.
Proof.
  unfold lower. destruct (N.leb 65 b && N.leb b 90)%bool eqn:E; auto.
  - apply andb_true_iff in E as [E1 E2]. apply N.leb_le in E1, E2.
    assert (H : (N.leb 65 (b + 32) && N.leb (b + 32) 90)%bool = false).
    { apply andb_false_iff. right. apply N.leb_gt. lia. }
    rewrite H. reflexivity.
  - rewrite E. reflexivity.
Qed.
