(* C18 — buckettime: the seven bucket layouts print exactly the instant truncated to the unit:
   two instants in the same unit (same truncation of the local time) get the same key. *)
From Coq Require Import List ZArith NArith Lia Bool String.
From RareV Require Import Base.Hex Base.Num Gen.GenTime Model.Calendar Model.TimeFmt Model.C18Check.
From RareV Require Import Proofs.CalendarSweep Proofs.CalendarProof.
Import ListNotations.
Local Open Scope Z_scope.

Definition unit_word (u : unit_) : bytes :=
  s2b (match u with
       | UNanos => "nanos" | USeconds => "seconds" | UMinutes => "minutes" | UHours => "hours"
       | UDays => "days" | UMonths => "months" | UYears => "years" end)%string.

Definition unit_layout (u : unit_) : bytes :=
  match bucket_layout (unit_word u) with Some l => l | None => [] end.

(* the fields a unit's key may depend on *)
Definition same_upto (u : unit_) (c c' : civil) : Prop :=
  c_year c = c_year c' /\
  (u <> UYears -> c_month c = c_month c') /\
  (u <> UYears -> u <> UMonths -> c_day c = c_day c') /\
  (u <> UYears -> u <> UMonths -> u <> UDays -> c_hour c = c_hour c') /\
  (u <> UYears -> u <> UMonths -> u <> UDays -> u <> UHours -> c_min c = c_min c') /\
  (u = USeconds \/ u = UNanos -> c_sec c = c_sec c') /\
  (u = UNanos -> c_nsec c = c_nsec c').

Lemma key_depends_on_fields u c c' : same_upto u c c' ->
  format_layout (unit_layout u) c = format_layout (unit_layout u) c'.
Proof.
  intros (Hy & Hm & Hd & Hh & Hmi & Hs & Hn).
  destruct u; unfold format_layout;
    match goal with |- context [tokenize ?L] =>
      let t := eval vm_compute in (tokenize L) in change (tokenize L) with t end;
    unfold format_toks; cbn [flat_map fmt_tok];
    rewrite ?Hy, ?Hm, ?Hd, ?Hh, ?Hmi, ?Hs, ?Hn by (auto; discriminate); reflexivity.
Qed.

Ltac Zify.zify_post_hook ::= Z.div_mod_to_equations.
Ltac fin := repeat split; intros; auto; try discriminate; try congruence;
  try (match goal with H : _ \/ _ |- _ => destruct H; discriminate end).

Lemma civil_fields_of_day t n off a :
  civil_from_days ((t + off) / 86400) = (c_year (civil_of t n off a), c_month (civil_of t n off a), c_day (civil_of t n off a)).
Proof. unfold civil_of, local_secs. destruct (civil_from_days _) as [[y m] d]. reflexivity. Qed.

Lemma civil_clock t n off a :
  c_hour (civil_of t n off a) = (t + off) mod 86400 / 3600 /\
  c_min (civil_of t n off a) = (t + off) mod 86400 mod 3600 / 60 /\
  c_sec (civil_of t n off a) = (t + off) mod 86400 mod 60 /\
  c_nsec (civil_of t n off a) = n.
Proof. unfold civil_of, local_secs. destruct (civil_from_days _) as [[y m] d]. cbn. auto. Qed.

Lemma trunc_years l y m d : civil_from_days (l / 86400) = (y, m, d) -> trunc_local UYears l = year_start y * 86400.
Proof. intros F. cbn [trunc_local]. rewrite F. reflexivity. Qed.
Lemma trunc_months l y m d : civil_from_days (l / 86400) = (y, m, d) -> trunc_local UMonths l = days_from_civil y m 1 * 86400.
Proof. intros F. cbn [trunc_local]. rewrite F. reflexivity. Qed.
Lemma year_start_inj y y' : year_start y = year_start y' -> y = y'.
Proof.
  intros E. destruct (Z.lt_trichotomy y y') as [L|[E'|L]]; [|exact E'|].
  - pose proof (year_start_lt_mono _ _ L). lia.
  - pose proof (year_start_lt_mono _ _ L). lia.
Qed.
Lemma mul86400_inj a b : a * 86400 = b * 86400 -> a = b.
Proof. lia. Qed.

Lemma bucket_fields u l l' c c' :
  civil_from_days (l / 86400) = (c_year c, c_month c, c_day c) ->
  civil_from_days (l' / 86400) = (c_year c', c_month c', c_day c') ->
  c_hour c = l mod 86400 / 3600 -> c_min c = l mod 86400 mod 3600 / 60 -> c_sec c = l mod 86400 mod 60 ->
  c_hour c' = l' mod 86400 / 3600 -> c_min c' = l' mod 86400 mod 3600 / 60 -> c_sec c' = l' mod 86400 mod 60 ->
  trunc_local u l = trunc_local u l' -> (u = UNanos -> c_nsec c = c_nsec c') ->
  same_upto u c c'.
Proof.
  intros F F' Ch Cm Cs Ch' Cm' Cs' H Hn.
  unfold same_upto.
  assert (Same_day : l / 86400 = l' / 86400 ->
           c_year c = c_year c' /\ c_month c = c_month c' /\ c_day c = c_day c').
  { intros E. rewrite E in F. rewrite F in F'. injection F' as E1 E2 E3. auto. }
  destruct u; [cbn [trunc_local] in H|cbn [trunc_local] in H|cbn [trunc_local] in H|cbn [trunc_local] in H|cbn [trunc_local] in H| |].
  - (* nanos: the local second itself *)
    assert (E : l = l') by exact H. destruct (Same_day ltac:(congruence)) as (? & ? & ?).
    rewrite Ch, Ch', Cm, Cm', Cs, Cs', E.
    fin.
  - assert (E : l = l') by exact H. destruct (Same_day ltac:(congruence)) as (? & ? & ?).
    rewrite Ch, Ch', Cm, Cm', Cs, Cs', E.
    fin.
  - (* minutes *)
    assert (Ed : l / 86400 = l' / 86400) by lia.
    destruct (Same_day Ed) as (? & ? & ?).
    assert (Eh : l mod 86400 / 3600 = l' mod 86400 / 3600) by lia.
    assert (Em : l mod 86400 mod 3600 / 60 = l' mod 86400 mod 3600 / 60) by lia.
    rewrite Ch, Ch', Cm, Cm'.
    fin.
  - (* hours *)
    assert (Ed : l / 86400 = l' / 86400) by lia.
    destruct (Same_day Ed) as (? & ? & ?).
    assert (Eh : l mod 86400 / 3600 = l' mod 86400 / 3600) by lia.
    rewrite Ch, Ch'.
    fin.
  - (* days *)
    assert (Ed : l / 86400 = l' / 86400) by lia.
    destruct (Same_day Ed) as (? & ? & ?).
    fin.
  - (* months *)
    rewrite (trunc_months _ _ _ _ F), (trunc_months _ _ _ _ F') in H. apply mul86400_inj in H.
    pose proof (month_start_inverse _ _ _ _ F) as I1. pose proof (month_start_inverse _ _ _ _ F') as I2.
    rewrite H in I1. rewrite I1 in I2. injection I2 as E1 E2.
    fin.
  - (* years *)
    rewrite (trunc_years _ _ _ _ F), (trunc_years _ _ _ _ F') in H. apply mul86400_inj, year_start_inj in H.
    fin.
Qed.

(* same bucket -> same key *)
Theorem bucket_same_key : forall u t t' n n' off a a',
  trunc_local u (t + off) = trunc_local u (t' + off) -> (u = UNanos -> n = n') ->
  format_layout (unit_layout u) (civil_of t n off a) = format_layout (unit_layout u) (civil_of t' n' off a').
Proof.
  intros u t t' n n' off a a' H Hn. apply key_depends_on_fields.
  destruct (civil_clock t n off a) as (Ch & Cm & Cs & Cn).
  destruct (civil_clock t' n' off a') as (Ch' & Cm' & Cs' & Cn').
  apply (bucket_fields u (t + off) (t' + off)); auto.
  all: try apply civil_fields_of_day.
  all: try (intros E; rewrite Cn, Cn'; auto).
Qed.

(* the truncation is the start of the unit holding the instant: idempotent and not after it *)
Theorem trunc_local_le : forall u l, trunc_local u l <= l.
Proof.
  intros u l. destruct u; cbn [trunc_local]; try lia.
  - destruct (civil_from_days (l / 86400)) as [[y m] d] eqn:E.
    apply civil_days_inverse_proof in E as (_ & _ & _ & _ & H). lia.
  - destruct (civil_from_days (l / 86400)) as [[y m] d] eqn:E.
    apply civil_days_inverse_proof in E as (_ & _ & _ & H & _). lia.
Qed.

(* the key, explicitly: year-month-day hour:minute:second of the local time, cut at the unit *)
Theorem bucket_key_explicit : forall c,
  format_layout (unit_layout UYears) c = append_int (c_year c) 4 /\
  format_layout (unit_layout UMonths) c = append_int (c_year c) 4 ++ [45%N] ++ append_int (c_month c) 2 /\
  format_layout (unit_layout UDays) c =
    append_int (c_year c) 4 ++ [45%N] ++ append_int (c_month c) 2 ++ [45%N] ++ append_int (c_day c) 2 /\
  format_layout (unit_layout UHours) c =
    append_int (c_year c) 4 ++ [45%N] ++ append_int (c_month c) 2 ++ [45%N] ++ append_int (c_day c) 2 ++ [32%N] ++
    append_int (c_hour c) 2.
Proof.
  intros c. repeat split; unfold format_layout;
    match goal with |- context [tokenize ?L] =>
      let t := eval vm_compute in (tokenize L) in change (tokenize L) with t end;
    unfold format_toks; cbn [flat_map fmt_tok app]; rewrite ?app_nil_r; reflexivity.
Qed.
