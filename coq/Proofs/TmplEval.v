(* Normalisation does not change what a tree evaluates to; the boolean forms of the property
   ([C09_check]) accept everything the model produces. *)
From Coq Require Import List NArith ZArith Bool Lia Arith.
From RareV Require Import Base.Res Base.Hex Base.Num Model.IsSpace Model.Tmpl Model.TmplPrint
  Proofs.TmplFuel Proofs.TmplEsc Proofs.TmplCopy Proofs.TmplTree Proofs.TmplMain Proofs.TmplEscTree.
Import ListNotations.
Local Open Scope N_scope.

(* ---- induction principle for [piece] (nested through list (list _)) ---- *)
Section PInd.
  Variable P : piece -> Prop.
  Hypothesis HL : forall s, P (PLit s).
  Hypothesis HM : forall i, P (PMatch i).
  Hypothesis HK : forall k, P (PKey k).
  Hypothesis HC : forall f args, Forall (Forall P) args -> P (PCall f args).
  Fixpoint piece_ind2 (p : piece) : P p :=
    match p with
    | PLit s => HL s
    | PMatch i => HM i
    | PKey k => HK k
    | PCall f args =>
        HC f args
          ((fix go (l : list (list piece)) : Forall (Forall P) l :=
              match l with
              | [] => Forall_nil _
              | a :: r =>
                  Forall_cons a
                    ((fix go2 (t : list piece) : Forall P t :=
                        match t with [] => Forall_nil _ | x :: y => Forall_cons x (piece_ind2 x) (go2 y) end) a)
                    (go r)
              end) args)
    end.
End PInd.

Lemma eval_app a b : eval (a ++ b) = eval a ++ eval b.
Proof. unfold eval. rewrite map_app, concat_app. reflexivity. Qed.

Lemma eval_cons p r : eval (p :: r) = eval_piece p ++ eval r.
Proof. reflexivity. Qed.
Lemma eval_one p : eval [p] = eval_piece p.
Proof. unfold eval. cbn. apply app_nil_r. Qed.

Lemma eval_flush sb : eval (flush sb) = sb.
Proof. destruct sb; cbn; auto. rewrite app_nil_r. reflexivity. Qed.

Lemma eval_absorb : forall t st sb,
  eval (fst (absorb st sb t)) ++ snd (absorb st sb t) = eval st ++ sb ++ eval t.
Proof.
  induction t as [|p r IH]; intros st sb.
  - cbn. rewrite app_nil_r. reflexivity.
  - destruct p as [s|i|k|f args].
    + cbn [absorb]. rewrite IH. change (eval (PLit s :: r)) with (s ++ eval r).
      rewrite <- !app_assoc. reflexivity.
    + cbn [absorb]. rewrite IH. rewrite !eval_app, eval_flush. cbn [app].
      rewrite (eval_cons (PMatch i) r), eval_one. rewrite <- !app_assoc. reflexivity.
    + cbn [absorb]. rewrite IH. rewrite !eval_app, eval_flush. cbn [app].
      rewrite (eval_cons (PKey k) r), eval_one. rewrite <- !app_assoc. reflexivity.
    + cbn [absorb]. rewrite IH. rewrite !eval_app, eval_flush. cbn [app].
      rewrite (eval_cons (PCall f args) r), eval_one. rewrite <- !app_assoc. reflexivity.
Qed.

Lemma eval_merge t : eval (merge t) = eval t.
Proof. rewrite merge_eq, eval_app, eval_flush. rewrite eval_absorb. reflexivity. Qed.

Lemma eval_normp : forall p, eval_piece (normp p) = eval_piece p.
Proof.
  apply piece_ind2; try reflexivity.
  intros f args HF. cbn [normp eval_piece].
  assert (E : map (fun a => concat (map eval_piece a)) (map (fun a => merge (map normp a)) args)
              = map (fun a => concat (map eval_piece a)) args).
  { rewrite map_map. induction HF as [|a r Ha Hr IH]; cbn [map]; auto.
    rewrite IH. f_equal. change (concat (map eval_piece (merge (map normp a)))) with (eval (merge (map normp a))).
    rewrite eval_merge. unfold eval. rewrite map_map. f_equal.
    induction Ha as [|x y Hx Hy IH2]; cbn [map]; auto. rewrite Hx, IH2. reflexivity. }
  rewrite E. reflexivity.
Qed.

(* adjacent literals merged, empty literals dropped: same evaluation *)
Theorem eval_norm t : eval (norm t) = eval t.
Proof.
  unfold norm. rewrite eval_merge. unfold eval. rewrite map_map. f_equal.
  induction t as [|x y IH]; cbn [map]; auto. rewrite eval_normp, IH. reflexivity.
Qed.

(* ---- reflection of the comparisons ---- *)
Lemma str_eqb_eq a b : str_eqb a b = true <-> a = b.
Proof. unfold str_eqb. apply list_eqb_eq. intros; apply N.eqb_eq. Qed.
Lemma str_eqb_refl a : str_eqb a a = true.
Proof. apply str_eqb_eq. reflexivity. Qed.
Lemma err_eqb_eq a b : err_eqb a b = true <-> a = b.
Proof.
  destruct a as [a1 a2], b as [b1 b2]. unfold err_eqb. cbn [fst snd]. rewrite andb_true_iff, !N.eqb_eq.
  split; [intros [-> ->]; reflexivity | intros H; inversion H; auto].
Qed.
Lemma errs_eqb_refl e : list_eqb err_eqb e e = true.
Proof. apply (list_eqb_eq err_eqb err_eqb_eq). reflexivity. Qed.


Lemma check_of_result k s t es :
  compile probe_fs s = Ok (t, es) -> claim_static k s = true ->
  (forall eo ee, claim_expect k = Some (eo, ee) -> eval t = eo /\ codes es = ee) ->
  C09_check k s (obs_of (compile probe_fs s)) = true.
Proof.
  intros Hc Hs He. rewrite Hc. cbn [obs_of C09_check]. rewrite str_eqb_refl, Hs. cbn [andb].
  destruct (claim_expect k) as [[eo ee]|]; auto.
  destruct (He eo ee eq_refl) as [H1 H2]. fold (codes es). rewrite H1, H2.
  rewrite str_eqb_refl, errs_eqb_refl. reflexivity.
Qed.

Lemma wf2_inv c : wf2 c = true -> wf_tmpl c = true /\ fn_ok_tmpl probe_fs c = true.
Proof. unfold wf2. intros H. apply andb_true_iff in H. exact H. Qed.

Lemma plain_probe f : is_plain_probe f = true ->
  probe_fs f = Some (fun _ => None) /\ item_ok false f = true.
Proof.
  unfold is_plain_probe. intros H.
  repeat (apply orb_true_iff in H; destruct H as [H|H]);
    apply (list_eqb_eq N.eqb N.eqb_eq) in H; subst f; split; reflexivity.
Qed.

(* the boolean form accepts what the model produces, for every well-formed claim *)
Theorem check_sound k s : claim_static k s = true -> C09_check k s (obs_of (compile probe_fs s)) = true.
Proof.
  intros Hs. destruct k as [|s0|c|c w c'|c q|c call c'|c f lit w|c f x|c]; cbn [claim_static] in Hs.
  - (* raw *)
    pose proof (compile_total probe_fs s) as Ht.
    destruct (compile probe_fs s) as [[t es]|] eqn:Hc; [|congruence].
    rewrite <- Hc. apply (check_of_result KRaw s t es); auto. discriminate.
  - (* esc *)
    apply str_eqb_eq in Hs. subst s.
    apply (check_of_result (KEsc s0) _ _ _ (escape_roundtrip true probe_fs s0)).
    + cbn [claim_static]. apply str_eqb_refl.
    + intros eo ee E. inversion E; subst. split; [apply eval_flush|reflexivity].
  - (* tree *)
    apply andb_true_iff in Hs as [Hw Hs]. apply str_eqb_eq in Hs. subst s.
    destruct (wf2_inv _ Hw) as [H1 H2].
    apply (check_of_result (KTree c) _ _ _ (print_parse true probe_fs c H1 H2)).
    + cbn [claim_static]. rewrite Hw, str_eqb_refl. reflexivity.
    + intros eo ee E. inversion E; subst. split; [apply eval_norm|reflexivity].
  - (* empty statement *)
    apply andb_true_iff in Hs as [Hs0 Hs]. apply str_eqb_eq in Hs. subst s.
    apply andb_true_iff in Hs0 as [Hs0 Hw]. apply andb_true_iff in Hs0 as [Hc Hc'].
    destruct (wf2_inv _ Hc) as [H1 H2]. destruct (wf2_inv _ Hc') as [H1' H2'].
    apply (check_of_result (KEmpty c w c') _ _ _ (err_empty true probe_fs c w c' H1 H2 H1' H2' Hw)).
    + cbn [claim_static]. rewrite Hc, Hc', Hw, str_eqb_refl. reflexivity.
    + intros eo ee E. inversion E; subst. split; [|reflexivity].
      rewrite eval_app, !eval_norm. reflexivity.
  - (* unterminated *)
    apply andb_true_iff in Hs as [Hs0 Hs]. apply str_eqb_eq in Hs. subst s.
    apply andb_true_iff in Hs0 as [Hc Hq]. destruct (wf2_inv _ Hc) as [H1 H2].
    apply (check_of_result (KUnterm c q) _ _ _ (err_unterminated true probe_fs c q H1 H2 Hq)).
    + cbn [claim_static]. rewrite Hc, Hq, str_eqb_refl. reflexivity.
    + intros eo ee E. inversion E; subst. split; [|reflexivity].
      rewrite eval_app, eval_norm, eval_flush. reflexivity.
  - (* missing function *)
    apply andb_true_iff in Hs as [Hs0 Hs]. apply andb_true_iff in Hs0 as [Hs0 Hcall].
    apply andb_true_iff in Hs0 as [Hc Hc'].
    destruct (wf2_inv _ Hc) as [H1 H2]. destruct (wf2_inv _ Hc') as [H1' H2'].
    destruct call as [?|? ? ? ?|pre qf f args post]; try discriminate.
    destruct (probe_fs f) eqn:Hf; [discriminate|]. apply str_eqb_eq in Hs. subst s.
    apply (check_of_result (KMissing c (CCall pre qf f args post) c') _ _ _
             (err_missing true probe_fs c pre qf f args post c' H1 H2 H1' H2' Hcall Hf)).
    + cbn [claim_static]. rewrite Hc, Hc', Hcall, Hf, str_eqb_refl. reflexivity.
    + intros eo ee E. cbn [claim_expect] in E. inversion E; subst. split; [|reflexivity].
      rewrite eval_app. change (PLit (err_lit f) :: norm (erase c')) with ([PLit (err_lit f)] ++ norm (erase c')).
      rewrite eval_app, !eval_norm. cbn. rewrite app_nil_r. reflexivity.
  - (* error inside an argument *)
    apply andb_true_iff in Hs as [Hs0 Hs]. apply str_eqb_eq in Hs. subst s.
    apply andb_true_iff in Hs0 as [Hs0 Hw]. apply andb_true_iff in Hs0 as [Hs0 Hns].
    apply andb_true_iff in Hs0 as [Hs0 Hlit]. apply andb_true_iff in Hs0 as [Hc Hf].
    destruct (wf2_inv _ Hc) as [H1 H2]. destruct (plain_probe f Hf) as [Hfs Hitem].
    set (x := lit ++ 123 :: w ++ [125]).
    assert (Hinner : compile probe_fs x = Ok (norm (erase [CLit lit]) ++ norm (erase []), [(EEmptyStatement, olen lit)])).
    { pose proof (err_empty true probe_fs [CLit lit] w [] ) as E. cbn [print map concat print_piece] in E.
      rewrite app_nil_r in E. unfold x.
      replace (lit ++ 123 :: w ++ [125]) with (lit ++ 123 :: w ++ 125 :: []) by reflexivity.
      apply E; auto. cbn. rewrite Hlit. reflexivity. }
    assert (HxO : okO 0 x = true).
    { unfold x. rewrite okO_safe by assumption. cbn [okO]. change (123 =? 92) with false. change (123 =? 123) with true.
      cbn iota. rewrite okO_safe by (apply ws_safe; assumption). reflexivity. }
    assert (HxS : okS 0 false x = true).
    { unfold x. rewrite okS_word by assumption. cbn [okS]. change (123 =? 92) with false. change (123 =? 34) with false.
      change (123 =? 123) with true. cbn iota. rewrite okS_deep_safe by (apply ws_safe; assumption). reflexivity. }
    assert (Hne : x <> []) by (unfold x; destruct lit; discriminate).
    pose proof (err_rebase true probe_fs c f (fun _ => None) x _ _ H1 H2 Hitem Hfs eq_refl HxO HxS Hne Hinner) as E.
    replace (print c ++ 123 :: f ++ 32 :: x ++ [125]) with (print c ++ 123 :: f ++ 32 :: (lit ++ 123 :: w ++ [125]) ++ [125]) in E by reflexivity.
    apply (check_of_result (KNested c f lit w) _ _ _ E).
    + cbn [claim_static]. rewrite Hc, Hf, Hlit, Hns, Hw, str_eqb_refl. reflexivity.
    + intros eo ee E'. cbn [claim_expect] in E'. inversion E'; subst. split; [|reflexivity].
      rewrite eval_app, eval_norm. f_equal. cbn [eval map concat eval_piece join].
      change (concat (map eval_piece (norm (erase [CLit lit]) ++ norm (erase [])))) with (eval (norm (erase [CLit lit]) ++ norm (erase []))).
      rewrite eval_app, !eval_norm. cbn. rewrite !app_nil_r. reflexivity.  - (* any verbatim argument: errors re-based *)
    apply andb_true_iff in Hs as [Hs0 Hs]. apply str_eqb_eq in Hs. subst s.
    apply andb_true_iff in Hs0 as [Hs0 Hne]. apply andb_true_iff in Hs0 as [Hs0 HxS].
    apply andb_true_iff in Hs0 as [Hs0 HxO]. apply andb_true_iff in Hs0 as [Hc Hf].
    destruct (wf2_inv _ Hc) as [H1 H2]. destruct (plain_probe f Hf) as [Hfs Hitem].
    assert (Hne' : x <> []) by (destruct x; [discriminate|congruence]).
    pose proof (compile_total probe_fs x) as Ht.
    destruct (compile probe_fs x) as [[tx ex]|] eqn:Hx; [|congruence].
    pose proof (err_rebase true probe_fs c f (fun _ => None) x tx ex H1 H2 Hitem Hfs eq_refl HxO HxS Hne' Hx) as E.
    apply (check_of_result (KArg c f x) _ _ _ E).
    + cbn [claim_static]. rewrite Hc, Hf, HxO, HxS, Hne, str_eqb_refl. reflexivity.
    + intros eo ee E'. cbn [claim_expect] in E'. rewrite Hx in E'. inversion E'; subst. split; [|reflexivity].
      rewrite eval_app, eval_norm. f_equal. cbn [eval map concat eval_piece join]. rewrite app_nil_r. reflexivity.  - (* layered escapes *)
    apply andb_true_iff in Hs as [Hs0 Hs]. apply str_eqb_eq in Hs. subst s.
    apply andb_true_iff in Hs0 as [H1 H2].
    apply (check_of_result (KEscTree c) _ _ _ (print_parse_escaped true probe_fs c H1 H2)).
    + cbn [claim_static]. rewrite H1, H2, str_eqb_refl. reflexivity.
    + intros eo ee E. inversion E; subst. split; [apply eval_norm|reflexivity].
Qed.

(* ---- statements collected for Props/C09.v ---- *)
Lemma backslash_any_full : forall fixed fs s c s',
  compile_gen fixed fs (esc s ++ 92 :: c :: esc s') = Ok ([PLit (s ++ unescape c :: s')], [])
  /\ (c <> 110 -> c <> 114 -> c <> 116 -> unescape c = c).
Proof. intros. split; [apply backslash_any | apply unescape_other]. Qed.

Lemma errors_all : forall fixed fs c, wf_tmpl c = true -> fn_ok_tmpl fs c = true ->
  (forall w c', wf_tmpl c' = true -> fn_ok_tmpl fs c' = true -> ws w = true ->
     compile_gen fixed fs (print c ++ 123 :: w ++ 125 :: print c')
     = Ok (norm (erase c) ++ norm (erase c'), [(EEmptyStatement, N.of_nat (length (print c)))])) /\
  (forall q, stays_open 0 q = true ->
     compile_gen fixed fs (print c ++ 123 :: q)
     = Ok (norm (erase c) ++ flush q, [(EUnterminated, N.of_nat (length (print c)))])) /\
  (forall pre qf f args post c', wf_tmpl c' = true -> fn_ok_tmpl fs c' = true ->
     wf_piece (CCall pre qf f args post) = true -> fs f = None ->
     compile_gen fixed fs (print c ++ print_piece (CCall pre qf f args post) ++ print c')
     = Ok (norm (erase c) ++ PLit (err_lit f) :: norm (erase c'), [(EMissingFunction, N.of_nat (length (print c)))])) /\
  (forall f chk x tx ex, item_ok false f = true -> fs f = Some chk -> chk [tx] = None ->
     okO 0 x = true -> okS 0 false x = true -> x <> [] -> compile_gen fixed fs x = Ok (tx, ex) ->
     compile_gen fixed fs (print c ++ 123 :: f ++ 32 :: x ++ [125])
     = Ok (norm (erase c) ++ [PCall f [tx]], rebase (N.of_nat (length (print c))) ex)).
Proof.
  intros fixed fs c Hw Hf. repeat split; intros.
  - apply err_empty; assumption.
  - apply err_unterminated; assumption.
  - apply err_missing; assumption.
  - apply (err_rebase fixed fs c f chk); assumption.
Qed.

(* the raw form (no crash; both builders agree) accepts the model under any function table *)
Lemma check_sound_raw fs s : C09_check KRaw s (obs_of (compile fs s)) = true.
Proof.
  pose proof (compile_total fs s) as Ht.
  destruct (compile fs s) as [[t es]|]; [|congruence].
  cbn [obs_of C09_check claim_static claim_expect]. rewrite str_eqb_refl. reflexivity.
Qed.
