(* C15: list and environment lemmas shared by the notify and the polling proofs. *)
From Coq Require Import List NArith Arith Bool Lia.
From RareV Require Import Base.Hex Model.Follow.
Import ListNotations.
Local Open Scope nat_scope.

Lemma skipn_nil_len {A} (l : list A) n : skipn n l = [] -> length l <= n.
Proof. intros H. pose proof (skipn_length n l) as E. rewrite H in E. simpl in E. lia. Qed.

Lemma chunk_len {A} (c bs rest : list A) off : skipn off c = bs ++ rest -> bs <> [] -> off + length bs <= length c.
Proof.
  intros H Hb. pose proof (skipn_length off c) as E. rewrite H, app_length in E.
  destruct bs; [congruence|]. simpl in *. lia.
Qed.

Lemma firstn_chunk {A} (c bs rest : list A) off :
  skipn off c = bs ++ rest -> firstn (off + length bs) c = firstn off c ++ bs.
Proof.
  intros H. rewrite <- (firstn_skipn off c) at 1. rewrite H.
  destruct (Nat.le_gt_cases off (length c)) as [L|L].
  - rewrite firstn_app, firstn_length_le by exact L.
    replace (off + length bs - off) with (length bs) by lia.
    rewrite firstn_app, Nat.sub_diag, firstn_all. cbn. rewrite app_nil_r.
    rewrite firstn_all2; [reflexivity|]. rewrite firstn_length_le by exact L. lia.
  - assert (skipn off c = []) as E by (apply skipn_all2; lia). rewrite E in H.
    symmetry in H. apply app_eq_nil in H as [-> ->]. cbn. rewrite Nat.add_0_r, !app_nil_r.
    rewrite firstn_firstn. f_equal. lia.
Qed.

Lemma concat_split (l : list bytes) i : i < length l ->
  concat l = concat (firstn i l) ++ nth i l [] ++ concat (skipn (S i) l).
Proof.
  revert i. induction l as [|x l IH]; intros i Hi; [cbn in Hi; lia|].
  destruct i; cbn.
  - reflexivity.
  - rewrite <- app_assoc. f_equal. apply IH. cbn in Hi. lia.
Qed.

(* a descriptor on a removed file: if everything removed has been delivered, the file was read to its end
   and every later removed file is empty *)
Lemma past_full (l : list bytes) i off (r : bytes) : i < length l ->
  concat (firstn i l) ++ firstn off (nth i l []) = concat l ++ r ->
  r = [] /\ concat (firstn i l) ++ firstn off (nth i l []) = concat l.
Proof.
  intros Hi H. rewrite (concat_split l i Hi) in H. rewrite <- !app_assoc in H.
  apply app_inv_head in H.
  assert (length (firstn off (nth i l [])) <= length (nth i l [])) as L by (rewrite firstn_length; lia).
  assert (E := f_equal (@length _) H). rewrite !app_length in E.
  assert (length (concat (skipn (S i) l)) = 0 /\ length r = 0) as [Z1 Z2] by lia.
  apply length_zero_iff_nil in Z1, Z2. subst r. split; [reflexivity|].
  rewrite Z1, !app_nil_r in H. rewrite (concat_split l i Hi). rewrite Z1, app_nil_r. f_equal. exact H.
Qed.

(* ---- well-formed descriptors ---- *)
Definition valid_fd (e : env) (f : fd) : Prop :=
  match f with
  | Some (i, off) => (i < length (past e) \/ (i = length (past e) /\ present e = true)) /\ off <= length (content e i)
  | None => True
  end.

Lemma content_cur e : content e (length (past e)) = curc e.
Proof. unfold content. rewrite Nat.ltb_irrefl, Nat.eqb_refl. reflexivity. Qed.
Lemma content_past e i : i < length (past e) -> content e i = nth i (past e) [].
Proof. intros H. unfold content. apply Nat.ltb_lt in H. rewrite H. reflexivity. Qed.

(* everything written is: the files before the descriptor's, the descriptor's file, the rest *)
Lemma all_split e i : i < length (past e) \/ (i = length (past e)) ->
  exists t, all e = concat (firstn i (past e)) ++ content e i ++ t.
Proof.
  intros [H|H].
  - exists (concat (skipn (S i) (past e)) ++ curc e). unfold all. rewrite (concat_split _ i H) at 1.
    rewrite content_past by exact H. rewrite <- !app_assoc. reflexivity.
  - subst i. exists []. rewrite content_cur, firstn_all, app_nil_r. reflexivity.
Qed.

Lemma estep_all e l e' : estep e l e' ->
  all e' = all e ++ match l with LAppend bs => bs | _ => [] end.
Proof.
  intros H. inversion H; subst; unfold all, curc; cbn; rewrite H0, ?concat_app; cbn; rewrite ?app_nil_r, ?app_assoc; reflexivity.
Qed.

Lemma estep_past e l e' : estep e l e' ->
  past e' = past e ++ match l with LRemove => [curc e] | _ => [] end.
Proof. intros H. inversion H; subst; unfold curc; cbn; rewrite ?H0, ?app_nil_r; reflexivity. Qed.

Lemma estep_present e l e' : estep e l e' ->
  present e = match l with LCreate => false | _ => true end /\
  present e' = match l with LRemove => false | _ => true end.
Proof. intros H. inversion H; subst; unfold present; cbn; rewrite ?H0; auto. Qed.

Lemma estep_env_label e l e' : estep e l e' -> is_env l = true.
Proof. intros H. inversion H; reflexivity. Qed.

(* a valid descriptor stays valid; the bytes below its offset, and the files before it, do not change *)
Lemma estep_fd e l e' i off : estep e l e' -> valid_fd e (Some (i, off)) ->
  valid_fd e' (Some (i, off)) /\
  concat (firstn i (past e')) = concat (firstn i (past e)) /\
  firstn off (content e' i) = firstn off (content e i) /\
  (exists x, content e' i = content e i ++ x) /\
  (i < length (past e) -> content e' i = content e i).
Proof.
  intros H [[V|[V Vp]] Vo].
  - (* a removed file *)
    assert (content e' i = content e i) as C.
    { rewrite !content_past; rewrite ?(estep_past _ _ _ H), ?app_length; try lia. rewrite app_nth1 by exact V. reflexivity. }
    repeat split.
    + left. rewrite (estep_past _ _ _ H), app_length. lia.
    + rewrite C. exact Vo.
    + rewrite (estep_past _ _ _ H), firstn_app. replace (i - length (past e)) with 0 by lia.
      cbn. rewrite app_nil_r. reflexivity.
    + rewrite C. reflexivity.
    + exists []. rewrite C, app_nil_r. reflexivity.
    + intros _. exact C.
  - (* the file at the path *)
    subst i. rewrite content_cur in Vo. inversion H; subst; unfold present in Vp; try (rewrite H0 in Vp; discriminate).
    + (* append *)
      assert (content {| past := past e; cur := Some (c ++ bs) |} (length (past e)) = content e (length (past e)) ++ bs) as C.
      { rewrite (content_cur e). unfold content, curc; cbn [past cur]. rewrite Nat.ltb_irrefl, Nat.eqb_refl, H0. reflexivity. }
      repeat split; cbn [past].
      * right. split; reflexivity.
      * rewrite C, app_length, content_cur. lia.
      * rewrite C, firstn_app, content_cur. replace (off - length (curc e)) with 0 by lia. cbn. rewrite app_nil_r. reflexivity.
      * exists bs. exact C.
      * lia.
    + (* remove *)
      assert (content {| past := past e ++ [c]; cur := None |} (length (past e)) = content e (length (past e))) as C.
      { rewrite content_past by (cbn; rewrite app_length; cbn; lia). cbn. rewrite nth_middle, content_cur. unfold curc. rewrite H0. reflexivity. }
      repeat split; cbn [past].
      * left. rewrite app_length. cbn. lia.
      * rewrite C, content_cur. exact Vo.
      * rewrite firstn_app, Nat.sub_diag. cbn. rewrite app_nil_r. reflexivity.
      * rewrite C. reflexivity.
      * exists []. rewrite C, app_nil_r. reflexivity.
      * lia.
Qed.

(* ---- boolean prefix test of the specification ---- *)
Lemma bytes_eqb_refl a : bytes_eqb a a = true.
Proof. apply bytes_eqb_eq. reflexivity. Qed.
Lemma is_prefix_app a r : is_prefix a (a ++ r) = true.
Proof. unfold is_prefix. rewrite firstn_app, Nat.sub_diag, firstn_all. cbn. rewrite app_nil_r. apply bytes_eqb_refl. Qed.
Lemma is_prefix_true a b : is_prefix a b = true -> exists r, b = a ++ r.
Proof. unfold is_prefix. intros H. apply bytes_eqb_eq in H. exists (skipn (length a) b). rewrite H at 1. symmetry. apply firstn_skipn. Qed.

Lemma skipn_pre (pre d : bytes) : skipn (length pre) (pre ++ d) = d.
Proof. rewrite skipn_app, skipn_all, Nat.sub_diag. reflexivity. Qed.

Lemma run_app {S} (step : S -> label -> S -> Prop) ok s tr1 s1 tr2 s2 :
  run step ok s tr1 s1 -> run step ok s1 tr2 s2 -> run step ok s (tr1 ++ tr2) s2.
Proof.
  intros H1 H2. induction H2.
  - rewrite app_nil_r. exact H1.
  - rewrite app_assoc. econstructor; eauto.
Qed.

Lemma spec_run_app ro s tr1 tr2 :
  spec_run ro s (tr1 ++ tr2) = match spec_run ro s tr1 with Some s' => spec_run ro s' tr2 | None => None end.
Proof. revert s. induction tr1 as [|l tr1 IH]; intros s; cbn; [reflexivity|]. destruct (spec_step ro s l); [apply IH|reflexivity]. Qed.
