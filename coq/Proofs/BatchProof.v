From Coq Require Import List NArith Bool Arith Lia.
From RareV Require Import Base.Hex Model.Batch.
Import ListNotations.

Lemma numbered_app src start a b :
  numbered src start (a ++ b) = numbered src start a ++ numbered src (start + N.of_nat (length a)) b.
Proof.
  revert start. induction a as [|x a IH]; intros start; cbn [numbered app length].
  - rewrite N.add_0_r. reflexivity.
  - rewrite IH. f_equal. f_equal. f_equal. lia.
Qed.

Lemma numbered_length src start ls : length (numbered src start ls) = length ls.
Proof. revert start. induction ls; intros; cbn; auto. Qed.

Lemma cut_go_ids src bsz : forall ls flush start cur,
  flat_map b_ids (cut_go src bsz flush start cur ls) = numbered src start (cur ++ ls).
Proof.
  induction ls as [|l r IH]; intros flush start cur; cbn [cut_go].
  - rewrite app_nil_r. destruct cur; [reflexivity|]. cbn [flat_map]. rewrite app_nil_r. reflexivity.
  - destruct ((bsz <=? length (cur ++ [l])) || hd false flush).
    + cbn [flat_map]. rewrite IH. unfold b_ids at 1. cbn [b_src b_start b_lines app].
      rewrite <- numbered_app, <- app_assoc. reflexivity.
    + rewrite IH, <- app_assoc. reflexivity.
Qed.

(* nothing lost, nothing duplicated, and the numbers computed from BatchStart are the true line numbers *)
Theorem cut_ids src bsz flush ls : flat_map b_ids (cut src bsz flush ls) = numbered src 1%N ls.
Proof. unfold cut. rewrite cut_go_ids. reflexivity. Qed.

Lemma flat_map_concat_lines bs : map (fun i : lineid => snd i) (flat_map b_ids bs) = concat (map b_lines bs).
Proof.
  induction bs as [|b bs IH]; [reflexivity|]. cbn [flat_map map concat]. rewrite map_app, IH. f_equal.
  unfold b_ids. generalize (b_start b). induction (b_lines b); intros; cbn; [reflexivity|]. f_equal. auto.
Qed.

Lemma numbered_texts src start ls : map (fun i : lineid => snd i) (numbered src start ls) = ls.
Proof. revert start. induction ls; intros; cbn; [reflexivity|]. f_equal. auto. Qed.

Theorem cut_concat src bsz flush ls : concat (map b_lines (cut src bsz flush ls)) = ls.
Proof. rewrite <- flat_map_concat_lines, cut_ids. apply numbered_texts. Qed.

Lemma cut_go_nonempty src bsz : forall ls flush start cur,
  Forall (fun b => b_lines b <> []) (cut_go src bsz flush start cur ls).
Proof.
  induction ls as [|l r IH]; intros flush start cur; cbn [cut_go].
  - destruct cur; constructor; [discriminate|constructor].
  - destruct (_ || _); [constructor; [cbn; destruct cur; discriminate|]|]; apply IH.
Qed.
Theorem cut_nonempty src bsz flush ls : Forall (fun b => b_lines b <> []) (cut src bsz flush ls).
Proof. apply cut_go_nonempty. Qed.

Lemma cut_go_size src bsz : forall ls flush start cur, length cur < Nat.max bsz 1 ->
  Forall (fun b => length (b_lines b) <= Nat.max bsz 1) (cut_go src bsz flush start cur ls).
Proof.
  induction ls as [|l r IH]; intros flush start cur Hc; cbn [cut_go].
  - destruct cur; constructor; [cbn [b_lines] in *; lia|constructor].
  - destruct (bsz <=? length (cur ++ [l])) eqn:E; cbn [orb].
    + constructor; [cbn [b_lines]; rewrite app_length; cbn; lia|]. apply IH. cbn. lia.
    + destruct (hd false flush).
      * constructor; [cbn [b_lines]; rewrite app_length; cbn; lia|]. apply IH. cbn. lia.
      * apply IH. apply Nat.leb_gt in E. rewrite app_length in *. cbn in *. lia.
Qed.
Theorem cut_size src bsz flush ls :
  Forall (fun b => length (b_lines b) <= Nat.max bsz 1) (cut src bsz flush ls).
Proof. apply cut_go_size. cbn. lia. Qed.

(* without the timer every batch but the last is exactly full *)
Lemma cut_go_full src bsz : forall ls start cur, 1 <= bsz -> length cur < bsz ->
  forall pre b post, cut_go src bsz [] start cur ls = pre ++ b :: post -> post <> [] -> length (b_lines b) = bsz.
Proof.
  induction ls as [|l r IH]; intros start cur Hb Hc pre b post H Hp; cbn [cut_go] in H.
  - destruct cur; destruct pre as [|? [|]]; try discriminate; inversion H; subst; congruence.
  - cbn [hd tl] in H. rewrite orb_false_r in H. destruct (bsz <=? length (cur ++ [l])) eqn:E.
    + destruct pre as [|p pre].
      * inversion H; subst. cbn [b_lines]. apply Nat.leb_le in E. rewrite app_length in *. cbn in *. lia.
      * inversion H; subst. eapply (IH _ [] Hb); [cbn; lia| |exact Hp]. eassumption.
    + apply Nat.leb_gt in E. eapply (IH _ (cur ++ [l]) Hb); [exact E| |exact Hp]. eassumption.
Qed.
