(* C11: humanizeFloat only inserts thousands separators into the integer part of the
   (already rounded) text strconv.AppendFloat(v, 'f', decimals) produces. *)
From Coq Require Import List NArith ZArith Lia Bool Arith ZifyN ZifyNat ZifyBool.
From RareV Require Import Base.Hex Base.Res Base.Num Gen.GenC11 Model.Humanize Proofs.NumProof Proofs.HumanizeProof.
Import ListNotations.
Local Open Scope N_scope.
Ltac Zify.zify_post_hook ::= Z.div_mod_to_equations.

(* E l k: the backward loop of humanizeInt on the digits l when k digits (0..3) already stand to their right *)
Definition E (l : bytes) (k : nat) : bytes := rev (emit (rev l) k).

Lemma E_nil k : E [] k = [].
Proof. reflexivity. Qed.

Lemma E_snoc l x k : E (l ++ [x]) k =
  if Nat.eqb k 3 then E l 1 ++ [x; baseSeparator] else E l (S k) ++ [x].
Proof.
  unfold E. rewrite rev_app_distr. cbn [rev app emit].
  destruct (Nat.eqb k 3); cbn [rev]; rewrite <- ?app_assoc; reflexivity.
Qed.

(* the counter of the forward loop *)
Definition adv (c : nat) : nat := if Nat.eqb c 3 then 1%nat else S c.
Fixpoint advn (n c : nat) : nat := match n with O => c | S n' => advn n' (adv c) end.

Lemma hf_loop_app : forall a b i c,
  hf_loop (a ++ b) i c = hf_loop a i c ++ hf_loop b (i + length a) (advn (length a) c).
Proof.
  induction a as [|x a IH]; intros b i c.
  - cbn [app length advn hf_loop]. rewrite Nat.add_0_r. reflexivity.
  - cbn [app hf_loop length advn]. unfold adv. destruct (Nat.eqb c 3).
    + rewrite IH. rewrite <- app_assoc. cbn [app]. do 3 f_equal. f_equal. lia.
    + rewrite IH. cbn [app]. do 2 f_equal. f_equal. lia.
Qed.

Definition start (n : nat) : nat := (3 - n mod 3)%nat.

Lemma adv_start j : adv (start (S j)) = start j.
Proof.
  unfold adv, start.
  destruct (Nat.eqb (3 - S j mod 3) 3) eqn:E; [apply Nat.eqb_eq in E|apply Nat.eqb_neq in E]; lia.
Qed.

Lemma advn_start : forall n m, advn n (start (n + m)) = start m.
Proof.
  induction n as [|n IH]; intros m; [reflexivity|].
  cbn [advn]. change (S n + m)%nat with (S (n + m)). rewrite adv_start. apply IH.
Qed.

Lemma start_period n : start (n + 3) = start n.
Proof. unfold start. lia. Qed.

Lemma start_vals : start 1 = 2%nat /\ start 2 = 1%nat /\ start 3 = 3%nat /\ start 4 = 2%nat.
Proof. repeat split; reflexivity. Qed.

(* forward loop = backward loop *)
Lemma fwd_bwd : forall l k, (k <= 3)%nat ->
  hf_loop l 0 (start (length l + k)) ++ (if Nat.eqb k 3 then match l with [] => [] | _ => [baseSeparator] end else [])
  = E l k.
Proof.
  induction l as [|x l IH] using rev_ind; intros k Hk.
  - cbn. destruct (Nat.eqb k 3); reflexivity.
  - rewrite E_snoc. rewrite hf_loop_app. rewrite app_length. cbn [length].
    replace (length l + 1 + k)%nat with (length l + (k + 1))%nat by lia.
    rewrite advn_start. cbn [Nat.add].
    assert (Hne : match l ++ [x] with [] => @nil N | _ => [baseSeparator] end = [baseSeparator])
      by (destruct l; reflexivity).
    rewrite Hne. clear Hne.
    destruct k as [|[|[|[|k]]]]; try lia; cbn [Nat.eqb].
    + (* k = 0 *) specialize (IH 1%nat ltac:(lia)). cbn [Nat.eqb] in IH. rewrite app_nil_r in IH.
      change (start (0 + 1)) with 2%nat. cbn [hf_loop Nat.eqb]. rewrite app_nil_r.
      replace (length l + (0 + 1))%nat with (length l + 1)%nat by lia. rewrite IH. reflexivity.
    + (* k = 1 *) specialize (IH 2%nat ltac:(lia)). cbn [Nat.eqb] in IH. rewrite app_nil_r in IH.
      change (start (1 + 1)) with 1%nat. cbn [hf_loop Nat.eqb]. rewrite app_nil_r.
      replace (length l + (1 + 1))%nat with (length l + 2)%nat by lia. rewrite IH. reflexivity.
    + (* k = 2 *) specialize (IH 3%nat ltac:(lia)). cbn [Nat.eqb] in IH.
      change (start (2 + 1)) with 3%nat. cbn [hf_loop Nat.eqb]. rewrite app_nil_r.
      replace (length l + (2 + 1))%nat with (length l + 3)%nat by lia. rewrite <- IH.
      rewrite <- app_assoc. f_equal. destruct l; cbn [length Nat.add Nat.eqb app]; reflexivity.
    + (* k = 3 *) specialize (IH 1%nat ltac:(lia)). cbn [Nat.eqb] in IH. rewrite app_nil_r in IH.
      change (start (3 + 1)) with 2%nat. cbn [hf_loop Nat.eqb].
      replace (length l + (3 + 1))%nat with (length l + 1 + 3)%nat by lia. rewrite start_period.
      rewrite IH. rewrite <- app_assoc. reflexivity.
Qed.

Lemma hf_loop_group3 ds : hf_loop ds 0 (3 - length ds mod 3) = group3 ds.
Proof.
  pose proof (fwd_bwd ds 0 ltac:(lia)) as H. cbn [Nat.eqb] in H. rewrite app_nil_r, Nat.add_0_r in H.
  exact H.
Qed.

Lemma emit_short : forall l ci, (length l + ci <= 3)%nat -> emit l ci = l.
Proof.
  induction l as [|d r IH]; intros ci H; [reflexivity|]. cbn [emit]. cbn [length] in H.
  assert (E3 : Nat.eqb ci 3 = false) by (apply Nat.eqb_neq; lia). rewrite E3, IH by lia. reflexivity.
Qed.

Lemma group3_short ds : (length ds <= 3)%nat -> group3 ds = ds.
Proof.
  intros H. unfold group3. rewrite emit_short by (rewrite rev_length; lia). apply rev_involutive.
Qed.

(* ---- decomposition of the formatted text ---- *)
Definition digits (ds : bytes) : Prop := Forall (fun b => is_digit b = true) ds.

Lemma index_of_digits x ds rest : is_digit x = false -> digits ds ->
  index_of x (ds ++ rest) = option_map (fun i => (length ds + i)%nat) (index_of x rest).
Proof.
  intros Hx. induction 1 as [|d r Hd _ IH]; cbn [app index_of length].
  - destruct (index_of x rest); reflexivity.
  - assert (d =? x = false) as ->.
    { destruct (d =? x) eqn:E; [|reflexivity]. apply N.eqb_eq in E. subst. congruence. }
    rewrite IH. destruct (index_of x rest); reflexivity.
Qed.

Definition frac_ok (frac : bytes) : Prop := frac = [] \/ exists fs, frac = 46 :: fs.

Lemma body_of ds frac : digits ds -> frac_ok frac ->
  let s1 := ds ++ frac in
  let decIdx := match index_of 46 s1 with Some i => i | None => length s1 end in
  decIdx = length ds /\ firstn decIdx s1 = ds /\
  (if Nat.ltb decIdx (length s1) then decimalSeparator :: skipn (S decIdx) s1 else []) = frac.
Proof.
  intros Hd Hf. cbn zeta. rewrite (index_of_digits 46 ds frac eq_refl Hd).
  destruct Hf as [->|[fs ->]].
  - cbn [index_of option_map]. rewrite app_nil_r. split; [reflexivity|]. split; [apply firstn_all|].
    rewrite Nat.ltb_irrefl. reflexivity.
  - cbn [index_of option_map N.eqb Pos.eqb]. rewrite Nat.add_0_r. split; [reflexivity|]. split.
    + rewrite firstn_app, firstn_all, Nat.sub_diag. cbn. apply app_nil_r.
    + rewrite app_length. cbn [length].
      assert (L : Nat.ltb (length ds) (length ds + S (length fs)) = true) by (apply Nat.ltb_lt; lia).
      rewrite L. change decimalSeparator with 46. f_equal.
      replace (S (length ds)) with (length ds + 1)%nat by lia.
      rewrite skipn_app, skipn_all2 by lia. replace (length ds + 1 - length ds)%nat with 1%nat by lia. reflexivity.
Qed.

(* hf: for every finite v and every text sign? digits (. anything)? the output is the same text with
   the integer digits grouped exactly as hi groups them; in particular no separator below 1000 *)
Theorem hf_law_proof : forall m e sign ds frac,
  sign = [] \/ sign = [45] -> ds <> [] -> digits ds -> frac_ok frac ->
  humanize_float (FFin m e) (sign ++ ds ++ frac) = Ok (sign ++ group3 ds ++ frac).
Proof.
  intros m e sign ds frac Hs Hne Hd Hf.
  pose proof (body_of ds frac Hd Hf) as B. cbn zeta in B. destruct B as (B1 & B2 & B3).
  rewrite B1 in B2, B3.
  assert (G : (if Nat.leb (length ds) 3 then ds else hf_loop ds 0 (3 - length ds mod 3)) = group3 ds).
  { destruct (Nat.leb (length ds) 3) eqn:L.
    - apply Nat.leb_le in L. symmetry. apply group3_short. exact L.
    - apply hf_loop_group3. }
  destruct Hs as [->| ->].
  - (* no sign: the first character is a digit *)
    destruct ds as [|d r]; [congruence|]. inversion Hd as [|? ? Hdd Hdr]; subst.
    cbn [app]. unfold humanize_float.
    assert (E45 : d =? 45 = false).
    { destruct (d =? 45) eqn:E; [|reflexivity]. apply N.eqb_eq in E. subst. discriminate. }
    rewrite Hdd, E45. change (d :: r ++ frac) with ((d :: r) ++ frac). rewrite B1.
    destruct (Nat.leb (length (d :: r)) 3) eqn:L.
    + rewrite <- G. reflexivity.
    + rewrite B2, B3, <- G. reflexivity.
  - (* minus sign *)
    cbn [app]. unfold humanize_float. change (is_digit 45) with false. change (45 =? 45) with true. cbv iota.
    rewrite B1. destruct (Nat.leb (length ds) 3) eqn:L.
    + rewrite <- G. reflexivity.
    + rewrite B2, B3, <- G. reflexivity.
Qed.

Lemma group3_chars ds : digits ds -> ds <> [] ->
  Forall (fun b => is_digit b = true \/ b = baseSeparator) (group3 ds).
Proof.
  intros Hd _. unfold group3. apply Forall_rev.
  assert (H : Forall (fun b => is_digit b = true) (rev ds)) by (apply Forall_rev; exact Hd).
  generalize 0%nat. induction H as [|d r Hdd _ IH]; intros ci; cbn [emit]; [constructor|].
  destruct (Nat.eqb ci 3).
  - constructor; [right; reflexivity|]. constructor; [left; exact Hdd|apply IH].
  - constructor; [left; exact Hdd|apply IH].
Qed.

Lemma index_of_absent x l rest : Forall (fun b => b <> x) l ->
  index_of x (l ++ rest) = option_map (fun i => (length l + i)%nat) (index_of x rest).
Proof.
  induction 1 as [|d r Hd _ IH]; cbn [app index_of length].
  - destruct (index_of x rest); reflexivity.
  - assert (d =? x = false) as -> by (apply N.eqb_neq; exact Hd).
    rewrite IH. destruct (index_of x rest); reflexivity.
Qed.

(* the two facts the boolean form tests, for every well-formed text *)
Theorem hf_check_proof : forall sign ds frac,
  sign = [] \/ sign = [45] -> ds <> [] -> digits ds -> frac_ok frac -> strip_sep frac = frac ->
  let out := sign ++ group3 ds ++ frac in
  strip_sep out = sign ++ ds ++ frac /\
  well_grouped (firstn (match index_of decimalSeparator out with Some i => i | None => length out end) out) = true.
Proof.
  intros sign ds frac Hs Hne Hd Hf Hfs. cbn zeta.
  destruct (group3_law ds Hd Hne) as (G1 & G2 & G3 & G4).
  assert (Hsign : strip_sep sign = sign) by (destruct Hs as [->| ->]; reflexivity).
  split.
  - rewrite !strip_sep_app, G1, Hfs, Hsign. reflexivity.
  - assert (A : Forall (fun b => b <> decimalSeparator) (sign ++ group3 ds)).
    { apply Forall_app. split.
      - destruct Hs as [->| ->]; repeat constructor. discriminate.
      - eapply Forall_impl; [|apply group3_chars; assumption].
        intros b [Hb| ->] Eb; [subst; vm_compute in Hb|vm_compute in Eb]; discriminate. }
    rewrite app_assoc. rewrite (index_of_absent _ _ frac A).
    assert (F : firstn (length (sign ++ group3 ds)) ((sign ++ group3 ds) ++ frac) = sign ++ group3 ds).
    { rewrite firstn_app, firstn_all, Nat.sub_diag. cbn. apply app_nil_r. }
    assert (W : well_grouped (sign ++ group3 ds) = true).
    { unfold well_grouped in *. destruct Hs as [->| ->]; cbn [app unsigned_part]; [exact G2|].
      rewrite G3 in G2. exact G2. }
    destruct Hf as [->|[fs ->]].
    + cbn [index_of option_map]. rewrite app_nil_r, firstn_all. exact W.
    + change decimalSeparator with 46. cbn [index_of option_map N.eqb Pos.eqb]. rewrite Nat.add_0_r, F. exact W.
Qed.
