(* @range and @for: the bounded generator loops compute the documented sequences. *)
From Coq Require Import List NArith ZArith Bool Arith Lia ZifyBool.
From RareV Require Import Base.Hex Base.Num Model.Splitter Model.ArrayFns Gen.GenC17 Proofs.SplitterProof Proofs.ArrayFnsOps.
Import ListNotations.

(* ------------------------------------------------------------------ itoa never yields "" and never a NUL *)
Lemma digits_fuel_ge48 f : forall n acc, Forall (fun b => 48 <= b)%N acc -> Forall (fun b => 48 <= b)%N (digits_fuel f n acc).
Proof.
  induction f as [|f IH]; intros n acc H; cbn [digits_fuel]; [exact H|].
  assert (H' : Forall (fun b => 48 <= b)%N ((48 + n mod 10)%N :: acc)) by (constructor; [apply N.le_add_r|exact H]).
  destruct (n <? 10)%N; [exact H'|now apply IH].
Qed.

Lemma digits_fuel_acc_ne f : forall n acc, acc <> [] -> digits_fuel f n acc <> [].
Proof.
  induction f as [|f IH]; intros n acc H; cbn [digits_fuel]; [exact H|].
  destruct (n <? 10)%N; [discriminate|]. apply IH. discriminate.
Qed.

Lemma utoa_ne n : utoa n <> [].
Proof.
  unfold utoa. cbn [digits_fuel]. destruct (n <? 10)%N; [discriminate|]. apply digits_fuel_acc_ne. discriminate.
Qed.

Lemma itoa_ne z : itoa z <> [].
Proof. destruct z; cbn [itoa]; [discriminate|apply utoa_ne|discriminate]. Qed.

Lemma utoa_ge48 n : Forall (fun b => 48 <= b)%N (utoa n).
Proof. apply digits_fuel_ge48. constructor. Qed.

Lemma itoa_nul_free z : nul_free (itoa z).
Proof.
  unfold nul_free, NUL. destruct z; cbn [itoa].
  - intros [H|[]]. discriminate.
  - intros H. pose proof (utoa_ge48 (N.pos p)) as F. rewrite Forall_forall in F. apply F in H. lia.
  - intros [H|H]; [discriminate|]. pose proof (utoa_ge48 (N.pos p)) as F. rewrite Forall_forall in F. apply F in H. lia.
Qed.

(* ------------------------------------------------------------------ @range *)
Lemma wrap64_id z : in_int64 z = true -> wrap64 z = z.
Proof.
  unfold in_int64, wrap64, min_int64, max_int64. intros H.
  assert (0 <= z + 2 ^ 63 < 2 ^ 64)%Z by lia. rewrite Z.mod_small by assumption. lia.
Qed.

Lemma int_add_plain a b : in_int64 (a + b) = true -> int_add a b = (a + b)%Z.
Proof. unfold int_add. intros H. cbv zeta. now rewrite H. Qed.

Lemma range_countZ_step start stop incr : in_range start stop incr = true ->
  range_countZ start stop incr = (range_countZ (start + incr) stop incr + 1)%Z /\
  (0 <= range_countZ (start + incr) stop incr)%Z.
Proof.
  unfold in_range, range_countZ. intros H.
  destruct (incr >? 0)%Z eqn:E.
  - assert (start < stop)%Z by lia.
    replace (stop - start + incr - 1)%Z with ((stop - (start + incr) + incr - 1) + 1 * incr)%Z by lia.
    rewrite Z.div_add by lia. split; [reflexivity|]. apply Z.div_pos; lia.
  - assert (start > stop)%Z by lia.
    replace (start - stop + - incr - 1)%Z with ((start + incr - stop + - incr - 1) + 1 * (- incr))%Z by lia.
    rewrite Z.div_add by lia. split; [reflexivity|]. apply Z.div_pos; lia.
Qed.

(* [i] is either the start or one step past an element that was in range *)
Definition range_inv (i stop incr : Z) : Prop :=
  (incr > 0 -> i <= stop + incr - 1)%Z /\ (incr < 0 -> i >= stop + incr + 1)%Z /\ incr <> 0%Z.

Lemma range_countZ_stop i stop incr : range_inv i stop incr -> in_range i stop incr = false ->
  range_countZ i stop incr = 0%Z.
Proof.
  unfold in_range, range_countZ, range_inv. intros (H1 & H2 & Hn) H.
  destruct (incr >? 0)%Z eqn:E; rewrite Z.div_small by lia; reflexivity.
Qed.

Lemma range_countZ_nonneg i stop incr : range_inv i stop incr -> (0 <= range_countZ i stop incr)%Z.
Proof.
  intros Inv. destruct (in_range i stop incr) eqn:R.
  - pose proof (range_countZ_step _ _ _ R). lia.
  - rewrite (range_countZ_stop _ _ _ Inv R). lia.
Qed.

Lemma render_cons a chunks : render (a :: chunks) = render chunks ++ render_chunk a.
Proof.
  unfold render. rewrite !rev_append_rev, !app_nil_r. cbn [rev]. rewrite map_app, concat_app. cbn.
  now rewrite app_nil_r.
Qed.

(* what the builder holds once [l] has been appended, the separator being written before every
   element but the very first of the builder *)
Definition chunk_items (chunks : list rchunk) (l : list bytes) : bytes :=
  render chunks ++ match chunks with [] => join0 l | _ => sep_all l end.

Lemma chunk_items_nil chunks : chunk_items chunks [] = render chunks.
Proof. unfold chunk_items. destruct chunks; unfold sep_all; cbn [map concat join0 join]; now rewrite app_nil_r. Qed.

Lemma chunk_items_cons chunks i l :
  chunk_items (RNum i :: match chunks with [] => chunks | _ => RSep :: chunks end) l
  = chunk_items chunks (itoa i :: l).
Proof.
  unfold chunk_items. destruct chunks as [|c chunks].
  - rewrite render_cons. cbn [render_chunk]. rewrite join0_cons. unfold render. cbn. reflexivity.
  - rewrite !render_cons. cbn [render_chunk]. unfold sep_all at 2. cbn [map concat]. fold (sep_all l).
    now rewrite <- !app_assoc.
Qed.

Section RangeGuarded.
  Variables cap stop incr : Z.
  (* the increment cannot overflow on an element that is in range, and [i] itself is an int64 *)
  Hypothesis Hup : (incr > 0 -> stop + incr - 1 <= max_int64)%Z.
  Hypothesis Hdn : (incr < 0 -> min_int64 <= stop + incr + 1)%Z.
  Definition range_bnd (i : Z) : Prop := (incr > 0 -> min_int64 <= i)%Z /\ (incr < 0 -> i <= max_int64)%Z.

  Lemma range_step_plain i : range_inv i stop incr -> range_bnd i -> in_range i stop incr = true ->
    int_add i incr = (i + incr)%Z /\ range_inv (i + incr) stop incr /\ range_bnd (i + incr).
  Proof.
    unfold range_inv, range_bnd, in_range. intros (I1 & I2 & In) (B1 & B2) R.
    split; [|split; [|split]; lia].
    apply int_add_plain. unfold in_int64. unfold min_int64, max_int64 in *. lia.
  Qed.

  Lemma range_loop_under : forall fuel i count chunks,
    range_inv i stop incr -> range_bnd i ->
    (count + range_countZ i stop incr <= cap)%Z -> Z.to_nat (range_countZ i stop incr) < fuel ->
    range_loop fuel cap i stop incr count chunks =
    Some (chunk_items chunks (map itoa (progression (range_count i stop incr) i incr))).
  Proof.
    induction fuel as [|f IH]; intros i count chunks Inv Bnd Hc Hf; [lia|].
    cbn [range_loop]. destruct (in_range i stop incr) eqn:R.
    - destruct (range_countZ_step _ _ _ R) as [Hs Hp].
      destruct (range_step_plain _ Inv Bnd R) as (Ha & Inv' & Bnd').
      replace (count + 1 >? cap)%Z with false by lia.
      rewrite Ha, IH by (assumption || lia).
      rewrite chunk_items_cons. unfold range_count. rewrite Hs.
      replace (Z.to_nat (range_countZ (i + incr) stop incr + 1)) with (S (Z.to_nat (range_countZ (i + incr) stop incr))) by lia.
      reflexivity.
    - unfold range_count. rewrite (range_countZ_stop _ _ _ Inv R). cbn. now rewrite chunk_items_nil.
  Qed.

  Lemma range_loop_over : forall fuel i count chunks,
    range_inv i stop incr -> range_bnd i -> (0 <= count <= cap)%Z ->
    (count + range_countZ i stop incr > cap)%Z -> Z.to_nat (cap - count) < fuel ->
    range_loop fuel cap i stop incr count chunks = Some ErrorValue.
  Proof.
    induction fuel as [|f IH]; intros i count chunks Inv Bnd Hc Ho Hf; [lia|].
    cbn [range_loop]. destruct (in_range i stop incr) eqn:R.
    - destruct (range_countZ_step _ _ _ R) as [Hs Hp].
      destruct (range_step_plain _ Inv Bnd R) as (Ha & Inv' & Bnd').
      destruct (count + 1 >? cap)%Z eqn:E; [reflexivity|].
      rewrite Ha. apply IH; (assumption || lia).
    - rewrite (range_countZ_stop _ _ _ Inv R) in Ho. lia.
  Qed.
End RangeGuarded.

(* whatever the arguments: the fuel is never exhausted *)
Lemma range_loop_fuel cap stop incr : forall fuel i count chunks,
  (0 <= count <= cap)%Z -> Z.to_nat (cap - count) < fuel ->
  range_loop fuel cap i stop incr count chunks <> None.
Proof.
  induction fuel as [|f IH]; intros i count chunks Hc Hf; [lia|].
  cbn [range_loop]. destruct (in_range i stop incr); [|discriminate].
  destruct (count + 1 >? cap)%Z eqn:E; [discriminate|]. apply IH; lia.
Qed.

Lemma range_countZ_le start stop incr : incr <> 0%Z -> (incr > 0 -> start <= stop)%Z -> (incr < 0 -> start >= stop)%Z ->
  (range_countZ start stop incr <= Z.abs (stop - start))%Z.
Proof.
  unfold range_countZ. intros Hn H1 H2. destruct (incr >? 0)%Z eqn:E.
  - assert ((stop - start + incr - 1) / incr < stop - start + 1)%Z; [|lia].
    apply Z.div_lt_upper_bound; nia.
  - assert ((start - stop + - incr - 1) / - incr < start - stop + 1)%Z; [|lia].
    apply Z.div_lt_upper_bound; nia.
Qed.

Definition range_valid (start stop incr : Z) : Prop :=
  incr <> 0%Z /\ (incr > 0 -> start <= stop)%Z /\ (incr < 0 -> start >= stop)%Z.

(* the loop of kfArrayRange where no int64 overflow is possible *)
Theorem range_run_guarded cap start stop incr : (0 <= cap)%Z ->
  range_valid start stop incr -> range_no_wrap start stop incr = true ->
  range_run cap start stop incr =
  Some (if (range_countZ start stop incr >? cap)%Z then ErrorValue
        else join0 (map itoa (progression (range_count start stop incr) start incr))).
Proof.
  intros Hcap (Hn & H1 & H2) G. unfold range_run, range_fuel. rewrite G.
  unfold range_no_wrap, in_int64 in G.
  assert (Hup : (incr > 0 -> stop + incr - 1 <= max_int64)%Z) by (destruct (incr >? 0)%Z eqn:E; lia).
  assert (Hdn : (incr < 0 -> min_int64 <= stop + incr + 1)%Z) by (destruct (incr >? 0)%Z eqn:E; lia).
  assert (Inv : range_inv start stop incr) by (unfold range_inv; lia).
  assert (Bnd : range_bnd incr start) by (unfold range_bnd; lia).
  pose proof (range_countZ_le start stop incr Hn H1 H2) as Hle.
  pose proof (range_countZ_nonneg _ _ _ Inv) as Hnn.
  destruct (range_countZ start stop incr >? cap)%Z eqn:E.
  - apply (range_loop_over cap stop incr Hup Hdn); try assumption; lia.
  - rewrite (range_loop_under cap stop incr Hup Hdn); try assumption; try lia. reflexivity.
Qed.

Theorem range_fuel_enough cap start stop incr : (0 <= cap)%Z ->
  range_valid start stop incr -> range_run cap start stop incr <> None.
Proof.
  intros Hcap V. destruct (range_no_wrap start stop incr) eqn:G.
  - rewrite (range_run_guarded _ _ _ _ Hcap V G). discriminate.
  - unfold range_run, range_fuel. rewrite G. apply range_loop_fuel; lia.
Qed.

Theorem op_range_cap_spec cap a b c : (0 <= cap)%Z -> op_range_cap cap a b c = spec_range_cap cap a b c.
Proof.
  intros Hcap. unfold op_range_cap, spec_range_cap.
  destruct (atoi a) as [start|]; [|reflexivity].
  destruct (atoi b) as [stop|]; [|reflexivity].
  destruct (atoi c) as [incr|]; [|reflexivity].
  destruct (incr =? 0)%Z eqn:E0; [reflexivity|]. cbn [orb].
  destruct ((incr >? 0) && (start >? stop))%Z eqn:E1; [reflexivity|]. cbn [orb].
  destruct ((incr <? 0) && (start <? stop))%Z eqn:E2; [reflexivity|].
  destruct (range_no_wrap start stop incr) eqn:G; [|reflexivity].
  rewrite range_run_guarded; [reflexivity|assumption| |assumption]. unfold range_valid. lia.
Qed.

Lemma max_range_nonneg : (0 <= MaxRangeElements)%Z.
Proof. vm_compute. discriminate. Qed.

Theorem op_range_spec a b c : op_range a b c = spec_range a b c.
Proof. apply op_range_cap_spec, max_range_nonneg. Qed.

Lemma progression_nth n : forall start incr k, k < n ->
  nth k (progression n start incr) 0%Z = (start + Z.of_nat k * incr)%Z.
Proof.
  induction n as [|n IH]; intros start incr k Hk; [lia|].
  destruct k as [|k]; cbn [progression nth]; [lia|]. rewrite IH by lia. lia.
Qed.

Lemma progression_length n : forall start incr, length (progression n start incr) = n.
Proof. induction n; intros; cbn; auto. Qed.

(* ------------------------------------------------------------------ @for *)
Section For.
  Variable maxb : Z.
  Variables cond incr : bytes -> bytes -> bytes.

  Lemma for_loop_spec : forall fuel val idx len first chunks,
    for_loop fuel maxb cond incr val idx len first chunks =
    match for_list fuel maxb cond incr val idx len first with
    | None => ForInfMarker
    | Some l => concat (rev chunks) ++ (if first then join0 l else sep_all l)
    end.
  Proof.
    induction fuel as [|f IH]; intros val idx len first chunks; [reflexivity|].
    cbn [for_loop for_list]. rewrite rev_append_rev, app_nil_r. destruct (truthy (cond val (dec_str idx))).
    - cbv zeta. destruct (_ >? maxb)%Z; [reflexivity|].
      rewrite IH. destruct (for_list f maxb cond incr (incr val (dec_str idx)) (dec_succ idx) _ false) as [l|]; [|reflexivity].
      cbn [option_map]. destruct first.
      + cbn [rev]. rewrite concat_app. cbn [concat]. rewrite app_nil_r, join0_cons. now rewrite <- app_assoc.
      + cbn [rev]. rewrite !concat_app. cbn [concat]. rewrite !app_nil_r.
        unfold sep_all at 2. cbn [map concat]. fold (sep_all l). now rewrite <- !app_assoc.
    - destruct first; unfold sep_all; cbn; now rewrite app_nil_r.
  Qed.

  Theorem op_for_spec cap start : op_for cap maxb cond incr start = spec_for cap maxb cond incr start.
  Proof.
    unfold op_for, spec_for. rewrite for_loop_spec.
    destruct (for_list (S cap) maxb cond incr start dec_zero 0%Z true); reflexivity.
  Qed.

  (* the state of the loop at the beginning of round k *)
  Fixpoint for_state (k : nat) (v : bytes) (d : list N) : bytes * list N :=
    match k with
    | O => (v, d)
    | S k' => for_state k' (incr v (dec_str d)) (dec_succ d)
    end.
  Definition for_val (v : bytes) (d : list N) (k : nat) : bytes := fst (for_state k v d).
  Definition for_cond (v : bytes) (d : list N) (k : nat) : bool :=
    truthy (cond (fst (for_state k v d)) (dec_str (snd (for_state k v d)))).
  (* length of the builder after k rounds *)
  Fixpoint for_len (k : nat) (v : bytes) (d : list N) (len : Z) (first : bool) : Z :=
    match k with
    | O => len
    | S k' => for_len k' (incr v (dec_str d)) (dec_succ d)
                (len + (if first then 0 else 1) + Z.of_nat (length v))%Z false
    end.

  Lemma for_len_ge : forall k v d len first, (len <= for_len k v d len first)%Z.
  Proof.
    induction k as [|k IH]; intros v d len first; cbn [for_len]; [lia|].
    etransitivity; [|apply IH]. destruct first; lia.
  Qed.

  (* ... which is the length of the elements written so far, joined *)
  Lemma for_len_joined : forall k v d len first,
    for_len k v d len first =
    (len + Z.of_nat (length (if first then join0 (map (for_val v d) (seq 0 k)) else sep_all (map (for_val v d) (seq 0 k)))))%Z.
  Proof.
    induction k as [|k IH]; intros v d len first; cbn [for_len].
    - destruct first; cbn; lia.
    - rewrite IH. cbn [seq map]. rewrite <- seq_shift, map_map.
      change (map (fun x => for_val v d (S x)) (seq 0 k)) with (map (for_val (incr v (dec_str d)) (dec_succ d)) (seq 0 k)).
      set (l := map (for_val (incr v (dec_str d)) (dec_succ d)) (seq 0 k)).
      change (for_val v d 0) with v.
      destruct first.
      + rewrite join0_cons, app_length. lia.
      + unfold sep_all at 2. cbn [map concat]. fold (sep_all l). rewrite !app_length. cbn [length]. lia.
  Qed.

  Lemma for_list_stops : forall n fuel v d len first, n < fuel ->
    (forall k, k < n -> for_cond v d k = true) -> for_cond v d n = false ->
    (for_len n v d len first <= maxb)%Z ->
    for_list fuel maxb cond incr v d len first = Some (map (for_val v d) (seq 0 n)).
  Proof.
    induction n as [|n IH]; intros fuel v d len first Hf Ht Hs Hb; (destruct fuel as [|f]; [lia|]); cbn [for_list].
    - unfold for_cond in Hs. cbn [for_state fst snd] in Hs. now rewrite Hs.
    - pose proof (Ht 0 ltac:(lia)) as H0. unfold for_cond in H0. cbn [for_state fst snd] in H0. rewrite H0.
      cbv zeta. cbn [for_len] in Hb.
      pose proof (for_len_ge n (incr v (dec_str d)) (dec_succ d) (len + (if first then 0 else 1) + Z.of_nat (length v)) false) as Hge.
      replace (_ >? maxb)%Z with false by lia.
      rewrite (IH f (incr v (dec_str d)) (dec_succ d)); [| lia | | |].
      + cbn [option_map seq map]. f_equal. f_equal. rewrite <- seq_shift, map_map. reflexivity.
      + intros k Hk. apply (Ht (S k)). lia.
      + exact Hs.
      + exact Hb.
  Qed.

  (* the condition stays truthy for all the rounds the iteration cap allows *)
  Lemma for_list_runs : forall fuel v d len first,
    (forall k, k < fuel -> for_cond v d k = true) -> for_list fuel maxb cond incr v d len first = None.
  Proof.
    induction fuel as [|f IH]; intros v d len first Ht; [reflexivity|]. cbn [for_list].
    pose proof (Ht 0 ltac:(lia)) as H0. unfold for_cond in H0. cbn [for_state fst snd] in H0. rewrite H0.
    cbv zeta. destruct (_ >? maxb)%Z; [reflexivity|].
    rewrite IH; [reflexivity|]. intros k Hk. apply (Ht (S k)). lia.
  Qed.

  (* the builder exceeds the output bound while the condition is still truthy *)
  Lemma for_list_bytes : forall m fuel v d len first,
    (forall k, k <= m -> for_cond v d k = true) -> (for_len (S m) v d len first > maxb)%Z ->
    for_list fuel maxb cond incr v d len first = None.
  Proof.
    induction m as [|m IH]; intros fuel v d len first Ht Hb; (destruct fuel as [|f]; [reflexivity|]); cbn [for_list];
      pose proof (Ht 0 ltac:(lia)) as H0; unfold for_cond in H0; cbn [for_state fst snd] in H0; rewrite H0; cbv zeta.
    - cbn [for_len] in Hb. now replace (_ >? maxb)%Z with true by lia.
    - destruct (_ >? maxb)%Z; [reflexivity|].
      rewrite (IH f); [reflexivity| |].
      + intros k Hk. apply (Ht (S k)). lia.
      + exact Hb.
  Qed.
End For.

Lemma for_list_ext maxb c1 c2 i1 i2 : (forall a b, c1 a b = c2 a b) -> (forall a b, i1 a b = i2 a b) ->
  forall fuel v d len first, for_list fuel maxb c1 i1 v d len first = for_list fuel maxb c2 i2 v d len first.
Proof.
  intros Hc Hi. induction fuel as [|f IH]; intros v d len first; [reflexivity|].
  cbn [for_list]. now rewrite Hc, Hi, IH.
Qed.

(* ------------------------------------------------------------------ the decimal counter *)
Example dec_is_itoa_2000 :
  forallb (fun n => bytes_eqb (dec_str (Nat.iter n dec_succ dec_zero)) (itoa (Z.of_nat n))) (seq 0 2000) = true.
Proof. vm_compute. reflexivity. Qed.
