(* @range and @for: the bounded generator loops compute the documented sequences. *)
From Coq Require Import List NArith ZArith Bool Arith Lia ZifyBool.
From RareV Require Import Base.Hex Base.Num Model.Splitter Model.ArrayFns Gen.GenC17 Proofs.SplitterProof Proofs.ArrayFnsOps.
Import ListNotations.

(* ------------------------------------------------------------------ itoa never yields "" and never a NUL *)
Lemma digits_fuel_ge48 f : forall n acc, Forall (fun b => 48 <= b)%N acc -> Forall (fun b => 48 <= b)%N (digits_fuel f n acc).
Proof.
  induction f as [|f IH]; intros n acc H; cbn [digits_fuel]; [exact H|].
  assert (H' : Forall (fun b => 48 <= b)%N ((48 + n mod 10)%N :: acc)) by (constructor; [apply N.le_add_r|exact H]).
  destruct (n <? 10)%N; [exact H'|now apply IH].
Qed.

Lemma digits_fuel_acc_ne f : forall n acc, acc <> [] -> digits_fuel f n acc <> [].
Proof.
  induction f as [|f IH]; intros n acc H; cbn [digits_fuel]; [exact H|].
  destruct (n <? 10)%N; [discriminate|]. apply IH. discriminate.
Qed.

Lemma utoa_ne n : utoa n <> [].
Proof.
  unfold utoa. cbn [digits_fuel]. destruct (n <? 10)%N; [discriminate|]. apply digits_fuel_acc_ne. discriminate.
Qed.

Lemma itoa_ne z : itoa z <> [].
Proof. destruct z; cbn [itoa]; [discriminate|apply utoa_ne|discriminate]. Qed.

Lemma utoa_ge48 n : Forall (fun b => 48 <= b)%N (utoa n).
Proof. apply digits_fuel_ge48. constructor. Qed.

Lemma itoa_nul_free z : nul_free (itoa z).
Proof.
  unfold nul_free, NUL. destruct z; cbn [itoa].
  - intros [H|[]]. discriminate.
  - intros H. pose proof (utoa_ge48 (N.pos p)) as F. rewrite Forall_forall in F. apply F in H. lia.
  - intros [H|H]; [discriminate|]. pose proof (utoa_ge48 (N.pos p)) as F. rewrite Forall_forall in F. apply F in H. lia.
Qed.

(* ------------------------------------------------------------------ @range *)
Definition in_range (i stop incr : Z) : bool := ((incr >? 0) && (i <? stop) || (incr <? 0) && (i >? stop))%Z.

Lemma range_count_step start stop incr : in_range start stop incr = true ->
  range_count start stop incr = S (range_count (start + incr) stop incr).
Proof.
  unfold in_range, range_count. intros H.
  destruct (incr >? 0)%Z eqn:E.
  - assert (start < stop)%Z by lia.
    replace (stop - start + incr - 1)%Z with ((stop - (start + incr) + incr - 1) + 1 * incr)%Z by lia.
    rewrite Z.div_add by lia.
    assert (0 <= (stop - (start + incr) + incr - 1) / incr)%Z by (apply Z.div_pos; lia). lia.
  - assert (start > stop)%Z by lia.
    replace (start - stop + - incr - 1)%Z with ((start + incr - stop + - incr - 1) + 1 * (- incr))%Z by lia.
    rewrite Z.div_add by lia.
    assert (0 <= (start + incr - stop + - incr - 1) / - incr)%Z by (apply Z.div_pos; lia). lia.
Qed.

(* [i] is either the start or one step past an element that was in range *)
Definition range_inv (i stop incr : Z) : Prop :=
  (incr > 0 -> i <= stop + incr - 1)%Z /\ (incr < 0 -> i >= stop + incr + 1)%Z /\ incr <> 0%Z.

Lemma range_count_stop i stop incr : range_inv i stop incr -> in_range i stop incr = false ->
  range_count i stop incr = 0.
Proof.
  unfold in_range, range_count, range_inv. intros (H1 & H2 & Hn) H.
  destruct (incr >? 0)%Z eqn:E.
  - rewrite Z.div_small by lia. reflexivity.
  - rewrite Z.div_small by lia. reflexivity.
Qed.

(* appending elements to a builder, the separator being written when the builder is not empty *)
Definition app_items (sb : bytes) (l : list bytes) : bytes :=
  match sb with [] => join0 l | _ => sb ++ sep_all l end.

Lemma app_items_nil sb : app_items sb [] = sb.
Proof. destruct sb; [reflexivity|]. unfold app_items, sep_all. cbn. now rewrite app_nil_r. Qed.

Lemma range_loop_spec stop incr : forall fuel i sb,
  range_inv i stop incr -> range_count i stop incr <= fuel ->
  range_loop fuel i stop incr sb = app_items sb (map itoa (progression (range_count i stop incr) i incr)).
Proof.
  induction fuel as [|f IH]; intros i sb Inv Hf.
  - assert (E : range_count i stop incr = 0) by lia. rewrite E. cbn. now rewrite app_items_nil.
  - cbn [range_loop]. fold (in_range i stop incr). destruct (in_range i stop incr) eqn:R.
    + pose proof (range_count_step _ _ _ R) as Hc. rewrite Hc. cbn [progression map].
      rewrite IH.
      * pose proof (itoa_ne i) as Hi.
        destruct sb as [|b sb].
        -- cbn [app sepb]. unfold app_items at 2. rewrite join0_cons.
           destruct (itoa i) eqn:Ei; [congruence|]. reflexivity.
        -- unfold app_items. cbn [sepb]. destruct ((b :: sb) ++ [NUL] ++ itoa i) eqn:E; [destruct sb; discriminate|].
           rewrite <- E. unfold sep_all. cbn [map concat]. now rewrite <- !app_assoc.
      * unfold range_inv, in_range in *. lia.
      * lia.
    + rewrite (range_count_stop _ _ _ Inv R). cbn. now rewrite app_items_nil.
Qed.

Lemma range_count_le start stop incr : incr <> 0%Z -> (incr > 0 -> start <= stop)%Z -> (incr < 0 -> start >= stop)%Z ->
  range_count start stop incr <= Z.to_nat (Z.abs (stop - start)).
Proof.
  unfold range_count. intros Hn H1 H2. destruct (incr >? 0)%Z eqn:E.
  - assert ((stop - start + incr - 1) / incr < stop - start + 1)%Z; [|lia].
    apply Z.div_lt_upper_bound; nia.
  - assert ((start - stop + - incr - 1) / - incr < start - stop + 1)%Z; [|lia].
    apply Z.div_lt_upper_bound; nia.
Qed.

Theorem op_range_spec a b c : op_range a b c = spec_range a b c.
Proof.
  unfold op_range, spec_range.
  destruct (atoi a) as [start|]; [|reflexivity].
  destruct (atoi b) as [stop|]; [|reflexivity].
  destruct (atoi c) as [incr|]; [|reflexivity].
  destruct (incr =? 0)%Z eqn:E0; [reflexivity|]. cbn [orb].
  destruct ((incr >? 0) && (start >? stop))%Z eqn:E1; [reflexivity|]. cbn [orb].
  destruct ((incr <? 0) && (start <? stop))%Z eqn:E2; [reflexivity|].
  rewrite range_loop_spec; [reflexivity| |].
  - unfold range_inv. lia.
  - apply range_count_le; lia.
Qed.

Lemma progression_nth n : forall start incr k, k < n ->
  nth k (progression n start incr) 0%Z = (start + Z.of_nat k * incr)%Z.
Proof.
  induction n as [|n IH]; intros start incr k Hk; [lia|].
  destruct k as [|k]; cbn [progression nth]; [lia|]. rewrite IH by lia. lia.
Qed.

Lemma progression_length n : forall start incr, length (progression n start incr) = n.
Proof. induction n; intros; cbn; auto. Qed.

(* ------------------------------------------------------------------ @for *)
Section For.
  Variables cond incr : bytes -> bytes -> bytes.

  Lemma for_loop_spec : forall fuel val idx first chunks,
    for_loop fuel cond incr val idx first chunks =
    match for_list fuel cond incr val idx with
    | None => ForInfMarker
    | Some l => concat (rev chunks) ++ (if first then join0 l else sep_all l)
    end.
  Proof.
    induction fuel as [|f IH]; intros val idx first chunks; [reflexivity|].
    cbn [for_loop for_list]. rewrite rev_append_rev, app_nil_r. destruct (truthy (cond val (dec_str idx))).
    - rewrite IH. destruct (for_list f cond incr (incr val (dec_str idx)) (dec_succ idx)) as [l|]; [|reflexivity].
      cbn [option_map]. destruct first.
      + cbn [rev]. rewrite concat_app. cbn [concat]. rewrite app_nil_r, join0_cons. now rewrite <- app_assoc.
      + cbn [rev]. rewrite !concat_app. cbn [concat]. rewrite !app_nil_r.
        unfold sep_all at 2. cbn [map concat]. fold (sep_all l). now rewrite <- !app_assoc.
    - destruct first; unfold sep_all; cbn; now rewrite app_nil_r.
  Qed.

  Theorem op_for_spec cap start : op_for cap cond incr start = spec_for cap cond incr start.
  Proof.
    unfold op_for, spec_for. rewrite for_loop_spec.
    destruct (for_list (S cap) cond incr start dec_zero); reflexivity.
  Qed.

  (* the state of the loop at the beginning of round k *)
  Fixpoint for_state (k : nat) (v : bytes) (d : list N) : bytes * list N :=
    match k with
    | O => (v, d)
    | S k' => for_state k' (incr v (dec_str d)) (dec_succ d)
    end.
  Definition for_val (v : bytes) (d : list N) (k : nat) : bytes := fst (for_state k v d).
  Definition for_cond (v : bytes) (d : list N) (k : nat) : bool :=
    truthy (cond (fst (for_state k v d)) (dec_str (snd (for_state k v d)))).

  Lemma for_list_stops : forall n fuel v d, n < fuel ->
    (forall k, k < n -> for_cond v d k = true) -> for_cond v d n = false ->
    for_list fuel cond incr v d = Some (map (for_val v d) (seq 0 n)).
  Proof.
    induction n as [|n IH]; intros fuel v d Hf Ht Hs; (destruct fuel as [|f]; [lia|]); cbn [for_list].
    - unfold for_cond in Hs. cbn [for_state fst snd] in Hs. now rewrite Hs.
    - pose proof (Ht 0 ltac:(lia)) as H0. unfold for_cond in H0. cbn [for_state fst snd] in H0. rewrite H0.
      rewrite (IH f (incr v (dec_str d)) (dec_succ d)); [| lia | |].
      + cbn [option_map seq map]. f_equal. f_equal. rewrite <- seq_shift, map_map. reflexivity.
      + intros k Hk. apply (Ht (S k)). lia.
      + exact Hs.
  Qed.

  Lemma for_list_runs : forall fuel v d,
    (forall k, k < fuel -> for_cond v d k = true) -> for_list fuel cond incr v d = None.
  Proof.
    induction fuel as [|f IH]; intros v d Ht; [reflexivity|]. cbn [for_list].
    pose proof (Ht 0 ltac:(lia)) as H0. unfold for_cond in H0. cbn [for_state fst snd] in H0. rewrite H0.
    rewrite IH; [reflexivity|]. intros k Hk. apply (Ht (S k)). lia.
  Qed.
End For.

Lemma for_list_ext c1 c2 i1 i2 : (forall a b, c1 a b = c2 a b) -> (forall a b, i1 a b = i2 a b) ->
  forall fuel v d, for_list fuel c1 i1 v d = for_list fuel c2 i2 v d.
Proof.
  intros Hc Hi. induction fuel as [|f IH]; intros v d; [reflexivity|].
  cbn [for_list]. now rewrite Hc, Hi, IH.
Qed.

(* ------------------------------------------------------------------ the decimal counter *)
Example dec_is_itoa_2000 :
  forallb (fun n => bytes_eqb (dec_str (Nat.iter n dec_succ dec_zero)) (itoa (Z.of_nat n))) (seq 0 2000) = true.
Proof. vm_compute. reflexivity. Qed.
