(* C05 (b): mutual exclusion of render and sampling, completeness of the final render, monotone
   intermediate renders, progress and termination of the aggregation loop, for every schedule. *)
From Coq Require Import List NArith Arith Lia Permutation Bool.
From RareV Require Import Base.Hex Model.Batch Model.Pipeline Model.AggLoop Proofs.PipelineProof.
Import ListNotations.

Section AggLoopProof.
Variable K : Type.
Variable classify : lineid -> cls K.
Variable c : cfg.

Notation cstate := (cstate K).
Notation cstep := (cstep K classify c).
Notation step := (step K classify c).

Lemma cstep_proj s l s' l' : cstep (s, l) (s', l') -> step s s' \/ s' = s.
Proof.
  intros H. inversion H; subst; auto.
  - left. unfold set_consumer. match goal with H : cdone K s = false |- _ => rewrite <- H end.
    apply s_crecv; assumption.
  - left. unfold set_consumer.
    match goal with H : rch K s = [] |- _ => rewrite <- H at 1 end. apply s_cdone; assumption.
Qed.

(* ---- loop invariant ---- *)
Definition pend (a : astate K) : list K := match a with ARecv m | AHold m => m | _ => [] end.
Definition finishing (a : astate K) : Prop := a = ASend \/ a = AFinal \/ a = ADone.
Definition after_handoff (a : astate K) : Prop := a = AFinal \/ a = ADone.

Variable input : list lineid.
Variable ne : nat.

Definition PInv (s : state K) : Prop := Inv K classify input ne s /\ Aux K s /\ wk K s <> [].

(* control part: who may hold the mutex, when the ticker is gone, when the consumer is done *)
Definition okm (a : astate K) (t : tstate) (m : option owner) : Prop :=
  match a, t, m with
  | AHold _, TRender, _ => False
  | AHold _, _, Some OAgg => True
  | AHold _, _, _ => False
  | _, TRender, Some OTick => True
  | _, TRender, _ => False
  | _, _, None => True
  | _, _, _ => False
  end.
Definition okt (a : astate K) (t : tstate) : Prop :=
  match a, t with
  | AFinal, TDone | ADone, TDone => True
  | AFinal, _ | ADone, _ => False
  | _, TDone => False
  | _, _ => True
  end.
Definition okd (a : astate K) (d : bool) : Prop :=
  match a, d with
  | ASend, true | AFinal, true | ADone, true => True
  | ASend, false | AFinal, false | ADone, false => False
  | _, true => False
  | _, false => True
  end.

Definition LC (x : cstate) : Prop :=
  let (s, l) := x in okm (ag K l) (tk K l) (mtx K l) /\ okt (ag K l) (tk K l) /\ okd (ag K l) (cdone K s).

Lemma lc_step s l s' l' : LC (s, l) -> cstep (s, l) (s', l') -> LC (s', l').
Proof.
  intros (A & B & C) Hst. inversion Hst; subst; unfold LC; cbn [ag tk mtx cdone set_consumer] in *;
    try match goal with H : cdone K s' = cdone K s |- _ => rewrite H end;
    repeat match goal with
           | H : ag K l = _ |- _ => rewrite H in *
           | H : tk K l = _ |- _ => rewrite H in *
           | H : mtx K l = _ |- _ => rewrite H in *
           | H : cdone K _ = _ |- _ => rewrite H in *
           end;
    try (split; [|split]; assumption).
  all: destruct (tk K l) eqn:Et; destruct (mtx K l) as [[|]|] eqn:Em; cbn in *; try tauto.
  all: destruct (ag K l) eqn:Ea; cbn in *; try tauto.
Qed.

(* data part *)
Definition LD (x : cstate) : Prop :=
  let (s, l) := x in
  consumed K s = sampled K l ++ pend (ag K l) /\
  (forall snap mc, In (snap, mc) (renders K l) -> (exists rest, sampled K l = snap ++ rest) /\ length snap <= mc) /\
  (forall snap mc, final_render K l = Some (snap, mc) ->
     ag K l = ADone /\ snap = sampled K l /\ mc = list_sum (map (isM K classify) input)) /\
  (ag K l = ADone -> final_render K l <> None).

Lemma key_len l : length (key_of K classify l) = isM K classify l.
Proof. unfold key_of, isM. destruct (classify l); reflexivity. Qed.
Lemma keys_len ls : length (flat_map (key_of K classify) ls) = list_sum (map (isM K classify) ls).
Proof. induction ls as [|l ls IH]; [reflexivity|]. cbn [flat_map map list_sum]. rewrite app_length, key_len, IH. reflexivity. Qed.

(* the consumer never holds more keys than lines were counted as matched *)
Lemma consumed_le_matched s : Inv K classify input ne s -> length (consumed K s) <= cM K s.
Proof.
  intros (_ & Hk & _ & HM & _). apply Permutation_length in Hk. unfold keys_inflight in Hk.
  rewrite !app_length, keys_len, <- HM in Hk. lia.
Qed.

Lemma pinv_step s s' : PInv s -> step s s' -> PInv s'.
Proof.
  intros (A & B & C) H. split; [eapply inv_step; eauto|]. split; [eapply aux_step; eauto|].
  eapply wk_nonempty_step; eauto.
Qed.

Lemma ld_step s l s' l' : PInv s -> LC (s, l) -> LD (s, l) -> cstep (s, l) (s', l') -> LD (s', l').
Proof.
  intros (HInv & HAux & Hwk) (_ & _ & Hd) (C & F & G & Hh) Hst.
  pose proof (consumed_le_matched _ HInv) as Hle.
  assert (Hnf : forall a, ag K l = a -> a <> ADone -> forall snap mc, final_render K l = Some (snap, mc) -> False).
  { intros a Ha Hne snap mc Hf. destruct (G _ _ Hf) as (G1 & _). congruence. }
  inversion Hst; subst; unfold LD; cbn [ag tk mtx sampled renders final_render consumed cdone cM set_consumer pend] in *.
  - match goal with H1 : consumed K s' = _ |- _ => rewrite H1 end. auto.
  - match goal with H : ag K l = AIdle |- _ => rewrite H in * end. cbn [pend] in *. rewrite app_nil_r in C.
    split; [rewrite C; reflexivity|]. split; [exact F|]. split; [|discriminate].
    intros snap mc Hf. exfalso. eapply (Hnf AIdle); eauto. discriminate.
  - match goal with H : ag K l = ARecv _ |- _ => rewrite H in * end. cbn [pend] in *.
    split; [exact C|]. split; [exact F|]. split; [|discriminate].
    intros snap mc Hf. exfalso. eapply (Hnf (ARecv m)); eauto. discriminate.
  - match goal with H : ag K l = AHold _ |- _ => rewrite H in * end. cbn [pend] in *.
    split; [rewrite C, <- app_assoc; reflexivity|]. split; [|split; [|discriminate]].
    + intros snap mc Hin. destruct (F _ _ Hin) as ((rest & Hr) & Hl). split; [|exact Hl].
      exists (rest ++ [k]). rewrite Hr, <- app_assoc. reflexivity.
    + intros snap mc Hf. exfalso. eapply (Hnf (AHold (k :: m))); eauto. discriminate.
  - match goal with H : ag K l = AHold _ |- _ => rewrite H in * end. cbn [pend] in *.
    split; [exact C|]. split; [exact F|]. split; [|discriminate].
    intros snap mc Hf. exfalso. eapply (Hnf (AHold [])); eauto. discriminate.
  - match goal with H : ag K l = AIdle |- _ => rewrite H in * end. cbn [pend] in *.
    split; [exact C|]. split; [exact F|]. split; [|discriminate].
    intros snap mc Hf. exfalso. eapply (Hnf AIdle); eauto. discriminate.
  - match goal with H : ag K l = ASend |- _ => rewrite H in * end. cbn [pend] in *.
    split; [exact C|]. split; [exact F|]. split; [|discriminate].
    intros snap mc Hf. exfalso. eapply (Hnf ASend); eauto. discriminate.
  - match goal with H : ag K l = AFinal |- _ => rewrite H in * end. cbn [pend okd] in *.
    assert (cdone K s' = true) as Hdd by (destruct (cdone K s'); [reflexivity|contradiction]).
    destruct (finished_all K classify input ne s' HInv HAux Hwk Hdd) as (_ & _ & _ & HM & _).
    split; [exact C|]. split; [exact F|]. split; [|intros _; discriminate].
    intros snap mc Hf. inversion Hf; subst. auto.
  - split; [exact C|]. split; [exact F|]. split; [exact G|exact Hh].
  - split; [exact C|]. split; [exact F|]. split; [exact G|exact Hh].
  - split; [exact C|]. split; [|split; [exact G|exact Hh]].
    intros snap mc Hin. apply in_app_or in Hin as [Hin|[Hin|[]]]; [exact (F _ _ Hin)|].
    inversion Hin; subst. split; [exists []; rewrite app_nil_r; reflexivity|].
    rewrite C, app_length in Hle. lia.
Qed.

Lemma pinv_cstep s l s' l' : PInv s -> cstep (s, l) (s', l') -> PInv s'.
Proof.
  intros HP H. destruct (cstep_proj _ _ _ _ H) as [Hs| ->]; [eapply pinv_step; eauto|exact HP].
Qed.

Definition CI (x : cstate) : Prop := PInv (fst x) /\ LC x /\ LD x.

Lemma ci_step x y : CI x -> cstep x y -> CI y.
Proof.
  destruct x as [s l], y as [s' l']. intros (A & B & C) H. cbn [fst] in *.
  split; [eapply pinv_cstep; eauto|]. split; [eapply lc_step; eauto|eapply ld_step; eauto].
Qed.

(* ---- T1: a render never runs while a match is being sampled; the final render starts only after
        the ticker goroutine has returned ---- *)
Theorem render_atomic x : CI x ->
  ~ (tk K (snd x) = TRender /\ exists m, ag K (snd x) = AHold m) /\
  (ag K (snd x) = AFinal -> tk K (snd x) = TDone) /\
  (tk K (snd x) = TRender -> mtx K (snd x) = Some OTick) /\
  ((exists m, ag K (snd x) = AHold m) -> mtx K (snd x) = Some OAgg).
Proof.
  destruct x as [s l]. intros (_ & (A & B & _) & _). cbn [snd].
  repeat split.
  - intros (Ht & m & Ha). rewrite Ht, Ha in A. cbn in A. exact A.
  - intros Ha. rewrite Ha in B. destruct (tk K l); cbn in B; tauto.
  - intros Ht. rewrite Ht in A. destruct (ag K l), (mtx K l) as [[|]|]; cbn in A; tauto.
  - intros (m & Ha). rewrite Ha in A. destruct (tk K l), (mtx K l) as [[|]|]; cbn in A; tauto.
Qed.

(* ---- T2: when the loop is done, the final render saw every match: the sampled keys are a
        permutation of the sequential keys and the matched total is the true count ---- *)
Theorem final_complete x : CI x -> ag K (snd x) = ADone ->
  final_render K (snd x) = Some (sampled K (snd x), list_sum (map (isM K classify) input)) /\
  Permutation (sampled K (snd x)) (seq_keys K classify input) /\
  tk K (snd x) = TDone.
Proof.
  destruct x as [s l]. intros ((HInv & HAux & Hwk) & (A & B & D) & (C & F & G & Hh)) Ha. cbn [snd fst] in *.
  rewrite Ha in *. cbn [pend okd okt] in *. rewrite app_nil_r in C.
  assert (cdone K s = true) as Hdd by (destruct (cdone K s); [reflexivity|contradiction]).
  destruct (finished_all K classify input ne s HInv HAux Hwk Hdd) as (_ & HP & _).
  destruct (final_render K l) as [[snap mc]|] eqn:Ef; [|exfalso; exact (Hh eq_refl eq_refl)].
  destruct (G _ _ eq_refl) as (_ & -> & ->).
  split; [reflexivity|]. split; [rewrite <- C; exact HP|].
  destruct (tk K l); cbn in B; tauto.
Qed.

(* ---- T3: every intermediate render shows a prefix of what the final render shows (so every
        per-key count is at most the final count) and a matched total at least the number of
        samples displayed ---- *)
Theorem renders_monotone x : CI x -> forall snap mc, In (snap, mc) (renders K (snd x)) ->
  (exists rest, sampled K (snd x) = snap ++ rest) /\ length snap <= mc.
Proof. destruct x as [s l]. intros (_ & _ & (_ & F & _)). exact F. Qed.

Lemma count_prefix (eqd : forall a b : K, {a = b} + {a <> b}) (snap rest : list K) k :
  count_occ eqd snap k <= count_occ eqd (snap ++ rest) k.
Proof. rewrite count_occ_app. lia. Qed.

(* ---- T4: progress without waiting for a new tick ---- *)
Definition nontick (x y : cstate) : Prop := cstep x y /\ ~ is_tick K x y.

Lemma step_kind s s' : step s s' ->
  (consumed K s' = consumed K s /\ cdone K s' = cdone K s /\ (rch K s' = rch K s \/ exists b, rch K s' = rch K s ++ [b])) \/
  (exists m rest, rch K s = m :: rest) \/ (rch K s = [] /\ rclosed K s = true).
Proof.
  intros H. inversion H; subst; cbn [consumed cdone rch]; try (left; split; [reflexivity|split; [reflexivity|left; reflexivity]]).
  - left. split; [reflexivity|]. split; [reflexivity|]. right. eexists. reflexivity.
  - right. left. eauto.
  - right. right. auto.
Qed.

Theorem loop_progress x : cfg_ok c -> CI x -> ag K (snd x) <> ADone -> exists y, nontick x y.
Proof.
  destruct x as [s l]. intros Hcfg ((HInv & HAux & Hwk) & (A & B & D) & _) Hnd. cbn [snd fst] in *.
  assert (forall y, cstep (s, l) y -> tk K l <> TWait -> nontick (s, l) y) as NT.
  { intros y Hy Hn. split; [exact Hy|]. intros (_ & Ht & _). exact (Hn Ht). }
  assert (forall y, cstep (s, l) y -> tk K (snd y) <> TLock -> nontick (s, l) y) as NT2.
  { intros y Hy Hn. split; [exact Hy|]. intros (_ & _ & Ht). exact (Hn Ht). }
  destruct (tk K l) eqn:Et.
  - (* TWait *)
    destruct (ag K l) eqn:Ea.
    + (* AIdle *)
      assert (cdone K s = false) as Hcd by (destruct (cdone K s); [contradiction|reflexivity]).
      destruct (rch K s) as [|m rest] eqn:Er.
      * destruct (rclosed K s) eqn:Erc.
        -- eexists. apply NT2; [eapply c_closed; eauto|]. cbn. rewrite Et. discriminate.
        -- destruct (progress K classify c s Hcfg HAux Hcd) as (s' & Hs).
           destruct (step_kind _ _ Hs) as [(H1 & H2 & H3)|[(m & rest & H1)|(H1 & H2)]]; try congruence.
           eexists. apply NT2; [eapply c_pipe; eauto|]. cbn. rewrite Et. discriminate.
      * eexists. apply NT2; [eapply c_recv; eauto|]. cbn. rewrite Et. discriminate.
    + destruct (mtx K l) as [[|]|] eqn:Em; cbn in A; try contradiction.
      eexists. apply NT2; [eapply c_lock; eauto|]. cbn. rewrite Et. discriminate.
    + destruct m as [|k m].
      * eexists. apply NT2; [eapply c_unlock; eauto|]. cbn. rewrite Et. discriminate.
      * eexists. apply NT2; [eapply c_sample; eauto|]. cbn. rewrite Et. discriminate.
    + eexists. apply NT2; [eapply c_handoff; eauto|]. cbn. discriminate.
    + cbn in B. contradiction.
    + congruence.
  - (* TLock *)
    destruct (mtx K l) as [[|]|] eqn:Em.
    + destruct (ag K l) as [| | [|k m] | | |] eqn:Ea; cbn in A; try contradiction.
      * eexists. apply NT; [eapply c_unlock; eauto|]. congruence.
      * eexists. apply NT; [eapply c_sample; eauto|]. congruence.
    + destruct (ag K l); cbn in A; contradiction.
    + eexists. apply NT; [eapply t_lock; eauto|]. congruence.
  - (* TRender *)
    eexists. apply NT; [eapply t_render; eauto|]. congruence.
  - (* TDone *)
    destruct (ag K l) eqn:Ea; cbn in B; try contradiction; try congruence.
    eexists. apply NT; [eapply c_final; eauto|]. congruence.
Qed.

(* ---- T5: termination: every step that is not a new tick decreases a lexicographic measure, and
        ticks do not increase it; so an execution with n ticks is finite ---- *)
Definition aw (a : astate K) : nat :=
  match a with AIdle => 3 | ARecv m => length m + 5 | AHold m => length m + 4 | ASend => 2 | AFinal => 1 | ADone => 0 end.
Definition tw (t : tstate) : nat := match t with TLock => 2 | TRender => 1 | _ => 0 end.
Definition lmeasure (x : cstate) : nat * nat := (mu K (fst x), aw (ag K (snd x)) + tw (tk K (snd x))).
Definition lex (a b : nat * nat) : Prop := fst a < fst b \/ (fst a = fst b /\ snd a < snd b).

Theorem nontick_decreases x y : cstep x y -> ~ is_tick K x y -> lex (lmeasure y) (lmeasure x).
Proof.
  destruct x as [s l], y as [s' l']. intros H Hn. unfold lex, lmeasure. cbn [fst snd].
  inversion H; subst; cbn [ag tk].
  - left. apply (step_decreases K classify c); assumption.
  - left. apply (step_decreases K classify c). unfold set_consumer.
    match goal with H : cdone K s = false |- _ => rewrite <- H end. apply s_crecv; assumption.
  - right. split; [reflexivity|]. match goal with H : ag K l = _ |- _ => rewrite H end. cbn. lia.
  - right. split; [reflexivity|]. match goal with H : ag K l = _ |- _ => rewrite H end. cbn. lia.
  - right. split; [reflexivity|]. match goal with H : ag K l = _ |- _ => rewrite H end. cbn. lia.
  - left. apply (step_decreases K classify c). unfold set_consumer.
    match goal with H : rch K s = [] |- _ => rewrite <- H at 1 end. apply s_cdone; assumption.
  - right. split; [reflexivity|].
    match goal with H : ag K l = _ |- _ => rewrite H end. match goal with H : tk K l = _ |- _ => rewrite H end. cbn. lia.
  - right. split; [reflexivity|]. match goal with H : ag K l = _ |- _ => rewrite H end. cbn. lia.
  - exfalso. apply Hn. unfold is_tick. cbn. auto.
  - right. split; [reflexivity|]. match goal with H : tk K l = _ |- _ => rewrite H end. cbn. lia.
  - right. split; [reflexivity|]. match goal with H : tk K l = _ |- _ => rewrite H end. cbn. lia.
Qed.

Lemma lex_wf : well_founded lex.
Proof.
  intros [a b]. revert b. induction a as [a IHa] using (well_founded_induction lt_wf).
  induction b as [b IHb] using (well_founded_induction lt_wf).
  constructor. intros [a' b'] [H|[H1 H2]]; cbn [fst snd] in *.
  - apply IHa. exact H.
  - subst a'. apply IHb. exact H2.
Qed.

(* there is no infinite sequence of non-tick steps *)
Theorem nontick_wf : well_founded (fun y x : cstate => nontick x y).
Proof.
  intros x. remember (lmeasure x) as m eqn:Em. revert x Em.
  induction m as [m IH] using (well_founded_induction lex_wf). intros x ->.
  constructor. intros y (Hs & Hn). apply (IH (lmeasure y)); [|reflexivity].
  apply nontick_decreases; assumption.
Qed.

Lemma creach_ci x0 x : CI x0 -> creach K classify c x0 x -> CI x.
Proof. intros H0 Hr. induction Hr as [|x y Hr IH Hst]; [exact H0|eapply ci_step; eauto]. Qed.
End AggLoopProof.

(* ---- from the initial state ---- *)
Lemma ci_init K classify srcs nw : nw >= 1 ->
  CI K classify (input_of srcs) (errors_of srcs) (init K srcs nw, loop0 K).
Proof.
  intros Hnw. destruct (init_inv K classify srcs nw) as (A & B).
  split; [|split].
  - cbn [fst]. split; [exact A|]. split; [exact B|]. unfold Pipeline.init; cbn [wk]. destruct nw; [lia|cbn; discriminate].
  - unfold LC, loop0, Pipeline.init; cbn. auto.
  - unfold LD, loop0, Pipeline.init; cbn. repeat split; try discriminate; try contradiction.
Qed.

Theorem creach_inv K classify c srcs nw x : nw >= 1 ->
  creach K classify c (init K srcs nw, loop0 K) x -> CI K classify (input_of srcs) (errors_of srcs) x.
Proof. intros Hnw Hr. eapply creach_ci; [apply ci_init; exact Hnw|exact Hr]. Qed.
