(* C14 — the renderers complete: no Panic and the header loop never runs out of fuel; heatmap and
   sparkline rows have one cell per displayed column; the "(n more)" notes count what is hidden. *)
From Coq Require Import List ZArith NArith QArith Bool Lia.
From RareV Require Import Base.Hex Base.Num Base.Res Gen.GenPalette Model.Scale Model.Render
  Proofs.ScaleProof Proofs.RenderBars Proofs.RenderTable.
Import ListNotations.
Local Open Scope Z_scope.

Definition okb {A} (r : result A) : Prop := exists a, r = Ok a.
Lemma okb_Ok {A} (a : A) : okb (Ok a). Proof. exists a. reflexivity. Qed.
Lemma rbind_ok {A B} (r : result A) (k : A -> result B) : okb r -> (forall a, okb (k a)) -> okb (rbind r k).
Proof. intros [a ->] H. simpl. apply H. Qed.
Lemma okb_not_panic {A} (r : result A) : okb r -> r <> Panic.
Proof. intros [a ->]. discriminate. Qed.
Lemma not_panic_okb {A} (r : result A) : r <> Panic -> okb r.
Proof. destruct r. intros _. eexists; reflexivity. congruence. Qed.

Lemma str_len_nonneg col s : 0 <= str_len col s.
Proof. unfold str_len. lia. Qed.

(* ---------- Heatmap.WriteHeader: the fuel S colCount is never exhausted (#26 repaired) ---------- *)
Lemma header_loop_ok col names cc : cc <= lenZ names ->
  forall fuel i acc, 0 <= i -> (Z.to_nat (cc - i) < fuel)%nat ->
  exists s, header_loop col fuel names cc i acc = Some (Ok s).
Proof.
  intros Hcc. induction fuel as [|f IH]; intros i acc Hi Hf. lia.
  cbn [header_loop].
  destruct (Z.leb_spec cc i) as [Hd|Hd]. eexists; reflexivity.
  assert (Hnth : forall z, 0 <= z < cc -> exists nm, nth_error names (Z.to_nat z) = Some nm).
  { intros z Hz. destruct (nth_error names (Z.to_nat z)) eqn:E. eexists; reflexivity.
    apply nth_error_None in E. unfold lenZ in Hcc. lia. }
  destruct (Z.eqb_spec i 0) as [->|Hi0].
  - (* first column *)
    cbn [negb andb]. rewrite Z.add_0_r.
    destruct (Hnth 0 ltac:(lia)) as [nm E]. rewrite E.
    change (0 =? 0) with true. cbn [negb andb].
    pose proof (str_len_nonneg col nm).
    destruct (Z.eqb_spec (str_len col nm) 0); apply IH; lia.
  - cbn [negb andb].
    set (count := Z.min (cc - i) 2). assert (1 <= count <= cc - i) by (unfold count; lia).
    destruct (Z.leb_spec cc (i + count)). eexists; reflexivity.
    destruct (Hnth (i + count) ltac:(lia)) as [nm E]. rewrite E.
    destruct (Z.eqb_spec (i + count) 0). lia. cbn [negb andb].
    pose proof (str_len_nonneg col nm).
    destruct (Z.leb_spec cc (i + count + str_len col nm + 2)).
    + destruct (Hnth (cc - 1) ltac:(lia)) as [lst E2]. rewrite E2. eexists; reflexivity.
    + destruct (Z.eqb_spec (str_len col nm) 0); apply IH; lia.
Qed.

(* the header: shows min(#columns, limit) columns; when some are hidden its note counts them *)
Theorem heat_header_ok col w limit names :
  exists hdr, heat_header col w limit names = Some (Ok (Nat.min (length names) limit, hdr)) /\
    ((Nat.min (length names) limit < length names)%nat ->
     exists h, hdr = h ++ more_note_sp col (Z.of_nat (length (skipn limit names)))).
Proof.
  unfold heat_header. set (cc := Nat.min (length names) limit).
  destruct (header_loop_ok col names (Z.of_nat cc) ltac:(unfold lenZ, cc; lia) (S cc) 0 (rep (w + 1) SP)
              ltac:(lia) ltac:(lia)) as [h E].
  rewrite E. destruct (Nat.ltb_spec cc (length names)).
  - eexists. split. reflexivity. intros _. exists h. f_equal. f_equal.
    rewrite skipn_length. unfold lenZ, cc in *. lia.
  - eexists. split. reflexivity. intros. lia.
Qed.

Section Total.
  Variable col uni : bool.
  Variable m : Z -> Q.
  Variable rnd : Q -> Q.
  Variable keys : Z -> Z -> list Z.
  Variable fmt : Z -> Z -> Z -> str.
  Hypothesis m_mono : forall a b, (a <= b)%Z -> (m a <= m b)%Q.
  Hypothesis rnd_mono : forall x y, (x <= y)%Q -> (rnd x <= rnd y)%Q.
  Hypothesis rnd_0 : (rnd 0 == 0)%Q.
  Hypothesis rnd_1 : (rnd 1 == 1)%Q.
  Hypothesis rnd_pos : forall x, (0 < x)%Q -> (0 < rnd x)%Q.
  Hypothesis rnd_int : forall k, small_int k -> (rnd (inject_Z k) == inject_Z k)%Q.

  Notation scale := (scale m rnd).

  Lemma heat_cell_scaled v mn mx : exists s, heat_write col uni rnd (scale v mn mx) = Ok s /\ str_len col s = 1 /\ closed col s.
  Proof.
    apply (heat_write_cell rnd rnd_mono rnd_0 rnd_int).
    apply (scale_unit m rnd m_mono rnd_mono rnd_0 rnd_1 rnd_pos).
  Qed.

  (* one heat cell per value *)
  Lemma heat_cells mn mx : forall vals,
    exists cells, rconcat (fun v => heat_write col uni rnd (scale v mn mx)) vals = Ok cells /\
                  str_len col cells = lenZ vals /\ closed col cells.
  Proof.
    induction vals as [|v r [cs [E [L C]]]]; cbn [rconcat].
    - exists []. split. reflexivity. split. apply str_len_nil. apply closed_nil.
    - destruct (heat_cell_scaled v mn mx) as [s [Es [Ls Cs]]]. rewrite Es, E. cbn [rbind].
      eexists. split. reflexivity. split.
      + rewrite str_len_app by assumption. rewrite Ls, L. unfold lenZ. simpl length. lia.
      + apply closed_app; assumption.
  Qed.

  (* one spark cell per value *)
  Lemma spark_cells mn mx : forall vals,
    exists cells, rconcat (fun v => spark_write uni rnd (scale v mn mx)) vals = Ok cells /\
                  lenZ cells = lenZ vals.
  Proof.
    induction vals as [|v r [cs [E L]]]; cbn [rconcat].
    - exists []. split; reflexivity.
    - destruct (spark_write_cell rnd rnd_mono rnd_0 rnd_int uni (scale v mn mx)
                  (scale_unit m rnd m_mono rnd_mono rnd_0 rnd_1 rnd_pos v mn mx)) as [c Ec].
      rewrite Ec, E. cbn [rbind]. eexists. split. reflexivity.
      unfold lenZ in *. simpl length. lia.
  Qed.

  (* C14_rows_one_cell_per_column, heatmap: name, padding of at least one blank, then exactly one
     cell per value *)
  Theorem heat_row_cells w mn mx name vals :
    exists cells, heat_row col uni m rnd w mn mx name vals =
                    Ok (Z.max w (str_len col name),
                        wrap col col_Yellow name ++ rep (Z.max w (str_len col name) - str_len col name + 1) SP ++ cells) /\
                  str_len col cells = lenZ vals.
  Proof.
    unfold heat_row. destruct (heat_cells mn mx vals) as [cs [E [L _]]].
    rewrite E. cbn [rbind]. exists cs. split. reflexivity. assumption.
  Qed.

  Lemma legend_items_ok mn mx : forall ks first,
    okb (legend_items col uni m rnd fmt first ks mn mx).
  Proof.
    induction ks as [|k r IH]; intros first; cbn [legend_items]. apply okb_Ok.
    destruct (heat_cell_scaled k mn mx) as [s [Es _]]. rewrite Es. cbn [rbind].
    apply rbind_ok. apply IH. intros. apply okb_Ok.
  Qed.

  Lemma heat_rows_ok mn mx cc : forall rows i w tm,
    okb (heat_rows col uni m rnd i w mn mx cc rows tm).
  Proof.
    induction rows as [|r rest IH]; intros i w tm; cbn [heat_rows]. apply okb_Ok.
    destruct (heat_row_cells w mn mx (r_name r) (firstn cc (r_vals r))) as [cs [E _]].
    rewrite E. cbn [rbind]. apply IH.
  Qed.

  (* C14_render_total, heatmap: for every aggregator state and limits the table is written
     completely (no panic, header fuel not exhausted) *)
  Theorem heat_write_table_rng_total mn mx rlim clim h tm a :
    exists st, heat_write_table_rng col uni m rnd keys fmt mn mx rlim clim h tm a = Some (Ok st).
  Proof.
    unfold heat_write_table_rng, heat_legend.
    destruct (legend_items_ok mn mx (keys mn mx) true) as [l El].
    rewrite El. cbn [rbind].
    destruct (heat_header_ok col (hm_w h) clim (a_cols a)) as [hdr [Eh _]]. rewrite Eh.
    match goal with |- context [heat_rows ?c ?u ?mm ?r ?i ?w ?mn0 ?mx0 ?cc ?rows ?t] =>
      destruct (heat_rows_ok mn0 mx0 cc rows i w t) as [[w' tm2] Er]; rewrite Er end.
    destruct (_ <? _)%nat; eexists; reflexivity.
  Qed.
  Theorem heat_write_table_total rlim clim h tm a :
    exists st, heat_write_table col uni m rnd keys fmt rlim clim h tm a = Some (Ok st).
  Proof. apply heat_write_table_rng_total. Qed.
  (* UpdateMinMax (fixed bounds, any order of assignment of Scaler / Formatter) *)
  Theorem heat_update_minmax_total h tm mn mx : okb (heat_update_minmax col uni m rnd keys fmt h tm mn mx).
  Proof.
    unfold heat_update_minmax, heat_legend.
    destruct (legend_items_ok mn mx (keys mn mx) true) as [l El]. rewrite El. cbn [rbind]. apply okb_Ok.
  Qed.
  (* every cell of a heatmap row is the block of its value under the scaler and the range given to
     THIS render *)
  Theorem heat_row_blocks w mn mx name vals w' line : heat_row col uni m rnd w mn mx name vals = Ok (w', line) ->
    exists cells, rconcat (fun v => heat_write col uni rnd (scale v mn mx)) vals = Ok cells /\
                  line = wrap col col_Yellow name ++ rep (w' - str_len col name + 1) SP ++ cells.
  Proof.
    unfold heat_row. destruct (rconcat _ vals) as [cells|]; [|discriminate]. cbn [rbind].
    intros E. inversion E; subst. exists cells. split; reflexivity.
  Qed.

  (* C14_more_counts, heatmap rows: when rows are hidden, the line after the last displayed row is
     the note and its number is the number of hidden rows *)
  Theorem heat_more_rows rlim clim h tm a h' tm' :
    heat_write_table col uni m rnd keys fmt rlim clim h tm a = Some (Ok (h', tm')) ->
    (rlim < length (a_rows a))%nat ->
    nth_error tm' (2 + rlim) = Some (more_note col (Z.of_nat (length (skipn rlim (a_rows a))))).
  Proof.
    unfold heat_write_table, heat_write_table_rng. intros E Hl.
    destruct (heat_legend _ _ _ _ _ _ _ _) as [leg|]; [|discriminate].
    destruct (heat_header _ _ _ _) as [[[cc hdr]|]|]; try discriminate.
    destruct (heat_rows _ _ _ _ _ _ _ _ _ _ _) as [[w' tm2]|]; [|discriminate].
    replace (Nat.min (length (a_rows a)) rlim) with rlim in E by lia.
    destruct (Nat.ltb_spec rlim (length (a_rows a))); [|lia].
    assert (Et : tm' = set_nth (2 + rlim) (more_note col (lenZ (a_rows a) - Z.of_nat rlim)) tm2) by congruence.
    rewrite Et, skipn_length.
    replace (lenZ (a_rows a) - Z.of_nat rlim) with (Z.of_nat (length (a_rows a) - rlim)) by (unfold lenZ; lia).
    apply set_nth_eq.
  Qed.

  (* ---------- spark ---------- *)
  Lemma spark_rows_ok mn mx k : forall rows i st,
    okb (spark_rows col uni m rnd fmt i mn mx k rows st).
  Proof.
    induction rows as [|r rest IH]; intros i st; cbn [spark_rows]. apply okb_Ok.
    destruct (spark_cells mn mx (last_cols k (r_vals r))) as [cs [E _]]. rewrite E. cbn [rbind]. apply IH.
  Qed.
  (* #16 repaired: also with no displayed column *)
  Theorem spark_write_table_total rlim clim st a :     okb (spark_write_table col uni m rnd fmt rlim clim st a).
  Proof.
    unfold spark_write_table. cbv zeta.
    apply rbind_ok. apply spark_rows_ok.
    intros st2. destruct (_ <? _)%nat; apply okb_Ok.
  Qed.

  (* ---------- histogram ---------- *)
  Lemma histo_line_ok sb h key val : okb (histo_line col uni m rnd fmt sb h key val).
  Proof.
    unfold histo_line. apply rbind_ok; [|intros; apply okb_Ok].
    destruct (sb && (0 <? h_max h)); [|apply okb_Ok].
    apply rbind_ok; [|intros; apply okb_Ok].
    apply not_panic_okb. apply bar_write_total.
  Qed.
  Lemma histo_full_ok sb h : forall items i tm, okb (histo_full col uni m rnd fmt sb h i items tm).
  Proof.
    induction items as [|[k v] rest IH]; intros i tm; cbn [histo_full]. apply okb_Ok.
    destruct (0 <? v); [|apply IH].
    apply rbind_ok. apply histo_line_ok. intros. apply IH.
  Qed.
  (* #16 repaired: line = len(items) included *)
  Theorem histo_run_total sb : forall ops st, okb (histo_run col uni m rnd fmt sb st ops).
  Proof.
    induction ops as [|o r IH]; intros st; cbn [histo_run]. apply okb_Ok.
    apply rbind_ok; [|intros; apply IH].
    unfold histo_step. destruct o.
    - destruct (_ <=? _)%nat. apply okb_Ok.
      destruct (_ || _).
      + apply rbind_ok. apply histo_full_ok. intros. apply okb_Ok.
      + apply rbind_ok. apply histo_line_ok. intros. apply okb_Ok.
    - apply rbind_ok. apply histo_full_ok. intros. apply okb_Ok.
    - apply okb_Ok.
  Qed.

  (* ---------- bar graph ---------- *)
  Lemma group_color_okb i : okb (group_color i).
  Proof. destruct (group_color_ok i) as [c [E _]]. exists c. assumption. Qed.
  Lemma bar_key_ok i : okb (bar_key col uni i).
  Proof.
    unfold bar_key. destruct col.
    - apply rbind_ok. apply group_color_okb. intros. apply okb_Ok.
    - destruct (nth_mod_some barAscii i bar_ascii_len) as [x [E _]]. rewrite E. apply okb_Ok.
  Qed.
  Lemma bg_legend_ok : forall ks i, okb (bg_legend col uni i ks).
  Proof.
    induction ks as [|k r IH]; intros i; cbn [bg_legend]. apply okb_Ok.
    apply rbind_ok. apply bar_key_ok. intros. apply rbind_ok. apply IH. intros. apply okb_Ok.
  Qed.
  Theorem bg_set_keys_total b tm ks : okb (bg_set_keys col uni b tm ks).
  Proof.
    unfold bg_set_keys. destruct ks as [|k [|k2 r]]; try apply okb_Ok.
    - destruct k. apply okb_Ok. apply rbind_ok. apply bg_legend_ok. intros. apply okb_Ok.
    - destruct k; (apply rbind_ok; [apply bg_legend_ok | intros; apply okb_Ok]).
  Qed.
  Lemma bg_grouped_ok size b key line : forall vals i tm,
    okb (bg_grouped_lines col uni m rnd fmt size b key i line vals tm).
  Proof.
    induction vals as [|v r IH]; intros i tm; cbn [bg_grouped_lines]. apply okb_Ok.
    apply rbind_ok. apply group_color_okb. intros c.
    apply rbind_ok. apply not_panic_okb. apply bar_write_total. intros. apply IH.
  Qed.
  (* #15 repaired: also while the running maximum is 0 *)
  Lemma bg_write_bar_ok size stacked b tm idx key vals :
    okb (bg_write_bar col uni m rnd fmt size stacked b tm idx key vals).
  Proof.
    unfold bg_write_bar. destruct stacked.
    - cbv zeta. apply rbind_ok. apply not_panic_okb. apply bar_stacked_total. intros. apply okb_Ok.
    - cbv zeta. apply rbind_ok. apply bg_grouped_ok. intros. apply okb_Ok.
  Qed.
  Lemma bg_redraw_ok size stacked : forall rows i st, okb (bg_redraw col uni m rnd fmt size stacked i rows st).
  Proof.
    induction rows as [|[k vs] r IH]; intros i st; cbn [bg_redraw]. apply okb_Ok.
    apply rbind_ok. apply bg_write_bar_ok. intros. apply IH.
  Qed.
  Theorem bg_run_total size stacked : forall ops st, okb (bg_run col uni m rnd fmt size stacked st ops).
  Proof.
    induction ops as [|o r IH]; intros st; cbn [bg_run]. apply okb_Ok.
    destruct o.
    - apply rbind_ok; [|intros; apply IH].
      unfold bg_bar. cbv zeta. destruct (_ <? _). apply bg_redraw_ok. apply bg_write_bar_ok.
    - apply IH.
    - apply rbind_ok; [|intros; apply IH]. apply bg_set_keys_total.
  Qed.
End Total.

(* C14_more_counts, sparkline: in EVERY frame — whatever table, widths and notes earlier frames
   left behind — when rows are hidden the line after the table's last active row is the note with
   the number of rows hidden NOW *)
Theorem spark_more_rows col uni m rnd fmt rlim clim st a t' tm' off :
  spark_write_table col uni m rnd fmt rlim clim st a = Ok (t', tm', off) ->
  (rlim < length (a_rows a))%nat ->
  nth_error tm' (tw_active t') = Some (more_note col (Z.of_nat (length (skipn rlim (a_rows a))))) /\ off = 1%nat.
Proof.
  unfold spark_write_table. cbv zeta. intros E Hl.
  destruct (spark_rows _ _ _ _ _ _ _ _ _ _ _) as [st2|]; [|discriminate E]. cbn [rbind] in E.
  replace (Nat.min (length (a_rows a)) rlim) with rlim in E by lia.
  destruct (Nat.ltb_spec rlim (length (a_rows a))); [|lia].
  assert (Et : t' = fst st2 /\ tm' = tw_footer (fst st2) (snd st2) 0 (more_note col (lenZ (a_rows a) - Z.of_nat rlim)) /\ off = 1%nat)
    by (repeat split; congruence).
  destruct Et as [-> [-> ->]]. split; [|reflexivity].
  unfold tw_footer. rewrite Nat.add_0_r, skipn_length.
  replace (lenZ (a_rows a) - Z.of_nat rlim) with (Z.of_nat (length (a_rows a) - rlim)) by (unfold lenZ; lia).
  apply set_nth_eq.
Qed.
