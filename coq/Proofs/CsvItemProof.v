(* C11: `{csv ...}` output read back by the RFC 4180 record reader gives the arguments. *)
From Coq Require Import List NArith Lia Bool.
From RareV Require Import Base.Hex Model.CsvItem.
Import ListNotations.
Local Open Scope N_scope.

Definition special (b : N) : bool := (b =? DQ) || (b =? CR) || (b =? LF) || (b =? COMMA).

Lemma not_special_split b : special b = false ->
  (b =? DQ) = false /\ (b =? CR) = false /\ (b =? LF) = false /\ (b =? COMMA) = false.
Proof.
  unfold special. intros H. repeat (apply orb_false_iff in H as [H ?]). auto.
Qed.

Lemma plain_iff s : has_quote_or_newline s = false -> has_comma s = false -> forallb (fun b => negb (special b)) s = true.
Proof.
  induction s as [|b r IH]; [reflexivity|]. unfold has_quote_or_newline, has_comma. cbn [existsb forallb].
  intros H1 H2. apply orb_false_iff in H1 as [H1 H1']. apply orb_false_iff in H2 as [H2 H2'].
  rewrite IH by assumption. unfold special.
  repeat (apply orb_false_iff in H1 as [H1 ?]).
  rewrite H1, H2. repeat match goal with H : _ = false |- _ => rewrite H end. reflexivity.
Qed.

(* what the reader does at the end of a field: [rest] is the end of the record or a comma and more *)
Definition finish (rest : bytes) (field : bytes) (done : list bytes) : option (list bytes) :=
  match rest with
  | [] => Some (rev (field :: done))
  | _ :: more => rd more SStart [] (field :: done)
  end.
Definition rest_ok (rest : bytes) : Prop := rest = [] \/ exists more, rest = COMMA :: more.

Lemma rd_plain_run : forall a cur rest done,
  forallb (fun b => negb (special b)) a = true -> rest_ok rest ->
  rd (a ++ rest) SPlain cur done = finish rest (rev cur ++ a) done.
Proof.
  induction a as [|b r IH]; intros cur rest done Ha Hr.
  - cbn [app]. rewrite app_nil_r. destruct Hr as [->|[more ->]]; cbn; reflexivity.
  - cbn [forallb] in Ha. apply andb_true_iff in Ha as [Hb Ha]. apply negb_true_iff in Hb.
    destruct (not_special_split _ Hb) as (H1 & H2 & H3 & H4).
    cbn [app rd]. rewrite H4, H1, H2, H3. cbn [orb].
    rewrite IH by assumption. cbn [rev]. rewrite <- app_assoc. reflexivity.
Qed.

Lemma rd_plain_item : forall a rest done,
  forallb (fun b => negb (special b)) a = true -> rest_ok rest ->
  rd (a ++ rest) SStart [] done = finish rest a done.
Proof.
  intros [|b r] rest done Ha Hr.
  - cbn [app]. destruct Hr as [->|[more ->]]; cbn; reflexivity.
  - cbn [forallb] in Ha. apply andb_true_iff in Ha as [Hb Ha]. apply negb_true_iff in Hb.
    destruct (not_special_split _ Hb) as (H1 & H2 & H3 & H4).
    cbn [app rd]. rewrite H1, H4, H2, H3. cbn [orb].
    rewrite rd_plain_run by assumption. reflexivity.
Qed.

Lemma rd_quoted_run : forall a cur rest done, rest_ok rest ->
  rd (dbl_quotes a ++ DQ :: rest) SQuoted cur done = finish rest (rev cur ++ a) done.
Proof.
  induction a as [|b r IH]; intros cur rest done Hr.
  - cbn [dbl_quotes app rd]. rewrite N.eqb_refl. rewrite app_nil_r.
    destruct Hr as [->|[more ->]]; cbn; reflexivity.
  - cbn [dbl_quotes]. destruct (b =? DQ) eqn:E.
    + apply N.eqb_eq in E. subst. cbn [app rd]. rewrite ?N.eqb_refl. cbn [rd]. rewrite ?N.eqb_refl.
      rewrite IH by assumption. cbn [rev]. rewrite <- app_assoc. reflexivity.
    + cbn [app rd]. rewrite E. rewrite IH by assumption. cbn [rev]. rewrite <- app_assoc. reflexivity.
Qed.

Lemma dbl_quotes_plain s : existsb (fun b => b =? DQ) s = false -> dbl_quotes s = s.
Proof.
  induction s as [|b r IH]; [reflexivity|]. cbn [existsb dbl_quotes]. intros H.
  apply orb_false_iff in H as [H1 H2]. rewrite H1, IH by assumption. reflexivity.
Qed.

Lemma no_quote_of s : has_quote_or_newline s = false -> existsb (fun b => b =? DQ) s = false.
Proof.
  unfold has_quote_or_newline. induction s as [|b r IH]; [reflexivity|]. cbn [existsb]. intros H.
  apply orb_false_iff in H as [H1 H2]. repeat (apply orb_false_iff in H1 as [H1 ?]).
  rewrite H1, IH by assumption. reflexivity.
Qed.

Lemma rd_item : forall a rest done, rest_ok rest ->
  rd (csv_item a ++ rest) SStart [] done = finish rest a done.
Proof.
  intros a rest done Hr. unfold csv_item.
  destruct (has_quote_or_newline a) eqn:E1.
  - cbn [app rd]. rewrite N.eqb_refl. rewrite <- app_assoc. cbn [app].
    rewrite rd_quoted_run by assumption. reflexivity.
  - destruct (has_comma a) eqn:E2.
    + cbn [app rd]. rewrite N.eqb_refl. rewrite <- app_assoc. cbn [app].
      rewrite <- (dbl_quotes_plain a) at 1 by (apply no_quote_of; assumption).
      rewrite rd_quoted_run by assumption. reflexivity.
    + apply rd_plain_item; [apply plain_iff; assumption|assumption].
Qed.

Lemma rd_row : forall args done, args <> [] ->
  rd (csv_row args) SStart [] done = Some (rev done ++ args).
Proof.
  induction args as [|a r IH]; intros done Hne; [congruence|].
  destruct r as [|a2 r2].
  - cbn [csv_row]. rewrite <- (app_nil_r (csv_item a)). rewrite rd_item by (left; reflexivity).
    cbn [finish rev]. reflexivity.
  - change (csv_row (a :: a2 :: r2)) with (csv_item a ++ COMMA :: csv_row (a2 :: r2)).
    rewrite rd_item by (right; eauto). cbn [finish].
    rewrite IH by discriminate. cbn [rev]. rewrite <- app_assoc. reflexivity.
Qed.

Theorem csv_roundtrip_proof : forall args, args <> [] -> rfc4180_row (csv_row args) = Some args.
Proof. intros args H. unfold rfc4180_row. rewrite rd_row by assumption. reflexivity. Qed.

(* a field is left unquoted only when it has none of the four special characters *)
Theorem csv_item_plain_iff_proof : forall a,
  csv_item a = a <-> forallb (fun b => negb (special b)) a = true.
Proof.
  intros a. unfold csv_item. split.
  - destruct (has_quote_or_newline a) eqn:E1.
    + intros H. apply (f_equal (@length N)) in H. cbn [length] in H. rewrite app_length in H. cbn in H.
      assert (length a <= length (dbl_quotes a))%nat.
      { clear. induction a as [|b r IH]; [cbn; lia|]. cbn [dbl_quotes]. destruct (b =? DQ); cbn [length]; lia. }
      lia.
    + destruct (has_comma a) eqn:E2.
      * intros H. apply (f_equal (@length N)) in H. cbn [length] in H. rewrite app_length in H. cbn in H. lia.
      * intros _. apply plain_iff; assumption.
  - intros H. assert (has_quote_or_newline a = false /\ has_comma a = false) as [-> ->]; [|reflexivity].
    unfold has_quote_or_newline, has_comma. induction a as [|b r IH]; [split; reflexivity|].
    cbn [forallb] in H. apply andb_true_iff in H as [Hb Hr]. apply negb_true_iff in Hb.
    destruct (not_special_split _ Hb) as (H1 & H2 & H3 & H4). destruct (IH Hr) as [I1 I2].
    cbn [existsb]. rewrite H1, H2, H3, H4, I1, I2. split; reflexivity.
Qed.
