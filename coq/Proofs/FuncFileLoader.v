(* C10: the functions-file reader is insensitive to layout. *)
From Coq Require Import List NArith ZArith Bool Arith Lia.
From RareV Require Import Base.Hex Model.Funcs Model.FuncFile.
Import ListNotations.

(* ---- trimAfter ---- *)
Lemma trim_after_nohash s : no_hash s = true -> forall t, trim_after HASH (s ++ t) = s ++ trim_after HASH t.
Proof.
  unfold no_hash. induction s; intros H t; [reflexivity|].
  cbn [existsb] in H. cbn [app trim_after].
  destruct (N.eqb_spec a HASH) as [->|Hne].
  - rewrite N.eqb_refl in H. cbn in H. discriminate.
  - assert (E : N.eqb HASH a = false) by (apply N.eqb_neq; congruence).
    rewrite E in H. cbn [orb] in H. f_equal. apply IHs; auto.
Qed.

Lemma trim_after_comment c : trim_after HASH (render_comment c) = [].
Proof. destruct c; reflexivity. Qed.

Lemma no_hash_app a b : no_hash a = true -> no_hash b = true -> no_hash (a ++ b) = true.
Proof.
  unfold no_hash. rewrite existsb_app. intros Ha Hb.
  destruct (existsb _ a); [discriminate|]. destruct (existsb _ b); [discriminate|]. reflexivity.
Qed.

Lemma hspace_no_hash s : forallb hspace s = true -> no_hash s = true.
Proof.
  unfold no_hash. induction s; [reflexivity|]. cbn [forallb existsb]. intros H.
  apply andb_true_iff in H. destruct H as [H1 H2].
  assert (E : N.eqb HASH a = false).
  { apply N.eqb_neq. intros <-. discriminate. }
  rewrite E. cbn [orb]. auto.
Qed.

(* ---- TrimSpace ---- *)
Lemma hspace_space b : hspace b = true -> is_ascii_space b = true.
Proof.
  unfold hspace, is_ascii_space. intros H. apply orb_true_iff in H. destruct H as [H|H];
    apply N.eqb_eq in H; subst; reflexivity.
Qed.

Lemma drop_ws_hspace i x : forallb hspace i = true -> drop_ws (i ++ x) = drop_ws x.
Proof.
  induction i; simpl; auto. intros H. apply andb_true_iff in H. destruct H as [H1 H2].
  rewrite (hspace_space _ H1). auto.
Qed.

Lemma drop_ws_solid x : starts_solid x = true -> drop_ws x = x.
Proof. destruct x; simpl; auto. intros H. destruct (is_ascii_space n); [discriminate|reflexivity]. Qed.

Lemma forallb_rev {A} (f : A -> bool) l : forallb f (rev l) = forallb f l.
Proof.
  induction l; simpl; auto. rewrite forallb_app. simpl. rewrite IHl, andb_true_r. apply andb_comm.
Qed.

(* indentation and trailing blanks around a text that starts and ends with a solid character *)
Lemma trim_space_deco i x t :
  forallb hspace i = true -> forallb hspace t = true ->
  starts_solid x = true -> starts_solid (rev x) = true ->
  trim_space (i ++ x ++ t) = x.
Proof.
  intros Hi Ht Hs He. unfold trim_space.
  rewrite drop_ws_hspace by auto.
  destruct x as [|b x'].
  - simpl. replace (drop_ws t) with ([] : bytes); [reflexivity|].
    clear -Ht. induction t; simpl; auto. simpl in Ht. apply andb_true_iff in Ht. destruct Ht as [H1 H2].
    rewrite (hspace_space _ H1). auto.
  - rewrite (drop_ws_solid ((b :: x') ++ t)) by exact Hs.
    rewrite rev_app_distr. rewrite drop_ws_hspace by (rewrite forallb_rev; auto).
    rewrite drop_ws_solid by auto. apply rev_involutive.
Qed.

(* ---- one physical line ---- *)
Lemma clean_junk d : deco_ok d = true -> clean_line (junk_line d) = [].
Proof.
  unfold deco_ok, clean_line, junk_line. intros H. apply andb_true_iff in H. destruct H as [Hi Ht].
  rewrite trim_after_nohash by (apply hspace_no_hash; auto).
  rewrite trim_after_nohash by (apply hspace_no_hash; auto).
  rewrite trim_after_comment, app_nil_r.
  rewrite <- (app_nil_l (d_trail d)) at 1. rewrite app_assoc, app_nil_r.
  replace (d_indent d ++ d_trail d) with (d_indent d ++ [] ++ d_trail d) by reflexivity.
  apply trim_space_deco; auto.
Qed.

Lemma clean_piece cont p d :
  deco_ok d = true -> no_hash p = true -> starts_solid p = true ->
  (cont = true \/ ends_solid p = true) ->
  clean_line (piece_line cont p d) = p ++ (if cont then [BSL] else []).
Proof.
  unfold deco_ok, clean_line, piece_line. intros H Hp Hs He. apply andb_true_iff in H. destruct H as [Hi Ht].
  rewrite trim_after_nohash by (apply hspace_no_hash; auto).
  rewrite trim_after_nohash by auto.
  rewrite trim_after_nohash by (destruct cont; reflexivity).
  rewrite trim_after_nohash by (apply hspace_no_hash; auto).
  rewrite trim_after_comment, app_nil_r.
  replace (d_indent d ++ p ++ (if cont then [BSL] else []) ++ d_trail d)
    with (d_indent d ++ (p ++ (if cont then [BSL] else [])) ++ d_trail d) by (rewrite <- !app_assoc; reflexivity).
  apply trim_space_deco; auto.
  - destruct p; simpl in *; auto. destruct cont; reflexivity.
  - rewrite rev_app_distr. destruct cont; simpl.
    + reflexivity.
    + destruct He as [He|He]; [discriminate|]. unfold ends_solid in He.
      destruct (rev p); [discriminate|]. simpl. apply andb_true_iff in He. destruct He as [He _].
      destruct (is_ascii_space n); [discriminate|reflexivity].
Qed.

(* ---- phrases ---- *)
Lemma phrases_junk js : forallb deco_ok js = true -> forall sb rest,
  phrases sb (map junk_line js ++ rest) = phrases sb rest.
Proof.
  induction js; simpl; auto. intros H sb rest. apply andb_true_iff in H. destruct H as [H1 H2].
  rewrite clean_junk by auto. auto.
Qed.

Lemma removelast_snoc {A} (l : list A) x : removelast (l ++ [x]) = l.
Proof. apply removelast_last. Qed.

Lemma ends_bsl_snoc p : ends_bsl (p ++ [BSL]) = true.
Proof. unfold ends_bsl. rewrite rev_app_distr. reflexivity. Qed.

Lemma phrases_cont p d sb rest :
  deco_ok d = true -> no_hash p = true -> starts_solid p = true ->
  phrases sb (piece_line true p d :: rest) = phrases (sb ++ p) rest.
Proof.
  intros. cbn [phrases]. rewrite clean_piece by auto.
  destruct (p ++ [BSL]) eqn:E; [destruct p; discriminate|]. rewrite <- E.
  rewrite ends_bsl_snoc, removelast_snoc. reflexivity.
Qed.

Lemma phrases_last p d sb rest :
  deco_ok d = true -> no_hash p = true -> starts_solid p = true -> ends_solid p = true ->
  phrases sb (piece_line false p d :: rest) = (sb ++ p) :: phrases [] rest.
Proof.
  intros Hd Hn Hs He. cbn [phrases]. rewrite clean_piece by auto. rewrite app_nil_r.
  destruct p as [|b p'] eqn:Ep; [discriminate|]. rewrite <- Ep in *.
  replace (ends_bsl p) with false; [subst; reflexivity|].
  unfold ends_bsl, ends_solid in *. destruct (rev p); auto.
  apply andb_true_iff in He. destruct He as [_ He]. destruct (N.eqb n BSL); [discriminate|reflexivity].
Qed.

Lemma lpiece_ok_inv p : lpiece_ok p = true ->
  forallb deco_ok (lp_junk p) = true /\ deco_ok (lp_deco p) = true /\ no_hash (lp_text p) = true
  /\ starts_solid (lp_text p) = true.
Proof. unfold lpiece_ok. intros H. repeat (apply andb_true_iff in H; destruct H as [H ?]). auto. Qed.

Lemma rev_head_cons {A} (f : A -> bool) (p : A) (l : list A) : l <> [] ->
  match rev (p :: l) with x :: _ => f x | [] => false end = match rev l with x :: _ => f x | [] => false end.
Proof.
  intros Hl. simpl. destruct (rev l) eqn:E.
  - exfalso. apply Hl. rewrite <- (rev_involutive l), E. reflexivity.
  - reflexivity.
Qed.

Lemma phrases_pieces ps : pieces_ok ps = true -> forall sb rest,
  phrases sb (render_pieces ps ++ rest) = (sb ++ phrase_of ps) :: phrases [] rest.
Proof.
  unfold pieces_ok. induction ps as [|p r IH]; intros H sb rest.
  - simpl in H. discriminate.
  - apply andb_true_iff in H. destruct H as [Hall Hlast]. simpl in Hall.
    apply andb_true_iff in Hall. destruct Hall as [Hp Hr].
    destruct (lpiece_ok_inv p Hp) as [Hj [Hd [Hn Hs]]].
    destruct r as [|q r'].
    + simpl in Hlast. simpl render_pieces. rewrite <- app_assoc. rewrite phrases_junk by auto.
      simpl app. rewrite phrases_last by auto. unfold phrase_of. simpl. rewrite app_nil_r. reflexivity.
    + change (render_pieces (p :: q :: r')) with
        (map junk_line (lp_junk p) ++ piece_line true (lp_text p) (lp_deco p) :: render_pieces (q :: r')).
      rewrite <- app_assoc. rewrite phrases_junk by auto.
      simpl app. rewrite phrases_cont by auto.
      rewrite IH.
      * unfold phrase_of. simpl. rewrite <- !app_assoc. reflexivity.
      * apply andb_true_iff. split; auto.
        rewrite <- Hlast. symmetry. apply rev_head_cons. discriminate.
Qed.

(* ---- name / expression ---- *)
Lemma split_first_def n b : name_ok n = true -> split_first SP (n ++ SP :: b) = Some (n, b).
Proof.
  unfold name_ok. induction n; intros H.
  - reflexivity.
  - cbn [existsb] in H. cbn [app split_first].
    destruct (N.eqb_spec a SP) as [->|Hne].
    + rewrite N.eqb_refl in H. cbn in H. discriminate.
    + assert (E : N.eqb SP a = false) by (apply N.eqb_neq; congruence).
      rewrite E in H. cbn [orb] in H. rewrite IHn; auto.
Qed.

(* The reader returns exactly the definitions, whatever the layout: comment lines, blank lines,
   trailing comments, indentation, and any cutting of a definition into backslash-continued lines
   (every piece starting with a solid character). *)
Theorem loader_layout L defs : layout_of L defs -> load_defs (render L) = (defs, O).
Proof.
  destruct L as [pss tail]. unfold layout_of, load_defs, render. simpl fst. simpl snd.
  intros [F Htail].
  assert (Hp : phrases [] (concat (map render_pieces pss) ++ map junk_line tail) = map def_of defs).
  { induction F as [|ps d pss' defs' [Hok [Hph _]] _ IH].
    - simpl. rewrite <- (app_nil_r (map junk_line tail)). rewrite phrases_junk by auto. reflexivity.
    - simpl. rewrite <- app_assoc. rewrite phrases_pieces by auto. simpl. rewrite Hph, IH. reflexivity. }
  rewrite Hp. clear Hp Htail.
  induction F as [|ps d pss' defs' [_ [_ Hn]] _ IH]; simpl; auto.
  rewrite IH. destruct d as [n b]. unfold def_of. simpl in *. rewrite split_first_def by auto. reflexivity.
Qed.

From Coq Require Import String.
Local Open Scope string_scope.
(* the conditions are satisfiable: the repository's example file *)
Example layout_example :
  exists L, layout_of L [(of_str "double", of_str "{sumi {0} {0}}")]
            /\ render L = [of_str "# test func"; of_str "double {sumi \ # twice"; of_str ""; of_str "   {0} {0}}  "].
Proof.
  exists ([[mkLP [mkDeco [] [] (Some (of_str " test func"))] (of_str "double {sumi ") (mkDeco [] [32%N] (Some (of_str " twice")));
            mkLP [mkDeco [] [] None] (of_str "{0} {0}}") (mkDeco [32;32;32]%N [32;32]%N None)]], []).
  split; [|reflexivity]. split; [|reflexivity]. repeat constructor.
Qed.
