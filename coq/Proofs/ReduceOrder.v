(* C03 — `reduce` with order-insensitive accumulators: when the row step of an AccumulatingGroup
   commutes, the aggregate is a function of the MULTISET of samples, hence independent of workers,
   readers, batching and file order (composition with the pipeline theorems in Props/C03.v).
   Instance: sum / count accumulators `{sumi {.} x}` (int64 wrap-around; a non-integer operand makes
   the accumulator the sticky marker), which is what the C03 correspondence runs. *)
From Coq Require Import List NArith ZArith Bool Lia Permutation String.
From RareV Require Import Base.Hex Base.Num Model.Agg Proofs.NumProof Proofs.AggMap Proofs.AggAccum.
Import ListNotations.

Section Generic.
  Variable E : Type.
  Variable eval : E -> bytes -> bytes -> (bytes -> bytes) -> bytes.
  Variable d : adef E.
  Let step := a_row_step E eval d.
  Let gk := a_group_key E eval d.

  Definition step_commutes : Prop := forall r m1 m2, step (step r m1) m2 = step (step r m2) m1.

  Lemma fold_step_perm : step_commutes -> forall l1 l2, Permutation l1 l2 ->
    forall r, fold_left step l1 r = fold_left step l2 r.
  Proof.
    intros HC l1 l2 HP. induction HP as [|x l l' _ IH|x y l|l l' l'' _ IH1 _ IH2]; intros r; cbn [fold_left].
    - reflexivity.
    - apply IH.
    - rewrite (HC r y x). reflexivity.
    - rewrite IH1. apply IH2.
  Qed.

  Lemma filter_perm {A} (f : A -> bool) l1 l2 : Permutation l1 l2 -> Permutation (filter f l1) (filter f l2).
  Proof.
    induction 1 as [|x l l' _ IH|x y l|l l' l'' _ IH1 _ IH2]; cbn [filter].
    - constructor.
    - destruct (f x); [constructor|]; exact IH.
    - destruct (f x), (f y); try apply Permutation_refl. apply perm_swap.
    - eapply Permutation_trans; eassumption.
  Qed.

  Theorem spec_accum_perm : step_commutes -> forall h1 h2, Permutation h1 h2 ->
    spec_accum E eval d h1 = spec_accum E eval d h2.
  Proof.
    intros HC h1 h2 HP. unfold spec_accum.
    rewrite (usort_perm (map (a_group_key E eval d) h1) (map (a_group_key E eval d) h2)) by (apply Permutation_map; exact HP).
    apply map_ext. intros g. f_equal.
    apply (fold_step_perm HC). apply filter_perm. exact HP.
  Qed.

  Theorem a_run_perm : step_commutes -> forall h1 h2, Permutation h1 h2 ->
    a_run E eval d h1 = a_run E eval d h2.
  Proof.
    intros HC h1 h2 HP. rewrite !(accum_fold_proof E eval d). apply spec_accum_perm; assumption.
  Qed.
End Generic.

(* ---- the sum / count instance ---- *)
Section SumCount.
  Variable bad : bytes.
  Hypothesis bad_not_int : atoi bad = None.

  Definition sumi (x y : bytes) : bytes :=
    match atoi x with
    | None => bad
    | Some a => match atoi y with None => bad | Some b => itoa (wrap64 (a + b)) end
    end.

  Lemma wrap64_in z : in_int64 (wrap64 z) = true.
  Proof.
    unfold in_int64, wrap64, min_int64, max_int64.
    assert (0 <= (z + 2 ^ 63) mod 2 ^ 64 < 2 ^ 64)%Z by (apply Z.mod_pos_bound; lia).
    apply andb_true_intro. split; apply Z.leb_le; lia.
  Qed.

  Lemma sumi_bad_l y : sumi bad y = bad.
  Proof. unfold sumi. rewrite bad_not_int. reflexivity. Qed.

  Lemma sumi_comm x a b : sumi (sumi x a) b = sumi (sumi x b) a.
  Proof.
    unfold sumi at 2 4.
    destruct (atoi x) as [zx|]; [|rewrite !sumi_bad_l; reflexivity].
    destruct (atoi a) as [za|] eqn:Ea, (atoi b) as [zb|] eqn:Eb; rewrite ?sumi_bad_l.
    - unfold sumi. rewrite !atoi_itoa by apply wrap64_in. rewrite Ea, Eb.
      f_equal. rewrite !wrap64_idem. f_equal. lia.
    - unfold sumi. rewrite atoi_itoa by apply wrap64_in. rewrite Eb. reflexivity.
    - unfold sumi. rewrite atoi_itoa by apply wrap64_in. rewrite Ea. reflexivity.
    - reflexivity.
  Qed.

  (* the definition the C03 correspondence uses (Corr/C03Case.v reduce_def): groups {1} {2},
     accumulators total = {sumi {.} {3}}, n = {sumi {.} 1} *)
  Definition reduce_def : adef expr :=
    mkAD [EMatch 1; EMatch 2]
         [(of_str "total", ESumi ECur (EMatch 3), of_str "0"); (of_str "n", ESumi ECur (ELit (of_str "1")), of_str "0")].

  Lemma eval_sumi a b m cur look :
    eval_expr bad (ESumi a b) m cur look = sumi (eval_expr bad a m cur look) (eval_expr bad b m cur look).
  Proof. reflexivity. Qed.

  Lemma reduce_step_commutes : step_commutes expr (eval_expr bad) reduce_def.
  Proof.
    intros r m1 m2. unfold a_row_step, reduce_def. cbn [a_cols a_step_cols].
    destruct r as [|x [|y r']]; cbn [nth set_nth eval_expr].
    - reflexivity.
    - fold (sumi x (get_match m1 3)). fold (sumi x (get_match m2 3)).
      fold (sumi (sumi x (get_match m1 3)) (get_match m2 3)). fold (sumi (sumi x (get_match m2 3)) (get_match m1 3)).
      rewrite sumi_comm. reflexivity.
    - fold (sumi x (get_match m1 3)). fold (sumi x (get_match m2 3)).
      fold (sumi (sumi x (get_match m1 3)) (get_match m2 3)). fold (sumi (sumi x (get_match m2 3)) (get_match m1 3)).
      fold (sumi y (of_str "1")). fold (sumi (sumi y (of_str "1")) (of_str "1")).
      rewrite sumi_comm. reflexivity.
  Qed.

  Theorem reduce_sum_count_perm : forall h1 h2, Permutation h1 h2 ->
    a_run expr (eval_expr bad) reduce_def h1 = a_run expr (eval_expr bad) reduce_def h2.
  Proof. intros h1 h2 HP. apply a_run_perm; [apply reduce_step_commutes|exact HP]. Qed.
End SumCount.
