(* C18 — RFC822Z ("02 Jan 06 15:04 -0700": two-digit year, no seconds) round trip: exactly the local
   years 1969..2068 come back, to the minute; outside that window the century is wrong. *)
From Coq Require Import List ZArith NArith Lia Bool String.
From RareV Require Import Base.Hex Base.Num Gen.GenTime Model.Calendar Model.TimeFmt Model.C18Check.
From RareV Require Import Proofs.CalendarSweep Proofs.CalendarProof Proofs.TimeFmtTok Proofs.TimeFmtProof Proofs.NumProof.
Import ListNotations.
Local Open Scope Z_scope.

(* two digits read by time.atoi *)
Definition year2_ok (x : Z) : bool :=
  match append_int x 2 with
  | [a; b] => match go_atoi [a; b] with Some y => y =? x | None => false end
  | _ => false
  end.
Lemma year2_sweep : all_range 0 100 year2_ok = true.
Proof. vm_compute. reflexivity. Qed.
Lemma year2 x : 0 <= x < 100 -> exists a b, append_int x 2 = [a; b] /\ go_atoi [a; b] = Some x.
Proof.
  intros H. pose proof (all_range_spec 0 100 year2_ok year2_sweep x ltac:(cbn; lia)) as E.
  unfold year2_ok in E. destruct (append_int x 2) as [|a [|b [|? ?]]]; try discriminate.
  destruct (go_atoi [a; b]) as [y|] eqn:G; [|discriminate]. apply Z.eqb_eq in E. subst y.
  exists a, b. auto.
Qed.

Lemma yy_of y : 1969 <= y <= 2068 ->
  0 <= Z.rem (Z.abs y) 100 < 100 /\
  (if 69 <=? Z.rem (Z.abs y) 100 then Z.rem (Z.abs y) 100 + 1900 else Z.rem (Z.abs y) 100 + 2000) = y.
Proof.
  intros H. rewrite Z.abs_eq by lia. rewrite Z.rem_mod_nonneg by lia.
  destruct (Z_lt_le_dec y 2000) as [L|G].
  - replace y with (y - 1900 + 19 * 100) at 1 2 3 4 by lia. rewrite Z.mod_add by lia.
    rewrite Z.mod_small by lia. split; [lia|].
    replace (69 <=? y - 1900) with true by (symmetry; apply Z.leb_le; lia). lia.
  - replace y with (y - 2000 + 20 * 100) at 1 2 3 4 by lia. rewrite Z.mod_add by lia.
    rewrite Z.mod_small by lia. split; [lia|].
    replace (69 <=? y - 2000) with false by (symmetry; apply Z.leb_gt; lia). lia.
Qed.

Lemma pt_year c r v st : 1969 <= c_year c <= 2068 ->
  parse_tok TYear r (fmt_tok c TYear ++ v) st = Some (v, set_year st (c_year c)).
Proof.
  intros H. cbn [fmt_tok]. destruct (yy_of _ H) as [Hr Hy].
  destruct (year2 _ Hr) as (a & b & -> & G). cbn [app parse_tok]. rewrite G, Hy. reflexivity.
Qed.

Lemma hd_year P c v : 1969 <= c_year c <= 2068 -> (forall x, is_digit x = true -> P x = true) ->
  hd_ok P (fmt_tok c TYear ++ v).
Proof. intros H HP. cbn [fmt_tok]. apply hd_int2; [apply (yy_of _ H)|exact HP]. Qed.

Definition toks_rfc822z : list tok := Eval vm_compute in toks_of "RFC822Z".

(* the parser state: no seconds *)
Definition final_st_min (c : civil) : pst :=
  mkpst (c_year c) (c_month c) (c_day c) (c_hour c) (c_min c) 0 0 false (c_off c) [].

Lemma rt_toks_rfc822z c : cok c -> 1969 <= c_year c <= 2068 ->
  parse_toks toks_rfc822z (format_toks c toks_rfc822z) pst0 = Some (final_st_min c).
Proof.
  intros H Hy. unfold toks_rfc822z.
  pose proof (days_in_month_le (c_year c) (c_month c)).
  destruct H as [? ? ? ? ? ? ? ? [? ?]].
  unfold format_toks; cbn [flat_map].
  step. (* 02 *)
  erewrite parse_toks_cons; [cbn [app] | apply (pt_lit_space_end []); [reflexivity | apply hd_month; [lia | exact letter_not_space]]].
  step. (* Jan *)
  erewrite parse_toks_cons; [cbn [app] | apply (pt_lit_space_end []); [reflexivity | apply hd_year; [lia | exact digit_not_space]]].
  erewrite parse_toks_cons; [cbn [app] | apply pt_year; lia].
  do 6 step.
  cbn [parse_toks]. unfold final_st_min. reflexivity.
Qed.

Lemma tok_rfc822z : tokenize (named_format (s2b "RFC822Z")) = toks_rfc822z.
Proof. vm_compute. reflexivity. Qed.

Definition lo_822 : Z := -31536000.     (* 1969-01-01T00:00:00 local *)
Definition hi_822 : Z := 3124224000.    (* 2069-01-01T00:00:00 local *)
Definition in_range_822 (t off : Z) : bool := (lo_822 <=? t + off) && (t + off <? hi_822).

Lemma in_range_822_year t off abbr : in_range_822 t off = true ->
  in_range t off = true /\ 1969 <= c_year (civil_of t 0 off abbr) <= 2068.
Proof.
  intros H. unfold in_range_822 in H. apply andb_true_iff in H as [Hlo Hhi].
  apply Z.leb_le in Hlo. apply Z.ltb_lt in Hhi.
  split.
  - unfold in_range, lo_local, hi_local. unfold lo_822, hi_822 in *. apply andb_true_iff. split; [apply Z.leb_le|apply Z.ltb_lt]; lia.
  - destruct (civil_of_fields t 0 off abbr) as (E & _). cbv zeta in E.
    set (c := civil_of t 0 off abbr) in *.
    apply civil_days_inverse_proof in E as (_ & _ & _ & Hy & _).
    assert (L0 : year_start 1969 * 86400 = lo_822) by reflexivity.
    assert (L1 : year_start 2069 * 86400 = hi_822) by reflexivity.
    pose proof (Z.div_mod (t + off) 86400 ltac:(lia)). pose proof (Z.mod_pos_bound (t + off) 86400 ltac:(lia)).
    split.
    + destruct (Z_lt_le_dec (c_year c) 1969) as [L|]; [|lia].
      pose proof (year_start_mono (c_year c + 1) 1969 ltac:(lia)). lia.
    + destruct (Z_lt_le_dec (c_year c) 2069) as [|L]; [lia|].
      pose proof (year_start_mono 2069 (c_year c) ltac:(lia)). lia.
Qed.

Lemma finish_final_min c : cok c ->
  finish (final_st_min c) =
  Some (mkparsed (wall_secs (c_year c) (c_month c) (c_day c) (c_hour c) (c_min c) 0) 0 (PZoff (c_off c))).
Proof.
  intros [? ? ? ? ? ? ? ? [Hm ?]]. pose proof (days_in_month_le (c_year c) (c_month c)).
  unfold finish, final_st_min.
  cbn [p_year p_month p_day p_hour p_min p_sec p_nsec p_z p_zoff p_zname].
  replace (c_month c <? 0) with false by (symmetry; apply Z.ltb_ge; lia).
  replace (c_day c <? 0) with false by (symmetry; apply Z.ltb_ge; lia).
  replace (c_day c <? 1) with false by (symmetry; apply Z.ltb_ge; lia).
  replace (days_in_month (c_year c) (c_month c) <? c_day c) with false by (symmetry; apply Z.ltb_ge; lia).
  cbn [orb].
  replace (c_off c =? -1) with false; [reflexivity|].
  symmetry. apply Z.eqb_neq. intros E. rewrite E in Hm. discriminate.
Qed.

Lemma wall_no_secs y m d h mi s : wall_secs y m d h mi 0 = wall_secs y m d h mi s - s.
Proof. unfold wall_secs. lia. Qed.

Lemma mod60_local t off : off mod 60 = 0 -> (t + off) mod 86400 mod 60 = t mod 60.
Proof.
  intros Ho.
  pose proof (Z.div_mod (t + off) 86400 ltac:(lia)).
  replace ((t + off) mod 86400) with (t + off + (- (1440 * ((t + off) / 86400))) * 60) by lia.
  rewrite Z.mod_add by lia.
  pose proof (Z.div_mod off 60 ltac:(lia)).
  replace (t + off) with (t + (off / 60) * 60) by lia. apply Z.mod_add. lia.
Qed.

Lemma cut_minute t off s : s = t mod 60 -> t + off - s - off = t - t mod 60.
Proof. intros ->. lia. Qed.

(* time(timeformat(t)) = t cut to the minute, for local years 1969..2068 *)
Theorem rt_rfc822z : forall t off abbr,
  in_range_822 t off = true -> rt_offset off = true ->
  exists p, parse_layout (named_format (s2b "RFC822Z")) (format_layout (named_format (s2b "RFC822Z")) (civil_of t 0 off abbr)) = Some p /\
            forall names lo fo, resolve names lo fo p = (t - t mod 60, off).
Proof.
  intros t off abbr Hr Ho.
  destruct (in_range_822_year t off abbr Hr) as [Hr' Hy].
  pose proof (civil_of_ok t off abbr Hr' Ho) as Hc.
  pose proof (civil_of_wall t 0 off abbr) as Hw. cbv zeta in Hw.
  destruct (civil_of_fields t 0 off abbr) as (_ & _ & _ & Es & _ & _ & Eo & _). cbv zeta in Es, Eo.
  assert (Ho60 : off mod 60 = 0).
  { unfold rt_offset in Ho. apply andb_true_iff in Ho as [Ho _]. apply andb_true_iff in Ho as [Ho _]. apply Z.eqb_eq in Ho. exact Ho. }
  rewrite (mod60_local t off Ho60) in Es.
  generalize dependent (civil_of t 0 off abbr). intros c Hy Hc Hw Es Eo.
  unfold parse_layout, format_layout.
  rewrite tok_rfc822z, (rt_toks_rfc822z c Hc Hy), (finish_final_min c Hc).
  eexists. split; [reflexivity|]. intros names lo fo. unfold resolve. cbn [r_zone r_wall].
  rewrite (wall_no_secs _ _ _ _ _ (c_sec c)), Hw, Eo. f_equal. apply cut_minute. exact Es.
Qed.

(* on the functions of funcsTime.go *)
Theorem roundtrip_kf_rfc822z : forall fmt t off abbr names lo fo,
  upper fmt = s2b "RFC822Z" -> in_range_822 t off = true -> rt_offset off = true ->
  kf_time (kf_timeformat (itoa t) fmt off abbr) fmt names lo fo = itoa (t - t mod 60).
Proof.
  intros fmt t off abbr names lo fo Hf Hr Ho.
  assert (E : named_format fmt = named_format (s2b "RFC822Z")).
  { rewrite (named_format_upper fmt), Hf. reflexivity. }
  unfold kf_timeformat.
  rewrite atoi_itoa by (eapply in_range_int64; [apply (in_range_822_year t off abbr Hr)|exact Ho]).
  destruct (rt_rfc822z t off abbr Hr Ho) as (p & Hp & Hres).
  unfold kf_time. rewrite E, Hp, (Hres names lo fo). reflexivity.
Qed.

(* outside the window the century is lost: 2069-01-01 comes back as 1969-01-01, 1968-12-31 23:59 as 2068-12-31 23:59 *)
Theorem rfc822z_refuted_outside :
  kf_time (kf_timeformat (s2b "3124224000") (s2b "RFC822Z") 0 (s2b "UTC")) (s2b "RFC822Z") [] 0 0 = s2b "-31536000" /\
  kf_time (kf_timeformat (s2b "-31536060") (s2b "RFC822Z") 0 (s2b "UTC")) (s2b "RFC822Z") [] 0 0 = s2b "3124223940".
Proof. vm_compute. split; reflexivity. Qed.
