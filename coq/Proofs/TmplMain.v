(* Print/parse: compiling the printed form of an admissible concrete tree yields the normal form
   of the tree it denotes, with no errors; and the error clauses around printed trees. *)
From Coq Require Import List NArith ZArith Bool Lia Arith.
From RareV Require Import Base.Res Base.Hex Base.Num Model.IsSpace Model.Tmpl Model.TmplPrint
  Proofs.TmplFuel Proofs.TmplEsc Proofs.TmplCopy Proofs.TmplTree.
Import ListNotations.
Local Open Scope N_scope.

(* ---- absorb / merge ---- *)
Definition is_lit (p : piece) : bool := match p with PLit _ => true | _ => false end.

Lemma absorb_one_lit st sb s : absorb st sb [PLit s] = (st, sb ++ s).
Proof. reflexivity. Qed.
Lemma absorb_one st sb p : is_lit p = false -> absorb st sb [p] = (st ++ flush sb ++ [p], []).
Proof. intros H. destruct p; try discriminate H; reflexivity. Qed.
Lemma absorb_cons st sb p ps :
  absorb st sb (p :: ps) = absorb (fst (absorb st sb [p])) (snd (absorb st sb [p])) ps.
Proof. destruct p; reflexivity. Qed.
Lemma merge_eq t : merge t = fst (absorb [] [] t) ++ flush (snd (absorb [] [] t)).
Proof. unfold merge. destruct (absorb [] [] t). reflexivity. Qed.

(* stages already emitted are not touched again *)
Lemma absorb_prefix : forall ps st0 st sb,
  absorb (st0 ++ st) sb ps = (st0 ++ fst (absorb st sb ps), snd (absorb st sb ps)).
Proof.
  induction ps as [|p r IH]; intros st0 st sb; cbn [absorb]; auto.
  destruct p; try apply IH; rewrite <- app_assoc; apply IH.
Qed.

Lemma simple_var_not_lit w : is_lit (simple_var w) = false.
Proof. unfold simple_var. destruct (atoi w); reflexivity. Qed.
Lemma normp_simple_var w : normp (simple_var w) = simple_var w.
Proof. unfold simple_var. destruct (atoi w); reflexivity. Qed.

Section Main.
  Variable fixed : bool.
  Variable fs : fenv.
  Let cmp := compile_gen fixed fs.

  (* ---- scanning text that contains none of backslash and braces ---- *)
  Lemma scan_safe rec : forall s i start depth sb stages errs rest, safe_str s = true ->
    scan fixed fs rec i start depth sb stages errs (s ++ rest)
    = scan fixed fs rec (i + N.of_nat (length s)) start depth (sb ++ s) stages errs rest.
  Proof.
    induction s as [|c r IH]; intros i start depth sb stages errs rest H.
    - cbn. rewrite app_nil_r, N.add_0_r. reflexivity.
    - cbn [safe_str forallb] in H. apply andb_true_iff in H as [Hc Hr].
      destruct (safe_inv c Hc) as (H1 & H2 & H3 & _). apply N.eqb_neq in H1, H2, H3.
      cbn [app]. rewrite scan_plain by assumption. rewrite IH by assumption. f_equal.
      + cbn [length]. lia.
      + rewrite <- app_assoc. reflexivity.
  Qed.

  (* ---- a whole statement at depth 0 ---- *)
  Lemma scan_stmt rec c i start sb stages errs rest :
    is_stmt c = true -> wf_piece c = true ->
    scan fixed fs rec i start 0 sb stages errs (print_piece c ++ rest)
    = match statement fs rec i (stmt_body c) with
      | Ok (ps, es) =>
          scan fixed fs rec (i + N.of_nat (length (print_piece c))) i 0 [] ((stages ++ flush sb) ++ ps) (errs ++ es) rest
      | Panic => Panic
      end.
  Proof.
    intros Hs Hwf. destruct (good_all c Hwf) as (_ & HbO & _).
    rewrite print_stmt by assumption. cbn [app scan].
    change (123 =? 92) with false. change (123 =? 123) with true. cbn iota.
    rewrite <- app_assoc. change 1%nat with (1 + 0)%nat.
    rewrite (okO_copy fixed fs rec (stmt_body c) 0 0) by assumption.
    cbn [app scan Nat.add]. change (125 =? 92) with false. change (125 =? 123) with false. change (125 =? 125) with true.
    cbn iota. destruct (statement fs rec i (stmt_body c)) as [[ps es]|]; [|reflexivity].
    f_equal. cbn [length]. rewrite app_length. cbn [length]. lia.
  Qed.

  Lemma compile_args_ok rec (T : carg -> tmpl) start : forall args,
    (forall a, In a args -> rec (argstr a) = Ok (T a, [])) ->
    compile_args rec start (map argstr args) = Ok (map T args, []).
  Proof.
    induction args as [|a r IH]; intros H; cbn [map compile_args]; auto.
    rewrite (H a (or_introl eq_refl)). cbn [rbind fst snd].
    rewrite IH by (intros; apply H; right; assumption). reflexivity.
  Qed.

  Lemma statement_var rec start pre q w post : wf_piece (CVar pre q w post) = true ->
    statement fs rec start (stmt_body (CVar pre q w post)) = Ok ([simple_var w], []).
  Proof. intros Hwf. unfold statement. rewrite split_var by assumption. reflexivity. Qed.

  Lemma statement_missing rec start pre qf f args post :
    wf_piece (CCall pre qf f args post) = true -> fs f = None ->
    statement fs rec start (stmt_body (CCall pre qf f args post)) = Ok ([PLit (err_lit f)], [(EMissingFunction, start)]).
  Proof.
    intros Hwf Hf. unfold statement. rewrite split_call by assumption.
    cbn [wf_piece] in Hwf. apply andb_true_iff in Hwf as [Hwf _]. apply andb_true_iff in Hwf as [_ Hne].
    destruct args as [|a r]; [discriminate|]. cbn [map]. rewrite Hf. reflexivity.
  Qed.

  Lemma statement_call rec start pre qf f args post chk (T : carg -> tmpl) :
    wf_piece (CCall pre qf f args post) = true -> fs f = Some chk ->
    (forall a, In a args -> rec (argstr a) = Ok (T a, [])) ->
    statement fs rec start (stmt_body (CCall pre qf f args post))
    = Ok ([PCall f (map T args)], match chk (map T args) with Some c => [(EFunc c, start)] | None => [] end).
  Proof.
    intros Hwf Hf HT. unfold statement. rewrite split_call by assumption.
    cbn [wf_piece] in Hwf. apply andb_true_iff in Hwf as [Hwf _]. apply andb_true_iff in Hwf as [_ Hne].
    destruct args as [|a r]; [discriminate|]. cbn [map]. rewrite Hf.
    change (argstr a :: map argstr r) with (map argstr (a :: r)).
    rewrite (compile_args_ok rec T start (a :: r)) by assumption. reflexivity.
  Qed.

  (* ---- the main induction ---- *)
  Definition MainP (c : cpiece) : Prop :=
    wf_piece c = true -> fn_ok fs c = true ->
    forall i start sb stages errs rest, exists start',
      scan fixed fs cmp i start 0 sb stages errs (print_piece c ++ rest)
      = scan fixed fs cmp (i + N.of_nat (length (print_piece c))) start' 0
          (snd (absorb stages sb [normp (erase_piece c)])) (fst (absorb stages sb [normp (erase_piece c)])) errs rest.
  Definition MainA (a : carg) : Prop :=
    wf_arg a = true -> fn_ok_arg fs a = true -> cmp (argstr a) = Ok (norm (erase_arg a), []).

  Lemma main_list cs : Forall MainP cs -> wf_tmpl cs = true -> fn_ok_tmpl fs cs = true ->
    forall i start sb stages errs rest, exists start',
      scan fixed fs cmp i start 0 sb stages errs (print cs ++ rest)
      = scan fixed fs cmp (i + N.of_nat (length (print cs))) start' 0
          (snd (absorb stages sb (map normp (erase cs)))) (fst (absorb stages sb (map normp (erase cs)))) errs rest.
  Proof.
    induction 1 as [|c r Hc Hr IH]; intros Hwf Hfn i start sb stages errs rest.
    - exists start. cbn. rewrite N.add_0_r. reflexivity.
    - cbn [wf_tmpl fn_ok_tmpl forallb] in Hwf, Hfn.
      apply andb_true_iff in Hwf as [Hw1 Hw2]. apply andb_true_iff in Hfn as [Hf1 Hf2].
      cbn [print erase map concat]. fold (print r). fold (erase r). rewrite <- app_assoc.
      destruct (Hc Hw1 Hf1 i start sb stages errs (print r ++ rest)) as [s1 E1]. rewrite E1.
      destruct (IH Hw2 Hf2 (i + N.of_nat (length (print_piece c))) s1
                  (snd (absorb stages sb [normp (erase_piece c)])) (fst (absorb stages sb [normp (erase_piece c)])) errs rest) as [s2 E2].
      rewrite E2. exists s2. rewrite (absorb_cons stages sb (normp (erase_piece c)) (map normp (erase r))).
      f_equal. rewrite app_length. lia.
  Qed.

  Lemma main_of_list cs : Forall MainP cs -> wf_tmpl cs = true -> fn_ok_tmpl fs cs = true ->
    cmp (print cs) = Ok (norm (erase cs), []).
  Proof.
    intros HF Hwf Hfn. unfold cmp. rewrite compile_unfold. fold cmp.
    rewrite <- (app_nil_r (print cs)).
    destruct (main_list cs HF Hwf Hfn 0 0 [] [] [] []) as [s E]. rewrite E.
    cbn [scan]. unfold norm. rewrite merge_eq. reflexivity.
  Qed.

  Lemma main_all : forall c, MainP c.
  Proof.
    apply (cpiece_ind2 MainP MainA).
    - (* CLit *) intros s Hwf _ i start sb stages errs rest. exists start.
      cbn [wf_piece] in Hwf. cbn [print_piece erase_piece normp]. rewrite absorb_one_lit. cbn [fst snd].
      apply scan_safe; assumption.
    - (* CVar *) intros pre q w post Hwf _ i start sb stages errs rest. exists i.
      rewrite scan_stmt by (reflexivity || assumption).
      rewrite statement_var by assumption.
      cbn [erase_piece]. rewrite normp_simple_var. rewrite absorb_one by apply simple_var_not_lit.
      cbn [fst snd]. rewrite app_nil_r, <- app_assoc. reflexivity.
    - (* CCall *) intros pre qf f args post HF Hwf Hfn i start sb stages errs rest. exists i.
      rewrite scan_stmt by (reflexivity || assumption).
      cbn [fn_ok] in Hfn. destruct (fs f) as [chk|] eqn:Hf; [|discriminate].
      apply andb_true_iff in Hfn as [Hchk Hfa].
      assert (Hargs : forallb wf_arg args = true).
      { cbn [wf_piece] in Hwf. apply andb_true_iff in Hwf as [_ Hwf]. exact Hwf. }
      rewrite (statement_call cmp i pre qf f args post chk (fun a => norm (erase_arg a))); try assumption.
      + destruct (chk (map (fun a => norm (erase_arg a)) args)); [discriminate|].
        cbn [erase_piece normp]. rewrite absorb_one by reflexivity. cbn [fst snd].
        rewrite map_map. rewrite app_nil_r, <- app_assoc. reflexivity.
      + intros a Ha. rewrite Forall_forall in HF. rewrite forallb_forall in Hargs, Hfa.
        apply HF; auto.
    - (* CArg *) intros sep q body HF Hwf Hfn. cbn [argstr erase_arg].
      cbn [wf_arg] in Hwf. apply andb_true_iff in Hwf as [Hwf _]. apply andb_true_iff in Hwf as [_ Hbody].
      cbn [fn_ok_arg] in Hfn.
      apply main_of_list; assumption.
  Qed.

  (* compile (print c) = norm (erase c), no errors *)
  Theorem print_parse cs : wf_tmpl cs = true -> fn_ok_tmpl fs cs = true ->
    cmp (print cs) = Ok (norm (erase cs), []).
  Proof.
    intros. apply main_of_list; auto. apply Forall_forall. intros; apply main_all.
  Qed.

  (* state after a printed tree, scanning on *)
  Lemma scan_tree cs : wf_tmpl cs = true -> fn_ok_tmpl fs cs = true ->
    forall i start sb stages errs rest, exists start',
      scan fixed fs cmp i start 0 sb stages errs (print cs ++ rest)
      = scan fixed fs cmp (i + N.of_nat (length (print cs))) start' 0
          (snd (absorb stages sb (map normp (erase cs)))) (fst (absorb stages sb (map normp (erase cs)))) errs rest.
  Proof.
    intros. apply main_list; auto. apply Forall_forall. intros; apply main_all.
  Qed.

  (* ---- error clauses ---- *)
  Lemma norm_split cs : fst (absorb [] [] (map normp (erase cs))) ++ flush (snd (absorb [] [] (map normp (erase cs)))) = norm (erase cs).
  Proof. unfold norm. rewrite merge_eq. reflexivity. Qed.

  (* a second printed tree after a statement boundary: stages already emitted stay *)
  Lemma scan_tree_end cs : wf_tmpl cs = true -> fn_ok_tmpl fs cs = true ->
    forall i start stages errs,
      scan fixed fs cmp i start 0 [] stages errs (print cs) = Ok (stages ++ norm (erase cs), errs).
  Proof.
    intros Hwf Hfn i start stages errs. rewrite <- (app_nil_r (print cs)).
    destruct (scan_tree cs Hwf Hfn i start [] stages errs []) as [s E]. rewrite E. cbn [scan].
    rewrite <- (app_nil_r stages) at 1 2. rewrite absorb_prefix. cbn [fst snd].
    rewrite <- app_assoc. rewrite norm_split. reflexivity.
  Qed.

  Lemma ws_body_empty w : ws w = true -> split_args w = [].
  Proof.
    intros H. unfold split_args. rewrite <- (app_nil_r w). rewrite sp_skip_spaces by assumption. reflexivity.
  Qed.

  (* empty statement between two printed trees *)
  Theorem err_empty cs w cs' :
    wf_tmpl cs = true -> fn_ok_tmpl fs cs = true -> wf_tmpl cs' = true -> fn_ok_tmpl fs cs' = true -> ws w = true ->
    cmp (print cs ++ 123 :: w ++ 125 :: print cs')
    = Ok (norm (erase cs) ++ norm (erase cs'), [(EEmptyStatement, N.of_nat (length (print cs)))]).
  Proof.
    intros Hwf Hfn Hwf' Hfn' Hw. unfold cmp. rewrite compile_unfold. fold cmp.
    destruct (scan_tree cs Hwf Hfn 0 0 [] [] [] (123 :: w ++ 125 :: print cs')) as [s E]. rewrite E.
    cbn [scan]. change (123 =? 92) with false. change (123 =? 123) with true. cbn iota.
    rewrite norm_split.
    rewrite scan_safe by (apply ws_safe; assumption).
    cbn [scan app]. change (125 =? 92) with false. change (125 =? 123) with false. change (125 =? 125) with true. cbn iota.
    unfold statement. rewrite ws_body_empty by assumption.
    rewrite scan_tree_end by assumption. rewrite app_nil_r. rewrite N.add_0_l. reflexivity.
  Qed.

  Lemma scan_stays_open rec : forall q k i start sb stages errs, stays_open k q = true ->
    scan fixed fs rec i start (S k) sb stages errs q
    = Ok (stages ++ flush (sb ++ q), errs ++ [(EUnterminated, start)]).
  Proof.
    induction q as [|c r IH]; intros k i start sb stages errs H.
    - cbn. rewrite app_nil_r. reflexivity.
    - cbn [stays_open] in H. destruct (c =? 92) eqn:H92; [discriminate|].
      cbn [scan]. rewrite H92.
      destruct (c =? 123) eqn:H123.
      { apply N.eqb_eq in H123. subst c. rewrite IH by assumption. rewrite <- app_assoc. reflexivity. }
      destruct (c =? 125) eqn:H125.
      { apply N.eqb_eq in H125. subst c. destruct k as [|k']; [discriminate|].
        rewrite IH by assumption. rewrite <- app_assoc. reflexivity. }
      rewrite IH by assumption. rewrite <- app_assoc. reflexivity.
  Qed.

  (* a statement that is opened after a printed tree and never closed *)
  Theorem err_unterminated cs q :
    wf_tmpl cs = true -> fn_ok_tmpl fs cs = true -> stays_open 0 q = true ->
    cmp (print cs ++ 123 :: q)
    = Ok (norm (erase cs) ++ flush q, [(EUnterminated, N.of_nat (length (print cs)))]).
  Proof.
    intros Hwf Hfn Hq. unfold cmp. rewrite compile_unfold. fold cmp.
    destruct (scan_tree cs Hwf Hfn 0 0 [] [] [] (123 :: q)) as [s E]. rewrite E.
    cbn [scan]. change (123 =? 92) with false. change (123 =? 123) with true. cbn iota.
    rewrite norm_split. rewrite scan_stays_open by assumption. rewrite N.add_0_l. reflexivity.
  Qed.

  (* a call whose head is not a registered function: the arguments are not compiled *)
  Theorem err_missing cs pre qf f args post cs' :
    wf_tmpl cs = true -> fn_ok_tmpl fs cs = true -> wf_tmpl cs' = true -> fn_ok_tmpl fs cs' = true ->
    wf_piece (CCall pre qf f args post) = true -> fs f = None ->
    cmp (print cs ++ print_piece (CCall pre qf f args post) ++ print cs')
    = Ok (norm (erase cs) ++ PLit (err_lit f) :: norm (erase cs'), [(EMissingFunction, N.of_nat (length (print cs)))]).
  Proof.
    intros Hwf Hfn Hwf' Hfn' Hc Hf. unfold cmp. rewrite compile_unfold. fold cmp.
    destruct (scan_tree cs Hwf Hfn 0 0 [] [] [] (print_piece (CCall pre qf f args post) ++ print cs')) as [s E]. rewrite E.
    rewrite scan_stmt by (reflexivity || assumption).
    rewrite statement_missing by assumption.
    rewrite norm_split. rewrite scan_tree_end by assumption.
    rewrite <- app_assoc. rewrite N.add_0_l. reflexivity.
  Qed.

  (* errors inside an argument are reported at their offset within the argument plus the offset
     of the enclosing statement *)
  Theorem err_rebase cs f chk x tx ex :
    wf_tmpl cs = true -> fn_ok_tmpl fs cs = true ->
    item_ok false f = true -> fs f = Some chk -> chk [tx] = None ->
    okO 0 x = true -> okS 0 false x = true -> x <> [] ->
    cmp x = Ok (tx, ex) ->
    cmp (print cs ++ 123 :: f ++ 32 :: x ++ [125])
    = Ok (norm (erase cs) ++ [PCall f [tx]], rebase (N.of_nat (length (print cs))) ex).
  Proof.
    intros Hwf Hfn Hi Hf Hchk HxO HxS Hne Hx. unfold cmp. rewrite compile_unfold. fold cmp.
    destruct (scan_tree cs Hwf Hfn 0 0 [] [] [] (123 :: f ++ 32 :: x ++ [125])) as [s E]. rewrite E.
    destruct (item_ok_inv _ _ Hi) as [Hfs Hfb]. destruct (Hfb eq_refl) as [Hfne Hfns].
    cbn [scan]. change (123 =? 92) with false. change (123 =? 123) with true. cbn iota.
    rewrite norm_split.
    assert (Hbody : okO 0 (f ++ 32 :: x) = true).
    { rewrite okO_safe by assumption. cbn [okO]. change (32 =? 92) with false. change (32 =? 123) with false.
      change (32 =? 125) with false. cbn iota. exact HxO. }
    replace (f ++ 32 :: x ++ [125]) with ((f ++ 32 :: x) ++ [125]) by (rewrite <- app_assoc; reflexivity).
    change 1%nat with (1 + 0)%nat.
    rewrite (okO_copy fixed fs cmp (f ++ 32 :: x) 0 0) by assumption.
    cbn [app scan Nat.add]. change (125 =? 92) with false. change (125 =? 123) with false. change (125 =? 125) with true.
    cbn iota.
    assert (Hsplit : split_args (f ++ 32 :: x) = [f; x]).
    { unfold split_args.
      rewrite (sp_bare_item f [] (32 :: x)); [| rewrite <- (app_nil_r f); rewrite okS_word by assumption; reflexivity | assumption | reflexivity ].
      rewrite sp_skip_space by reflexivity.
      pose proof (sp_bare_item x ([] ++ [f]) [] HxS Hne eq_refl) as Hb. rewrite app_nil_r in Hb.
      rewrite Hb. reflexivity. }
    unfold statement. rewrite Hsplit, Hf. cbn [compile_args]. rewrite Hx. cbn [rbind fst snd].
    rewrite Hchk. cbn [scan]. rewrite !app_nil_r. rewrite N.add_0_l. reflexivity.
  Qed.
End Main.
