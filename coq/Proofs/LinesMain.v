From Coq Require Import List NArith ZArith Lia Bool Arith.
From RareV Require Import Base.Hex Model.Lines Proofs.LinesProof Proofs.LinesErr Proofs.LinesTotal.
Import ListNotations.

Lemma stable_map toks (h : list (list byte)) :
  (forall t c, In (t, c) toks -> read_tok h t = c) ->
  map (fun tc : token * list byte => read_tok h (fst tc)) toks = map snd toks.
Proof.
  induction toks as [|[t c] r IH]; intros H; [reflexivity|]. cbn [map fst snd]. f_equal.
  - apply H. left. reflexivity.
  - apply IH. intros t' c' Hin. apply H. right. exact Hin.
Qed.

Lemma scan_all_SI str fuel : forall s acc toks sf, WF s -> SI str s ->
  scan_all fuel s acc = Some (toks, sf) -> SI str sf.
Proof.
  induction fuel as [|fuel IH]; intros s0 acc toks sf Hwf HI E; [discriminate|].
  cbn [scan_all] in E. destruct (scan s0) as [[[t|] s']|] eqn:Es; [| |discriminate].
  - destruct (scan_ok _ _ _ Hwf Es) as (_ & _ & Hwf' & _).
    eapply IH; [exact Hwf'|eapply scan_SI; eauto|exact E].
  - inversion E; subst. eapply scan_SI; eauto.
Qed.

Theorem C04_scanner_proof bs scr str :
  exists o, run bs scr str = Some o /\
    o_ret o = lines_spec (o_del o) /\
    o_end o = o_ret o /\
    o_nerr o = expected_nerr scr /\
    o_rae o = 0 /\
    (exists rest, str = o_del o ++ rest).
Proof.
  pose proof (run_total bs scr str) as Ht. unfold run in *.
  destruct (scan_all _ _ _) as [[toks s]|] eqn:E; [|congruence].
  eexists. split; [reflexivity|]. cbn [o_ret o_end o_nerr o_rae o_del].
  split; [eapply C04_lines_exact; eauto|].
  split; [apply stable_map; eapply C04_tokens_stable; eauto|].
  destruct (C04_error_once _ _ _ _ _ _ E) as (H1 & H2).
  split; [exact H1|]. split; [exact H2|].
  exists (stream s). symmetry.
  apply (scan_all_SI str _ _ _ _ _ (init_WF bs scr str)) in E; [exact E|reflexivity].
Qed.

Theorem C04_check_sound_proof bs scr str o : run bs scr str = Some o -> C04_check bs scr o = true.
Proof.
  intros H. destruct (C04_scanner_proof bs scr str) as (o' & H' & A & B & C & D & _).
  rewrite H in H'. inversion H'; subst o'. unfold C04_check.
  rewrite B, A, C, D. rewrite !Nat.eqb_refl.
  assert (forall l, lines_eqb l l = true) as R.
  { intros l. apply (list_eqb_eq bytes_eqb bytes_eqb_eq). reflexivity. }
  rewrite !R. reflexivity.
Qed.
