(* C07 — the law of the table under any history of Sample and (repaired) Trim calls. *)
From Coq Require Import List NArith ZArith Bool Lia Sorted Permutation.
From RareV Require Import Base.Hex Base.Num Model.Agg Proofs.AggMap Proofs.AggCounter Proofs.AggTableWf
  Proofs.AggTable Proofs.AggTableTot Proofs.AggTrim Proofs.AggLawDefs Proofs.AggLawSample Proofs.AggLawRecompute
  Proofs.AggLawMeaning.
Import ListNotations.
Local Open Scope Z_scope.

Lemma cs_ok_nil : cs_ok [].
Proof. split; [constructor | intros r c []]. Qed.
Lemma rebuild_nil : rebuild [] 0%N = t0.
Proof. reflexivity. Qed.

(* the repaired Trim, whatever order Go's map range visits the columns in *)
Theorem trimf_rebuild : forall pred order cs e, cs_ok cs ->
  Permutation order (map fst (t_cols (rebuild cs e))) ->
  trimf_order pred order (rebuild cs e) = rebuild (cs_trim pred cs) e.
Proof.
  intros pred order cs e Hok HP. unfold trimf_order.
  destruct (rebuild_wf cs e Hok) as [Hwf _].
  assert (Hc : cells_of (trim_order pred order (rebuild cs e)) = cs_trim pred cs).
  { rewrite (trim_cells_proof pred order _ Hwf HP). apply cells_spec_trim. }
  rewrite recompute_rebuild.
  - rewrite Hc, trim_order_errors. reflexivity.
  - rewrite Hc. intros r cells Hin. destruct (cs_ok_trim pred cs Hok) as [_ H]. apply (H r cells Hin).
Qed.

(* = the property's full statement of Trim *)
Theorem trimf_spec : forall pred order cs e, cs_ok cs ->
  Permutation order (map fst (t_cols (rebuild cs e))) ->
  trimf_order pred order (rebuild cs e) = spec_trim pred (rebuild cs e).
Proof. intros. rewrite trimf_rebuild by assumption. apply rebuild_spec_trim. assumption. Qed.

Lemma t_sample_rebuild d cs e s : cs_ok cs ->
  t_sample d (rebuild cs e) s = (let st := cs_op d (cs, e) (TSample s) in rebuild (fst st) (snd st)) /\
  cs_ok (fst (cs_op d (cs, e) (TSample s))).
Proof.
  intros Hok. unfold t_sample, cs_op. cbn [fst snd]. destruct (parse3 d s) as [[[c r] v]|]; cbn [fst snd].
  - split; [apply rebuild_sample; exact Hok | apply cs_ok_sample; exact Hok].
  - split; [reflexivity | exact Hok].
Qed.

Theorem table_ops_gen : forall d ops cs e, cs_ok cs -> ops_valid d (rebuild cs e) ops ->
  fold_left (t_op d) ops (rebuild cs e)
    = rebuild (fst (fold_left (cs_op d) ops (cs, e))) (snd (fold_left (cs_op d) ops (cs, e))) /\
  cs_ok (fst (fold_left (cs_op d) ops (cs, e))).
Proof.
  intros d ops. induction ops as [|o ops IH]; intros cs e Hok Hv; cbn [fold_left].
  - split; [reflexivity | exact Hok].
  - cbn [ops_valid] in Hv. destruct Hv as [Ho Hv]. destruct o as [s|pred order].
    + destruct (t_sample_rebuild d cs e s Hok) as [E Hok']. cbn [t_op] in *. cbv zeta in E.
      rewrite E in *. destruct (cs_op d (cs, e) (TSample s)) as [cs' e']. cbn [fst snd] in *.
      apply IH; assumption.
    + cbn [t_op cs_op fst snd] in *. rewrite (trimf_rebuild pred order cs e Hok Ho) in *.
      apply IH; [apply cs_ok_trim; exact Hok | exact Hv].
Qed.

(* C07_table_ops *)
Theorem table_ops_proof : forall d ops, ops_valid d t0 ops ->
  t_ops d ops = rebuild (fst (cs_ops d ops)) (snd (cs_ops d ops)) /\ cs_ok (fst (cs_ops d ops)).
Proof.
  intros d ops Hv. unfold t_ops, cs_ops. pose proof (table_ops_gen d ops [] 0%N cs_ok_nil) as H.
  rewrite rebuild_nil in H. apply H. exact Hv.
Qed.

(* the visiting orders do not matter: two valid histories with the same calls give the same table *)
Fixpoint same_calls (a b : list top) : Prop :=
  match a, b with
  | [], [] => True
  | TSample x :: a', TSample y :: b' => x = y /\ same_calls a' b'
  | TTrim p _ :: a', TTrim q _ :: b' => (forall c r v, p c r v = q c r v) /\ same_calls a' b'
  | _, _ => False
  end.
Lemma cs_trim_ext p q cs : (forall c r v, p c r v = q c r v) -> cs_trim p cs = cs_trim q cs.
Proof.
  intros H. unfold cs_trim. f_equal. apply map_ext. intros [r cells]. cbn [fst snd]. f_equal.
  apply filter_ext. intros [c v]. cbn [fst snd]. rewrite H. reflexivity.
Qed.
Lemma cs_ops_same d a : forall b st, same_calls a b -> fold_left (cs_op d) a st = fold_left (cs_op d) b st.
Proof.
  induction a as [|x a IH]; intros [|y b] st H; cbn [same_calls] in H; try contradiction; [reflexivity | destruct x; contradiction |].
  destruct x as [s|p o], y as [s'|q o']; try contradiction; destruct H as [H1 H2]; cbn [fold_left].
  - subst. apply IH. exact H2.
  - cbn [cs_op]. rewrite (cs_trim_ext p q (fst st) H1). apply IH. exact H2.
Qed.
Theorem table_order_irrelevant : forall d a b, same_calls a b -> ops_valid d t0 a -> ops_valid d t0 b -> t_ops d a = t_ops d b.
Proof.
  intros d a b H Va Vb. destruct (table_ops_proof d a Va) as [-> _]. destruct (table_ops_proof d b Vb) as [-> _].
  unfold cs_ops. rewrite (cs_ops_same d a b _ H). reflexivity.
Qed.

(* ---------- the executable model of the correspondence (columns visited in key order) ---------- *)
Lemma scan_opm d ops : forall cs e, cs_ok cs ->
  scan (t_opm d) ops (rebuild cs e) = map (fun st : cellmap * N => rebuild (fst st) (snd st)) (scan (cs_op d) ops (cs, e)).
Proof.
  induction ops as [|o ops IH]; intros cs e Hok; cbn [scan map fst snd]; [reflexivity|]. f_equal.
  destruct o as [s|pred order].
  - destruct (t_sample_rebuild d cs e s Hok) as [E Hok']. cbn [t_opm]. cbv zeta in E. rewrite E.
    destruct (cs_op d (cs, e) (TSample s)) as [cs' e']. cbn [fst snd] in *. apply IH. exact Hok'.
  - cbn [t_opm cs_op fst snd]. unfold trimf. rewrite (trimf_rebuild pred _ cs e Hok (Permutation_refl _)).
    apply IH. apply cs_ok_trim. exact Hok.
Qed.

(* ---------- statements about reachable tables ---------- *)
Theorem table_law_proof : forall d ops, ops_valid d t0 ops ->
  let t := t_ops d ops in let cs := cells_of t in
  cs_ok cs /\ t = rebuild cs (t_errors t) /\
  (forall r cells sm, In (r, (cells, sm)) (t_rows t) -> sm = wrap64 (zsum (map snd cells))) /\
  (forall c, afind c (t_cols t) = if mem c (allcols cs) then Some (wrap64 (colsum c cs)) else None) /\
  (forall c, In c (map fst (t_cols t)) <-> exists r cells, In (r, cells) cs /\ In c (map fst cells)) /\
  t_sum t = wrap64 (zsum (map (fun rw : bytes * amap Z => zsum (map snd (snd rw))) cs)).
Proof.
  intros d ops Hv. destruct (table_ops_proof d ops Hv) as [E Hok]. cbv zeta.
  set (cs0 := fst (cs_ops d ops)) in *. set (e0 := snd (cs_ops d ops)) in *. rewrite E.
  rewrite cells_of_rebuild. destruct (rebuild_meaning cs0 e0 Hok) as (M1 & M2 & M3 & M4 & M5). cbv zeta in *.
  split; [exact Hok|]. split; [rewrite M5; reflexivity|]. split; [intros r cells sm Hin; apply (M1 r cells sm Hin)|].
  split; [exact M2|]. split; [exact M3|]. apply rebuild_sum. exact Hok.
Qed.

Theorem trim_full_proof : forall d ops pred order, ops_valid d t0 ops ->
  let t := t_ops d ops in Permutation order (map fst (t_cols t)) ->
  trimf_order pred order t = spec_trim pred t.
Proof.
  intros d ops pred order Hv. destruct (table_ops_proof d ops Hv) as [E Hok]. cbv zeta. rewrite E.
  intros HP. apply trimf_spec; assumption.
Qed.
