(* C20 — what BufferedTerm.Close prints, seen on the reference terminal: the same rows the live
   writer leaves (with ONLCR, as a tty in its default mode has). *)
From Coq Require Import List NArith ZArith Bool Arith Lia.
From RareV Require Import Base.Hex Base.Res Gen.GenTerm Model.Trim Model.Term.
From RareV Require Import Proofs.TrimProof Proofs.TermEmu Proofs.TermMain Proofs.TrimStore.
Import ListNotations.

Section Buf.
Variable tc : tcfg.
Hypothesis Honl : onlcr tc = true.

Lemma run_lines : forall ls sc,
  ccol sc = 0 ->
  (forall t, In t ls -> wf_text t = true /\ length (visible t) <= width tc) ->
  (forall l, crow sc <= l -> nth l (rows sc) [] = []) ->
  exists sc', run tc (sc, Ground) (flat_map (fun t => t ++ [10%N]) ls) = (sc', Ground) /\
    crow sc' = crow sc + length ls /\ ccol sc' = 0 /\ cvis sc' = cvis sc /\ hides sc' = hides sc /\
    forall l, nth l (rows sc') [] =
              if l <? crow sc then nth l (rows sc) [] else visible (nth (l - crow sc) ls []).
Proof.
  induction ls as [|t r IH]; intros sc Hc Hok Hblank.
  - exists sc. split; [reflexivity|]. split; [cbn [length]; lia|]. split; [exact Hc|].
    split; [reflexivity|]. split; [reflexivity|].
    intros l. destruct (Nat.ltb_spec l (crow sc)); [reflexivity|].
    rewrite Hblank by lia. rewrite nth_nil. reflexivity.
  - destruct (Hok t (or_introl eq_refl)) as [Hwf Hfit].
    cbn [flat_map]. rewrite <- app_assoc, !run_app.
    rewrite (run_wf_text tc t WG sc Ground Hwf eq_refl). fold (visible t).
    destruct (prints_ext tc (visible t) sc) as (P1 & P2 & P3 & P4 & P5); [lia|].
    cbn zeta in P1, P2, P3, P4, P5.
    set (X := fold_left (print tc) (visible t) sc) in *.
    change (run tc (X, Ground) [10%N]) with (line_feed tc X, Ground).
    set (sc1 := line_feed tc X).
    assert (C1 : crow sc1 = S (crow sc)) by (subst sc1; cbn; lia).
    assert (R1 : forall l, nth l (rows sc1) [] =
                           if Nat.eqb l (crow sc) then visible t else nth l (rows sc) []).
    { intros l. subst sc1. cbn [rows line_feed]. rewrite P5.
      destruct (Nat.eqb l (crow sc)); [|reflexivity].
      rewrite Hblank by lia. rewrite Hc. apply overwrite_nil. }
    destruct (IH sc1) as (sc' & E & Q1 & Q2 & Q3 & Q4 & Q5).
    + subst sc1. cbn. rewrite Honl. reflexivity.
    + intros t' Ht'. apply Hok. right. exact Ht'.
    + intros l Hl. rewrite R1. rewrite C1 in Hl.
      destruct (Nat.eqb_spec l (crow sc)); [lia|]. apply Hblank. lia.
    + exists sc'. split; [exact E|]. split; [cbn [length]; lia|]. split; [exact Q2|].
      split; [rewrite Q3; subst sc1; cbn; exact P3|]. split; [rewrite Q4; subst sc1; cbn; exact P4|].
      intros l. rewrite Q5, C1, R1.
      destruct (Nat.ltb_spec l (S (crow sc))); destruct (Nat.ltb_spec l (crow sc)); try lia.
      * destruct (Nat.eqb_spec l (crow sc)); [lia | reflexivity].
      * assert (l = crow sc) by lia. subst l. rewrite Nat.eqb_refl, Nat.sub_diag. reflexivity.
      * replace (l - crow sc) with (S (l - S (crow sc))) by lia. reflexivity.
Qed.

End Buf.

(* spec-side facts about last_write *)
Lemma lw_from_in : forall l ups d,
  lw_from l ups d = d \/ In (l, lw_from l ups d) ups.
Proof.
  intros l. induction ups as [|[k t] r IH]; intros d; cbn [lw_from fold_left fst snd].
  - left. reflexivity.
  - destruct (IH (if Nat.eqb k l then t else d)) as [H|H].
    + fold (lw_from l r (if Nat.eqb k l then t else d)). rewrite H.
      destruct (Nat.eqb_spec k l); [subst; right; left; reflexivity | left; reflexivity].
    + right. right. exact H.
Qed.

Lemma last_write_in : forall l ups, last_write l ups = [] \/ In (l, last_write l ups) ups.
Proof. intros l ups. apply (lw_from_in l ups []). Qed.

Lemma max_from_ge : forall (ups : list (nat * text)) m k, m <= fold_left (fun m u => Nat.max m (fst u)) ups m /\
  (In k (map fst ups) -> k <= fold_left (fun m u => Nat.max m (fst u)) ups m).
Proof.
  induction ups as [|u r IH]; intros m k; cbn [fold_left map].
  - split; [lia | intros []].
  - destruct (IH (Nat.max m (fst u)) k) as [H1 H2]. split; [lia|].
    intros [<-|H]; [|apply H2; exact H].
    destruct (IH (Nat.max m (fst u)) (fst u)) as [H3 _]. lia.
Qed.

Lemma last_write_above : forall l ups, max_line ups < l -> last_write l ups = [].
Proof.
  intros l ups H. destruct (last_write_in l ups) as [E|E]; [exact E|].
  exfalso. destruct (max_from_ge ups 0 l) as [_ H2]. unfold max_line in H.
  assert (In l (map fst ups)) by (apply in_map_iff; eexists; split; [|exact E]; reflexivity).
  specialize (H2 H0). lia.
Qed.

(* Clause 2, on the screen: on a tty with ONLCR (either margin behaviour), what BufferedTerm
   prints on Close puts on every row l the same cells the live writer leaves there *)
Lemma C20_buffered_screen_proof : forall (tc : tcfg) (c : cfg) (ups : list (nat * text)) out v,
  onlcr tc = true ->
  (forall u, In u ups -> wf_text (snd u) = true /\
     length (visible (write_line_no_wrap (autotrim c) (cols c) (snd u))) <= width tc) ->
  bt_session (autotrim c) (cols c) ups = Ok (out, v) ->
  exists sc, run tc (scr0, Ground) out = (sc, Ground) /\
    (forall l, nth l (rows sc) [] = visible (write_line_no_wrap (autotrim c) (cols c) (last_write l ups))) /\
    crow sc = line_count 0 ups /\ ccol sc = 0 /\ cvis sc = true.
Proof.
  intros tc c ups out v Honl Hok B. rewrite C20_buffered_same_proof in B. inversion B; subst out v; clear B.
  set (g := fun l => write_line_no_wrap (autotrim c) (cols c) (last_write l ups)).
  set (n := line_count 0 ups).
  assert (Hfm : flat_map (fun l => g l ++ [10%N]) (seq 0 n)
                = flat_map (fun t => t ++ [10%N]) (map g (seq 0 n)))
    by (rewrite flat_map_map; reflexivity).
  change (flat_map _ (seq 0 n)) with (flat_map (fun l => g l ++ [10%N]) (seq 0 n)).
  rewrite Hfm.
  assert (Hg0 : g 0 = g 0) by reflexivity.
  assert (Hnil : write_line_no_wrap (autotrim c) (cols c) [] = [])
    by (unfold write_line_no_wrap; destruct (autotrim c); reflexivity).
  destruct (run_lines tc Honl (map g (seq 0 n)) scr0 eq_refl) as (sc & E & Q1 & Q2 & Q3 & _ & Q5).
  - intros t Ht. apply in_map_iff in Ht as (l & <- & _). subst g. cbn beta.
    destruct (last_write_in l ups) as [E|E].
    + rewrite E, Hnil. split; [reflexivity | cbn; lia].
    + destruct (Hok _ E) as [H1 H2]. cbn [snd] in H1, H2. split; [apply wlnw_wf; exact H1 | exact H2].
  - intros l _. apply nth_nil.
  - exists sc. split; [exact E|]. split; [|split; [|split]].
    + intros l. rewrite Q5. cbn [crow scr0]. rewrite Nat.sub_0_r.
      change (l <? 0) with false. cbn iota.
      destruct (Nat.lt_ge_cases l n) as [Hl|Hl].
      * rewrite (nth_indep _ [] (g 0)) by (rewrite map_length, seq_length; exact Hl).
        rewrite map_nth, seq_nth by exact Hl. reflexivity.
      * rewrite nth_overflow by (rewrite map_length, seq_length; exact Hl).
        assert (Hlw : last_write l ups = []).
        { destruct ups as [|u r]; [reflexivity|]. apply last_write_above.
          subst n. unfold line_count in Hl. lia. }
        rewrite Hlw, Hnil. reflexivity.
    + rewrite Q1, map_length, seq_length. reflexivity.
    + exact Q2.
    + rewrite Q3. reflexivity.
Qed.

(* the boolean form of the trim clauses accepts the model's own cut *)
Lemma prefix_b_of : forall a b, is_prefix a b -> prefix_b a b = true.
Proof.
  induction a as [|x a IH]; intros b [rest H]; [reflexivity|].
  subst b. cbn. rewrite N.eqb_refl. cbn. apply IH. exists rest. reflexivity.
Qed.

Lemma C20_check_trim_sound : forall c s, C20_check_trim c s (trim c s) = true.
Proof.
  intros c s. unfold C20_check_trim.
  rewrite prefix_b_of by apply trim_go_prefix. cbn [andb].
  unfold trim, visible. rewrite trim_go_visible, firstn_length.
  assert (H1 : (Nat.min (Z.to_nat c) (length (visible_go false s)) <=? Z.to_nat c) = true)
    by (apply Nat.leb_le; lia).
  rewrite H1, Nat.eqb_refl. cbn [andb]. rewrite andb_true_r.
  destruct (trim_go_complete s false (Z.to_nat c)) as [E|E].
  - rewrite E. reflexivity.
  - rewrite E. apply orb_true_iff. right. apply (proj2 (list_eqb_eq N.eqb N.eqb_eq _ _)). reflexivity.
Qed.
