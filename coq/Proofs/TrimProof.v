(* C20 — proofs about WriteLineNoWrap (Model/Trim.v): prefix, width bound, exact cut,
   never inside a colour sequence, well-formedness preserved. *)
From Coq Require Import List NArith ZArith Bool Arith Lia.
From RareV Require Import Gen.GenTerm Model.Trim.
Import ListNotations.

(* translator obligations: the runes the Go trim compares with are ESC and 'm' *)
Lemma start_is_esc : TrimSeqStart = 27%N. Proof. reflexivity. Qed.
Lemma end_is_m : TrimSeqEnd = 109%N. Proof. reflexivity. Qed.

Lemma is_start_eq x : is_start x = N.eqb x 27.
Proof. unfold is_start. rewrite start_is_esc. reflexivity. Qed.
Lemma is_end_eq x : is_end x = N.eqb x 109.
Proof. unfold is_end. rewrite end_is_m. reflexivity. Qed.

(* the cut is a prefix of the text *)
Lemma trim_go_prefix : forall l e n, is_prefix (trim_go e n l) l.
Proof.
  induction l as [|x r IH]; intros e n; cbn [trim_go].
  - exists []. reflexivity.
  - destruct e.
    + destruct (IH (negb (is_end x)) n) as [rest H]. exists rest. cbn. congruence.
    + destruct n as [|n'].
      * exists (x :: r). reflexivity.
      * destruct (is_start x).
        -- destruct (IH (negb (is_end x)) (S n')) as [rest H]. exists rest. cbn. congruence.
        -- destruct (IH false n') as [rest H]. exists rest. cbn. congruence.
Qed.

(* the visible runes of the cut are exactly the first n visible runes of the text *)
Lemma trim_go_visible : forall l e n,
  visible_go e (trim_go e n l) = firstn n (visible_go e l).
Proof.
  induction l as [|x r IH]; intros e n; cbn [trim_go visible_go].
  - destruct e; rewrite firstn_nil; reflexivity.
  - destruct e.
    + cbn [visible_go]. rewrite is_end_eq. apply IH.
    + destruct n as [|n'].
      * cbn. reflexivity.
      * rewrite is_start_eq, is_end_eq. destruct (N.eqb x 27) eqn:E.
        -- cbn [visible_go]. rewrite E.
           apply N.eqb_eq in E. subst x. cbn. apply (IH true (S n')).
        -- cbn [visible_go]. rewrite E. cbn [firstn]. f_equal. apply IH.
Qed.

(* the cut never stops inside a sequence, unless the text itself does and is returned whole *)
Lemma trim_go_complete : forall l e n,
  ends_inside e (trim_go e n l) = false \/ trim_go e n l = l.
Proof.
  induction l as [|x r IH]; intros e n; cbn [trim_go].
  - destruct e; [right | left]; reflexivity.
  - destruct e.
    + cbn [ends_inside]. rewrite is_end_eq.
      destruct (IH (negb (N.eqb x 109)) n) as [H|H]; [left; exact H | right; congruence].
    + destruct n as [|n'].
      * left. reflexivity.
      * rewrite is_start_eq, is_end_eq. destruct (N.eqb x 27) eqn:E.
        -- cbn [ends_inside]. rewrite E. apply N.eqb_eq in E. subst x. cbn.
           destruct (IH true (S n')) as [H|H]; [left; exact H | right; cbn in H; congruence].
        -- cbn [ends_inside]. rewrite E.
           destruct (IH false n') as [H|H]; [left; exact H | right; congruence].
Qed.

Lemma ends_inside_prefix_wf : forall l st, wf_go st l = true ->
  ends_inside (match st with WG => false | _ => true end) l = false.
Proof.
  induction l as [|x r IH]; intros st H; cbn in *.
  - destruct st; try discriminate; reflexivity.
  - destruct st.
    + destruct (N.eqb x 27) eqn:E.
      * apply (IH WE H).
      * apply andb_true_iff in H as [_ H]. apply (IH WG H).
    + apply andb_true_iff in H as [H1 H]. apply N.eqb_eq in H1. subst x. cbn. apply (IH WC H).
    + destruct (N.eqb x 109) eqn:E.
      * cbn. apply (IH WG H).
      * apply andb_true_iff in H as [_ H]. cbn. apply (IH WC H).
Qed.

(* a well-formed text stays well-formed when it is cut *)
Lemma sgr_param_not_m x : sgr_param x = true -> N.eqb x 109 = false.
Proof.
  unfold sgr_param. intros H. apply N.eqb_neq. intros ->. cbn in H. discriminate.
Qed.

Lemma trim_go_wf : forall l st n, wf_go st l = true ->
  wf_go st (trim_go (match st with WG => false | _ => true end) n l) = true.
Proof.
  induction l as [|x r IH]; intros st n H; cbn [trim_go].
  - destruct st; exact H.
  - destruct st; cbn [wf_go] in H.
    + destruct n as [|n']; [reflexivity|].
      rewrite is_start_eq, is_end_eq. destruct (N.eqb x 27) eqn:E.
      * cbn [wf_go]. rewrite E. apply N.eqb_eq in E. subst x. cbn. apply (IH WE (S n') H).
      * cbn [wf_go]. rewrite E. apply andb_true_iff in H as [H1 H]. rewrite H1. cbn.
        apply (IH WG n' H).
    + apply andb_true_iff in H as [H1 H]. cbn [wf_go]. rewrite H1. cbn.
      rewrite is_end_eq. apply N.eqb_eq in H1. subst x. cbn. apply (IH WC n H).
    + rewrite is_end_eq. cbn [wf_go]. destruct (N.eqb x 109) eqn:E.
      * cbn. apply (IH WG n H).
      * apply andb_true_iff in H as [H1 H]. rewrite H1. cbn. apply (IH WC n H).
Qed.

(* ---------------------------------------------------------------- the statements used by Props/C20.v *)

Lemma C20_trim_prefix_proof : forall (c : Z) (s : text), (1 <= c)%Z ->
  is_prefix (trim c s) s /\
  visible (trim c s) = firstn (Z.to_nat c) (visible s) /\
  length (visible (trim c s)) <= Z.to_nat c /\
  (escapes_complete (trim c s) \/ trim c s = s).
Proof.
  intros c s _. unfold trim, visible, escapes_complete. repeat split.
  - apply trim_go_prefix.
  - apply trim_go_visible.
  - rewrite trim_go_visible. rewrite firstn_length. lia.
  - apply trim_go_complete.
Qed.

Lemma trim_complete_of_complete : forall c s, escapes_complete s -> escapes_complete (trim c s).
Proof.
  intros c s H. destruct (trim_go_complete s false (Z.to_nat c)) as [E|E].
  - exact E.
  - unfold escapes_complete, trim. rewrite E. exact H.
Qed.

Lemma trim_wf : forall c s, wf_text s = true -> wf_text (trim c s) = true.
Proof. intros c s H. apply (trim_go_wf s WG (Z.to_nat c) H). Qed.

Lemma wf_complete : forall s, wf_text s = true -> escapes_complete s.
Proof. intros s H. apply (ends_inside_prefix_wf s WG H). Qed.

Lemma wlnw_wf : forall a c s, wf_text s = true -> wf_text (write_line_no_wrap a c s) = true.
Proof. intros [] c s H; cbn; [apply trim_wf|]; exact H. Qed.

Lemma wlnw_trim_fits : forall c s, length (visible (write_line_no_wrap true c s)) <= Z.to_nat c.
Proof.
  intros c s. cbn. unfold trim, visible. rewrite trim_go_visible, firstn_length. lia.
Qed.

(* a text that already fits is written whole *)
Lemma trim_go_id : forall l e n, length (visible_go e l) < n -> trim_go e n l = l.
Proof.
  induction l as [|x r IH]; intros e n H; cbn [trim_go]; [reflexivity|].
  cbn [visible_go] in H. destruct e.
  - rewrite is_end_eq. f_equal. apply IH. exact H.
  - destruct n as [|n']; [lia|]. rewrite is_start_eq, is_end_eq.
    destruct (N.eqb x 27) eqn:E.
    + apply N.eqb_eq in E. subst x. cbn. f_equal. apply (IH true (S n')). exact H.
    + f_equal. apply IH. cbn in H. lia.
Qed.

Lemma trim_short_id : forall c s, (Z.of_nat (length (visible s)) < c)%Z -> trim c s = s.
Proof. intros c s H. apply trim_go_id. unfold visible in H. lia. Qed.
