(* C11: humanizeInt only inserts thousands separators; unit rank of unitize. *)
From Coq Require Import List NArith ZArith Lia Bool ZifyN ZifyNat ZifyBool.
From RareV Require Import Base.Hex Base.Res Base.Num Gen.GenC11 Model.Humanize Proofs.NumProof.
Import ListNotations.
Local Open Scope N_scope.

Lemma digit_not_sep b : is_digit b = true -> (b =? baseSeparator) = false.
Proof.
  intros H. destruct (b =? baseSeparator) eqn:E; [|reflexivity].
  apply N.eqb_eq in E. subst. vm_compute in H. discriminate.
Qed.

Lemma strip_sep_app a b : strip_sep (a ++ b) = strip_sep a ++ strip_sep b.
Proof. apply filter_app. Qed.

Lemma strip_sep_rev l : strip_sep (rev l) = rev (strip_sep l).
Proof.
  induction l as [|x l IH]; [reflexivity|]. cbn [rev]. rewrite strip_sep_app, IH.
  unfold strip_sep at 2 3. cbn [filter]. destruct (negb (x =? baseSeparator)); cbn [rev app]; [reflexivity|].
  rewrite app_nil_r. reflexivity.
Qed.

Lemma strip_digits ds : Forall (fun b => is_digit b = true) ds -> strip_sep ds = ds.
Proof.
  induction 1 as [|d r Hd _ IH]; [reflexivity|]. unfold strip_sep in *. cbn [filter].
  rewrite (digit_not_sep _ Hd). cbn [negb]. rewrite IH. reflexivity.
Qed.

Lemma emit_strip : forall ds ci, Forall (fun b => is_digit b = true) ds -> strip_sep (emit ds ci) = ds.
Proof.
  induction ds as [|d r IH]; intros ci H; [reflexivity|]. inversion H as [|? ? Hd Hr]; subst.
  cbn [emit]. destruct (Nat.eqb ci 3); unfold strip_sep in *; cbn [filter];
    rewrite ?N.eqb_refl, ?(digit_not_sep _ Hd); cbn [negb]; rewrite IH by assumption; reflexivity.
Qed.

Lemma emit_grouped : forall ds ci, Forall (fun b => is_digit b = true) ds ->
  (ds <> [] \/ ci <> O) -> grouped_rev (emit ds ci) ci = true.
Proof.
  induction ds as [|d r IH]; intros ci H Hne.
  - cbn. destruct Hne as [Hne|Hne]; [congruence|]. destruct ci; [congruence|reflexivity].
  - inversion H as [|? ? Hd Hr]; subst. cbn [emit]. destruct (Nat.eqb ci 3) eqn:E.
    + cbn [grouped_rev]. rewrite E, N.eqb_refl. cbn [andb grouped_rev Nat.eqb]. rewrite Hd. cbn [andb].
      apply IH; [assumption|right; discriminate].
    + cbn [grouped_rev]. rewrite E, Hd. cbn [andb]. apply IH; [assumption|right; discriminate].
Qed.

Lemma emit_nonempty d r ci : emit (d :: r) ci <> [].
Proof. cbn [emit]. destruct (Nat.eqb ci 3); discriminate. Qed.

Lemma grouped_last_digit : forall l x k, grouped_rev (l ++ [x]) k = true -> is_digit x = true.
Proof.
  induction l as [|y l IH]; intros x k H.
  - cbn [app grouped_rev] in H. destruct (Nat.eqb k 3).
    + cbn in H. rewrite andb_false_r in H. discriminate.
    + apply andb_true_iff in H as [H _]. exact H.
  - cbn [app grouped_rev] in H. destruct (Nat.eqb k 3); apply andb_true_iff in H as [_ H]; eapply IH; exact H.
Qed.

Lemma unsigned_digit_head c r : is_digit c = true -> unsigned_part (c :: r) = c :: r.
Proof.
  intros H. apply is_digit_cases in H.
  destruct H as [->|[->|[->|[->|[->|[->|[->|[->|[->| ->]]]]]]]]]; reflexivity.
Qed.

Lemma group3_law digits : Forall (fun b => is_digit b = true) digits -> digits <> [] ->
  strip_sep (group3 digits) = digits /\ well_grouped (group3 digits) = true /\
  unsigned_part (group3 digits) = group3 digits /\ group3 digits <> [].
Proof.
  intros Hd Hne. unfold group3.
  assert (Hr : Forall (fun b => is_digit b = true) (rev digits)) by (apply Forall_rev; exact Hd).
  assert (Hrn : rev digits <> []).
  { intros E. apply (f_equal (@rev N)) in E. rewrite rev_involutive in E. cbn in E. congruence. }
  assert (G : grouped_rev (emit (rev digits) 0) 0 = true) by (apply emit_grouped; auto).
  split; [|].
  - rewrite strip_sep_rev, emit_strip by exact Hr. apply rev_involutive.
  - assert (Hu : unsigned_part (rev (emit (rev digits) 0)) = rev (emit (rev digits) 0)).
    { destruct (rev (emit (rev digits) 0)) as [|c r] eqn:E; [reflexivity|].
      apply unsigned_digit_head.
      apply (f_equal (@rev N)) in E. rewrite rev_involutive in E. cbn [rev] in E.
      rewrite E in G. eapply grouped_last_digit. exact G. }
    split; [|split].
    + unfold well_grouped. rewrite Hu, rev_involutive. exact G.
    + exact Hu.
    + destruct (rev digits) as [|d r] eqn:E; [congruence|].
      intros E2. apply (f_equal (@rev N)) in E2. rewrite rev_involutive in E2. cbn [rev] in E2.
      exact (emit_nonempty d r 0 E2).
Qed.

Definition small_ok (z : Z) : bool := bytes_eqb (strip_sep (itoa z)) (itoa z) && well_grouped (itoa z).

Lemma small_sweep : forallb (fun n => small_ok (Z.of_nat n)) (seq 0 100) = true.
Proof. vm_compute. reflexivity. Qed.

Lemma small_law z : (0 <= z < 100)%Z -> strip_sep (itoa z) = itoa z /\ well_grouped (itoa z) = true.
Proof.
  intros H. pose proof small_sweep as S. rewrite forallb_forall in S.
  specialize (S (Z.to_nat z)). rewrite Z2Nat.id in S by lia.
  assert (I : In (Z.to_nat z) (seq 0 100)) by (apply in_seq; lia).
  apply S in I. unfold small_ok in I. apply andb_true_iff in I as [I1 I2].
  apply bytes_eqb_eq in I1. auto.
Qed.

(* hi only inserts thousands separators: removing them gives the plain decimal text, and reading
   from the right every fourth character - and no other - is a separator, the leftmost a digit *)
Theorem hi_law_proof : forall z,
  strip_sep (humanize_int z) = itoa z /\ well_grouped (humanize_int z) = true.
Proof.
  intros z. unfold humanize_int.
  destruct ((0 <=? z)%Z && (z <? 100)%Z) eqn:E.
  - apply andb_true_iff in E as [E1 E2]. apply Z.leb_le in E1. apply Z.ltb_lt in E2. apply small_law. lia.
  - destruct (group3_law (utoa (Z.abs_N z)) (utoa_digits _) (utoa_nonempty _)) as (G1 & G2 & G3 & G4).
    destruct z as [|p|p].
    + cbn in E. discriminate.
    + change (Z.pos p <? 0)%Z with false. cbn [itoa]. change (Z.abs_N (Z.pos p)) with (N.pos p) in *. auto.
    + change (Z.neg p <? 0)%Z with true. cbn [itoa]. change (Z.abs_N (Z.neg p)) with (N.pos p) in *.
      split.
      * unfold strip_sep in *. cbn [filter]. change (negb (45 =? baseSeparator)) with true. cbv iota.
        f_equal. exact G1.
      * unfold well_grouped in *. cbn [unsigned_part]. rewrite G3 in G2. exact G2.
Qed.

(* ---- unit rank ---- *)
Local Open Scope Z_scope.
Lemma rank_loop_law step : 1 < step -> forall k a, 0 <= a ->
  let r := rank_loop k a step in
  (r <= k)%nat /\ (r = O \/ step ^ Z.of_nat r <= a) /\ (r = k \/ a < step ^ (Z.of_nat r + 1)).
Proof.
  intros Hs. induction k as [|k IH]; intros a Ha; cbn zeta.
  - cbn [rank_loop]. repeat split; auto.
  - cbn [rank_loop]. destruct (a <? step) eqn:E.
    + apply Z.ltb_lt in E. repeat split; [lia|auto|]. right. change (Z.of_nat 0 + 1) with 1. rewrite Z.pow_1_r. exact E.
    + apply Z.ltb_ge in E.
      assert (Hd : 0 <= a / step) by (apply Z.div_pos; lia).
      specialize (IH (a / step) Hd). cbn zeta in IH. destruct IH as (I1 & I2 & I3).
      set (r := rank_loop k (a / step) step) in *.
      pose proof (Z.div_mod a step ltac:(lia)) as DM. pose proof (Z.mod_pos_bound a step ltac:(lia)) as MB.
      repeat split; [lia| |].
      * right. rewrite Nat2Z.inj_succ, Z.pow_succ_r by lia.
        destruct I2 as [->|I2]; [cbn; lia|]. nia.
      * destruct I3 as [->|I3]; [left; reflexivity|right].
        rewrite Nat2Z.inj_succ. replace (Z.succ (Z.of_nat r) + 1) with (Z.succ (Z.of_nat r + 1)) by lia.
        rewrite Z.pow_succ_r by lia. nia.
Qed.

(* unitize: below the step the integer itself with the first unit; otherwise the oracle mantissa with
   the unit of rank r, where step^r <= |n| and (|n| < step^(r+1) or r is the last unit) *)
Theorem unitize_law_proof : forall n step delim units mant, 1 < step -> units <> [] ->
  (- step < n < step -> unitize n step delim units mant = itoa n ++ unit_suffix delim (nth 0 units [])) /\
  (~ (- step < n < step) ->
     exists r, (r < length units)%nat /\
       unitize n step delim units mant = mant ++ unit_suffix delim (nth r units []) /\
       step ^ Z.of_nat r <= Z.abs n /\ (S r = length units \/ Z.abs n < step ^ (Z.of_nat r + 1))).
Proof.
  intros n step delim units mant Hs Hu. unfold unitize. split; intros H.
  - assert (E : (- step <? n) && (n <? step) = true) by (apply andb_true_iff; rewrite !Z.ltb_lt; lia).
    rewrite E. reflexivity.
  - assert (E : (- step <? n) && (n <? step) = false).
    { apply andb_false_iff. rewrite !Z.ltb_ge. lia. }
    rewrite E. pose proof (rank_loop_law step Hs (length units - 1) (Z.abs n) ltac:(lia)) as L.
    cbn zeta in L. destruct L as (L1 & L2 & L3).
    set (r := rank_loop (length units - 1) (Z.abs n) step) in *.
    assert (0 < length units)%nat by (destruct units; [congruence|cbn; lia]).
    exists r. repeat split; [lia| |].
    + destruct L2 as [->|L2]; [cbn; lia|exact L2].
    + destruct L3 as [L3|L3]; [left; lia|right; exact L3].
Qed.
