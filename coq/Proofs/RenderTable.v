(* C14 — TableWriter (Model/Render.v): after any sequence of WriteRow / WriteFooter every stored
   row is on the terminal laid out with the current column widths, and column j starts at
   visible offset sum_{i<j} (w_i + 1). *)
From Coq Require Import List ZArith NArith Bool Lia.
From RareV Require Import Base.Hex Base.Num Base.Res Gen.GenPalette Model.Scale Model.Render Proofs.RenderBars.
Import ListNotations.
Local Open Scope Z_scope.

(* ---------- list updates ---------- *)
Lemma set_nth_eq n x : forall l, nth_error (set_nth n x l) n = Some x.
Proof. induction n as [|n IH]; intros [|h t]; simpl; auto. Qed.
Lemma set_nth_neq n x : forall l i y, i <> n -> nth_error l i = Some y -> nth_error (set_nth n x l) i = Some y.
Proof.
  induction n as [|n IH]; intros [|h t] i y Hne H; destruct i; simpl in *; try congruence; try lia.
  - apply IH; auto.
Qed.
Lemma set_row_eq {A} n (x : A) : forall l, (n < length l)%nat -> nth_error (set_row n x l) n = Some x.
Proof. induction n as [|n IH]; intros [|h t] H; simpl in *; try lia; auto. apply IH. lia. Qed.
Lemma set_row_neq {A} n (x : A) : forall l i, i <> n -> nth_error (set_row n x l) i = nth_error l i.
Proof.
  induction n as [|n IH]; intros [|h t] i Hne; destruct i; simpl; try reflexivity; try lia.
  apply IH. lia.
Qed.
Lemma set_row_length {A} n (x : A) : forall l, length (set_row n x l) = length l.
Proof. induction n as [|n IH]; intros [|h t]; simpl; auto. Qed.
Lemma set_row_some {A} n (x : A) l i y : nth_error (set_row n x l) i = Some y ->
  (i = n /\ y = x) \/ (i <> n /\ nth_error l i = Some y).
Proof.
  intros H. destruct (Nat.eq_dec i n) as [->|Hne].
  - left. split. reflexivity.
    destruct (Nat.lt_ge_cases n (length l)) as [L|L].
    + rewrite set_row_eq in H by assumption. congruence.
    + assert (nth_error (set_row n x l) n = None) by (apply nth_error_None; rewrite set_row_length; lia).
      congruence.
  - right. split. assumption. rewrite set_row_neq in H by assumption. assumption.
Qed.

Lemma list_eqb_Z_eq : forall a b, Zl_eqb a b = true -> a = b.
Proof.
  unfold Zl_eqb. induction a as [|x a IH]; intros [|y b] H; simpl in H; try discriminate. reflexivity.
  apply andb_prop in H as [H1 H2]. apply Z.eqb_eq in H1. subst. f_equal. apply IH. assumption.
Qed.

Section Table.
  Variable col : bool.
  Notation str_len := (str_len col).
  Notation render_row := (render_row col).
  Notation upd_w := (upd_w col).

  (* w covers the cells: no cell is wider than its column *)
  Fixpoint covers (w : list Z) (cells : list str) : Prop :=
    match w, cells with
    | wi :: w', c :: cs => str_len c <= wi /\ covers w' cs
    | _, _ => True
    end.
  Fixpoint wle (a b : list Z) : Prop :=
    match a, b with
    | x :: a', y :: b' => x <= y /\ wle a' b'
    | [], [] => True
    | _, _ => False
    end.
  Lemma upd_w_ge : forall w cells, wle w (upd_w w cells).
  Proof.
    induction w as [|x w IH]; intros cells; simpl. exact I.
    destruct cells; simpl. split. lia. clear. induction w; simpl; auto. split. lia. assumption.
    split. lia. apply IH.
  Qed.
  Lemma upd_w_covers : forall w cells, covers (upd_w w cells) cells.
  Proof.
    induction w as [|x w IH]; intros cells; simpl. exact I.
    destruct cells; simpl. exact I. split. lia. apply IH.
  Qed.
  Lemma covers_mono : forall a b cells, wle a b -> covers a cells -> covers b cells.
  Proof.
    induction a as [|x a IH]; intros [|y b] cells H C; simpl in *; try contradiction; try exact I.
    destruct cells. exact I. destruct H, C. split. lia. eapply IH; eauto.
  Qed.
  Lemma upd_w_length : forall w cells, length (upd_w w cells) = length w.
  Proof. induction w; intros [|c cs]; simpl; auto. Qed.

  Lemma refresh_nth w rows : forall n tm k, (k < n)%nat ->
    nth_error (refresh col w rows n tm) k = Some (render_row w (row_cells rows k)).
  Proof.
    induction n as [|n IH]; intros tm k H. lia. simpl.
    destruct (Nat.eq_dec k n) as [->|Hne]. apply set_nth_eq.
    apply set_nth_neq. assumption. apply IH. lia.
  Qed.

  (* the invariant *)
  Definition tinv (t : tw) (tm : term) : Prop :=
    length (tw_w t) = tw_maxc t /\
    forall i cells, nth_error (tw_rows t) i = Some (Some cells) ->
      (i < tw_active t)%nat /\ covers (tw_w t) cells /\
      nth_error tm i = Some (render_row (tw_w t) cells).

  Lemma tinv_new maxc maxr : tinv (tw_new maxc maxr) [].
  Proof.
    split. simpl. apply repeat_length.
    intros i cells H. simpl in H. exfalso.
    apply nth_error_In in H. apply repeat_spec in H. discriminate.
  Qed.

  Lemma tinv_write_row t tm n cells : tinv t tm ->
    tinv (fst (tw_write_row col t tm n cells)) (snd (tw_write_row col t tm n cells)).
  Proof.
    intros [HL HI]. unfold tw_write_row.
    destruct (Nat.leb_spec (tw_maxr t) n) as [Hmr|Hmr]. { split; assumption. }
    destruct (Zl_eqb (upd_w (tw_w t) cells) (tw_w t)) eqn:E; cbn [fst snd].
    - (* no column grew: only this row is written *)
      apply list_eqb_Z_eq in E.
      split. cbn. rewrite upd_w_length. assumption.
      intros i cs H. cbn in H |- *.
      apply set_row_some in H as [[-> Heq]|[Hne H]].
      + inversion Heq; subst cs. split. lia. split. apply upd_w_covers. apply set_nth_eq.
      + destruct (HI i cs H) as [A [B C]]. rewrite E.
        split. lia. split. assumption. apply set_nth_neq; assumption.
    - (* a column grew: every active row is written again with the new widths *)
      split. cbn. rewrite upd_w_length. assumption.
      intros i cs H. cbn in H |- *.
      assert (Hact : (i < Nat.max (tw_active t) (S n))%nat /\ covers (upd_w (tw_w t) cells) cs).
      { apply set_row_some in H as [[-> Heq]|[Hne H']].
        - inversion Heq; subst cs. split. lia. apply upd_w_covers.
        - destruct (HI i cs H') as [A [B _]]. split. lia.
          eapply covers_mono. apply upd_w_ge. assumption. }
      destruct Hact as [A B]. split. assumption. split. assumption.
      rewrite refresh_nth by assumption. unfold row_cells. rewrite H. reflexivity.
  Qed.

  Lemma tinv_footer t tm idx line : tinv t tm -> tinv t (tw_footer t tm idx line).
  Proof.
    intros [HL HI]. split. assumption.
    intros i cs H. destruct (HI i cs H) as [A [B C]]. split. assumption. split. assumption.
    unfold tw_footer. apply set_nth_neq. lia. assumption.
  Qed.

  Lemma tinv_run maxc maxr ops : tinv (fst (tw_run col maxc maxr ops)) (snd (tw_run col maxc maxr ops)).
  Proof.
    unfold tw_run.
    assert (G : forall ops st, tinv (fst st) (snd st) ->
                 tinv (fst (fold_left (tw_step col) ops st)) (snd (fold_left (tw_step col) ops st))).
    { induction ops0 as [|o r IH]; intros st H; simpl. assumption.
      apply IH. destruct o; simpl. apply tinv_write_row. assumption.
      apply tinv_footer. assumption. }
    apply G. simpl. apply tinv_new.
  Qed.

  (* ---------- visible offsets ---------- *)
  Fixpoint offset (w : list Z) (j : nat) : Z :=
    match j, w with
    | S k, wi :: w' => wi + 1 + offset w' k
    | _, _ => 0
    end.

  Lemma cell_text_len wi c : closed col c -> str_len c <= wi ->
    str_len (cell_text col wi c) = wi + 1 /\ closed col (cell_text col wi c).
  Proof.
    intros Hc Hw. unfold cell_text.
    assert (SPne : SP <> ESC) by (vm_compute; discriminate).
    destruct (str_len_rep col (wi - str_len c) SP SPne) as [L1 C1].
    destruct (str_len_rep col 1 SP SPne) as [L2 C2]. change (rep 1 SP) with [SP] in *.
    split.
    - rewrite str_len_app by assumption. rewrite str_len_app by assumption. rewrite L1, L2. lia.
    - apply closed_app. assumption. apply closed_app; assumption.
  Qed.

  (* the text before column j has visible length offset w j, and the row continues after it *)
  Lemma render_row_offset : forall w cells j, covers w cells -> Forall (closed col) cells ->
    (j <= Nat.min (length w) (length cells))%nat ->
    exists pre rest, render_row w cells = pre ++ rest /\ str_len pre = offset w j /\ closed col pre /\
                     rest = render_row (skipn j w) (skipn j cells).
  Proof.
    induction w as [|wi w IH]; intros cells j Hc Hcl Hj.
    - simpl in Hj. assert (j = 0%nat) by lia. subst. exists [], []. simpl.
      split. reflexivity. split. apply str_len_nil. split. apply closed_nil. reflexivity.
    - destruct cells as [|c cs].
      + simpl in Hj. assert (j = 0%nat) by lia. subst. exists [], []. simpl.
        split. reflexivity. split. apply str_len_nil. split. apply closed_nil. reflexivity.
      + destruct j as [|j].
        * exists [], (render_row (wi :: w) (c :: cs)). split. reflexivity.
          split. apply str_len_nil. split. apply closed_nil. reflexivity.
        * simpl in Hc. destruct Hc as [Hc1 Hc2]. inversion Hcl; subst.
          destruct (IH cs j Hc2 H2 ltac:(simpl in Hj; lia)) as [pre [rest [E [L [C R]]]]].
          destruct (cell_text_len wi c H1 Hc1) as [L1 C1].
          exists (cell_text col wi c ++ pre), rest. simpl.
          split. rewrite E, app_assoc. reflexivity.
          split. rewrite str_len_app by assumption. rewrite L1, L. reflexivity.
          split. apply closed_app; assumption. assumption.
  Qed.
End Table.

(* C14_table_aligned *)
Theorem table_aligned col maxc maxr ops :
  let st := tw_run col maxc maxr ops in
  forall i cells, nth_error (tw_rows (fst st)) i = Some (Some cells) ->
    nth_error (snd st) i = Some (render_row col (tw_w (fst st)) cells) /\
    (Forall (closed col) cells ->
     forall j, (j <= Nat.min maxc (length cells))%nat ->
       exists pre rest, render_row col (tw_w (fst st)) cells = pre ++ rest /\
                        str_len col pre = offset (tw_w (fst st)) j /\
                        rest = render_row col (skipn j (tw_w (fst st))) (skipn j cells)).
Proof.
  intros st i cells H. destruct (tinv_run col maxc maxr ops) as [HL HI]. fold st in HL, HI.
  destruct (HI i cells H) as [A [B C]]. split. assumption.
  intros Hcl j Hj.
  assert (M : tw_maxc (fst st) = maxc).
  { unfold st, tw_run. clear.
    assert (G : forall l s, tw_maxc (fst (fold_left (tw_step col) l s)) = tw_maxc (fst s)).
    { induction l as [|o r IH]; intros s; simpl. reflexivity. rewrite IH.
      destruct o; simpl; [|reflexivity]. unfold tw_write_row.
      destruct (tw_maxr (fst s) <=? n)%nat. reflexivity.
      destruct (Zl_eqb _ _); reflexivity. }
    rewrite G. reflexivity. }
  destruct (render_row_offset col (tw_w (fst st)) cells j B Hcl ltac:(rewrite HL, M; assumption))
    as [pre [rest [E [L [_ R]]]]].
  exists pre, rest. auto.
Qed.

(* cells the renderers produce are closed: Wrap always ends a code it opens *)
Lemma sl_state_reset_suffix : forall s inc, sl_state inc (s ++ col_Reset) = false.
Proof.
  intros s inc. rewrite sl_state_app. generalize (sl_state inc s). intros b. destruct b; reflexivity.
Qed.
Lemma str_eqb_eq : forall a b, str_eqb a b = true -> a = b.
Proof.
  unfold str_eqb. induction a as [|x a IH]; intros [|y b] Hq; simpl in Hq; try discriminate. reflexivity.
  apply andb_prop in Hq as [Hx Hl]. apply N.eqb_eq in Hx. subst. f_equal. apply IH. assumption.
Qed.
Lemma ends_reset_split s : ends_reset s = true -> exists p, s = p ++ col_Reset.
Proof.
  unfold ends_reset. intros H. apply andb_prop in H as [H1 H2].
  exists (firstn (length s - length col_Reset) s).
  assert (E : skipn (length s - length col_Reset) s = col_Reset) by (apply str_eqb_eq; assumption).
  rewrite <- E at 2. symmetry. apply firstn_skipn.
Qed.
Theorem wrap_closed col c s : closed col (wrap col c s).
Proof.
  unfold closed, wrap. intros ->.
  destruct (ends_reset s) eqn:E.
  - apply ends_reset_split in E as [p ->]. rewrite app_nil_r, app_assoc. apply sl_state_reset_suffix.
  - rewrite app_assoc. apply sl_state_reset_suffix.
Qed.
