(* C13: the boolean form C13_check accepts the model's own output on well-formed cases inside the
   state-free domains. *)
From Coq Require Import List Permutation Sorted Bool NArith ZArith Lia Arith String.
From RareV Require Import Base.Hex Model.Sort Proofs.SortGeneric Proofs.SortOrders Proofs.SortCtx Proofs.SortMerge.
Import ListNotations.

(* ---------------------------------------------------------------- boolean helpers *)
Lemma nodupb_NoDup {A} (eqb : A -> A -> bool) :
  (forall a b, a = b -> eqb a b = true) -> forall l, nodupb eqb l = true -> NoDup l.
Proof.
  intros He. induction l as [|x r IH]; cbn; intros H; [constructor|].
  apply andb_true_iff in H as [H1 H2]. apply negb_true_iff in H1. constructor; [|auto].
  intros Hin. assert (existsb (eqb x) r = true); [|congruence].
  apply existsb_exists. exists x. auto.
Qed.

Lemma names_distinct its : key_names_distinct its = true -> NoDup (map item_name its).
Proof.
  unfold key_names_distinct. apply nodupb_NoDup. intros a b ->. now apply bytes_eqb_eq.
Qed.

Lemma list_eqb_refl {A} (eqb : A -> A -> bool) : (forall a, eqb a a = true) ->
  forall l, list_eqb eqb l l = true.
Proof. intros Hr. induction l; cbn; auto. now rewrite Hr, IHl. Qed.
Lemma bool_eqb_refl b : Bool.eqb b b = true.
Proof. now destruct b. Qed.
Lemma row_eq_off_refl : forall x i j, row_eq_off i j x x = true.
Proof. induction x; cbn; auto. intros. now rewrite bool_eqb_refl, orb_true_r, IHx. Qed.
Lemma mat_eq_off_refl : forall x i, mat_eq_off i x x = true.
Proof. induction x; cbn; auto. intros. now rewrite row_eq_off_refl, IHx. Qed.
Lemma list_nat_eqb_refl l : list_nat_eqb l l = true.
Proof. apply list_eqb_refl. apply Nat.eqb_refl. Qed.

Lemma it_at_In its i : (i < List.length its)%nat -> In (it_at its i) its.
Proof. intros H. unfold it_at. now apply nth_In. Qed.

Lemma it_at_inj its i j : NoDup its -> (i < List.length its)%nat -> (j < List.length its)%nat ->
  it_at its i = it_at its j -> i = j.
Proof. intros Hnd Hi Hj E. unfold it_at in E. exact (proj1 (NoDup_nth its dummy_item) Hnd i j Hi Hj E). Qed.

(* ---------------------------------------------------------------- helpers for the top-N check *)
Lemma SS_app_inv {B} (R : B -> B -> Prop) : forall X Y, StronglySorted R (X ++ Y) ->
  StronglySorted R X /\ StronglySorted R Y /\ (forall x y, In x X -> In y Y -> R x y).
Proof.
  induction X as [|a X IH]; intros Y H; cbn in *.
  - split; [constructor|]. split; [exact H|]. intros x y [].
  - inversion H as [|? ? Hs Hf]; subst. destruct (IH Y Hs) as (HX & HY & Hc).
    rewrite Forall_forall in Hf. split; [|split; [exact HY|]].
    + constructor; [exact HX|]. rewrite Forall_forall. intros y Hy. apply Hf, in_or_app. now left.
    + intros x y [<-|Hx] Hy; [apply Hf, in_or_app; now right|now apply Hc].
Qed.

Lemma adjacent_of_SS (g : item -> item -> bool) (X : list (nat * item)) :
  StronglySorted (fun a b => g (snd a) (snd b) = true) X -> adjacent_ok g (map snd X) = true.
Proof.
  induction 1 as [|a X HX IH Ha]; [reflexivity|]. destruct X as [|b X]; [reflexivity|].
  cbn [map adjacent_ok]. apply andb_true_iff. split; [|exact IH].
  rewrite Forall_forall in Ha. apply Ha. now left.
Qed.

Lemma filter_length_perm {B} (p : B -> bool) l l' : Permutation l l' ->
  List.length (filter p l) = List.length (filter p l').
Proof.
  induction 1 as [|x l l' _ IH|x y l|l l' l'' _ IH1 _ IH2]; cbn; auto.
  - destruct (p x); cbn; auto.
  - destruct (p x), (p y); reflexivity.
  - congruence.
Qed.
Lemma filter_all {B} (p : B -> bool) l : (forall x, In x l -> p x = true) -> filter p l = l.
Proof.
  induction l as [|a l IH]; intros H; cbn; [reflexivity|].
  rewrite (H a) by now left. f_equal. apply IH. intros x Hx. apply H. now right.
Qed.
Lemma filter_none {B} (p : B -> bool) l : (forall x, In x l -> p x = false) -> filter p l = [].
Proof.
  induction l as [|a l IH]; intros H; cbn; [reflexivity|].
  rewrite (H a) by now left. apply IH. intros x Hx. apply H. now right.
Qed.

Lemma combine_seq_pairs (its : list item) :
  combine (seq 0 (List.length its)) its = map (fun i => (i, it_at its i)) (seq 0 (List.length its)).
Proof.
  apply (nth_ext _ _ (0%nat, dummy_item) (0%nat, dummy_item)).
  - rewrite combine_length, map_length, seq_length. lia.
  - intros i Hi. rewrite combine_length, seq_length, Nat.min_id in Hi.
    rewrite combine_nth by (rewrite seq_length; reflexivity).
    rewrite (nth_indep _ (0%nat, dummy_item) ((fun i => (i, it_at its i)) 0%nat))
      by (rewrite map_length, seq_length; exact Hi).
    rewrite (map_nth (fun i => (i, it_at its i))). rewrite !seq_nth by exact Hi. reflexivity.
Qed.

(* ---------------------------------------------------------------- the pure comparator of a case *)
Section Case.
Variables (m : mode) (rv : bool) (its : list item) (f : item -> item -> bool).
Hypothesis Hpure : mode_pure m its = Some f.
Hypothesis Hnd : NoDup (map item_name its).
Notation g := (with_rev rv f).
Notation n := (List.length its).

Lemma its_NoDup : NoDup its.
Proof. now apply items_NoDup. Qed.

Lemma g_order : order_on g its.
Proof. exact (proj1 (build_cmp_pure m rv its f Hpure Hnd)). Qed.

Lemma g_irrefl : rv = false -> forall a, In a its -> g a a = false.
Proof.
  intros -> a Ia. unfold g, with_rev.
  destruct (mode_pure_sound m its f Hpure Hnd) as [[Hi _] _]. now apply Hi.
Qed.

Lemma g_fresh a b : In a its -> In b its -> fst (build_cmp (m, rv) s_init a b) = g a b.
Proof.
  intros Ia Ib. destruct (build_cmp_pure m rv its f Hpure Hnd) as [_ [P [Hp0 Hp]]].
  exact (proj1 (Hp s_init a b Hp0 Ia Ib)).
Qed.

Definition G (i j : nat) : bool := g (it_at its i) (it_at its j).

Lemma G_xor i j : (i < n)%nat -> (j < n)%nat -> i <> j -> xorb (G i j) (G j i) = true.
Proof.
  intros Hi Hj Hij. destruct g_order as (Has & _ & Hto). unfold G.
  assert (Hne : it_at its i <> it_at its j).
  { intros E. apply Hij. now apply (it_at_inj its i j its_NoDup). }
  pose proof (it_at_In its i Hi) as Ii. pose proof (it_at_In its j Hj) as Ij.
  destruct (g (it_at its i) (it_at its j)) eqn:E1, (g (it_at its j) (it_at its i)) eqn:E2; auto.
  - exfalso. apply (Has _ _ Ii Ij Hne); assumption.
  - destruct (Hto _ _ Ii Ij Hne) as [L|L]; unfold lt in L; congruence.
Qed.

Lemma G_trans i j k : (i < n)%nat -> (j < n)%nat -> (k < n)%nat -> i <> j -> j <> k -> i <> k ->
  G i j = true -> G j k = true -> G i k = true.
Proof.
  intros Hi Hj Hk Hij Hjk Hik. destruct g_order as (_ & Htr & _). unfold G.
  apply Htr; auto using it_at_In; intros E;
    [apply Hij|apply Hjk|apply Hik]; eapply (it_at_inj its); eauto using its_NoDup.
Qed.

(* ---- ax ---- *)
Definition Mx : list (list bool) := map (fun a => map (fun b => g a b) its) its.

Lemma model_matrix :
  map (fun a => map (fun b => fst (build_cmp (m, rv) s_init a b)) its) its = Mx.
Proof.
  unfold Mx. apply map_ext_in. intros a Ia. apply map_ext_in. intros b Ib. now apply g_fresh.
Qed.

Lemma mat_at_Mx i j : (i < n)%nat -> (j < n)%nat -> mat_at Mx i j = G i j.
Proof.
  intros Hi Hj. unfold mat_at, Mx, G, it_at.
  rewrite (nth_indep _ [] ((fun a => map (fun b => g a b) its) dummy_item))
    by (rewrite map_length; exact Hi).
  rewrite (map_nth (fun a => map (fun b => g a b) its)).
  rewrite (nth_indep _ false (g (nth i its dummy_item) dummy_item))
    by (rewrite map_length; exact Hj).
  now rewrite (map_nth (fun b => g (nth i its dummy_item) b)).
Qed.

Lemma axioms_ok_Mx : axioms_ok n Mx = true.
Proof.
  unfold axioms_ok. apply forallb_forall. intros i Hi. apply in_seq in Hi.
  - apply forallb_forall. intros j Hj. apply in_seq in Hj.
    destruct (Nat.eqb_spec i j) as [->|Hij]; [reflexivity|]. cbn [orb].
    apply andb_true_iff. split.
    + rewrite !mat_at_Mx by lia. apply G_xor; lia.
    + apply forallb_forall. intros k Hk. apply in_seq in Hk.
      destruct (Nat.eqb_spec i k) as [->|Hik]; [reflexivity|].
      destruct (Nat.eqb_spec j k) as [->|Hjk]; [reflexivity|]. cbn [orb].
      rewrite !mat_at_Mx by lia.
      destruct (G i j) eqn:E1; [|reflexivity]. destruct (G j k) eqn:E2; [|reflexivity]. cbn.
      apply G_trans with j; auto; lia.
Qed.

(* ---- seq ---- *)
Lemma seq_consistent_G : forall ps seen,
  (forall p, In p ps -> (fst p < n)%nat /\ (snd p < n)%nat) ->
  (forall e, In e seen -> (fst (fst e) < n)%nat /\ (snd (fst e) < n)%nat /\
                          snd e = G (fst (fst e)) (snd (fst e))) ->
  seq_consistent ps (map (fun p => G (fst p) (snd p)) ps) seen = true.
Proof.
  induction ps as [|[i j] ps IH]; intros seen Hps Hseen; cbn; [reflexivity|].
  destruct (Hps (i, j)) as [Hi Hj]; [now left|]. cbn [fst snd] in Hi, Hj.
  apply andb_true_iff. split.
  - apply forallb_forall. intros [[i' j'] r'] He.
    destruct (Hseen _ He) as (Hi' & Hj' & Hr). cbn [fst snd] in Hi', Hj', Hr. subst r'.
    apply andb_true_iff. split.
    + destruct (Nat.eqb_spec i i') as [->|]; [|reflexivity].
      destruct (Nat.eqb_spec j j') as [->|]; [|reflexivity]. cbn. apply bool_eqb_refl.
    + destruct (Nat.eqb_spec i j') as [->|]; [|reflexivity].
      destruct (Nat.eqb_spec j i') as [->|]; [|reflexivity].
      destruct (Nat.eqb_spec j' i') as [->|Hne]; [reflexivity|]. cbn.
      apply G_xor; auto.
  - apply IH.
    + intros p Hp. apply Hps. now right.
    + intros e [<-|He]; [cbn; auto|now apply Hseen].
Qed.

Lemma model_seq ps :
  (forall p, In p ps -> (fst p < n)%nat /\ (snd p < n)%nat) ->
  fst (srun (build_cmp (m, rv)) s_init
            (map (fun p : nat * nat => (it_at its (fst p), it_at its (snd p))) ps))
  = map (fun p => G (fst p) (snd p)) ps.
Proof.
  intros Hps. destruct (build_cmp_pure m rv its f Hpure Hnd) as [_ [P [Hp0 Hp]]].
  destruct (srun_pure (build_cmp (m, rv)) P g its Hp
              (map (fun p : nat * nat => (it_at its (fst p), it_at its (snd p))) ps) s_init Hp0) as [E _].
  - intros q Hq. apply in_map_iff in Hq as [p [<- Hin]]. cbn.
    destruct (Hps p Hin). split; now apply it_at_In.
  - rewrite E, map_map. reflexivity.
Qed.

(* ---- sort ---- *)
Definition pairup (i : nat) : nat * item := (i, it_at its i).
Definition L : list (nat * item) := map pairup (seq 0 n).
Definition g' (a b : nat * item) : bool := g (snd a) (snd b).
Definition c' : scmp sstate (nat * item) := fun s a b => build_cmp (m, rv) s (snd a) (snd b).

Lemma L_spec a : In a L -> (fst a < n)%nat /\ a = pairup (fst a).
Proof.
  unfold L. intros H. apply in_map_iff in H as [i [<- Hi]]. apply in_seq in Hi. cbn. split; [lia|reflexivity].
Qed.
Lemma L_snd_In a : In a L -> In (snd a) its.
Proof. intros H. destruct (L_spec a H) as [Hlt ->]. cbn. now apply it_at_In. Qed.
Lemma L_snd_inj a b : In a L -> In b L -> snd a = snd b -> a = b.
Proof.
  intros Ha Hb E. destruct (L_spec a Ha) as [Hia Ea]. destruct (L_spec b Hb) as [Hib Eb].
  rewrite Ea, Eb in *. cbn in E. unfold pairup. f_equal; [|exact E].
  now apply (it_at_inj its _ _ its_NoDup).
Qed.
Lemma L_NoDup : NoDup L.
Proof.
  unfold L. apply FinFun.Injective_map_NoDup; [|apply seq_NoDup].
  intros i j E. now inversion E.
Qed.

Lemma g'_order : order_on g' L.
Proof.
  destruct g_order as (Has & Htr & Hto). unfold g', lt in *.
  assert (Hne : forall a b, In a L -> In b L -> a <> b -> snd a <> snd b).
  { intros a b Ia Ib Hab E. apply Hab. now apply L_snd_inj. }
  repeat split.
  - intros a b Ia Ib Hab. apply Has; auto using L_snd_In.
  - intros a b c Ia Ib Ic Hab Hbc Hac. apply Htr; auto using L_snd_In.
  - intros a b Ia Ib Hab. apply Hto; auto using L_snd_In.
Qed.

Lemma perm_of_seq p : is_perm_of_seq n p = true -> Permutation (seq 0 n) p.
Proof.
  unfold is_perm_of_seq. intros H. apply andb_true_iff in H as [H1 H2]. apply Nat.eqb_eq in H1.
  apply NoDup_Permutation_bis; [apply seq_NoDup|rewrite seq_length; lia|].
  intros i Hi. rewrite forallb_forall in H2. specialize (H2 i Hi).
  apply existsb_exists in H2 as [x [Hx E]]. apply Nat.eqb_eq in E. now subst.
Qed.

Definition Sx : list (nat * item) := isort g' L.

Lemma model_sort p : is_perm_of_seq n p = true ->
  fst (sisort c' s_init (map pairup p)) = Sx.
Proof.
  intros Hp. apply perm_of_seq in Hp.
  assert (HpL : Permutation L (map pairup p)) by (unfold L; now apply Permutation_map).
  destruct (build_cmp_pure m rv its f Hpure Hnd) as [_ [P [Hp0 Hpp]]].
  destruct (sisort_pure c' P g' L) with (r := map pairup p) (st := s_init) as [E _]; auto.
  - intros st a b Hst Ia Ib. unfold c', g'. apply Hpp; auto using L_snd_In.
  - intros x Hx. eapply Permutation_in; [apply Permutation_sym; exact HpL|exact Hx].
  - rewrite E. unfold Sx. apply isort_perm_invariant; auto using g'_order, L_NoDup.
Qed.

Lemma Sx_perm : Permutation L Sx.
Proof. apply isort_perm. Qed.

Lemma Sx_fst_perm : Permutation (seq 0 n) (map fst Sx).
Proof.
  replace (seq 0 n) with (map fst L).
  - apply Permutation_map, Sx_perm.
  - unfold L. rewrite map_map. cbn. apply map_id.
Qed.

Lemma Sx_is_perm : is_perm_of_seq n (map fst Sx) = true.
Proof.
  unfold is_perm_of_seq. apply andb_true_iff. split.
  - apply Nat.eqb_eq. rewrite <- (Permutation_length Sx_fst_perm). apply seq_length.
  - apply forallb_forall. intros i Hi. apply existsb_exists. exists i. split; [|apply Nat.eqb_refl].
    eapply Permutation_in; [apply Sx_fst_perm|exact Hi].
Qed.

Lemma sortedb_of_SS (X : list (nat * item)) :
  StronglySorted (lt g') X -> sortedb g (map snd X) = true.
Proof.
  induction 1 as [|a X HX IH Ha]; cbn; [reflexivity|].
  apply andb_true_iff. split; [|exact IH].
  apply forallb_forall. intros y Hy. apply in_map_iff in Hy as [b [<- Hb]].
  rewrite Forall_forall in Ha. exact (Ha b Hb).
Qed.

Lemma sortedb_impl {B} (h1 h2 : B -> B -> bool) :
  (forall a b, h1 a b = true -> h2 a b = true) ->
  forall X, sortedb h1 X = true -> sortedb h2 X = true.
Proof.
  intros Hi. induction X as [|x X IH]; cbn; [auto|]. intros H.
  apply andb_true_iff in H as [H1 H2]. apply andb_true_iff. split; [|auto].
  rewrite forallb_forall in *. intros y Hy. apply Hi. now apply H1.
Qed.

Lemma Sx_sorted : sortedb g (map (it_at its) (map fst Sx)) = true.
Proof.
  replace (map (it_at its) (map fst Sx)) with (map snd Sx).
  - apply sortedb_of_SS. apply (isort_sorted g' L g'_order); [apply incl_refl|apply L_NoDup].
  - rewrite map_map. apply map_ext_in. intros a Ha.
    assert (Ia : In a L) by (eapply Permutation_in; [apply Permutation_sym, Sx_perm|exact Ha]).
    destruct (L_spec a Ia) as [_ ->]. reflexivity.
Qed.

Lemma Sx_calendar : sortedb (cal_ok m rv) (map (it_at its) (map fst Sx)) = true.
Proof.
  apply (sortedb_impl g); [|apply Sx_sorted].
  intros a b. apply (cal_ok_sound m rv its f a b Hpure).
Qed.

(* ---- top: the first rows of the (merge-)sorted arrangement pass the linear check ---- *)
Definition Tx : list (nat * item) := msort g' L.
Lemma Tx_sorted : StronglySorted (lt g') Tx /\ Permutation L Tx.
Proof. apply msort_sorted; [apply g'_order|apply L_NoDup]. Qed.
Lemma Tx_In a : In a Tx -> In a L.
Proof. intros H. eapply Permutation_in; [apply Permutation_sym, (proj2 Tx_sorted)|exact H]. Qed.
Lemma Tx_NoDup : NoDup Tx.
Proof. eapply Permutation_NoDup; [apply (proj2 Tx_sorted)|apply L_NoDup]. Qed.

Lemma map_it_at_fst X : (forall a, In a X -> In a L) ->
  map (it_at its) (map fst X) = map snd X.
Proof.
  intros H. rewrite map_map. apply map_ext_in. intros a Ha.
  destruct (L_spec a (H a Ha)) as [_ ->]. reflexivity.
Qed.

Lemma top_ok_model limit : top_ok g its limit (map fst (firstn limit Tx)) = true.
Proof.
  destruct Tx_sorted as [HS HP].
  assert (Hlen : List.length Tx = n).
  { rewrite <- (Permutation_length HP). unfold L. now rewrite map_length, seq_length. }
  assert (HlenF : List.length (firstn limit Tx) = Nat.min limit n) by (now rewrite firstn_length, Hlen).
  remember (firstn limit Tx) as F eqn:EF. remember (skipn limit Tx) as R eqn:ER.
  assert (Hsplit : Tx = F ++ R) by (subst F R; symmetry; apply firstn_skipn).
  clear EF ER.
  assert (HinF : forall a, In a F -> In a Tx).
  { intros a Ha. rewrite Hsplit. apply in_or_app. now left. }
  unfold top_ok. repeat (apply andb_true_iff; split).
  - apply Nat.eqb_eq. now rewrite map_length.
  - apply forallb_forall. intros i Hi. apply in_map_iff in Hi as [a [<- Ha]].
    apply Nat.ltb_lt. apply (L_spec a). apply Tx_In. now apply HinF.
  - rewrite map_it_at_fst by (intros a Ha; apply Tx_In; now apply HinF).
    apply adjacent_of_SS. rewrite Hsplit in HS. exact (proj1 (SS_app_inv _ _ _ HS)).
  - destruct F as [|a0 F0]; [reflexivity|].
    destruct (@exists_last _ (a0 :: F0)) as [P [e EP]]; [discriminate|]. rewrite EP in *. clear EP a0 F0.
    rewrite map_app, rev_app_distr. cbn [map rev app].
    assert (He : In e Tx) by (apply HinF; apply in_or_app; right; now left).
    destruct (L_spec e (Tx_In e He)) as [Hlt Ee].
    assert (Elast : it_at its (fst e) = snd e) by (rewrite Ee at 2; reflexivity).
    rewrite Elast. apply Nat.eqb_eq.
    rewrite combine_seq_pairs. fold pairup. fold L.
    rewrite (filter_length_perm _ L Tx HP). rewrite Hsplit. rewrite <- app_assoc. cbn [app].
    rewrite Hsplit, <- app_assoc in HS. cbn [app] in HS.
    destruct (SS_app_inv _ _ _ HS) as (_ & HS2 & Hcross).
    inversion HS2 as [|? ? _ HeR]; subst. rewrite Forall_forall in HeR.
    pose proof Tx_NoDup as HndT. rewrite Hsplit, <- app_assoc in HndT. cbn [app] in HndT.
    rewrite !filter_app. cbn [filter]. rewrite Nat.eqb_refl. cbn [negb andb].
    rewrite filter_all, filter_none.
    + rewrite !app_length, map_length. cbn. lia.
    + intros r Hr.
      assert (Hre : r <> e).
      { intros ->. apply NoDup_remove_2 in HndT. apply HndT. apply in_or_app. now right. }
      assert (Ir : In r Tx) by (rewrite Hsplit, <- app_assoc; apply in_or_app; right; right; exact Hr).
      destruct (g (snd r) (snd e)) eqn:E; [|now rewrite andb_false_r].
      exfalso. destruct g'_order as (Has & _ & _).
      apply (Has e r (Tx_In e He) (Tx_In r Ir)); [intros Heq; apply Hre; now symmetry|apply HeR; exact Hr|exact E].
    + intros x Hx.
      assert (Hxe : x <> e).
      { intros ->. apply NoDup_remove_2 in HndT. apply HndT. apply in_or_app. now left. }
      assert (Ix : In x Tx) by (rewrite Hsplit, <- app_assoc; apply in_or_app; now left).
      apply andb_true_iff. split.
      * apply negb_true_iff, Nat.eqb_neq. intros Ef. apply Hxe.
        destruct (L_spec x (Tx_In x Ix)) as [_ Ex]. rewrite Ex, Ee, Ef. reflexivity.
      * apply (Hcross x e Hx). now left.
Qed.

End Case.

(* ---------------------------------------------------------------- soundness of the boolean form *)
Lemma check0_sound c : case_wf0 c = true -> in_domain0 c = true -> C13_check0 c (model0 c) = true.
Proof.
  destruct c as [md its | md its ps | md its perms | md its lim reps | md mdc br rk ck h | md sk gs hs | md bk keys h]; [| | | |discriminate|discriminate|discriminate];
    cbn [case_wf0 in_domain0 model0 C13_check0];
    destruct (parse_sort md) as [[m rv]|] eqn:Eps; auto.
  - (* ax *)
    intros Hwf Hdom. destruct (mode_pure m its) as [f|] eqn:Ef; [|discriminate].
    pose proof (names_distinct its Hwf) as Hnd.
    rewrite Hwf, (model_matrix m rv its f Ef Hnd), (axioms_ok_Mx m rv its f Ef Hnd). cbn.
    unfold matrix_is, Mx. apply mat_eq_off_refl.
  - (* seq *)
    intros Hwf Hdom. destruct (mode_pure m its) as [f|] eqn:Ef; [|discriminate].
    apply andb_true_iff in Hwf as [Hwf Hps]. pose proof (names_distinct its Hwf) as Hnd.
    assert (Hps' : forall p, In p ps -> (fst p < List.length its)%nat /\ (snd p < List.length its)%nat).
    { intros p Hp. rewrite forallb_forall in Hps. specialize (Hps p Hp).
      apply andb_true_iff in Hps as [H1 H2]. apply Nat.ltb_lt in H1, H2. auto. }
    rewrite Hwf, (model_seq m rv its f Ef Hnd ps Hps'). cbn.
    apply (seq_consistent_G m rv its f Ef Hnd); auto. intros e [].
  - (* sort *)
    intros Hwf Hdom. destruct (mode_pure m its) as [f|] eqn:Ef; [|discriminate].
    apply andb_true_iff in Hwf as [Hwf Hperms]. pose proof (names_distinct its Hwf) as Hnd.
    rewrite Hwf, map_length, Nat.eqb_refl. cbn [andb].
    assert (Hall : forall p, In p perms ->
              map fst (fst (sisort (fun s a b => build_cmp (m, rv) s (snd a) (snd b)) s_init
                                   (map (fun i => (i, it_at its i)) p)))
              = map fst (Sx rv its f)).
    { intros p Hp. rewrite forallb_forall in Hperms.
      f_equal. exact (model_sort m rv its f Ef Hnd p (Hperms p Hp)). }
    destruct perms as [|p1 perms']; [reflexivity|]. cbn [map].
    rewrite (Hall p1) by now left.
    rewrite (Sx_is_perm rv its f), (Sx_sorted m rv its f Ef Hnd), (Sx_calendar m rv its f Ef Hnd).
    rewrite !andb_true_r. cbn [forallb]. rewrite list_nat_eqb_refl. cbn [andb].
    apply forallb_forall. intros o Ho. apply in_map_iff in Ho as [p [<- Hp]].
    rewrite (Hall p) by now right. apply list_nat_eqb_refl.
  - (* top *)
    intros Hwf Hdom. destruct (mode_pure m its) as [f|] eqn:Ef; [|discriminate].
    pose proof (names_distinct its Hwf) as Hnd.
    rewrite combine_seq_pairs.
    change (msort (fun a b : nat * item => with_rev rv f (snd a) (snd b))
                  (map (fun i : nat => (i, it_at its i)) (seq 0 (List.length its))))
      with (Tx rv its f).
    rewrite repeat_length, Nat.eqb_refl. cbn [andb].
    destruct reps as [|reps]; [reflexivity|]. cbn [repeat].
    rewrite (top_ok_model m rv its f Ef Hnd lim), andb_true_r.
    cbn [forallb]. rewrite list_nat_eqb_refl. cbn [andb].
    apply forallb_forall. intros o Ho. apply repeat_spec in Ho. subst o. apply list_nat_eqb_refl.
Qed.

(* ---- tables: key indices of what is left, positions translated back and forth ---- *)
Lemma present_lines_In f l x : In x (map fst (present_lines f l)) -> In x l.
Proof.
  induction l as [|i r IH]; cbn; [auto|]. destruct (f i); cbn; [intros [<-|H]; auto|auto].
Qed.
Lemma present_lines_NoDup f l : NoDup l -> NoDup (map fst (present_lines f l)).
Proof.
  induction l as [|i r IH]; cbn; intros H; [constructor|]. inversion H as [|? ? Hn Hr]; subst.
  destruct (f i); cbn; [|auto]. constructor; [|auto]. intros Hin. apply Hn. eapply present_lines_In; eauto.
Qed.
Lemma table_view_NoDup mdc br rk ck h : NoDup (map fst (table_view mdc br rk ck h)).
Proof. unfold table_view, row_view, col_view. destruct br; apply present_lines_NoDup, seq_NoDup. Qed.

Lemma pos_of_nth : forall idx p, NoDup idx -> (p < List.length idx)%nat -> pos_of (nth p idx 0%nat) idx = p.
Proof.
  induction idx as [|y r IH]; intros p Hnd Hp; cbn in Hp; [lia|].
  inversion Hnd as [|? ? Hn Hr]; subst. destruct p as [|p]; cbn.
  - now rewrite Nat.eqb_refl.
  - destruct (Nat.eqb_spec (nth p r 0%nat) y) as [E|_].
    + exfalso. apply Hn. rewrite <- E. apply nth_In. lia.
    + f_equal. apply IH; auto. lia.
Qed.

(* collectors over histories reduce to the sort of their final items; tables answer in key indices *)
Theorem C13_check_sound_proof c : case_wf c = true -> in_domain c = true -> C13_check c (model c) = true.
Proof.
  unfold case_wf, in_domain. intros Hwf Hdom. apply andb_true_iff in Hwf as [Hwf _].
  pose proof (check0_sound (norm c) Hwf Hdom) as Hs.
  destruct c as [md its | md its ps | md its perms | md its lim reps | md mdc br rk ck h | md sk gs hs | md bk keys h];
    try exact Hs.
  unfold C13_check, model.
  set (v := table_view mdc br rk ck h) in *. set (idx := map fst v).
  set (its := view_items br rk ck v) in *.
  assert (Hlen : List.length its = List.length idx) by (unfold its, idx, view_items; now rewrite !map_length).
  assert (Hk : List.length v = List.length idx) by (unfold idx; now rewrite map_length).
  assert (Hndi : NoDup idx) by apply table_view_NoDup.
  change (norm (ITable md mdc br rk ck h)) with (ISort md its [seq 0 (List.length v)]) in *.
  cbn [model0 case_wf0 in_domain0] in *.
  destruct (parse_sort md) as [[m rv]|] eqn:Eps; [|exact Hs].
  destruct (mode_pure m its) as [f|] eqn:Ef; [|discriminate].
  apply andb_true_iff in Hwf as [Hwf Hperms]. pose proof (names_distinct its Hwf) as Hnd.
  cbn [map forallb] in Hperms. rewrite andb_true_r in Hperms.
  cbn [map] in *.
  pose proof (model_sort m rv its f Ef Hnd (seq 0 (List.length v)) Hperms) as Hms.
  unfold c', pairup in Hms. rewrite Hms in *. clear Hms.
  set (o := map fst (Sx rv its f)) in *.
  assert (Ho : forall p, In p o -> (p < List.length idx)%nat).
  { intros p Hp. rewrite <- Hlen.
    apply (Permutation_in p (Permutation_sym (Sx_fst_perm rv its f))) in Hp. now apply in_seq in Hp. }
  rewrite list_nat_eqb_refl. cbn [andb].
  assert (E1 : forallb (fun x => existsb (Nat.eqb x) idx) (map (fun p => nth p idx 0%nat) o) = true).
  { apply forallb_forall. intros x Hx. apply in_map_iff in Hx as [p [<- Hp]].
    apply existsb_exists. exists (nth p idx 0%nat). split; [apply nth_In; now apply Ho|apply Nat.eqb_refl]. }
  rewrite E1. cbn [andb].
  assert (E2 : map (fun x => pos_of x idx) (map (fun p => nth p idx 0%nat) o) = o).
  { rewrite map_map. rewrite <- (map_id o) at 2. apply map_ext_in. intros p Hp.
    apply pos_of_nth; auto. }
  rewrite E2. exact Hs.
Qed.

(* the model's view of a collector depends on the history only through the final totals; these do
   not depend on the order of arrival nor on intermediate reads *)
Lemma final_items_ext bk keys h1 h2 : (forall i, total h1 i = total h2 i) ->
  final_items bk keys h1 = final_items bk keys h2.
Proof. intros H. unfold final_items. apply map_ext. intros [i k]. cbn. now rewrite H. Qed.

Lemma collect_final_data md bk keys h1 h2 : (forall i, total h1 i = total h2 i) ->
  model (ICollect md bk keys h1) = model (ICollect md bk keys h2).
Proof. intros H. unfold model, norm. now rewrite (final_items_ext bk keys h1 h2 H). Qed.

Lemma total_perm h1 h2 : Permutation h1 h2 -> forall i, total h1 i = total h2 i.
Proof.
  induction 1 as [|e l l' _ IH|e1 e2 l|l l' l'' _ IH1 _ IH2]; intros i; cbn; auto.
  - destruct e; rewrite IH; reflexivity.
  - destruct e1, e2; lia.
  - now rewrite IH1.
Qed.

Fixpoint drop_reads (h : list ev) : list ev :=
  match h with
  | [] => []
  | ERead :: r => drop_reads r
  | e :: r => e :: drop_reads r
  end.
Lemma total_drop_reads h i : total (drop_reads h) i = total h i.
Proof. induction h as [|[k inc|] r IH]; cbn; auto. now rewrite IH. Qed.

(* ---- the views of a table depend on the cells only (through cget) ---- *)
Lemma line_ext g1 g2 n : (forall i, g1 i = g2 i) -> line g1 n = line g2 n.
Proof. intros H. unfold line. now rewrite (map_ext g1 g2 H). Qed.
Lemma present_lines_ext f1 f2 l : (forall i, f1 i = f2 i) -> present_lines f1 l = present_lines f2 l.
Proof. intros H. induction l as [|i r IH]; cbn; [reflexivity|]. now rewrite H, IH. Qed.
Lemma views_ext cs1 cs2 ncols nrows : (forall c r, cget cs1 c r = cget cs2 c r) ->
  row_view cs1 ncols nrows = row_view cs2 ncols nrows /\ col_view cs1 ncols nrows = col_view cs2 ncols nrows.
Proof.
  intros H. unfold row_view, col_view. split; apply present_lines_ext; intros i; apply line_ext; intros j; apply H.
Qed.

Lemma table_final_cells md mdc br rk ck h1 h2 :
  (forall c r, cget (final_cells mdc ck (List.length ck) (List.length rk) h1) c r =
               cget (final_cells mdc ck (List.length ck) (List.length rk) h2) c r) ->
  model (ITable md mdc br rk ck h1) = model (ITable md mdc br rk ck h2).
Proof.
  intros H.
  assert (E : table_view mdc br rk ck h1 = table_view mdc br rk ck h2).
  { unfold table_view. destruct (views_ext _ _ (List.length ck) (List.length rk) H) as [E1 E2].
    destruct br; assumption. }
  unfold model, norm. now rewrite E.
Qed.
