(* C06: the recursive walk (GlobExpand's filepath.Walk callback) emits exactly the regular files
   below the directory, each once, named by the chain of entry names that leads to it. *)
From Coq Require Import List NArith Arith Bool Lia FinFun.
From RareV Require Import Base.Hex Model.Input.
Import ListNotations.

Scheme tree_ind2 := Induction for tree Sort Prop
with forest_ind2 := Induction for forest Sort Prop.
Combined Scheme tree_forest_ind from tree_ind2, forest_ind2.

Definition emitted (p : path) (x : list name * content) : path * tree := (path_of p (fst x), TFile (snd x)).

(* the walk = the file chains, in order, each under the path Walk computes for it *)
Lemma walk_spec_both :
  (forall t p, walk_tree p t = map (emitted p) (chains_tree t)) /\
  (forall es p, walk_forest p es = map (emitted p) (chains_forest es)).
Proof.
  apply tree_forest_ind.
  - intros c p. reflexivity.
  - intros es IH p. simpl. apply IH.
  - intros p. reflexivity.
  - intros n t IHt r IHr p. simpl. rewrite map_app, map_map, IHt, IHr. reflexivity.
Qed.
Lemma walk_spec t p : walk_tree p t = map (emitted p) (chains_tree t).
Proof. apply walk_spec_both. Qed.

(* the walk never emits a directory *)
Lemma walk_files_only t p : Forall (fun x => exists c, snd x = TFile c) (walk_tree p t).
Proof.
  rewrite walk_spec. apply Forall_forall. intros x Hx. apply in_map_iff in Hx.
  destruct Hx as (y & <- & _). eexists. reflexivity.
Qed.

(* a chain is listed iff it leads from the tree to a regular file (with that content) *)
Lemma chains_leads_both :
  (forall t ch c, In (ch, c) (chains_tree t) <-> leads t ch c) /\
  (forall es ch c, In (ch, c) (chains_forest es) <->
                   exists n t ch', ch = n :: ch' /\ in_forest n t es /\ leads t ch' c).
Proof.
  apply tree_forest_ind.
  - intros c ch c'. simpl. split.
    + intros [H|[]]. inversion H; subst. constructor.
    + intros H. inversion H; subst. now left.
  - intros es IH ch c. simpl. rewrite IH. split.
    + intros (n & t & ch' & -> & Hin & Hl). econstructor; eauto.
    + intros H. inversion H; subst. eauto 6.
  - intros ch c. simpl. split; [tauto|]. intros (n & t & ch' & _ & [] & _).
  - intros n t IHt r IHr ch c. simpl. rewrite in_app_iff, IHr, in_map_iff. split.
    + intros [((ch0 & c0) & Heq & Hin) | (n' & t' & ch' & -> & Hin & Hl)].
      * simpl in Heq. inversion Heq; subst. apply IHt in Hin. exists n, t, ch0. auto.
      * exists n', t', ch'. auto.
    + intros (n' & t' & ch' & -> & [(-> & ->) | Hin] & Hl).
      * left. exists (ch', c). split; [reflexivity|]. now apply IHt.
      * right. eauto 6.
Qed.
Lemma chains_leads t ch c : In (ch, c) (chains_tree t) <-> leads t ch c.
Proof. apply chains_leads_both. Qed.

Lemma NoDup_app_disj {A} (l1 l2 : list A) :
  NoDup l1 -> NoDup l2 -> (forall x, In x l1 -> In x l2 -> False) -> NoDup (l1 ++ l2).
Proof.
  induction l1 as [|a l1 IH]; simpl; intros H1 H2 Hd; [assumption|].
  inversion H1; subst. constructor.
  - rewrite in_app_iff. intros [H|H]; [auto|]. eapply Hd; [left; reflexivity|assumption].
  - apply IH; auto. intros x Hx. apply Hd. now right.
Qed.

Lemma chain_heads es : forall ch, In ch (map fst (chains_forest es)) -> exists n ch', ch = n :: ch' /\ In n (forest_names es).
Proof.
  induction es as [|n t r IH]; simpl; intros ch H; [contradiction|].
  rewrite map_app, in_app_iff, map_map in H. destruct H as [H|H].
  - apply in_map_iff in H. destruct H as (x & <- & _). simpl. eauto.
  - destruct (IH _ H) as (n' & ch' & -> & Hn). eauto.
Qed.

(* when no directory lists a name twice, no chain is listed twice *)
Lemma chains_nodup_both :
  (forall t, wf_tree t -> NoDup (map fst (chains_tree t))) /\
  (forall es, wf_forest es -> NoDup (forest_names es) -> NoDup (map fst (chains_forest es))).
Proof.
  apply tree_forest_ind.
  - intros c _. simpl. constructor; [intros []|constructor].
  - intros es IH (Hn & Hw). simpl. auto.
  - intros _ _. constructor.
  - intros n t IHt r IHr (Hwt & Hwr) Hnd. simpl in *. inversion Hnd; subst.
    rewrite map_app, map_map. apply NoDup_app_disj.
    + change (fun x : list name * content => fst (n :: fst x, snd x)) with (fun x : list name * content => n :: fst x).
      rewrite <- (map_map fst (cons n)). apply Injective_map_NoDup; [|auto].
      intros a b H. now inversion H.
    + auto.
    + intros ch Ha Hb. apply in_map_iff in Ha. destruct Ha as (x & <- & _). simpl in Hb.
      destruct (chain_heads _ _ Hb) as (n' & ch' & Heq & Hin). inversion Heq; subst. contradiction.
Qed.
Lemma chains_nodup t : wf_tree t -> NoDup (map fst (chains_tree t)).
Proof. apply chains_nodup_both. Qed.

(* counting through a map *)
Lemma count_occ_map_filter {A} (f : A -> bytes) (dec : forall x y : bytes, {x = y} + {x <> y}) (p : bytes) (l : list A) :
  count_occ dec (map f l) p = length (filter (fun x => bytes_eqb (f x) p) l).
Proof.
  induction l as [|a l IH]; simpl; [reflexivity|].
  destruct (dec (f a) p) as [e|ne].
  - apply bytes_eqb_eq in e. rewrite e. simpl. now rewrite IH.
  - destruct (bytes_eqb (f a) p) eqn:E; [apply bytes_eqb_eq in E; contradiction|]. exact IH.
Qed.

Definition bytes_dec : forall x y : bytes, {x = y} + {x <> y} := list_eq_dec N.eq_dec.

(* how often the walk of directory [a] emits path [p] = the number of file chains that [p] names *)
Lemma walk_count a t p :
  count_occ bytes_dec (map fst (walk_tree a t)) p =
  length (filter (fun ch => bytes_eqb (path_of a ch) p) (map fst (chains_tree t))).
Proof.
  rewrite walk_spec, map_map. unfold emitted. simpl.
  rewrite <- (map_map fst (path_of a)). apply count_occ_map_filter.
Qed.

(* ---- Walk's paths determine the chain: names are non-empty and contain no separator ---- *)
Definition good_name (n : name) : Prop := n <> [] /\ ~ In SLASH n.
Fixpoint good_tree (t : tree) : Prop :=
  match t with TFile _ => True | TDir es => good_forest es end
with good_forest (es : forest) : Prop :=
  match es with FNil => True | FCons n t r => good_name n /\ good_tree t /\ good_forest r end.

Lemma strip_rev_noslash r b : b <> SLASH -> strip_rev (b :: r) = b :: r.
Proof. intros H. simpl. destruct (N.eqb b SLASH) eqn:E; [apply N.eqb_eq in E; contradiction|reflexivity]. Qed.

Lemma strip_join p n : good_name n -> strip_slashes (join p n) = join p n.
Proof.
  intros (Hne & Hns). unfold join. generalize (strip_slashes p). intros sp. unfold strip_slashes.
  destruct (rev n) as [|b r] eqn:E.
  - apply (f_equal (@rev _)) in E. rewrite rev_involutive in E. simpl in E. contradiction.
  - assert (Hb : b <> SLASH).
    { intros ->. apply Hns. apply in_rev. rewrite E. now left. }
    replace (sp ++ SLASH :: n) with ((sp ++ [SLASH]) ++ n) by (rewrite <- app_assoc; reflexivity).
    rewrite rev_app_distr, E. simpl app. rewrite strip_rev_noslash by assumption.
    change (b :: r ++ rev (sp ++ [SLASH])) with ((b :: r) ++ rev (sp ++ [SLASH])).
    rewrite <- E, <- rev_app_distr, rev_involutive. reflexivity.
Qed.

(* the text Walk appends for a chain *)
Fixpoint suffix_of (ch : list name) : bytes :=
  match ch with [] => [] | n :: r => SLASH :: n ++ suffix_of r end.

Lemma path_of_suffix ch : forall p, Forall good_name ch -> ch <> [] -> path_of p ch = strip_slashes p ++ suffix_of ch.
Proof.
  induction ch as [|n r IH]; intros p Hg Hne; [contradiction|].
  inversion Hg; subst. simpl. destruct r as [|m r'].
  - simpl. unfold join. now rewrite app_nil_r.
  - rewrite IH by (auto; discriminate). rewrite strip_join by assumption. unfold join.
    rewrite <- app_assoc. simpl. reflexivity.
Qed.

Lemma split_at_slash (a b x y : bytes) : ~ In SLASH a -> ~ In SLASH b ->
  a ++ x = b ++ y -> (x = [] \/ exists x', x = SLASH :: x') -> (y = [] \/ exists y', y = SLASH :: y') -> a = b /\ x = y.
Proof.
  revert b. induction a as [|c a IH]; intros b Ha Hb Heq Hx Hy.
  - destruct b as [|e b]; [auto|]. simpl in Heq. exfalso. destruct Hx as [->|(x' & ->)]; [discriminate|].
    inversion Heq; subst. apply Hb. now left.
  - destruct b as [|e b].
    + simpl in Heq. exfalso. destruct Hy as [->|(y' & ->)]; [discriminate|]. inversion Heq; subst. apply Ha. now left.
    + simpl in Heq. inversion Heq; subst. destruct (IH b) as (-> & ->); auto.
      * intros H. apply Ha. now right.
      * intros H. apply Hb. now right.
Qed.

Lemma suffix_shape ch : suffix_of ch = [] \/ exists s, suffix_of ch = SLASH :: s.
Proof. destruct ch; simpl; eauto. Qed.

Lemma suffix_inj ch1 : forall ch2, Forall good_name ch1 -> Forall good_name ch2 -> suffix_of ch1 = suffix_of ch2 -> ch1 = ch2.
Proof.
  induction ch1 as [|n r IH]; intros [|m s] H1 H2 Heq; simpl in *; try discriminate; [reflexivity|].
  inversion H1; subst. inversion H2; subst. inversion Heq as [Heq'].
  destruct (split_at_slash n m (suffix_of r) (suffix_of s)) as (-> & Hs); auto using suffix_shape.
  - apply H3.
  - apply H5.
  - f_equal. auto.
Qed.

Lemma path_of_inj p ch1 ch2 : Forall good_name ch1 -> Forall good_name ch2 -> ch1 <> [] -> ch2 <> [] ->
  path_of p ch1 = path_of p ch2 -> ch1 = ch2.
Proof.
  intros G1 G2 N1 N2 H. rewrite !path_of_suffix in H by assumption.
  apply app_inv_head in H. now apply suffix_inj.
Qed.

Lemma chains_good_both :
  (forall t, good_tree t -> Forall (Forall good_name) (map fst (chains_tree t))) /\
  (forall es, good_forest es -> Forall (fun ch => Forall good_name ch /\ ch <> []) (map fst (chains_forest es))).
Proof.
  apply tree_forest_ind.
  - intros c _. simpl. repeat constructor.
  - intros es IH H. simpl in *. eapply Forall_impl; [|apply IH; assumption]. simpl. tauto.
  - intros _. constructor.
  - intros n t IHt r IHr (Hn & Ht & Hr). simpl. rewrite map_app, map_map. apply Forall_app. split; [|auto].
    apply Forall_forall. intros ch Hin. apply in_map_iff in Hin. destruct Hin as (x & <- & Hx). simpl.
    split; [|discriminate]. constructor; [assumption|].
    specialize (IHt Ht). rewrite Forall_forall in IHt. apply IHt. apply in_map_iff. eauto.
Qed.

(* below a directory whose names are well-formed, a path is emitted at most once *)
Lemma walk_dir_nodup a es : wf_tree (TDir es) -> good_forest es -> NoDup (map fst (walk_tree a (TDir es))).
Proof.
  intros Hwf Hg. rewrite walk_spec, map_map. unfold emitted. simpl fst.
  rewrite <- (map_map fst (path_of a)).
  pose proof (chains_nodup _ Hwf) as Hnd. simpl chains_tree in *.
  pose proof (proj2 chains_good_both es Hg) as Hgood. rewrite Forall_forall in Hgood.
  revert Hnd Hgood. generalize (map fst (chains_forest es)). intros l Hnd Hgood.
  induction l as [|ch l IH]; simpl; [constructor|].
  inversion Hnd; subst. constructor.
  - intros Hin. apply in_map_iff in Hin. destruct Hin as (ch' & Heq & Hin').
    destruct (Hgood ch (or_introl eq_refl)) as (G1 & N1). destruct (Hgood ch' (or_intror Hin')) as (G2 & N2).
    apply path_of_inj in Heq; auto. subst. contradiction.
  - apply IH; auto. intros x Hx. apply Hgood. now right.
Qed.
