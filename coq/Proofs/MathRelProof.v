(* C19 — the parser never looks inside an atom: parsing commutes with any relation on atoms
   (used for "replacing a constant by a variable bound to the same value changes nothing"). *)
From Coq Require Import List Arith Lia Bool ZArith.
From RareV Require Import Base.Res Model.MathParse Proofs.MathParseProof.
Import ListNotations.

Section Rel.
Variables A M Op : Type.
Variable oeqb : Op -> Op -> bool.
Variable tbl : list (list Op).
Variable isop : Op -> bool.
Variable mulop : Op.
Variable repaired : bool.
Variable R : A -> A -> Prop.

Notation tok := (tok A M Op).
Notation ast := (ast A M Op).
Notation pres := (pres A M Op).
Notation parse := (parse A M Op oeqb tbl isop mulop repaired).
Notation next_expr := (next_expr A M Op oeqb tbl isop mulop repaired).
Notation loop := (loop A M Op oeqb tbl isop mulop repaired).

Inductive tokR : tok -> tok -> Prop :=
| RA a a' : R a a' -> tokR (TAtom a) (TAtom a')
| RO o : tokR (TOp o) (TOp o)
| RM m : tokR (TMod m) (TMod m)
| RG g g' : Forall2 tokR g g' -> tokR (TGroup g) (TGroup g').

Inductive astR : ast -> ast -> Prop :=
| RAtom a a' : R a a' -> astR (Atom a) (Atom a')
| RUn m e e' : astR e e' -> astR (Un m e) (Un m e')
| RBin o i l l' r r' : astR l l' -> astR r r' -> astR (Bin o i l r) (Bin o i l' r')
| RGrp e e' : astR e e' -> astR (Grp e) (Grp e').

Definition presR (a b : pres) : Prop :=
  match a, b with
  | POk t r, POk t' r' => astR t t' /\ Forall2 tokR r r'
  | PErr, PErr => True | PFuel, PFuel => True | PPanic, PPanic => True
  | _, _ => False
  end.

Lemma natural fuel :
  (forall last ts ts', Forall2 tokR ts ts' -> presR (parse fuel last ts) (parse fuel last ts')) /\
  (forall ts ts', Forall2 tokR ts ts' -> presR (next_expr fuel ts) (next_expr fuel ts')) /\
  (forall last ret ret' ts ts', astR ret ret' -> Forall2 tokR ts ts' ->
        presR (loop fuel last ret ts) (loop fuel last ret' ts')).
Proof.
  induction fuel as [|f (IHp & IHn & IHl)]; [repeat split; intros; exact I|].
  split; [|split].
  - intros last ts ts' H. rewrite !(parse_S A M Op oeqb tbl isop mulop repaired).
    destruct H as [|x x' ts0 ts0' Hx H0]; [exact I|].
    pose proof (IHn _ _ (Forall2_cons _ _ Hx H0)) as Hn.
    destruct (next_expr f (x :: ts0)) as [e r| | |], (next_expr f (x' :: ts0')) as [e' r'| | |]; simpl in Hn; try contradiction; try exact I.
    destruct Hn as [He Hr]. apply IHl; assumption.
  - intros ts ts' H. rewrite !(next_S A M Op oeqb tbl isop mulop repaired).
    destruct H as [|x x' ts0 ts0' Hx H0]; [destruct repaired; exact I|].
    destruct Hx as [a a' Ha|o|m|g g' Hg].
    + simpl. split; [constructor; exact Ha|exact H0].
    + exact I.
    + pose proof (IHn _ _ H0) as Hn.
      destruct (next_expr f ts0) as [e r| | |], (next_expr f ts0') as [e' r'| | |]; simpl in Hn; try contradiction; try exact I.
      destruct Hn as [He Hr]. simpl. split; [constructor; exact He|exact Hr].
    + pose proof (IHp None _ _ Hg) as Hp.
      destruct (parse f None g) as [e r| | |], (parse f None g') as [e' r'| | |]; simpl in Hp; try contradiction; try exact I.
      destruct Hp as [He Hr]. destruct Hr; simpl; [split; [constructor; exact He|exact H0]|exact I].
  - intros last ret ret' ts ts' Hret H. rewrite !(loop_S A M Op oeqb tbl isop mulop repaired).
    destruct H as [|x x' ts0 ts0' Hx H0]; [simpl; split; [exact Hret|constructor]|].
    destruct Hx as [a a' Ha|o|m|g g' Hg]; try exact I.
    + destruct (negb (isop o)); [exact I|].
      destruct (stopsR Op oeqb tbl last o) as [[|]|]; [simpl; split; [exact Hret|constructor; [constructor|exact H0]]| |exact I].
      pose proof (IHp (Some o) _ _ H0) as Hp.
      destruct (parse f (Some o) ts0) as [e r| | |], (parse f (Some o) ts0') as [e' r'| | |]; simpl in Hp; try contradiction; try exact I.
      destruct Hp as [He Hr]. apply IHl; [constructor; assumption|exact Hr].
    + destruct (stopsR Op oeqb tbl last mulop) as [[|]|];
        [simpl; split; [exact Hret|constructor; [constructor; exact Hg|exact H0]]| |exact I].
      pose proof (IHp (Some mulop) (TGroup g :: ts0) (TGroup g' :: ts0')
                      (Forall2_cons _ _ (RG _ _ Hg) H0)) as Hp.
      destruct (parse f (Some mulop) (TGroup g :: ts0)) as [e r| | |],
               (parse f (Some mulop) (TGroup g' :: ts0')) as [e' r'| | |]; simpl in Hp; try contradiction; try exact I.
      destruct Hp as [He Hr]. apply IHl; [constructor; assumption|exact Hr].
Qed.

(* related token lists have the same size, hence get the same fuel *)
Lemma toksize_rel : forall x x', tokR x x' -> toksize A M Op x = toksize A M Op x'.
Proof.
  fix IH 3. intros x x' H. destruct H as [a a' Ha|o|m|g g' Hg]; try reflexivity.
  rewrite !toksize_group. f_equal.
  induction Hg as [|y y' g0 g0' Hy Hg0 IHg]; [reflexivity|].
  cbn [MathParse.tsize]. rewrite (IH _ _ Hy), IHg. reflexivity.
Qed.
Lemma tsize_rel ts ts' : Forall2 tokR ts ts' -> tsize A M Op ts = tsize A M Op ts'.
Proof.
  induction 1 as [|y y' g0 g0' Hy Hg0 IHg]; [reflexivity|].
  cbn [MathParse.tsize]. rewrite (toksize_rel _ _ Hy), IHg. reflexivity.
Qed.

Lemma natural_top ts ts' : Forall2 tokR ts ts' ->
  presR (parse_top A M Op oeqb tbl isop mulop repaired ts) (parse_top A M Op oeqb tbl isop mulop repaired ts').
Proof.
  intros H. unfold parse_top, fuel_for. rewrite (tsize_rel _ _ H).
  destruct (natural (4 * tsize A M Op ts' + 3)) as (Np & _ & _). apply Np, H.
Qed.

End Rel.
