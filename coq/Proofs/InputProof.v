(* C06: expansion = what the arguments denote (each mention once), openFileToReader delivers file
   content from its first byte / gzip content decoded, failed inputs are counted and isolated
   (instantiating the C01 pipeline theorems), stdin selection, soundness of the boolean form. *)
From Coq Require Import List NArith ZArith Arith Bool Lia Permutation.
From RareV Require Import Base.Hex Base.Num Model.Lines Model.Batch Model.Pipeline Model.Exit Model.Input
  Gen.GenC06 Proofs.BatchProof Proofs.PipelineProof Proofs.InputWalk.
Import ListNotations.

Section InputProof.
Variable fs : path -> node.
Variable glob : path -> option (list path).
Variable gunzip : content -> option (content * bool).
Variable probe : path -> nat.
Variable flush : list bool.

Notation expand1 := (expand1 fs glob).
Notation expand := (expand fs glob).
Notation mention_list := (mention_list fs glob).
Notation open_input := (open_input gunzip).
Notation delivered := (delivered gunzip).
Notation source_of := (source_of gunzip probe).
Notation source_logs := (source_logs gunzip probe).

(* ---------- expansion ---------- *)
Lemma expand1_spec r a : fst (expand1 r a) = mention_list r a.
Proof.
  unfold Input.expand1, Input.mention_list. destruct (fs a) as [|[c|es]] eqn:E; simpl.
  - rewrite andb_false_r. destruct (glob a) as [[|q l]|]; reflexivity.
  - rewrite andb_false_r. destruct (glob a) as [[|q l]|]; reflexivity.
  - rewrite andb_true_r. destruct r; simpl.
    + pose proof (walk_spec (TDir es) a) as H. simpl in H. rewrite H, map_map. reflexivity.
    + destruct (glob a) as [[|q l]|]; reflexivity.
Qed.

Theorem expand_spec r args : fst (expand r args) = flat_map (mention_list r) args.
Proof. induction args as [|a args IH]; simpl; [reflexivity|]. now rewrite expand1_spec, IH. Qed.

(* how often an argument mentions path p *)
Definition glob_mentions (a p : path) : nat :=
  match glob a with
  | Some (q :: l) => count_occ bytes_dec (q :: l) p       (* the pattern's matches *)
  | _ => if bytes_eqb a p then 1 else 0                    (* no match (or not a pattern): the argument itself *)
  end.
Definition mentions (r : bool) (p : path) (a : path) : nat :=
  match fs a with
  | Found (TDir es) =>
      if r then length (filter (fun ch => bytes_eqb (path_of a ch) p) (map fst (chains_forest es)))   (* file chains below a that p names *)
      else glob_mentions a p
  | _ => glob_mentions a p
  end.

Lemma count_single (a p : path) (n : node) : count_occ bytes_dec (map fst [(a, n)]) p = if bytes_eqb a p then 1 else 0.
Proof.
  simpl. destruct (bytes_dec a p) as [e|ne].
  - apply bytes_eqb_eq in e. now rewrite e.
  - destruct (bytes_eqb a p) eqn:E; [apply bytes_eqb_eq in E; contradiction|reflexivity].
Qed.

Lemma glob_branch_count a p n :
  count_occ bytes_dec (map fst (match glob a with Some (q :: l) => map (fun q0 => (q0, fs q0)) (q :: l) | _ => [(a, n)] end)) p
  = glob_mentions a p.
Proof.
  unfold glob_mentions. destruct (glob a) as [[|q l]|].
  - apply count_single.
  - rewrite map_map. simpl map. rewrite map_id. reflexivity.
  - apply count_single.
Qed.

Lemma mention_count r a p : count_occ bytes_dec (map fst (mention_list r a)) p = mentions r p a.
Proof.
  unfold Input.mention_list, mentions. destruct (fs a) as [|[c|es]] eqn:E; try apply glob_branch_count.
  destruct r; [|apply glob_branch_count].
  rewrite map_map. simpl fst. rewrite <- (map_map fst (path_of a)). apply count_occ_map_filter.
Qed.

Theorem once_per_mention r args p :
  count_occ bytes_dec (map fst (fst (expand r args))) p = list_sum (map (mentions r p) args).
Proof.
  rewrite expand_spec. induction args as [|a args IH]; [reflexivity|].
  cbn [flat_map map list_sum]. rewrite map_app, count_occ_app, mention_count. cbn [list_sum fold_right]. apply f_equal. exact IH.
Qed.

(* below a -R directory with well-formed listings: every path at most once, and exactly the regular files *)
Theorem once_below_dir a es p : fs a = Found (TDir es) -> wf_tree (TDir es) -> good_forest es ->
  mentions true p a <= 1 /\
  (mentions true p a = 1 <-> exists ch c, leads (TDir es) ch c /\ path_of a ch = p).
Proof.
  intros E Hwf Hg. unfold mentions. rewrite E.
  pose proof (walk_count a (TDir es) p) as Hc. simpl chains_tree in Hc. rewrite <- Hc.
  pose proof (walk_dir_nodup a es Hwf Hg) as Hnd.
  pose proof (proj1 (NoDup_count_occ bytes_dec _) Hnd p) as Hle. split; [exact Hle|].
  assert (Hin : In p (map fst (walk_tree a (TDir es))) <-> exists ch c, leads (TDir es) ch c /\ path_of a ch = p).
  { rewrite walk_spec. rewrite in_map_iff. split.
    - intros (x & Hx & Hi). apply in_map_iff in Hi. destruct Hi as ((ch & c) & <- & Hi). simpl in Hx.
      exists ch, c. split; [now apply chains_leads|assumption].
    - intros (ch & c & Hl & Hp). exists (path_of a ch, TFile c). split; [assumption|].
      apply in_map_iff. exists (ch, c). split; [reflexivity|now apply chains_leads]. }
  rewrite <- Hin. rewrite (count_occ_In bytes_dec). lia.
Qed.

(* ---------- openFileToReader ---------- *)
Lemma fd_rest_seek k c : fd_rest (fd_seek0 (fd_advance k (fd_open c))) = c.
Proof. reflexivity. Qed.
Lemma skipn_min {A} k (c : list A) : skipn (Nat.min k (length c)) c = skipn k c.
Proof.
  destruct (Nat.le_gt_cases k (length c)) as [H|H].
  - now rewrite Nat.min_l.
  - rewrite Nat.min_r by lia. rewrite skipn_all. symmetry. apply skipn_all2. lia.
Qed.
(* recording what the probe consumed and replaying it delivers the whole content, for every k *)
Lemma fd_replay_all k c : fd_replay k (fd_open c) = c.
Proof. unfold fd_replay, fd_read, fd_rest, fd_advance, fd_open. simpl. rewrite skipn_min. apply firstn_skipn. Qed.

Theorem plain_from_first_byte c k : gunzip c = None -> open_input true k (Found (TFile c)) = Some (c, false, 1).
Proof. intros H. unfold Input.open_input. rewrite H, fd_replay_all. reflexivity. Qed.
(* the Seek(0) fallback: right on seekable descriptors, loses the probed bytes on pipes *)
Theorem seek_fallback seekable k c :
  open_input_seek seekable k c = if seekable then c else skipn (Nat.min k (length c)) c.
Proof. destruct seekable; reflexivity. Qed.
Theorem plain_no_gunzip c k : open_input false k (Found (TFile c)) = Some (c, false, 0).
Proof. reflexivity. Qed.
Theorem gzip_decoded c k d e : gunzip c = Some (d, e) -> open_input true k (Found (TFile c)) = Some (d, e, 0).
Proof. intros H. unfold Input.open_input. now rewrite H. Qed.
Theorem noseek_loses k c : open_input_noseek k c = skipn (Nat.min k (length c)) c.
Proof. reflexivity. Qed.

Lemma open_delivered z k n :
  match open_input z k n with None => None | Some (d, e, _) => Some (d, e) end = delivered z n.
Proof.
  destruct n as [|[c|es]]; simpl; try reflexivity.
  destruct z; [|reflexivity]. destruct (gunzip c) as [[d e]|]; [reflexivity|]. now rewrite fd_replay_all.
Qed.

(* ---------- sources of the reader pool ---------- *)
Lemma source_lines z bsz pn :
  (if fst (fst (source_of z bsz pn)) then flat_map b_ids (snd (source_of z bsz pn)) else []) = spec_lines_of gunzip z pn.
Proof.
  unfold Input.source_of, spec_lines_of. rewrite <- (open_delivered z (probe (fst pn)) (snd pn)).
  destruct (open_input z (probe (fst pn)) (snd pn)) as [[[d e] g]|]; simpl; [apply cut_ids|reflexivity].
Qed.
Lemma source_errs z bsz pn :
  (if fst (fst (source_of z bsz pn)) then b2n (snd (fst (source_of z bsz pn))) else 1) = spec_failed gunzip z pn.
Proof.
  unfold Input.source_of, spec_failed. rewrite <- (open_delivered z (probe (fst pn)) (snd pn)).
  destruct (open_input z (probe (fst pn)) (snd pn)) as [[[d e] g]|]; simpl; [destruct e|]; reflexivity.
Qed.

Theorem input_of_sources z bsz pns : input_of (map (source_of z bsz) pns) = flat_map (spec_lines_of gunzip z) pns.
Proof.
  unfold input_of. induction pns as [|pn pns IH]; simpl; [reflexivity|]. now rewrite IH, source_lines.
Qed.
Theorem errors_of_sources z bsz pns : errors_of (map (source_of z bsz) pns) = list_sum (map (spec_failed gunzip z) pns).
Proof.
  unfold errors_of. induction pns as [|pn pns IH]; simpl; [reflexivity|]. now rewrite IH, source_errs.
Qed.

Lemma failed_le_logs z pn : spec_failed gunzip z pn <= source_logs z pn.
Proof.
  unfold spec_failed, Input.source_logs. rewrite <- (open_delivered z (probe (fst pn)) (snd pn)).
  destruct (open_input z (probe (fst pn)) (snd pn)) as [[[d e] g]|]; [destruct e|]; lia.
Qed.

(* ---------- the reader pool: failures are counted and isolated, under every schedule ---------- *)
Section Pool.
Variable K : Type.
Variable cl : lineid -> cls K.
Variable c : cfg.

Lemma n_send_done r : all_done_r r -> n_send r = 0.
Proof. induction 1 as [|x r Hx _ IH]; [reflexivity|]. subst x. exact IH. Qed.

(* at the end (no goroutine can move): the error count is the number of inputs that could not be
   opened or failed while being read; every line delivered by every input that opened has been
   classified exactly once (also those of inputs that failed later, up to the failure); the keys
   consumed are the sequential ones; the semaphore is free *)
Theorem failures_isolated z bsz pns nw s : cfg_ok c -> nw >= 1 ->
  reach K cl c (init K (map (source_of z bsz) pns) nw) s -> (forall s', ~ step K cl c s s') ->
  errs K s = list_sum (map (spec_failed gunzip z) pns) /\
  Permutation (processed K s) (flat_map (spec_lines_of gunzip z) pns) /\
  Permutation (consumed K s) (seq_keys K cl (flat_map (spec_lines_of gunzip z) pns)) /\
  cM K s = list_sum (map (isM K cl) (flat_map (spec_lines_of gunzip z) pns)) /\
  sema K s = 0 /\ all_done_r (rd K s).
Proof.
  intros Hc Hn Hr Ht.
  destruct (reach_inv K cl c _ _ _ Hn Hr) as (I1 & I2 & I3).
  destruct (cdone K s) eqn:Hd.
  2:{ exfalso. destruct (progress K cl c s Hc I2 Hd) as (s' & Hs). exact (Ht s' Hs). }
  destruct (finished_all K cl _ _ _ I1 I2 I3 Hd) as (P1 & P2 & _ & P4 & _ & P6).
  rewrite input_of_sources in *. rewrite errors_of_sources in P6.
  repeat split; auto.
  - destruct I2 as (Hs & Hcl & Hw & Hrcl & Hcd). destruct (Hcd Hd) as (Hrc & _). pose proof (Hrcl Hrc) as Hall.
    assert (Hin : In WDone (wk K s)).
    { destruct (wk K s) as [|x w]; [congruence|]. inversion Hall; subst. now left. }
    destruct (Hw Hin) as (Hclosed & _). rewrite Hs. apply n_send_done. auto.
  - destruct I2 as (Hs & Hcl & Hw & Hrcl & Hcd). destruct (Hcd Hd) as (Hrc & _). pose proof (Hrcl Hrc) as Hall.
    assert (Hin : In WDone (wk K s)).
    { destruct (wk K s) as [|x w]; [congruence|]. inversion Hall; subst. now left. }
    destruct (Hw Hin) as (Hclosed & _). auto.
Qed.

(* the semaphore counts exactly the readers that hold it, in every reachable state: it is released
   on the open-failure path (which never holds it across a step) and at end of stream / read error *)
Theorem sema_balanced srcs nw s : nw >= 1 -> reach K cl c (init K srcs nw) s ->
  sema K s = n_send (rd K s) /\ sema K s <= length srcs.
Proof.
  intros Hn Hr. destruct (reach_inv K cl c _ _ _ Hn Hr) as (_ & (Hs & _) & _). split; [exact Hs|].
  rewrite Hs. assert (Hl : length (rd K s) = length srcs).
  { clear Hs. induction Hr as [|s s' Hr IH Hst].
    - unfold init. simpl. now rewrite map_length.
    - rewrite <- IH. inversion Hst; subst; simpl;
        try match goal with H : rd K s = _ |- _ => rewrite H end; rewrite ?app_length; simpl; reflexivity. }
  rewrite <- Hl. unfold n_send. generalize (rd K s). intros l. induction l as [|x l IH]; simpl; [lia|].
  destruct x; simpl; lia.
Qed.
End Pool.

(* with the identity classification the theorem says: every line is consumed *)
Lemma seq_keys_id l : seq_keys lineid (fun x => Mat x) l = l.
Proof. unfold seq_keys, key_of. induction l as [|x l IH]; simpl; [reflexivity|]. now rewrite IH. Qed.

(* ---------- stdin ---------- *)
Theorem use_stdin_spec args : use_stdin args = true <-> args = [] \/ exists r, args = DASH :: r.
Proof.
  destruct args as [|a r]; simpl.
  - split; auto.
  - rewrite bytes_eqb_eq. split.
    + intros ->. right. eauto.
    + intros [H|(r' & H)]; [discriminate|]. now inversion H.
Qed.

Theorem stdin_single i : use_stdin (ci_args i) = true -> ci_gunzip i = false ->
  let src := stdin_source flush (ci_batch i) (ci_stdin i) (ci_stdin_err i) in
  cli_sources fs glob gunzip probe flush i = Some ([src], if ci_stdin_err i then 1 else 0) /\
  input_of [src] = numbered StdinName 1%N (lines_spec (ci_stdin i)) /\
  errors_of [src] = (if ci_stdin_err i then 1 else 0).
Proof.
  intros H1 H2. unfold cli_sources. rewrite H1, H2. split; [reflexivity|]. split.
  - unfold input_of, stdin_source. simpl. rewrite app_nil_r. apply cut_ids.
  - unfold errors_of, stdin_source. simpl. destruct (ci_stdin_err i); reflexivity.
Qed.
Theorem stdin_failure_exit i : use_stdin (ci_args i) = true -> ci_gunzip i = false -> ci_stdin_err i = true ->
  co_exit (cli_model fs glob gunzip probe flush i) = 2%Z /\ 1 <= co_nlog (cli_model fs glob gunzip probe flush i).
Proof.
  intros H1 H2 H3. unfold cli_model, cli_sources. rewrite H1, H2, H3. simpl. split; [reflexivity|lia].
Qed.
Theorem stdin_gunzip_usage i : use_stdin (ci_args i) = true -> ci_gunzip i = true ->
  cli_model fs glob gunzip probe flush i = mkobs [] exit_usage 1.
Proof. intros H1 H2. unfold cli_model, cli_sources. now rewrite H1, H2. Qed.

(* ---------- the boolean form accepts the model ---------- *)
Lemma lineid_eqb_refl x : lineid_eqb x x = true.
Proof.
  unfold lineid_eqb. rewrite N.eqb_refl. rewrite !(proj2 (bytes_eqb_eq _ _) eq_refl). reflexivity.
Qed.
Lemma lines_same_refl l : lines_same l l = true.
Proof.
  unfold lines_same. generalize (sort_l l). intros m. induction m as [|x m IH]; simpl; [reflexivity|].
  now rewrite lineid_eqb_refl, IH.
Qed.

Lemma seq_keys_filter m l : seq_keys lineid (classify m) l = filter (matched_b m) l.
Proof.
  unfold seq_keys, key_of, matched_b, classify. induction l as [|x l IH]; simpl; [reflexivity|].
  rewrite IH. destruct (fst m) as [|[p|p|]]; try reflexivity.
  destruct (existsb (N.eqb (snd m)) (snd x)); reflexivity.
Qed.

Lemma list_sum_le {A} (f g : A -> nat) l : (forall x, f x <= g x) -> list_sum (map f l) <= list_sum (map g l).
Proof. intros H. induction l as [|x l IH]; simpl; [lia|]. specialize (H x). lia. Qed.

Theorem check_sound i : C06_check fs glob gunzip i (cli_model fs glob gunzip probe flush i) = true.
Proof.
  unfold C06_check, cli_model, cli_sources.
  destruct (use_stdin (ci_args i)) eqn:Hs.
  - destruct (ci_gunzip i) eqn:Hz; simpl.
    + reflexivity.
    + rewrite seq_keys_filter. rewrite !app_nil_r, !cut_ids. change STDIN_LIT with StdinName.
      rewrite lines_same_refl.
      replace (errors_of [stdin_source flush (ci_batch i) (ci_stdin i) (ci_stdin_err i)]) with (if ci_stdin_err i then 1 else 0)
        by (unfold errors_of, stdin_source; simpl; destruct (ci_stdin_err i); reflexivity).
      rewrite Z.eqb_refl. simpl. apply Nat.leb_le. lia.
  - simpl. rewrite seq_keys_filter, input_of_sources, errors_of_sources, expand_spec.
    unfold spec_mentions. rewrite lines_same_refl, Z.eqb_refl. simpl.
    apply Nat.leb_le.
    set (ms := flat_map (mention_list (ci_recursive i)) (ci_args i)).
    pose proof (list_sum_le (spec_failed gunzip (ci_gunzip i)) (source_logs (ci_gunzip i)) ms (failed_le_logs (ci_gunzip i))).
    lia.
Qed.

(* ---------- the CLI observables are the projection of every terminal state of the pipeline ---------- *)
Lemma length_seq_keys K (cl : lineid -> cls K) l : length (seq_keys K cl l) = list_sum (map (isM K cl) l).
Proof.
  unfold seq_keys, key_of, isM. induction l as [|x l IH]; simpl; [reflexivity|].
  rewrite app_length, IH. destruct (cl x); reflexivity.
Qed.
Lemma perm_filter_length {A} (f : A -> bool) l l' : Permutation l l' -> length (filter f l) = length (filter f l').
Proof. induction 1; simpl; try destruct (f x); try destruct (f y); simpl; congruence. Qed.

Theorem cli_projection i srcs lg c nw s : cli_sources fs glob gunzip probe flush i = Some (srcs, lg) ->
  cfg_ok c -> nw >= 1 ->
  reach lineid (classify (ci_mode i)) c (init lineid srcs nw) s ->
  (forall s', ~ step lineid (classify (ci_mode i)) c s s') ->
  Permutation (shown (ci_mode i) (consumed lineid s)) (shown (ci_mode i) (seq_keys lineid (classify (ci_mode i)) (input_of srcs))) /\
  exit_code (errs lineid s) (parse_errors (ci_mode i) (consumed lineid s)) (cM lineid s)
    = co_exit (cli_model fs glob gunzip probe flush i).
Proof.
  intros Hsrc Hc Hn Hr Ht. unfold cli_model. rewrite Hsrc. simpl.
  destruct (pipeline_final lineid (classify (ci_mode i)) c srcs nw s Hc Hn Hr Ht) as (_ & P & _ & M & _ & E & _).
  split.
  - unfold shown. destruct (fst (ci_mode i)) as [|[[q|q|]|[q|q|]|]]; simpl; try exact P. constructor.
  - rewrite E, M, <- length_seq_keys. f_equal.
    unfold parse_errors. destruct (fst (ci_mode i)) as [|[[q|q|]|[q|q|]|]]; auto. destruct (is_reduce (ci_mode i)); auto. now apply perm_filter_length.
Qed.

(* asking for the csv export does not change the exit status of an aggregating command *)
Definition with_mode (i : cli_in) (m : N * N) : cli_in :=
  mkin (ci_args i) (ci_recursive i) (ci_gunzip i) (ci_batch i) (ci_stdin i) (ci_stdin_err i) m.
Theorem exit_independent_of_csv i q1 q2 : agg_cmd (2%N, q1) = agg_cmd (2%N, q2) ->
  co_exit (cli_model fs glob gunzip probe flush (with_mode i (2%N, q1))) =
  co_exit (cli_model fs glob gunzip probe flush (with_mode i (2%N, q2))) /\
  co_nlog (cli_model fs glob gunzip probe flush (with_mode i (2%N, q1))) =
  co_nlog (cli_model fs glob gunzip probe flush (with_mode i (2%N, q2))).
Proof.
  intros H. unfold cli_model.
  change (cli_sources fs glob gunzip probe flush (with_mode i (2%N, q1))) with (cli_sources fs glob gunzip probe flush i).
  change (cli_sources fs glob gunzip probe flush (with_mode i (2%N, q2))) with (cli_sources fs glob gunzip probe flush i).
  destruct (cli_sources fs glob gunzip probe flush i) as [[srcs lg]|]; [|split; reflexivity].
  cbn [co_exit co_nlog ci_mode with_mode].
  assert (E : parse_errors (2%N, q1) (seq_keys lineid (classify (2%N, q1)) (input_of srcs)) =
              parse_errors (2%N, q2) (seq_keys lineid (classify (2%N, q2)) (input_of srcs))).
  { unfold parse_errors, is_reduce. cbn [fst]. rewrite H. reflexivity. }
  rewrite E. split; reflexivity.
Qed.

End InputProof.

(* ---------- composition with the line scanner (C04) and read chunking ---------- *)
(* The reader goroutine scans the opened stream through ImmediateReadAhead with some read chunking
   [scr] and buffer size.  Whenever the script hands over the whole stream and ends in an error
   exactly when the stream does, the source the C01 end-to-end theorem is about (PipelineEnd.source_of)
   is the source used here: lines_spec of the delivered bytes, read-error flag of the stream. *)
From RareV Require Import Proofs.LinesMain Proofs.PipelineEnd.

Section Chunked.
Variable gunzip : content -> option (content * bool).
Variable probe : path -> nat.

Definition indesc_of (z : bool) (bsz bufsize : nat) (scr : script) (pn : path * node) : indesc :=
  match open_input gunzip z (probe (fst pn)) (snd pn) with
  | None => Build_indesc (fst pn) false [] scr bufsize bsz []
  | Some (d, _, _) => Build_indesc (fst pn) true d scr bufsize bsz []
  end.

Definition script_reads_all (z : bool) (bufsize : nat) (scr : script) (pn : path * node) : Prop :=
  match open_input gunzip z (probe (fst pn)) (snd pn) with
  | None => True
  | Some (d, e, _) =>
      forall o, run bufsize scr d = Some o -> o_del o = d /\ expected_nerr scr = (if e then 1 else 0)
  end.

Theorem source_chunked z bsz bufsize scr pn : script_reads_all z bufsize scr pn ->
  match open_input gunzip z (probe (fst pn)) (snd pn) with
  | Some _ => PipelineEnd.source_of (indesc_of z bsz bufsize scr pn) = Input.source_of gunzip probe z bsz pn
  | None => fst (fst (PipelineEnd.source_of (indesc_of z bsz bufsize scr pn))) = false /\
            fst (fst (Input.source_of gunzip probe z bsz pn)) = false
  end.
Proof.
  unfold script_reads_all, indesc_of, Input.source_of, PipelineEnd.source_of, scanned.
  destruct (open_input gunzip z (probe (fst pn)) (snd pn)) as [[[d e] g]|]; simpl.
  - intros H. destruct (C04_scanner_proof bufsize scr d) as (o & Ho & A & _ & C & _).
    rewrite Ho. destruct (H o Ho) as (Hd & He). rewrite A, Hd, C, He. destruct e; reflexivity.
  - intros _. split; reflexivity.
Qed.
End Chunked.
