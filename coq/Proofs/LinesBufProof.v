(* C04 for BufferedReadAhead: exact lines, stable tokens, error once, termination. *)
From Coq Require Import List NArith ZArith Lia Bool Arith.
From RareV Require Import Base.Hex Model.Lines Model.LinesBuf Proofs.LinesProof.
Import ListNotations.

Definition Wb (s : bst) : list byte := skipn (boff s) (bcur s).
Definition WFb (s : bst) : Prop := bheap s <> [] /\ boff s <= length (bcur s).

Lemma read_tok_bcur (s : bst) lo hi : read_tok (bheap s) (length (bheap s) - 1, lo, hi) = slice (bcur s) lo hi.
Proof. unfold read_tok, bcur. now rewrite nth_last. Qed.

Lemma btok_dropcr_read (s : bst) lo hi : lo <= hi -> hi <= length (bcur s) ->
  read_tok (bheap s) (btok_dropcr s lo hi) = drop_cr (slice (bcur s) lo hi).
Proof.
  intros H1 H2. unfold btok_dropcr.
  destruct (Nat.ltb_spec lo hi) as [Hlt|Hge]; cbn [andb].
  - rewrite (slice_snoc (bcur s) lo hi) by lia. rewrite drop_cr_snoc.
    destruct (N.eqb (nth (hi - 1) (bcur s) 0%N) CR); rewrite read_tok_bcur; [reflexivity|].
    now rewrite <- slice_snoc by lia.
  - rewrite read_tok_bcur. replace hi with lo by lia. rewrite slice_nil. reflexivity.
Qed.

Lemma slice_from (c : list byte) lo k : slice c lo (lo + k) = firstn k (skipn lo c).
Proof. unfold slice. f_equal. lia. Qed.

Lemma last_snoc {A} (h : list A) (b d : A) : last (h ++ [b]) d = b.
Proof. induction h as [|a h IH]; [reflexivity|]. cbn [app last]. destruct (h ++ [b]) eqn:E; [destruct h; discriminate|exact IH]. Qed.

(* ---- the fill loop ---- *)
Lemma fill_ok fuel : forall acc newlen sc st del buf e ne sc' st' del',
  fill fuel acc newlen sc st del = Some (buf, e, ne, sc', st', del') ->
  exists d, buf = acc ++ d /\ del' = del ++ d /\ st = d ++ st'.
Proof.
  induction fuel as [|fuel IH]; intros acc newlen sc st del buf e ne sc' st' del' H; cbn [fill] in H.
  - destruct (newlen <=? length acc); [|discriminate]. inversion H; subst. exists []. rewrite !app_nil_r. auto.
  - destruct (newlen <=? length acc).
    + inversion H; subst. exists []. rewrite !app_nil_r. auto.
    + destruct sc as [|[want e0] rest].
      * cbn in H. inversion H; subst. exists []. cbn. rewrite !app_nil_r. auto.
      * set (n := Nat.min want (Nat.min (newlen - length acc) (length st))) in *.
        destruct e0.
        -- apply IH in H as (d & -> & -> & Hs). exists (firstn n st ++ d). rewrite <- !app_assoc. repeat split; auto.
           rewrite <- ?app_assoc, <- Hs. symmetry. apply firstn_skipn.
        -- inversion H; subst. exists (firstn n st). repeat split; auto. symmetry. apply firstn_skipn.
        -- inversion H; subst. exists (firstn n st). repeat split; auto. symmetry. apply firstn_skipn.
Qed.

Definition hext (s s' : bst) : Prop := exists ext, bheap s' = bheap s ++ ext.
Lemma hext_refl s : hext s s. Proof. exists []. now rewrite app_nil_r. Qed.
Lemma hext_same s s' : bheap s' = bheap s -> hext s s'.
Proof. intros H. exists []. now rewrite app_nil_r. Qed.
Lemma hext_trans a b c : hext a b -> hext b c -> hext a c.
Proof. intros (x & Hx) (y & Hy). exists (x ++ y). rewrite Hy, Hx, app_assoc. reflexivity. Qed.

Lemma refill_ok s s' : refill s = Some s' ->
  exists d, Wb s' = Wb s ++ d /\ bdel s' = bdel s ++ d /\ bstream s = d ++ bstream s' /\
            bheap s' = bheap s ++ [Wb s ++ d] /\ boff s' = 0 /\ WFb s' /\ bmax s' = bmax s.
Proof.
  unfold refill. intros H.
  destruct (fill _ _ _ _ _ _) as [[[[[[buf e] ne] sc'] st'] del']|] eqn:E; [|discriminate].
  inversion H; subst; clear H. apply fill_ok in E as (d & -> & -> & Hs).
  exists d. unfold Wb, WFb, bcur; cbn [bheap boff bdel bstream bmax]. rewrite last_snoc. cbn [skipn].
  repeat split; auto; [destruct (bheap s); discriminate|lia].
Qed.

Definition step_okb (s s' : bst) (r : option token) : Prop :=
  exists fut, bdel s' = bdel s ++ fut /\ bstream s = fut ++ bstream s' /\ WFb s' /\
  match r with
  | Some t => exists line, ~ In NL line /\
        ((Wb s ++ fut = line ++ NL :: Wb s' /\ read_tok (bheap s') t = drop_cr line)
         \/ (Wb s ++ fut = line /\ line <> [] /\ Wb s' = [] /\ beof s' = true /\ read_tok (bheap s') t = line))
  | None => Wb s ++ fut = [] /\ beof s' = true /\ Wb s' = []
  end.

Lemma bscan_ok fuel : forall s r s', WFb s -> bscan fuel s = Some (r, s') -> step_okb s s' r /\ hext s s'.
Proof.
  induction fuel as [|fuel IH]; intros s r s' (Hne & Hoff) H; cbn [bscan] in H.
  all: fold (Wb s) in H; destruct (index_nl (Wb s)) as [rel|] eqn:Ei.
  1,3: inversion H; subst; clear H; split; [|apply hext_same; reflexivity];
       destruct (index_nl_some _ _ Ei) as (Hlt & _ & Hnl & Hsplit);
       assert (length (Wb s) = length (bcur s) - boff s) as HL by (unfold Wb; apply skipn_length);
       exists []; cbn [bset_off bdel bstream]; rewrite !app_nil_r; split; [reflexivity|]; split; [reflexivity|];
       split; [unfold WFb, bcur in *; cbn [bset_off bheap boff]; split; [assumption|lia]|];
       exists (firstn rel (Wb s)); split; [exact Hnl|]; left; split;
       [ rewrite Hsplit at 1; f_equal; f_equal; unfold Wb, bcur; cbn [bset_off bheap boff]; rewrite skipn_skipn; f_equal; lia
       | change (bheap (bset_off s (boff s + rel + 1))) with (bheap s); rewrite btok_dropcr_read by lia; rewrite slice_from; reflexivity ].
  - (* fuel 0, no newline *)
    destruct (beof s) eqn:Ee; [|discriminate].
    pose proof (index_nl_none _ Ei) as Hnl.
    destruct (boff s <? length (bcur s)) eqn:El; inversion H; subst; clear H; (split; [|apply hext_same; reflexivity]).
    + apply Nat.ltb_lt in El. exists []. cbn [bset_off bdel bstream]. rewrite !app_nil_r. split; [reflexivity|]. split; [reflexivity|].
      split; [unfold WFb, bcur in *; cbn [bset_off bheap boff]; split; [assumption|lia]|].
      exists (Wb s). split; [exact Hnl|]. right.
      assert (Wb (bset_off s (length (bcur s))) = []) as E0 by (unfold Wb, bcur; cbn [bset_off bheap boff]; apply skipn_all).
      repeat split; auto.
      * unfold Wb. intros E. apply (f_equal (@length _)) in E. rewrite skipn_length in E. cbn in E. lia.
      * change (bheap (bset_off s (length (bcur s)))) with (bheap s). rewrite read_tok_bcur. unfold slice, Wb.
        apply firstn_all2. rewrite skipn_length. lia.
    + apply Nat.ltb_ge in El. exists []. rewrite !app_nil_r. split; [reflexivity|]. split; [reflexivity|]. split; [split; assumption|].
      assert (Wb s' = []) as E0 by (unfold Wb; apply skipn_all2; lia). auto.
  - (* fuel S, no newline *)
    destruct (beof s) eqn:Ee.
    + pose proof (index_nl_none _ Ei) as Hnl.
      destruct (boff s <? length (bcur s)) eqn:El; inversion H; subst; clear H; (split; [|apply hext_same; reflexivity]).
      * apply Nat.ltb_lt in El. exists []. cbn [bset_off bdel bstream]. rewrite !app_nil_r. split; [reflexivity|]. split; [reflexivity|].
        split; [unfold WFb, bcur in *; cbn [bset_off bheap boff]; split; [assumption|lia]|].
        exists (Wb s). split; [exact Hnl|]. right.
        assert (Wb (bset_off s (length (bcur s))) = []) as E0 by (unfold Wb, bcur; cbn [bset_off bheap boff]; apply skipn_all).
        repeat split; auto.
        -- unfold Wb. intros E. apply (f_equal (@length _)) in E. rewrite skipn_length in E. cbn in E. lia.
        -- change (bheap (bset_off s (length (bcur s)))) with (bheap s). rewrite read_tok_bcur. unfold slice, Wb.
           apply firstn_all2. rewrite skipn_length. lia.
      * apply Nat.ltb_ge in El. exists []. rewrite !app_nil_r. split; [reflexivity|]. split; [reflexivity|]. split; [split; assumption|].
        assert (Wb s' = []) as E0 by (unfold Wb; apply skipn_all2; lia). auto.
    + destruct (refill s) as [s1|] eqn:Er; [|discriminate].
      destruct (refill_ok _ _ Er) as (d & HW & Hd & Hst & Hh & Ho & Hwf1 & _).
      destruct (IH _ _ _ Hwf1 H) as ((fut & A & B & C & D) & Hx).
      split; [|eapply hext_trans; [exists [Wb s ++ d]; exact Hh|exact Hx]].
      exists (d ++ fut). rewrite A, Hd, <- app_assoc. split; [reflexivity|].
      split; [rewrite Hst, B, app_assoc; reflexivity|]. split; [exact C|].
      rewrite app_assoc, <- HW. exact D.
Qed.

(* ---------- exactness over a whole scan ---------- *)
Lemma bscan_eof fuel : forall s r s', beof s = true -> bscan fuel s = Some (r, s') -> bdel s' = bdel s /\ beof s' = true.
Proof.
  destruct fuel; intros s r s' He H; cbn [bscan] in H; rewrite He in H;
    destruct (index_nl _); [inversion H; subst; cbn; auto| |inversion H; subst; cbn; auto|];
    destruct (_ <? _); inversion H; subst; cbn; auto.
Qed.

Theorem bscan_all_exact fuel : forall s acc toks sf, WFb s ->
  bscan_all fuel s acc = Some (toks, sf) ->
  exists fut, bdel sf = bdel s ++ fut /\ (beof s = true -> fut = []) /\
              map snd toks = map snd (rev acc) ++ lines_spec (Wb s ++ fut).
Proof.
  induction fuel as [|fuel IH]; intros s acc toks sf Hwf H; [discriminate|].
  cbn [bscan_all] in H. destruct (bscan _ s) as [[[t|] s']|] eqn:Es; [| |discriminate].
  - destruct (bscan_ok _ _ _ _ Hwf Es) as ((fut & Hd & _ & Hwf' & line & Hnl & Hcase) & _).
    destruct (IH _ _ _ _ Hwf' H) as (fut' & Hd' & Heof' & Hm).
    exists (fut ++ fut'). rewrite Hd', Hd, <- app_assoc. split; [reflexivity|]. split.
    { intros He. destruct (bscan_eof _ _ _ _ He Es) as (Hdd & He'). rewrite Hdd in Hd.
      assert (fut = []) by (apply (app_inv_head (bdel s)); now rewrite app_nil_r, <- Hd).
      subst fut. now rewrite (Heof' He'). }
    rewrite Hm. cbn [rev]. rewrite map_app. cbn [map snd]. rewrite <- app_assoc. f_equal. cbn [app].
    destruct Hcase as [(HW & Hr) | (HW & Hne & HW' & He' & Hr)].
    + rewrite app_assoc, HW. rewrite <- app_assoc. cbn [app]. rewrite spec_nl by assumption. now rewrite Hr.
    + rewrite (Heof' He'), HW', !app_nil_r, HW. cbn [app].
      change (lines_spec []) with (@nil (list byte)).
      rewrite (spec_nonl line) by assumption.
      rewrite Hr. destruct line; [congruence|reflexivity].
  - inversion H; subst toks sf; clear H.
    destruct (bscan_ok _ _ _ _ Hwf Es) as ((fut & Hd & _ & Hwf' & HW & He' & HW') & _).
    exists fut. split; [exact Hd|]. split.
    { intros He. destruct (bscan_eof _ _ _ _ He Es) as (Hdd & _). rewrite Hdd in Hd.
      apply (app_inv_head (bdel s)). now rewrite app_nil_r, <- Hd. }
    rewrite HW. unfold lines_spec; simpl. now rewrite app_nil_r.
Qed.

Lemma binit_WF mx scr str : WFb (binit mx scr str).
Proof. unfold WFb, binit, bcur; cbn. split; [discriminate|lia]. Qed.

(* ---------- tokens are never overwritten: buffers are only ever added ---------- *)
Definition tok_in (s : bst) (t : token) : Prop := fst (fst t) < length (bheap s).

Lemma hext_read s s' t : hext s s' -> tok_in s t -> read_tok (bheap s') t = read_tok (bheap s) t /\ tok_in s' t.
Proof.
  intros (ext & He) Hin. destruct t as [[b lo] hi]. unfold tok_in, read_tok in *. cbn [fst] in *.
  rewrite He, app_nth1 by assumption. split; [reflexivity|]. rewrite app_length. lia.
Qed.

Lemma last_idx_lt {A} (h : list A) : h <> [] -> length h - 1 < length h.
Proof. destruct h; [congruence|cbn; lia]. Qed.

Lemma bscan_emits_in fuel : forall s t s', WFb s -> bscan fuel s = Some (Some t, s') -> tok_in s' t.
Proof.
  induction fuel as [|fuel IH]; intros s t s' Hwf H; cbn [bscan] in H.
  all: destruct (index_nl _) as [rel|].
  1,3: inversion H; subst; unfold tok_in, btok_dropcr; destruct Hwf as (Hne & _);
       destruct (_ && _); cbn [fst bset_off bheap]; apply last_idx_lt; assumption.
  - destruct (beof s); [|discriminate]. destruct (_ <? _); inversion H; subst.
    unfold tok_in; cbn [fst bset_off bheap]. destruct Hwf as (Hne & _). apply last_idx_lt; assumption.
  - destruct (beof s).
    + destruct (_ <? _); inversion H; subst.
      unfold tok_in; cbn [fst bset_off bheap]. destruct Hwf as (Hne & _). apply last_idx_lt; assumption.
    + destruct (refill s) as [s1|] eqn:Er; [|discriminate].
      destruct (refill_ok _ _ Er) as (d & _ & _ & _ & _ & _ & Hwf1 & _). eapply IH; eauto.
Qed.

Theorem bscan_all_stable fuel : forall s acc toks sf, WFb s ->
  (forall t c, In (t, c) acc -> tok_in s t /\ read_tok (bheap s) t = c) ->
  bscan_all fuel s acc = Some (toks, sf) ->
  forall t c, In (t, c) toks -> read_tok (bheap sf) t = c.
Proof.
  induction fuel as [|fuel IH]; intros s acc toks sf Hwf Hacc H; [discriminate|].
  cbn [bscan_all] in H. destruct (bscan _ s) as [[[t0|] s']|] eqn:Es; [| |discriminate].
  - destruct (bscan_ok _ _ _ _ Hwf Es) as ((_ & _ & _ & Hwf' & _) & Hx).
    eapply IH; [exact Hwf' | | exact H].
    intros t c [Heq|Hin].
    + inversion Heq; subst. split; [exact (bscan_emits_in _ _ _ _ Hwf Es)|reflexivity].
    + destruct (Hacc _ _ Hin) as (Hs & Hr). destruct (hext_read _ _ t Hx Hs) as (E & S'). split; [assumption|congruence].
  - inversion H; subst toks sf; clear H. intros t c Hin. apply in_rev in Hin.
    destruct (Hacc _ _ Hin) as (Hs & Hr).
    destruct (bscan_ok _ _ _ _ Hwf Es) as (_ & Hx). destruct (hext_read _ _ t Hx Hs) as (E & _). congruence.
Qed.

(* ---------- a non-EOF error is reported once; nothing is read after the end ---------- *)
Definition EIb (scr0 : script) (s : bst) : Prop :=
  brae s = 0 /\
  (beof s = false -> bnerr s = 0 /\ first_term scr0 = first_term (bsc s)) /\
  (beof s = true -> bnerr s = expected_nerr scr0).

Lemma fill_EI fuel : forall acc newlen sc st del buf e ne sc' st' del',
  fill fuel acc newlen sc st del = Some (buf, e, ne, sc', st', del') ->
  (e = false -> ne = 0 /\ first_term sc = first_term sc') /\
  (e = true -> ne = match first_term sc with RErr => 1 | _ => 0 end).
Proof.
  induction fuel as [|fuel IH]; intros acc newlen sc st del buf e ne sc' st' del' H; cbn [fill] in H.
  - destruct (newlen <=? length acc); [|discriminate]. inversion H; subst. split; [auto|discriminate].
  - destruct (newlen <=? length acc).
    + inversion H; subst. split; [auto|discriminate].
    + destruct sc as [|[want e0] rest].
      * cbn in H. inversion H; subst. split; [discriminate|reflexivity].
      * destruct e0.
        -- apply IH in H. cbn [first_term]. exact H.
        -- inversion H; subst. split; [discriminate|reflexivity].
        -- inversion H; subst. split; [discriminate|reflexivity].
Qed.

Lemma refill_EI scr0 s s' : beof s = false -> EIb scr0 s -> refill s = Some s' -> EIb scr0 s'.
Proof.
  intros He (Hra & Hf & _) H. destruct (Hf He) as (Hn & Hft). unfold refill in H.
  destruct (fill _ _ _ _ _ _) as [[[[[[buf e] ne] sc'] st'] del']|] eqn:E; [|discriminate].
  inversion H; subst; clear H. destruct (fill_EI _ _ _ _ _ _ _ _ _ _ _ _ E) as (A & B).
  unfold EIb; cbn [brae beof bnerr bsc]. split; [exact Hra|]. split.
  - intros He'. destruct (A He') as (-> & Hs). split; [lia|congruence].
  - intros He'. rewrite (B He'), Hn. unfold expected_nerr. rewrite Hft. reflexivity.
Qed.

Lemma bscan_EI scr0 fuel : forall s r s', EIb scr0 s -> bscan fuel s = Some (r, s') -> EIb scr0 s'.
Proof.
  induction fuel as [|fuel IH]; intros s r s' HI H; cbn [bscan] in H.
  all: destruct (index_nl _); [inversion H; subst; exact HI|].
  - destruct (beof s); [|discriminate]. destruct (_ <? _); inversion H; subst; exact HI.
  - destruct (beof s) eqn:Ee.
    + destruct (_ <? _); inversion H; subst; exact HI.
    + destruct (refill s) as [s1|] eqn:Er; [|discriminate]. eapply IH; [|exact H]. eapply refill_EI; eauto.
Qed.

Lemma bscan_all_EI scr0 fuel : forall s acc toks sf, WFb s -> EIb scr0 s ->
  bscan_all fuel s acc = Some (toks, sf) -> EIb scr0 sf /\ beof sf = true.
Proof.
  induction fuel as [|fuel IH]; intros s acc toks sf Hwf HI H; [discriminate|].
  cbn [bscan_all] in H. destruct (bscan _ s) as [[[t0|] s']|] eqn:Es; [| |discriminate].
  - destruct (bscan_ok _ _ _ _ Hwf Es) as ((_ & _ & _ & Hwf' & _) & _).
    eapply IH; [exact Hwf'| |exact H]. eapply bscan_EI; eauto.
  - inversion H; subst toks sf; clear H.
    destruct (bscan_ok _ _ _ _ Hwf Es) as ((fut & _ & _ & _ & _ & He' & _) & _).
    split; [eapply bscan_EI; eauto|assumption].
Qed.

(* ---------- termination ---------- *)
Lemma fill_some fuel : forall acc newlen sc st del, length sc < fuel -> fill fuel acc newlen sc st del <> None.
Proof.
  induction fuel as [|fuel IH]; intros acc newlen sc st del Hl; [lia|]. cbn [fill].
  destruct (newlen <=? length acc); [discriminate|].
  destruct sc as [|[want e0] rest]; [cbn; discriminate|]. destruct e0; try discriminate.
  apply IH. cbn in Hl. lia.
Qed.

Lemma fill_progress fuel : forall acc newlen sc st del buf e ne sc' st' del', length acc < newlen ->
  fill fuel acc newlen sc st del = Some (buf, e, ne, sc', st', del') -> e = true \/ length sc' < length sc.
Proof.
  induction fuel as [|fuel IH]; intros acc newlen sc st del buf e ne sc' st' del' Hlt H; cbn [fill] in H.
  - destruct (Nat.leb_spec newlen (length acc)); [lia|discriminate].
  - destruct (Nat.leb_spec newlen (length acc)); [lia|].
    destruct sc as [|[want e0] rest]; [cbn in H; inversion H; auto|].
    destruct e0; [|inversion H; auto|inversion H; auto].
    set (n := Nat.min want (Nat.min (newlen - length acc) (length st))) in *.
    destruct (Nat.leb_spec newlen (length (acc ++ firstn n st))) as [Hfull|Hnf].
    + destruct fuel; cbn [fill] in H; (destruct (newlen <=? length (acc ++ firstn n st)) eqn:E; [|apply Nat.leb_gt in E; lia]);
        inversion H; subst; right; cbn; lia.
    + destruct (IH _ _ _ _ _ _ _ _ _ _ _ Hnf H) as [->|Hl]; [auto|right; cbn; lia].
Qed.

Lemma bscan_some fuel : forall s, WFb s -> bmax s >= 2 ->
  (if beof s then 0 else S (length (bsc s))) <= fuel -> bscan fuel s <> None.
Proof.
  induction fuel as [|fuel IH]; intros s Hwf Hm Hf; cbn [bscan].
  - destruct (index_nl _); [discriminate|]. destruct (beof s); [destruct (_ <? _); discriminate|lia].
  - destruct (index_nl _); [discriminate|]. destruct (beof s) eqn:Ee; [destruct (_ <? _); discriminate|].
    unfold refill. set (carry := skipn (boff s) (bcur s)). set (newlen := Nat.max (bmax s) (length carry + bmax s / 2)).
    assert (length carry < newlen) as Hlt.
    { unfold newlen. assert (1 <= bmax s / 2) by (apply Nat.div_le_lower_bound; lia). lia. }
    destruct (fill (S (length (bsc s))) carry newlen (bsc s) (bstream s) (bdel s)) as [[[[[[buf e] ne] sc'] st'] del']|] eqn:E;
      [|exfalso; revert E; apply fill_some; lia].
    set (s1 := mkbs (bheap s ++ [buf]) 0 e (bnerr s + ne) (bmax s) sc' st' (brae s) del').
    assert (WFb s1) as Hwf1.
    { unfold WFb, s1, bcur; cbn [bheap boff]. rewrite last_snoc. split; [destruct (bheap s); discriminate|lia]. }
    apply (IH s1 Hwf1); [exact Hm|]. unfold s1; cbn [beof bsc].
    destruct (fill_progress _ _ _ _ _ _ _ _ _ _ _ _ Hlt E) as [->|Hl]; [lia|]. destruct e; lia.
Qed.

Lemma bscan_max fuel : forall s r s', bscan fuel s = Some (r, s') -> bmax s' = bmax s.
Proof.
  induction fuel as [|fuel IH]; intros s r s' H; cbn [bscan] in H.
  all: destruct (index_nl _); [inversion H; subst; reflexivity|].
  - destruct (beof s); [|discriminate]. destruct (_ <? _); inversion H; subst; reflexivity.
  - destruct (beof s).
    + destruct (_ <? _); inversion H; subst; reflexivity.
    + destruct (refill s) as [s1|] eqn:Er; [|discriminate].
      destruct (refill_ok _ _ Er) as (d & _ & _ & _ & _ & _ & _ & Hm). rewrite (IH _ _ _ H). exact Hm.
Qed.

Definition Mb (s : bst) : nat := length (Wb s) + length (bstream s).

Lemma bscan_measure fuel s t s' : WFb s -> bscan fuel s = Some (Some t, s') -> Mb s' < Mb s.
Proof.
  intros Hwf Es. destruct (bscan_ok _ _ _ _ Hwf Es) as ((fut & _ & Hst & _ & line & _ & Hcase) & _).
  unfold Mb. rewrite Hst, app_length.
  destruct Hcase as [(HW & _) | (HW & Hne & HW' & _)].
  - apply (f_equal (@length _)) in HW. rewrite !app_length in HW. cbn [length] in HW. lia.
  - apply (f_equal (@length _)) in HW. rewrite !app_length in HW. rewrite HW'. cbn [length].
    destruct line; [congruence|]. cbn [length] in HW. lia.
Qed.

Lemma bscan_all_some fuel : forall s acc, WFb s -> bmax s >= 2 -> Mb s + 1 < fuel -> bscan_all fuel s acc <> None.
Proof.
  induction fuel as [|fuel IH]; intros s acc Hwf Hm Hf; [lia|]. cbn [bscan_all].
  destruct (bscan _ s) as [[[t|] s']|] eqn:Es.
  - pose proof (bscan_measure _ _ _ _ Hwf Es) as Hlt.
    destruct (bscan_ok _ _ _ _ Hwf Es) as ((_ & _ & _ & Hwf' & _) & _).
    apply IH; [exact Hwf'|rewrite (bscan_max _ _ _ _ Es); exact Hm|lia].
  - discriminate.
  - exfalso. revert Es. apply bscan_some; [exact Hwf|exact Hm|]. destruct (beof s); lia.
Qed.

Theorem brun_total mx scr str : mx >= 2 -> brun mx scr str <> None.
Proof.
  intros Hm. unfold brun.
  destruct (bscan_all _ _ _) as [[toks s]|] eqn:E; [discriminate|].
  exfalso. revert E. apply bscan_all_some; [apply binit_WF|exact Hm|].
  unfold Mb, Wb, binit, bcur; cbn. lia.
Qed.

Lemma stable_map_b toks (h : list (list byte)) :
  (forall t c, In (t, c) toks -> read_tok h t = c) ->
  map (fun tc : token * list byte => read_tok h (fst tc)) toks = map snd toks.
Proof.
  induction toks as [|[t c] r IH]; intros H; [reflexivity|]. cbn [map fst snd]. f_equal.
  - apply H. left. reflexivity.
  - apply IH. intros t' c' Hin. apply H. right. exact Hin.
Qed.

(* the four clauses of C04 for BufferedReadAhead, every stream, script and maxBufLen >= 2 *)
Theorem C04_buffered_proof mx scr str : mx >= 2 ->
  exists o, brun mx scr str = Some o /\
    o_ret o = lines_spec (o_del o) /\
    o_end o = o_ret o /\
    o_nerr o = expected_nerr scr /\
    o_rae o = 0.
Proof.
  intros Hm. pose proof (brun_total mx scr str Hm) as Ht. unfold brun in *.
  destruct (bscan_all _ _ _) as [[toks s]|] eqn:E; [|congruence].
  eexists. split; [reflexivity|]. cbn [o_ret o_end o_nerr o_rae o_del].
  destruct (bscan_all_exact _ _ _ _ _ (binit_WF mx scr str) E) as (fut & Hd & _ & Hx).
  split.
  { rewrite Hx, Hd. cbn. reflexivity. }
  split.
  { apply stable_map_b. eapply bscan_all_stable; [apply binit_WF| |exact E]. intros t c []. }
  assert (EIb scr (binit mx scr str)) as HI0.
  { unfold EIb, binit; cbn. repeat split; auto; discriminate. }
  destruct (bscan_all_EI scr _ _ _ _ _ (binit_WF mx scr str) HI0 E) as ((Hra & _ & Hn) & He).
  split; [apply Hn; exact He|exact Hra].
Qed.

Theorem C04_check_sound_buffered_proof mx scr str o : mx >= 2 ->
  brun mx scr str = Some o -> C04_check mx scr o = true.
Proof.
  intros Hm H. destruct (C04_buffered_proof mx scr str Hm) as (o' & H' & A & B & C & D).
  rewrite H in H'. inversion H'; subst o'. unfold C04_check.
  rewrite B, A, C, D. rewrite !Nat.eqb_refl.
  assert (forall l, lines_eqb l l = true) as R.
  { intros l. apply (list_eqb_eq bytes_eqb bytes_eqb_eq). reflexivity. }
  rewrite !R. reflexivity.
Qed.
