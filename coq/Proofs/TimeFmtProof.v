(* C18 — round trip: time.Parse reads back what Time.Format printed, per table layout holding
   date, time and a numeric offset (RFC3339, RFC3339N, RFC1123Z, RUBY, NGINX). *)
From Coq Require Import List ZArith NArith Lia Bool String.
From RareV Require Import Base.Hex Base.Num Gen.GenTime Model.Calendar Model.TimeFmt Model.C18Check.
From RareV Require Import Proofs.CalendarSweep Proofs.CalendarProof Proofs.TimeFmtTok Proofs.NumProof.
Import ListNotations.
Local Open Scope Z_scope.

(* ---- the civil fields of an in-range instant ---- *)
Record cok (c : civil) : Prop := mkcok {
  ok_y : 0 <= c_year c < 10000;
  ok_m : 1 <= c_month c <= 12;
  ok_d : 1 <= c_day c <= days_in_month (c_year c) (c_month c);
  ok_h : 0 <= c_hour c < 24;
  ok_mi : 0 <= c_min c < 60;
  ok_s : 0 <= c_sec c < 60;
  ok_w : 0 <= c_wday c <= 6;
  ok_ns : c_nsec c = 0;
  ok_off : c_off c mod 60 = 0 /\ -86400 < c_off c < 86400
}.

Lemma days_in_month_le y m : days_in_month y m <= 31.
Proof. unfold days_in_month. destruct (m =? 2); [destruct (is_leap y); lia|]. destruct (_ || _); lia. Qed.

Lemma year_start_0 : year_start 0 * 86400 = lo_local. Proof. reflexivity. Qed.
Lemma year_start_10000 : year_start 10000 * 86400 = hi_local. Proof. reflexivity. Qed.

Lemma civil_of_fields t nsec off abbr :
  let c := civil_of t nsec off abbr in
  let l := t + off in
  civil_from_days (l / 86400) = (c_year c, c_month c, c_day c) /\
  c_hour c = l mod 86400 / 3600 /\ c_min c = l mod 86400 mod 3600 / 60 /\ c_sec c = l mod 86400 mod 60 /\
  c_nsec c = nsec /\ c_wday c = weekday (l / 86400) /\ c_off c = off /\ c_abbr c = abbr.
Proof.
  cbv zeta. unfold civil_of, local_secs. destruct (civil_from_days ((t + off) / 86400)) as [[y m] d].
  cbn. repeat split; reflexivity.
Qed.

Lemma civil_of_ok t off abbr : in_range t off = true -> rt_offset off = true -> cok (civil_of t 0 off abbr).
Proof.
  intros Hr Ho. unfold in_range in Hr. apply andb_true_iff in Hr as [Hlo Hhi].
  apply Z.leb_le in Hlo. apply Z.ltb_lt in Hhi.
  unfold rt_offset in Ho. apply andb_true_iff in Ho as [Ho Ho3]. apply andb_true_iff in Ho as [Ho1 Ho2].
  apply Z.eqb_eq in Ho1. apply Z.ltb_lt in Ho2, Ho3.
  destruct (civil_of_fields t 0 off abbr) as (E & Eh & Em & Es & En & Ew & Eo & _). cbv zeta in *.
  set (c := civil_of t 0 off abbr) in *. set (l := t + off) in *.
  apply civil_days_inverse_proof in E as (_ & Hm & Hd & Hy & _).
  pose proof (Z.mod_pos_bound l 86400 ltac:(lia)) as Hsod.
  pose proof (Z.div_mod l 86400 ltac:(lia)) as Hdm.
  constructor.
  - (* year *)
    rewrite <- year_start_0 in Hlo. rewrite <- year_start_10000 in Hhi.
    assert (year_start 0 <= l / 86400 < year_start 10000) by lia.
    split.
    + destruct (Z_lt_le_dec (c_year c) 0) as [L|]; [|lia].
      pose proof (year_start_mono (c_year c + 1) 0 ltac:(lia)). lia.
    + destruct (Z_lt_le_dec (c_year c) 10000) as [|L]; [lia|].
      pose proof (year_start_mono 10000 (c_year c) ltac:(lia)). lia.
  - exact Hm.
  - exact Hd.
  - rewrite Eh. split; [apply Z.div_pos; lia|apply Z.div_lt_upper_bound; lia].
  - rewrite Em. pose proof (Z.mod_pos_bound (l mod 86400) 3600 ltac:(lia)).
    split; [apply Z.div_pos; lia|apply Z.div_lt_upper_bound; lia].
  - rewrite Es. apply Z.mod_pos_bound. lia.
  - rewrite Ew. apply weekday_range_proof.
  - exact En.
  - rewrite Eo. lia.
Qed.

Lemma civil_of_wall t nsec off abbr :
  let c := civil_of t nsec off abbr in
  wall_secs (c_year c) (c_month c) (c_day c) (c_hour c) (c_min c) (c_sec c) = t + off.
Proof.
  cbv zeta. destruct (civil_of_fields t nsec off abbr) as (E & Eh & Em & Es & _). cbv zeta in *.
  set (c := civil_of t nsec off abbr) in *. set (l := t + off) in *.
  apply civil_days_inverse_proof in E as (Ed & _).
  unfold wall_secs. rewrite Ed, Eh, Em, Es.
  pose proof (Z.div_mod l 86400 ltac:(lia)).
  set (sod := l mod 86400) in *.
  pose proof (Z.div_mod sod 3600 ltac:(lia)).
  pose proof (Z.div_mod (sod mod 3600) 60 ltac:(lia)).
  assert (sod mod 60 = sod mod 3600 mod 60).
  { replace sod with (sod mod 3600 + (60 * (sod / 3600)) * 60) at 1 by lia.
    apply Z.mod_add. lia. }
  lia.
Qed.

(* ---- chaining ---- *)
Lemma parse_toks_cons tk r v st v' st' :
  parse_tok tk r v st = Some (v', st') -> parse_toks (tk :: r) v st = parse_toks r v' st'.
Proof. intros H. cbn [parse_toks]. rewrite H. reflexivity. Qed.

Lemma pt_numtz' c iso s r v st :
  s = ZColon \/ s = ZHHMM -> c_off c mod 60 = 0 -> -86400 < c_off c < 86400 ->
  parse_tok (TNumTZ iso s) r (fmt_tok c (TNumTZ iso s) ++ v) st =
  Some (v, if iso && (c_off c =? 0) then set_z st else set_zoff st (c_off c)).
Proof. exact (pt_numtz iso s (c_off c) r v st). Qed.

Lemma hd_numtz' P c iso s v :
  P 90%N = true -> P 43%N = true -> P 45%N = true -> hd_ok P (fmt_tok c (TNumTZ iso s) ++ v).
Proof. exact (hd_numtz P iso s (c_off c) v). Qed.
Lemma hd_frac_zero P c n cm v : c_nsec c = 0 -> hd_ok P v -> hd_ok P (fmt_tok c (TFrac true n cm) ++ v).
Proof. intros H Hv. cbn [fmt_tok]. unfold fmt_frac. rewrite H, Z.eqb_refl, orb_true_r. exact Hv. Qed.

Ltac hd :=
  first [ exact I
        | apply hd_frac_zero; [assumption | hd]
        | apply hd_numtz'; reflexivity
        | apply hd_int2; [lia | first [exact digit_not_space | exact digit_not_cp]]
        | apply hd_int4; [lia | first [exact digit_not_space | exact digit_not_cp]]
        | apply hd_month; [lia | exact letter_not_space]
        | apply hd_numtz; reflexivity
        | reflexivity ].

Ltac step :=
  erewrite parse_toks_cons;
  [cbn [app] | first [ apply pt_longyear; lia
           | apply pt_zeromonth; lia
           | apply pt_zeroday; lia
           | apply pt_hour; lia
           | apply pt_zerominute; lia
           | apply pt_zerosecond; [lia | hd]
           | apply pt_frac9_zero; [assumption | hd]
           | apply pt_month; lia
           | apply pt_weekday; lia
           | apply pt_underday_slash; lia
           | apply pt_numtz'; [auto | lia | lia]
           | apply (pt_lit_space_end []); [reflexivity | hd]
           | apply (pt_lit_space_end [44%N]); [reflexivity | hd]
           | apply pt_lit_nospace; reflexivity ] ].

(* the parser state after a complete date + time + numeric zone *)
Definition final_st (c : civil) (iso : bool) : pst :=
  let z := iso && (c_off c =? 0) in
  mkpst (c_year c) (c_month c) (c_day c) (c_hour c) (c_min c) (c_sec c) 0 z (if z then -1 else c_off c) [].

Definition toks_of (name : string) : list tok := tokenize (named_format (s2b name)).

Ltac start c H :=
  intros H; pose proof (days_in_month_le (c_year c) (c_month c));
  destruct H as [? ? ? ? ? ? ? ? [? ?]];
  unfold format_toks; cbn [flat_map].

Ltac finish_st :=
  cbn [parse_toks]; unfold final_st;
  match goal with |- context [?i && (c_off ?c =? 0)] => destruct (i && (c_off c =? 0)) end; reflexivity.

Definition toks_rfc3339 : list tok := Eval vm_compute in toks_of "RFC3339".
Lemma rt_toks_rfc3339 c : cok c ->
  parse_toks toks_rfc3339 (format_toks c toks_rfc3339) pst0 = Some (final_st c true).
Proof. unfold toks_rfc3339. start c H. do 12 step. finish_st. Qed.

Definition toks_rfc3339n : list tok := Eval vm_compute in toks_of "RFC3339N".
Lemma rt_toks_rfc3339n c : cok c ->
  parse_toks toks_rfc3339n (format_toks c toks_rfc3339n) pst0 = Some (final_st c true).
Proof. unfold toks_rfc3339n. start c H. do 13 step. finish_st. Qed.

Definition toks_rfc1123z : list tok := Eval vm_compute in toks_of "RFC1123Z".
Lemma rt_toks_rfc1123z c : cok c ->
  parse_toks toks_rfc1123z (format_toks c toks_rfc1123z) pst0 = Some (final_st c false).
Proof. unfold toks_rfc1123z. start c H. do 15 step. finish_st. Qed.

Definition toks_ruby : list tok := Eval vm_compute in toks_of "RUBY".
Lemma rt_toks_ruby c : cok c ->
  parse_toks toks_ruby (format_toks c toks_ruby) pst0 = Some (final_st c false).
Proof. unfold toks_ruby. start c H. do 15 step. finish_st. Qed.

Definition toks_nginx : list tok := Eval vm_compute in toks_of "NGINX".
Lemma rt_toks_nginx c : cok c ->
  parse_toks toks_nginx (format_toks c toks_nginx) pst0 = Some (final_st c false).
Proof. unfold toks_nginx. start c H. do 13 step. finish_st. Qed.

(* ---- from token lists to layouts ---- *)
Lemma finish_final c iso : cok c ->
  finish (final_st c iso) =
  Some (mkparsed (wall_secs (c_year c) (c_month c) (c_day c) (c_hour c) (c_min c) (c_sec c)) 0
                 (if iso && (c_off c =? 0) then PZutc else PZoff (c_off c))).
Proof.
  intros [? ? ? ? ? ? ? ? [Hm ?]]. unfold finish, final_st.
  cbn [p_year p_month p_day p_hour p_min p_sec p_nsec p_z p_zoff p_zname].
  replace (c_month c <? 0) with false by (symmetry; apply Z.ltb_ge; lia).
  replace (c_day c <? 0) with false by (symmetry; apply Z.ltb_ge; lia).
  replace (c_day c <? 1) with false by (symmetry; apply Z.ltb_ge; lia).
  replace (days_in_month (c_year c) (c_month c) <? c_day c) with false by (symmetry; apply Z.ltb_ge; lia).
  cbn [orb]. destruct (iso && (c_off c =? 0)); [reflexivity|].
  replace (c_off c =? -1) with false; [reflexivity|].
  symmetry. apply Z.eqb_neq. intros E. rewrite E in Hm. discriminate.
Qed.

Definition rt_layout (L : bytes) : Prop :=
  forall t off abbr, in_range t off = true -> rt_offset off = true ->
  exists p, parse_layout L (format_layout L (civil_of t 0 off abbr)) = Some p /\
            forall names lo fo, resolve names lo fo p = (t, off).

Lemma rt_layout_of L toks iso :
  tokenize L = toks ->
  (forall c, cok c -> parse_toks toks (format_toks c toks) pst0 = Some (final_st c iso)) ->
  rt_layout L.
Proof.
  intros Ht Hp t off abbr Hr Ho.
  pose proof (civil_of_ok t off abbr Hr Ho) as Hc.
  pose proof (civil_of_wall t 0 off abbr) as Hw. cbv zeta in Hw.
  destruct (civil_of_fields t 0 off abbr) as (_ & _ & _ & _ & _ & _ & Eo & _). cbv zeta in Eo.
  set (c := civil_of t 0 off abbr) in *.
  unfold parse_layout, format_layout. rewrite Ht, (Hp c Hc), (finish_final c iso Hc), Hw, Eo.
  eexists. split; [reflexivity|]. intros names lo fo. unfold resolve. cbn [r_zone r_wall].
  destruct (iso && (off =? 0)) eqn:E.
  - apply andb_true_iff in E as [_ E]. apply Z.eqb_eq in E. rewrite E. f_equal. lia.
  - f_equal. lia.
Qed.

Theorem rt_rfc3339 : rt_layout (named_format (s2b "RFC3339")).
Proof. apply (rt_layout_of _ toks_rfc3339 true); [vm_compute; reflexivity|exact rt_toks_rfc3339]. Qed.
Theorem rt_default : rt_layout (named_format []).
Proof. apply (rt_layout_of _ toks_rfc3339 true); [vm_compute; reflexivity|exact rt_toks_rfc3339]. Qed.
Theorem rt_rfc3339n : rt_layout (named_format (s2b "RFC3339N")).
Proof. apply (rt_layout_of _ toks_rfc3339n true); [vm_compute; reflexivity|exact rt_toks_rfc3339n]. Qed.
Theorem rt_rfc1123z : rt_layout (named_format (s2b "RFC1123Z")).
Proof. apply (rt_layout_of _ toks_rfc1123z false); [vm_compute; reflexivity|exact rt_toks_rfc1123z]. Qed.
Theorem rt_ruby : rt_layout (named_format (s2b "RUBY")).
Proof. apply (rt_layout_of _ toks_ruby false); [vm_compute; reflexivity|exact rt_toks_ruby]. Qed.
Theorem rt_nginx : rt_layout (named_format (s2b "NGINX")).
Proof. apply (rt_layout_of _ toks_nginx false); [vm_compute; reflexivity|exact rt_toks_nginx]. Qed.

Lemma named_format_upper f : named_format f = match assoc_b (upper f) timeFormats with Some l => l | None => f end.
Proof. reflexivity. Qed.

Lemma upper_idem f : upper (upper f) = upper f.
Proof.
  unfold upper. rewrite map_map. apply map_ext. intros c.
  destruct ((97 <=? c)%N && (c <=? 122)%N) eqn:E; [|rewrite E; reflexivity].
  apply andb_true_iff in E as [E1 E2]. apply N.leb_le in E1, E2.
  replace ((97 <=? c - 32)%N) with false; [reflexivity|]. symmetry. apply N.leb_gt. lia.
Qed.

(* every round-trip name, in any letter case *)
Theorem rt_names_layout : forall fmt, existsb (bytes_eqb (upper fmt)) rt_names = true -> rt_layout (named_format fmt).
Proof.
  intros fmt H.
  assert (E : named_format fmt = named_format (upper fmt)).
  { rewrite (named_format_upper fmt), (named_format_upper (upper fmt)), upper_idem.
    unfold rt_names in H. cbn [existsb] in H.
    repeat (apply orb_true_iff in H as [H|H]; [apply bytes_eqb_eq in H; rewrite H; reflexivity|]).
    discriminate. }
  rewrite E. unfold rt_names in H. cbn [existsb] in H.
  apply orb_true_iff in H as [H|H]; [apply bytes_eqb_eq in H; rewrite H; exact rt_default|].
  apply orb_true_iff in H as [H|H]; [apply bytes_eqb_eq in H; rewrite H; exact rt_rfc3339|].
  apply orb_true_iff in H as [H|H]; [apply bytes_eqb_eq in H; rewrite H; exact rt_rfc3339n|].
  apply orb_true_iff in H as [H|H]; [apply bytes_eqb_eq in H; rewrite H; exact rt_rfc1123z|].
  apply orb_true_iff in H as [H|H]; [apply bytes_eqb_eq in H; rewrite H; exact rt_ruby|].
  apply orb_true_iff in H as [H|H]; [apply bytes_eqb_eq in H; rewrite H; exact rt_nginx|].
  discriminate.
Qed.

Lemma in_range_int64 t off : in_range t off = true -> rt_offset off = true -> in_int64 t = true.
Proof.
  unfold in_range, rt_offset, in_int64, lo_local, hi_local, min_int64, max_int64. intros H1 H2.
  repeat (apply andb_true_iff in H1 as [H1 ?]). repeat (apply andb_true_iff in H2 as [H2 ?]).
  apply andb_true_iff. split; apply Z.leb_le; lia.
Qed.

(* {time {timeformat t F tz} F tz'} = t *)
Theorem roundtrip_kf : forall fmt t off abbr names lo fo,
  existsb (bytes_eqb (upper fmt)) rt_names = true -> in_range t off = true -> rt_offset off = true ->
  kf_time (kf_timeformat (itoa t) fmt off abbr) fmt names lo fo = itoa t.
Proof.
  intros fmt t off abbr names lo fo Hn Hr Ho.
  unfold kf_timeformat. rewrite atoi_itoa by (eapply in_range_int64; eauto).
  destruct (rt_names_layout fmt Hn t off abbr Hr Ho) as (p & Hp & Hres).
  unfold kf_time. rewrite Hp, (Hres names lo fo). reflexivity.
Qed.

Lemma bytes_eqb_refl a : bytes_eqb a a = true.
Proof. apply bytes_eqb_eq. reflexivity. Qed.

Theorem check_format_sound : forall arg fmt off abbr,
  C18_check_format arg fmt off abbr (kf_timeformat arg fmt off abbr) = true.
Proof.
  intros arg fmt off abbr. unfold C18_check_format. rewrite bytes_eqb_refl. cbn [andb].
  destruct (atoi arg) as [t|] eqn:Ea; [|reflexivity].
  destruct (existsb (bytes_eqb (upper fmt)) rt_names) eqn:Hn; [|reflexivity].
  destruct (in_range t off) eqn:Hr; [|reflexivity].
  destruct (rt_offset off) eqn:Ho; [|reflexivity]. cbn [andb].
  destruct (rt_names_layout fmt Hn t off abbr Hr Ho) as (p & Hp & Hres).
  unfold kf_timeformat. rewrite Ea. unfold kf_time. rewrite Hp, (Hres [] 0 0). cbn [fst]. apply bytes_eqb_refl.
Qed.

(* ---- error markers ---- *)
Theorem time_error_marker : forall str fmt names lo fo,
  parse_layout (named_format fmt) str = None -> kf_time str fmt names lo fo = timeErrorParsing.
Proof. intros. unfold kf_time. rewrite H. reflexivity. Qed.
Theorem buckettime_error_marker : forall str b fmt names lo fo l,
  bucket_layout b = Some l -> parse_layout (named_format fmt) str = None ->
  kf_buckettime str b fmt names lo fo = timeErrorParsing.
Proof. intros. unfold kf_buckettime. rewrite H, H0. reflexivity. Qed.
Theorem timeformat_error_marker : forall arg fmt off abbr, atoi arg = None -> kf_timeformat arg fmt off abbr = timeErrorNum.
Proof. intros. unfold kf_timeformat. rewrite H. reflexivity. Qed.
(* text after the layout's last element, or a missing element, is an error: e.g. trailing garbage *)
Lemma parse_toks_extra : forall v st, v <> [] -> parse_toks [] v st = None.
Proof. intros v st H. destruct v; [congruence|reflexivity]. Qed.
