(* C20 — the line stores (VirtualTerm / BufferedTerm of Model/Trim.v): what Close prints. *)
From Coq Require Import List NArith ZArith Bool Arith Lia.
From RareV Require Import Base.Hex Base.Res Gen.GenTerm Model.Trim Model.Term Proofs.TrimProof Proofs.TermEmu.
Import ListNotations.

Definition lw_from (l : nat) (ups : list (nat * text)) (d : text) : text :=
  fold_left (fun acc u => if Nat.eqb (fst u) l then snd u else acc) ups d.
Definition len_from (ups : list (nat * text)) (n : nat) : nat :=
  fold_left (fun n u => Nat.max n (S (fst u))) ups n.

Lemma vt_run_ok : forall ups v, vt_closed v = false ->
  exists v', vt_run v ups = Ok v' /\ vt_closed v' = false /\
    (forall l, nth l (vt_lines v') [] = lw_from l ups (nth l (vt_lines v) [])) /\
    length (vt_lines v') = len_from ups (length (vt_lines v)).
Proof.
  induction ups as [|[line t] r IH]; intros v Hc.
  - exists v. cbn. auto.
  - cbn [vt_run]. unfold vt_write. rewrite Hc.
    set (v1 := mkvt _ false).
    destruct (IH v1 eq_refl) as (v' & R & C & L & N).
    exists v'. split; [exact R|]. split; [exact C|]. split.
    + intros l. rewrite L. subst v1. cbn [vt_lines lw_from fold_left fst snd].
      rewrite nth_upd. rewrite (Nat.eqb_sym l line). reflexivity.
    + rewrite N. subst v1. cbn [vt_lines len_from fold_left fst]. rewrite length_upd. reflexivity.
Qed.

Lemma list_by_nth : forall (ls : list (list N)) n (g : nat -> list N),
  length ls = n -> (forall l, l < n -> nth l ls [] = g l) -> ls = map g (seq 0 n).
Proof.
  intros ls n g Hn H. apply (nth_ext _ _ [] []).
  - rewrite map_length, seq_length. exact Hn.
  - intros k Hk. rewrite Hn in Hk. rewrite H by exact Hk.
    rewrite (nth_indep _ [] (g 0)) by (rewrite map_length, seq_length; exact Hk).
    rewrite map_nth. rewrite seq_nth by exact Hk. reflexivity.
Qed.

Lemma len_from_S : forall ups m,
  len_from ups (S m) = S (fold_left (fun m u => Nat.max m (fst u)) ups m).
Proof.
  induction ups as [|u r IH]; intros m; cbn [len_from fold_left].
  - reflexivity.
  - change (Nat.max (S m) (S (fst u))) with (S (Nat.max m (fst u))). apply IH.
Qed.

Definition line_count (size : nat) (ups : list (nat * text)) : nat :=
  match ups with [] => size | _ => Nat.max size (S (max_line ups)) end.

Lemma len_from_max : forall ups n m, len_from ups (Nat.max n m) = Nat.max n (len_from ups m).
Proof.
  induction ups as [|u r IH]; intros n m; cbn [len_from fold_left]; [reflexivity|].
  rewrite <- Nat.max_assoc. apply IH.
Qed.

Lemma len_from_count : forall ups size, len_from ups size = line_count size ups.
Proof.
  intros [|u r] size; [reflexivity|].
  unfold line_count, max_line. cbn [len_from fold_left].
  rewrite len_from_max. f_equal. rewrite Nat.max_0_l.
  change (len_from r (S (fst u)) = S (fold_left (fun m u0 => Nat.max m (fst u0)) r (fst u))).
  apply len_from_S.
Qed.

(* the store after any history: line l holds the text last written to it, there are
   max(size, highest line + 1) lines *)
Lemma vt_store : forall size ups,
  vt_run (vt_new size) ups =
  Ok (mkvt (map (fun l => last_write l ups) (seq 0 (line_count size ups))) false).
Proof.
  intros size ups.
  destruct (vt_run_ok ups (vt_new size) eq_refl) as (v' & R & C & L & N).
  rewrite R. f_equal. destruct v' as [ls cl]. cbn in *. subst cl. f_equal.
  apply list_by_nth.
  - etransitivity; [exact N|]. rewrite repeat_length. apply len_from_count.
  - intros l _. rewrite L. unfold last_write, lw_from. f_equal.
    clear. generalize l. induction size as [|k IH]; intros [|j]; cbn; auto.
Qed.

Lemma flat_map_map {A B C} (f : B -> list C) (g : A -> B) l :
  flat_map f (map g l) = flat_map (fun x => f (g x)) l.
Proof. induction l as [|x r IH]; cbn; [reflexivity|]. rewrite IH. reflexivity. Qed.

(* BufferedTerm: nothing is printed before Close; Close prints the final lines top to bottom,
   each through WriteLineNoWrap, each followed by "\n"; the store is closed afterwards *)
Lemma C20_buffered_same_proof : forall a cl ups,
  bt_session a cl ups =
  Ok (flat_map (fun l => write_line_no_wrap a cl (last_write l ups) ++ [10%N])
               (seq 0 (line_count 0 ups)),
      mkvt (map (fun l => last_write l ups) (seq 0 (line_count 0 ups))) true).
Proof.
  intros a cl ups. unfold bt_session. rewrite vt_store. unfold vt_output, vt_close. cbn [vt_lines].
  rewrite flat_map_map. reflexivity.
Qed.

Lemma buffered_spec_eq : forall c ups,
  buffered_spec c ups =
  flat_map (fun l => write_line_no_wrap (autotrim c) (cols c) (last_write l ups) ++ [10%N])
           (seq 0 (line_count 0 ups)).
Proof. intros c [|u r]; reflexivity. Qed.

Lemma C20_check_buffered_sound : forall c ups out v,
  bt_session (autotrim c) (cols c) ups = Ok (out, v) -> C20_check_buffered c ups out = true.
Proof.
  intros c ups out v H. rewrite C20_buffered_same_proof in H. inversion H; subst.
  unfold C20_check_buffered. rewrite buffered_spec_eq.
  apply (proj2 (list_eqb_eq N.eqb N.eqb_eq _ _)). reflexivity.
Qed.
