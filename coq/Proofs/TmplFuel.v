(* Termination of Compile's recursion on arguments: an argument is shorter than the template it
   occurs in, so the fuel [length s + 1] of [compile_gen] is always enough; consequences:
   the unfolding equation [compile_unfold] and totality of the repaired compiler. *)
From Coq Require Import List NArith ZArith Bool Lia Arith.
From RareV Require Import Base.Res Base.Hex Base.Num Model.IsSpace Model.Tmpl.
Import ListNotations.
Local Open Scope N_scope.

(* ---- every argument the splitter returns is at most as long as its input ------------------ *)
Lemma sp_run_len : forall s args sb d q e B,
  Forall (fun a => (length a <= B)%nat) args -> (length sb + length s <= B)%nat ->
  Forall (fun a => (length a <= B)%nat) (sp_run args sb d q e s).
Proof.
  induction s as [|r rest IH]; intros args sb d q e B Ha Hl; cbn [sp_run].
  - apply Forall_app; split; auto. destruct (nonempty sb); auto.
    constructor; auto. cbn in Hl. lia.
  - cbn [length] in Hl.
    repeat match goal with |- context [if ?c then _ else _] => destruct c end;
      apply IH; try (apply Forall_app; split; [assumption| constructor; [lia|constructor]]);
      try assumption; rewrite ?app_length; cbn [length]; lia.
Qed.

Lemma split_args_len s a : In a (split_args s) -> (length a <= length s)%nat.
Proof.
  intros Hin. unfold split_args in Hin.
  pose proof (sp_run_len s [] [] 0%Z false false (length s) (Forall_nil _) (le_n _)) as H.
  rewrite Forall_forall in H. apply H. exact Hin.
Qed.

(* ---- the scanner only consults [rec] on strings shorter than what it is scanning ----------- *)
Section Ext.
  Variable fixed : bool.
  Variable fs : fenv.

  Lemma compile_args_ext rec1 rec2 start : forall args,
    (forall a, In a args -> rec1 a = rec2 a) ->
    compile_args rec1 start args = compile_args rec2 start args.
  Proof.
    induction args as [|a r IH]; intros H; cbn [compile_args]; auto.
    rewrite (H a (or_introl eq_refl)). rewrite IH; auto. intros; apply H; right; auto.
  Qed.

  Lemma statement_ext rec1 rec2 start body :
    (forall a, (length a <= length body)%nat -> rec1 a = rec2 a) ->
    statement fs rec1 start body = statement fs rec2 start body.
  Proof.
    intros H. unfold statement.
    pose proof (split_args_len body) as Hl.
    destruct (split_args body) as [|f args]; auto.
    destruct args as [|a args]; auto.
    destruct (fs f); auto.
    rewrite (compile_args_ext rec1 rec2 start (a :: args)); auto.
    intros x Hx. apply H. apply Hl. right. exact Hx.
  Qed.

  Lemma scan_ext rec1 rec2 : forall n l i start depth sb stages errs,
    (length l <= n)%nat ->
    (forall a, (length a < length sb + length l)%nat -> rec1 a = rec2 a) ->
    scan fixed fs rec1 i start depth sb stages errs l = scan fixed fs rec2 i start depth sb stages errs l.
  Proof.
    induction n as [|n IH]; intros l i start depth sb stages errs Hn H.
    - destruct l; [reflexivity | cbn in Hn; lia].
    - destruct l as [|r rest]; [reflexivity|]. cbn [length] in Hn, H. cbn [scan].
      destruct (r =? 92).
      { destruct rest as [|c rest'].
        - destruct fixed; auto.
        - cbn [length] in Hn, H. apply IH; [lia|]. intros a Ha. apply H. rewrite app_length in Ha. cbn [length] in Ha. lia. }
      destruct (r =? 123).
      { destruct depth; apply IH; try lia; intros a Ha; apply H;
          rewrite ?app_length in Ha; cbn [length] in Ha; lia. }
      destruct (r =? 125).
      { destruct depth as [|[|d]].
        - apply IH; try lia. intros a Ha; apply H. rewrite app_length in Ha; cbn [length] in Ha; lia.
        - rewrite (statement_ext rec1 rec2 start sb).
          + destruct (statement fs rec2 start sb) as [[ps es]|]; auto.
            apply IH; try lia. intros a Ha; apply H. cbn [length] in Ha. lia.
          + intros a Ha. apply H. lia.
        - apply IH; try lia. intros a Ha; apply H. rewrite app_length in Ha; cbn [length] in Ha; lia. }
      apply IH; try lia. intros a Ha; apply H. rewrite app_length in Ha; cbn [length] in Ha; lia.
  Qed.

  (* any two sufficient amounts of fuel give the same result *)
  Lemma compile_f_enough : forall n m s, (length s < n)%nat -> (length s < m)%nat ->
    compile_f fixed fs n s = compile_f fixed fs m s.
  Proof.
    induction n as [|n IH]; intros m s Hn Hm; [lia|].
    destruct m as [|m]; [lia|]. cbn [compile_f].
    apply (scan_ext _ _ (length s)); auto.
    intros a Ha. cbn [length] in Ha. apply IH; lia.
  Qed.

  (* Compile(template) = the scanner with Compile itself as the compiler of arguments *)
  Lemma compile_unfold s :
    compile_gen fixed fs s = scan fixed fs (compile_gen fixed fs) 0 0 0 [] [] [] s.
  Proof.
    unfold compile_gen at 1. cbn [compile_f].
    apply (scan_ext _ _ (length s)); auto.
    intros a Ha. cbn [length] in Ha. unfold compile_gen. apply compile_f_enough; lia.
  Qed.
End Ext.

(* ---- the repaired compiler never panics (in particular: never runs out of fuel) ------------- *)
Section Total.
  Variable fs : fenv.

  Lemma compile_args_total rec start : forall args,
    (forall a, In a args -> rec a <> Panic) -> compile_args rec start args <> Panic.
  Proof.
    induction args as [|a r IH]; intros H; cbn [compile_args]; [discriminate|].
    pose proof (H a (or_introl eq_refl)) as Ha.
    destruct (rec a) as [ta|]; [|congruence]. cbn [rbind].
    assert (Hr : compile_args rec start r <> Panic) by (apply IH; intros; apply H; right; auto).
    destruct (compile_args rec start r); [discriminate|congruence].
  Qed.

  Lemma statement_total rec start body :
    (forall a, (length a <= length body)%nat -> rec a <> Panic) ->
    statement fs rec start body <> Panic.
  Proof.
    intros H. unfold statement.
    pose proof (split_args_len body) as Hl.
    destruct (split_args body) as [|f args]; [discriminate|].
    destruct args as [|a args]; [discriminate|].
    destruct (fs f); [|discriminate].
    assert (Hr : compile_args rec start (a :: args) <> Panic).
    { apply compile_args_total. intros x Hx. apply H. apply Hl. right. exact Hx. }
    destruct (compile_args rec start (a :: args)); [discriminate|congruence].
  Qed.

  Lemma scan_total rec : forall n l i start depth sb stages errs,
    (length l <= n)%nat ->
    (forall a, (length a < length sb + length l)%nat -> rec a <> Panic) ->
    scan true fs rec i start depth sb stages errs l <> Panic.
  Proof.
    induction n as [|n IH]; intros l i start depth sb stages errs Hn H.
    - destruct l; [discriminate | cbn in Hn; lia].
    - destruct l as [|r rest]; [discriminate|]. cbn [length] in Hn, H. cbn [scan].
      destruct (r =? 92).
      { destruct rest as [|c rest'].
        - discriminate.
        - cbn [length] in Hn, H. apply IH; [lia|]. intros a Ha. apply H. rewrite app_length in Ha. cbn [length] in Ha. lia. }
      destruct (r =? 123).
      { destruct depth; apply IH; try lia; intros a Ha; apply H;
          rewrite ?app_length in Ha; cbn [length] in Ha; lia. }
      destruct (r =? 125).
      { destruct depth as [|[|d]].
        - apply IH; try lia. intros a Ha; apply H. rewrite app_length in Ha; cbn [length] in Ha; lia.
        - assert (Hs : statement fs rec start sb <> Panic).
          { apply statement_total. intros a Ha. apply H. lia. }
          destruct (statement fs rec start sb) as [[ps es]|]; [|congruence].
          apply IH; try lia. intros a Ha; apply H. cbn [length] in Ha. lia.
        - apply IH; try lia. intros a Ha; apply H. rewrite app_length in Ha; cbn [length] in Ha; lia. }
      apply IH; try lia. intros a Ha; apply H. rewrite app_length in Ha; cbn [length] in Ha; lia.
  Qed.

  Lemma compile_f_total : forall n s, (length s < n)%nat -> compile_f true fs n s <> Panic.
  Proof.
    induction n as [|n IH]; intros s Hn; [lia|]. cbn [compile_f].
    apply (scan_total _ (length s)); auto.
    intros a Ha. cbn [length] in Ha. apply IH. lia.
  Qed.

  Lemma compile_total s : compile fs s <> Panic.
  Proof. unfold compile, compile_gen. apply compile_f_total. lia. Qed.
End Total.
