(* C15: eventual delivery without temporal logic.  While the writer is quiescent, in every reachable state in
   which the reader's descriptor is the file at the path and bytes of it are undelivered, a reader / watcher
   step is enabled (progress) and every reader / watcher step strictly decreases a natural-number measure
   (pending events and signals, undelivered bytes, program point).  Hence [must]: every maximal sequence of
   reader / watcher steps reaches "everything written has been delivered" within [measure] steps and cannot
   get stuck before.  The only scheduling assumption is that the run is maximal (the Go scheduler does not
   stop running the reader and the watcher goroutine while one of them can move — weak fairness for the pair;
   no fairness between the two is needed because every step decreases the measure).  The fsnotify guarantee
   used: every append puts a Write event for the path into the queue the goroutine reads (rule n_env), and the
   goroutine can always take the next queued event (rule n_watch). *)
From Coq Require Import List NArith Arith Bool Lia.
From RareV Require Import Base.Hex Model.Follow Proofs.FollowBase Proofs.FollowNotify Proofs.FollowPoll.
Import ListNotations.
Local Open Scope nat_scope.

Section Must.
Context {S : Type}.
Variable step : S -> label -> S -> Prop.
Variable goal : S -> Prop.
(* inevitability within k writer-quiescent steps *)
Inductive must : nat -> S -> Prop :=
| must_now k s : goal s -> must k s
| must_step k s :
    (exists l s', is_env l = false /\ step s l s') ->
    (forall l s', is_env l = false -> step s l s' -> must k s') -> must (Datatypes.S k) s.
End Must.

Definition b2n (b : bool) : nat := if b then 1 else 0.
Definition undel (pre : bytes) (e : env) (del : bytes) : nat := length (all e) - length (pre ++ del).

Lemma undel_data pre e del bs rest : all e = pre ++ (del ++ bs) ++ rest -> bs <> [] ->
  undel pre e (del ++ bs) < undel pre e del.
Proof.
  intros A Hb. unfold undel. rewrite A, !app_length. destruct bs; [congruence|]. cbn [length]. lia.
Qed.

Lemma nonenv_nok pre s l : is_env l = false -> nok pre s l.
Proof. destruct l; cbn; intros; try exact I; discriminate. Qed.

(* the prefix property from the invariants, for any skipped part *)
Lemma ninv_prefix_gen reopen pre s : NInv reopen pre s -> exists rest, all (nenv s) = pre ++ ndel s ++ rest.
Proof.
  intros [V P N _ _ _ _ _]. destruct (nfd s) as [[i off]|] eqn:F.
  - destruct V as [V Vo]. destruct (all_split (nenv s) i) as [t T]; [tauto|].
    exists (skipn off (content (nenv s) i) ++ t). rewrite app_assoc, (P i off eq_refl), T, <- !app_assoc.
    f_equal. rewrite app_assoc, firstn_skipn. reflexivity.
  - exists (curc (nenv s)). rewrite app_assoc, (N eq_refl). reflexivity.
Qed.
Lemma pinv_prefix_gen reopen pre s : PInv reopen pre s -> exists rest, all (penv s) = pre ++ pdel s ++ rest.
Proof.
  intros [V _ P N _ _ _ _]. destruct (pfd s) as [[i off]|] eqn:F.
  - destruct V as [V Vo]. destruct (all_split (penv s) i) as [t T]; [tauto|].
    exists (skipn off (content (penv s) i) ++ t). rewrite app_assoc, (P i off eq_refl), T, <- !app_assoc.
    f_equal. rewrite app_assoc, firstn_skipn. reflexivity.
  - exists (curc (penv s)). rewrite app_assoc. destruct (N eq_refl) as [_ ->]. reflexivity.
Qed.

(* ------------------------------------------------------------------ notify *)
Definition nmu (pre : bytes) (s : nstate) : nat :=
  3 * length (queue s) + 2 * b2n (sigW s) + 2 * b2n (sigD s) + undel pre (nenv s) (ndel s)
  + match npcs s with NRead => 1 | _ => 0 end.

Section NotifyLive.
Variable reopen : bool.
Variable pre : bytes.
Notation nstep := (nstep reopen true).
Notation NInv := (NInv reopen pre).

Lemma ninv_next s l s' : NInv s -> is_env l = false -> nstep s l s' -> NInv s'.
Proof. intros I E St. eapply (ninv_step reopen true pre s l s'); [exact I|apply nonenv_nok, E|intros X; discriminate X|exact St]. Qed.

(* every reader / watcher step decreases the measure *)
Lemma nmeasure s l s' : NInv s -> is_env l = false -> nstep s l s' -> nmu pre s' < nmu pre s.
Proof.
  intros I E St. pose proof (ninv_next _ _ _ I E St) as I'. destruct (ninv_prefix_gen _ _ _ I') as [rest A].
  inversion St; subst; unfold nmu; cbn [nenv nfd npcs sigW sigD queue ndel] in *.
  - rewrite (estep_env_label _ _ _ H) in E. discriminate.
  - discriminate.
  - rewrite H. cbn [length]. destruct ev, (sigW s), (sigD s); cbn [b2n]; lia.
  - rewrite H. pose proof (undel_data _ _ _ _ _ A H1). lia.
  - rewrite H. lia.
  - rewrite H. lia.
  - rewrite H, H0. cbn [b2n]. lia.
  - rewrite H, H0. cbn [b2n]. lia.
  - rewrite H, H0. cbn [b2n]. lia.
  - discriminate.
Qed.

(* progress: descriptor = file at the path, undelivered bytes, not ended => somebody can move *)
Lemma nprogress s off : NInv s -> nfd s = Some (ino (nenv s), off) -> present (nenv s) = true ->
  off < length (curc (nenv s)) -> npcs s <> NEnded -> exists l s', is_env l = false /\ nstep s l s'.
Proof.
  intros I F Pp Lt Ne. destruct (npcs s) eqn:Pc; [| |congruence].
  - exists (LData (skipn off (content (nenv s) (ino (nenv s))))). eexists. split; [reflexivity|].
    eapply n_read_data with (rest := []); eauto.
    + intros X. apply skipn_nil_len in X. unfold ino in X. rewrite content_cur in X. lia.
    + rewrite app_nil_r. reflexivity.
  - destruct (iW _ _ _ I _ _ F Pp eq_refl Lt Pc) as [X|X].
    + exists LTau. eexists. split; [reflexivity|]. apply n_sel_write; auto.
    + destruct (queue s) as [|ev q] eqn:Q; [destruct X|]. exists LWatch. eexists. split; [reflexivity|].
      eapply n_watch; eauto.
Qed.

(* plain follow never changes the inode of its descriptor *)
Definition ZInv (s : nstate) : Prop := reopen = false -> forall i off, nfd s = Some (i, off) -> i = 0.
Lemma zinv_step s l s' : ZInv s -> nstep s l s' -> ZInv s'.
Proof.
  intros Z St. inversion St; subst; intros Hr; specialize (Z Hr); cbn [nfd]; auto.
  - intros i0 off0 F. inversion F; subst. eapply Z; eauto.
  - rewrite Hr. destruct (nfd s) as [[i1 o1]|] eqn:F1; [exact Z|discriminate].
  - congruence.
Qed.

(* the three facts the induction carries *)
Definition Open (s : nstate) : Prop := fd_current (nenv s) (nfd s) = true /\ npcs s <> NEnded.

Lemma open_next s l s' : NInv s -> ZInv s -> Open s -> is_env l = false -> nstep s l s' -> Open s'.
Proof.
  intros I Z [Fc Ne] E St. inversion St; subst; unfold Open; cbn [nenv nfd npcs sigW sigD queue ndel] in *;
    try (rewrite (estep_env_label _ _ _ H) in E; discriminate); try discriminate; try (split; [assumption|congruence]).
  - split; [|congruence]. rewrite H0 in Fc. exact Fc.
  - split; [|congruence]. destruct (nfd s); [exact Fc|discriminate].
  - split; [|congruence]. rewrite Fc. exact Fc.
  - (* plain follow cannot end here: its descriptor is inode 0 = the file at the path, so nothing was removed *)
    exfalso. destruct (nfd s) as [[i off]|] eqn:F; [|discriminate]. cbn in Fc. apply andb_true_iff in Fc as [_ Fc].
    apply Nat.eqb_eq in Fc. rewrite (Z H1 i off F) in Fc. apply (iD _ _ _ I); [left; assumption|].
    unfold ino in Fc. symmetry in Fc. apply length_zero_iff_nil in Fc. exact Fc.
Qed.

Lemma ndrained_at_end s i off : NInv s -> nfd s = Some (i, off) -> present (nenv s) = true -> i = ino (nenv s) ->
  length (curc (nenv s)) <= off -> pre ++ ndel s = all (nenv s).
Proof.
  intros I F Pp -> Ge. rewrite (iP _ _ _ I _ _ F). unfold ino, all. rewrite firstn_all, content_cur, firstn_all2 by exact Ge.
  reflexivity.
Qed.

Lemma nmust k : forall s, nmu pre s <= k -> NInv s -> ZInv s -> Open s ->
  must nstep (fun s => pre ++ ndel s = all (nenv s)) k s.
Proof.
  induction k as [|k IH]; intros s Le I Z O; pose proof O as [Fc Ne];
    destruct (nfd s) as [[i off]|] eqn:F; try discriminate; cbn in Fc; apply andb_true_iff in Fc as [Pp Ei];
    apply Nat.eqb_eq in Ei; destruct (Nat.lt_ge_cases off (length (curc (nenv s)))) as [Lt|Ge];
    try (apply must_now; eapply ndrained_at_end; eauto; fail).
  - exfalso. subst i. destruct (nprogress s off I F Pp Lt Ne) as (l & s' & E & St).
    pose proof (nmeasure _ _ _ I E St). lia.
  - subst i. apply must_step; [apply (nprogress s off I F Pp Lt Ne)|].
    intros l s' E St. apply IH.
    + pose proof (nmeasure _ _ _ I E St). lia.
    + eapply ninv_next; eauto.
    + eapply zinv_step; eauto.
    + eapply open_next; eauto.
Qed.

(* re-open, no descriptor yet, the file is at the path and a wake-up for it is pending (write signal, or a Write
   / Create event still queued): the reader opens it and then delivers all of it.  (Without a pending wake-up
   nothing is guaranteed until the next write: C15_reopen_wakeup_refuted.) *)
Definition Cold (s : nstate) : Prop :=
  reopen = true /\ nfd s = None /\ present (nenv s) = true /\ npcs s <> NEnded /\
  (sigW s = true \/ In EvWrite (queue s) \/ In EvCreate (queue s)).

Lemma ncold_progress s : Cold s -> exists l s', is_env l = false /\ nstep s l s'.
Proof.
  intros (Ro & F & Pp & Ne & Wk). destruct (npcs s) eqn:Pc; [| |congruence].
  - exists LTau. eexists. split; [reflexivity|]. apply n_read_nofd; auto.
  - destruct Wk as [X|X].
    + exists LTau. eexists. split; [reflexivity|]. apply n_sel_write; auto.
    + destruct (queue s) as [|ev q] eqn:Q; [destruct X as [[]|[]]|]. exists LWatch. eexists. split; [reflexivity|].
      eapply n_watch; eauto.
Qed.

Lemma ncold_next s l s' : Cold s -> is_env l = false -> nstep s l s' -> Cold s' \/ Open s'.
Proof.
  intros (Ro & F & Pp & Ne & Wk) E St. inversion St; subst; unfold Cold, Open; cbn [nenv nfd npcs sigW sigD queue ndel] in *;
    try (rewrite (estep_env_label _ _ _ H) in E; discriminate); try discriminate; try congruence.
  - left. repeat split; auto. rewrite H in Wk. destruct ev.
    + left. reflexivity.
    + destruct Wk as [X|[[X|X]|[X|X]]]; try discriminate; auto.
    + left. reflexivity.
    + destruct Wk as [X|[[X|X]|[X|X]]]; try discriminate; auto.
  - left. repeat split; auto; congruence.
  - right. rewrite F, Ro. unfold open_cur. rewrite Pp. cbn. rewrite Pp, Nat.eqb_refl. split; [reflexivity|congruence].
  - left. rewrite F. cbn. repeat split; auto; congruence.
Qed.

Lemma ncold_must k : forall s, nmu pre s <= k -> NInv s -> Cold s ->
  must nstep (fun s => pre ++ ndel s = all (nenv s)) k s.
Proof.
  induction k as [|k IH]; intros s Le I C.
  - exfalso. destruct (ncold_progress s C) as (l & s' & E & St). pose proof (nmeasure _ _ _ I E St). lia.
  - apply must_step; [apply ncold_progress, C|]. intros l s' E St.
    pose proof (nmeasure _ _ _ I E St) as M. pose proof (ninv_next _ _ _ I E St) as I'.
    destruct (ncold_next _ _ _ C E St) as [C'|O'].
    + apply IH; auto. lia.
    + apply nmust; auto; [lia|]. intros Hr. destruct C as [Ro _]. congruence.
Qed.
End NotifyLive.

(* ------------------------------------------------------------------ poll *)
Definition pmu (pre : bytes) (s : pstate) : nat :=
  4 * undel pre (penv s) (pdel s) + match ppcs s with PStat => 2 | POpen _ => 1 | _ => 0 end.

Lemma nonenv_pok pre s l : is_env l = false -> fd_current (penv s) (pfd s) = true -> pok pre s l.
Proof. destruct l; cbn; intros E Fc; try exact I; try discriminate. intros _ X. congruence. Qed.

Section PollLive.
Variable reopen : bool.
Variable pre : bytes.
Notation pstep := (pstep reopen true).
Notation PInv := (PInv reopen pre).

(* the descriptor is the file at the path; [hot]: and bytes of it are undelivered *)
Definition POpenCur (s : pstate) : Prop := fd_current (penv s) (pfd s) = true /\ ppcs s <> PEnded.

Lemma pinv_next s l s' : PInv s -> fd_current (penv s) (pfd s) = true -> is_env l = false -> pstep s l s' -> PInv s'.
Proof. intros I Fc E St. eapply pinv_step; eauto using nonenv_pok. Qed.

Lemma cur_fd s : fd_current (penv s) (pfd s) = true ->
  exists off, pfd s = Some (ino (penv s), off) /\ present (penv s) = true.
Proof.
  destruct (pfd s) as [[i off]|]; [|discriminate]. cbn. intros H. apply andb_true_iff in H as [Pp E].
  apply Nat.eqb_eq in E. subst i. eauto.
Qed.

Lemma hot_data s off : pfd s = Some (ino (penv s), off) -> off < length (curc (penv s)) ->
  skipn off (content (penv s) (ino (penv s))) <> [].
Proof. intros F Lt X. apply skipn_nil_len in X. unfold ino in X. rewrite content_cur in X. lia. Qed.

(* every reader step decreases the measure while undelivered bytes of the open file exist *)
Lemma pmeasure s l s' off : PInv s -> pfd s = Some (ino (penv s), off) -> present (penv s) = true ->
  off < length (curc (penv s)) -> is_env l = false -> pstep s l s' -> pmu pre s' < pmu pre s.
Proof.
  intros I F Pp Lt E St.
  assert (fd_current (penv s) (pfd s) = true) as Fc by (rewrite F; cbn; rewrite Pp, Nat.eqb_refl; reflexivity).
  pose proof (pinv_next _ _ _ I Fc E St) as I'. destruct (pinv_prefix_gen _ _ _ I') as [rest A].
  pose proof (hot_data s off F Lt) as Hd.
  inversion St; subst; unfold pmu; cbn [penv pfd ppcs rb pdel] in *.
  - rewrite (estep_env_label _ _ _ H) in E. discriminate.
  - rewrite H. pose proof (undel_data _ _ _ _ _ A H1). lia.
  - exfalso. rewrite F in H0. inversion H0; subst. auto.
  - exfalso. rewrite F in H0. inversion H0; subst. auto.
  - congruence.
  - rewrite H. destruct (present (penv s) && negb (size (penv s) =? rb s)); lia.
  - rewrite H. destruct (rb s <=? sz); cbn [penv pfd ppcs rb pdel]; lia.
  - rewrite H. lia.
  - rewrite H. lia.
  - discriminate.
Qed.

Lemma pprogress s off : pfd s = Some (ino (penv s), off) -> present (penv s) = true ->
  off < length (curc (penv s)) -> ppcs s <> PEnded -> exists l s', is_env l = false /\ pstep s l s'.
Proof.
  intros F Pp Lt Ne. destruct (ppcs s) eqn:Pc; [| | |congruence].
  - exists (LData (skipn off (content (penv s) (ino (penv s))))). eexists. split; [reflexivity|].
    eapply p_read_data with (rest := []) (a := 0); eauto using hot_data. rewrite app_nil_r. reflexivity.
  - destruct reopen eqn:Ro.
    + exists LStat. eexists. split; [reflexivity|]. apply p_stat_reopen with (a := 0); auto.
    + exists LTau. eexists. split; [reflexivity|]. apply p_stat_present with (a := 0); auto.
      unfold plain_sees, still_open. rewrite F. cbn. rewrite Pp, Nat.eqb_refl. reflexivity.
  - exists LTau. eexists. split; [reflexivity|]. eapply p_open with (a := 0); eauto.
Qed.

(* a reader step keeps the descriptor on the file at the path (while it has undelivered bytes) and does not end *)
Lemma popen_next s l s' off : PInv s -> pfd s = Some (ino (penv s), off) -> present (penv s) = true ->
  off < length (curc (penv s)) -> ppcs s <> PEnded -> is_env l = false -> pstep s l s' -> POpenCur s'.
Proof.
  intros I F Pp Lt Ne E St.
  assert (fd_current (penv s) (pfd s) = true) as Fc by (rewrite F; cbn; rewrite Pp, Nat.eqb_refl; reflexivity).
  inversion St; subst; unfold POpenCur; cbn [penv pfd ppcs rb pdel] in *;
    try (rewrite (estep_env_label _ _ _ H) in E; discriminate); try (split; [assumption|congruence]).
  - split; [|congruence]. rewrite H0 in Fc. exact Fc.
  - split; [exact Fc|]. destruct (present (penv s) && negb (size (penv s) =? rb s)); congruence.
  - (* os.Open: the size seen by os.Stat was not below readBytes, the descriptor is re-opened at readBytes *)
    destruct (qQ _ _ _ I sz H) as [Q1 Q2]. pose proof (qO _ _ _ I _ _ F) as Eo.
    destruct (rb s <=? sz) eqn:Le; cbn [penv pfd ppcs rb pdel]; [apply Nat.leb_le in Le|apply Nat.leb_gt in Le].
    + unfold open_cur. rewrite Pp. split; [|congruence]. cbn. rewrite Pp, Nat.eqb_refl. reflexivity.
    + exfalso. specialize (Q2 Le). rewrite (qP _ _ _ I _ _ F) in Q2. unfold ino in Q2. rewrite firstn_all, content_cur in Q2.
      rewrite <- (app_nil_r (concat _)) in Q2 at 2. apply app_inv_head in Q2.
      apply (f_equal (@length _)) in Q2. rewrite firstn_length in Q2. cbn in Q2. lia.
  - (* plain follow: the path still is the open file, the Stat branch cannot end the stream *)
    exfalso. match goal with X : plain_sees _ _ _ = false |- _ => unfold plain_sees, still_open in X; rewrite F in X, Fc; congruence end.
Qed.

Lemma pdrained_at_end s off : PInv s -> pfd s = Some (ino (penv s), off) -> present (penv s) = true ->
  length (curc (penv s)) <= off -> pre ++ pdel s = all (penv s).
Proof.
  intros I F Pp Ge. rewrite (qP _ _ _ I _ _ F). unfold ino, all. rewrite firstn_all, content_cur, firstn_all2 by exact Ge.
  reflexivity.
Qed.

Lemma pmust k : forall s, pmu pre s <= k -> PInv s -> POpenCur s ->
  must pstep (fun s => pre ++ pdel s = all (penv s)) k s.
Proof.
  induction k as [|k IH]; intros s Le I [Fc Ne]; pose proof Fc as Fc0; destruct (cur_fd s Fc) as (off & F & Pp);
    destruct (Nat.lt_ge_cases off (length (curc (penv s)))) as [Lt|Ge];
    try (apply must_now; eapply pdrained_at_end; eauto; fail).
  - exfalso. destruct (pprogress s off F Pp Lt Ne) as (l & s' & E & St).
    pose proof (pmeasure _ _ _ _ I F Pp Lt E St). lia.
  - apply must_step; [apply (pprogress s off F Pp Lt Ne)|].
    intros l s' E St. apply IH.
    + pose proof (pmeasure _ _ _ _ I F Pp Lt E St). lia.
    + eapply pinv_next; eauto.
    + eapply popen_next; eauto.
Qed.

(* re-open, the file at the path is a re-created one the poller has not opened yet: nothing of it delivered,
   non-empty, and STRICTLY shorter than readBytes (or nothing read so far) — the property's proviso; a file of
   exactly readBytes bytes is never noticed.  The retry budget [patt] bounds the useless read attempts. *)
Definition PCold (s : pstate) : Prop :=
  reopen = true /\ fd_current (penv s) (pfd s) = false /\ present (penv s) = true /\
  0 < size (penv s) /\ (size (penv s) < rb s \/ rb s = 0) /\
  pre ++ pdel s = concat (past (penv s)) /\ ppcs s <> PEnded.
Definition cw (s : pstate) : nat := match ppcs s with PRead => 3 + patt s | PStat => 2 | POpen _ => 1 | PEnded => 0 end.

Lemma pcold_pok s l : PCold s -> is_env l = false -> pok pre s l.
Proof. intros (_ & _ & _ & _ & Sz & _) E. destruct l; cbn; try exact Logic.I; try discriminate. intros _ _. lia. Qed.

Lemma pcold_progress s : PCold s -> exists l s', is_env l = false /\ pstep s l s'.
Proof.
  intros (Ro & Fc & Pp & Sz & Lt & Dl & Ne). destruct (ppcs s) eqn:Pc; [| | |congruence].
  - destruct (pfd s) as [[i off]|] eqn:F.
    + destruct (skipn off (content (penv s) i)) as [|b r] eqn:Sk.
      * exists LTau. eexists. split; [reflexivity|]. eapply p_read_giveup; eauto.
      * exists (LData (b :: r)). eexists. split; [reflexivity|].
        eapply p_read_data with (rest := []) (a := 0); eauto; [discriminate|rewrite app_nil_r; exact Sk].
    + exists LTau. eexists. split; [reflexivity|]. apply p_nofd; auto.
  - exists LStat. eexists. split; [reflexivity|]. apply p_stat_reopen with (a := 0); auto.
  - exists LTau. eexists. split; [reflexivity|]. eapply p_open with (a := 0); eauto.
Qed.

(* nothing can be read from a descriptor on a removed file once every removed file was delivered *)
Lemma pcold_no_data s i off bs rest : PInv s -> PCold s -> pfd s = Some (i, off) -> bs <> [] ->
  skipn off (content (penv s) i) = bs ++ rest -> False.
Proof.
  intros I (Ro & Fc & Pp & Sz & Lt & Dl & Ne) F Hb Sk.
  pose proof (qV _ _ _ I) as V. rewrite F in V, Fc. pose proof (not_current_old _ _ _ V Fc) as Old.
  pose proof (qP _ _ _ I _ _ F) as P. rewrite Dl, content_past in P by exact Old.
  rewrite (concat_split _ i Old) in P. apply app_inv_head in P.
  rewrite content_past in Sk by exact Old.
  assert (E := f_equal (@length _) P). rewrite !app_length, firstn_length in E.
  pose proof (chunk_len _ _ _ _ Sk Hb). destruct bs; [congruence|]. cbn [length] in *. lia.
Qed.

(* a reader step from a cold state: still cold with a smaller weight and nothing delivered, or the new file is open *)
Lemma pcold_next s l s' : PInv s -> PCold s -> is_env l = false -> pstep s l s' ->
  (PCold s' /\ cw s' < cw s /\ undel pre (penv s') (pdel s') = undel pre (penv s) (pdel s)) \/
  (POpenCur s' /\ ppcs s' = PRead /\ undel pre (penv s') (pdel s') = undel pre (penv s) (pdel s)).
Proof.
  intros I C E St. pose proof C as (Ro & Fc & Pp & Sz & Lt & Dl & Ne).
  inversion St; subst; unfold PCold, POpenCur, cw; cbn [penv pfd ppcs rb pdel patt] in *;
    try (rewrite (estep_env_label _ _ _ H) in E; discriminate); try congruence.
  - exfalso. eapply pcold_no_data; eauto.
  - left. rewrite H, H2. repeat split; auto; try congruence; try lia.
  - left. rewrite H. repeat split; auto; try congruence; try lia.
  - left. rewrite H. repeat split; auto; try congruence; try lia.
  - left. rewrite Pp. replace (size (penv s) =? rb s) with false by (symmetry; apply Nat.eqb_neq; lia). cbn [andb negb].
    rewrite H. repeat split; auto; try congruence; try lia.
  - right. destruct (qQ _ _ _ I sz H) as [Q1 Q2]. unfold open_cur. rewrite Pp.
    destruct (rb s <=? sz) eqn:Le; cbn [penv pfd ppcs rb pdel patt]; cbn; rewrite Pp, Nat.eqb_refl; repeat split; auto; congruence.
  - discriminate.
Qed.

Lemma pcold_must k : forall s, cw s + 4 * undel pre (penv s) (pdel s) <= k -> PInv s -> PCold s ->
  must pstep (fun s => pre ++ pdel s = all (penv s)) k s.
Proof.
  induction k as [|k IH]; intros s Le I C.
  - exfalso. destruct C as (_ & _ & _ & _ & _ & _ & Ne). unfold cw in Le. destruct (ppcs s); try lia. congruence.
  - apply must_step; [apply pcold_progress, C|]. intros l s' E St.
    assert (PInv s') as I' by (eapply pinv_step; eauto using pcold_pok).
    destruct (pcold_next _ _ _ I C E St) as [(C' & W & U)|(O' & Pc & U)].
    + apply IH; auto. lia.
    + apply pmust; auto. unfold pmu. rewrite Pc, U. unfold cw in Le. destruct C as (_ & _ & _ & _ & _ & _ & Ne).
      destruct (ppcs s); try lia. congruence.
Qed.
End PollLive.
