(* C11: the boolean form used on the implementation's outputs accepts everything the model
   produces (outside the recorded findings). *)
From Coq Require Import List NArith ZArith Lia Bool ZifyN ZifyNat ZifyBool.
From RareV Require Import Base.Hex Base.Res Base.Num Gen.GenC11 Model.Humanize Model.CsvItem Model.Funcs
  Proofs.NumProof Proofs.FuncsArith Proofs.FuncsStr Proofs.HumanizeProof Proofs.CsvItemProof.
Import ListNotations.
Local Open Scope Z_scope.

(* inputs outside the domains of the recorded (not repaired) findings; for hf only the marker /
   arity structure is covered by this theorem (the grouping law of humanizeFloat is tested on the
   implementation's output, not proved of the model) *)
Definition C11_guard (c : case) : Prop :=
  let '(f, args, orc) := c in
  match f with
  | And | Or => no_blank_only args
  | Ceil => match args with
            | [a] => match a_f a with
                     | Some (FFin m e) => in_int64 (fceil m e) = true
                     | Some _ => False
                     | None => True
                     end
            | _ => True
            end
  | Floor => match args with
             | [a] => match a_f a with
                      | Some (FFin m e) => in_int64 (ffloor m e) = true
                      | Some _ => False
                      | None => True
                      end
             | _ => True
             end
  | Hf => match args with [a] => a_f a = None | _ => True end
  | Bytesize | BytesizeSi =>
      match args with
      | a :: _ => match atou (a_val a) with Some u => (u < 2 ^ 63)%N | None => True end
      | [] => True
      end
  | _ => True
  end.

Lemma bytes_eqb_refl a : bytes_eqb a a = true.
Proof. apply bytes_eqb_eq. reflexivity. Qed.

Lemma res_eqb_refl r : res_eqb r r = true.
Proof. destruct r; cbn; [apply bytes_eqb_refl|reflexivity]. Qed.

Lemma is_pow10_pow : forall fuel k, 0 <= k < Z.of_nat fuel -> is_pow10 fuel (10 ^ k) = true.
Proof.
  induction fuel as [|f IH]; intros k Hk; [lia|]. cbn [is_pow10].
  destruct (Z.eq_dec k 0) as [->|Hne]; [reflexivity|].
  replace k with (Z.succ (k - 1)) by lia. rewrite Z.pow_succ_r by lia.
  rewrite (Z.mul_comm 10). rewrite Z.rem_mul, Z.quot_mul by lia. rewrite IH by lia.
  rewrite orb_true_r. reflexivity.
Qed.

Lemma pow10_bound k v : 0 <= k -> 10 ^ k <= v -> v <= max_int64 -> k < 19.
Proof.
  intros Hk H1 H2. destruct (Z_lt_ge_dec k 19) as [|Hge]; [assumption|exfalso].
  assert (10 ^ 19 <= 10 ^ k) by (apply Z.pow_le_mono_r; lia).
  unfold max_int64 in H2. change (10 ^ 19) with 10000000000000000000 in *. lia.
Qed.

Lemma static_int_inv b s : static_int b = Some s -> a_const b = true /\ atoi (a_val b) = Some s.
Proof. unfold static_int. destruct (a_const b); [auto|discriminate]. Qed.

Ltac dflt := first [apply res_eqb_refl | cbn [on_ok]; apply bytes_eqb_refl].

Theorem C11_check_sound_proof : forall c, C11_guard c -> C11_check c (eval c) = true.
Proof.
  intros [[f args] orc] G. unfold C11_check. cbv zeta.
  destruct f; try apply res_eqb_refl;
    try (destruct args as [|a0 [|a1 [|a2 [|a3 r]]]]; try apply res_eqb_refl; fail).
  - (* Bucket *)
    destruct args as [|a [|b [|x r]]]; try apply res_eqb_refl.
    destruct (static_int b) as [s|] eqn:Sb; [|apply res_eqb_refl].
    destruct (atoi (a_val a)) as [v|] eqn:Aa; [|apply res_eqb_refl].
    destruct ((0 <? s) && (min_int64 + s <=? v)) eqn:Gd; [|apply res_eqb_refl].
    apply andb_true_iff in Gd as [G1 G2]. apply Z.ltb_lt in G1. apply Z.leb_le in G2.
    destruct (static_int_inv _ _ Sb) as [Cb Ab]. destruct a as [ca va fa], b as [cb vb fb].
    cbn [a_const a_val] in *. subst cb.
    destruct (bucket_law_proof ca va vb fa fb v s Aa Ab G1 G2) as (bk & E & P & [q D] & B1 & B2).
    cbn [eval]. rewrite E. cbn [on_ok]. rewrite P.
    subst bk. rewrite Z.rem_mul by lia. cbn [Z.eqb andb].
    apply andb_true_iff. split; [apply Z.leb_le|apply Z.ltb_lt]; lia.
  - (* BucketRange *)
    destruct args as [|a [|b [|x r]]]; try apply res_eqb_refl.
    destruct (static_int b) as [s|] eqn:Sb; [|apply res_eqb_refl].
    destruct (atoi (a_val a)) as [v|] eqn:Aa; [|apply res_eqb_refl].
    destruct ((0 <? s) && (min_int64 + s <=? v) && (spec_bucket v s + s - 1 <=? max_int64)) eqn:Gd; [|apply res_eqb_refl].
    apply andb_true_iff in Gd as [Gd G3]. apply andb_true_iff in Gd as [G1 G2].
    apply Z.ltb_lt in G1. apply Z.leb_le in G2, G3.
    destruct (static_int_inv _ _ Sb) as [Cb Ab]. destruct a as [ca va fa], b as [cb vb fb].
    cbn [a_const a_val] in *. subst cb. cbn [eval].
    rewrite (bucketrange_law_proof ca va vb fa fb v s Aa Ab G1 G2 G3). cbn [on_ok]. apply bytes_eqb_refl.
  - (* Clamp *)
    destruct args as [|a [|lo [|hi [|x r]]]]; try apply res_eqb_refl.
    destruct (static_int lo) as [l|] eqn:Sl; [|apply res_eqb_refl].
    destruct (static_int hi) as [h|] eqn:Sh; [|apply res_eqb_refl].
    destruct (atoi (a_val a)) as [v|] eqn:Aa; [|apply res_eqb_refl].
    cbn [eval]. unfold f_clamp. rewrite Sl, Sh, Aa. rewrite Z.gtb_ltb.
    destruct (v <? l); [dflt|]. destruct (h <? v); dflt.
  - (* ExpBucket *)
    destruct args as [|a [|x r]]; try apply res_eqb_refl.
    destruct (atoi (a_val a)) as [v|] eqn:Aa.
    + destruct (1 <=? v) eqn:G1; [|apply res_eqb_refl]. apply Z.leb_le in G1.
      destruct a as [ca va fa]. cbn [a_val] in *.
      destruct (expbucket_law_proof ca va fa v Aa G1) as (k & Hk & E & B1 & B2).
      pose proof (atoi_range _ _ Aa) as R.
      cbn [eval]. rewrite E. cbn [on_ok].
      rewrite atoi_itoa by (apply in_int64_iff; unfold min_int64 in *; assert (0 < 10 ^ k) by (apply Z.pow_pos_nonneg; lia); lia).
      rewrite is_pow10_pow by (pose proof (pow10_bound k v Hk B1 ltac:(lia)); lia). cbn [andb].
      rewrite Z.pow_add_r in B2 by lia. change (10 ^ 1) with 10 in B2.
      apply andb_true_iff. split; [apply Z.leb_le|apply Z.ltb_lt]; lia.
    + cbn [eval]. unfold f_expbucket. rewrite Aa. dflt.
  - (* Ceil *)
    destruct args as [|a [|x r]]; try apply res_eqb_refl.
    unfold C11_guard in G. cbn [eval]. unfold f_ceilfloor. destruct (a_f a) as [[| | |m e]|]; try (exfalso; exact G); cbn [on_ok f_to_int].
    + rewrite G. apply bytes_eqb_refl.
    + apply bytes_eqb_refl.
  - (* Floor *)
    destruct args as [|a [|x r]]; try apply res_eqb_refl.
    unfold C11_guard in G. cbn [eval]. unfold f_ceilfloor. destruct (a_f a) as [[| | |m e]|]; try (exfalso; exact G); cbn [on_ok f_to_int].
    + rewrite G. apply bytes_eqb_refl.
    + apply bytes_eqb_refl.
  - (* And *)
    cbn [eval]. destruct (andor_partial_proof args G) as [E _]. rewrite E.
    destruct args; cbn [on_ok]; apply bytes_eqb_refl.
  - (* Or *)
    cbn [eval]. destruct (andor_partial_proof args G) as [_ E]. rewrite E.
    destruct args; cbn [on_ok]; apply bytes_eqb_refl.
  - (* Hi *)
    destruct args as [|a [|x r]]; try apply res_eqb_refl.
    cbn [eval]. unfold f_hi, ok. destruct (atoi (a_val a)) as [v|]; cbn [on_ok]; [|apply bytes_eqb_refl].
    destruct (hi_law_proof v) as [H1 H2]. rewrite H1, H2, bytes_eqb_refl. reflexivity.
  - (* Hf *)
    destruct args as [|a [|x r]]; try apply res_eqb_refl.
    unfold C11_guard in G. rewrite G. cbn [eval]. unfold f_hf. rewrite G. dflt.
  - (* Bytesize *)
    destruct args as [|a r]; try apply res_eqb_refl.
    unfold C11_guard in G. destruct (atou (a_val a)) as [u|]; [|apply res_eqb_refl].
    assert (E : (2 ^ 63 <=? u)%N = false) by (apply N.leb_gt; exact G). rewrite E. apply res_eqb_refl.
  - (* BytesizeSi *)
    destruct args as [|a r]; try apply res_eqb_refl.
    unfold C11_guard in G. destruct (atou (a_val a)) as [u|]; [|apply res_eqb_refl].
    assert (E : (2 ^ 63 <=? u)%N = false) by (apply N.leb_gt; exact G). rewrite E. apply res_eqb_refl.
  - (* Csv *)
    destruct args as [|a r]; try apply res_eqb_refl.
    cbn [eval]. unfold f_csv, ok. cbn [on_ok]. rewrite csv_roundtrip_proof by discriminate.
    apply list_eqb_eq; [apply bytes_eqb_eq|reflexivity].
Qed.

(* the guard is satisfiable in every family; e.g. these inputs satisfy it and have non-marker results *)
Example guard_examples :
  C11_guard (Bucket, [A false [45; 49; 48; 48]%N None; A true [53; 48]%N None], []%list) /\
  eval (Bucket, [A false [45; 49; 48; 48]%N None; A true [53; 48]%N None], []%list) = Ok [45; 49; 48; 48]%N /\
  eval (Hi, [A false [45; 57; 50; 50; 51; 51; 55; 50; 48; 51; 54; 56; 53; 52; 55; 55; 53; 56; 48; 56]%N None], []%list)
    = Ok [45; 57; 44; 50; 50; 51; 44; 51; 55; 50; 44; 48; 51; 54; 44; 56; 53; 52; 44; 55; 55; 53; 44; 56; 48; 56]%N /\
  eval (Divi, [A false [49]%N None; A false [48]%N None], []%list) = Ok ErrorValue /\
  eval (Substr, [A true [97; 98; 99]%N None; A true [49]%N None;
                 A true [57; 50; 50; 51; 51; 55; 50; 48; 51; 54; 56; 53; 52; 55; 55; 53; 56; 48; 55]%N None], []%list) = Ok [98; 99]%N /\
  eval (Csv, [A false [97; 44; 34]%N None; A true []%list None], []%list) = Ok [34; 97; 44; 34; 34; 34; 44]%N.
Proof. vm_compute. repeat split; reflexivity. Qed.
