(* C11: the boolean form used on the implementation's outputs accepts everything the model
   produces (outside the recorded findings). *)
From Coq Require Import List NArith ZArith Lia Bool ZifyN ZifyNat ZifyBool.
From RareV Require Import Base.Hex Base.Res Base.Num Gen.GenC11 Model.Humanize Model.CsvItem Model.Funcs
  Proofs.NumProof Proofs.FuncsArith Proofs.FuncsStr Proofs.FuncsCeil Proofs.HumanizeProof Proofs.HumanizeFloatProof Proofs.CsvItemProof.
Import ListNotations.
Local Open Scope Z_scope.

(* the only side conditions left concern the oracle text of the two helpers whose law is tested on
   the output: the text strconv.AppendFloat(v, 'f', 4) handed to hf has the shape sign? digits (. rest)?
   without separators, and the mantissa text handed to bytesize/bytesizesi is not negative *)
Definition hf_text (orc : bytes) : Prop :=
  exists sign ds frac, orc = sign ++ ds ++ frac /\ (sign = [] \/ sign = [45%N]) /\ ds <> [] /\
    digits ds /\ frac_ok frac /\ strip_sep frac = frac.

Definition C11_guard (c : case) : Prop :=
  let '(f, args, orc) := c in
  match f with
  | Hf => match args with
          | [a] => match a_f a with Some (FFin _ _) => hf_text orc | _ => True end
          | _ => True
          end
  | Bytesize | BytesizeSi => is_prefix [45%N] orc = false /\ orc <> []
  | _ => True
  end.

Lemma bytes_eqb_refl a : bytes_eqb a a = true.
Proof. apply bytes_eqb_eq. reflexivity. Qed.

Lemma res_eqb_refl r : res_eqb r r = true.
Proof. destruct r; cbn; [apply bytes_eqb_refl|reflexivity]. Qed.

Lemma is_pow10_pow : forall fuel k, 0 <= k < Z.of_nat fuel -> is_pow10 fuel (10 ^ k) = true.
Proof.
  induction fuel as [|f IH]; intros k Hk; [lia|]. cbn [is_pow10].
  destruct (Z.eq_dec k 0) as [->|Hne]; [reflexivity|].
  replace k with (Z.succ (k - 1)) by lia. rewrite Z.pow_succ_r by lia.
  rewrite (Z.mul_comm 10). rewrite Z.rem_mul, Z.quot_mul by lia. rewrite IH by lia.
  rewrite orb_true_r. reflexivity.
Qed.

Lemma pow10_bound k v : 0 <= k -> 10 ^ k <= v -> v <= max_int64 -> k < 19.
Proof.
  intros Hk H1 H2. destruct (Z_lt_ge_dec k 19) as [|Hge]; [assumption|exfalso].
  assert (10 ^ 19 <= 10 ^ k) by (apply Z.pow_le_mono_r; lia).
  unfold max_int64 in H2. change (10 ^ 19) with 10000000000000000000 in *. lia.
Qed.

Lemma static_int_inv b s : static_int b = Some s -> a_const b = true /\ atoi (a_val b) = Some s.
Proof. unfold static_int. destruct (a_const b); [auto|discriminate]. Qed.

Lemma unitize_out_nonneg step delim units args orc :
  is_prefix [45%N] orc = false /\ orc <> [] ->
  exists out, f_unitize true step delim units args orc = Ok out /\ is_prefix [45%N] out = false.
Proof.
  intros [H1 H2]. unfold f_unitize, ok.
  assert (B : forall a, exists out,
             match option_map Z.of_N (atou (a_val a)) with
             | Some n => Ok (unitize n step delim units orc)
             | None => Ok ErrorNum
             end = Ok out /\ is_prefix [45%N] out = false).
  { intros a. destruct (atou (a_val a)) as [u|]; cbn [option_map].
    - eexists. split; [reflexivity|]. apply bytesize_nonneg_proof; assumption.
    - eexists. split; reflexivity. }
  destruct args as [|a [|p [|x r]]].
  - eexists. split; reflexivity.
  - apply B.
  - destruct (static_int p) as [pv|]; [destruct (precision_ok pv); [apply B|]|]; eexists; split; reflexivity.
  - eexists. split; reflexivity.
Qed.

Ltac dflt := first [apply res_eqb_refl | cbn [on_ok]; apply bytes_eqb_refl].

Theorem C11_check_sound_proof : forall c, C11_guard c -> C11_check c (eval c) = true.
Proof.
  intros [[f args] orc] G. unfold C11_check. cbv zeta.
  destruct f; try apply res_eqb_refl;
    try (destruct args as [|a0 [|a1 [|a2 [|a3 r]]]]; try apply res_eqb_refl; fail).
  - (* Bucket *)
    destruct args as [|a [|b [|x r]]]; try apply res_eqb_refl.
    destruct (static_int b) as [s|] eqn:Sb; [|apply res_eqb_refl].
    destruct (atoi (a_val a)) as [v|] eqn:Aa; [|apply res_eqb_refl].
    destruct ((0 <? s) && (min_int64 + s <=? v)) eqn:Gd; [|apply res_eqb_refl].
    apply andb_true_iff in Gd as [G1 G2]. apply Z.ltb_lt in G1. apply Z.leb_le in G2.
    destruct (static_int_inv _ _ Sb) as [Cb Ab]. destruct a as [ca va fa], b as [cb vb fb].
    cbn [a_const a_val] in *. subst cb.
    destruct (bucket_law_proof ca va vb fa fb v s Aa Ab G1 G2) as (bk & E & P & [q D] & B1 & B2).
    cbn [eval]. rewrite E. cbn [on_ok]. rewrite P.
    subst bk. rewrite Z.rem_mul by lia. cbn [Z.eqb andb].
    apply andb_true_iff. split; [apply Z.leb_le|apply Z.ltb_lt]; lia.
  - (* BucketRange *)
    destruct args as [|a [|b [|x r]]]; try apply res_eqb_refl.
    destruct (static_int b) as [s|] eqn:Sb; [|apply res_eqb_refl].
    destruct (atoi (a_val a)) as [v|] eqn:Aa; [|apply res_eqb_refl].
    destruct ((0 <? s) && (min_int64 + s <=? v) && (spec_bucket v s + s - 1 <=? max_int64)) eqn:Gd; [|apply res_eqb_refl].
    apply andb_true_iff in Gd as [Gd G3]. apply andb_true_iff in Gd as [G1 G2].
    apply Z.ltb_lt in G1. apply Z.leb_le in G2, G3.
    destruct (static_int_inv _ _ Sb) as [Cb Ab]. destruct a as [ca va fa], b as [cb vb fb].
    cbn [a_const a_val] in *. subst cb. cbn [eval].
    rewrite (bucketrange_law_proof ca va vb fa fb v s Aa Ab G1 G2 G3). cbn [on_ok]. apply bytes_eqb_refl.
  - (* Clamp *)
    destruct args as [|a [|lo [|hi [|x r]]]]; try apply res_eqb_refl.
    destruct (static_int lo) as [l|] eqn:Sl; [|apply res_eqb_refl].
    destruct (static_int hi) as [h|] eqn:Sh; [|apply res_eqb_refl].
    destruct (atoi (a_val a)) as [v|] eqn:Aa; [|apply res_eqb_refl].
    cbn [eval]. unfold f_clamp. rewrite Sl, Sh, Aa. rewrite Z.gtb_ltb.
    destruct (v <? l); [dflt|]. destruct (h <? v); dflt.
  - (* ExpBucket *)
    destruct args as [|a [|x r]]; try apply res_eqb_refl.
    destruct (atoi (a_val a)) as [v|] eqn:Aa.
    + destruct (1 <=? v) eqn:G1; [|apply res_eqb_refl]. apply Z.leb_le in G1.
      destruct a as [ca va fa]. cbn [a_val] in *.
      destruct (expbucket_law_proof ca va fa v Aa G1) as (k & Hk & E & B1 & B2).
      pose proof (atoi_range _ _ Aa) as R.
      cbn [eval]. rewrite E. cbn [on_ok].
      rewrite atoi_itoa by (apply in_int64_iff; unfold min_int64 in *; assert (0 < 10 ^ k) by (apply Z.pow_pos_nonneg; lia); lia).
      rewrite is_pow10_pow by (pose proof (pow10_bound k v Hk B1 ltac:(lia)); lia). cbn [andb].
      rewrite Z.pow_add_r in B2 by lia. change (10 ^ 1) with 10 in B2.
      apply andb_true_iff. split; [apply Z.leb_le|apply Z.ltb_lt]; lia.
    + cbn [eval]. unfold f_expbucket. rewrite Aa. dflt.
  - (* Ceil *)
    destruct args as [|a [|x r]]; try apply res_eqb_refl.
    cbn [eval]. unfold f_ceilfloor, ok. destruct (a_f a) as [[| | |m e]|]; cbn [on_ok f_to_int]; try reflexivity;
      try apply bytes_eqb_refl.
    destruct (in_int64 (fceil m e)); cbn [on_ok]; [apply bytes_eqb_refl|reflexivity].
  - (* Floor *)
    destruct args as [|a [|x r]]; try apply res_eqb_refl.
    cbn [eval]. unfold f_ceilfloor, ok. destruct (a_f a) as [[| | |m e]|]; cbn [on_ok f_to_int]; try reflexivity;
      try apply bytes_eqb_refl.
    destruct (in_int64 (ffloor m e)); cbn [on_ok]; [apply bytes_eqb_refl|reflexivity].
  (* And, Or: the model is the documented truthy logic; closed by the first tactic *)
  - (* Hi *)
    destruct args as [|a [|x r]]; try apply res_eqb_refl.
    cbn [eval]. unfold f_hi, ok. destruct (atoi (a_val a)) as [v|]; cbn [on_ok]; [|apply bytes_eqb_refl].
    destruct (hi_law_proof v) as [H1 H2]. rewrite H1, H2, bytes_eqb_refl. reflexivity.
  - (* Hf *)
    destruct args as [|a [|x r]]; try apply res_eqb_refl.
    unfold C11_guard in G. cbn [eval]. unfold f_hf, ok.
    destruct (a_f a) as [[| | |m e]|]; try apply res_eqb_refl; [|cbn [on_ok]; apply bytes_eqb_refl].
    destruct G as (sign & ds & frac & -> & Hs & Hne & Hd & Hf & Hfs).
    rewrite hf_law_proof by assumption. cbn [on_ok].
    destruct (hf_check_proof sign ds frac Hs Hne Hd Hf Hfs) as [C1 C2]. cbn zeta in C1, C2.
    rewrite C1, C2, bytes_eqb_refl. reflexivity.
  - (* Bytesize *)
    destruct args as [|a r]; try apply res_eqb_refl. rewrite res_eqb_refl. cbn [andb].
    destruct (unitize_out_nonneg bytesize_step bytesize_delim bytesize_units (a :: r) orc G) as (out & E & N).
    cbn [eval]. rewrite E. cbn [on_ok]. rewrite N. reflexivity.
  - (* BytesizeSi *)
    destruct args as [|a r]; try apply res_eqb_refl. rewrite res_eqb_refl. cbn [andb].
    destruct (unitize_out_nonneg bytesizesi_step bytesizesi_delim bytesizesi_units (a :: r) orc G) as (out & E & N).
    cbn [eval]. rewrite E. cbn [on_ok]. rewrite N. reflexivity.
  - (* Csv *)
    destruct args as [|a r]; try apply res_eqb_refl.
    cbn [eval]. unfold f_csv, ok. cbn [on_ok]. rewrite csv_roundtrip_proof by discriminate.
    apply list_eqb_eq; [apply bytes_eqb_eq|reflexivity].
Qed.

(* the guard is satisfiable in every family; e.g. these inputs satisfy it and have non-marker results *)
Example guard_examples :
  C11_guard (Bucket, [A false [45; 49; 48; 48]%N None; A true [53; 48]%N None], []%list) /\
  eval (Bucket, [A false [45; 49; 48; 48]%N None; A true [53; 48]%N None], []%list) = Ok [45; 49; 48; 48]%N /\
  eval (Hi, [A false [45; 57; 50; 50; 51; 51; 55; 50; 48; 51; 54; 56; 53; 52; 55; 55; 53; 56; 48; 56]%N None], []%list)
    = Ok [45; 57; 44; 50; 50; 51; 44; 51; 55; 50; 44; 48; 51; 54; 44; 56; 53; 52; 44; 55; 55; 53; 44; 56; 48; 56]%N /\
  eval (Divi, [A false [49]%N None; A false [48]%N None], []%list) = Ok ErrorValue /\
  eval (Substr, [A true [97; 98; 99]%N None; A true [49]%N None;
                 A true [57; 50; 50; 51; 51; 55; 50; 48; 51; 54; 56; 53; 52; 55; 55; 53; 56; 48; 55]%N None], []%list) = Ok [98; 99]%N /\
  eval (Csv, [A false [97; 44; 34]%N None; A true []%list None], []%list) = Ok [34; 97; 44; 34; 34; 34; 44]%N.
Proof. vm_compute. repeat split; reflexivity. Qed.

(* the second round of repairs on the inputs of their findings: hf 999.99999 (exact value
   4398046467123535 * 2^-42, text 1000.0000), bytesize 2^64-1 (mantissa text 16), ceil 1e30, and " " a *)
Example repaired_examples :
  eval (Hf, [A true [57;57;57;46;57;57;57;57;57]%N (Some (FFin 4398046467123535 (-42)))], [49;48;48;48;46;48;48;48;48]%N)
    = Ok [49;44;48;48;48;46;48;48;48;48]%N /\
  hf_text [49;48;48;48;46;48;48;48;48]%N /\
  eval (Bytesize, [A true [49;56;52;52;54;55;52;52;48;55;51;55;48;57;53;53;49;54;49;53]%N None], [49;54]%N)
    = Ok [49;54;32;69;66]%N /\
  eval (Ceil, [A true [49;101;51;48]%N (Some (FFin 1 100))], []%list) = Ok ErrorValue /\
  eval (And, [A true [32]%N None; A true [97]%N None], []%list) = Ok []%list /\
  eval (Or, [A true [32]%N None], []%list) = Ok []%list.
Proof.
  split; [vm_compute; reflexivity|]. split.
  - exists []%list, [49;48;48;48]%N, [46;48;48;48;48]%N. split; [reflexivity|]. split; [left; reflexivity|].
    split; [discriminate|]. split; [repeat constructor|]. split; [right; eexists; reflexivity|reflexivity].
  - vm_compute. repeat split; reflexivity.
Qed.
