(* C11 proofs, part 2: strings, logic truth tables, comparisons, lookup tables. *)
From Coq Require Import List NArith ZArith Lia Bool ZifyN ZifyNat ZifyBool.
From RareV Require Import Base.Hex Base.Res Base.Num Gen.GenC11 Model.Humanize Model.CsvItem Model.Funcs Proofs.NumProof Proofs.FuncsArith.
Import ListNotations.
Local Open Scope N_scope.

(* ---- prefix / suffix / like ---- *)
Lemma is_prefix_iff p : forall s, is_prefix p s = true <-> exists r, s = p ++ r.
Proof.
  induction p as [|x p IH]; intros s; cbn [is_prefix].
  - split; [intros _; exists s; reflexivity|reflexivity].
  - destruct s as [|y s].
    + split; [discriminate|intros [r H]; discriminate].
    + rewrite andb_true_iff, N.eqb_eq, IH. split.
      * intros [-> [r ->]]. exists r. reflexivity.
      * intros [r H]. inversion H; subst. eauto.
Qed.

Lemma is_suffix_iff p s : is_suffix p s = true <-> exists r, s = r ++ p.
Proof.
  unfold is_suffix. rewrite is_prefix_iff. split; intros [r H].
  - exists (rev r). apply (f_equal (@rev N)) in H. rewrite rev_involutive, rev_app_distr, rev_involutive in H. exact H.
  - exists (rev r). subst. apply rev_app_distr.
Qed.

Lemma contains_iff n : forall h, contains n h = true <-> exists a b, h = a ++ n ++ b.
Proof.
  induction h as [|y h IH]; cbn [contains].
  - rewrite orb_false_r, is_prefix_iff. split.
    + intros [r H]. exists [], r. exact H.
    + intros (a & b & H). destruct a; [exists b; exact H|discriminate].
  - rewrite orb_true_iff, is_prefix_iff, IH. split.
    + intros [[r H]|(a & b & H)]; [exists [], r; exact H|exists (y :: a), b; subst; reflexivity].
    + intros (a & b & H). destruct a as [|x a]; [left; exists b; exact H|right].
      inversion H; subst. eauto.
Qed.

Theorem str2_law_proof : forall a b,
  (f_str2 is_prefix [a; b] = Ok (a_val a) \/ f_str2 is_prefix [a; b] = Ok []) /\
  ((exists r, a_val a = a_val b ++ r) -> f_str2 is_prefix [a; b] = Ok (a_val a)) /\
  (~ (exists r, a_val a = a_val b ++ r) -> f_str2 is_prefix [a; b] = Ok []) /\
  ((exists r, a_val a = r ++ a_val b) -> f_str2 is_suffix [a; b] = Ok (a_val a)) /\
  (~ (exists r, a_val a = r ++ a_val b) -> f_str2 is_suffix [a; b] = Ok []) /\
  ((exists x y, a_val a = x ++ a_val b ++ y) -> f_str2 contains [a; b] = Ok (a_val a)) /\
  (~ (exists x y, a_val a = x ++ a_val b ++ y) -> f_str2 contains [a; b] = Ok []).
Proof.
  intros a b. unfold f_str2.
  pose proof (is_prefix_iff (a_val b) (a_val a)) as P.
  pose proof (is_suffix_iff (a_val b) (a_val a)) as S.
  pose proof (contains_iff (a_val b) (a_val a)) as C.
  destruct (is_prefix (a_val b) (a_val a)), (is_suffix (a_val b) (a_val a)), (contains (a_val b) (a_val a));
    repeat split; auto; intros H; try reflexivity;
    try (apply P in H; discriminate); try (apply S in H; discriminate); try (apply C in H; discriminate);
    try (exfalso; apply H; first [apply P|apply S|apply C]; reflexivity).
Qed.

(* ---- substr ---- *)
Lemma slice_window (s : bytes) lo hi : (0 <= lo <= hi)%Z -> (hi <= Z.of_nat (length s))%Z ->
  exists pre post, s = pre ++ slice s lo hi ++ post /\
    Z.of_nat (length pre) = lo /\ Z.of_nat (length (slice s lo hi)) = (hi - lo)%Z.
Proof.
  intros H1 H2. unfold slice.
  exists (firstn (Z.to_nat lo) s), (skipn (Z.to_nat (hi - lo)) (skipn (Z.to_nat lo) s)).
  rewrite firstn_skipn, firstn_skipn. split; [reflexivity|].
  rewrite firstn_length_le by lia. rewrite firstn_length_le by (rewrite skipn_length; lia). lia.
Qed.

Theorem substr_law_proof : forall s l n lv nv,
  a_val s <> [] -> atoi (a_val l) = Some lv -> atoi (a_val n) = Some nv ->
  let len := Z.of_nat (length (a_val s)) in
  let lo := if (lv <? 0)%Z then Z.max (lv + len) 0 else Z.min lv len in
  let hi := Z.min (lo + Z.max nv 0) len in
  f_substr [s; l; n] = Ok (slice (a_val s) lo hi) /\
  (0 <= lo <= hi)%Z /\ (hi <= len)%Z /\
  exists pre post, a_val s = pre ++ slice (a_val s) lo hi ++ post /\
    Z.of_nat (length pre) = lo /\ Z.of_nat (length (slice (a_val s) lo hi)) = (hi - lo)%Z.
Proof.
  intros s l n lv nv Hs Hl Hn len lo hi.
  assert (Hlen : (0 < len)%Z) by (subst len; destruct (a_val s); [congruence|cbn [length]; lia]).
  assert (R : (0 <= lo <= hi)%Z /\ (hi <= len)%Z).
  { subst lo hi. destruct (lv <? 0)%Z eqn:E; [apply Z.ltb_lt in E|apply Z.ltb_ge in E]; lia. }
  split; [|split; [tauto|split; [tauto|apply slice_window; tauto]]].
  unfold f_substr. destruct (a_val s) as [|c r] eqn:Es; [congruence|]. rewrite Hl, Hn.
  unfold substr_window. fold len. fold lo.
  assert (E : (if (Z.max nv 0 <? len - lo)%Z then (lo + Z.max nv 0)%Z else len) = hi).
  { subst hi. destruct (Z.max nv 0 <? len - lo)%Z eqn:E; [apply Z.ltb_lt in E|apply Z.ltb_ge in E]; lia. }
  rewrite E. reflexivity.
Qed.

Theorem substr_markers_proof : forall s l n,
  (a_val s = [] -> f_substr [s; l; n] = Ok []) /\
  (a_val s <> [] -> atoi (a_val l) = None \/ atoi (a_val n) = None -> f_substr [s; l; n] = Ok ErrorNum).
Proof.
  intros s l n. unfold f_substr. split.
  - intros ->. reflexivity.
  - intros Hs H. destruct (a_val s); [congruence|].
    destruct (atoi (a_val l)), (atoi (a_val n)); destruct H; try discriminate; reflexivity.
Qed.

(* ---- join ---- *)
Theorem join_law_proof : forall sep a r, r <> [] -> join sep (a :: r) = a ++ sep :: join sep r.
Proof. intros sep a [|b r] H; [congruence|reflexivity]. Qed.

(* ---- truthiness ---- *)
Lemma truthy_nil : truthy [] = false.
Proof. reflexivity. Qed.

Lemma truthy_ascii_spaces s : forallb is_ascii_space s = true -> truthy s = false.
Proof.
  unfold truthy. induction s as [|b r IH]; [reflexivity|]. cbn [forallb all_space]. intros H.
  apply andb_true_iff in H as [H1 H2]. rewrite H1. apply IH. exact H2.
Qed.

Lemma truthy_ascii_head b r : b < 128 -> is_ascii_space b = false -> truthy (b :: r) = true.
Proof.
  intros Hb Hs. unfold truthy. cbn [all_space]. rewrite Hs.
  assert (b =? 194 = false) as -> by (apply N.eqb_neq; lia).
  assert (b =? 225 = false) as -> by (apply N.eqb_neq; lia).
  assert (b =? 226 = false) as -> by (apply N.eqb_neq; lia).
  assert (b =? 227 = false) as -> by (apply N.eqb_neq; lia).
  reflexivity.
Qed.

Lemma truthy_nonempty s : truthy s = true -> nonempty s = true.
Proof. destruct s; [discriminate|reflexivity]. Qed.

(* ---- logic truth tables ---- *)
Theorem logic_tables_proof : forall c t e,
  f_if [c; t; e] = Ok (if truthy (a_val c) then a_val t else a_val e) /\
  f_if [c; t] = Ok (if truthy (a_val c) then a_val t else []) /\
  f_unless [c; t] = Ok (if truthy (a_val c) then [] else a_val t) /\
  f_not [c] = Ok (if truthy (a_val c) then [] else TruthyVal) /\
  f_strcmp false [c; t] = Ok (if bytes_eqb (a_val c) (a_val t) then TruthyVal else []) /\
  f_strcmp true [c; t] = Ok (if bytes_eqb (a_val c) (a_val t) then [] else TruthyVal) /\
  (f_strcmp false [c; t] = Ok TruthyVal <-> a_val c = a_val t).
Proof.
  intros c t e. unfold f_if, f_unless, f_not, f_strcmp, tstr, FalsyVal. cbn [fold_left xorb].
  repeat split; try reflexivity; try (destruct (truthy (a_val c)); reflexivity);
    try (destruct (bytes_eqb (a_val c) (a_val t)); reflexivity).
  all: try (destruct (bytes_eqb (a_val c) (a_val t)) eqn:E; [intros _; apply bytes_eqb_eq; exact E|discriminate]).
  all: try (intros H; apply bytes_eqb_eq in H; rewrite H; reflexivity).
Qed.

(* switch: the value after the first truthy condition, else the trailing default, else empty *)
Fixpoint flat (ps : list (arg * arg)) : list arg :=
  match ps with [] => [] | (c, v) :: r => c :: v :: flat r end.

Theorem switch_law_proof : forall ps,
  Forall (fun p => truthy (a_val (fst p)) = false) ps ->
  (forall c v rest, truthy (a_val c) = true -> switch_loop (flat ps ++ c :: v :: rest) = a_val v) /\
  (forall d, switch_loop (flat ps ++ [d]) = a_val d) /\
  switch_loop (flat ps) = [].
Proof.
  induction 1 as [|[c0 v0] ps Hc _ IH]; cbn [flat app].
  - repeat split; intros; cbn [switch_loop]; try reflexivity. rewrite H. reflexivity.
  - cbn [fst] in Hc. destruct IH as (I1 & I2 & I3).
    repeat split; intros; cbn [switch_loop]; rewrite Hc; auto.
Qed.

Theorem coalesce_law_proof : forall pre,
  Forall (fun a => a_val a = []) pre ->
  (forall a rest, a_val a <> [] -> f_coalesce (pre ++ a :: rest) = Ok (a_val a)) /\
  f_coalesce pre = Ok [].
Proof.
  unfold f_coalesce. induction 1 as [|x pre Hx _ IH]; cbn [app find].
  - split; [|reflexivity]. intros a rest Ha. destruct (a_val a) eqn:E; [congruence|]. cbn. rewrite E. reflexivity.
  - rewrite Hx. cbn [nonempty]. exact IH.
Qed.

(* and / or (after repair C11-andor-emptiness): truthy logic as documented *)
Theorem andor_law_proof : forall args,
  f_and args = Ok (spec_and args) /\ f_or args = Ok (spec_or args) /\
  (f_and args = Ok TruthyVal <-> Forall (fun a => truthy (a_val a) = true) args) /\
  (f_or args = Ok TruthyVal <-> Exists (fun a => truthy (a_val a) = true) args).
Proof.
  intros args. split; [reflexivity|]. split; [reflexivity|].
  unfold f_and, f_or, ok, tstr. split.
  - rewrite Forall_forall. split.
    + intros H. destruct (forallb _ args) eqn:E; [|inversion H].
      rewrite forallb_forall in E. exact E.
    + intros H. rewrite <- forallb_forall in H. rewrite H. reflexivity.
  - rewrite Exists_exists. split.
    + intros H. destruct (existsb _ args) eqn:E; [|inversion H].
      apply existsb_exists in E. exact E.
    + intros H. apply existsb_exists in H. rewrite H. reflexivity.
Qed.

(* the behaviour as found (emptiness test) was not the documented one *)
Theorem andor_asfound_refuted_proof :
  (exists args, tstr (forallb (fun a => nonempty (a_val a)) args) <> spec_and args) /\
  (exists args, tstr (existsb (fun a => nonempty (a_val a)) args) <> spec_or args).
Proof. split; exists [A true [32] None]; vm_compute; discriminate. Qed.

(* ---- numeric comparison on pre-parsed values ---- *)
Lemma fcompare_antisym a b : fcompare b a = option_map CompOpp (fcompare a b).
Proof.
  destruct a as [| | |m1 e1], b as [| | |m2 e2]; try reflexivity.
  cbn [fcompare option_map]. rewrite (Z.min_comm e2 e1). rewrite Z.compare_antisym. reflexivity.
Qed.

Theorem numcmp_law_proof : forall a b,
  f_gt a b = f_lt b a /\ f_ge a b = f_le b a /\
  (f_lt a b = true -> f_le a b = true) /\
  (fcompare a b <> None -> f_le a b = negb (f_gt a b) /\ f_ge a b = negb (f_lt a b)) /\
  (fcompare a b = None -> f_lt a b = false /\ f_le a b = false /\ f_gt a b = false /\ f_ge a b = false) /\
  f_lt a a = false.
Proof.
  intros a b. unfold f_gt, f_lt, f_ge, f_le. rewrite (fcompare_antisym a b).
  repeat split; try (destruct (fcompare a b) as [[]|]; cbn; congruence).
  destruct a as [| | |m e]; cbn; try reflexivity. rewrite Z.compare_refl. reflexivity.
Qed.

Lemma fcompare_ints a b : fcompare (f_of_Z a) (f_of_Z b) = Some (a ?= b)%Z.
Proof. cbn. rewrite !Z.mul_1_r. reflexivity. Qed.

Theorem numcmp_markers_proof : forall test a b,
  (a_f a = None \/ a_f b = None -> f_numcmp test [a; b] = Ok ErrorNum) /\
  (forall x y, a_f a = Some x -> a_f b = Some y -> f_numcmp test [a; b] = Ok (tstr (test x y))).
Proof.
  intros test a b. unfold f_numcmp. split.
  - intros [H|H]; rewrite H; [reflexivity|destruct (a_f a); reflexivity].
  - intros x y -> ->. reflexivity.
Qed.

(* ---- lookup tables: the last binding of a key wins ---- *)
Lemma assoc_last_found k : forall t found,
  (forall v, ~ In (k, v) t) -> assoc_last k t found = found.
Proof.
  induction t as [|[k' v'] t IH]; intros found H; [reflexivity|]. cbn [assoc_last].
  destruct (bytes_eqb k k') eqn:E.
  - apply bytes_eqb_eq in E. subst. exfalso. apply (H v'). left. reflexivity.
  - apply IH. intros v Hv. apply (H v). right. exact Hv.
Qed.

Theorem lookup_law_proof : forall k t1 v t2 found,
  (forall v', ~ In (k, v') t2) -> assoc_last k (t1 ++ (k, v) :: t2) found = Some v.
Proof.
  intros k t1 v t2 found H. revert found. induction t1 as [|[k' v'] t1 IH]; intros found; cbn [app assoc_last].
  - assert (E : bytes_eqb k k = true) by (apply bytes_eqb_eq; reflexivity). rewrite E.
    apply assoc_last_found. exact H.
  - apply IH.
Qed.

Theorem lookup_unbound_proof : forall k t, (forall v, ~ In (k, v) t) -> assoc_last k t None = None.
Proof. intros. apply assoc_last_found. assumption. Qed.
