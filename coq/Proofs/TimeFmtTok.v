(* C18 — per-token lemmas: what time.Parse reads back from what Time.Format printed. *)
From Coq Require Import List ZArith NArith Lia Bool String.
From RareV Require Import Base.Hex Base.Num Gen.GenTime Model.Calendar Model.TimeFmt Proofs.CalendarSweep.
Import ListNotations.
Local Open Scope Z_scope.

(* ---- digits ---- *)
Definition two_digit_ok (x : Z) : bool :=
  match append_int x 2 with
  | [c1; c2] => is_digit c1 && is_digit c2 && (dval c1 * 10 + dval c2 =? x)
  | _ => false
  end.
Lemma two_digit_sweep : all_range 0 100 two_digit_ok = true.
Proof. vm_compute. reflexivity. Qed.
Lemma two_digit x : 0 <= x < 100 ->
  exists c1 c2, append_int x 2 = [c1; c2] /\ is_digit c1 = true /\ is_digit c2 = true /\ dval c1 * 10 + dval c2 = x.
Proof.
  intros H. pose proof (all_range_spec 0 100 two_digit_ok two_digit_sweep x ltac:(cbn; lia)) as E.
  unfold two_digit_ok in E. destruct (append_int x 2) as [|c1 [|c2 [|? ?]]]; try discriminate.
  apply andb_true_iff in E as [E E3]. apply andb_true_iff in E as [E1 E2]. apply Z.eqb_eq in E3.
  exists c1, c2. repeat split; auto.
Qed.

Definition four_digit_ok (x : Z) : bool :=
  match append_int x 4 with
  | [a; b; c; d] => is_digit a && match go_atoi [a; b; c; d] with Some y => y =? x | None => false end
  | _ => false
  end.
Lemma four_digit_sweep : all_range 0 10000 four_digit_ok = true.
Proof. vm_compute. reflexivity. Qed.
Lemma four_digit x : 0 <= x < 10000 ->
  exists a b c d, append_int x 4 = [a; b; c; d] /\ is_digit a = true /\ go_atoi [a; b; c; d] = Some x.
Proof.
  intros H. pose proof (all_range_spec 0 10000 four_digit_ok four_digit_sweep x ltac:(cbn; lia)) as E.
  unfold four_digit_ok in E. destruct (append_int x 4) as [|a [|b [|c [|d [|? ?]]]]]; try discriminate.
  apply andb_true_iff in E as [E1 E2]. destruct (go_atoi [a; b; c; d]) as [y|] eqn:G; [|discriminate].
  apply Z.eqb_eq in E2. subst y. exists a, b, c, d. repeat split; auto.
Qed.

(* ---- heads ---- *)
Definition hd_ok (P : N -> bool) (v : bytes) : Prop :=
  match v with c :: _ => P c = true | [] => True end.
Definition not_space (c : N) : bool := negb (c =? 32)%N.
Definition not_cp (c : N) : bool := negb (comma_or_period c).

Lemma digit_not_space c : is_digit c = true -> not_space c = true.
Proof.
  unfold is_digit, not_space. intros H. apply andb_true_iff in H as [H _]. apply N.leb_le in H.
  apply negb_true_iff, N.eqb_neq. lia.
Qed.
Lemma digit_not_cp c : is_digit c = true -> not_cp c = true.
Proof.
  unfold is_digit, not_cp, comma_or_period. intros H. apply andb_true_iff in H as [H _]. apply N.leb_le in H.
  apply negb_true_iff, orb_false_iff. split; apply N.eqb_neq; lia.
Qed.

Lemma hd_int2 P x v : 0 <= x < 100 -> (forall c, is_digit c = true -> P c = true) -> hd_ok P (append_int x 2 ++ v).
Proof. intros H HP. destruct (two_digit x H) as (c1 & c2 & -> & D1 & _). cbn. auto. Qed.
Lemma hd_int4 P x v : 0 <= x < 10000 -> (forall c, is_digit c = true -> P c = true) -> hd_ok P (append_int x 4 ++ v).
Proof. intros H HP. destruct (four_digit x H) as (a & b & c & d & -> & D1 & _). cbn. auto. Qed.

Lemma cutspace_hd v : hd_ok not_space v -> cutspace v = v.
Proof.
  destruct v as [|c r]; [reflexivity|]. cbn. unfold not_space. intros H.
  apply negb_true_iff in H. rewrite H. reflexivity.
Qed.

(* ---- literals ---- *)
Lemma skip_nospace lit : forallb not_space lit = true ->
  forall v b, skip_aux b (lit ++ v) lit = Some v.
Proof.
  induction lit as [|p pr IH]; intros H v b; [reflexivity|].
  cbn in H. apply andb_true_iff in H as [H1 H2]. cbn [app skip_aux].
  unfold not_space in H1. apply negb_true_iff in H1. rewrite H1. rewrite N.eqb_refl. apply IH. exact H2.
Qed.

Lemma skip_space_end lit v : forallb not_space lit = true -> hd_ok not_space v ->
  skip ((lit ++ [32%N]) ++ v) (lit ++ [32%N]) = Some v.
Proof.
  intros H Hv. unfold skip.
  assert (G : forall b, b = false \/ lit <> [] -> skip_aux b ((lit ++ [32%N]) ++ v) (lit ++ [32%N]) = Some v).
  { induction lit as [|p pr IH]; intros b Hb.
    - destruct Hb as [->|C]; [|congruence]. cbn [app skip_aux]. change (32 =? 32)%N with true. cbv iota.
      cbn [cutspace]. change (32 =? 32)%N with true. cbv iota.
      rewrite (cutspace_hd v Hv). reflexivity.
    - cbn in H. apply andb_true_iff in H as [H1 H2]. cbn [app skip_aux].
      unfold not_space in H1. apply negb_true_iff in H1. rewrite H1, N.eqb_refl.
      apply IH; [exact H2|]. left. reflexivity. }
  apply G. left. reflexivity.
Qed.

Lemma pt_lit_nospace lit r v st : forallb not_space lit = true ->
  parse_tok (TLit lit) r (lit ++ v) st = Some (v, st).
Proof. intros H. cbn [parse_tok]. unfold skip. rewrite skip_nospace by exact H. reflexivity. Qed.

Lemma pt_lit_space_end lit r v st : forallb not_space lit = true -> hd_ok not_space v ->
  parse_tok (TLit (lit ++ [32%N])) r ((lit ++ [32%N]) ++ v) st = Some (v, st).
Proof. intros H Hv. cbn [parse_tok]. rewrite skip_space_end by assumption. reflexivity. Qed.

(* ---- numeric fields ---- *)
Lemma getnum_int2 x v fixed : 0 <= x < 100 -> getnum (append_int x 2 ++ v) fixed = Some (x, v).
Proof.
  intros H. destruct (two_digit x H) as (c1 & c2 & -> & D1 & D2 & E). cbn [app getnum].
  rewrite D1, D2. rewrite E. reflexivity.
Qed.

Lemma pt_longyear c r v st : 0 <= c_year c < 10000 ->
  parse_tok TLongYear r (fmt_tok c TLongYear ++ v) st = Some (v, set_year st (c_year c)).
Proof.
  intros H. cbn [fmt_tok]. destruct (four_digit _ H) as (a & b & c0 & d & -> & D & E).
  cbn [app parse_tok]. rewrite D, E. reflexivity.
Qed.

Lemma pt_zeromonth c r v st : 1 <= c_month c <= 12 ->
  parse_tok TZeroMonth r (fmt_tok c TZeroMonth ++ v) st = Some (v, set_month st (c_month c)).
Proof.
  intros H. cbn [fmt_tok parse_tok]. rewrite getnum_int2 by lia.
  replace (c_month c <=? 0) with false by (symmetry; apply Z.leb_gt; lia).
  replace (12 <? c_month c) with false by (symmetry; apply Z.ltb_ge; lia). reflexivity.
Qed.

Lemma pt_zeroday c r v st : 1 <= c_day c <= 31 ->
  parse_tok TZeroDay r (fmt_tok c TZeroDay ++ v) st = Some (v, set_day st (c_day c)).
Proof. intros H. cbn [fmt_tok parse_tok]. rewrite getnum_int2 by lia. reflexivity. Qed.

Lemma pt_hour c r v st : 0 <= c_hour c < 24 ->
  parse_tok THour r (fmt_tok c THour ++ v) st = Some (v, set_hour st (c_hour c)).
Proof.
  intros H. cbn [fmt_tok parse_tok]. rewrite getnum_int2 by lia.
  replace (24 <=? c_hour c) with false by (symmetry; apply Z.leb_gt; lia). reflexivity.
Qed.

Lemma pt_zerominute c r v st : 0 <= c_min c < 60 ->
  parse_tok TZeroMinute r (fmt_tok c TZeroMinute ++ v) st = Some (v, set_min st (c_min c)).
Proof.
  intros H. cbn [fmt_tok parse_tok]. rewrite getnum_int2 by lia.
  replace (60 <=? c_min c) with false by (symmetry; apply Z.leb_gt; lia). reflexivity.
Qed.

(* seconds: no fractional second follows (the next byte is neither '.' nor ',') *)
Lemma pt_zerosecond c r v st : 0 <= c_sec c < 60 -> hd_ok not_cp v ->
  parse_tok TZeroSecond r (fmt_tok c TZeroSecond ++ v) st = Some (v, set_sec st (c_sec c)).
Proof.
  intros H Hv. cbn [fmt_tok parse_tok]. rewrite getnum_int2 by lia.
  replace (60 <=? c_sec c) with false by (symmetry; apply Z.leb_gt; lia).
  destruct v as [|sep [|d1 v']]; try reflexivity.
  cbn in Hv. unfold not_cp in Hv. apply negb_true_iff in Hv. rewrite Hv. reflexivity.
Qed.

(* .999999999 with a zero nanosecond prints nothing and reads nothing *)
Lemma pt_frac9_zero c n cm r v st : c_nsec c = 0 -> hd_ok not_cp v ->
  parse_tok (TFrac true n cm) r (fmt_tok c (TFrac true n cm) ++ v) st = Some (v, st).
Proof.
  intros H Hv. cbn [fmt_tok]. unfold fmt_frac. rewrite H. rewrite Z.eqb_refl, orb_true_r. cbn [andb app parse_tok].
  destruct v as [|sep [|d1 v']]; try reflexivity.
  cbn in Hv. unfold not_cp in Hv. apply negb_true_iff in Hv. rewrite Hv. reflexivity.
Qed.

(* ---- names ---- *)
Lemma pt_month c r v st : 1 <= c_month c <= 12 ->
  parse_tok TMonth r (fmt_tok c TMonth ++ v) st = Some (v, set_month st (c_month c)).
Proof.
  intros H. cbn [fmt_tok parse_tok].
  assert (C : c_month c = 1 \/ c_month c = 2 \/ c_month c = 3 \/ c_month c = 4 \/ c_month c = 5 \/ c_month c = 6 \/
              c_month c = 7 \/ c_month c = 8 \/ c_month c = 9 \/ c_month c = 10 \/ c_month c = 11 \/ c_month c = 12) by lia.
  repeat (destruct C as [C|C]); rewrite C; reflexivity.
Qed.

Lemma pt_weekday c r v st : 0 <= c_wday c <= 6 ->
  parse_tok TWeekDay r (fmt_tok c TWeekDay ++ v) st = Some (v, st).
Proof.
  intros H. cbn [fmt_tok parse_tok].
  assert (C : c_wday c = 0 \/ c_wday c = 1 \/ c_wday c = 2 \/ c_wday c = 3 \/ c_wday c = 4 \/ c_wday c = 5 \/ c_wday c = 6) by lia.
  repeat (destruct C as [C|C]); rewrite C; reflexivity.
Qed.

Lemma hd_month P c v : 1 <= c_month c <= 12 -> (forall x, (65 <=? x)%N = true -> P x = true) -> hd_ok P (fmt_tok c TMonth ++ v).
Proof.
  intros H HP. cbn [fmt_tok].
  assert (C : c_month c = 1 \/ c_month c = 2 \/ c_month c = 3 \/ c_month c = 4 \/ c_month c = 5 \/ c_month c = 6 \/
              c_month c = 7 \/ c_month c = 8 \/ c_month c = 9 \/ c_month c = 10 \/ c_month c = 11 \/ c_month c = 12) by lia.
  repeat (destruct C as [C|C]); rewrite C; apply HP; reflexivity.
Qed.

Lemma letter_not_space x : (65 <=? x)%N = true -> not_space x = true.
Proof. intros H. apply N.leb_le in H. apply negb_true_iff, N.eqb_neq. lia. Qed.

(* _2 followed by '/' *)
Lemma pt_underday_slash c r v st : 1 <= c_day c <= 31 ->
  parse_tok TUnderDay r (fmt_tok c TUnderDay ++ [47%N] ++ v) st = Some ([47%N] ++ v, set_day st (c_day c)).
Proof.
  intros H. cbn [fmt_tok].
  assert (C : exists k, (k <= 30)%nat /\ c_day c = Z.of_nat k + 1) by (exists (Z.to_nat (c_day c - 1)); lia).
  destruct C as (k & Hk & ->).
  do 31 (destruct k as [|k]; [reflexivity|]). lia.
Qed.

(* ---- numeric zone ---- *)
Lemma pt_numtz iso s off r v st :
  s = ZColon \/ s = ZHHMM -> off mod 60 = 0 -> -86400 < off < 86400 ->
  parse_tok (TNumTZ iso s) r (fmt_tok (mkcivil 0 0 0 0 0 0 0 0 0 off []) (TNumTZ iso s) ++ v) st =
  Some (v, if iso && (off =? 0) then set_z st else set_zoff st off).
Proof.
  intros Hs Hm Hr. cbn [fmt_tok c_off]. unfold fmt_numtz.
  destruct (iso && (off =? 0)) eqn:Ez.
  - apply andb_true_iff in Ez as [-> _]. reflexivity.
  - set (zone0 := Z.quot off 60).
    set (neg := zone0 <? 0).
    set (zone := if neg then - zone0 else zone0).
    assert (Hz0 : off = zone0 * 60).
    { unfold zone0. pose proof (Z.quot_rem' off 60).
      assert (Z.rem off 60 = 0). { apply Z.rem_divide; [lia|]. apply Z.mod_divide; [lia|exact Hm]. }
      lia. }
    assert (Hzone : 0 <= zone < 1440 /\ (neg = true -> off = - (zone * 60)) /\ (neg = false -> off = zone * 60)).
    { unfold zone, neg. destruct (zone0 <? 0) eqn:E; [apply Z.ltb_lt in E|apply Z.ltb_ge in E]; repeat split; try lia; intros; try discriminate; lia. }
    destruct Hzone as (Hzr & Hneg & Hpos).
    assert (Hq : Z.quot zone 60 = zone / 60) by (apply Z.quot_div_nonneg; lia).
    assert (Hrm : Z.rem zone 60 = zone mod 60) by (apply Z.rem_mod_nonneg; lia).
    rewrite Hq, Hrm.
    pose proof (Z.div_mod zone 60 ltac:(lia)) as Hdm.
    pose proof (Z.mod_pos_bound zone 60 ltac:(lia)) as Hmb.
    assert (Hhb : 0 <= zone / 60 < 24) by (split; [apply Z.div_pos; lia|apply Z.div_lt_upper_bound; lia]).
    destruct (two_digit (zone / 60) ltac:(lia)) as (h1 & h2 & Eh & Dh1 & Dh2 & Vh).
    destruct (two_digit (zone mod 60) ltac:(lia)) as (m1 & m2 & Em & Dm1 & Dm2 & Vm).
    rewrite Eh, Em.
    assert (Hsign : forall sg, (sg = 45%N /\ neg = true) \/ (sg = 43%N /\ neg = false) ->
            zone_of sg [h1; h2] [m1; m2] z00 = Some off).
    { intros sg Hsg. unfold zone_of. cbn [getnum]. rewrite Dh1, Dh2, Dm1, Dm2. rewrite Vh, Vm. cbn [z00 getnum is_digit dval].
      change (getnum [48%N; 48%N] true) with (Some (0, @nil N)).
      cbv iota beta.
      replace (24 <? zone / 60) with false by (symmetry; apply Z.ltb_ge; lia).
      replace (60 <? zone mod 60) with false by (symmetry; apply Z.ltb_ge; lia).
      cbn [orb]. change (60 <? 0) with false. cbv iota.
      destruct Hsg as [[-> Hn]|[-> Hn]]; cbn; f_equal; [rewrite (Hneg Hn)|rewrite (Hpos Hn)]; lia. }
    destruct neg eqn:En.
    + destruct Hs as [->| ->]; cbn [app].
      * destruct iso; cbn [parse_tok parse_numtz]; change (58 =? 58)%N with true; cbv iota;
          rewrite (Hsign 45%N) by (left; auto); reflexivity.
      * destruct iso; cbn [parse_tok parse_numtz]; rewrite (Hsign 45%N) by (left; auto); reflexivity.
    + destruct Hs as [->| ->]; cbn [app].
      * destruct iso; cbn [parse_tok parse_numtz]; change (58 =? 58)%N with true; cbv iota;
          rewrite (Hsign 43%N) by (right; auto); reflexivity.
      * destruct iso; cbn [parse_tok parse_numtz]; rewrite (Hsign 43%N) by (right; auto); reflexivity.
Qed.

Lemma hd_numtz P iso s off v :
  P 90%N = true -> P 43%N = true -> P 45%N = true -> hd_ok P (fmt_numtz iso s off ++ v).
Proof.
  intros HZ Hp Hm. unfold fmt_numtz. destruct (iso && (off =? 0)); [exact HZ|].
  cbn. destruct (Z.quot off 60 <? 0); assumption.
Qed.
