(* C07 — proofs about Model/Welford.v: Welford running moments = textbook mean / sum of squared
   deviations (over Q), min/max, kept values, sorting, order statistics, quantile, mode. *)
From Coq Require Import List NArith ZArith QArith Qfield Qabs Qround Bool Lia Permutation Sorted.
From RareV Require Import Base.Res Model.Welford.
Import ListNotations.
Local Open Scope Q_scope.

(* ------------------------------------------------------------------ *)
(* 1. Welford                                                          *)
(* ------------------------------------------------------------------ *)
Definition qsq (l : list Q) : Q := fold_right (fun x a => x * x + a) 0 l.

Lemma qn_S n : qn (S n) == qn n + 1.
Proof. unfold qn. rewrite Nat2Z.inj_succ. unfold Z.succ. rewrite inject_Z_plus. reflexivity. Qed.
Lemma qn_pos n : ~ qn (S n) == 0.
Proof. unfold qn, Qeq. simpl. lia. Qed.
Lemma qn_0 : qn 0 == 0.
Proof. reflexivity. Qed.

Definition WInv (s : num) (sm sq : Q) : Prop :=
  match n_cnt s with
  | O => n_m2 s == 0 /\ sm == 0 /\ sq == 0
  | n => n_mean s == sm / qn n /\ n_m2 s == sq - sm * sm / qn n
  end.

Lemma step_inv keep s sm sq x : WInv s sm sq -> WInv (n_samplef keep s x) (sm + x) (sq + x * x).
Proof.
  unfold WInv, n_samplef. destruct (n_cnt s) as [|n] eqn:En; cbn [n_cnt n_mean n_m2].
  - intros (H2 & HS & HT). rewrite !Qred_correct. rewrite H2, HS, HT. split.
    + unfold qn. simpl. field.
    + unfold qn. simpl. field.
  - intros (Hm & H2). pose proof (qn_pos n) as Hn. pose proof (qn_pos (S n)) as Hn'.
    rewrite !Qred_correct. rewrite (qn_S (S n)) in *. split.
    + rewrite Hm. field. split; assumption.
    + rewrite H2, Hm. field. split; assumption.
Qed.

Lemma WInv_compat s sm sq sm' sq' : sm == sm' -> sq == sq' -> WInv s sm sq -> WInv s sm' sq'.
Proof.
  intros E1 E2. unfold WInv. destruct (n_cnt s).
  - intros (A & B & C). rewrite <- E1, <- E2. auto.
  - intros (A & B). rewrite <- E1, <- E2. auto.
Qed.

Lemma fold_inv keep h : forall s sm sq, WInv s sm sq ->
  WInv (fold_left (n_sample keep) h s) (sm + qsum (oks h)) (sq + qsq (oks h)).
Proof.
  induction h as [|o h IH]; intros s sm sq H; simpl.
  - eapply WInv_compat; [| |exact H]; ring.
  - destruct o as [x|].
    + cbn [n_sample app]. specialize (IH _ _ _ (step_inv keep s sm sq x H)).
      eapply WInv_compat; [| |exact IH]; fold (oks h); unfold qsum, qsq; cbn [fold_right app]; ring.
    + cbn [n_sample app]. apply IH. exact H.
Qed.

Lemma cnt_fold keep h : forall s,
  n_cnt (fold_left (n_sample keep) h s) = (length (oks h) + n_cnt s)%nat /\
  n_err (fold_left (n_sample keep) h s) = (n_err s + N.of_nat (length h - length (oks h)))%N.
Proof.
  induction h as [|o h IH]; intros s; simpl.
  - split; [reflexivity|]. rewrite N.add_0_r. reflexivity.
  - assert (Hle : (length (oks h) <= length h)%nat).
    { clear. induction h as [|o h IH]; simpl; [lia|]. destruct o; simpl; lia. }
    destruct o as [x|]; cbn [n_sample app length].
    + destruct (IH (n_samplef keep s x)) as [A B]. rewrite A, B. cbn [n_samplef n_cnt n_err].
      fold (oks h). split; [lia|]. f_equal.
    + destruct (IH (mkNum (n_cnt s) (n_mean s) (n_m2 s) (n_min s) (n_max s) (n_err s + 1) (n_vals s))) as [A B].
      rewrite A, B. cbn [n_cnt n_err]. fold (oks h). split; [reflexivity|]. destruct (length (oks h)); lia.
Qed.

Lemma qsqdev_expand m xs :
  qsqdev m xs == qsq xs - (2 # 1) * m * qsum xs + qn (length xs) * m * m.
Proof.
  induction xs as [|x xs IH].
  - cbn [qsqdev qsq qsum fold_right length]. rewrite qn_0. ring.
  - cbn [length]. rewrite qn_S. unfold qsqdev, qsq, qsum in *. cbn [fold_right]. rewrite IH. ring.
Qed.

Lemma qsqdev_mean xs : xs <> [] ->
  qsq xs - qsum xs * qsum xs / qn (length xs) == qsqdev (qsum xs / qn (length xs)) xs.
Proof.
  intros Hne. rewrite qsqdev_expand. destruct xs as [|x xs]; [congruence|].
  cbn [length]. field. apply qn_pos.
Qed.

Theorem welford_proof : forall keep h, let s := n_run keep h in let xs := oks h in
  n_cnt s = length xs /\ n_err s = N.of_nat (length h - length xs) /\
  (xs <> [] -> n_mean s == qsum xs / qn (length xs) /\
               n_m2 s == qsqdev (qsum xs / qn (length xs)) xs).
Proof.
  intros keep h s xs. destruct (cnt_fold keep h num0) as [Hc He].
  fold (n_run keep h) in Hc, He. fold s xs in Hc, He. cbn [num0 n_cnt n_err] in Hc, He.
  rewrite Nat.add_0_r in Hc. rewrite N.add_0_l in He.
  split; [exact Hc|]. split; [exact He|]. intros Hne.
  assert (H0 : WInv num0 0 0) by (unfold WInv; simpl; repeat split; reflexivity).
  pose proof (fold_inv keep h num0 0 0 H0) as H. fold (n_run keep h) in H. fold s xs in H.
  unfold WInv in H. rewrite Hc in H.
  rewrite <- (qsqdev_mean xs Hne).
  destruct (length xs) as [|n] eqn:El; [destruct xs; simpl in *; congruence|].
  destruct H as (A & B). split; [rewrite A|rewrite B]; field; apply qn_pos.
Qed.

(* ------------------------------------------------------------------ *)
(* 3. min / max                                                        *)
(* ------------------------------------------------------------------ *)
Definition fmin (a : option Q) (x : Q) : option Q :=
  match a with Some m => if Qltb x m then Some x else Some m | None => Some x end.
Definition fmax (a : option Q) (x : Q) : option Q :=
  match a with Some m => if Qltb m x then Some x else Some m | None => Some x end.

Lemma minmax_fold keep h : forall s,
  n_min (fold_left (n_sample keep) h s) = fold_left fmin (oks h) (n_min s) /\
  n_max (fold_left (n_sample keep) h s) = fold_left fmax (oks h) (n_max s).
Proof.
  induction h as [|o h IH]; intros s; [split; reflexivity|].
  cbn [fold_left oks flat_map]. fold (oks h). destruct o as [x|]; cbn [n_sample app fold_left].
  - destruct (IH (n_samplef keep s x)) as [A B]. rewrite A, B. split; reflexivity.
  - destruct (IH (mkNum (n_cnt s) (n_mean s) (n_m2 s) (n_min s) (n_max s) (n_err s + 1) (n_vals s))) as [A B].
    rewrite A, B. split; reflexivity.
Qed.

Theorem minmax_proof : forall keep h,
  n_min (n_run keep h) = qmin_list (oks h) /\ n_max (n_run keep h) = qmax_list (oks h).
Proof. intros keep h. exact (minmax_fold keep h num0). Qed.

Lemma Qltb_true a b : Qltb a b = true -> a < b.
Proof.
  unfold Qltb. intros H. apply negb_true_iff in H. apply Qnot_le_lt. intros C.
  apply Qle_bool_iff in C. congruence.
Qed.
Lemma Qltb_false a b : Qltb a b = false -> b <= a.
Proof. unfold Qltb. intros H. apply negb_false_iff in H. apply Qle_bool_iff. exact H. Qed.

Lemma fmin_fold l : forall a m, fold_left fmin l a = Some m ->
  (In m l \/ a = Some m) /\ (forall x, In x l -> m <= x) /\ (forall m0, a = Some m0 -> m <= m0).
Proof.
  induction l as [|y l IH]; intros a m H; cbn [fold_left] in H.
  - subst a. split; [right; reflexivity|]. split; [intros x []|].
    intros m0 E. inversion E. apply Qle_refl.
  - destruct (IH _ _ H) as (A & B & C). split; [|split].
    + destruct A as [A|A]; [left; right; exact A|].
      unfold fmin in A. destruct a as [m0|].
      * destruct (Qltb y m0); inversion A; subst; [left; left; reflexivity|right; reflexivity].
      * inversion A; subst. left; left; reflexivity.
    + intros x [E|Hx]; [subst x|apply B; exact Hx].
      unfold fmin in C. destruct a as [m0|].
      * destruct (Qltb y m0) eqn:Ey.
        -- apply C. reflexivity.
        -- eapply Qle_trans; [apply C; reflexivity|]. apply Qltb_false. exact Ey.
      * apply C. reflexivity.
    + intros m0 E. subst a. unfold fmin in C. destruct (Qltb y m0) eqn:Ey.
      * eapply Qle_trans; [apply C; reflexivity|]. apply Qlt_le_weak, Qltb_true. exact Ey.
      * apply C. reflexivity.
Qed.

Lemma fmax_fold l : forall a m, fold_left fmax l a = Some m ->
  (In m l \/ a = Some m) /\ (forall x, In x l -> x <= m) /\ (forall m0, a = Some m0 -> m0 <= m).
Proof.
  induction l as [|y l IH]; intros a m H; cbn [fold_left] in H.
  - subst a. split; [right; reflexivity|]. split; [intros x []|].
    intros m0 E. inversion E. apply Qle_refl.
  - destruct (IH _ _ H) as (A & B & C). split; [|split].
    + destruct A as [A|A]; [left; right; exact A|].
      unfold fmax in A. destruct a as [m0|].
      * destruct (Qltb m0 y); inversion A; subst; [left; left; reflexivity|right; reflexivity].
      * inversion A; subst. left; left; reflexivity.
    + intros x [E|Hx]; [subst x|apply B; exact Hx].
      unfold fmax in C. destruct a as [m0|].
      * destruct (Qltb m0 y) eqn:Ey.
        -- apply C. reflexivity.
        -- eapply Qle_trans; [|apply C; reflexivity]. apply Qltb_false. exact Ey.
      * apply C. reflexivity.
    + intros m0 E. subst a. unfold fmax in C. destruct (Qltb m0 y) eqn:Ey.
      * eapply Qle_trans; [|apply C; reflexivity]. apply Qlt_le_weak, Qltb_true. exact Ey.
      * apply C. reflexivity.
Qed.

Theorem qmin_list_spec : forall l m, qmin_list l = Some m -> In m l /\ forall x, In x l -> m <= x.
Proof.
  intros l m H. destruct (fmin_fold l None m H) as (A & B & _).
  split; [|exact B]. destruct A as [A|A]; [exact A|discriminate].
Qed.
Theorem qmax_list_spec : forall l m, qmax_list l = Some m -> In m l /\ forall x, In x l -> x <= m.
Proof.
  intros l m H. destruct (fmax_fold l None m H) as (A & B & _).
  split; [|exact B]. destruct A as [A|A]; [exact A|discriminate].
Qed.

Lemma fmin_some l : forall m, exists m', fold_left fmin l (Some m) = Some m'.
Proof.
  induction l as [|y l IH]; intros m; cbn [fold_left]; [eexists; reflexivity|].
  unfold fmin at 2. destruct (Qltb y m); apply IH.
Qed.
Lemma fmax_some l : forall m, exists m', fold_left fmax l (Some m) = Some m'.
Proof.
  induction l as [|y l IH]; intros m; cbn [fold_left]; [eexists; reflexivity|].
  unfold fmax at 2. destruct (Qltb m y); apply IH.
Qed.
Theorem qmin_list_none : forall l, qmin_list l = None <-> l = [].
Proof.
  intros l; split; [|intros ->; reflexivity]. destruct l as [|y l]; [reflexivity|].
  intros H. unfold qmin_list in H. cbn [fold_left] in H.
  destruct (fmin_some l y) as [m' E]. unfold fmin in E. rewrite E in H. discriminate.
Qed.
Theorem qmax_list_none : forall l, qmax_list l = None <-> l = [].
Proof.
  intros l; split; [|intros ->; reflexivity]. destruct l as [|y l]; [reflexivity|].
  intros H. unfold qmax_list in H. cbn [fold_left] in H.
  destruct (fmax_some l y) as [m' E]. unfold fmax in E. rewrite E in H. discriminate.
Qed.

(* ------------------------------------------------------------------ *)
(* 4. kept values                                                      *)
(* ------------------------------------------------------------------ *)
Lemma vals_fold keep h : forall s,
  n_vals (fold_left (n_sample keep) h s) = n_vals s ++ (if keep then oks h else []).
Proof.
  induction h as [|o h IH]; intros s.
  - cbn [fold_left oks flat_map]. destruct keep; rewrite app_nil_r; reflexivity.
  - cbn [fold_left oks flat_map]. fold (oks h). destruct o as [x|]; cbn [n_sample].
    + rewrite IH. cbn [n_samplef n_vals]. destruct keep; [rewrite <- app_assoc|]; reflexivity.
    + rewrite IH. cbn [n_vals app]. reflexivity.
Qed.
Theorem vals_proof : forall h, n_vals (n_run true h) = oks h /\ n_vals (n_run false h) = [].
Proof. intros h. split; unfold n_run; rewrite vals_fold; reflexivity. Qed.

(* ------------------------------------------------------------------ *)
(* 5. sorting                                                          *)
(* ------------------------------------------------------------------ *)
Lemma Qle_bool_false x y : Qle_bool x y = false -> y <= x.
Proof.
  intros H. apply Qlt_le_weak, Qnot_le_lt. intros C. apply Qle_bool_iff in C. congruence.
Qed.

Lemma qinsert_perm x l : Permutation (qinsert x l) (x :: l).
Proof.
  induction l as [|y l IH]; cbn [qinsert]; [reflexivity|].
  destruct (Qle_bool x y); [reflexivity|].
  rewrite IH. apply perm_swap.
Qed.
Theorem qsort_perm : forall l, Permutation (qsort l) l.
Proof.
  induction l as [|x l IH]; [reflexivity|].
  unfold qsort in *. cbn [fold_right]. rewrite qinsert_perm. constructor. exact IH.
Qed.
Theorem length_qsort : forall l, length (qsort l) = length l.
Proof. intros l. apply Permutation_length, qsort_perm. Qed.

Lemma qinsert_sorted x l : Sorted Qle l -> Sorted Qle (qinsert x l).
Proof.
  induction l as [|y l IH]; intros H; cbn [qinsert].
  - repeat constructor.
  - destruct (Qle_bool x y) eqn:E.
    + constructor; [exact H|]. constructor. apply Qle_bool_iff. exact E.
    + inversion H as [|? ? Hs Hh]; subst. constructor; [apply IH; exact Hs|].
      destruct l as [|z l]; cbn [qinsert].
      * constructor. apply Qle_bool_false. exact E.
      * inversion Hh; subst. destruct (Qle_bool x z); constructor; [apply Qle_bool_false; exact E|assumption].
Qed.
Theorem qsort_sorted : forall l, Sorted Qle (qsort l).
Proof.
  induction l as [|x l IH]; [constructor|].
  unfold qsort in *. cbn [fold_right]. apply qinsert_sorted. exact IH.
Qed.
Theorem qsort_ssorted : forall l, StronglySorted Qle (qsort l).
Proof.
  intros l. apply Sorted_StronglySorted; [|apply qsort_sorted].
  intros a b c. apply Qle_trans.
Qed.

(* ------------------------------------------------------------------ *)
(* 7. quantile                                                         *)
(* ------------------------------------------------------------------ *)
Lemma qtrunc_floor q : 0 <= q -> qtrunc q = Qfloor q.
Proof.
  destruct q as [n d]. unfold Qle, qtrunc, Qfloor. cbn [Qnum Qden]. intros H.
  apply Z.quot_div_nonneg; lia.
Qed.
Lemma qn_nonneg n : 0 <= qn n.
Proof. unfold qn, Qle. simpl. lia. Qed.
Lemma qn_lt_pos n : 0 < qn (S n).
Proof. unfold qn, Qlt. simpl. lia. Qed.

Lemma Qfloor_nonneg q : 0 <= q -> (0 <= Qfloor q)%Z.
Proof. intros H. change 0%Z with (Qfloor 0). apply Qfloor_resp_le. exact H. Qed.

Lemma quantile_idx l p : l <> [] -> 0 <= p ->
  quantile l p = Ok (nth (Nat.min (Z.to_nat (Qfloor (qn (length l) * p))) (length l - 1)) l 0).
Proof.
  intros Hne Hp. destruct l as [|a l]; [congruence|].
  unfold quantile. cbv zeta.
  assert (H0 : 0 <= qn (length (a :: l)) * p) by (apply Qmult_le_0_compat; [apply qn_nonneg|exact Hp]).
  rewrite (qtrunc_floor _ H0).
  pose proof (Qfloor_nonneg _ H0) as Hf.
  destruct (Z.ltb_spec (Qfloor (qn (length (a :: l)) * p)) 0); [lia|reflexivity].
Qed.

Theorem quantile_proof : forall l p, l <> [] -> 0 <= p -> p < 1 ->
  quantile l p = Ok (nth (Z.to_nat (Qfloor (qn (length l) * p))) l 0) /\
  (Z.to_nat (Qfloor (qn (length l) * p)) < length l)%nat.
Proof.
  intros l p Hne Hp Hp1.
  assert (H0 : 0 <= qn (length l) * p) by (apply Qmult_le_0_compat; [apply qn_nonneg|exact Hp]).
  pose proof (Qfloor_nonneg _ H0) as Hf.
  assert (Hlt : (Z.to_nat (Qfloor (qn (length l) * p)) < length l)%nat).
  { destruct l as [|a l]; [congruence|].
    assert (Hq : qn (length (a :: l)) * p < qn (length (a :: l))).
    { rewrite <- (Qmult_1_r (qn (length (a :: l)))) at 2.
      apply Qmult_lt_l; [apply qn_lt_pos|exact Hp1]. }
    pose proof (Qfloor_le (qn (length (a :: l)) * p)) as Hfl.
    assert (Hz : inject_Z (Qfloor (qn (length (a :: l)) * p)) < qn (length (a :: l)))
      by (eapply Qle_lt_trans; eassumption).
    unfold qn in Hz at 2. rewrite <- Zlt_Qlt in Hz. lia. }
  split; [|exact Hlt]. rewrite (quantile_idx l p Hne Hp). f_equal. f_equal. lia.
Qed.

Theorem quantile_one : forall l p, l <> [] -> 1 <= p -> quantile l p = Ok (nth (length l - 1) l 0).
Proof.
  intros l p Hne Hp.
  assert (Hp0 : 0 <= p) by (eapply Qle_trans; [|exact Hp]; discriminate).
  rewrite (quantile_idx l p Hne Hp0). f_equal. f_equal.
  assert (Hq : qn (length l) <= qn (length l) * p).
  { rewrite (Qmult_comm (qn (length l)) p). rewrite <- (Qmult_1_l (qn (length l))) at 1.
    apply Qmult_le_compat_r; [exact Hp|apply qn_nonneg]. }
  pose proof (Qfloor_resp_le _ _ Hq) as Hfl. unfold qn in Hfl at 1. rewrite Qfloor_Z in Hfl.
  destruct l as [|a l]; [congruence|]. cbn [length] in *. lia.
Qed.

Theorem quantile_nopanic : forall l p, 0 <= p -> quantile l p <> Panic.
Proof.
  intros l p Hp. destruct l as [|a l]; [discriminate|].
  rewrite quantile_idx; [discriminate|discriminate|exact Hp].
Qed.
Theorem quantile_empty : forall p, quantile [] p = Ok 0.
Proof. reflexivity. Qed.

(* ------------------------------------------------------------------ *)
(* 2. variance                                                         *)
(* ------------------------------------------------------------------ *)
Theorem variance_proof : forall keep h, let s := n_run keep h in let xs := oks h in
  (2 <= length xs)%nat ->
  n_variance s == qsqdev (qsum xs / qn (length xs)) xs / qn (length xs - 1).
Proof.
  intros keep h s xs Hlen. destruct (welford_proof keep h) as (Hc & _ & Hm).
  fold s xs in Hc, Hm. assert (Hne : xs <> []) by (destruct xs; simpl in *; [lia|discriminate]).
  destruct (Hm Hne) as [_ H2]. unfold n_variance. rewrite Hc.
  destruct (length xs) as [|[|n]] eqn:El; [lia|lia|].
  replace (S (S n) - 1)%nat with (S n) by lia. rewrite H2. reflexivity.
Qed.

(* ------------------------------------------------------------------ *)
(* 6. order statistics                                                 *)
(* ------------------------------------------------------------------ *)
Theorem median_proof : forall l, median (qsort l) = nth (length l / 2) (qsort l) 0.
Proof. intros l. unfold median. rewrite length_qsort. reflexivity. Qed.

Lemma filter_length_perm (f : Q -> bool) l l' :
  Permutation l l' -> length (filter f l) = length (filter f l').
Proof.
  induction 1; cbn [filter].
  - reflexivity.
  - destruct (f x); cbn [length]; congruence.
  - destruct (f x), (f y); reflexivity.
  - congruence.
Qed.

Lemma filter_length_le (f : Q -> bool) l : (length (filter f l) <= length l)%nat.
Proof. induction l as [|a l IH]; cbn [filter]; [lia|]. destruct (f a); cbn [length]; lia. Qed.

Lemma filter_all (f : Q -> bool) l : (forall x, In x l -> f x = true) -> filter f l = l.
Proof.
  induction l as [|a l IH]; intros H; cbn [filter]; [reflexivity|].
  rewrite (H a (or_introl eq_refl)). f_equal. apply IH. intros x Hx. apply H. right. exact Hx.
Qed.

Lemma ss_rank_le s : StronglySorted Qle s -> forall i, (i < length s)%nat ->
  (i < length (filter (fun x => Qle_bool x (nth i s 0%Q)) s))%nat.
Proof.
  induction 1 as [|a r Hs IH Ha]; intros i Hi; cbn [length] in Hi; [lia|].
  destruct i as [|j]; cbn [nth filter].
  - assert (E : Qle_bool a a = true) by (apply Qle_bool_iff, Qle_refl). rewrite E. cbn [length]. lia.
  - assert (Hj : (j < length r)%nat) by lia.
    assert (E : Qle_bool a (nth j r 0) = true).
    { apply Qle_bool_iff. rewrite Forall_forall in Ha. apply Ha. apply nth_In. exact Hj. }
    rewrite E. cbn [length]. specialize (IH j Hj). lia.
Qed.

Lemma ss_rank_ge s : StronglySorted Qle s -> forall i, (i < length s)%nat ->
  (length s - i <= length (filter (fun x => Qle_bool (nth i s 0%Q) x) s))%nat.
Proof.
  induction 1 as [|a r Hs IH Ha]; intros i Hi; cbn [length] in Hi; [lia|].
  destruct i as [|j].
  - cbn [nth]. rewrite filter_all; [lia|].
    intros x [E|Hx]; apply Qle_bool_iff; [subst; apply Qle_refl|].
    rewrite Forall_forall in Ha. apply Ha. exact Hx.
  - cbn [nth filter]. assert (Hj : (j < length r)%nat) by lia. specialize (IH j Hj).
    destruct (Qle_bool (nth j r 0) a); cbn [length]; lia.
Qed.

Theorem rank_le : forall l i, (i < length l)%nat -> let v := nth i (qsort l) 0 in
  (i < length (filter (fun x => Qle_bool x v) l))%nat.
Proof.
  intros l i Hi v. rewrite <- (filter_length_perm _ _ _ (qsort_perm l)).
  apply ss_rank_le; [apply qsort_ssorted|rewrite length_qsort; exact Hi].
Qed.
Theorem rank_ge : forall l i, (i < length l)%nat -> let v := nth i (qsort l) 0 in
  (length l - i <= length (filter (fun x => Qle_bool v x) l))%nat.
Proof.
  intros l i Hi v. rewrite <- (filter_length_perm _ _ _ (qsort_perm l)).
  rewrite <- (length_qsort l).
  apply ss_rank_ge; [apply qsort_ssorted|rewrite length_qsort; exact Hi].
Qed.

(* ------------------------------------------------------------------ *)
(* 8. mode                                                             *)
(* ------------------------------------------------------------------ *)
(* equal elements are contiguous *)
Definition Contig (L : list Q) : Prop :=
  forall l1 x l2 y l3, L = l1 ++ x :: l2 ++ y :: l3 -> x == y -> forall z, In z l2 -> z == x.

Lemma ss_app_inv (R : Q -> Q -> Prop) a : forall b, StronglySorted R (a ++ b) ->
  StronglySorted R b /\ forall x y, In x a -> In y b -> R x y.
Proof.
  induction a as [|h a IH]; intros b H; cbn [app] in H.
  - split; [exact H|]. intros x y [].
  - inversion H as [|? ? Hs Hf]; subst. destruct (IH b Hs) as [A B]. split; [exact A|].
    intros x y [E|Hx] Hy.
    + subst x. rewrite Forall_forall in Hf. apply Hf. apply in_or_app. right. exact Hy.
    + apply B; assumption.
Qed.

Lemma contig_ssorted L : StronglySorted Qle L -> Contig L.
Proof.
  intros H l1 x l2 y l3 E Exy z Hz. subst L.
  destruct (ss_app_inv Qle l1 _ H) as [H1 _].
  inversion H1 as [|? ? Hs Hf]; subst.
  rewrite Forall_forall in Hf.
  assert (Hxz : x <= z) by (apply Hf; apply in_or_app; left; exact Hz).
  destruct (ss_app_inv Qle l2 _ Hs) as [_ H2].
  assert (Hzy : z <= y) by (apply H2; [exact Hz|left; reflexivity]).
  apply Qle_antisym; [rewrite Exy; exact Hzy|exact Hxz].
Qed.
Lemma contig_sorted L : Sorted Qle L -> Contig L.
Proof.
  intros H. apply contig_ssorted, Sorted_StronglySorted; [|exact H].
  intros a b c. apply Qle_trans.
Qed.

Lemma contig_rev L : Contig L -> Contig (rev L).
Proof.
  intros H l1 x l2 y l3 E Exy z Hz.
  assert (E' : L = rev l3 ++ y :: rev l2 ++ x :: rev l1).
  { rewrite <- (rev_involutive L), E. rewrite rev_app_distr. cbn [rev].
    rewrite rev_app_distr. cbn [rev]. rewrite <- !app_assoc. cbn [app]. reflexivity. }
  rewrite Exy. apply (H _ _ _ _ _ E'); [symmetry; exact Exy|].
  apply in_rev in Hz. exact Hz.
Qed.

Lemma Qeq_bool_compat y y' a : y == y' -> Qeq_bool y a = Qeq_bool y' a.
Proof.
  intros E. destruct (Qeq_bool y a) eqn:E1, (Qeq_bool y' a) eqn:E2; try reflexivity.
  - apply Qeq_bool_iff in E1. apply Qeq_bool_neq in E2. exfalso. apply E2. rewrite <- E. exact E1.
  - apply Qeq_bool_iff in E2. apply Qeq_bool_neq in E1. exfalso. apply E1. rewrite E. exact E2.
Qed.
Lemma qcount_compat y y' l : y == y' -> qcount y l = qcount y' l.
Proof.
  intros E. unfold qcount. induction l as [|a l IH]; cbn [filter]; [reflexivity|].
  rewrite (Qeq_bool_compat y y' a E). destruct (Qeq_bool y' a); cbn [length]; congruence.
Qed.
Lemma qcount_app y a b : qcount y (a ++ b) = (qcount y a + qcount y b)%nat.
Proof. unfold qcount. rewrite filter_app, app_length. reflexivity. Qed.
Lemma qcount_one y v : qcount y [v] = if Qeq_bool y v then 1%nat else 0%nat.
Proof. unfold qcount. cbn [filter]. destruct (Qeq_bool y v); reflexivity. Qed.
Lemma qcount_zero y l : (forall x, In x l -> ~ x == y) -> qcount y l = 0%nat.
Proof.
  unfold qcount. induction l as [|a l IH]; intros H; cbn [filter]; [reflexivity|].
  destruct (Qeq_bool y a) eqn:E.
  - apply Qeq_bool_iff in E. exfalso. apply (H a (or_introl eq_refl)). symmetry. exact E.
  - apply IH. intros x Hx. apply H. right. exact Hx.
Qed.

Lemma contig_fresh d c v l : Contig ((d ++ [c]) ++ v :: l) -> ~ c == v -> qcount v (d ++ [c]) = 0%nat.
Proof.
  intros HC Hcv. apply qcount_zero. intros x Hx Exv. apply in_app_or in Hx.
  destruct Hx as [Hx|[Hx|[]]]; [|subst x; contradiction].
  apply in_split in Hx. destruct Hx as (a & b & ->).
  assert (E : ((a ++ x :: b) ++ [c]) ++ v :: l = a ++ x :: (b ++ [c]) ++ v :: l).
  { rewrite <- !app_assoc. cbn [app]. rewrite <- ?app_assoc. reflexivity. }
  apply Hcv. rewrite <- Exv. apply (HC _ _ _ _ _ E Exv). apply in_or_app. right. left. reflexivity.
Qed.

Definition MInv (d : list Q) (mo : nat) (mv : Q) (co : nat) (cv : Q) : Prop :=
  co = qcount cv d /\ mo = qcount mv d /\ (forall y, (qcount y d <= mo)%nat) /\
  (forall d' c, d = d' ++ [c] -> c == cv /\ exists x, In x d /\ mv == x).

Lemma mode_step d v l mo mv co cv :
  Contig (d ++ v :: l) -> MInv d mo mv co cv ->
  let cv' := if Qeq_bool v cv then cv else v in
  let co' := S (if Qeq_bool v cv then co else O) in
  if Nat.ltb mo co' then MInv (d ++ [v]) co' cv' co' cv' else MInv (d ++ [v]) mo mv co' cv'.
Proof.
  intros HC (Hco & Hmo & Hall & Hlast) cv' co'.
  assert (F1 : v == cv').
  { unfold cv'. destruct (Qeq_bool v cv) eqn:E; [apply Qeq_bool_iff; exact E|reflexivity]. }
  assert (F2 : co' = qcount cv' (d ++ [v])).
  { unfold co', cv'. rewrite qcount_app, qcount_one. destruct (Qeq_bool v cv) eqn:E.
    - apply Qeq_bool_iff in E. assert (E' : Qeq_bool cv v = true) by (apply Qeq_bool_iff; symmetry; exact E).
      rewrite E'. lia.
    - assert (E' : Qeq_bool v v = true) by (apply Qeq_bool_iff; reflexivity). rewrite E'.
      assert (Z : qcount v d = 0%nat).
      { destruct d as [|d0 dr] using rev_ind; [reflexivity|].
        apply (contig_fresh dr d0 v l HC).
        destruct (Hlast dr d0 eq_refl) as [Ec _]. intros Ecv. apply Qeq_bool_neq in E. apply E.
        rewrite <- Ecv. exact Ec. }
      lia. }
  assert (F3 : forall d' c, d ++ [v] = d' ++ [c] -> c == cv').
  { intros d' c E. apply app_inj_tail in E. destruct E as [_ <-]. exact F1. }
  assert (F4 : exists x, In x (d ++ [v]) /\ cv' == x).
  { exists v. split; [apply in_or_app; right; left; reflexivity|symmetry; exact F1]. }
  destruct (Nat.ltb mo co') eqn:Elt.
  - apply Nat.ltb_lt in Elt. repeat split; try exact F2.
    + intros y. rewrite qcount_app, qcount_one. specialize (Hall y). destruct (Qeq_bool y v); lia.
    + eapply F3; eassumption.
    + exact F4.
  - apply Nat.ltb_ge in Elt. repeat split; try exact F2.
    + rewrite qcount_app, qcount_one. destruct (Qeq_bool mv v) eqn:E; [|lia].
      apply Qeq_bool_iff in E. assert (E2 : mv == cv') by (rewrite E; exact F1).
      pose proof (qcount_compat _ _ (d ++ [v]) E2) as E3. rewrite <- F2 in E3.
      rewrite qcount_app, qcount_one in E3.
      assert (E' : Qeq_bool mv v = true) by (apply Qeq_bool_iff; exact E). rewrite E' in E3. lia.
    + intros y. rewrite qcount_app, qcount_one. destruct (Qeq_bool y v) eqn:E.
      * apply Qeq_bool_iff in E. assert (E2 : y == cv') by (rewrite E; exact F1).
        pose proof (qcount_compat _ _ (d ++ [v]) E2) as E3. rewrite <- F2 in E3.
        rewrite qcount_app, qcount_one in E3.
        assert (E' : Qeq_bool y v = true) by (apply Qeq_bool_iff; exact E). rewrite E' in E3. lia.
      * specialize (Hall y). lia.
    + eapply F3; eassumption.
    + destruct d as [|d0 dr] using rev_ind.
      * unfold qcount in Hmo. cbn in Hmo. unfold co' in Elt. lia.
      * destruct (Hlast dr d0 eq_refl) as [_ (x & Hx & Ex)]. exists x. split; [|exact Ex].
        apply in_or_app. left. exact Hx.
Qed.

Lemma mode_go_spec l : forall d mo mv co cv,
  Contig (d ++ l) -> MInv d mo mv co cv ->
  let m := mode_go l mo mv co cv in
  (d ++ l <> [] -> exists x, In x (d ++ l) /\ m == x) /\
  forall y, (qcount y (d ++ l) <= qcount m (d ++ l))%nat.
Proof.
  induction l as [|v r IH]; intros d mo mv co cv HC HI.
  - cbn [mode_go]. rewrite app_nil_r. destruct HI as (Hco & Hmo & Hall & Hlast). split.
    + intros Hne. destruct d as [|d0 dr] using rev_ind; [congruence|].
      destruct (Hlast dr d0 eq_refl) as [_ H]. exact H.
    + intros y. rewrite <- Hmo. apply Hall.
  - pose proof (mode_step d v r mo mv co cv HC HI) as Hs. cbv zeta in Hs.
    cbn [mode_go]. cbv zeta.
    assert (E : d ++ v :: r = (d ++ [v]) ++ r) by (rewrite <- app_assoc; reflexivity).
    rewrite E in *.
    destruct (Nat.ltb mo (S (if Qeq_bool v cv then co else 0%nat))); apply IH; assumption.
Qed.

Theorem mode_proof : forall l, l <> [] -> Contig l ->
  (exists x, In x l /\ mode l == x) /\ forall y, (qcount y l <= qcount (mode l) l)%nat.
Proof.
  intros l Hne HC.
  assert (HI : MInv [] 0 0 0 0).
  { split; [reflexivity|]. split; [reflexivity|]. split.
    - intros y. unfold qcount. cbn. lia.
    - intros d' c E. destruct d'; discriminate. }
  destruct (mode_go_spec l [] 0%nat 0 0%nat 0 HC HI) as [A B]. cbn [app] in A, B.
  split; [apply A; exact Hne|exact B].
Qed.

Corollary mode_sorted : forall l, l <> [] -> Sorted Qle l ->
  (exists x, In x l /\ mode l == x) /\ forall y, (qcount y l <= qcount (mode l) l)%nat.
Proof. intros l Hne Hs. apply mode_proof; [exact Hne|apply contig_sorted; exact Hs]. Qed.

Lemma qsort_nonnil l : l <> [] -> qsort l <> [].
Proof.
  intros Hne E. apply (f_equal (@length Q)) in E. rewrite length_qsort in E.
  destruct l; [congruence|discriminate].
Qed.

Corollary mode_qsort : forall l', l' <> [] -> let l := qsort l' in
  (exists x, In x l /\ mode l == x) /\ forall y, (qcount y l <= qcount (mode l) l)%nat.
Proof.
  intros l' Hne l. apply mode_sorted; [apply qsort_nonnil; exact Hne|apply qsort_sorted].
Qed.
Corollary mode_rev_qsort : forall l', l' <> [] -> let l := rev (qsort l') in
  (exists x, In x l /\ mode l == x) /\ forall y, (qcount y l <= qcount (mode l) l)%nat.
Proof.
  intros l' Hne l. apply mode_proof.
  - intros E. apply (f_equal (@rev Q)) in E. unfold l in E. rewrite rev_involutive in E.
    cbn [rev] in E. exact (qsort_nonnil l' Hne E).
  - apply contig_rev, contig_sorted, qsort_sorted.
Qed.
