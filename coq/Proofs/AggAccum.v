(* C07 — AccumulatingGroup: every group's row is the fold of the row step over that group's samples. *)
From Coq Require Import List NArith ZArith Bool Lia Sorted Permutation.
From RareV Require Import Base.Hex Base.Num Model.Agg Proofs.AggMap Proofs.AggCounter.
Import ListNotations.

Section AccumProof.
  Variable E : Type.
  Variable eval : E -> bytes -> bytes -> (bytes -> bytes) -> bytes.
  Variable d : adef E.
  Notation gk := (a_group_key E eval d).
  Notation step := (a_row_step E eval d).
  Notation init := (a_initial E d).

  Lemma spec_accum_sorted h : asorted (spec_accum E eval d h).
  Proof. unfold asorted, spec_accum. rewrite keys_tab. apply usort_sorted. Qed.

  Lemma afind_spec_accum g h :
    afind g (spec_accum E eval d h) =
      if mem g (map gk h) then Some (fold_left step (filter (fun m => beq g (gk m)) h) init) else None.
  Proof.
    unfold spec_accum.
    rewrite (afind_tab (fun g => fold_left step (filter (fun m => beq g (gk m)) h) init)).
    rewrite (mem_ext g (usort (map gk h)) (map gk h)) by apply In_usort. reflexivity.
  Qed.

  Lemma filter_none {A} (p : A -> bool) l : (forall x, In x l -> p x = false) -> filter p l = [].
  Proof.
    induction l as [|x l IH]; intros H; cbn; [reflexivity|].
    rewrite (H x) by (left; reflexivity). apply IH. intros y Hy. apply H. right. exact Hy.
  Qed.

  Lemma a_run_snoc h m : a_run E eval d (h ++ [m]) = a_sample E eval d (a_run E eval d h) m.
  Proof. unfold a_run. rewrite fold_left_app. reflexivity. Qed.

  (* C07_accumulator_fold *)
  Theorem accum_fold_proof : forall h, a_run E eval d h = spec_accum E eval d h.
  Proof.
    intros h. induction h as [|m h IH] using rev_ind; [reflexivity|].
    rewrite a_run_snoc, IH. unfold a_sample. apply amap_ext.
    - apply aupd_sorted. apply spec_accum_sorted.
    - apply spec_accum_sorted.
    - intros g. rewrite (afind_spec_accum g (h ++ [m])). rewrite map_app, filter_app. cbn [map filter].
      destruct (bytes_dec g (gk m)) as [->|Hne].
      + rewrite afind_aupd_same by apply spec_accum_sorted. rewrite afind_spec_accum, beq_refl.
        replace (mem (gk m) (map gk h ++ [gk m])) with true
          by (symmetry; apply mem_In; apply in_or_app; right; left; reflexivity).
        rewrite fold_left_app. cbn [fold_left]. f_equal.
        destruct (mem (gk m) (map gk h)) eqn:M; [reflexivity|].
        rewrite filter_none; [reflexivity|].
        intros x Hx. apply beq_neq. intros Heq. apply (in_map gk) in Hx. rewrite <- Heq in Hx.
        apply mem_In in Hx. congruence.
      + rewrite afind_aupd_other by exact Hne. rewrite afind_spec_accum.
        rewrite (beq_neq g (gk m)) by exact Hne. rewrite app_nil_r.
        rewrite (mem_ext g (map gk h ++ [gk m]) (map gk h)); [reflexivity|].
        rewrite in_app_iff. cbn. intuition congruence.
  Qed.

  (* the groups are exactly the group keys seen; DataCount = number of distinct group keys *)
  Theorem accum_groups_proof : forall h, map fst (a_run E eval d h) = usort (map gk h).
  Proof. intros h. rewrite accum_fold_proof. unfold spec_accum. apply keys_tab. Qed.
  (* the set of groups does not depend on the order of the samples (the rows do: the fold is not
     commutative in general) *)
  Theorem accum_groups_perm_proof : forall h1 h2, Permutation h1 h2 ->
    map fst (a_run E eval d h1) = map fst (a_run E eval d h2).
  Proof.
    intros h1 h2 H. rewrite !accum_groups_proof. apply usort_perm. apply Permutation_map. exact H.
  Qed.

  (* while the group key is built the context has no row: {.} and every named key are "" *)
  Theorem accum_group_key_proof : forall m,
    a_group_key E eval d m = join0 (map (fun g => eval g m [] (fun _ => [])) (a_groups d)).
  Proof. reflexivity. Qed.
End AccumProof.
