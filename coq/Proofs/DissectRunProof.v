(* C12 — a DissectInstance over any sequence of lines: no panic, every returned slice holds the
   offsets of its own line when returned and still after the last line; the boolean form of the
   property accepts everything the model produces. *)
From Coq Require Import List NArith ZArith Bool Arith Lia.
From RareV Require Import Base.Hex Base.Res Model.Dissect Model.IntPool Model.DissectRun
  Proofs.DissectSearch Proofs.DissectFind Proofs.DissectCase Proofs.DissectCompile Proofs.IntPoolProof.
Import ListNotations.

(* ---------- filling a fresh slice ---------- *)

Lemma upd_app_mid {A} (pre : list A) x l v : upd (pre ++ x :: l) (length pre) v = pre ++ v :: l.
Proof. induction pre as [|a pre IH]; cbn; auto. f_equal. auto. Qed.

Lemma apply_enum : forall (vals l pre : list Z),
  length l = length vals -> apply_writes (pre ++ l) (enum_from (length pre) vals) = pre ++ vals.
Proof.
  induction vals as [|v vals IH]; intros l pre Hl.
  - destruct l; [reflexivity|discriminate].
  - destruct l as [|x l]; [discriminate|]. cbn [enum_from apply_writes].
    rewrite upd_app_mid.
    replace (pre ++ v :: l) with ((pre ++ [v]) ++ l) by (rewrite <- app_assoc; reflexivity).
    replace (S (length pre)) with (length (pre ++ [v])) by (rewrite app_length; cbn; lia).
    rewrite IH by (cbn in Hl; lia). rewrite <- app_assoc. reflexivity.
Qed.

Lemma expected_fill n (vals : list Z) : length vals = n -> expected (n, enum_from 0 vals) = vals.
Proof.
  intros H. unfold expected. cbn [fst snd].
  apply (apply_enum vals (repeat 0%Z n) []). rewrite repeat_length. auto.
Qed.

Lemma enum_from_idx {A} : forall (l : list A) i, Forall (fun w => i <= fst w < i + length l) (enum_from i l).
Proof.
  induction l as [|x l IH]; intros i; cbn; constructor.
  - cbn. lia.
  - eapply Forall_impl; [|apply (IH (S i))]. cbn. intros; lia.
Qed.

(* ---------- the instance ---------- *)

Definition compiled (d : dissect) : Prop := d_names d = map t_name (nonskip (d_tokens d)).

Lemma find_len d line r : compiled d -> find d line = Some r -> length r = group_slots d.
Proof.
  intros Hc H. unfold find in H. destruct (find_shape _ _ _ _ H) as (s0 & e & caps & ->).
  apply offsets_ordered_proof in H as (_ & _ & Hl). unfold group_slots. rewrite Hc, map_length.
  cbn. lia.
Qed.

Lemma prefix_found_false d line : prefix_found d line = false -> find d line = None.
Proof.
  unfold prefix_found, find. rewrite find_f_unfold. intros H.
  destruct (d_prefix d) as [|b p] eqn:Ep; [discriminate|].
  destruct (index_of (foldf (d_ic d)) (b :: p) line); [discriminate|reflexivity].
Qed.

(* what one entry of run_lines must satisfy with respect to a (later) heap *)
Definition entry_ok (d : dissect) (p' : pool) (line : bytes) (x : option slice * option (list Z)) : Prop :=
  match fst x with
  | Some sl => retired p' sl /\ snd x = option_map (map Z.of_nat) (find d line) /\
               Some (read (p_heap p') sl) = option_map (map Z.of_nat) (find d line)
  | None => snd x = None /\ find d line = None
  end.

Lemma find_inst_spec d p line osl p1 :
  compiled d -> wf p -> p_size p = group_slots d * pool_mult ->
  find_inst d p line = Ok (osl, p1) ->
  wf p1 /\ p_size p1 = p_size p /\
  (forall sl0, retired p sl0 -> retired p1 sl0 /\ read (p_heap p1) sl0 = read (p_heap p) sl0) /\
  entry_ok d p1 line (osl, option_map (read (p_heap p1)) osl).
Proof.
  intros Hc Hwf Hsz H. unfold find_inst in H.
  destruct (prefix_found d line) eqn:Ef.
  - destruct (find d line) as [r|] eqn:Er.
    + destruct (step p (group_slots d, enum_from 0 (map Z.of_nat r))) as [[sl p2]|] eqn:Es; [|discriminate].
      inversion H; subst; clear H.
      destruct (step_spec _ _ _ _ Hwf Es) as (Hwf1 & Hsz1 & Hret & Hrd & Hold).
      split; [auto|]. split; [auto|]. split; [exact Hold|].
      unfold entry_ok. cbn [fst snd option_map]. rewrite Hrd.
      rewrite expected_fill by (rewrite map_length; eapply find_len; eauto). rewrite Er. auto.
    + destruct (step p (group_slots d, [])) as [[sl p2]|] eqn:Es; [|discriminate].
      inversion H; subst; clear H.
      destruct (step_spec _ _ _ _ Hwf Es) as (Hwf1 & Hsz1 & Hret & Hrd & Hold).
      split; [auto|]. split; [auto|]. split; [exact Hold|].
      unfold entry_ok. cbn [fst snd option_map]. auto.
  - inversion H; subst; clear H. split; [auto|]. split; [auto|]. split; [auto|].
    unfold entry_ok. cbn [fst snd option_map]. split; auto. apply prefix_found_false; auto.
Qed.

Lemma find_inst_no_panic d p line :
  compiled d -> wf p -> p_size p = group_slots d * pool_mult -> find_inst d p line <> Panic.
Proof.
  intros Hc Hwf Hsz. unfold find_inst.
  assert (Hn : group_slots d <= p_size p).
  { rewrite Hsz. unfold pool_mult. change (N.to_nat 1024) with (S (N.to_nat 1023)). lia. }
  destruct (prefix_found d line); [|discriminate].
  destruct (find d line) as [r|] eqn:Er.
  - destruct (step p (group_slots d, enum_from 0 (map Z.of_nat r))) as [[sl p2]|] eqn:Es; [discriminate|].
    exfalso. eapply step_no_panic; [exact Hwf|exact Hn| |exact Es].
    eapply Forall_impl; [|apply enum_from_idx]. cbn. intros a Ha.
    rewrite map_length, (find_len _ _ _ Hc Er) in Ha. lia.
  - destruct (step p (group_slots d, [])) as [[sl p2]|] eqn:Es; [discriminate|].
    exfalso. eapply step_no_panic; [exact Hwf|exact Hn| |exact Es]. constructor.
Qed.

Lemma entry_ok_later d p1 p2 line x :
  (forall sl0, retired p1 sl0 -> retired p2 sl0 /\ read (p_heap p2) sl0 = read (p_heap p1) sl0) ->
  entry_ok d p1 line x -> entry_ok d p2 line x.
Proof.
  intros Hold. unfold entry_ok. destruct (fst x) as [sl|]; auto.
  intros (Hr & Hs & Hrd). destruct (Hold _ Hr) as [Hr2 Hs2]. rewrite Hs2. auto.
Qed.

Lemma run_lines_spec d : forall lines p xs p',
  compiled d -> wf p -> p_size p = group_slots d * pool_mult ->
  run_lines d p lines = Ok (xs, p') ->
  wf p' /\ p_size p' = p_size p /\
  (forall sl0, retired p sl0 -> retired p' sl0 /\ read (p_heap p') sl0 = read (p_heap p) sl0) /\
  Forall2 (entry_ok d p') lines xs.
Proof.
  induction lines as [|l lines IH]; intros p xs p' Hc Hwf Hsz H.
  - cbn in H. inversion H; subst. split; [auto|]. split; [auto|]. split; [auto|constructor].
  - cbn [run_lines] in H. destruct (find_inst d p l) as [[osl p1]|] eqn:Ef; [|discriminate].
    destruct (run_lines d p1 lines) as [[xs1 p2]|] eqn:Er; [|discriminate].
    inversion H; subst; clear H.
    destruct (find_inst_spec _ _ _ _ _ Hc Hwf Hsz Ef) as (Hwf1 & Hsz1 & Hold1 & He).
    assert (Hsz1' : p_size p1 = group_slots d * pool_mult) by congruence.
    destruct (IH _ _ _ Hc Hwf1 Hsz1' Er) as (Hwf2 & Hsz2 & Hold2 & Hall).
    split; auto. split; [congruence|]. split.
    + intros sl0 Hr0. destruct (Hold1 _ Hr0) as [Hr1 Hs1]. destruct (Hold2 _ Hr1) as [Hr2 Hs2].
      split; auto. congruence.
    + constructor; auto. eapply entry_ok_later; eauto.
Qed.

Lemma run_lines_no_panic d : forall lines p,
  compiled d -> wf p -> p_size p = group_slots d * pool_mult -> run_lines d p lines <> Panic.
Proof.
  induction lines as [|l lines IH]; intros p Hc Hwf Hsz; [discriminate|].
  cbn [run_lines]. destruct (find_inst d p l) as [[osl p1]|] eqn:Ef.
  - destruct (find_inst_spec _ _ _ _ _ Hc Hwf Hsz Ef) as (Hwf1 & Hsz1 & _ & _).
    assert (Hsz1' : p_size p1 = group_slots d * pool_mult) by congruence.
    destruct (run_lines d p1 lines) as [[xs1 p2]|] eqn:Er; [discriminate|].
    exfalso. eapply IH; eauto.
  - exfalso. eapply find_inst_no_panic; eauto.
Qed.

(* C12_pool_stable at the level of the matcher: for any sequence of lines on one instance, what
   each returned slice read when it was returned, and what it reads after the last call, are the
   offsets of its own line *)
Theorem instance_stable_proof d lines :
  compiled d ->
  exists xs p', run_lines d (create_instance d) lines = Ok (xs, p') /\
    map snd xs = map (fun l => option_map (map Z.of_nat) (find d l)) lines /\
    map (fun x => option_map (read (p_heap p')) (fst x)) xs = map snd xs.
Proof.
  intros Hc.
  destruct (run_lines d (create_instance d) lines) as [[xs p']|] eqn:Er.
  2:{ exfalso. eapply run_lines_no_panic; eauto; [apply wf_new|reflexivity]. }
  exists xs, p'. split; auto.
  destruct (run_lines_spec d _ _ _ _ Hc (wf_new _) eq_refl Er) as (_ & _ & _ & Hall).
  clear Er. induction Hall as [|l x lines xs Hx _ [IH1 IH2]]; [split; reflexivity|].
  cbn [map]. unfold entry_ok in Hx. destruct x as [[sl|] s]; cbn [fst snd option_map] in *.
  - destruct Hx as (_ & -> & Hrd). rewrite Hrd. split; f_equal; auto.
  - destruct Hx as [-> ->]. cbn [option_map]. split; f_equal; auto.
Qed.

(* ---------- the boolean form accepts the model's observables ---------- *)

Lemma list_eqb_refl {A} (e : A -> A -> bool) : (forall x, e x x = true) -> forall l, list_eqb e l l = true.
Proof. intros He. induction l; cbn; auto. rewrite He, IHl. reflexivity. Qed.

Lemma res_eqb_refl r : res_eqb r r = true.
Proof. destruct r; cbn; auto. apply list_eqb_refl. apply Z.eqb_refl. Qed.

Lemma name_eqb_refl n : name_eqb n n = true.
Proof.
  unfold name_eqb. rewrite Z.eqb_refl, andb_true_r. apply bytes_eqb_eq. reflexivity.
Qed.

Lemma outcome_eqb_refl o : outcome_eqb o o = true.
Proof.
  destruct o; cbn; [apply N.eqb_refl|].
  rewrite !list_eqb_refl; auto using name_eqb_refl, res_eqb_refl.
Qed.

Lemma obs_eqb_refl o : obs_eqb o o = true.
Proof.
  destruct o as [[a|] [b|]]; unfold obs_eqb; cbn [fst snd opt_eqb]; rewrite ?outcome_eqb_refl; reflexivity.
Qed.

Lemma chainZ_of_nat : forall l lo hi,
  chainZ (Z.of_nat lo) (map Z.of_nat l) (Z.of_nat hi) = chainb lo l hi.
Proof.
  induction l as [|x l IH]; intros lo hi; cbn.
  - destruct (lo <=? hi) eqn:E.
    + apply Nat.leb_le in E. apply Z.leb_le. lia.
    + apply Nat.leb_gt in E. apply Z.leb_gt. lia.
  - rewrite IH. f_equal. destruct (lo <=? x) eqn:E.
    + apply Nat.leb_le in E. apply Z.leb_le. lia.
    + apply Nat.leb_gt in E. apply Z.leb_gt. lia.
Qed.

Lemma resultZ_ok_find d line :
  compiled d ->
  resultZ_ok (length line) (length (d_names d)) (option_map (map Z.of_nat) (find d line)) = true.
Proof.
  intros Hc. destruct (find d line) as [r|] eqn:E; [|reflexivity]. unfold find in E.
  destruct (find_shape _ _ _ _ E) as (s0 & e & caps & ->).
  apply offsets_ordered_proof in E as (Hch & He & Hl).
  cbn [option_map map resultZ_ok]. rewrite chainZ_of_nat, map_length.
  rewrite Hc, map_length, Hl, Nat.eqb_refl.
  rewrite (chainb_weaken _ s0 _ _ (Nat.le_add_r _ _) Hch).
  assert (H0 : (0 <=? Z.of_nat s0)%Z = true) by (apply Z.leb_le; lia).
  assert (H1 : (Z.of_nat e <=? Z.of_nat (length line))%Z = true) by (apply Z.leb_le; lia).
  rewrite H0, H1. reflexivity.
Qed.

Lemma all2_map_r {A B C} (p : A -> C -> bool) (g : B -> C) : forall a b,
  all2 p a (map g b) = all2 (fun x y => p x (g y)) a b.
Proof. induction a as [|x a IH]; intros [|y b]; cbn; auto. rewrite IH. reflexivity. Qed.

Lemma all2_diag {A} (p : A -> A -> bool) : (forall x, p x x = true) -> forall l, all2 p l l = true.
Proof. intros Hp. induction l; cbn; auto. rewrite Hp, IHl. reflexivity. Qed.

Lemma compile_compiled ic pat d : compile ic pat = COk d -> compiled d.
Proof. intros H. apply compile_names_proof in H as [H _]. exact H. Qed.

(* the observable of one mode, in closed form *)
Lemma run_mode_eq ic pat lines : run_mode ic pat lines = run_mode_fast ic pat lines.
Proof.
  unfold run_mode, run_mode_fast. destruct (compile ic pat) as [d|e|] eqn:Ec; auto.
  destruct (instance_stable_proof d lines (compile_compiled _ _ _ Ec)) as (xs & p' & -> & H1 & H2).
  cbn zeta. rewrite H2, H1. reflexivity.
Qed.

Lemma name_table_length d : length (name_table d) = length (d_names d).
Proof.
  unfold name_table. rewrite map_length. generalize 1. induction (d_names d); intros n; cbn; auto.
Qed.

Theorem model_fast_eq i : model i = model_fast i.
Proof.
  destruct i as [[mode pat] lines]. unfold model, model_fast. rewrite !run_mode_eq. reflexivity.
Qed.

Lemma outcome_ok_run ic pat lines : outcome_ok lines (run_mode ic pat lines) = true.
Proof.
  rewrite run_mode_eq. unfold run_mode_fast. destruct (compile ic pat) as [d|e|] eqn:Ec.
  - cbn zeta. cbn [outcome_ok]. rewrite list_eqb_refl by apply res_eqb_refl. rewrite andb_true_r.
    rewrite all2_map_r. apply all2_diag. intros l. rewrite name_table_length.
    apply resultZ_ok_find. eapply compile_compiled; eauto.
  - destruct e; reflexivity.
  - exfalso. eapply compile_total_proof; eauto.
Qed.

Lemma monotone_ok_run pat lines : monotone_ok (run_mode false pat lines) (run_mode true pat lines) = true.
Proof.
  rewrite !run_mode_eq. unfold run_mode_fast.
  destruct (compile false pat) as [d|e|] eqn:Ec.
  - destruct (ic_ascii_proof _ _ Ec) as [Hc _]. rewrite Hc. cbn zeta. cbn [monotone_ok].
    assert (Hn : name_table (fold_lits true lower d) = name_table d) by reflexivity.
    rewrite Hn, list_eqb_refl by apply name_eqb_refl. cbn [andb].
    rewrite all2_map_r.
    assert (Hg : forall (l : list bytes) (g h : bytes -> option (list Z)),
               (forall x, implb (is_some (g x)) (is_some (h x)) = true) ->
               all2 (fun a y => implb (is_some a) (is_some (h y))) (map g l) l = true).
    { intros l g h Hgh. induction l; cbn; auto. rewrite Hgh, IHl. reflexivity. }
    apply Hg; auto. intros l.
    destruct (find d l) as [r|] eqn:Ef; [|reflexivity].
    destruct (ic_monotone_proof pat d l Ec) as (d' & Hc' & Hf' & _); [congruence|].
    rewrite Hc in Hc'. inversion Hc'; subst.
    destruct (find (fold_lits true lower d) l); [reflexivity|congruence].
  - apply compile_err_mode_proof in Ec. rewrite Ec. cbn. apply N.eqb_refl.
  - exfalso. eapply compile_total_proof; eauto.
Qed.

(* C12_check_sound *)
Theorem check_sound_proof i : C12_check i (model i) = true.
Proof.
  destruct i as [[mode pat] lines]. unfold C12_check.
  rewrite <- (model_fast_eq (mode, pat, lines)), obs_eqb_refl. cbn [andb].
  unfold model. destruct (mode =? 1)%N eqn:E1; destruct (mode =? 0)%N eqn:E0.
  - apply N.eqb_eq in E1, E0. congruence.
  - rewrite outcome_ok_run. reflexivity.
  - rewrite outcome_ok_run. reflexivity.
  - rewrite !outcome_ok_run, monotone_ok_run. reflexivity.
Qed.
