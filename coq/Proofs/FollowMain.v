(* C15: the statements of Props/C15.v in their final form. *)
From Coq Require Import List NArith Arith Bool Lia.
From RareV Require Import Base.Hex Model.Follow Proofs.FollowBase Proofs.FollowNotify Proofs.FollowPoll
  Proofs.FollowRefute Proofs.FollowCheck Proofs.FollowLive.
Import ListNotations.
Local Open Scope nat_scope.

Definition nreach reopen c0 tail tr s := run (nstep reopen true) (nok (pre_of c0 tail)) (ninit c0 tail) tr s.
Definition preach reopen c0 tail tr s := run (pstep reopen true) (pok (pre_of c0 tail)) (pinit c0 tail) tr s.

Section N.
Variables (reopen : bool) (c0 : option bytes) (tail : bool) (tr : list label) (s : nstate).
Hypothesis R : nreach reopen c0 tail tr s.
Let I := ninv_run reopen c0 tail tr s R.

Lemma m_prefix_notify : exists rest, all (nenv s) = pre_of c0 tail ++ ndel s ++ rest.
Proof. apply (ninv_prefix reopen c0 tail), I. Qed.
Lemma m_admissible_notify : spec_run reopen (spec_init c0 tail) tr = Some (nabs (pre_of c0 tail) s).
Proof. apply nrun_spec, R. Qed.
Lemma m_no_lost_wakeup : forall i off, nfd s = Some (i, off) -> present (nenv s) = true -> i = ino (nenv s) ->
  off < length (curc (nenv s)) -> npcs s = NSelect -> sigW s = true \/ In EvWrite (queue s).
Proof. exact (iW _ _ _ I). Qed.
Lemma m_blocks_notify : npcs s = NEnded -> reopen = false /\ past (nenv s) <> [].
Proof. exact (iE _ _ _ I). Qed.
Lemma m_remove_ends_notify : reopen = false -> past (nenv s) <> [] -> npcs s <> NEnded ->
  (sigD s = true \/ In EvRemove (queue s)) /\
  (npcs s = NSelect -> sigD s = true -> exists s', nstep reopen true s LEof s').
Proof.
  intros Hr Hp He. split; [exact (iR _ _ _ I Hr Hp He)|]. intros Hs Hd. eexists. apply n_sel_delete_end; auto.
Qed.
Lemma m_reopen_notify :
  (forall i off, nfd s = Some (i, off) ->
     pre_of c0 tail ++ ndel s = concat (firstn i (past (nenv s))) ++ firstn off (content (nenv s) i)) /\
  (nfd s = None -> pre_of c0 tail ++ ndel s = concat (past (nenv s))).
Proof. split; [exact (iP _ _ _ I)|exact (iN _ _ _ I)]. Qed.
End N.

Lemma m_ended_silent_notify reopen rp s l s' : npcs s = NEnded -> nstep reopen rp s l s' ->
  is_env l = true \/ l = LWatch.
Proof. intros He St. inversion St; subst; try congruence; [left; eapply estep_env_label; eauto|left; reflexivity|right; reflexivity|left; reflexivity]. Qed.

Section P.
Variables (reopen : bool) (c0 : option bytes) (tail : bool) (tr : list label) (s : pstate).
Hypothesis new_ok : c0 = None -> reopen = true.
Hypothesis R : preach reopen c0 tail tr s.
Let I := pinv_run reopen c0 tail new_ok tr s R.

Lemma m_prefix_poll : exists rest, all (penv s) = pre_of c0 tail ++ pdel s ++ rest.
Proof. apply (pinv_prefix reopen c0 tail), I. Qed.
Lemma m_admissible_poll : spec_run reopen (spec_init c0 tail) tr = Some (pabs (pre_of c0 tail) s).
Proof. apply prun_spec; [exact new_ok|exact R]. Qed.
Lemma m_poll_offset : (forall i off, pfd s = Some (i, off) -> rb s = off) /\ (pfd s = None -> rb s = 0).
Proof. split; [intros i off F; symmetry; exact (qO _ _ _ I i off F)|intros F; apply (qN _ _ _ I F)]. Qed.
Lemma m_blocks_poll : ppcs s = PEnded -> reopen = false /\ past (penv s) <> [].
Proof. exact (qE _ _ _ I). Qed.
Lemma m_remove_ends_poll : reopen = false -> ppcs s = PStat ->
  forall i off, pfd s = Some (i, off) -> i < length (past (penv s)) ->
  (exists s', pstep reopen true s LEof s' /\ ppcs s' = PEnded) /\
  (forall l s', is_env l = false -> pstep reopen true s l s' -> l = LEof /\ ppcs s' = PEnded).
Proof.
  intros Hr Hs i off F L.
  assert (plain_sees true (penv s) (pfd s) = false) as G.
  { unfold plain_sees, still_open. rewrite F. cbn. unfold ino.
    replace (i =? length (past (penv s))) with false by (symmetry; apply Nat.eqb_neq; lia). apply andb_false_r. }
  split.
  - eexists. split; [apply p_stat_gone; auto|reflexivity].
  - intros l s' E St. inversion St; subst; try congruence; try discriminate.
    + rewrite (estep_env_label _ _ _ H) in E. discriminate.
    + split; reflexivity.
Qed.
Lemma m_reopen_poll :
  (forall i off, pfd s = Some (i, off) ->
     pre_of c0 tail ++ pdel s = concat (firstn i (past (penv s))) ++ firstn off (content (penv s) i)) /\
  (pfd s = None -> pre_of c0 tail ++ pdel s = concat (past (penv s))).
Proof. split; [exact (qP _ _ _ I)|intros F; apply (qN _ _ _ I F)]. Qed.
End P.

Lemma m_ended_silent_poll reopen rp s l s' : ppcs s = PEnded -> pstep reopen rp s l s' -> is_env l = true.
Proof. intros He St. inversion St; subst; try congruence; [eapply estep_env_label; eauto|reflexivity]. Qed.

(* ------------------------------------------------------------------ eventual delivery (Proofs/FollowLive.v) *)
Definition ndrained c0 tail (s : nstate) : Prop := pre_of c0 tail ++ ndel s = all (nenv s).
Definition pdrained c0 tail (s : pstate) : Prop := pre_of c0 tail ++ pdel s = all (penv s).

Lemma zinv_run reopen c0 tail tr s : nreach reopen c0 tail tr s -> ZInv reopen s.
Proof.
  intros R. unfold nreach in R. remember (ninit c0 tail) as s0 eqn:E. induction R as [|s0 tr s1 l s2 R IH Ok St].
  - subst. intros _ i off F. unfold ninit, fd0 in F. cbn in F. destruct c0; inversion F. reflexivity.
  - eapply zinv_step; eauto.
Qed.

Section NL.
Variables (reopen : bool) (c0 : option bytes) (tail : bool) (tr : list label) (s : nstate).
Hypothesis R : nreach reopen c0 tail tr s.
Let I := ninv_run reopen c0 tail tr s R.

Lemma m_measure_notify : forall l s', is_env l = false -> nstep reopen true s l s' ->
  nmu (pre_of c0 tail) s' < nmu (pre_of c0 tail) s.
Proof. intros l s'. apply nmeasure with (reopen := reopen). exact I. Qed.
Lemma m_progress_notify : forall off, nfd s = Some (ino (nenv s), off) -> present (nenv s) = true ->
  off < length (curc (nenv s)) -> npcs s <> NEnded -> exists l s', is_env l = false /\ nstep reopen true s l s'.
Proof. intros off. apply nprogress with (pre := pre_of c0 tail). exact I. Qed.
Lemma m_eventual_notify : fd_current (nenv s) (nfd s) = true -> npcs s <> NEnded ->
  must (nstep reopen true) (ndrained c0 tail) (nmu (pre_of c0 tail) s) s.
Proof.
  intros Fc Ne. apply nmust with (reopen := reopen); [apply Nat.le_refl|exact I|eapply zinv_run; eauto|split; assumption].
Qed.
Lemma m_eventual_reopen_notify : reopen = true -> nfd s = None -> present (nenv s) = true ->
  sigW s = true \/ In EvWrite (queue s) \/ In EvCreate (queue s) ->
  must (nstep reopen true) (ndrained c0 tail) (nmu (pre_of c0 tail) s) s.
Proof.
  intros Ro F Pp Wk. apply ncold_must with (reopen := reopen); [apply Nat.le_refl|exact I|].
  repeat split; auto. intros X. destruct (iE _ _ _ I X) as [Y _]. congruence.
Qed.
End NL.

Section PL.
Variables (reopen : bool) (c0 : option bytes) (tail : bool) (tr : list label) (s : pstate).
Hypothesis new_ok : c0 = None -> reopen = true.
Hypothesis R : preach reopen c0 tail tr s.
Let I := pinv_run reopen c0 tail new_ok tr s R.

Lemma m_measure_poll : forall off l s', pfd s = Some (ino (penv s), off) -> present (penv s) = true ->
  off < length (curc (penv s)) -> is_env l = false -> pstep reopen true s l s' ->
  pmu (pre_of c0 tail) s' < pmu (pre_of c0 tail) s.
Proof. intros off l s'. apply pmeasure. exact I. Qed.
Lemma m_progress_poll : forall off, pfd s = Some (ino (penv s), off) -> present (penv s) = true ->
  off < length (curc (penv s)) -> ppcs s <> PEnded -> exists l s', is_env l = false /\ pstep reopen true s l s'.
Proof. intros off. apply pprogress. Qed.
Lemma m_eventual_poll : fd_current (penv s) (pfd s) = true -> ppcs s <> PEnded ->
  must (pstep reopen true) (pdrained c0 tail) (pmu (pre_of c0 tail) s) s.
Proof. intros Fc Ne. apply pmust; [apply Nat.le_refl|exact I|split; assumption]. Qed.
Lemma m_eventual_reopen_poll : reopen = true -> fd_current (penv s) (pfd s) = false -> present (penv s) = true ->
  0 < size (penv s) -> size (penv s) < rb s \/ rb s = 0 ->
  pre_of c0 tail ++ pdel s = concat (past (penv s)) ->
  must (pstep reopen true) (pdrained c0 tail) (cw s + 4 * undel (pre_of c0 tail) (penv s) (pdel s)) s.
Proof.
  intros Ro Fc Pp Sz Lt Dl. apply pcold_must; [apply Nat.le_refl|exact I|].
  repeat split; auto. intros X. destruct (qE _ _ _ I X) as [Y _]. congruence.
Qed.
End PL.

(* ------------------------------------------------------------------ siblings *)
(* activity on other entries of the directory, inserted anywhere in a log, changes neither what the
   specification accepts nor the state it reaches *)
Lemma siblings_spec ro tr : forall sp,
  spec_run ro sp (filter (fun l => negb (is_sibling l)) tr) = spec_run ro sp tr.
Proof.
  induction tr as [|l tr IH]; intros sp; [reflexivity|]. destruct l; cbn [filter is_sibling negb spec_run];
    try (destruct (spec_step ro sp _); [apply IH|reflexivity]). apply IH.
Qed.
(* ... nor the delivered stream and termination predicted by the functional projection *)
Lemma siblings_model i :
  model (mkcin (i_poll i) (i_reopen i) (i_tail i) (i_c0 i) (filter (fun l => negb (is_sibling l)) (i_hist i))) = model i.
Proof.
  unfold model, expected, expected_term. cbn [i_reopen i_c0 i_tail i_hist].
  assert (forall ro h rm, wanted ro rm (filter (fun l => negb (is_sibling l)) h) = wanted ro rm h) as A.
  { induction h as [|l h IH]; intros rm; [reflexivity|]. destruct l; cbn; rewrite ?IH; reflexivity. }
  assert (forall h, existsb is_remove (filter (fun l => negb (is_sibling l)) h) = existsb is_remove h) as B.
  { induction h as [|l h IH]; [reflexivity|]. destruct l; cbn; rewrite ?IH; reflexivity. }
  rewrite A, B. reflexivity.
Qed.
(* in the transition systems a sibling step changes nothing but the queue of filtered events *)
Lemma sibling_step_notify ro rp s s' : nstep ro rp s LSibling s' ->
  nenv s' = nenv s /\ nfd s' = nfd s /\ npcs s' = npcs s /\ sigW s' = sigW s /\ sigD s' = sigD s /\ ndel s' = ndel s /\
  queue s' = queue s ++ [EvOther].
Proof. intros St. inversion St; subst; [inversion H|cbn; repeat split; reflexivity]. Qed.
Lemma sibling_step_poll ro rp s s' : pstep ro rp s LSibling s' -> s' = s.
Proof. intros St. inversion St; subst; [inversion H|reflexivity]. Qed.

(* ------------------------------------------------------------------ the plain-follow Stat rule as found *)
(* finding C15-poll-plain-recreate (fixed): with the rule as found (flag false: os.Stat succeeds => go on) a
   removal followed by a re-creation of the path before the poller looks is never noticed: the state below is
   reachable (file delivered, removed after drain, path re-created, poller about to Stat, its descriptor on the
   removed file), and from it no sequence of reader steps ends the stream *)
Lemma poll_plain_asfound_never_ends :
  exists tr s, run (pstep false false) (pok []) (pinit (Some cAB) false) tr s /\
    ppcs s = PStat /\ pfd s = Some (0, 2) /\ past (penv s) = [cAB] /\ present (penv s) = true /\
    forall tr' s', run (pstep false false) (fun _ l => is_env l = false) s tr' s' -> ppcs s' <> PEnded.
Proof.
  eexists. eexists. split; [|split; [|split; [|split; [|split]]]].
  - unfold pinit, env0, fd0, start_of, cAB. cbn.
    p_data [65%N; 66%N] (@nil N). p_env ltac:(eapply e_remove). p_env ltac:(eapply e_create). p_giveup.
    apply run0.
  - reflexivity.
  - reflexivity.
  - reflexivity.
  - reflexivity.
  - intros tr' s' R.
    match type of R with run _ _ ?s0 _ _ => remember s0 as st0 eqn:E0 end.
    assert (present (penv st0) = true /\ ppcs st0 <> PEnded) as Hs by (subst st0; cbn; split; [reflexivity|intros X; discriminate X]).
    clear E0. apply proj2 with (A := present (penv s') = true).
    induction R as [|s0 t s1 l s2 R IH Ok St]; [exact Hs|]. destruct (IH Hs) as [Pp Ne]. clear IH.
    destruct (pstep_env _ _ _ _ _ St) as [X|[X _]].
    + rewrite (estep_env_label _ _ _ X) in Ok. discriminate.
    + rewrite X. split; [exact Pp|]. inversion St; subst; cbn [ppcs]; try congruence; try discriminate.
      * destruct (rb s1 <=? sz); cbn [ppcs]; discriminate.
      * exfalso. match goal with Hg : plain_sees false _ _ = false |- _ => cbn in Hg; congruence end.
Qed.
