(* C16: the special keys of `rare expression` (cmd/expressions.go buildSpecialKeyJson). *)
From Coq Require Import List NArith ZArith Bool Lia Permutation.
From RareV Require Import Base.Hex Base.Num Base.Res Model.Json
  Proofs.JsonEscape Proofs.JsonParse Proofs.JsonSort Proofs.JsonMain.
Import ListNotations.

Lemma str_members_wf ms : Forall (fun m => wf_val (snd m)) (str_members ms).
Proof. induction ms as [|[k v] ms IH]; constructor; [exact I|exact IH]. Qed.

(* valid and faithful: the reader returns every pair as a string member with exactly the text *)
Theorem cli_parse_exact nb nm data keys :
  json_parse (cli_view nb nm data keys) = Some (str_members (cli_expected nb nm data keys)).
Proof. apply parse_render. apply str_members_wf. Qed.

Lemma members_ok_str ms : members_ok_b ms (str_members ms) = true.
Proof.
  induction ms as [|[k v] ms IH]; [reflexivity|].
  cbn [str_members map members_ok_b fst snd member_ok_b]. rewrite !bytes_eqb_refl. exact IH.
Qed.

Theorem cli_check_sound nb nm data keys :
  C16_check_view (Ok (cli_expected nb nm data keys)) [cli_view nb nm data keys] = true.
Proof.
  cbn [C16_check_view]. unfold view_ok_b. rewrite cli_parse_exact. apply members_ok_str.
Qed.

(* deterministic: independent of the iteration order of the -k map (distinct keys) *)
Lemma lookup_perm keys keys' : Permutation keys keys' -> NoDup (map fst keys) ->
  forall k, lookup_kv k keys = lookup_kv k keys'.
Proof.
  induction 1 as [|[k1 v1] l l' P IH|[k1 v1] [k2 v2] l|l l' l'' P1 IH1 P2 IH2]; intros ND k.
  - reflexivity.
  - cbn [lookup_kv]. cbn [map fst] in ND. inversion ND; subst. rewrite (IH H2 k). reflexivity.
  - cbn [lookup_kv]. cbn [map fst] in ND. inversion ND as [|? ? N1 ND2]; subst.
    destruct (bytes_eqb k1 k) eqn:E1; destruct (bytes_eqb k2 k) eqn:E2; try reflexivity.
    apply bytes_eqb_eq in E1, E2. subst. exfalso. apply N1. now left.
  - rewrite (IH1 ND k). apply IH2.
    eapply Permutation_NoDup; [apply Permutation_map; exact P1|exact ND].
Qed.

Theorem cli_deterministic nb nm data keys keys' :
  Permutation keys keys' -> NoDup (map fst keys) ->
  cli_view nb nm data keys = cli_view nb nm data keys'.
Proof.
  intros P ND. unfold cli_view, cli_expected, cli_named.
  rewrite (sort_perm _ _ (Permutation_map (fun kv : bytes * bytes => (fst kv, 0%Z)) P)).
  destruct nm; [|reflexivity]. do 3 f_equal.
  apply map_ext. intros e. f_equal. apply lookup_perm; assumption.
Qed.
