(* C19 — proofs about the parser model (Model/MathParse.v), for an arbitrary precedence table:
   soundness (nothing dropped or invented, the result obeys the order of operations),
   completeness and uniqueness, fuel sufficiency, no panic when every operator key has a level. *)
From Coq Require Import List Arith Lia Bool ZArith.
From RareV Require Import Base.Res Model.MathParse.
Import ListNotations.

Section P.
Variables A M Op : Type.
Variable oeqb : Op -> Op -> bool.
Variable tbl : list (list Op).
Variable isop : Op -> bool.
Variable mulop : Op.
Variable repaired : bool.

Notation tok := (tok A M Op).
Notation ast := (ast A M Op).
Notation pres := (pres A M Op).
Notation parse := (parse A M Op oeqb tbl isop mulop repaired).
Notation next_expr := (next_expr A M Op oeqb tbl isop mulop repaired).
Notation loop := (loop A M Op oeqb tbl isop mulop repaired).
Notation inorder := (inorder A M Op).
Notation lvl := (lvl Op oeqb tbl).
Notation in_tbl := (in_tbl Op oeqb tbl).
Notation stopsR := (stopsR Op oeqb tbl).
Notation order_go := (order_go Op oeqb).
Notation lvl_in := (lvl_in Op oeqb).
Notation omem := (omem Op oeqb).
Notation wp := (wp A M Op oeqb tbl mulop).
Notation ops_in := (ops_in A M Op oeqb tbl isop).
Notation le_root := (le_root A M Op oeqb tbl).
Notation lt_root := (lt_root A M Op oeqb tbl).
Notation primary := (primary A M Op).
Notation starts_group := (starts_group A M Op).
Notation cost := (cost A M Op).
Notation tsize := (tsize A M Op).
Notation toksize := (toksize A M Op).

(* "stop here": the enclosing operator binds at least as tightly *)
Definition stops (last : option Op) (o : Op) : bool :=
  match last with None => false | Some l => lvl l <=? lvl o end.

(* ---- opCodeOrder against the level function ---- *)
Lemma order_spec t : forall last o z, order_go t last o = Ok z ->
  (z <=? 0)%Z = match last with None => false | Some l => lvl_in t l <=? lvl_in t o end.
Proof.
  induction t as [|s rest IH]; intros last o z H; cbn [MathParse.order_go] in H; [discriminate|].
  cbn [MathParse.lvl_in]. destruct last as [l|].
  - destruct (omem l s) eqn:E0, (omem o s) eqn:E1; cbn in H.
    + inversion H; reflexivity.
    + inversion H; reflexivity.
    + inversion H; reflexivity.
    + apply IH in H. rewrite H. reflexivity.
  - destruct (omem o s) eqn:E1; cbn in H.
    + inversion H; reflexivity.
    + apply (IH None) in H. exact H.
Qed.

Lemma order_ok t : forall last o, lvl_in t o < length t -> exists z, order_go t last o = Ok z.
Proof.
  induction t as [|s rest IH]; intros last o H; cbn [MathParse.lvl_in length] in H; [lia|].
  cbn [MathParse.order_go]. destruct (omem o s) eqn:E1.
  - destruct (match last with Some a => omem a s | None => false end); cbn; eauto.
  - destruct (IH last o) as [z Hz]; [lia|].
    destruct (match last with Some a => omem a s | None => false end); cbn; eauto.
Qed.

Lemma stopsR_ok last o b : stopsR last o = Ok b -> b = stops last o.
Proof.
  unfold MathParse.stopsR. destruct (order_go tbl last o) as [z|] eqn:E; [|discriminate].
  intros H. inversion H; subst. apply order_spec in E. rewrite E. destruct last; reflexivity.
Qed.

Lemma stopsR_in last o : in_tbl o -> stopsR last o = Ok (stops last o).
Proof.
  intros H. destruct (order_ok tbl last o H) as [z Hz].
  destruct (stopsR last o) as [b|] eqn:E.
  - now rewrite (stopsR_ok _ _ _ E).
  - unfold MathParse.stopsR in E. rewrite Hz in E. discriminate.
Qed.

(* ---- unfolding equations ---- *)
Lemma parse_S f last ts : parse (S f) last ts =
    match ts with
    | [] => PErr
    | _ => match next_expr f ts with POk e r => loop f last e r | x => x end
    end.
Proof. reflexivity. Qed.
Lemma next_S f ts : next_expr (S f) ts =
    match ts with
    | TAtom a :: r => POk (Atom a) r
    | TGroup g :: r =>
        match parse f None g with
        | POk e [] => POk (Grp e) r
        | POk _ (_ :: _) => PErr
        | x => x
        end
    | TMod m :: r => match next_expr f r with POk e r' => POk (Un m e) r' | x => x end
    | TOp _ :: _ => PErr
    | [] => if repaired then PErr else PPanic
    end.
Proof. reflexivity. Qed.
Lemma loop_S f last ret ts : loop (S f) last ret ts =
    match ts with
    | [] => POk ret []
    | TOp o :: rest =>
        if negb (isop o) then PErr
        else match stopsR last o with
        | Panic => PPanic
        | Ok true => POk ret ts
        | Ok false => match parse f (Some o) rest with POk e r' => loop f last (Bin o false ret e) r' | x => x end
        end
    | TGroup _ :: _ =>
        match stopsR last mulop with
        | Panic => PPanic
        | Ok true => POk ret ts
        | Ok false => match parse f (Some mulop) ts with POk e r' => loop f last (Bin mulop true ret e) r' | x => x end
        end
    | _ => PErr
    end.
Proof. reflexivity. Qed.

Ltac fuel0 := repeat split; intros; discriminate.

(* ---- soundness: nothing dropped, nothing invented ---- *)
Lemma sound fuel :
  (forall last ts t r, parse fuel last ts = POk t r -> ts = inorder t ++ r) /\
  (forall ts t r, next_expr fuel ts = POk t r -> ts = inorder t ++ r) /\
  (forall last ret ts t r, loop fuel last ret ts = POk t r -> inorder ret ++ ts = inorder t ++ r).
Proof.
  induction fuel as [|f (IHp & IHn & IHl)]; [fuel0|].
  repeat split.
  - intros last ts t r H. rewrite parse_S in H. destruct ts as [|t0 ts0]; [discriminate|].
    destruct (next_expr f (t0 :: ts0)) as [e r0| | |] eqn:E; try discriminate.
    apply IHn in E. apply IHl in H. now rewrite E.
  - intros ts t r H. rewrite next_S in H. destruct ts as [|[a|o|m|g] ts0]; try discriminate.
    + destruct repaired; discriminate.
    + inversion H; subst. reflexivity.
    + destruct (next_expr f ts0) as [e r'| | |] eqn:E; try discriminate. inversion H; subst. apply IHn in E. now rewrite E.
    + destruct (parse f None g) as [e [|x xs]| | |] eqn:E; try discriminate. inversion H; subst.
      apply IHp in E. rewrite app_nil_r in E. now rewrite E.
  - intros last ret ts t r H. rewrite loop_S in H. destruct ts as [|[a|o|m|g] ts0]; try discriminate.
    + inversion H; subst. reflexivity.
    + destruct (isop o); cbn [negb] in H; [|discriminate].
      destruct (stopsR last o) as [[|]|]; [inversion H; subst; reflexivity| |discriminate].
      destruct (parse f (Some o) ts0) as [e r'| | |] eqn:E; try discriminate.
      apply IHp in E. apply IHl in H. rewrite <- H. simpl. rewrite E, <- !app_assoc. reflexivity.
    + destruct (stopsR last mulop) as [[|]|]; [inversion H; subst; reflexivity| |discriminate].
      destruct (parse f (Some mulop) (TGroup g :: ts0)) as [e r'| | |] eqn:E; try discriminate.
      apply IHp in E. apply IHl in H. rewrite <- H. simpl. rewrite E, <- !app_assoc. reflexivity.
Qed.

(* ---- fuel monotonicity (for successful runs) ---- *)
Lemma mono fuel :
  (forall last ts t r, parse fuel last ts = POk t r -> parse (S fuel) last ts = POk t r) /\
  (forall ts t r, next_expr fuel ts = POk t r -> next_expr (S fuel) ts = POk t r) /\
  (forall last ret ts t r, loop fuel last ret ts = POk t r -> loop (S fuel) last ret ts = POk t r).
Proof.
  induction fuel as [|f (IHp & IHn & IHl)]; [fuel0|].
  repeat split.
  - intros last ts t r H. rewrite parse_S in H. rewrite (parse_S (S f)). destruct ts as [|t0 ts0]; [discriminate|].
    destruct (next_expr f (t0 :: ts0)) as [e r0| | |] eqn:E; try discriminate.
    rewrite (IHn _ _ _ E). now apply IHl.
  - intros ts t r H. rewrite next_S in H. rewrite (next_S (S f)). destruct ts as [|[a|o|m|g] ts0]; try discriminate; auto.
    + destruct (next_expr f ts0) as [e r'| | |] eqn:E; try discriminate. now rewrite (IHn _ _ _ E).
    + destruct (parse f None g) as [e r'| | |] eqn:E; try discriminate. now rewrite (IHp _ _ _ _ E).
  - intros last ret ts t r H. rewrite loop_S in H. rewrite (loop_S (S f)). destruct ts as [|[a|o|m|g] ts0]; try discriminate; auto.
    + destruct (isop o); cbn [negb] in *; [|discriminate].
      destruct (stopsR last o) as [[|]|]; auto.
      destruct (parse f (Some o) ts0) as [e r'| | |] eqn:E; try discriminate. rewrite (IHp _ _ _ _ E). now apply IHl.
    + destruct (stopsR last mulop) as [[|]|]; auto.
      destruct (parse f (Some mulop) (TGroup g :: ts0)) as [e r'| | |] eqn:E; try discriminate. rewrite (IHp _ _ _ _ E). now apply IHl.
Qed.

Lemma mono_le f f' : f <= f' ->
  (forall last ts t r, parse f last ts = POk t r -> parse f' last ts = POk t r) /\
  (forall ts t r, next_expr f ts = POk t r -> next_expr f' ts = POk t r) /\
  (forall last ret ts t r, loop f last ret ts = POk t r -> loop f' last ret ts = POk t r).
Proof.
  induction 1 as [|f' Hle (IHp & IHn & IHl)]; [repeat split; auto|].
  destruct (mono f') as (Mp & Mn & Ml). repeat split; intros; [apply Mp, IHp|apply Mn, IHn|apply Ml, IHl]; assumption.
Qed.

(* ---- precedence well-formedness ---- *)
Definition lt_last (t : ast) (last : option Op) := match last with None => True | Some l => lt_root t (lvl l) end.
Definition stop_ok (last : option Op) (rest : list tok) :=
  match rest with [] => True | TOp o :: _ => stops last o = true | TGroup _ :: _ => stops last mulop = true | _ => False end.
Definition cont_ok (t : ast) (rest : list tok) := match t with Bin o _ _ _ => stop_ok (Some o) rest | _ => True end.
(* the operator at the head of the rest (if any) is a known one *)
Definition head_known (rest : list tok) :=
  match rest with TOp o :: _ => isop o = true /\ in_tbl o | TGroup _ :: _ => in_tbl mulop | _ => True end.

Lemma cost_ge t : 2 <= cost t.
Proof. induction t; simpl; lia. Qed.

Lemma loop_stop f last t rest : stop_ok last rest -> head_known rest -> last <> None \/ rest = [] ->
  loop (S f) last t rest = POk t rest.
Proof.
  intros Hs Hk Hl. rewrite loop_S. destruct rest as [|[a|o|m|g] rest]; try reflexivity; try (now destruct Hs).
  - simpl in Hs, Hk. destruct Hk as [Hi Ht]. rewrite Hi. cbn [negb]. rewrite (stopsR_in _ _ Ht), Hs. reflexivity.
  - simpl in Hs, Hk. rewrite (stopsR_in _ _ Hk), Hs. reflexivity.
Qed.

(* completeness, mutually for primaries (next_expr) and arbitrary trees (parse/loop) *)
Lemma complete t : wp t -> ops_in t ->
  (primary t -> forall f rest, cost t <= S f -> next_expr f (inorder t ++ rest) = POk t rest) /\
  (forall last rest f t' r', lt_last t last -> cont_ok t rest -> head_known rest ->
      loop f last t rest = POk t' r' -> parse (f + cost t) last (inorder t ++ rest) = POk t' r').
Proof.
  induction t as [a | m e IHe | o imp l IHl r IHr | e IHe]; intros Hwp Hops.
  - (* Atom *) split.
    + intros _ f rest Hf. destruct f; [simpl in Hf; lia|]. reflexivity.
    + intros last rest f t' r' _ _ _ H. replace (f + cost (Atom a)) with (S (S f)) by (simpl; lia).
      rewrite parse_S. cbn [MathParse.inorder app]. rewrite next_S.
      destruct (mono_le f (S f) (le_S _ _ (le_n _))) as (_ & _ & Ml). now apply Ml.
  - (* Un *) destruct Hwp as (Hpe & Hwe). simpl in Hops. destruct (IHe Hwe Hops) as (IHn & _). split.
    + intros _ f rest Hf. pose proof (cost_ge e). destruct f; [simpl in Hf; lia|]. cbn [MathParse.inorder app]. rewrite next_S.
      rewrite IHn; [reflexivity|assumption|simpl in Hf; lia].
    + intros last rest f t' r' _ _ _ H. replace (f + cost (Un m e)) with (S (S (f + cost e))) by (simpl; lia).
      rewrite parse_S. cbn [MathParse.inorder app]. rewrite next_S. rewrite IHn; [|assumption|lia].
      destruct (mono_le f (S (f + cost e))) as (_ & _ & Ml); [lia|]. now apply Ml.
  - (* Bin *) destruct Hwp as (Hwl & Hwr & Hle & Hlt & Himp). destruct Hops as (Hio & Hit & Hol & Hor).
    destruct (IHl Hwl Hol) as (_ & IHlp). destruct (IHr Hwr Hor) as (_ & IHrp).
    split; [intros []|].
    intros last rest f t' r' Hlast Hcont Hk H.
    (* parse of r under last = Some o returns (r, rest) *)
    assert (Hr : parse (S (cost r)) (Some o) (inorder r ++ rest) = POk r rest).
    { replace (S (cost r)) with (1 + cost r) by lia. apply IHrp; [exact Hlt| |exact Hk|].
      - destruct r as [| | o2 i2 l2 r2|]; simpl; auto. simpl in Hlt. simpl in Hcont.
        destruct rest as [|[a|o'|m'|g'] rest']; simpl in *; auto; apply Nat.leb_le in Hcont; apply Nat.leb_le; lia.
      - apply loop_stop; [exact Hcont|exact Hk|left; discriminate]. }
    (* one loop step from l *)
    set (F := f + S (cost r)).
    assert (Hns : stops last o = false).
    { destruct last as [l0|]; [|reflexivity]. simpl in Hlast. simpl. apply Nat.leb_gt. exact Hlast. }
    assert (Hstep : loop (S F) last l ((if imp then [] else [TOp o]) ++ inorder r ++ rest) = POk t' r').
    { destruct (mono_le (S (cost r)) F) as (Mp & _ & _); [unfold F; lia|].
      destruct (mono_le f F) as (_ & _ & Ml); [unfold F; lia|].
      destruct imp.
      - destruct (Himp eq_refl) as (-> & Hsg). unfold MathParse.starts_group in Hsg.
        cbn [app]. destruct (inorder r) as [|[a|o'|m'|g'] ir] eqn:Eir; try contradiction.
        cbn [app] in Hr. cbn [app]. rewrite loop_S, (stopsR_in _ _ Hit), Hns. rewrite (Mp _ _ _ _ Hr). now apply Ml.
      - cbn [app]. rewrite loop_S, (Hio eq_refl). cbn [negb]. rewrite (stopsR_in _ _ Hit), Hns. rewrite (Mp _ _ _ _ Hr). now apply Ml. }
    destruct (mono_le (S F + cost l) (f + cost (Bin o imp l r))) as (Mp' & _ & _); [unfold F; simpl; lia|]. apply Mp'.
    cbn [MathParse.inorder]. rewrite <- !app_assoc. apply IHlp; [| | |exact Hstep].
    + destruct last as [l0|]; [|exact I]. simpl in *. destruct l; simpl in *; auto. lia.
    + destruct l as [| | o1 i1 l1 r1|]; simpl; auto. simpl in Hle.
      destruct imp.
      * destruct (Himp eq_refl) as (-> & Hsg). unfold MathParse.starts_group in Hsg. cbn [app].
        destruct (inorder r) as [|[a|o'|m'|g'] ir]; try contradiction. simpl. now apply Nat.leb_le.
      * simpl. now apply Nat.leb_le.
    + destruct imp.
      * destruct (Himp eq_refl) as (-> & Hsg). unfold MathParse.starts_group in Hsg. cbn [app].
        destruct (inorder r) as [|[a|o'|m'|g'] ir]; try contradiction. simpl. exact Hit.
      * simpl. split; [apply Hio; reflexivity|exact Hit].
  - (* Grp *) simpl in Hwp, Hops. destruct (IHe Hwp Hops) as (_ & IHp).
    assert (He : forall f, cost e <= f -> parse (S f) None (inorder e) = POk e []).
    { intros f Hf. pose proof (IHp None [] 1 e [] I) as H. rewrite app_nil_r in H.
      destruct (mono_le (1 + cost e) (S f)) as (Mp & _ & _); [lia|]. apply Mp. apply H.
      - destruct e; simpl; auto.
      - exact I.
      - apply loop_stop; [exact I|exact I|now right]. }
    split.
    + intros _ f rest Hf. destruct f; [simpl in Hf; lia|]. cbn [MathParse.inorder app]. rewrite next_S.
      destruct f; [simpl in Hf; lia|]. rewrite He by (simpl in Hf; lia). reflexivity.
    + intros last rest f t' r' _ _ _ H. replace (f + cost (Grp e)) with (S (S (S (f + cost e)))) by (simpl; lia).
      rewrite parse_S. cbn [MathParse.inorder app]. rewrite next_S. rewrite He by lia.
      destruct (mono_le f (S (S (f + cost e)))) as (_ & _ & Ml); [lia|]. now apply Ml.
Qed.

Theorem parse_complete t : wp t -> ops_in t -> parse (S (cost t)) None (inorder t) = POk t [].
Proof.
  intros Hwp Hops. destruct (complete t Hwp Hops) as (_ & Hp).
  pose proof (Hp None [] 1 t [] I) as H. rewrite app_nil_r in H. apply H.
  - destruct t; simpl; auto.
  - exact I.
  - apply loop_stop; [exact I|exact I|now right].
Qed.

(* ---- soundness of the precedence structure ---- *)
Definition head_ok (ret : ast) (ts : list tok) :=
  match ts with TOp o :: _ => le_root ret (lvl o) | TGroup _ :: _ => le_root ret (lvl mulop) | _ => True end.

Lemma inorder_nonempty t : inorder t <> [].
Proof. induction t; simpl; try discriminate. destruct (inorder t1); [contradiction|discriminate]. Qed.

Lemma wp_sound fuel :
  (forall last ts t r, parse fuel last ts = POk t r -> wp t /\ lt_last t last /\ stop_ok last r) /\
  (forall ts t r, next_expr fuel ts = POk t r -> wp t /\ primary t) /\
  (forall last ret ts t r, loop fuel last ret ts = POk t r -> wp ret -> lt_last ret last -> head_ok ret ts ->
                           wp t /\ lt_last t last /\ stop_ok last r).
Proof.
  induction fuel as [|f (IHp & IHn & IHl)]; [fuel0|].
  split; [|split].
  - intros last ts t r H. rewrite parse_S in H. destruct ts as [|t0 ts0]; [discriminate|].
    destruct (next_expr f (t0 :: ts0)) as [e r0| | |] eqn:E; try discriminate.
    destruct (IHn _ _ _ E) as (Hwe & Hpe). apply IHl in H; auto.
    + destruct last; simpl; auto. destruct e; simpl in *; auto. contradiction.
    + destruct r0 as [|[a|o|m|g] r0]; simpl; auto; destruct e; simpl in *; auto; contradiction.
  - intros ts t r H. rewrite next_S in H. destruct ts as [|[a|o|m|g] ts0]; try discriminate.
    + destruct repaired; discriminate.
    + inversion H; subst. simpl. auto.
    + destruct (next_expr f ts0) as [e r'| | |] eqn:E; try discriminate. inversion H; subst.
      destruct (IHn _ _ _ E). simpl. auto.
    + destruct (parse f None g) as [e [|x xs]| | |] eqn:E; try discriminate. inversion H; subst.
      destruct (IHp _ _ _ _ E) as (Hw & _). simpl. auto.
  - intros last ret ts t r H Hwr Hlr Hh. rewrite loop_S in H. destruct ts as [|[a|o|m|g] ts0]; try discriminate.
    + inversion H; subst. simpl. auto.
    + destruct (isop o); cbn [negb] in H; [|discriminate].
      destruct (stopsR last o) as [[|]|] eqn:Es0; [| |discriminate]; apply stopsR_ok in Es0; symmetry in Es0;
        [inversion H; subst; simpl; auto|].
      rename Es0 into Es.
      destruct (parse f (Some o) ts0) as [e r'| | |] eqn:E; try discriminate.
      destruct (IHp _ _ _ _ E) as (Hwe & Hle & Hst). simpl in Hle.
      apply IHl in H; auto.
      * simpl. repeat split; auto; discriminate.
      * destruct last as [l0|]; simpl; auto. simpl in Es. apply Nat.leb_gt in Es. exact Es.
      * destruct r' as [|[a'|o'|m'|g'] r'']; simpl in *; auto; now apply Nat.leb_le.
    + destruct (stopsR last mulop) as [[|]|] eqn:Es0; [| |discriminate]; apply stopsR_ok in Es0; symmetry in Es0;
        [inversion H; subst; simpl; auto|].
      rename Es0 into Es.
      destruct (parse f (Some mulop) (TGroup g :: ts0)) as [e r'| | |] eqn:E; try discriminate.
      destruct (IHp _ _ _ _ E) as (Hwe & Hle & Hst). simpl in Hle.
      destruct (sound f) as (Sp & _ & _). pose proof (Sp _ _ _ _ E) as Hin.
      apply IHl in H; auto.
      * simpl. repeat split; auto. unfold MathParse.starts_group.
        pose proof (inorder_nonempty e). destruct (inorder e) as [|x xs]; [contradiction|].
        simpl in Hin. inversion Hin; subst. exact I.
      * destruct last as [l0|]; simpl; auto. simpl in Es. apply Nat.leb_gt in Es. exact Es.
      * destruct r' as [|[a'|o'|m'|g'] r'']; simpl in *; auto; now apply Nat.leb_le.
Qed.

Theorem parse_sound fuel ts t : parse fuel None ts = POk t [] -> inorder t = ts /\ wp t.
Proof.
  intros H. destruct (sound fuel) as (Sp & _ & _). destruct (wp_sound fuel) as (Wp & _ & _).
  pose proof (Sp _ _ _ _ H) as E. rewrite app_nil_r in E. destruct (Wp _ _ _ _ H) as (Hw & _). auto.
Qed.

(* with no enclosing operator the loop only stops at the end of the tokens *)
Lemma parse_none_rest fuel ts t r : parse fuel None ts = POk t r -> r = [].
Proof.
  intros H. destruct (wp_sound fuel) as (Wp & _ & _). destruct (Wp _ _ _ _ H) as (_ & _ & Hs).
  destruct r as [|[a|o|m|g] r]; simpl in Hs; try reflexivity; try contradiction; discriminate.
Qed.

(* every operator of a parsed tree is a key of ops / has a level *)
Lemma ops_sound (Hmul : in_tbl mulop) fuel :
  (forall last ts t r, parse fuel last ts = POk t r -> ops_in t) /\
  (forall ts t r, next_expr fuel ts = POk t r -> ops_in t) /\
  (forall last ret ts t r, loop fuel last ret ts = POk t r -> ops_in ret -> ops_in t).
Proof.
  induction fuel as [|f (IHp & IHn & IHl)]; [fuel0|].
  split; [|split].
  - intros last ts t r H. rewrite parse_S in H. destruct ts as [|t0 ts0]; [discriminate|].
    destruct (next_expr f (t0 :: ts0)) as [e r0| | |] eqn:E; try discriminate. eauto.
  - intros ts t r H. rewrite next_S in H. destruct ts as [|[a|o|m|g] ts0]; try discriminate.
    + destruct repaired; discriminate.
    + inversion H; subst. exact I.
    + destruct (next_expr f ts0) as [e r'| | |] eqn:E; try discriminate. inversion H; subst. simpl. eauto.
    + destruct (parse f None g) as [e [|x xs]| | |] eqn:E; try discriminate. inversion H; subst. simpl. eauto.
  - intros last ret ts t r H Ho. rewrite loop_S in H. destruct ts as [|[a|o|m|g] ts0]; try discriminate.
    + inversion H; subst. exact Ho.
    + destruct (isop o) eqn:Ei; cbn [negb] in H; [|discriminate].
      destruct (stopsR last o) as [[|]|] eqn:Es; [inversion H; subst; exact Ho| |discriminate].
      destruct (parse f (Some o) ts0) as [e r'| | |] eqn:E; try discriminate.
      apply IHl in H; auto. simpl. repeat split; eauto.
      (* o has a level: otherwise with last... we use the table fact through stopsR *)
      unfold MathParse.in_tbl, MathParse.lvl.
      unfold MathParse.stopsR in Es. destruct (order_go tbl last o) as [z|] eqn:Eo; [|discriminate].
      inversion Es as [Hz]. clear Es.
      (* z > 0 means o is in the table strictly before last (or last absent) *)
      revert Eo Hz. clear. revert last z. induction tbl as [|s rest IH]; intros last z Eo Hz; cbn in Eo; [discriminate|].
      cbn [MathParse.lvl_in length]. destruct (omem o s) eqn:E1; [lia|].
      destruct (match last with Some a => omem a s | None => false end) eqn:E0; cbn in Eo.
      * inversion Eo; subst. discriminate.
      * specialize (IH _ _ Eo Hz). lia.
    + destruct (stopsR last mulop) as [[|]|] eqn:Es; [inversion H; subst; exact Ho| |discriminate].
      destruct (parse f (Some mulop) (TGroup g :: ts0)) as [e r'| | |] eqn:E; try discriminate.
      apply IHl in H; auto. simpl. repeat split; eauto. discriminate.
Qed.

(* uniqueness of the parse under the order of operations *)
Corollary wp_unique t1 t2 : wp t1 -> wp t2 -> ops_in t1 -> ops_in t2 -> inorder t1 = inorder t2 -> t1 = t2.
Proof.
  intros H1 H2 O1 O2 E. pose proof (parse_complete t1 H1 O1) as P1. pose proof (parse_complete t2 H2 O2) as P2.
  rewrite E in P1.
  destruct (mono_le (S (cost t1)) (S (cost t1) + S (cost t2))) as (M1 & _ & _); [lia|].
  destruct (mono_le (S (cost t2)) (S (cost t1) + S (cost t2))) as (M2 & _ & _); [lia|].
  apply M1 in P1. apply M2 in P2. rewrite P1 in P2. now inversion P2.
Qed.

(* ---- fuel: 2 * size + small constant is always enough ---- *)
Lemma tsize_app a b : tsize (a ++ b) = tsize a + tsize b.
Proof. induction a as [|x a IH]; simpl; [reflexivity|]. rewrite IH. lia. Qed.
Lemma toksize_pos (x : tok) : 1 <= toksize x.
Proof. destruct x; simpl; lia. Qed.
Lemma tsize_inorder_pos t : 1 <= tsize (inorder t).
Proof.
  pose proof (inorder_nonempty t). destruct (inorder t) as [|x xs]; [contradiction|].
  simpl. pose proof (toksize_pos x). lia.
Qed.

Lemma fuel_enough fuel :
  (forall last ts, 2 * tsize ts + 1 <= fuel -> parse fuel last ts <> PFuel) /\
  (forall ts, 2 * tsize ts <= fuel -> 1 <= fuel -> next_expr fuel ts <> PFuel) /\
  (forall last ret ts, 2 * tsize ts + 2 <= fuel -> loop fuel last ret ts <> PFuel).
Proof.
  induction fuel as [|f (IHp & IHn & IHl)]; [repeat split; intros; lia|].
  destruct (sound f) as (Sp & Sn & Sl).
  split; [|split].
  - intros last ts Hf. rewrite parse_S. destruct ts as [|t0 ts0]; [discriminate|].
    destruct (next_expr f (t0 :: ts0)) as [e r0| | |] eqn:E; try discriminate.
    + apply IHl. apply Sn in E. rewrite E, tsize_app in Hf. pose proof (tsize_inorder_pos e). lia.
    + exfalso. revert E. apply IHn; [lia|]. simpl in Hf. pose proof (toksize_pos t0). lia.
  - intros ts Hf H1. rewrite next_S. destruct ts as [|[a|o|m|g] ts0]; try discriminate.
    + destruct repaired; discriminate.
    + destruct (next_expr f ts0) as [e r'| | |] eqn:E; try discriminate.
      exfalso. revert E. simpl in Hf. apply IHn; lia.
    + destruct (parse f None g) as [e [|x xs]| | |] eqn:E; try discriminate.
      exfalso. revert E. apply IHp. cbn [MathParse.tsize] in Hf. rewrite toksize_group in Hf. lia.
  - intros last ret ts Hf. rewrite loop_S. destruct ts as [|[a|o|m|g] ts0]; try discriminate.
    + destruct (isop o); cbn [negb]; [|discriminate].
      destruct (stopsR last o) as [[|]|]; try discriminate.
      destruct (parse f (Some o) ts0) as [e r'| | |] eqn:E; try discriminate.
      * apply IHl. apply Sp in E. simpl in Hf. rewrite E, tsize_app in Hf. pose proof (tsize_inorder_pos e). lia.
      * exfalso. revert E. apply IHp. simpl in Hf. lia.
    + destruct (stopsR last mulop) as [[|]|]; try discriminate.
      destruct (parse f (Some mulop) (TGroup g :: ts0)) as [e r'| | |] eqn:E; try discriminate.
      * apply IHl. apply Sp in E. rewrite E, tsize_app in Hf. pose proof (tsize_inorder_pos e). lia.
      * exfalso. revert E. apply IHp. lia.
Qed.

Lemma cost_le t : cost t + 2 <= 4 * tsize (inorder t).
Proof.
  induction t as [a | m e IHe | o imp l IHl r IHr | e IHe]; cbn [MathParse.cost MathParse.inorder].
  - simpl. lia.
  - cbn [MathParse.tsize MathParse.toksize]. lia.
  - rewrite !tsize_app. destruct imp; cbn [MathParse.tsize MathParse.toksize]; lia.
  - cbn [MathParse.tsize]. rewrite toksize_group. lia.
Qed.

(* ---- no panic: every operator key has a level (table well-formedness) and the repaired getNextExpr ---- *)
Lemma no_panic (Hrep : repaired = true) (Hops : forall o, isop o = true -> in_tbl o) (Hmul : in_tbl mulop) fuel :
  (forall last ts, parse fuel last ts <> PPanic) /\
  (forall ts, next_expr fuel ts <> PPanic) /\
  (forall last ret ts, loop fuel last ret ts <> PPanic).
Proof.
  induction fuel as [|f (IHp & IHn & IHl)]; [repeat split; intros; discriminate|].
  split; [|split].
  - intros last ts. rewrite parse_S. destruct ts as [|t0 ts0]; [discriminate|].
    destruct (next_expr f (t0 :: ts0)) as [e r0| | |] eqn:E; try discriminate; [apply IHl|]. exfalso. revert E. apply IHn.
  - intros ts. rewrite next_S. destruct ts as [|[a|o|m|g] ts0]; try discriminate.
    + rewrite Hrep. discriminate.
    + destruct (next_expr f ts0) as [e r'| | |] eqn:E; try discriminate. exfalso. revert E. apply IHn.
    + destruct (parse f None g) as [e [|x xs]| | |] eqn:E; try discriminate. exfalso. revert E. apply IHp.
  - intros last ret ts. rewrite loop_S. destruct ts as [|[a|o|m|g] ts0]; try discriminate.
    + destruct (isop o) eqn:Ei; cbn [negb]; [|discriminate].
      rewrite (stopsR_in _ _ (Hops _ Ei)). destruct (stops last o); [discriminate|].
      destruct (parse f (Some o) ts0) as [e r'| | |] eqn:E; try discriminate; [apply IHl|]. exfalso. revert E. apply IHp.
    + rewrite (stopsR_in _ _ Hmul). destruct (stops last mulop); [discriminate|].
      destruct (parse f (Some mulop) (TGroup g :: ts0)) as [e r'| | |] eqn:E; try discriminate; [apply IHl|]. exfalso. revert E. apply IHp.
Qed.

(* ---- malformed token lists are rejected ---- *)
Lemma inorder_last_not_op t : forall pre o, inorder t <> pre ++ [TOp o].
Proof.
  induction t as [a | m e IHe | o' imp l IHl r IHr | e IHe]; intros pre o H; simpl in H.
  - destruct pre as [|? [|? ?]]; simpl in H; inversion H.
  - destruct pre as [|x pre]; simpl in H; [inversion H; eapply inorder_nonempty; eauto|].
    inversion H. eapply IHe; eauto.
  - destruct (exists_last (inorder_nonempty r)) as (ri & x & Er).
    rewrite Er in H. rewrite !app_assoc in H. apply app_inj_tail in H. destruct H as [_ ->].
    eapply IHr; eauto.
  - destruct pre as [|? [|? ?]]; simpl in H; inversion H.
Qed.
Lemma inorder_last_not_mod t : forall pre m, inorder t <> pre ++ [TMod m].
Proof.
  induction t as [a | m' e IHe | o' imp l IHl r IHr | e IHe]; intros pre m H; simpl in H.
  - destruct pre as [|? [|? ?]]; simpl in H; inversion H.
  - destruct pre as [|x pre]; simpl in H; [inversion H; eapply inorder_nonempty; eauto|].
    inversion H. eapply IHe; eauto.
  - destruct (exists_last (inorder_nonempty r)) as (ri & x & Er).
    rewrite Er in H. rewrite !app_assoc in H. apply app_inj_tail in H. destruct H as [_ ->].
    eapply IHr; eauto.
  - destruct pre as [|? [|? ?]]; simpl in H; inversion H.
Qed.
Lemma inorder_first_not_op t : forall o rest, inorder t <> TOp o :: rest.
Proof.
  induction t as [a | m e IHe | o' imp l IHl r IHr | e IHe]; intros o rest H; simpl in H; try discriminate.
  pose proof (inorder_nonempty l). destruct (inorder l) as [|x xs] eqn:El; [contradiction|].
  simpl in H. inversion H; subst. eapply IHl; eauto.
Qed.

End P.
